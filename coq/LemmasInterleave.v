(** Proofs about the interleaver models: generic facts about scatter/gather through an index
    function with a two-sided inverse on [0,K), then the instance at the decoder's template
    arguments (where the inverse is found by search and checked by computation over all
    368 positions), the packed-byte variants, and the comparison with the specification. *)
From Coq Require Import NArith List Arith Bool Lia Permutation.
From Coq Require Import ZifyBool ZifyNat ZifyN.
From M17 Require Import Bits ImplUtilBits LemmasUtilBits ConstsInterleave ImplInterleave SpecInterleave.
Import ListNotations.

Lemma skipn_cons_nth {A} (d : A) : forall l n, n < length l -> skipn n l = nth n l d :: skipn (S n) l.
Proof. induction l as [|h t IH]; intros [|n] H; cbn [length] in H; try lia; [reflexivity|].
  cbn [skipn nth]. rewrite (IH n) by lia. reflexivity. Qed.

Lemma nth_map_seq {A} (f : nat -> A) d n i : i < n -> nth i (map f (seq 0 n)) d = f i.
Proof. intros H. rewrite (nth_indep _ d (f 0)) by (rewrite map_length, seq_length; exact H).
  rewrite map_nth, seq_nth by exact H. reflexivity. Qed.

(** simulation of one fold by another through an abstraction, the step only required on members of the list *)
Section SimIn.
Variables (A B C : Type) (f : A -> C -> A) (g : B -> C -> B) (abs : A -> B) (inv : A -> Prop).
Lemma sim_fold_in : forall cs a,
  (forall a c, In c cs -> inv a -> abs (f a c) = g (abs a) c /\ inv (f a c)) ->
  inv a -> abs (fold_left f cs a) = fold_left g cs (abs a) /\ inv (fold_left f cs a).
Proof. induction cs as [|c cs IH]; intros a Hstep Ha; [split; [reflexivity|exact Ha]|].
  cbn [fold_left]. destruct (Hstep a c (or_introl eq_refl) Ha) as [E L]. rewrite <- E. apply IH; [|exact L].
  intros a' c' Hin. apply Hstep. right. exact Hin. Qed.
End SimIn.
Arguments sim_fold_in {A B C}.

Lemma fill_in_order {A} (f : nat -> A) : forall n buf, n <= length buf ->
  fold_left (fun b i => set_nth i (f i) b) (seq 0 n) buf = map f (seq 0 n) ++ skipn n buf.
Proof. induction n as [|n IH]; intros buf H; [reflexivity|].
  rewrite seq_S, fold_left_app, map_app, IH by lia. cbn [fold_left map Nat.add].
  rewrite set_nth_app_r by (rewrite map_length, seq_length; lia). rewrite map_length, seq_length, Nat.sub_diag.
  rewrite (skipn_cons_nth (f n)) by lia. cbn [set_nth]. rewrite <- app_assoc. reflexivity. Qed.

Lemma bytes_bits_zeros n : bytes_bits (repeat 0%N n) = repeat false (8 * n).
Proof. induction n as [|n IH]; [reflexivity|]. unfold bytes_bits in *. cbn [repeat flat_map]. rewrite IH, byte_bits_0.
  replace (8 * S n) with (8 + 8 * n) by lia. rewrite repeat_app. reflexivity. Qed.

Section Generic.
Variables (F1 F2 KN : N) (inv : nat -> nat).
Notation idx := (il_index_of F1 F2 KN).
Notation K := (il_len KN).
Notation scatter := (interleave_of F1 F2 KN).
Notation gather := (deinterleave_of F1 F2 KN).
Notation scatter_bytes := (interleave_bytes_of F1 F2 KN).
Notation gather_bytes := (deinterleave_bytes_of F1 F2 KN).
Hypothesis Hb : forall i, idx i < K.
Hypothesis Hinv_l : forall i, i < K -> inv (idx i) = i.
Hypothesis Hinv_b : forall j, j < K -> inv j < K.
Hypothesis Hinv_r : forall j, j < K -> idx (inv j) = j.

Lemma idx_inj i j : i < K -> j < K -> idx i = idx j -> i = j.
Proof using All. intros Hi Hj E. rewrite <- (Hinv_l i Hi), <- (Hinv_l j Hj), E. reflexivity. Qed.


Lemma gather_map {A} (d : A) frame : gather d frame = map (fun i => nth (idx i) frame d) (seq 0 K).
Proof using All. unfold deinterleave_of. rewrite (fill_in_order (fun i => nth (idx i) frame d)) by (rewrite repeat_length; lia).
  rewrite skipn_all2 by (rewrite repeat_length; lia). apply app_nil_r. Qed.

Lemma scatter_prefix {A} (d : A) data : forall n, n <= K ->
  let buf := fold_left (fun buffer i => set_nth (idx i) (nth i data d) buffer) (seq 0 n) (repeat d K) in
  length buf = K /\ forall i, i < n -> nth (idx i) buf d = nth i data d.
Proof using All. induction n as [|n IH]; intros Hn; cbn zeta.
- split; [apply repeat_length | intros i Hi; lia].
- rewrite seq_S, fold_left_app. cbn [fold_left Nat.add]. destruct (IH ltac:(lia)) as [L P]. cbn zeta in L, P.
  split; [rewrite set_nth_length; exact L|]. intros i Hi. destruct (Nat.eq_dec i n) as [->|Hne].
  + apply nth_set_nth_eq. rewrite L. apply Hb.
  + rewrite nth_set_nth_neq; [apply P; lia|]. intro E. apply Hne. apply idx_inj; [lia|lia|exact E]. Qed.

Lemma scatter_length {A} (d : A) data : length (scatter d data) = K.
Proof using All. exact (proj1 (scatter_prefix d data K (le_n K))). Qed.

Lemma scatter_nth {A} (d : A) data i : i < K -> nth (idx i) (scatter d data) d = nth i data d.
Proof using All. exact (proj2 (scatter_prefix d data K (le_n K)) i). Qed.

(** scattering through idx is gathering through its inverse *)
Lemma scatter_map {A} (d : A) data : scatter d data = map (fun j => nth (inv j) data d) (seq 0 K).
Proof using All. apply nth_ext with (d := d) (d' := d); [rewrite scatter_length, map_length, seq_length; reflexivity|].
  rewrite scatter_length. intros j Hj.
  rewrite (nth_map_seq (fun j => nth (inv j) data d)) by exact Hj.
  rewrite <- (Hinv_r j Hj) at 1. apply scatter_nth. apply Hinv_b. exact Hj. Qed.

Lemma gather_length {A} (d : A) frame : length (gather d frame) = K.
Proof using All. rewrite gather_map, map_length, seq_length. reflexivity. Qed.

Lemma gather_nth {A} (d : A) frame i : i < K -> nth i (gather d frame) d = nth (idx i) frame d.
Proof using All. intros Hi. rewrite gather_map.
  apply (nth_map_seq (fun i => nth (idx i) frame d)). exact Hi. Qed.

Lemma gather_scatter {A} (d : A) l : length l = K -> gather d (scatter d l) = l.
Proof using All. intros H. apply nth_ext with (d := d) (d' := d); [rewrite gather_length; auto|].
  rewrite gather_length. intros i Hi. rewrite gather_nth by exact Hi. apply scatter_nth. exact Hi. Qed.

Lemma scatter_gather {A} (d : A) l : length l = K -> scatter d (gather d l) = l.
Proof using All. intros H. apply nth_ext with (d := d) (d' := d); [rewrite scatter_length; auto|].
  rewrite scatter_length. intros j Hj. rewrite <- (Hinv_r j Hj) at 1. rewrite scatter_nth by (apply Hinv_b; exact Hj).
  rewrite gather_nth by (apply Hinv_b; exact Hj). rewrite Hinv_r by exact Hj. reflexivity. Qed.

Lemma idx_perm : Permutation (map idx (seq 0 K)) (seq 0 K).
Proof using All. apply NoDup_Permutation; [| apply seq_NoDup |].
- assert (G : forall l, NoDup l -> (forall x, In x l -> x < K) -> NoDup (map idx l)).
  { induction l as [|x l IH]; intros ND Hl; [constructor|]. inversion ND; subst. cbn [map]. constructor.
    - intro Hin. apply in_map_iff in Hin. destruct Hin as [y [E Hy]].
      assert (y = x) by (apply idx_inj; [apply Hl; right; exact Hy | apply Hl; left; reflexivity | exact E]). subst. contradiction.
    - apply IH; [assumption|]. intros y Hy. apply Hl. right. exact Hy. }
  apply G; [apply seq_NoDup|]. intros x Hx. apply in_seq in Hx. lia.
- intros x. rewrite in_map_iff, in_seq. split.
  + intros [i [E _]]. subst. pose proof (Hb i). lia.
  + intros Hx. exists (inv x). split; [apply Hinv_r; lia|]. apply in_seq. pose proof (Hinv_b x). lia. Qed.

(** packed-byte variants: on the bit view they are the list variants (K a multiple of 8) *)
Hypothesis K8 : 8 * (K / 8) = K.


Lemma scatter_bytes_bits data : bytes_bits (scatter_bytes data) = scatter false (bytes_bits data) /\ length (scatter_bytes data) = K / 8.
Proof using All. unfold interleave_bytes_of, interleave_of. rewrite <- K8 at 4. rewrite <- bytes_bits_zeros.
  apply (sim_fold_in (fun buffer i => assign_bit_index buffer (idx i) (get_bit_index data i))
                     (fun buffer i => set_nth (idx i) (nth i (bytes_bits data) false) buffer)
                     bytes_bits (fun b => length b = K / 8)); [|apply repeat_length].
  intros a c _ Ha. split; [|rewrite assign_bit_index_length; exact Ha].
  rewrite assign_bit_index_spec by (rewrite Ha, K8; apply Hb). rewrite get_bit_index_spec. reflexivity. Qed.

Lemma gather_bytes_bits data : bytes_bits (gather_bytes data) = gather false (bytes_bits data) /\ length (gather_bytes data) = K / 8.
Proof using All. unfold deinterleave_bytes_of, deinterleave_of. rewrite <- K8 at 4. rewrite <- bytes_bits_zeros.
  apply (sim_fold_in (fun buffer i => assign_bit_index buffer i (get_bit_index data (idx i)))
                     (fun buffer i => set_nth i (nth (idx i) (bytes_bits data) false) buffer)
                     bytes_bits (fun b => length b = K / 8)); [|apply repeat_length].
  intros a c Hc Ha. split; [|rewrite assign_bit_index_length; exact Ha]. apply in_seq in Hc.
  rewrite assign_bit_index_spec by (rewrite Ha, K8; lia). rewrite get_bit_index_spec. reflexivity. Qed.
End Generic.

(** every byte the helpers store is a uint8_t *)
Lemma to_u8_byte x : is_byte (to_u8 x).
Proof. unfold is_byte, to_u8. change 255%N with (N.ones 8). rewrite N.land_ones. apply N.mod_lt. discriminate. Qed.

Lemma Forall_set_nth {A} (P : A -> Prop) x : P x -> forall l n, Forall P l -> Forall P (set_nth n x l).
Proof. intros Hx. induction l as [|h t IH]; intros n H; [exact H|]. inversion H; subst.
  destruct n; cbn [set_nth]; constructor; auto. Qed.

Lemma assign_bit_index_bytes buf i v : all_bytes buf -> all_bytes (assign_bit_index buf i v).
Proof. unfold all_bytes, assign_bit_index, set_bit_index, reset_bit_index. intros H.
  destruct v; apply Forall_set_nth; try exact H; apply to_u8_byte. Qed.

Lemma fold_assign_bytes (f : list N -> nat -> list N) : (forall b i, all_bytes b -> all_bytes (f b i)) ->
  forall cs b, all_bytes b -> all_bytes (fold_left f cs b).
Proof. intros Hf. induction cs as [|c cs IH]; intros b Hb; [exact Hb|]. cbn [fold_left]. apply IH. apply Hf. exact Hb. Qed.

Lemma zeros_bytes n : all_bytes (repeat 0%N n).
Proof. unfold all_bytes. induction n; cbn [repeat]; constructor; [reflexivity | assumption]. Qed.

(** * The instance PolynomialInterleaver<45, 92, 368> of the frame decoder *)

(** the inverse position, found by search in the table of all 368 indices (proof device only) *)
Fixpoint find_pos (j : nat) (t : list nat) (k : nat) : nat :=
  match t with
  | [] => 0
  | x :: t' => if x =? j then k else find_pos j t' (S k)
  end.
Definition il_inv_table : list nat :=
  let t := map il_index (seq 0 368) in map (fun j => find_pos j t 0) (seq 0 368).
Definition il_inv (j : nat) : nat := nth j il_inv_table 0.

Lemma il_index_bound i : il_index_of il_F1 il_F2 il_K i < il_len il_K.
Proof. unfold il_index_of, il_len. change il_K with 368%N.
  pose proof (N.mod_lt (il_F1 * N.of_nat i + il_F2 * N.of_nat i * N.of_nat i) 368 ltac:(discriminate)). lia. Qed.

Definition il_check_with (t : list nat) (i : nat) : bool :=
  (nth (il_index i) t 0 =? i) && (nth i t 0 <? 368) && (il_index (nth i t 0) =? i) && (il_index (il_index i) =? i).

(** one computation over all 368 positions: the searched table is a two-sided inverse of index() on [0,368),
    and index() is an involution there *)
Lemma il_check_all : forallb (il_check_with il_inv_table) (seq 0 368) = true.
Proof. vm_cast_no_check (eq_refl true). Qed.

Opaque il_index_of il_index il_inv_table.

Lemma il_check_at i : i < 368 ->
  il_inv (il_index i) = i /\ il_inv i < 368 /\ il_index (il_inv i) = i /\ il_index (il_index i) = i.
Proof. intros Hi. pose proof il_check_all as H. rewrite forallb_forall in H.
  specialize (H i ltac:(apply in_seq; lia)). unfold il_check_with in H. fold (il_inv i) in H. fold (il_inv (il_index i)) in H. lia. Qed.

Lemma il_inv_l : forall i, i < il_len il_K -> il_inv (il_index_of il_F1 il_F2 il_K i) = i.
Proof. exact (fun i Hi => proj1 (il_check_at i Hi)). Qed.
Lemma il_inv_b : forall j, j < il_len il_K -> il_inv j < il_len il_K.
Proof. exact (fun i Hi => proj1 (proj2 (il_check_at i Hi))). Qed.
Lemma il_inv_r : forall j, j < il_len il_K -> il_index_of il_F1 il_F2 il_K (il_inv j) = j.
Proof. exact (fun i Hi => proj1 (proj2 (proj2 (il_check_at i Hi)))). Qed.
Lemma il_len_mult8 : 8 * (il_len il_K / 8) = il_len il_K.
Proof. reflexivity. Qed.

Lemma il_index_involutive i : i < 368 -> il_index (il_index i) = i.
Proof. exact (fun Hi => proj2 (proj2 (proj2 (il_check_at i Hi)))). Qed.

Local Notation G lemma := (lemma il_F1 il_F2 il_K il_inv il_index_bound il_inv_l il_inv_b il_inv_r).

Lemma index_perm_lemma : Permutation (map il_index (seq 0 368)) (seq 0 368).
Proof. exact (G idx_perm). Qed.

Lemma index_injective_lemma i j : i < 368 -> j < 368 -> il_index i = il_index j -> i = j.
Proof. exact (G idx_inj i j). Qed.

Lemma interleave_length_lemma {A} (d : A) l : length (interleave d l) = 368.
Proof. exact (G scatter_length d l). Qed.

Lemma deinterleave_length_lemma {A} (d : A) l : length (deinterleave d l) = 368.
Proof. exact (G gather_length d l). Qed.

Lemma interleave_nth_lemma {A} (d : A) l i : i < 368 -> nth (il_index i) (interleave d l) d = nth i l d.
Proof. exact (G scatter_nth d l i). Qed.

Lemma deinterleave_nth_lemma {A} (d : A) l i : i < 368 -> nth i (deinterleave d l) d = nth (il_index i) l d.
Proof. exact (G gather_nth d l i). Qed.

Lemma deinterleave_interleave_lemma {A} (d : A) l : length l = 368 -> deinterleave d (interleave d l) = l.
Proof. exact (G gather_scatter d l). Qed.

Lemma interleave_deinterleave_lemma {A} (d : A) l : length l = 368 -> interleave d (deinterleave d l) = l.
Proof. exact (G scatter_gather d l). Qed.

Lemma interleave_map_lemma {A} (d : A) l : interleave d l = map (fun j => nth (il_inv j) l d) (seq 0 368).
Proof. exact (G scatter_map d l). Qed.

Lemma deinterleave_map_lemma {A} (d : A) l : deinterleave d l = map (fun i => nth (il_index i) l d) (seq 0 368).
Proof. exact (G gather_map d l). Qed.

(** the fill value only matters for inputs shorter than the frame *)
Lemma interleave_default_irrelevant {A} (d d' : A) l : length l = 368 -> interleave d l = interleave d' l.
Proof. intros H. rewrite !interleave_map_lemma.
  apply map_ext_in. intros j Hj. apply in_seq in Hj. apply nth_indep. rewrite H. apply il_inv_b. exact (proj2 Hj). Qed.

Lemma il_inv_is_index j : j < 368 -> il_inv j = il_index j.
Proof. intros Hj. rewrite <- (il_index_involutive j Hj) at 1. apply il_inv_l. apply il_index_bound. Qed.

Lemma interleave_eq_deinterleave_lemma {A} (d : A) l : interleave d l = deinterleave d l.
Proof. rewrite interleave_map_lemma, deinterleave_map_lemma.
  apply map_ext_in. intros j Hj. apply in_seq in Hj. rewrite il_inv_is_index by exact (proj2 Hj). reflexivity. Qed.

(** packed bytes *)
Lemma interleave_bytes_bits_lemma b : bytes_bits (interleave_bytes b) = interleave false (bytes_bits b).
Proof. exact (proj1 (G scatter_bytes_bits il_len_mult8 b)). Qed.

Lemma deinterleave_bytes_bits_lemma b : bytes_bits (deinterleave_bytes b) = deinterleave false (bytes_bits b).
Proof. exact (proj1 (G gather_bytes_bits il_len_mult8 b)). Qed.

Lemma interleave_bytes_length_lemma b : length (interleave_bytes b) = 46.
Proof. exact (proj2 (G scatter_bytes_bits il_len_mult8 b)). Qed.

Lemma deinterleave_bytes_length_lemma b : length (deinterleave_bytes b) = 46.
Proof. exact (proj2 (G gather_bytes_bits il_len_mult8 b)). Qed.

Lemma interleave_bytes_all_bytes b : all_bytes (interleave_bytes b).
Proof. unfold interleave_bytes, interleave_bytes_of. apply fold_assign_bytes; [|apply zeros_bytes].
  intros; apply assign_bit_index_bytes; assumption. Qed.

Lemma deinterleave_bytes_all_bytes b : all_bytes (deinterleave_bytes b).
Proof. unfold deinterleave_bytes, deinterleave_bytes_of. apply fold_assign_bytes; [|apply zeros_bytes].
  intros; apply assign_bit_index_bytes; assumption. Qed.

Lemma deinterleave_interleave_bytes_lemma b : length b = 46 -> all_bytes b -> deinterleave_bytes (interleave_bytes b) = b.
Proof. intros Hl Hb. apply bytes_bits_inj; [apply deinterleave_bytes_all_bytes | exact Hb | rewrite deinterleave_bytes_length_lemma; auto |].
  rewrite deinterleave_bytes_bits_lemma, interleave_bytes_bits_lemma. apply deinterleave_interleave_lemma.
  rewrite bytes_bits_length, Hl. reflexivity. Qed.

Lemma interleave_deinterleave_bytes_lemma b : length b = 46 -> all_bytes b -> interleave_bytes (deinterleave_bytes b) = b.
Proof. intros Hl Hb. apply bytes_bits_inj; [apply interleave_bytes_all_bytes | exact Hb | rewrite interleave_bytes_length_lemma; auto |].
  rewrite interleave_bytes_bits_lemma, deinterleave_bytes_bits_lemma. apply interleave_deinterleave_lemma.
  rewrite bytes_bits_length, Hl. reflexivity. Qed.

Transparent il_index_of il_index.

(** * Comparison with the specification *)

Lemma il_index_is_pi i : il_index i = pi i.
Proof. unfold il_index, il_index_of, pi. change il_K with 368%N. change il_F1 with 45%N. change il_F2 with 92%N.
  rewrite N2Nat.inj_mod, N2Nat.inj_add, !N2Nat.inj_mul, Nat2N.id. reflexivity. Qed.

Lemma pi_N_is_pi i : N.to_nat (pi_N (N.of_nat i)) = pi i.
Proof. unfold pi_N, pi. rewrite N2Nat.inj_mod, N2Nat.inj_add, !N2Nat.inj_mul, Nat2N.id. reflexivity. Qed.

Lemma il_sites_lemma : Forall (fun s => s = (45, 92, 368)%N) (il_default :: il_sites).
Proof. repeat constructor. Qed.
