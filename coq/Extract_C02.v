(** Extraction of the Viterbi model and the convolutional-code specification for the correspondence check:
    ExtrOcamlBasic only. *)
Require Extraction.
Require Import ExtrOcamlBasic.
From Coq Require Import NArith ZArith List.
From M17 Require Import ConstsViterbi ImplViterbi SpecConv ViterbiGeom.
Definition c02_decode_gen := decode_gen.
Definition c02_decode_t := decode_t.      (* the same with the tables built once, as the C++ object does *)
Definition c02_make_tables := make_tables.
Definition c02_scratch0 := scratch0.
Definition c02_tables (W : nat) := (makeNextState, makePrevState, makeCost W).
Definition c02_min_of (tb : tiebreak) (st : scratch) : Z := snd (scan_min tb (sc_prev st)).
Definition c02_conv := conv.
Definition c02_dist := dist.
Definition c02_soft_limit := soft_limit.
Definition c02_masks := map (fun g => (g_in g, g_out g, g_mask g, dfree (g_mask g) (g_out g))) geoms.
Definition c02_dfree := dfree.
Definition c02_llr := vit_LLR.
Extraction "c02_model.ml" c02_decode_gen c02_decode_t c02_make_tables c02_scratch0 c02_tables c02_min_of c02_conv c02_dist c02_soft_limit
  c02_masks c02_dfree c02_llr Build_tiebreak source_tiebreak viterbi_decode.
