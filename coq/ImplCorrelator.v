(** Index arithmetic of Correlator<FloatType> and SyncWord<Correlator> (include/m17cxx/Correlator.h) and of the
    places in M17Demodulator.h where a sample index is produced, handed to the correlator or compared with
    correlator.index() (C07), with checked accesses.
    The sample values are ABSTRACT (a type [V]); every floating-point decision of the C++ (trigger thresholds,
    |f| > |peak|, peak > 0) is an arbitrary function of the values involved, so the theorems hold for every
    behaviour of the float code.  Sizes, strides and the wrap / loop tests are regenerated from the header
    (gen/ConstsCorrelator.v): [corr_sample_wrap a b] is the translation of `++buffer_pos_ == buffer_.size()`, etc.
    No proofs here. *)
From Coq Require Import NArith ZArith QArith Arith Bool String List.
From M17 Require Import Checked ConstsApp ConstsCorrelator ImplRxIndex.
Import ListNotations.
Local Open Scope nat_scope.

Section Correlator.
Variable V : Type.

(** * Correlator<FloatType>: buffer_ (std::array of SYMBOLS * SAMPLES_PER_SYMBOL), buffer_pos_, prev_buffer_pos_, tmp.
      buffer_.size() is the static size [corr_buffer_size] *)
Record correlator : Type := { c_buffer : list V; c_pos : nat; c_prev : nat; c_tmp : list V }.

(* construction: buffer_ and tmp have no initialiser (any contents), the positions are 0 *)
Definition corr_init (buffer tmp : list V) : correlator := {| c_buffer := buffer; c_pos := 0; c_prev := 0; c_tmp := tmp |}.

(* void sample(FloatType value):
     buffer_[buffer_pos_] = value; prev_buffer_pos_ = buffer_pos_; if (++buffer_pos_ == buffer_.size()) buffer_pos_ = 0; *)
Definition corr_sample (c : correlator) (value : V) : res correlator :=
  b <- set "Correlator::sample: buffer_[buffer_pos_] = value" (c_buffer c) (c_pos c) value ;;
  let prev := c_pos c in
  let pos := S (c_pos c) in
  Ok {| c_buffer := b; c_pos := if corr_sample_wrap pos corr_buffer_size then 0 else pos; c_prev := prev; c_tmp := c_tmp c |}.

(* FloatType correlate(sync_t sync):
     size_t pos = prev_buffer_pos_ + SAMPLES_PER_SYMBOL;
     for (size_t i = 0; i != sync.size(); ++i) { if (pos >= buffer_.size()) pos -= buffer_.size(); result += sync[i] * buffer_[pos]; pos += SAMPLES_PER_SYMBOL; }
   the result here is the list of (sync[i], buffer_[pos]) pairs whose products are summed *)
Fixpoint correlate_loop (buffer : list V) (pos : nat) (sync : list Z) : res (list (Z * V)) :=
  match sync with
  | [] => Ok []
  | s :: r =>
    let pos := if corr_correlate_wrap pos corr_buffer_size then pos - corr_buffer_size else pos in
    x <- get "Correlator::correlate: buffer_[pos]" buffer pos ;;
    xs <- correlate_loop buffer (pos + corr_sps) r ;;
    Ok ((s, x) :: xs)
  end.
Definition corr_correlate (c : correlator) (sync : list Z) : res (list (Z * V)) :=
  correlate_loop (c_buffer c) (c_prev c + corr_sps) sync.

(* size_t index() const { return prev_buffer_pos_ % SAMPLES_PER_SYMBOL; } *)
Definition corr_index (c : correlator) : nat := c_prev c mod corr_sps.

(* the loops  for (size_t i = start; i < buffer_.size(); i += SAMPLES_PER_SYMBOL)  are data-independent; the fuel
   (buffer size + 1 iterations) only makes the recursion structural, running out of it is [Diverge] *)
Definition stride_fuel : nat := S corr_buffer_size.

(* first loop of outer_symbol_levels: min_level = min(min_level, buffer_[i]); max_level = max(max_level, buffer_[i]); *)
Fixpoint osl_loop1 (fuel : nat) (buffer : list V) (i : nat) : res (list V) :=
  match fuel with
  | O => Diverge
  | S f =>
    if corr_osl_loop i corr_buffer_size then
      x <- get "Correlator::outer_symbol_levels: buffer_[i] (min / max loop)" buffer i ;;
      xs <- osl_loop1 f buffer (i + corr_sps) ;;
      Ok (x :: xs)
    else Ok []
  end.

(* second loop: tmp[index++] = buffer_[i] * 1000.; ... buffer_[i] ... *)
Fixpoint osl_loop2 (fuel : nat) (buffer tmp : list V) (i index : nat) : res (list V * nat) :=
  match fuel with
  | O => Diverge
  | S f =>
    if corr_osl_loop i corr_buffer_size then
      x <- get "Correlator::outer_symbol_levels: buffer_[i] (sum loop)" buffer i ;;
      t <- set "Correlator::outer_symbol_levels: tmp[index++] = buffer_[i] * 1000." tmp index x ;;
      osl_loop2 f buffer t (i + corr_sps) (S index)
    else Ok (tmp, index)
  end.

(* std::tuple<FloatType, FloatType> outer_symbol_levels(size_t sample_index): returns the new object (tmp changed),
   the values read by the first loop (the levels are a function of them) and the final value of [index] *)
Definition corr_outer_symbol_levels (c : correlator) (sample_index : nat) : res (correlator * list V * nat) :=
  x0 <- get "Correlator::outer_symbol_levels: min_level = buffer_[sample_index]" (c_buffer c) sample_index ;;
  _ <- get "Correlator::outer_symbol_levels: max_level = buffer_[sample_index]" (c_buffer c) sample_index ;;
  xs <- osl_loop1 stride_fuel (c_buffer c) sample_index ;;
  r <- osl_loop2 stride_fuel (c_buffer c) (c_tmp c) sample_index 0 ;;
  Ok ({| c_buffer := c_buffer c; c_pos := c_pos c; c_prev := c_prev c; c_tmp := fst r |}, x0 :: xs, snd r).

(* template <typename F> void apply(F func, uint8_t index): the values func is called with *)
Fixpoint apply_loop (fuel : nat) (buffer : list V) (i : nat) : res (list V) :=
  match fuel with
  | O => Diverge
  | S f =>
    if corr_apply_loop i corr_buffer_size then
      x <- get "Correlator::apply: func(buffer_[i])" buffer i ;;
      xs <- apply_loop f buffer (i + corr_sps) ;;
      Ok (x :: xs)
    else Ok []
  end.
Definition corr_apply (c : correlator) (index : nat) : res (list V) :=
  apply_loop stride_fuel (c_buffer c) (index mod corr_apply_index_mod).

(* a history of sample() calls *)
Fixpoint corr_run (c : correlator) (values : list V) : res correlator :=
  match values with
  | [] => Ok c
  | v :: r => c' <- corr_sample c v ;; corr_run c' r
  end.

(** * SyncWord<Correlator>: sync_word_ (SYMBOLS entries), samples_ (SAMPLES_PER_SYMBOL entries), timing_index_, triggered_, updated_.
      Float decisions: [abs_gt f p] is `abs(f) > abs(p)`, [is_pos p] is `p > 0`; the value returned by triggered()
      (a function of the correlation, limit_ and the magnitudes) and whether it is `!= 0` are inputs of the call. *)
Variable zero : V.
Variable abs_gt : V -> V -> bool.
Variable is_pos : V -> bool.

Record syncword : Type := { sw_word : list Z; sw_samples : list V; sw_timing : nat; sw_trig : bool; sw_updated : Z }.

(* construction: samples_ has no initialiser *)
Definition sw_init (word : list Z) (samples : list V) : syncword :=
  {| sw_word := word; sw_samples := samples; sw_timing := 0; sw_trig := false; sw_updated := 0%Z |}.

(* find_peak(value): triggered_ = false; timing_index_ = 0; peak_value = value; uint8_t index = 0;
     for (auto f : samples_) { if (abs(f) > abs(peak_value)) { peak_value = f; timing_index_ = index; } index += 1; }
     updated_ = peak_value > 0 ? 1 : -1;
   (a range-for: no subscript; the counter is a uint8_t) *)
Definition peak_step (st : V * nat * nat) (f : V) : V * nat * nat :=
  let '(peak, timing, index) := st in
  let index' := (index + 1) mod sw_peak_index_mod in
  if abs_gt f peak then (f, index, index') else (peak, timing, index').
Definition sw_find_peak (s : syncword) (value : V) : syncword :=
  let '(peak, timing, _) := fold_left peak_step (sw_samples s) (value, 0, 0) in
  {| sw_word := sw_word s; sw_samples := sw_samples s; sw_timing := timing; sw_trig := false;
     sw_updated := if is_pos peak then 1%Z else (-1)%Z |}.

(* operator()(correlator) after `auto value = triggered(correlator);`, [cindex] = correlator.index():
     if (value != 0) { if (!triggered_) { samples_.fill(0); triggered_ = true; } samples_[correlator.index()] = value; }
     else { if (triggered_) find_peak(value); }
     return timing_index_; *)
Definition sw_step (s : syncword) (nonzero : bool) (value : V) (cindex : nat) : res (syncword * nat) :=
  if nonzero then
    let samples := if sw_trig s then sw_samples s else map (fun _ => zero) (sw_samples s) in
    smp <- set "SyncWord::operator(): samples_[correlator.index()] = value" samples cindex value ;;
    Ok ({| sw_word := sw_word s; sw_samples := smp; sw_timing := sw_timing s; sw_trig := true; sw_updated := sw_updated s |}, sw_timing s)
  else if sw_trig s then (let s' := sw_find_peak s value in Ok (s', sw_timing s'))
  else Ok (s, sw_timing s).

(* triggered(correlator): the reads of correlator.correlate(sync_word_) *)
Definition sw_triggered (s : syncword) (c : correlator) : res (list (Z * V)) := corr_correlate c (sw_word s).

Definition sw_call (s : syncword) (c : correlator) (nonzero : bool) (value : V) : res (syncword * nat) :=
  _ <- sw_triggered s c ;; sw_step s nonzero value (corr_index c).

(* int8_t updated() { auto result = updated_; updated_ = 0; return result; } *)
Definition sw_take_updated (s : syncword) : syncword * Z :=
  ({| sw_word := sw_word s; sw_samples := sw_samples s; sw_timing := sw_timing s; sw_trig := sw_trig s; sw_updated := 0%Z |}, sw_updated s).

(* a history of operator() calls on a correlator that receives one sample before each call *)
Fixpoint sw_run (s : syncword) (c : correlator) (calls : list (V * bool * V)) : res (syncword * correlator * list nat) :=
  match calls with
  | [] => Ok (s, c, [])
  | (v, nonzero, value) :: r =>
    c' <- corr_sample c v ;;
    x <- sw_call s c' nonzero value ;;
    y <- sw_run (fst x) c' r ;;
    Ok (fst (fst y), snd (fst y), snd x :: snd y)
  end.

(** * M17Demodulator: the index data flow.
      State = the correlator, the four sync words, `uint8_t sample_index`, `uint8_t sync_sample_index` and
      ClockRecovery's `int8_t sample_index_`.  One event per block of M17Demodulator.h that touches one of them; the
      control state (demodState, the sync / missing-sync counters, DCD, the float thresholds) is NOT modelled: the
      events may come in ANY order, which contains every order the real state machine can produce.
      tools/consts/correlator.py checks that the assignments to sample_index / sync_sample_index, the update_values
      call sites and the `sync_index = X(correlator)` sites are exactly the ones mirrored here. *)
Inductive which : Type := WPreamble | WLsf | WPacket.
Inductive ucond : Type := UNonzero | UNegative.      (* `if (sync_updated)` / `if (sync_updated < 0)` *)

Record demod : Type := {
  d_corr : correlator; d_preamble : syncword; d_lsf : syncword; d_packet : syncword; d_eot : syncword;
  d_sample_index : nat; d_sync_sample_index : nat; d_clock_index : Z }.

Definition demod_init (buffer tmp s1 s2 s3 s4 : list V) : demod :=
  {| d_corr := corr_init buffer tmp;
     d_preamble := sw_init demod_preamble_sync_word s1; d_lsf := sw_init demod_lsf_sync_word s2;
     d_packet := sw_init demod_packet_sync_word s3; d_eot := sw_init demod_eot_sync_word s4;
     d_sample_index := 0; d_sync_sample_index := 0; d_clock_index := 0%Z |}.

Definition get_sw (d : demod) (w : which) : syncword :=
  match w with WPreamble => d_preamble d | WLsf => d_lsf d | WPacket => d_packet d end.
Definition set_sw (d : demod) (w : which) (s : syncword) : demod :=
  {| d_corr := d_corr d;
     d_preamble := match w with WPreamble => s | _ => d_preamble d end;
     d_lsf := match w with WLsf => s | _ => d_lsf d end;
     d_packet := match w with WPacket => s | _ => d_packet d end;
     d_eot := d_eot d; d_sample_index := d_sample_index d; d_sync_sample_index := d_sync_sample_index d; d_clock_index := d_clock_index d |}.
Definition set_corr (d : demod) (c : correlator) : demod :=
  {| d_corr := c; d_preamble := d_preamble d; d_lsf := d_lsf d; d_packet := d_packet d; d_eot := d_eot d;
     d_sample_index := d_sample_index d; d_sync_sample_index := d_sync_sample_index d; d_clock_index := d_clock_index d |}.
Definition set_indices (d : demod) (si ssi : nat) (ci : Z) : demod :=
  {| d_corr := d_corr d; d_preamble := d_preamble d; d_lsf := d_lsf d; d_packet := d_packet d; d_eot := d_eot d;
     d_sample_index := si; d_sync_sample_index := ssi; d_clock_index := ci |}.

(* what the run reports: every index handed to Correlator::outer_symbol_levels, every sample_index compared with
   correlator.index(), every sync_sample_index handed to ClockRecovery *)
Inductive duse : Type := UOsl (i : nat) | UCompare (i : nat) | UClockArg (i : nat).

Definition to_uint8 (n : nat) : nat := n mod demod_index_mod.

(* update_values(uint8_t index): correlator.outer_symbol_levels(sample_index); dev.update(mn, mx); sync_sample_index = index; *)
Definition update_values (d : demod) (index : nat) : res (demod * list duse) :=
  r <- corr_outer_symbol_levels (d_corr d) (d_sample_index d) ;;
  Ok (set_indices (set_corr d (fst (fst r))) (d_sample_index d) (to_uint8 index) (d_clock_index d), [UOsl (d_sample_index d)]).

Definition ucond_holds (u : ucond) (updated : Z) : bool :=
  match u with UNonzero => negb (updated =? 0)%Z | UNegative => (updated <? 0)%Z end.

(* an out-of-range float -> int8_t conversion is undefined behaviour; reported as a fault of the run *)
Definition int8_conv (site : string) (o : option Z) : res Z := match o with Some z => Ok z | None => Oob site end.

Inductive devent : Type :=
| DSample (v : V)                  (* initialize() / operator(): correlator.sample(filtered_sample) *)
| DClockReset                      (* operator(): clock_recovery.reset(sync_sample_index); sample_index = sync_sample_index; *)
| DClockUpdateSync (e : Q)         (* operator(): clock_recovery.update(sync_sample_index); e = the Kalman estimate f[0] *)
| DSyncAcquire (w : which) (u : ucond) (nonzero : bool) (value : V)
                                   (* do_unlocked: auto sync_index = w(correlator); auto sync_updated = w.updated();
                                      if (cond) { sample_index = sync_index; update_values(sync_index); } *)
| DSyncTrack (w : which) (u : ucond) (nonzero : bool) (value : V)
                                   (* do_stream_sync / do_packet_sync / do_bert_sync: [uint8_t] sync_index = w(correlator);
                                      sync_updated = w.updated(); if (cond) update_values(sync_index); *)
| DEot                             (* do_stream_sync: eot_sync.triggered(correlator) *)
| DLsfSync (upd : bool)            (* do_lsf_sync: if (correlator.index() == sample_index) { preamble / lsf / packet .triggered(correlator);
                                      in three of the branches update_values(sample_index) } *)
| DFrame (csw : Q).                (* do_frame: if (abs(int(sample_index - correlator.index())) == SAMPLES_PER_SYMBOL / 2)
                                        { clock_recovery.update(); sample_index = clock_recovery.sample_index(); return; }
                                      if (correlator.index() != sample_index) return;   csw = the wrapped fmod value *)

Definition sync_block (d : demod) (w : which) (u : ucond) (nonzero : bool) (value : V) (assign_sample_index : bool)
  : res (demod * list duse) :=
  x <- sw_call (get_sw d w) (d_corr d) nonzero value ;;
  let sync_index := snd x in
  let su := sw_take_updated (fst x) in
  let d1 := set_sw d w (fst su) in
  if ucond_holds u (snd su) then
    let d2 := if assign_sample_index
              then set_indices d1 (to_uint8 sync_index) (d_sync_sample_index d1) (d_clock_index d1) else d1 in
    update_values d2 (to_uint8 sync_index)
  else Ok (d1, []).

Definition demod_step (d : demod) (e : devent) : res (demod * list duse) :=
  match e with
  | DSample v => c <- corr_sample (d_corr d) v ;; Ok (set_corr d c, [])
  | DClockReset =>
    ci <- int8_conv "ClockRecovery::reset: sample_index_ = index (float -> int8_t)" (to_int8 (Z.of_nat (d_sync_sample_index d))) ;;
    Ok (set_indices d (d_sync_sample_index d) (d_sync_sample_index d) ci, [UClockArg (d_sync_sample_index d)])
  | DClockUpdateSync e =>
    ci <- int8_conv "ClockRecovery::update(uint8_t): int8_t(round(sample_estimate_))" (sample_index_of e) ;;
    Ok (set_indices d (d_sample_index d) (d_sync_sample_index d) ci, [UClockArg (d_sync_sample_index d)])
  | DSyncAcquire w u nonzero value => sync_block d w u nonzero value true
  | DSyncTrack w u nonzero value => sync_block d w u nonzero value false
  | DEot => _ <- sw_triggered (d_eot d) (d_corr d) ;; Ok (d, [])
  | DLsfSync upd =>
    if corr_index (d_corr d) =? d_sample_index d then
      _ <- sw_triggered (d_preamble d) (d_corr d) ;;
      _ <- sw_triggered (d_lsf d) (d_corr d) ;;
      _ <- sw_triggered (d_packet d) (d_corr d) ;;
      if upd then (r <- update_values d (d_sample_index d) ;; Ok (fst r, UCompare (d_sample_index d) :: snd r))
      else Ok (d, [UCompare (d_sample_index d)])
    else Ok (d, [UCompare (d_sample_index d)])
  | DFrame csw =>
    if (Z.abs (Z.of_nat (d_sample_index d) - Z.of_nat (corr_index (d_corr d))) =? samples_per_symbol / 2)%Z then
      ci <- int8_conv "ClockRecovery::update(): int8_t(round(csw))" (sample_index_of csw) ;;
      (* uint8_t sample_index() const { return sample_index_; } *)
      Ok (set_indices d (Z.to_nat (ci mod Z.of_nat demod_index_mod)) (d_sync_sample_index d) ci, [UCompare (d_sample_index d)])
    else Ok (d, [UCompare (d_sample_index d); UCompare (d_sample_index d)])
  end.

Fixpoint demod_run (d : demod) (events : list devent) : res (demod * list duse) :=
  match events with
  | [] => Ok (d, [])
  | e :: r => x <- demod_step d e ;; y <- demod_run (fst x) r ;; Ok (fst y, snd x ++ snd y)
  end.

(* the estimates the floating-point code hands to the int8_t conversion: [P] must hold of each *)
Definition event_estimate_ok (P : Q -> Prop) (e : devent) : Prop :=
  match e with DClockUpdateSync q => P q | DFrame q => P q | _ => True end.
End Correlator.

Arguments c_buffer {V}. Arguments c_pos {V}. Arguments c_prev {V}. Arguments c_tmp {V}.
Arguments corr_init {V}. Arguments corr_sample {V}. Arguments correlate_loop {V}. Arguments corr_correlate {V}.
Arguments corr_index {V}. Arguments osl_loop1 {V}. Arguments osl_loop2 {V}. Arguments corr_outer_symbol_levels {V}.
Arguments apply_loop {V}. Arguments corr_apply {V}. Arguments corr_run {V}.
Arguments sw_word {V}. Arguments sw_samples {V}. Arguments sw_timing {V}. Arguments sw_trig {V}. Arguments sw_updated {V}.
Arguments sw_init {V}. Arguments peak_step {V}. Arguments sw_find_peak {V}. Arguments sw_step {V}. Arguments sw_triggered {V}.
Arguments sw_call {V}. Arguments sw_take_updated {V}. Arguments sw_run {V}.
Arguments d_corr {V}. Arguments d_preamble {V}. Arguments d_lsf {V}. Arguments d_packet {V}. Arguments d_eot {V}.
Arguments d_sample_index {V}. Arguments d_sync_sample_index {V}. Arguments d_clock_index {V}.
Arguments demod_init {V}. Arguments get_sw {V}. Arguments set_sw {V}. Arguments set_corr {V}. Arguments set_indices {V}.
Arguments update_values {V}. Arguments sync_block {V}. Arguments demod_step {V}. Arguments demod_run {V}.
Arguments DSample {V}. Arguments DClockReset {V}. Arguments DClockUpdateSync {V}. Arguments DSyncAcquire {V}.
Arguments DSyncTrack {V}. Arguments DEot {V}. Arguments DLsfSync {V}. Arguments DFrame {V}. Arguments event_estimate_ok {V}.
