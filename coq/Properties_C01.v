(** C01 — clean-channel round trip: every frame the specification encoder produces is returned bit-exact by
    the frame decoder, with cost 0 at full confidence.
    Only the property theorems (each closed by [exact]) and their Print Assumptions, plus evaluated examples.

    Receiver: [fd_step] (FrameDecoderInst.v) = the Gallina mirror of M17FrameDecoder::operator() (ImplFrameDecoder.v)
    instantiated with the mirrors of the real stages (ImplRandom, ImplInterleave, ImplPuncture, ImplViterbi, ImplGolay).
    Transmitter: SpecM17.v, the encoder written from the M17 specification ([spec_lsf_frame], [spec_stream_frame],
    [spec_packet_frame], [spec_bert_frame]); the m17-mod corollaries at the end go through C13.
    Channel: [soft m b] gives bit b_i the soft value +m_i (1) or -m_i (0) - the framer's LLR convention; the theorems
    hold for ALL magnitude vectors m in {1..7}^368, all payloads, and all contents of the decoder's hidden buffers
    ([fd_hid_ok s]: only their sizes are fixed).  [fd_observe o] = (new mode, return value, viterbi_cost out-parameter,
    callbacks made); a callback is (type, bytes, cost).  [r] is what the user callback returns.
    Proofs: LemmasRT_A .. LemmasRT_G (composition of C10, C11, C02, C04, C05 lemmas; nothing is enumerated over
    payload contents). *)
From Coq Require Import NArith ZArith List Bool Lia.
From M17 Require Import ImplModulator LemmasMdl_Main LemmasRT_Modulator.
From M17 Require Import Bits ImplCRC ConstsCrc SpecM17 ImplMod ImplViterbi ImplFrameDecoder FrameDecoderInst
  LemmasFD_LSF LemmasFD_Inst LemmasRT_A LemmasRT_D LemmasRT_E LemmasRT_F LemmasRT_G.
Import ListNotations.
Local Open Scope Z_scope.

(** 0. the channel model: [soft] position by position *)
Theorem c01_soft_spec : forall (m : list Z) (b : list bool),
  length (soft m b) = Nat.min (length m) (length b) /\
  forall i, (i < length m)%nat -> (i < length b)%nat ->
    nth i (soft m b) 0 = if nth i b false then nth i m 0 else - nth i m 0.
Proof. exact (fun m b => conj (soft_length m b) (nth_soft m b)). Qed.
Print Assumptions c01_soft_spec.

(** 1. STREAM frame in stream mode: exactly one callback, carrying the 18 bytes frame-number field ++ payload; OK;
       the mode, the LICH bitmap and the LSF buffer are untouched; cost 0 when every magnitude is 7.
       (The LICH part of the frame is not looked at in this mode.) *)
Theorem c01_rt_stream :
  forall (s : fd_state) (m : list Z) (lsf : list N) (n fn : N) (payload : list N) (eos r : bool),
  fd_hid_ok s -> fd_mode s = MStream ->
  length m = 368%nat -> Forall (fun x => 1 <= x <= 7) m ->
  length lsf = 30%nat -> (n < 6)%N -> length payload = 16%nat -> all_bytes payload ->
  let o := fd_step s SStream (soft m (spec_stream_frame lsf n fn payload eos)) r in
  exists c : Z,
    fd_observe o = (MStream, ROk, Some c, [mkcb FStream (fn_field fn eos ++ payload) c]) /\
    (Forall (fun x => x = 7) m -> c = 0) /\
    fd_seg (fd_st_of o) = fd_seg s /\ fd_lsf (fd_st_of o) = fd_lsf s /\ fd_hid_ok (fd_st_of o).
Proof. exact rt_stream. Qed.
Print Assumptions c01_rt_stream.

(** 2. LINK SETUP frame (any mode): if the 30 bytes carry a valid CRC they are reported exactly (one FLsf callback),
       OK, the new mode is update_state applied to the TYPE bits, the LSF buffer holds L; otherwise FAIL, no callback,
       mode LSF, LICH collection cleared.  Cost 0 at full confidence in both cases. *)
Theorem c01_rt_lsf :
  forall (s : fd_state) (m : list Z) (L : list N) (r : bool),
  fd_hid_ok s -> length m = 368%nat -> Forall (fun x => 1 <= x <= 7) m ->
  length L = 30%nat -> all_bytes L ->
  let o := fd_step s SLsf (soft m (spec_lsf_frame L)) r in
  exists c : Z, (Forall (fun x => x = 7) m -> c = 0) /\ fd_hid_ok (fd_st_of o) /\
    (crc30 L = 0%N ->
       fd_observe o = (update_state MLsf (bytes_bits L), ROk, Some c, [mkcb FLsf L c]) /\
       fd_lsf (fd_st_of o) = L /\ fd_seg (fd_st_of o) = fd_seg s) /\
    (crc30 L <> 0%N ->
       fd_observe o = (MLsf, RFail, Some c, []) /\
       fd_lsf (fd_st_of o) = repeat 0%N 30 /\ fd_seg (fd_st_of o) = 0%N).
Proof. exact rt_lsf. Qed.
Print Assumptions c01_rt_lsf.

(** 3a. PACKET frame in BASIC or FULL packet mode: one callback of the matching type with the 25 data bytes and the
        byte EOF<<7 | counter<<2; with EOF the decoder returns to LSF mode and reports the callback's verdict,
        without EOF it stays and reports PACKET_INCOMPLETE. *)
Theorem c01_rt_packet :
  forall (s : fd_state) (md : mode) (ty : ftype) (m : list Z) (data25 : list N) (eof : bool) (counter : N) (r : bool),
  fd_hid_ok s -> fd_mode s = md -> (md = MBasic /\ ty = FBasic) \/ (md = MFull /\ ty = FFull) ->
  length m = 368%nat -> Forall (fun x => 1 <= x <= 7) m ->
  length data25 = 25%nat -> all_bytes data25 -> (counter < 32)%N ->
  let o := fd_step s SPacket (soft m (spec_packet_frame data25 eof counter)) r in
  exists c : Z, (Forall (fun x => x = 7) m -> c = 0) /\ fd_hid_ok (fd_st_of o) /\
    fd_observe o = (if eof then MLsf else md,
                    if eof then (if r then ROk else RFail) else RPacketIncomplete,
                    Some c, [mkcb ty (data25 ++ [(128 * b2n eof + 4 * counter)%N]) c]) /\
    fd_seg (fd_st_of o) = fd_seg s /\ fd_lsf (fd_st_of o) = fd_lsf s.
Proof. exact rt_packet. Qed.
Print Assumptions c01_rt_packet.

(** 3b. BERT frame (any mode): one callback with the 197 bits packed MSB first into 25 bytes (to_byte_array: the last
        byte holds 5 bits, left-aligned - made explicit by [c01_bert_bytes]); mode BERT; cost 0 at full confidence
        (369 positions are kept by P2 but 368 are sent: the decoder treats the missing one as an erasure). *)
Theorem c01_rt_bert :
  forall (s : fd_state) (m : list Z) (bits197 : list bool) (r : bool),
  fd_hid_ok s -> length m = 368%nat -> Forall (fun x => 1 <= x <= 7) m -> length bits197 = 197%nat ->
  let o := fd_step s SBert (soft m (spec_bert_frame bits197)) r in
  exists c : Z, (Forall (fun x => x = 7) m -> c = 0) /\ fd_hid_ok (fd_st_of o) /\
    fd_observe o = (MBert, ROk, Some c, [mkcb FBert (to_bytes bits197) c]) /\
    fd_seg (fd_st_of o) = fd_seg s /\ fd_lsf (fd_st_of o) = fd_lsf s.
Proof. exact rt_bert. Qed.
Print Assumptions c01_rt_bert.

Theorem c01_bert_bytes : forall b : list bool, length b = 197%nat ->
  length (to_bytes b) = 25%nat /\ bytes_bits (to_bytes b) = b ++ repeat false 3.
Proof. exact bert_bytes_ok. Qed.
Print Assumptions c01_bert_bytes.

(** 4. the LICH of a STREAM frame received in link-setup mode, for each of the six fragment numbers: the first
       callback carries exactly the 6 bytes [lich_chunk lsf n] = bytes 5n..5n+4 of the LSF and n<<5, with cost 0;
       the five bytes are stored in slot n; when this completes the bitmap and the assembled buffer has a valid
       CRC the assembled LSF is reported too and stream mode entered, otherwise INCOMPLETE. *)
Theorem c01_rt_lich :
  forall (s : fd_state) (m : list Z) (lsf : list N) (n fn : N) (payload : list N) (eos r : bool),
  fd_hid_ok s -> fd_mode s = MLsf ->
  length m = 368%nat -> Forall (fun x => 1 <= x <= 7) m ->
  length lsf = 30%nat -> all_bytes lsf -> (n < 6)%N -> length payload = 16%nat ->
  let o := fd_step s SStream (soft m (spec_stream_frame lsf n fn payload eos)) r in
  let chunk := lich_chunk lsf n in
  let lsf' := put_slot (N.to_nat n) (slot (N.to_nat n) lsf) (fd_lsf s) in
  let seg' := seg_after (fd_seg s) n in
  fd_hid_ok (fd_st_of o) /\ hd_error (cbs_of scratch o) = Some (mkcb FLich chunk 0) /\
  fd_lsf (fd_st_of o) = lsf' /\
  if ((N.land seg' 0x3F =? 0x3F) && (crc30 lsf' =? 0))%N
  then fd_observe o = (MStream, ROk, Some 0, [mkcb FLich chunk 0; mkcb FLsf lsf' 0]) /\ fd_seg (fd_st_of o) = 0%N
  else fd_mode (fd_st_of o) = MLsf /\ res_of scratch o = RIncomplete /\ cbs_of scratch o = [mkcb FLich chunk 0] /\
       fd_seg (fd_st_of o) = seg'.
Proof. exact rt_lich. Qed.
Print Assumptions c01_rt_lich.

(** the unpacking step alone, on the de-interleaved frame: whatever follows the 96 LICH bits *)
Theorem c01_unpack_lich_exact :
  forall (m : list Z) (lsf : list N) (n : N) (rest : list bool),
  Forall (fun x => 1 <= x) m -> length lsf = 30%nat -> all_bytes lsf -> (n < 6)%N ->
  (96 + length rest <= length m)%nat ->
  unpack_lich fd_golay (soft m (spec_lich lsf n ++ rest)) = (lich_chunk lsf n, true).
Proof. exact rt_unpack_lich. Qed.
Print Assumptions c01_unpack_lich_exact.

(** 5. agreement of the specification encoder's stages (SpecM17) with the per-stage specifications the receive-side
       properties are stated against (SpecConv for C02, SpecPuncture for C11, SpecRandom for C10) and with the
       repository's Golay encoder (C04; swept over the 4096 data words) *)
Theorem c01_spec_stage_agreement :
  (forall bits, spec_conv bits = SpecConv.conv (bits ++ repeat false 4)) /\
  (forall (p : list N) (c : list bool), (0 < length p)%nat ->
     spec_puncture (map LemmasRT_B.nz p) c = SpecPuncture.keep (SpecPuncture.mask p (length c)) c) /\
  SpecM17.P1 = map LemmasRT_B.nz ImplPuncture.P1 /\ SpecM17.P2 = map LemmasRT_B.nz ImplPuncture.P2 /\
  SpecM17.P3 = map LemmasRT_B.nz ImplPuncture.P3 /\
  dc_bytes = SpecRandom.dc_spec /\
  (forall j, (j < 368)%nat -> nth (ImplInterleave.il_index j) pi_inverse_table 0%nat = j) /\
  (forall d, (d < 4096)%N -> bits_N (golay24_bits d) = ImplGolay.golay_encode24 d).
Proof. exact (conj LemmasRT_B.spec_conv_agree (conj LemmasRT_B.spec_puncture_keep (conj LemmasRT_B.P1_agree
         (conj LemmasRT_B.P2_agree (conj LemmasRT_B.P3_agree (conj dc_bytes_is_spec (conj pi_inverse_at golay24_is_encode24))))))). Qed.
Print Assumptions c01_spec_stage_agreement.

(** the receive chain up to the Viterbi input, on any specification frame body: signs restored, magnitudes permuted *)
Theorem c01_front_end :
  forall (m : list Z) (y : list bool), length m = 368%nat -> length y = 368%nat -> Forall (fun x => 1 <= x <= 7) m ->
  fd_deinterleave (fd_derandomize (soft m (spec_finish y))) = soft (ImplInterleave.deinterleave 0 m) y /\
  length (ImplInterleave.deinterleave 0 m) = 368%nat /\ Forall (fun x => 1 <= x <= 7) (ImplInterleave.deinterleave 0 m) /\
  (Forall (fun x => x = 7) m -> Forall (fun x => x = 7) (ImplInterleave.deinterleave 0 m)).
Proof. exact fd_front. Qed.
Print Assumptions c01_front_end.

(** 6. the repository's own transmitter m17-mod (model ImplMod.v, tied to SpecM17 by C13): the frame send_lsf emits
       for any valid callsigns and CAN decodes to the 30 bytes send_lsf returns and puts the decoder into stream mode; the frame send_audio_frame emits
       for LICH chunk n, any uint16 frame-number argument and any 16-byte payload decodes to that frame number and
       payload.  ([uninit] = content of the uninitialised arrays handed to puncture().) *)
Theorem c01_rt_lsf_m17mod :
  forall (uninit : list bool) (can : N) (src dest : list N) (s : fd_state) (m : list Z) (r : bool),
  valid_callsign src -> valid_callsign dest -> (can < 16)%N ->
  fd_hid_ok s -> length m = 368%nat -> Forall (fun x => 1 <= x <= 7) m ->
  exists (L : list N) (f : list bool),
    send_lsf uninit can src dest AUDIO = (L, [OutFrame SpecM17.sync_lsf f]) /\
    exists c : Z, (Forall (fun x => x = 7) m -> c = 0) /\
      fd_observe (fd_step s SLsf (soft m f) r) = (MStream, ROk, Some c, [mkcb FLsf L c]) /\
      fd_lsf (fd_st_of (fd_step s SLsf (soft m f) r)) = L.
Proof. exact rt_lsf_m17mod. Qed.
Print Assumptions c01_rt_lsf_m17mod.

Theorem c01_rt_stream_m17mod :
  forall (uninit : list bool) (lsf : list N) (n : nat) (fnarg : N) (payload : list N) (s : fd_state) (m : list Z) (r : bool),
  length lsf = 30%nat -> all_bytes lsf -> (n < 6)%nat -> (fnarg < 65536)%N -> length payload = 16%nat -> all_bytes payload ->
  fd_hid_ok s -> fd_mode s = MStream -> length m = 368%nat -> Forall (fun x => 1 <= x <= 7) m ->
  exists f : list bool,
    send_audio_frame (make_lich_segment (firstn ConstsMod.lich_stride (skipn (n * ConstsMod.lich_stride) lsf)) (N.of_nat n))
                     (make_data_frame uninit fnarg payload) = [OutFrame SpecM17.sync_stream f] /\
    exists c : Z, (Forall (fun x => x = 7) m -> c = 0) /\
      fd_observe (fd_step s SStream (soft m f) r) =
        (MStream, ROk, Some c, [mkcb FStream (fn_field (fnarg mod 32768) (N.testbit fnarg 15) ++ payload) c]).
Proof. exact rt_stream_m17mod. Qed.
Print Assumptions c01_rt_stream_m17mod.

(** one iteration of m17-mod's BERT loop, for every generator (state type St, generate() = gen): the frame it
    emits decodes to the packed bytes of the next 197 generated bits *)
Theorem c01_rt_bert_m17mod :
  forall (uninit : list bool) (St : Type) (gen : St -> St * bool) (p : St) (s : fd_state) (m : list Z) (r : bool),
  fd_hid_ok s -> length m = 368%nat -> Forall (fun x => 1 <= x <= 7) m ->
  exists f : list bool,
    snd (bert_iteration uninit St gen p) = [OutFrame SpecM17.sync_bert f] /\
    length (snd (LemmasMod_D.gen_bits St gen 197 p)) = 197%nat /\
    exists c : Z, (Forall (fun x => x = 7) m -> c = 0) /\
      fd_observe (fd_step s SBert (soft m f) r) =
        (MBert, ROk, Some c, [mkcb FBert (to_bytes (snd (LemmasMod_D.gen_bits St gen 197 p))) c]).
Proof. exact rt_bert_m17mod. Qed.
Print Assumptions c01_rt_bert_m17mod.

(** * Non-vacuity: the hypotheses are satisfiable; concrete frames decoded by evaluating the model
    LSF of source "AB1CD" to broadcast, CAN 3 (CRC-valid); magnitudes 1,2,..,7,1,2,.. and all 7;
    decoder states: freshly constructed (fd_init) or fd_init put into the mode named *)
(** 7. the third transmitter, M17Modulator (packed-byte pipeline; C14 proves its frames equal the specification's encoding):
       the 48 bytes it puts on its queue for a stream frame / for the LSF, unpacked MSB first after the two sync bytes,
       decode bit-exact (cost 0 at full confidence); the LSF names (dst, src) with TYPE 0x0005 and a valid CRC. *)
Theorem c01_rt_stream_modulator : forall (junk : nat -> N) (s : fd_state) (m : list Z) (lsf : list N) (n : nat) (fn : N)
    (payload : list N) (eos r : bool),
  fd_hid_ok s -> fd_mode s = MStream -> length m = 368%nat -> Forall (fun x => (1 <= x <= 7)%Z) m ->
  all_bytes lsf -> length lsf = 30%nat -> (n < 6)%nat -> (fn < 32768)%N -> all_bytes payload -> length payload = 16%nat ->
  let tx := ImplModulator.send_audio_frame junk (nth n (ImplModulator.build_lich junk lsf) []) (ImplModulator.make_payload junk (LemmasMdl_Main.fn_arg fn eos) payload) in
  let o := fd_step s SStream (soft m (frame_bits tx)) r in
  exists c : Z,
    fd_observe o = (MStream, ROk, Some c, [mkcb FStream (fn_field fn eos ++ payload) c]) /\
    (Forall (fun x => x = 7%Z) m -> c = 0%Z) /\ fd_hid_ok (fd_st_of o).
Proof. exact rt_stream_modulator. Qed.
Print Assumptions c01_rt_stream_modulator.

Theorem c01_rt_lsf_modulator : forall (junk : nat -> N) (s : fd_state) (m : list Z) (dst src : list N) (r : bool),
  fd_hid_ok s -> length m = 368%nat -> Forall (fun x => (1 <= x <= 7)%Z) m -> LemmasMdl_Main.callsigns_ok dst src ->
  let tx := snd (ImplModulator.send_link_setup junk (ImplModulator.encode_callsign dst) (ImplModulator.encode_callsign src)) in
  let L := spec_lsf dst src 0 in
  let o := fd_step s SLsf (soft m (frame_bits tx)) r in
  exists c : Z, (Forall (fun x => x = 7%Z) m -> c = 0%Z) /\
    fd_observe o = (update_state MLsf (bytes_bits L), ROk, Some c, [mkcb FLsf L c]) /\ fd_lsf (fd_st_of o) = L /\ fd_hid_ok (fd_st_of o).
Proof. exact rt_lsf_modulator. Qed.
Print Assumptions c01_rt_lsf_modulator.

Example c01_ex_lsf :
  let L := spec_lsf [] [65; 66; 49; 67; 68]%N 3 in
  length L = 30%nat /\ crc30 L = 0%N /\ fd_hid_ok fd_init /\
  fd_observe (fd_step fd_init SLsf (soft (repeat 7 368) (spec_lsf_frame L)) true) = (MStream, ROk, Some 0, [mkcb FLsf L 0]) /\
  fd_observe (fd_step fd_init SLsf (soft (map (fun i => 1 + Z.of_nat (i mod 7)) (seq 0 368)) (spec_lsf_frame L)) true)
    = (MStream, ROk, Some 159, [mkcb FLsf L 159]).
Proof. split; [reflexivity|]. split; [vm_compute; reflexivity|]. split; [exact fd_init_ok|]. split; vm_compute; reflexivity. Qed.

Example c01_ex_lsf_bad_crc :
  let L := repeat 1%N 30 in
  crc30 L <> 0%N /\
  fd_observe (fd_step fd_init SLsf (soft (repeat 7 368) (spec_lsf_frame L)) true) = (MLsf, RFail, Some 0, []).
Proof. split; [vm_compute; discriminate | vm_compute; reflexivity]. Qed.

Example c01_ex_stream_and_lich :
  let L := spec_lsf [] [65; 66; 49; 67; 68]%N 3 in
  let m := map (fun i => 1 + Z.of_nat (i mod 7)) (seq 0 368) in
  let payload := map N.of_nat (seq 100 16) in
  let frame := soft m (spec_stream_frame L 2 77 payload false) in
  let in_mode md := mkst scratch md 0%N (repeat 0%N 30) fd_hidden0 in
  Forall (fun x => 1 <= x <= 7) m /\ length m = 368%nat /\ fd_hid_ok (in_mode MStream) /\
  fd_observe (fd_step (in_mode MStream) SStream frame true) = (MStream, ROk, Some 114, [mkcb FStream ([0; 77]%N ++ payload) 114]) /\
  fd_observe (fd_step (in_mode MLsf) SStream frame true) =
    (MLsf, RIncomplete, Some (-1), [mkcb FLich [221; 81; 1; 133; 0; 64]%N 0]) /\
  lich_chunk L 2 = [221; 81; 1; 133; 0; 64]%N.
Proof. split; [apply Forall_forall; intros x Hx; apply in_map_iff in Hx; destruct Hx as (i & <- & _);
                 pose proof (Nat.mod_upper_bound i 7 ltac:(discriminate)); lia|].
  split; [reflexivity|]. split; [exact fd_init_ok|]. split; [vm_compute; reflexivity|]. split; vm_compute; reflexivity. Qed.

Example c01_ex_packet_bert :
  let m := map (fun i => 1 + Z.of_nat (i mod 7)) (seq 0 368) in
  let in_mode md := mkst scratch md 0%N (repeat 0%N 30) fd_hidden0 in
  let bits := map (fun i => Nat.odd (i / 3)) (seq 0 197) in
  fd_observe (fd_step (in_mode MBasic) SPacket (soft m (spec_packet_frame (map N.of_nat (seq 1 25)) true 9)) true)
    = (MLsf, ROk, Some 159, [mkcb FBasic (map N.of_nat (seq 1 25) ++ [164%N]) 159]) /\
  fd_observe (fd_step (in_mode MFull) SBert (soft (repeat 7 368) (spec_bert_frame bits)) true)
    = (MBert, ROk, Some 0, [mkcb FBert (to_bytes bits) 0]) /\
  nth 24 (to_bytes bits) 0%N = 24%N.
Proof. split; [vm_compute; reflexivity|]. split; vm_compute; reflexivity. Qed.
