(** Frame decoder, C05 at HISTORY level: LICH reassembly over an arbitrary list of stream-sync frames.

    Ghost state, computed from the frames alone: [held k] = the five bytes of the LAST frame so far whose four
    Golay words unpacked and whose fragment number is k (k <= 5).  Frames whose unpack fails and frames with
    fragment number 6 or 7 do not touch it.  The theorems say that the decoder's bitmap/assembly buffer track
    [held] exactly, and that a frame produces the LSF report iff - counting that frame - all six positions are
    held and their concatenation passes the CRC; the report is then that concatenation, bit-exact. *)
From Coq Require Import NArith ZArith List Bool Lia.
From M17 Require Import Bits ImplCRC ConstsCrc ImplFrameDecoder LemmasFD_LSF.
Import ListNotations.
Local Open Scope N_scope.

(* ------------------------------------------------------------------ 0. ghost state (no decoder involved) *)
Definition held_t := nat -> option (list N).
Definition held0 : held_t := fun _ => None.
Definition held_set (h : held_t) (n : nat) (c : list N) : held_t := fun k => if Nat.eqb k n then Some c else h k.

(** the 30 bytes held, if all six positions are held *)
Definition assemble (h : held_t) : option (list N) :=
  match h 0%nat, h 1%nat, h 2%nat, h 3%nat, h 4%nat, h 5%nat with
  | Some c0, Some c1, Some c2, Some c3, Some c4, Some c5 => Some (c0 ++ c1 ++ c2 ++ c3 ++ c4 ++ c5)
  | _, _, _, _, _, _ => None
  end.

(** ... and they pass the CRC *)
Definition complete (h : held_t) : option (list N) :=
  match assemble h with
  | Some L => if crc30 L =? 0 then Some L else None
  | None => None
  end.

(** bitmap [seg] and buffer [lsf] represent [h] *)
Definition tracks (h : held_t) (seg : N) (lsf : list N) : Prop :=
  length lsf = 30%nat /\
  forall k, (k <= 5)%nat ->
    match h k with
    | Some c => N.testbit seg (N.of_nat k) = true /\ slot k lsf = c
    | None => N.testbit seg (N.of_nat k) = false
    end.

Lemma complete_some h L : complete h = Some L -> assemble h = Some L /\ crc30 L = 0.
Proof. unfold complete. destruct (assemble h) as [L'|]; [|discriminate].
  destruct (N.eqb_spec (crc30 L') 0) as [E|E]; [|discriminate].
  intros H. assert (L' = L) as <- by congruence. split; [reflexivity | exact E]. Qed.

Lemma complete_intro h L : assemble h = Some L -> crc30 L = 0 -> complete h = Some L.
Proof. unfold complete. intros -> E. apply N.eqb_eq in E. rewrite E. reflexivity. Qed.

Lemma complete_of_assemble h L : assemble h = Some L -> complete h = if crc30 L =? 0 then Some L else None.
Proof. unfold complete. intros ->. reflexivity. Qed.

Lemma complete_of_none h : assemble h = None -> complete h = None.
Proof. unfold complete. intros ->. reflexivity. Qed.

Lemma complete_none h : complete h = None -> forall L, assemble h = Some L -> crc30 L <> 0.
Proof. unfold complete. intros H L A. rewrite A in H.
  destruct (N.eqb_spec (crc30 L) 0) as [E|E]; [discriminate | exact E]. Qed.

Lemma slots_concat l : length l = 30%nat ->
  slot 0 l ++ slot 1 l ++ slot 2 l ++ slot 3 l ++ slot 4 l ++ slot 5 l = l.
Proof. intros L. do 30 (destruct l as [|? l]; [discriminate|]). destruct l; [|discriminate]. reflexivity. Qed.

Lemma slot_length k l : length l = 30%nat -> (k <= 5)%nat -> length (slot k l) = 5%nat.
Proof. intros L Hk. unfold slot. rewrite firstn_length, skipn_length. lia. Qed.

Lemma bit_clear_not_full seg k : k <= 5 -> N.testbit seg k = false -> N.land seg 0x3F <> 0x3F.
Proof. intros Hk B E. assert (T : N.testbit (N.land seg 63) k = N.testbit 63 k) by (rewrite E; reflexivity).
  rewrite N.land_spec, B in T. cbn [andb] in T.
  assert (k = 0 \/ k = 1 \/ k = 2 \/ k = 3 \/ k = 4 \/ k = 5) as K6 by lia.
  destruct K6 as [->|[->|[->|[->|[->| ->]]]]]; discriminate. Qed.

(** all six held <-> bitmap full, and then the buffer IS the concatenation of what is held *)
Lemma tracks_assemble h seg lsf : tracks h seg lsf ->
  (assemble h = Some lsf /\ N.land seg 0x3F = 0x3F) \/ (assemble h = None /\ N.land seg 0x3F <> 0x3F).
Proof. intros [Len T].
  pose proof (T 0%nat ltac:(lia)) as T0. pose proof (T 1%nat ltac:(lia)) as T1. pose proof (T 2%nat ltac:(lia)) as T2.
  pose proof (T 3%nat ltac:(lia)) as T3. pose proof (T 4%nat ltac:(lia)) as T4. pose proof (T 5%nat ltac:(lia)) as T5.
  unfold assemble.
  destruct (h 0%nat) as [c0|]; [|right; split; [reflexivity | apply (bit_clear_not_full seg 0); [lia | exact T0]]].
  destruct (h 1%nat) as [c1|]; [|right; split; [reflexivity | apply (bit_clear_not_full seg 1); [lia | exact T1]]].
  destruct (h 2%nat) as [c2|]; [|right; split; [reflexivity | apply (bit_clear_not_full seg 2); [lia | exact T2]]].
  destruct (h 3%nat) as [c3|]; [|right; split; [reflexivity | apply (bit_clear_not_full seg 3); [lia | exact T3]]].
  destruct (h 4%nat) as [c4|]; [|right; split; [reflexivity | apply (bit_clear_not_full seg 4); [lia | exact T4]]].
  destruct (h 5%nat) as [c5|]; [|right; split; [reflexivity | apply (bit_clear_not_full seg 5); [lia | exact T5]]].
  left. destruct T0 as [B0 <-], T1 as [B1 <-], T2 as [B2 <-], T3 as [B3 <-], T4 as [B4 <-], T5 as [B5 <-].
  split; [rewrite (slots_concat lsf Len); reflexivity|].
  apply all_six_bits. intros k Hk.
  assert (k = 0 \/ k = 1 \/ k = 2 \/ k = 3 \/ k = 4 \/ k = 5) as K6 by lia.
  destruct K6 as [->|[->|[->|[->|[->| ->]]]]]; assumption. Qed.

(** a fragment n <= 5 written into slot n / bit n: the new bitmap and buffer track the updated ghost state *)
Lemma tracks_set h seg lsf n c : tracks h seg lsf -> (n <= 5)%nat -> length c = 5%nat ->
  tracks (held_set h n c) (seg_after seg (N.of_nat n)) (put_slot n c lsf).
Proof. intros [Len T] Hn Lc. destruct (put_slot_spec n c lsf Len Lc Hn) as (P1 & P2 & P3).
  split; [exact P1|]. intros k Hk. unfold held_set.
  rewrite seg_after_bits by lia.
  destruct (Nat.eqb_spec k n) as [->|Ne].
  - rewrite N.eqb_refl, orb_true_r. split; [reflexivity | exact P2].
  - assert (F : (N.of_nat k =? N.of_nat n) = false) by (apply N.eqb_neq; lia).
    rewrite F, orb_false_r, (P3 k Hk Ne). exact (T k Hk). Qed.

Lemma tracks_held0 lsf : length lsf = 30%nat -> tracks held0 0 lsf.
Proof. intros L. split; [exact L|]. intros k _. reflexivity. Qed.

(** if what is held are the six chunks of one 30-byte L, the assembly is L *)
Lemma assemble_slots h L : length L = 30%nat -> (forall k, (k <= 5)%nat -> h k = Some (slot k L)) -> assemble h = Some L.
Proof. intros Len H. unfold assemble.
  rewrite (H 0%nat), (H 1%nat), (H 2%nat), (H 3%nat), (H 4%nat), (H 5%nat) by lia.
  rewrite (slots_concat L Len). reflexivity. Qed.

(* ------------------------------------------------------------------ 1. unpack_lich always yields six bytes *)
Lemma upd_length {A} i (f : A -> A) l : length (upd i f l) = length l.
Proof. unfold upd. rewrite app_length.
  assert (E : length (match skipn i l with [] => [] | x :: t => f x :: t end) = length (skipn i l))
    by (destruct (skipn i l); reflexivity).
  rewrite E, <- app_length, firstn_skipn. reflexivity. Qed.

Section History.
Variable VS : Type.
Variable derandomize deinterleave : list Z -> list Z.
Variable depuncture : geometry -> list Z -> list Z -> list Z.
Variable viterbi : geometry -> VS -> list Z -> list bool -> (list bool * Z) * VS.
Variable golay_decode : N -> option N.

Notation dstate := (dstate VS).
Notation step := (step VS derandomize deinterleave depuncture viterbi golay_decode).
Notation run := (run VS derandomize deinterleave depuncture viterbi golay_decode).
Notation decode_lich := (decode_lich VS golay_decode).
Notation unpack_lich := (unpack_lich golay_decode).

Lemma unpack_step_length fr acc i : length (fst (fst acc)) = 6%nat ->
  length (fst (fst (unpack_step golay_decode fr acc i))) = 6%nat.
Proof. destruct acc as [[lich idx] ok]. unfold unpack_step. cbn [fst]. intros L.
  destruct (negb ok); [exact L|]. destruct (golay_decode (codeword fr i)); [|exact L].
  destruct (Nat.odd i); cbn [fst]; rewrite !upd_length; exact L. Qed.

Lemma unpack_fold_length fr l : forall acc, length (fst (fst acc)) = 6%nat ->
  length (fst (fst (fold_left (unpack_step golay_decode fr) l acc))) = 6%nat.
Proof. induction l as [|i l IH]; intros acc L; [exact L|]. cbn [fold_left]. apply IH. apply unpack_step_length. exact L. Qed.

Lemma unpack_lich_length fr lich ok : unpack_lich fr = (lich, ok) -> length lich = 6%nat.
Proof. unfold ImplFrameDecoder.unpack_lich.
  pose proof (unpack_fold_length fr (seq 0 4) (repeat 0 6, 0%nat, true) eq_refl) as L. revert L.
  destruct (fold_left _ _ _) as [[l i] o]. cbn [fst]. intros L E. assert (l = lich) as <- by congruence. exact L. Qed.

(* ------------------------------------------------------------------ 2. ghost update by one frame *)
(** the (slot, five bytes) a frame contributes: none if a Golay word is undecodable or the fragment number is 6 or 7 *)
Definition frame_frag (fr : list Z) : option (nat * list N) :=
  let '(lich, ok) := unpack_lich fr in
  if ok then (if frag_of lich <=? 5 then Some (N.to_nat (frag_of lich), firstn 5 lich) else None) else None.

Definition held_upd (h : held_t) (fr : list Z) : held_t :=
  match frame_frag fr with Some (n, c) => held_set h n c | None => h end.

Definition held_after (h : held_t) (frs : list (list Z)) : held_t := fold_left held_upd frs h.

(** the invariant while waiting for link setup: link-setup mode, bitmap and buffer track [h], and what is held has
    not been reportable (otherwise it would have been reported) *)
Definition waiting (h : held_t) (s : dstate) : Prop :=
  d_mode VS s = MLsf /\ tracks h (d_seg VS s) (d_lsf VS s) /\ complete h = None.

(** start: as after construction, reset(), a failed LSF frame or a report *)
Definition fresh (s : dstate) : Prop := d_mode VS s = MLsf /\ d_seg VS s = 0 /\ length (d_lsf VS s) = 30%nat.

Lemma fresh_waiting s : fresh s -> waiting held0 s.
Proof. intros (M & S & L). split; [exact M|]. split; [rewrite S; apply tracks_held0; exact L | reflexivity]. Qed.

Lemma decode_lich_fail s fr lich : unpack_lich fr = (lich, false) ->
  let o := decode_lich s fr in
  d_mode VS (st_of VS o) = d_mode VS s /\ d_seg VS (st_of VS o) = d_seg VS s /\ d_lsf VS (st_of VS o) = d_lsf VS s /\
  res_of VS o = RFail /\ cost_of VS o = Some 128%Z /\ cbs_of VS o = [].
Proof. intros U. cbv zeta. unfold ImplFrameDecoder.decode_lich. rewrite U. cbn [negb].
  unfold st_of, res_of, cost_of, cbs_of; cbn [fst snd d_mode d_seg d_lsf]. repeat split; reflexivity. Qed.

(* ------------------------------------------------------------------ 3. one frame, with the ghost state *)
(** EXACT characterisation of one stream-sync frame while waiting: it reports iff, counting this frame, all six
    positions are held and their concatenation passes the CRC ([complete]); the report is that concatenation. *)
Theorem lich_frame_exact h s fr lich ok : waiting h s -> unpack_lich fr = (lich, ok) ->
  let h' := held_upd h fr in
  let o := decode_lich s fr in
  match ok, complete h' with
  | false, _ =>
      h' = h /\ res_of VS o = RFail /\ cbs_of VS o = [] /\ waiting h' (st_of VS o)
  | true, Some L =>
      res_of VS o = ROk /\ d_mode VS (st_of VS o) = MStream /\ cost_of VS o = Some 0%Z /\
      cbs_of VS o = [mkcb FLich lich 0; mkcb FLsf L 0] /\ d_seg VS (st_of VS o) = 0 /\ d_lsf VS (st_of VS o) = L
  | true, None =>
      res_of VS o = RIncomplete /\ cbs_of VS o = [mkcb FLich lich 0] /\ waiting h' (st_of VS o)
  end.
Proof. intros (M & T & C) U. cbv zeta. unfold held_upd, frame_frag. rewrite U. destruct ok.
  - (* the four Golay words decoded *)
    destruct (decode_lich_spec VS golay_decode s fr lich U) as [Hhi Hlo]. cbv zeta in Hhi, Hlo.
    set (o := decode_lich s fr) in *. clearbody o.
    destruct (N.leb_spec (frag_of lich) 5) as [Le|Gt].
    + specialize (Hlo Le). clear Hhi.
      assert (L5 : length (firstn 5 lich) = 5%nat)
        by (rewrite firstn_length, (unpack_lich_length fr lich true U); reflexivity).
      assert (Hn : (N.to_nat (frag_of lich) <= 5)%nat) by lia.
      pose proof (tracks_set h _ _ _ _ T Hn L5) as T'. rewrite N2Nat.id in T'.
      set (h' := held_set h (N.to_nat (frag_of lich)) (firstn 5 lich)) in *.
      set (lsf' := put_slot (N.to_nat (frag_of lich)) (firstn 5 lich) (d_lsf VS s)) in *.
      set (seg' := seg_after (d_seg VS s) (frag_of lich)) in *. clearbody h' lsf' seg'.
      destruct (tracks_assemble h' seg' lsf' T') as [[A F]|[A F]].
      * pose proof (complete_of_assemble h' lsf' A) as Ec.
        apply N.eqb_eq in F. rewrite F, andb_true_l in Hlo.
        rewrite Ec. revert Ec Hlo. generalize (crc30 lsf' =? 0). intros c Ec. destruct c.
        -- intros (A1 & A2 & A3 & A4 & A5 & A6). repeat split; assumption.
        -- intros (A1 & A2 & A3 & A4 & A5). split; [exact A4|]. split; [exact A5|].
           split; [rewrite A1; exact M|]. split; [rewrite A2, A3; exact T' | exact Ec].
      * pose proof (complete_of_none h' A) as Ec.
        apply N.eqb_neq in F. rewrite F, andb_false_l in Hlo. rewrite Ec.
        destruct Hlo as (A1 & A2 & A3 & A4 & A5). split; [exact A4|]. split; [exact A5|].
        split; [rewrite A1; exact M|]. split; [rewrite A2, A3; exact T' | exact Ec].
    + (* fragment number 6 or 7: nothing collected changes *)
      destruct (Hhi Gt) as (A1 & A2 & A3 & A4 & A5). rewrite C.
      split; [exact A4|]. split; [exact A5|].
      split; [rewrite A1; exact M|]. split; [rewrite A2, A3; exact T | exact C].
  - (* a Golay word was undecodable *)
    destruct (decode_lich_fail s fr lich U) as (A1 & A2 & A3 & A4 & _ & A6).
    split; [reflexivity|]. split; [exact A4|]. split; [exact A6|].
    split; [rewrite A1; exact M|]. split; [rewrite A2, A3; exact T | exact C].
Qed.

(** the two cases separately, without naming the LICH bytes *)
Lemma lich_frame_quiet h s fr : waiting h s -> complete (held_upd h fr) = None ->
  let o := decode_lich s fr in
  waiting (held_upd h fr) (st_of VS o) /\ (res_of VS o = RIncomplete \/ res_of VS o = RFail) /\
  (forall cb, In cb (cbs_of VS o) -> cb_type cb = FLich).
Proof. intros W Q. destruct (unpack_lich fr) as [lich ok] eqn:U.
  pose proof (lich_frame_exact h s fr lich ok W U) as H. cbv zeta in H. rewrite Q in H. cbv zeta.
  set (o := decode_lich s fr) in *. clearbody o. destruct ok.
  - destruct H as (R & Cb & W'). split; [exact W'|]. split; [left; exact R|].
    rewrite Cb. intros cb [<-|[]]. reflexivity.
  - destruct H as (_ & R & Cb & W'). split; [exact W'|]. split; [right; exact R|].
    rewrite Cb. intros cb []. Qed.

Lemma lich_frame_report h s fr L : waiting h s -> complete (held_upd h fr) = Some L ->
  let o := decode_lich s fr in
  res_of VS o = ROk /\ d_mode VS (st_of VS o) = MStream /\ cost_of VS o = Some 0%Z /\
  cbs_of VS o = [mkcb FLich (fst (unpack_lich fr)) 0; mkcb FLsf L 0] /\
  d_seg VS (st_of VS o) = 0 /\ d_lsf VS (st_of VS o) = L.
Proof. intros W Q. destruct (unpack_lich fr) as [lich ok] eqn:U.
  pose proof (lich_frame_exact h s fr lich ok W U) as H. cbv zeta in H. rewrite Q in H. cbv zeta. cbn [fst].
  set (o := decode_lich s fr) in *. clearbody o. destruct ok; [exact H|].
  destruct H as (E & _). destruct W as (_ & _ & C). rewrite E, C in Q. discriminate. Qed.

(** both directions: OK / an LSF callback happen exactly when the held fragments are complete and CRC-valid *)
Theorem lich_frame_reports_iff h s fr : waiting h s ->
  let o := decode_lich s fr in
  (res_of VS o = ROk <-> complete (held_upd h fr) <> None) /\
  ((exists cb, In cb (cbs_of VS o) /\ cb_type cb = FLsf) <-> complete (held_upd h fr) <> None).
Proof. intros W. cbv zeta. destruct (complete (held_upd h fr)) as [L|] eqn:Q.
  - destruct (lich_frame_report h s fr L W Q) as (R & _ & _ & Cb & _). split; split; try discriminate.
    + intros _. exact R.
    + intros _. exists (mkcb FLsf L 0). rewrite Cb. split; [right; left; reflexivity | reflexivity].
  - destruct (lich_frame_quiet h s fr W Q) as (_ & R & Cb). split; split; try (intros H; exfalso; apply H; reflexivity).
    + intros E. exfalso. destruct R as [R|R]; rewrite R in E; discriminate.
    + intros (cb & I & Ty). exfalso. rewrite (Cb cb I) in Ty. discriminate. Qed.

(* ------------------------------------------------------------------ 4. histories of stream-sync frames *)
Definition prep (frame : list Z) : list Z := deinterleave (derandomize frame).
Definition all_stream (hs : list (sync * list Z * bool)) : Prop := Forall (fun x => fst (fst x) = SStream) hs.
(** what unpack_lich sees of each call *)
Definition frames_of (hs : list (sync * list Z * bool)) : list (list Z) := map (fun x => prep (snd (fst x))) hs.

(** no frame of the history made the held fragments complete and CRC-valid (a statement about the frames alone) *)
Fixpoint quiet (h : held_t) (frs : list (list Z)) : Prop :=
  match frs with
  | [] => True
  | fr :: t => complete (held_upd h fr) = None /\ quiet (held_upd h fr) t
  end.

Definition ob_mode (ob : observation) : mode := fst (fst (fst ob)).
Definition ob_res (ob : observation) : result := snd (fst (fst ob)).
Definition ob_cbs (ob : observation) : list callback := snd ob.
Definition quiet_ob (ob : observation) : Prop :=
  ob_mode ob = MLsf /\ (ob_res ob = RIncomplete \/ ob_res ob = RFail) /\ forall cb, In cb (ob_cbs ob) -> cb_type cb = FLich.

Lemma run_cons s sw fr r t :
  run s ((sw, fr, r) :: t) =
  (observe VS (step s sw fr r) :: fst (run (st_of VS (step s sw fr r)) t), snd (run (st_of VS (step s sw fr r)) t)).
Proof. cbn [ImplFrameDecoder.run]. destruct (ImplFrameDecoder.run _ _ _ _ _ _ _ t) as [obs s']. reflexivity. Qed.

Lemma step_stream_waiting s fr r : d_mode VS s = MLsf -> step s SStream fr r = decode_lich s (prep fr).
Proof. intros M. unfold ImplFrameDecoder.step. rewrite M. reflexivity. Qed.

Lemma held_after_snoc h frs fr : held_after h (frs ++ [fr]) = held_upd (held_after h frs) fr.
Proof. unfold held_after. rewrite fold_left_app. reflexivity. Qed.

(** INVARIANT along any quiet history: still link-setup mode, bitmap/buffer track what the frames say is held, every
    call so far returned INCOMPLETE or FAIL with at most the LICH callback *)
Theorem lich_history_waiting hs : forall h s, waiting h s -> all_stream hs -> quiet h (frames_of hs) ->
  waiting (held_after h (frames_of hs)) (snd (run s hs)) /\ Forall quiet_ob (fst (run s hs)).
Proof. induction hs as [|[[sw fr] r] t IH]; intros h s W A Q.
  - split; [exact W | constructor].
  - inversion A as [|x l Sw At]; subst x l. cbn [fst snd] in Sw. subst sw.
    cbn [frames_of map fst snd] in Q. fold (frames_of t) in Q. destruct Q as [Q1 Q2].
    rewrite run_cons. cbn [fst snd]. cbn [frames_of map fst snd]. fold (frames_of t).
    unfold held_after. cbn [fold_left]. fold (held_after (held_upd h (prep fr)) (frames_of t)).
    destruct W as (M & W2). rewrite (step_stream_waiting s fr r M).
    destruct (lich_frame_quiet h s (prep fr) (conj M W2) Q1) as (W' & R & Cb).
    set (o := decode_lich s (prep fr)) in *. clearbody o.
    destruct (IH (held_upd h (prep fr)) (st_of VS o) W' At Q2) as [I1 I2].
    split; [exact I1|]. constructor; [|exact I2].
    unfold quiet_ob, ob_mode, ob_res, ob_cbs, observe. cbn [fst snd].
    split; [destruct W' as (M' & _); exact M'|]. split; [exact R | exact Cb]. Qed.

(** once in stream mode, stream-sync frames keep it there - so "still waiting after the history" identifies quiet histories *)
Lemma stream_mode_absorbing hs : forall s, d_mode VS s = MStream -> all_stream hs -> d_mode VS (snd (run s hs)) = MStream.
Proof. induction hs as [|[[sw fr] r] t IH]; intros s M A; [exact M|].
  inversion A as [|x l Sw At]; subst x l. cbn [fst snd] in Sw. subst sw.
  rewrite run_cons. cbn [snd]. apply IH; [|exact At].
  unfold ImplFrameDecoder.step. rewrite M. unfold decode_stream.
  destruct (decode_payload _ _ _ _ _ _) as [[[bytes bits] cost] h']. unfold st_of. cbn [fst d_mode]. exact M. Qed.

Theorem still_waiting_quiet hs : forall h s, waiting h s -> all_stream hs ->
  d_mode VS (snd (run s hs)) = MLsf -> quiet h (frames_of hs).
Proof. induction hs as [|[[sw fr] r] t IH]; intros h s W A Mend; [exact I|].
  inversion A as [|x l Sw At]; subst x l. cbn [fst snd] in Sw. subst sw.
  cbn [frames_of map fst snd]. fold (frames_of t). cbn [quiet].
  rewrite run_cons in Mend. cbn [snd] in Mend.
  assert (M : d_mode VS s = MLsf) by (destruct W as (M & _); exact M).
  rewrite (step_stream_waiting s fr r M) in Mend.
  destruct (complete (held_upd h (prep fr))) as [L|] eqn:Q.
  - exfalso. destruct (lich_frame_report h s (prep fr) L W Q) as (_ & Ms & _).
    rewrite (stream_mode_absorbing t _ Ms At) in Mend. discriminate.
  - split; [reflexivity|]. destruct (lich_frame_quiet h s (prep fr) W Q) as (W' & _).
    exact (IH _ _ W' At Mend). Qed.

(** THE HISTORY THEOREM.  From a fresh decoder (bitmap 0), after ANY history of stream-sync frames that left it waiting,
    the next stream-sync frame reports iff the fragments held - per the frames alone, counting this one - are complete and
    pass the CRC, and then reports exactly their concatenation; otherwise INCOMPLETE/FAIL and it keeps waiting, tracking. *)
Theorem lich_history_exact hs s fr r lich ok : fresh s -> all_stream hs -> d_mode VS (snd (run s hs)) = MLsf ->
  unpack_lich (prep fr) = (lich, ok) ->
  let h := held_after held0 (frames_of hs) in
  let h' := held_after held0 (frames_of hs ++ [prep fr]) in
  let o := step (snd (run s hs)) SStream fr r in
  waiting h (snd (run s hs)) /\ Forall quiet_ob (fst (run s hs)) /\
  match ok, complete h' with
  | false, _ =>
      h' = h /\ res_of VS o = RFail /\ cbs_of VS o = [] /\ waiting h' (st_of VS o)
  | true, Some L =>
      res_of VS o = ROk /\ d_mode VS (st_of VS o) = MStream /\ cost_of VS o = Some 0%Z /\
      cbs_of VS o = [mkcb FLich lich 0; mkcb FLsf L 0] /\ d_seg VS (st_of VS o) = 0 /\ d_lsf VS (st_of VS o) = L
  | true, None =>
      res_of VS o = RIncomplete /\ cbs_of VS o = [mkcb FLich lich 0] /\ waiting h' (st_of VS o)
  end.
Proof. intros F A Mend U. cbv zeta.
  pose proof (fresh_waiting s F) as W0.
  pose proof (still_waiting_quiet hs held0 s W0 A Mend) as Q.
  destruct (lich_history_waiting hs held0 s W0 A Q) as [W Obs].
  split; [exact W|]. split; [exact Obs|].
  rewrite held_after_snoc, (step_stream_waiting _ fr r Mend).
  exact (lich_frame_exact _ _ (prep fr) lich ok W U). Qed.

(** the ghost update, case by case: only a decodable frame with fragment number 0..5 changes what is held, and only there *)
Lemma held_upd_cases h fr lich ok : unpack_lich fr = (lich, ok) ->
  (ok = false -> held_upd h fr = h) /\
  (ok = true -> 5 < frag_of lich -> held_upd h fr = h) /\
  (ok = true -> frag_of lich <= 5 -> held_upd h fr = held_set h (N.to_nat (frag_of lich)) (firstn 5 lich)).
Proof. intros U. unfold held_upd, frame_frag. rewrite U. split; [intros ->; reflexivity|]. split; intros -> H.
  - apply N.leb_gt in H. rewrite H. reflexivity.
  - apply N.leb_le in H. rewrite H. reflexivity. Qed.

Section Corollaries.
Variables (hs : list (sync * list Z * bool)) (s : dstate) (fr : list Z) (r : bool).
Hypothesis F : fresh s.
Hypothesis A : all_stream hs.
Hypothesis Mend : d_mode VS (snd (run s hs)) = MLsf.
Let h' := held_after held0 (frames_of hs ++ [prep fr]).
Let o := step (snd (run s hs)) SStream fr r.

Lemma history_waiting : waiting (held_after held0 (frames_of hs)) (snd (run s hs)).
Proof. pose proof (fresh_waiting s F) as W0.
  exact (proj1 (lich_history_waiting hs held0 s W0 A (still_waiting_quiet hs held0 s W0 A Mend))). Qed.

(** both directions at history level *)
Theorem lich_history_reports_iff :
  (res_of VS o = ROk <-> complete h' <> None) /\
  ((exists cb, In cb (cbs_of VS o) /\ cb_type cb = FLsf) <-> complete h' <> None).
Proof. subst h' o. rewrite held_after_snoc, (step_stream_waiting _ fr r Mend).
  exact (lich_frame_reports_iff _ _ (prep fr) history_waiting). Qed.

(** C05 in the property's words: if, when this frame arrives, the fragments held for the six positions are the six
    chunks of ONE CRC-valid 30-byte L - received in any order, with repeats, interleaved with fragments of other LSFs that
    were overwritten since, with out-of-range fragment numbers and undecodable frames in between - L is reported bit-exact *)
Theorem reassembly_history L : length L = 30%nat -> crc30 L = 0 ->
  (forall k, (k <= 5)%nat -> h' k = Some (slot k L)) ->
  res_of VS o = ROk /\ d_mode VS (st_of VS o) = MStream /\ cost_of VS o = Some 0%Z /\
  cbs_of VS o = [mkcb FLich (fst (unpack_lich (prep fr))) 0; mkcb FLsf L 0] /\
  d_seg VS (st_of VS o) = 0 /\ d_lsf VS (st_of VS o) = L.
Proof. intros Len Crc H. pose proof (complete_intro h' L (assemble_slots h' L Len H) Crc) as Q.
  subst h' o. rewrite held_after_snoc in Q. rewrite (step_stream_waiting _ fr r Mend).
  exact (lich_frame_report _ _ (prep fr) L history_waiting Q). Qed.

(** conversely: whatever is reported is exactly the concatenation of the held fragments, and it passes the CRC - a mixture
    of fragments of different LSFs can only be reported if that very mixture passes the CRC *)
Theorem report_is_held cb : In cb (cbs_of VS o) -> cb_type cb = FLsf ->
  assemble h' = Some (cb_bytes cb) /\ crc30 (cb_bytes cb) = 0.
Proof. intros I Ty. destruct (complete h') as [L|] eqn:Q.
  - pose proof (complete_some h' L Q) as [As Crc]. subst h' o.
    rewrite held_after_snoc in Q. rewrite (step_stream_waiting _ fr r Mend) in I.
    destruct (lich_frame_report _ _ (prep fr) L history_waiting Q) as (_ & _ & _ & Cb & _).
    rewrite Cb in I. destruct I as [<-|[<-|[]]]; [discriminate|]. cbn [cb_bytes]. split; [exact As | exact Crc].
  - exfalso. destruct lich_history_reports_iff as [_ [X _]]. apply X; [|exact Q]. exists cb. split; assumption. Qed.

End Corollaries.
End History.
