(** C12 — Gallina mirror of the soft demapper of include/m17cxx/Util.h:
      detail::llr_limit, detail::llr_size, detail::make_llr_map<FloatType,LLR>, llr<FloatType,LLR>(sample).

    IEEE-754 model.  Values are [SpecFloat.spec_float] (zero / infinity / NaN / finite sign-mantissa-exponent), the
    operations are the round-to-nearest-even [SFadd], [SFsub], [SFdiv], [SFcompare], [binary_normalize] of Coq's
    Floats.SpecFloat.  These are the computational content of Flocq's IEEE754 operations: LemmasLLR_Flocq.v proves
    that every operation used here returns [B2SF] of Flocq's [Bplus]/[Bminus]/[Bdiv]/[Bcompare]/[binary_normalize]
    (mode_NE) on [binary_float] arguments, and that the tables below are the ones computed with Flocq's operations.
    Working on [spec_float] keeps the model executable, extractable and free of the real-number axioms.

    C++ evaluation rules that are mirrored (x86-64, FLT_EVAL_METHOD = 0, GCC constant evaluation = IEEE RNE):
      - an operation between a FloatType and a [double] literal is done in double (usual arithmetic conversions),
        the result is rounded to FloatType when stored in a FloatType variable;
      - FloatType op FloatType is done in FloatType;
      - [a < b] is false when either operand is NaN; -0 == +0.
    No proofs in this file. *)
From Coq Require Import ZArith List Bool Floats.SpecFloat.
From M17 Require Import ConstsLlr.
Import ListNotations.
Open Scope Z_scope.

(** * Formats *)
Record fmt := Fmt { f_prec : Z; f_emax : Z }.
Definition F32 : fmt := Fmt 24 128.     (* float  *)
Definition F64 : fmt := Fmt 53 1024.    (* double *)

(** conversion of a value to format [t] (round to nearest even); exact when widening *)
Definition sf_conv (t : fmt) (x : spec_float) : spec_float :=
  match x with
  | S754_finite s m e => binary_normalize (f_prec t) (f_emax t) (cond_Zopp s (Zpos m)) e s
  | _ => x
  end.
(** integer -> format [t] *)
Definition sf_of_Z (t : fmt) (z : Z) : spec_float := binary_normalize (f_prec t) (f_emax t) z 0 false.

Definition dadd := SFadd 53 1024.
Definition dsub := SFsub 53 1024.
Definition ddiv := SFdiv 53 1024.
Definition to_double := sf_conv F64.

(** * int8_t *)
Definition wrap8 (z : Z) : Z := (z + 128) mod 256 - 128.

(** * detail::llr_limit<N>(), detail::llr_size<N>() *)
Definition llr_limit (L : Z) : Z := Z.shiftl llr_limit_base (L - llr_limit_shift_sub) - llr_limit_sub.
Definition llr_size (L : Z) : Z := llr_limit L * llr_size_segments + llr_size_extra.

(** * detail::make_llr_map<FloatType,LLR>() *)
Definition row := (spec_float * (Z * Z))%type.

Record mstate := MState { st_k : spec_float; st_i : Z; st_j : Z }.

(** one iteration of the for loop: emit the row, update the counters, advance k *)
Definition map_step (t : fmt) (limit : Z) (inc : spec_float) (st : mstate) : row * mstate :=
  let k := st_k st in
  let i := st_i st in
  let j := st_j st in
  let a : row := (k, (i, j)) in
  let '(i', j') :=
    if SFltb (dadd (to_double k) llr_seg1_add) llr_seg1_cmp then           (* if (k + 1.0 < 0) *)
      let j1 := wrap8 (j - 1) in                                           (*   j--;                    *)
      let j2 := if j1 =? 0 then wrap8 llr_skip1 else j1 in                 (*   if (j == 0) j = -1;     *)
      let j3 := if j2 <? - limit then wrap8 (- limit) else j2 in           (*   if (j < -limit) j = -limit; *)
      (i, j3)
    else if SFltb (dsub (to_double k) llr_seg2_sub) llr_seg2_cmp then      (* else if (k - 1.0 < 0) *)
      let i1 := wrap8 (i - 1) in
      let i2 := if i1 =? 0 then wrap8 llr_skip2 else i1 in
      let i3 := if i2 <? - limit then wrap8 (- limit) else i2 in
      (i3, j)
    else
      let j1 := wrap8 (j + 1) in                                           (*   j++;                    *)
      let j2 := if j1 =? 0 then wrap8 llr_skip3 else j1 in                 (*   if (j == 0) j = 1;      *)
      let j3 := if limit <? j2 then limit else j2 in                       (*   if (j > limit) j = limit; *)
      (i, j3) in
  let k' := SFadd (f_prec t) (f_emax t) k inc in                           (* k += inc;  (FloatType + FloatType) *)
  (a, MState k' i' j').

Fixpoint map_loop (t : fmt) (limit : Z) (inc : spec_float) (n : nat) (st : mstate) : list row :=
  match n with
  | O => []
  | S n' => let '(a, st') := map_step t limit inc st in a :: map_loop t limit inc n' st'
  end.

Definition make_llr_map (t : fmt) (L : Z) : list row :=
  let size := llr_size L in
  let limit := wrap8 (llr_limit L) in                                      (* constexpr int8_t limit = llr_limit<LLR>(); *)
  let inc := sf_conv t (ddiv llr_inc_num (to_double (sf_of_Z t limit))) in (* constexpr FloatType inc = 1.0 / FloatType(limit); *)
  let k0 := sf_conv t (dadd llr_k0 (to_double inc)) in                     (* FloatType k = -3.0 + inc; *)
  map_loop t limit inc (Z.to_nat size) (MState k0 limit limit).

(** * llr<FloatType,LLR>(sample) *)
(** std::max(a, b) = (a < b) ? b : a        std::min(a, b) = (b < a) ? b : a *)
Definition std_max (a b : spec_float) : spec_float := if SFltb a b then b else a.
Definition std_min (a b : spec_float) : spec_float := if SFltb b a then b else a.

(** std::lower_bound(first, last, val, comp) as libstdc++ implements it (bisection on the length) *)
Section LowerBound.
  Variable A : Type.
  Variable comp : A -> bool.            (* comp(middle-element, val) with val fixed *)
  Variable dflt : A.
  Fixpoint lower_bound_aux (fuel : nat) (tbl : list A) (first len : nat) : nat :=
    match fuel with
    | O => first
    | S f =>
      match len with
      | O => first                                                       (* while (len > 0) *)
      | _ =>
        let half := Nat.div2 len in                                      (* half = len >> 1 *)
        let middle := (first + half)%nat in
        if comp (nth middle tbl dflt)
        then lower_bound_aux f tbl (middle + 1)%nat (len - half - 1)%nat (* first = ++middle; len = len - half - 1 *)
        else lower_bound_aux f tbl first half                            (* len = half *)
      end
    end.
  Definition lower_bound (tbl : list A) : nat := lower_bound_aux (S (length tbl)) tbl 0%nat (length tbl).
End LowerBound.

Definition row_dflt : row := (S754_nan, (0, 0)).

Definition llr_with (tbl : list row) (t : fmt) (sample : spec_float) : Z * Z :=
  let maxv := sf_conv t llr_max_value in                                   (* static constexpr FloatType MAX_VALUE = 3.0;  *)
  let minv := sf_conv t llr_min_value in                                   (* static constexpr FloatType MIN_VALUE = -3.0; *)
  let s := std_min maxv (std_max minv sample) in
  let it := lower_bound row (fun e => SFltb (fst e) s) row_dflt tbl in     (* [](e, s){ return get<0>(e) < s; } *)
  if Nat.eqb it (length tbl) then snd (last tbl row_dflt)                  (* if (it == end()) return the last row *)
  else snd (nth it tbl row_dflt).

Definition llr (t : fmt) (L : Z) (sample : spec_float) : Z * Z := llr_with (make_llr_map t L) t sample.

(** * bit patterns (IEEE interchange encoding) -> spec_float, for the driver and for reuse *)
Definition sf_of_bits (t : fmt) (b : Z) : spec_float :=
  let mw := f_prec t - 1 in                      (* stored mantissa bits *)
  let ew := Z.log2 (f_emax t) + 1 in             (* exponent bits: 8 / 11 *)
  let m := b mod 2 ^ mw in
  let e := (b / 2 ^ mw) mod 2 ^ ew in
  let s := Z.odd (b / 2 ^ (mw + ew)) in
  if e =? 0 then
    match m with Zpos p => S754_finite s p (emin (f_prec t) (f_emax t)) | _ => S754_zero s end
  else if e =? 2 ^ ew - 1 then
    match m with Z0 => S754_infinity s | _ => S754_nan end
  else
    match m + 2 ^ mw with Zpos p => S754_finite s p (e + emin (f_prec t) (f_emax t) - 1) | _ => S754_nan end.

Definition bits_of_sf (t : fmt) (x : spec_float) : Z :=
  let mw := f_prec t - 1 in
  let ew := Z.log2 (f_emax t) + 1 in
  let sb (s : bool) := if s then 2 ^ (mw + ew) else 0 in
  match x with
  | S754_zero s => sb s
  | S754_infinity s => sb s + (2 ^ ew - 1) * 2 ^ mw
  | S754_nan => (2 ^ ew - 1) * 2 ^ mw + 2 ^ (mw - 1)
  | S754_finite s m e =>
    if Zpos m <? 2 ^ mw then sb s + Zpos m
    else sb s + (e - emin (f_prec t) (f_emax t) + 1) * 2 ^ mw + (Zpos m - 2 ^ mw)
  end.
