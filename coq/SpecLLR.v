(** C12 — what the property statement and the M17 specification say, independent of the code.

    M17 physical layer (DESIGN Appendix A): 4-FSK, dibit -> symbol  01 -> +3, 00 -> +1, 10 -> -1, 11 -> -3.
    A soft bit is positive when the bit is 1.  The decision boundaries between adjacent levels are 0, +2, -2.
    Values are exact rationals. *)
From Coq Require Import ZArith QArith Qabs List Bool Floats.SpecFloat.
Import ListNotations.

(** the value a finite IEEE datum denotes (zero for +-0; not meaningful for infinities / NaN) *)
Definition SF2Q (x : spec_float) : Q :=
  match x with
  | S754_finite s m e =>
    let zm := cond_Zopp s (Zpos m) in
    match e with
    | Z0 => inject_Z zm
    | Zpos p => inject_Z (zm * 2 ^ Zpos p)
    | Zneg p => Qmake zm (2 ^ p)%positive
    end
  | _ => 0
  end.

Definition sf_finite (x : spec_float) : bool :=
  match x with S754_finite _ _ _ | S754_zero _ => true | _ => false end.

(** (level, (first bit, second bit)) in the order of the specification's table *)
Definition gray_levels : list (Z * (bool * bool)) :=
  [ (3, (false, true)); (1, (false, false)); (-1, (true, false)); (-3, (true, true)) ]%Z.

Definition dist (q : Q) (l : Z) : Q := Qabs (q - inject_Z l).

(** dibit of the level nearest to q (the first of the list among equally near ones) *)
Fixpoint nearest_from (q : Q) (best : Z * (bool * bool)) (ls : list (Z * (bool * bool))) : Z * (bool * bool) :=
  match ls with
  | [] => best
  | l :: r => if Qle_bool (dist q (fst best)) (dist q (fst l)) then nearest_from q best r else nearest_from q l r
  end.
Definition nearest_level (q : Q) : Z * (bool * bool) :=
  match gray_levels with [] => (0%Z, (false, false)) | l :: r => nearest_from q l r end.
Definition nearest_dibit (q : Q) : bool * bool := snd (nearest_level q).

(** decision boundaries and the guard of the statement: farther than 1e-6 from each of them *)
Definition boundaries : list Z := [0; 2; -2]%Z.
Definition eps : Q := 1 # 1000000.
Definition far_from_boundaries (q : Q) : Prop := forall b, In b boundaries -> eps < Qabs (q - inject_Z b).
Definition far_from_boundariesb (q : Q) : bool := forallb (fun b => negb (Qle_bool (Qabs (q - inject_Z b)) eps)) boundaries.

(** positive soft bit = bit 1 *)
Definition soft_bit (z : Z) : bool := (0 <? z)%Z.
Definition soft_dibit (v : Z * Z) : bool * bool := (soft_bit (fst v), soft_bit (snd v)).

(** 4-bit resolution: non-zero, within +-7; in general within +-(2^(L-1)-1) *)
Definition full_scale (L : Z) : Z := (2 ^ (L - 1) - 1)%Z.
Definition soft_ok (L : Z) (v : Z * Z) : bool :=
  (negb (fst v =? 0) && (- full_scale L <=? fst v) && (fst v <=? full_scale L) &&
   negb (snd v =? 0) && (- full_scale L <=? snd v) && (snd v <=? full_scale L))%Z.
Definition saturated (L : Z) (v : Z * Z) : bool := ((Z.abs (fst v) =? full_scale L) && (Z.abs (snd v) =? full_scale L))%Z.
