(** LemmasVit_Geom — computed facts about the four M17 geometries (regenerated from M17FrameDecoder.h / Trellis.h),
    the theorems specialised to them, the characterisation of the exported [viterbi_decode], and the witness
    against the zero-terminated reading. *)
From Coq Require Import NArith ZArith List Lia Bool Arith.
From M17 Require Import Bits ConstsViterbi ImplViterbi SpecConv ViterbiGeom
  LemmasVit_DP LemmasVit_Tables LemmasVit_Step LemmasVit_Loop LemmasVit_ML LemmasVit_Free.
Import ListNotations.
Local Open Scope Z_scope.

Definition geom_ok (g : nat * nat * nat * nat) : bool :=
  Nat.even (g_in g) && (g_in g / 2 <=? 244)%nat && (g_out g <=? g_in g / 2)%nat &&
  (length (g_mask g) =? g_in g)%nat && unique_ok (g_mask g) (g_out g).
Lemma geom_sweep : forallb geom_ok geoms = true.
Proof. vm_cast_no_check (eq_refl true). Qed.

Lemma geom_facts g : In g geoms ->
  Nat.even (g_in g) = true /\ (g_in g / 2 <= 244)%nat /\ (g_out g <= g_in g / 2)%nat /\
  length (g_mask g) = g_in g /\ unique_ok (g_mask g) (g_out g) = true.
Proof. intros H. pose proof (proj1 (forallb_forall _ _) geom_sweep g H) as S. unfold geom_ok in S.
  apply andb_prop in S. destruct S as [S S5]. apply andb_prop in S. destruct S as [S S4].
  apply andb_prop in S. destruct S as [S S3]. apply andb_prop in S. destruct S as [S1 S2].
  apply Nat.leb_le in S2. apply Nat.leb_le in S3. apply Nat.eqb_eq in S4.
  split; [exact S1 | split; [exact S2 | split; [exact S3 | split; [exact S4 | exact S5]]]]. Qed.

(** the geometries and the width are the ones the property names *)
Lemma geoms_are_m17 : map (fun g => (g_in g, g_out g)) geoms = [(488, 240); (296, 144); (420, 206); (402, 197)]%nat.
Proof. reflexivity. Qed.
Lemma llr_is_4 : vit_LLR = 4%nat.
Proof. reflexivity. Qed.

Lemma corrects_m17 g W k sc out0 w fl : In g geoms ->
  (2 <= W <= 6)%nat -> (k <= g_out g)%nat -> wf_scratch sc -> length out0 = g_out g ->
  length w = (g_in g / 2)%nat -> length fl = g_in g ->
  2 * nflips (g_mask g) fl < dfree (g_mask g) k ->
  firstn k (fst (fst (decode W (g_in g) (g_out g) sc out0 (tx_image (soft_limit W) (g_mask g) (conv w) fl)))) =
  map b2n (firstn k w).
Proof. intros Hg HW Hk Hsc Hout0 Hw Hfl He. destruct (geom_facts g Hg) as (G1 & G2 & G3 & G4 & _).
  apply corrects_gen; assumption. Qed.

Lemma clean_unique_m17 g W sc out0 r w : In g geoms ->
  (2 <= W <= 6)%nat -> wf_scratch sc -> length out0 = g_out g -> length w = (g_in g / 2)%nat ->
  clean (soft_limit W) r (conv w) -> mask_sub (g_mask g) r ->
  fst (fst (decode W (g_in g) (g_out g) sc out0 r)) = map b2n (firstn (g_out g) w) /\
  ((forall x, In x r -> x = 0 \/ Z.abs x = soft_limit W) -> snd (fst (decode W (g_in g) (g_out g) sc out0 r)) = 0).
Proof. intros Hg HW Hsc Hout0 Hw Hcl Hms. destruct (geom_facts g Hg) as (G1 & G2 & G3 & G4 & G5).
  apply (clean_unique_gen source_tiebreak W (g_in g) (g_out g) (g_mask g)); assumption. Qed.

(** * the exported function *)
Lemma wf_scratch0 : wf_scratch scratch0.
Proof. repeat split. Qed.

Lemma viterbi_decode_ml W IN OUT r :
  (2 <= W <= 6)%nat -> Nat.even IN = true -> (IN / 2 <= 244)%nat -> (OUT <= IN / 2)%nat ->
  length r = IN -> Forall int8 r ->
  let L := soft_limit W in
  exists w, length w = (IN / 2)%nat /\ fst (viterbi_decode W IN OUT r) = map b2n (firstn OUT w) /\
    (forall w', length w' = (IN / 2)%nat -> dist L r (conv w) <= dist L r (conv w')) /\
    snd (viterbi_decode W IN OUT r) = (2 * dist L r (conv w) + L) / (2 * L).
Proof. intros HW Hev HIN HOUT Hlen Hr L. unfold viterbi_decode, decode.
  destruct (fst (decode_gen source_tiebreak W IN OUT scratch0 (repeat 0%N OUT) r)) as [out cost] eqn:E.
  destruct (viterbi_ml_gen source_tiebreak W IN OUT scratch0 (repeat 0%N OUT) r out cost HW Hev HIN HOUT wf_scratch0
              (repeat_length _ _) Hlen Hr E) as [(w & L1 & L2 & L3 & L4 & _) _].
  exists w. cbn [fst snd]. split; [exact L1|]. split; [symmetry; exact L2|]. split; [exact L3 | exact L4]. Qed.

Lemma viterbi_decode_clean W IN OUT mask r w :
  (2 <= W <= 6)%nat -> Nat.even IN = true -> (IN / 2 <= 244)%nat -> (OUT <= IN / 2)%nat ->
  length w = (IN / 2)%nat -> clean (soft_limit W) r (conv w) -> mask_sub mask r -> unique_ok mask OUT = true ->
  fst (viterbi_decode W IN OUT r) = map b2n (firstn OUT w) /\
  ((forall x, In x r -> x = 0 \/ Z.abs x = soft_limit W) -> snd (viterbi_decode W IN OUT r) = 0).
Proof. intros HW Hev HIN HOUT Hw Hcl Hms Hu. unfold viterbi_decode, decode.
  apply (clean_unique_gen source_tiebreak W IN OUT mask scratch0 (repeat 0%N OUT) r w); try assumption.
  - exact wf_scratch0.
  - apply repeat_length. Qed.

(** * the other reading: optimal among zero-terminated code words only — false of this decoder *)
Definition refute_r : list Z := [5; -3; 7; -3; 0; 7; 0; 7; 7; 5; -7; 0].
Lemma terminated_refuted :
  fst (viterbi_decode 4 12 2 refute_r) = [1; 1]%N /\
  dist 7 refute_r (conv ([false; true] ++ [false; false; false; false])) <
  dist 7 refute_r (conv ([true; true] ++ [false; false; false; false])).
Proof. split; [vm_compute; reflexivity | vm_compute; reflexivity]. Qed.
