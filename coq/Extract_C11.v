(** Extraction of the puncture / depuncture models for the correspondence check: ExtrOcamlBasic only. *)
Require Extraction.
Require Import ExtrOcamlBasic.
From Coq Require Import NArith ZArith List.
From M17 Require Import Bits ImplUtilBits ConstsPuncture ImplPuncture SpecPuncture.

(* matrix number k: 1 = P1 (computed by make_p1), 2 = P2, 3 = P3 *)
Definition c11_matrix (k : N) : list N := matrix k.
Definition c11_puncture (k : N) (OUT : nat) (inp prev : list Z) : list Z * nat := puncture (matrix k) OUT inp prev.
Definition c11_puncture_bytes (k : N) (OUT : nat) (inp prev : list N) : list N * nat := puncture_bytes (matrix k) OUT inp prev.
Definition c11_depuncture (k : N) (OUT : nat) (inp prev : list Z) : list Z * nat := depuncture (matrix k) OUT inp prev.
Definition c11_depunctured (k : N) (M : nat) (inp : list Z) : list Z := depunctured (matrix k) M inp.
Definition c11_sites : list (N * N * N) * list (N * N * N) * list (N * N * N) := (depuncture_sites, puncture_sites, puncture_bytes_sites).
(* specification side, for the oracle *)
Definition c11_spec_matrix (k : N) : list N := match k with 1%N => p1 | 2%N => p2 | 3%N => p3 | _ => nil end.
Definition c11_spec_mask (k : N) (n : nat) : list bool := mask (c11_spec_matrix k) n.
Extraction "c11_model.ml" c11_matrix c11_puncture c11_puncture_bytes c11_depuncture c11_depunctured c11_sites c11_spec_matrix c11_spec_mask.
