(** LemmasVit_ML — decode() is maximum-likelihood for the M17 code with a free tail (viterbi_ml), its result does not
    depend on the object state or the output buffer, and no int16/int32 value leaves its range (no_wrap). *)
From Coq Require Import NArith ZArith List Lia Bool Arith.
From M17 Require Import Bits ConstsViterbi ImplViterbi SpecConv LemmasVit_DP LemmasVit_Tables LemmasVit_Step LemmasVit_Loop.
Import ListNotations.
Local Open Scope Z_scope.

Definition int8 (x : Z) : Prop := -128 <= x <= 127.

(** * the branch costs along a path are the soft distance to the code word of the path *)
Fixpoint costs_l (L : Z) (r : list Z) : list cost :=
  match r with
  | s0 :: s1 :: r' => bcost L s0 s1 :: costs_l L r'
  | _ => []
  end.

Lemma costs_of_l W : forall n r, length r = (2 * n)%nat -> costs_of W r n = costs_l (soft_limit W) r.
Proof. induction n as [|n IH]; intros r Hr.
- destruct r; [reflexivity | discriminate].
- destruct r as [|a [|b r']]; cbn [length] in Hr; try lia.
  unfold costs_of. cbn [seq map]. rewrite <- seq_shift, map_map. cbn [costs_l]. f_equal.
  rewrite <- (IH r') by lia. unfold costs_of. apply map_ext. intros t. unfold step_cost.
  replace (2 * S t)%nat with (S (S (2 * t))) by lia. replace (S (S (2 * t)) + 1)%nat with (S (S (2 * t + 1))) by lia.
  reflexivity. Qed.

Lemma pcost_dist L : forall w d1 d2 d3 d4 r, length r = (2 * length w)%nat ->
  pcost16 (st_of d1 d2 d3 d4) w (costs_l L r) = dist L r (conv_from d1 d2 d3 d4 w).
Proof. induction w as [|b w IH]; intros d1 d2 d3 d4 r Hr.
- destruct r; [reflexivity | discriminate].
- destruct r as [|x [|y r']]; cbn [length] in Hr; try lia.
  cbn [costs_l conv_from dist]. rewrite pcost_cons, nx16_st_of, IH by lia.
  unfold bcost. rewrite out1_st_of, out2_st_of. lia. Qed.

Lemma pcost_conv W r w : length r = (2 * length w)%nat ->
  pcost16 0%nat w (costs_of W r (length w)) = dist (soft_limit W) r (conv w).
Proof. intros H. rewrite costs_of_l by exact H. apply (pcost_dist _ w false false false false). exact H. Qed.

(** * bounds *)
Lemma sdist_bounds L x b : 1 <= L <= 31 -> int8 x -> 0 <= sdist L x b <= 159.
Proof. unfold sdist, int8. intros. destruct (x =? 0), b; lia. Qed.

Lemma bcost_bounds L s0 s1 s b : 1 <= L <= 31 -> int8 s0 -> int8 s1 -> 0 <= bcost L s0 s1 s b <= 318.
Proof. intros HL H0 H1. unfold bcost.
  pose proof (sdist_bounds L s0 (out1 s b) HL H0). pose proof (sdist_bounds L s1 (out2 s b) HL H1). lia. Qed.

Lemma int8_nth r i : Forall int8 r -> int8 (nth i r 0).
Proof. intros H. destruct (Nat.lt_ge_cases i (length r)) as [Hi|Hi].
- apply (proj1 (Forall_forall _ _) H). apply nth_In. exact Hi.
- rewrite nth_overflow by exact Hi. unfold int8. lia. Qed.

Lemma costs_of_bounds W r n : (2 <= W <= 6)%nat -> Forall int8 r ->
  Forall (fun c : cost => forall s b, (s < 16)%nat -> 0 <= c s b <= 318) (costs_of W r n).
Proof. intros HW Hr. destruct (limit_spec W HW) as (_ & HL & _).
  apply Forall_forall. intros c Hc. unfold costs_of in Hc. apply in_map_iff in Hc. destruct Hc as (t & <- & _).
  intros s b _. unfold step_cost. apply bcost_bounds; [exact HL | apply int8_nth; exact Hr | apply int8_nth; exact Hr]. Qed.

Lemma m_init_0 : nth 0 m_init 0 = 0.
Proof. reflexivity. Qed.
Lemma m_init_other s : (s < 16)%nat -> s <> 0%nat -> nth s m_init 0 = MAX_METRIC.
Proof. intros H N. unfold m_init. rewrite nth_upd_other by lia.
  rewrite nth_indep with (d' := MAX_METRIC) by (rewrite repeat_length; exact H). apply nth_repeat. Qed.
Lemma m_init_bounds s : (s < 16)%nat -> 0 <= nth s m_init 0 <= MAX_METRIC.
Proof. intros H. destruct (Nat.eq_dec s 0) as [->|N]; [rewrite m_init_0; rewrite MAX_METRIC_val; lia|].
  rewrite m_init_other by assumption. rewrite MAX_METRIC_val. lia. Qed.

Lemma forward_bounds tb W r : (2 <= W <= 6)%nat -> Forall int8 r -> forall n s, (s < 16)%nat ->
  0 <= nth s (fst (forward16 tb m_init (costs_of W r n))) 0 <= MAX_METRIC + 318 * Z.of_nat n.
Proof. intros HW Hr. induction n as [|n IH]; intros s Hs.
- cbn [costs_of seq map forward fst]. pose proof (m_init_bounds s Hs). lia.
- rewrite costs_of_S, forward_snoc. cbn [fst].
  pose proof (relax_bounds 16 pv16 inb16 (pick16 tb) pv16_lt
                (fst (forward16 tb m_init (costs_of W r n))) (step_cost W r n) 0 (MAX_METRIC + 318 * Z.of_nat n) 318 IH) as B.
  assert (C : forall s b, (s < 16)%nat -> 0 <= step_cost W r n s b <= 318).
  { intros s' b _. unfold step_cost. destruct (limit_spec W HW) as (_ & HL & _).
    apply bcost_bounds; [exact HL | apply int8_nth; exact Hr | apply int8_nth; exact Hr]. }
  specialize (B C s Hs). lia. Qed.

(** * maximum likelihood *)
Lemma round_div_nearest d L : 0 < L -> nearest d L (round_div d L).
Proof. intros HL. unfold nearest, round_div.
  pose proof (Z.div_mod (2 * d + L) (2 * L) ltac:(lia)) as E.
  pose proof (Z.mod_pos_bound (2 * d + L) (2 * L) ltac:(lia)) as B.
  set (k := (2 * d + L) / (2 * L)) in *. set (m := (2 * d + L) mod (2 * L)) in *.
  assert (2 * (d - k * L) = m - L) by lia. lia. Qed.

Lemma dp_result_ml tb W IN OUT r :
  (2 <= W <= 6)%nat -> Nat.even IN = true -> (IN / 2 <= 244)%nat ->
  length r = IN -> Forall int8 r ->
  let L := soft_limit W in
  exists w, length w = (IN / 2)%nat /\ fst (dp_result tb W IN OUT r) = map b2n (firstn OUT w) /\
    (forall w', length w' = (IN / 2)%nat -> dist L r (conv w) <= dist L r (conv w')) /\
    snd (dp_result tb W IN OUT r) = round_div (dist L r (conv w)) L /\
    0 <= dist L r (conv w) <= 318 * Z.of_nat (IN / 2).
Proof. intros HW Hev HIN Hlen Hr L.
  assert (HIN2 : IN = (2 * (IN / 2))%nat).
  { apply Nat.even_spec in Hev. destruct Hev as [k ->]. rewrite Nat.mul_comm, Nat.div_mul by lia. lia. }
  set (n := (IN / 2)%nat) in *.
  unfold dp_result. fold n. cbn [fst snd].
  set (cs := costs_of W r n). set (fw := forward16 tb m_init cs).
  destruct (scan_min_spec tb (fst fw)) as (S1 & S2 & S3).
  set (me := scan_min tb (fst fw)) in *.
  destruct (traceR16 (rev (snd fw)) (fst me) []) as [s0 bits] eqn:T. cbn [snd].
  assert (S3' : forall s, (s < 16)%nat -> nth (fst me) (fst fw) 0 <= nth s (fst fw) 0) by (intros s Hs; rewrite <- S2; apply S3; exact Hs).
  destruct (dp_optimal 16 nx16 pv16 inb16 (pick16 tb) nx16_lt pv16_lt nx16_pv16 pv16_nx16 (pick16_ok tb)
              cs m_init (fst me) (fst fw) (snd fw) s0 bits (surjective_pairing _) S1 S3' T)
    as (D1 & D2 & D3 & D4 & D5).
  assert (Lcs : length cs = n) by apply costs_of_length. rewrite Lcs in D2.
  pose proof (costs_of_bounds W r n HW Hr) as CB. fold cs in CB.
  assert (Z0 : s0 = 0%nat).
  { destruct (Nat.eq_dec s0 0) as [|NZ]; [assumption|exfalso].
    specialize (D5 0%nat (repeat false n) ltac:(lia) ltac:(rewrite repeat_length; lia)).
    rewrite m_init_0 in D5. rewrite m_init_other in D5 by assumption.
    pose proof (pcost_bounds 16 nx16 nx16_lt cs (repeat false n) 0%nat 318 ltac:(lia) CB ltac:(lia)) as P1.
    pose proof (pcost_bounds 16 nx16 nx16_lt cs bits s0 318 D1 CB ltac:(lia)) as P2.
    rewrite Lcs in P1, P2. rewrite MAX_METRIC_val in D5. lia. }
  subst s0. rewrite m_init_0 in D4, D5.
  assert (Pd : forall w', length w' = n -> pcost16 0%nat w' cs = dist L r (conv w')).
  { intros w' Hw'. subst cs. rewrite <- Hw'. apply pcost_conv. rewrite Hw'. lia. }
  exists bits. split; [exact D2|]. split; [reflexivity|]. split; [|split].
  - intros w' Hw'. rewrite <- (Pd bits D2), <- (Pd w' Hw'). specialize (D5 0%nat w' ltac:(lia) ltac:(lia)).
    rewrite m_init_0 in D5. lia.
  - rewrite S2, D4, (Pd bits D2). destruct (limit_spec W HW) as (-> & _). reflexivity.
  - rewrite <- (Pd bits D2).
    pose proof (pcost_bounds 16 nx16 nx16_lt cs bits 0%nat 318 ltac:(lia) CB ltac:(lia)) as P2. rewrite Lcs in P2. lia.
Qed.

(** the theorem for every tie-break rule *)
Theorem viterbi_ml_gen tb (W IN OUT : nat) (sc : scratch) (out0 : list N) (r : list Z) (out : list N) (cost : Z) :
  (2 <= W <= 6)%nat -> Nat.even IN = true -> (IN / 2 <= 244)%nat -> (OUT <= IN / 2)%nat ->
  wf_scratch sc -> length out0 = OUT -> length r = IN -> Forall int8 r ->
  fst (decode_gen tb W IN OUT sc out0 r) = (out, cost) ->
  let L := soft_limit W in
  (exists w, length w = (IN / 2)%nat /\ map b2n (firstn OUT w) = out /\
     (forall w', length w' = (IN / 2)%nat -> dist L r (conv w) <= dist L r (conv w')) /\
     cost = (2 * dist L r (conv w) + L) / (2 * L) /\ nearest (dist L r (conv w)) L cost) /\
  (forall sc' out0', wf_scratch sc' -> length out0' = OUT -> fst (decode_gen tb W IN OUT sc' out0' r) = (out, cost)).
Proof. intros HW Hev HIN HOUT Hsc Hout0 Hlen Hr Hd L.
  destruct (decode_is_dp tb W IN OUT sc out0 r HW ltac:(rewrite history_size_val; exact HIN) HOUT Hsc Hout0) as [E _].
  rewrite Hd in E.
  destruct (dp_result_ml tb W IN OUT r HW Hev HIN Hlen Hr) as (w & W1 & W2 & W3 & W4 & W5). cbv zeta in W3, W4, W5.
  rewrite <- E in W2, W4. cbn [fst snd] in W2, W4.
  split.
  - exists w. split; [exact W1|]. split; [symmetry; exact W2|]. split; [exact W3|]. split; [exact W4|].
    rewrite W4. apply round_div_nearest. destruct (limit_spec W HW) as (_ & HL & _). fold L in HL. lia.
  - intros sc' out0' Hsc' Hout0'.
    destruct (decode_is_dp tb W IN OUT sc' out0' r HW ltac:(rewrite history_size_val; exact HIN) HOUT Hsc' Hout0') as [E' _].
    rewrite E'. symmetry. exact E.
Qed.

(** the exported function: what decode returns from any object state *)
Lemma decode_is_viterbi_decode W IN OUT sc out0 r :
  (2 <= W <= 6)%nat -> (IN / 2 <= 244)%nat -> (OUT <= IN / 2)%nat -> wf_scratch sc -> length out0 = OUT ->
  fst (decode W IN OUT sc out0 r) = viterbi_decode W IN OUT r /\ wf_scratch (snd (decode W IN OUT sc out0 r)).
Proof. intros HW HIN HOUT Hsc Hout0. unfold viterbi_decode, decode.
  destruct (decode_is_dp source_tiebreak W IN OUT sc out0 r HW ltac:(rewrite history_size_val; exact HIN) HOUT Hsc Hout0) as [E F].
  assert (W0 : wf_scratch scratch0) by (repeat split).
  destruct (decode_is_dp source_tiebreak W IN OUT scratch0 (repeat 0%N OUT) r HW ltac:(rewrite history_size_val; exact HIN) HOUT W0
              (repeat_length _ _)) as [E' _].
  split; [rewrite E, E'; reflexivity | exact F]. Qed.

(** * no_wrap: every int16 / int32 intermediate of the forward pass stays in range *)
Lemma cost_table_range W j o : (2 <= W <= 6)%nat -> (j < 8)%nat -> (o < 2)%nat ->
  -31 <= nth o (nth j (makeCost W) []) 0 <= 31.
Proof. intros HW Hj Ho. destruct (cost_spec W j HW Hj) as [T0 T1]. destruct (limit_spec W HW) as (_ & HL & _).
  destruct o as [|[|o]]; [rewrite T0 | rewrite T1 | lia]; unfold sgn;
  [destruct (out1 j false) | destruct (out2 j false)]; lia. Qed.

Lemma no_wrap_lemma tb W sc r n t j :
  (2 <= W <= 6)%nat -> wf_scratch sc -> (n <= 244)%nat -> Forall int8 r -> (t < n)%nat -> (j < 8)%nat ->
  let st := vit_forward tb W sc r t in
  let s0 := nth (2 * t) r 0 in
  let s1 := nth (2 * t + 1) r 0 in
  let cost0 := map (branch_cost0 (makeCost W) s0 s1) (seq 0 HalfStates) in
  let cost1 := map (branch_cost1 (makeCost W) s0 s1) (seq 0 HalfStates) in
  (* int16: the table entries, every |cost_[j][o] -/+ s| and the accumulated branch costs *)
  (forall o, (o < 2)%nat -> -31 <= nth o (nth j (makeCost W) []) 0 <= 31) /\
  (forall o s, (o < 2)%nat -> int8 s ->
      0 <= Z.abs (nth o (nth j (makeCost W) []) 0 - s) <= 159 /\ 0 <= Z.abs (nth o (nth j (makeCost W) []) 0 + s) <= 159) /\
  0 <= nth j cost0 0 <= 318 /\ 0 <= nth j cost1 0 <= 318 /\
  (* int32: the survivor metrics and the four sums of the butterfly *)
  (forall s, (s < 16)%nat -> 0 <= nth s (sc_prev st) 0 <= MAX_METRIC + 318 * Z.of_nat t) /\
  0 <= bf_m0 (sc_prev st) cost0 cost1 j <= 1073741823 + 77592 /\
  0 <= bf_m1 (sc_prev st) cost0 cost1 j <= 1073741823 + 77592 /\
  0 <= bf_m2 (sc_prev st) cost0 cost1 j <= 1073741823 + 77592 /\
  0 <= bf_m3 (sc_prev st) cost0 cost1 j <= 1073741823 + 77592.
Proof. intros HW Hsc Hn Hr Ht Hj st s0 s1 cost0 cost1.
  destruct Hsc as (W1 & W2 & W3). change NumStates with 16%nat in W2, W3.
  assert (T : forall o, (o < 2)%nat -> -31 <= nth o (nth j (makeCost W) []) 0 <= 31)
    by (intros o Ho; apply cost_table_range; assumption).
  assert (I0 : int8 s0) by (apply int8_nth; exact Hr). assert (I1 : int8 s1) by (apply int8_nth; exact Hr).
  destruct (limit_spec W HW) as (_ & HL & _).
  destruct (branch_costs_spec W s0 s1 j HW Hj) as (B0 & B1 & _ & _). cbv zeta in B0, B1.
  assert (C0 : nth j cost0 0 = bcost (soft_limit W) s0 s1 j false).
  { subst cost0. change HalfStates with 8%nat.
    rewrite nth_indep with (d' := branch_cost0 (makeCost W) s0 s1 0) by (rewrite map_length, seq_length; lia).
    rewrite map_nth, seq_nth by lia. exact B0. }
  assert (C1 : nth j cost1 0 = bcost (soft_limit W) s0 s1 j true).
  { subst cost1. change HalfStates with 8%nat.
    rewrite nth_indep with (d' := branch_cost1 (makeCost W) s0 s1 0) by (rewrite map_length, seq_length; lia).
    rewrite map_nth, seq_nth by lia. exact B1. }
  pose proof (bcost_bounds (soft_limit W) s0 s1 j false HL I0 I1) as Bd0.
  pose proof (bcost_bounds (soft_limit W) s0 s1 j true HL I0 I1) as Bd1.
  assert (M : forall s, (s < 16)%nat -> 0 <= nth s (sc_prev st) 0 <= MAX_METRIC + 318 * Z.of_nat t).
  { intros s Hs. subst st. rewrite history_size_val in W1.
    destruct (forward_model tb W sc r HW W3 t ltac:(lia)) as (F1 & _). cbv zeta in F1. rewrite F1.
    apply forward_bounds; assumption. }
  split; [exact T|]. split.
  { intros o s Ho Hs. specialize (T o Ho). unfold int8 in Hs. lia. }
  rewrite C0, C1. split; [exact Bd0|]. split; [exact Bd1|]. split; [exact M|].
  unfold bf_m0, bf_m1, bf_m2, bf_m3. change (NumStates / 2)%nat with 8%nat. rewrite C0, C1.
  pose proof (M j ltac:(lia)) as Mj. pose proof (M (j + 8)%nat ltac:(lia)) as Mj8.
  rewrite MAX_METRIC_val in Mj, Mj8. repeat split; lia.
Qed.

(** * the float rounding of the cost: margins that make [round_div] the value of std::round(min_cost / float(L))
    (i) the exact quotient m/L is never within 1/(2L) of a half-integer k + 1/2 (L is odd), and
    (ii) m < 2^23, so int32 -> float is exact and one correctly rounded float division moves the quotient by at most
         (m/L) 2^-24 < 1/(2L).  (The IEEE operations themselves are not modelled; see docs/notes/C02.md.) *)
Lemma cost_rounding_margin m L k : 0 <= m <= 77592 -> 1 <= L <= 31 -> Z.odd L = true ->
  1 <= Z.abs (2 * m - (2 * k + 1) * L) /\ 2 * m < 2 ^ 24.
Proof. intros Hm HL Ho. split; [|lia].
  rewrite Z.odd_spec in Ho. destruct Ho as [q ->].
  replace ((2 * k + 1) * (2 * q + 1)) with (2 * (2 * k * q + k + q) + 1) by ring.
  set (p := 2 * k * q + k + q). lia. Qed.
