(** C19 — DSP primitives equal their definitions; the RRC filter pair is ISI-free.
    Only the property theorems (each closed by [exact]) and their Print Assumptions.
    Models: ImplDSP.v (mirror of FirFilter.h, IirFilter.h, SlidingDFT.h in EXACT arithmetic);
    definitions: SpecDSP.v; tables: gen/ConstsTaps.v, gen/ConstsDsp.v (regenerated from the repository).

    The primitives are proved over EVERY commutative ring [R] (hypothesis [is_ring]): in particular
    for Z, Q/Qc, and (outside Coq) the reals.  Floating-point rounding is NOT modelled here; that the C++
    float/double instantiations stay within a stated tolerance of these exact models is tested by the check. *)
From Coq Require Import Arith ZArith NArith QArith Qcanon List Bool Ring_theory InitialRing.
From M17 Require Import ImplDSP SpecDSP ConstsTaps ConstsDsp
  LemmasDSP_Sum LemmasDSP_Fir LemmasDSP_Iir LemmasDSP_Sdft LemmasDSP_Taps.
Import ListNotations.

Definition is_ring {R : Type} (r0 r1 : R) (radd rmul rsub : R -> R -> R) (ropp : R -> R) : Prop :=
  ring_theory r0 r1 radd rmul rsub ropp (@eq R).

(** * 1. FIR filter *)
(** for every tap set (N >= 1), every input sequence and every n:
      y_n = Σ_{i < N, i <= n} taps_i * x_{n-i}     from the zero state of a fresh filter *)
Theorem c19_fir_is_convolution :
  forall (R : Type) (r0 r1 : R) (radd rmul rsub : R -> R -> R) (ropp : R -> R), is_ring r0 r1 radd rmul rsub ropp ->
  forall (taps xs : list R) (n : nat), (0 < length taps)%nat -> (n < length xs)%nat ->
  nth n (run_fir R r0 radd rmul taps xs) r0 =
  rsum R r0 radd (fun i => if (i <=? n)%nat then rmul (nth i taps r0) (nth (n - i) xs r0) else r0) (length taps).
Proof. exact fir_is_convolution_lemma. Qed.
Print Assumptions c19_fir_is_convolution.

(** reset() restores the zero state: after ANY earlier input xs0, the outputs following reset() are those of
    a freshly constructed filter ... *)
Theorem c19_fir_reset :
  forall (R : Type) (r0 r1 : R) (radd rmul rsub : R -> R -> R) (ropp : R -> R), is_ring r0 r1 radd rmul rsub ropp ->
  forall (taps xs0 xs : list R), (0 < length taps)%nat ->
  snd (fir_run R r0 radd rmul taps
         (fir_reset R r0 (fst (fir_run R r0 radd rmul taps (fir_init R r0 (length taps)) xs0))) xs)
  = run_fir R r0 radd rmul taps xs.
Proof. exact fir_reset_lemma. Qed.
Print Assumptions c19_fir_reset.

(** ... and indeed from any state whatsoever (arbitrary history_ contents and pos_) *)
Theorem c19_fir_reset_any_state :
  forall (R : Type) (r0 : R) (radd rmul : R -> R -> R) (taps : list R) (st : fir_state R) (xs : list R),
  length (fir_history st) = length taps ->
  snd (fir_run R r0 radd rmul taps (fir_reset R r0 st) xs) = run_fir R r0 radd rmul taps xs.
Proof. exact fir_reset_any_lemma. Qed.
Print Assumptions c19_fir_reset_any_state.

Theorem c19_fir_linear :
  forall (R : Type) (r0 r1 : R) (radd rmul rsub : R -> R -> R) (ropp : R -> R), is_ring r0 r1 radd rmul rsub ropp ->
  forall (taps : list R) (a b : R) (xs ys : list R), (0 < length taps)%nat -> length xs = length ys ->
  run_fir R r0 radd rmul taps (seq_add R radd (seq_scale R rmul a xs) (seq_scale R rmul b ys)) =
  seq_add R radd (seq_scale R rmul a (run_fir R r0 radd rmul taps xs)) (seq_scale R rmul b (run_fir R r0 radd rmul taps ys)).
Proof. exact fir_linear_lemma. Qed.
Print Assumptions c19_fir_linear.

Theorem c19_fir_time_invariant :
  forall (R : Type) (r0 r1 : R) (radd rmul rsub : R -> R -> R) (ropp : R -> R), is_ring r0 r1 radd rmul rsub ropp ->
  forall (taps : list R) (d : nat) (xs : list R), (0 < length taps)%nat ->
  run_fir R r0 radd rmul taps (repeat r0 d ++ xs) = repeat r0 d ++ run_fir R r0 radd rmul taps xs.
Proof. exact fir_time_invariant_lemma. Qed.
Print Assumptions c19_fir_time_invariant.

(** two FIR filters in series: the response to a unit impulse is the discrete convolution of the tap sets
    (this is the "cascade" of c19_rrc_nyquist) *)
Theorem c19_fir_cascade_impulse_response :
  forall (R : Type) (r0 r1 : R) (radd rmul rsub : R -> R -> R) (ropp : R -> R), is_ring r0 r1 radd rmul rsub ropp ->
  forall (tx rx : list R), (0 < length tx)%nat -> (0 < length rx)%nat ->
  run_fir R r0 radd rmul rx (run_fir R r0 radd rmul tx (r1 :: repeat r0 (length tx + length rx - 1 - 1)))
  = convolve R r0 radd rmul tx rx.
Proof. exact cascade_impulse_lemma. Qed.
Print Assumptions c19_fir_cascade_impulse_response.

(** scaling the tap sets scales the cascade: normalised side-tap ratios do not depend on the denominators *)
Theorem c19_cascade_scale :
  forall (R : Type) (r0 r1 : R) (radd rmul rsub : R -> R -> R) (ropp : R -> R), is_ring r0 r1 radd rmul rsub ropp ->
  forall (s t : R) (a b : list R) (n : nat),
  conv_at R r0 radd rmul (seq_scale R rmul s a) (seq_scale R rmul t b) n = rmul (rmul s t) (conv_at R r0 radd rmul a b n).
Proof. exact conv_at_scale. Qed.
Print Assumptions c19_cascade_scale.

(** * 2. IIR filter (direct form II as written, shift loop included; b = numerator, a = denominator) *)
(** for every b, a of equal size N >= 1, every input and every n:
      y_n = Σ_{i<N, i<=n} b_i x_{n-i}  -  Σ_{1<=i<N, i<=n} a_i y_{n-i}
    (the code never reads a_0, so this form needs no hypothesis on it) *)
Theorem c19_iir_is_difference_equation :
  forall (R : Type) (r0 r1 : R) (radd rmul rsub : R -> R -> R) (ropp : R -> R), is_ring r0 r1 radd rmul rsub ropp ->
  forall (b a xs : list R) (n : nat), (0 < length b)%nat -> length a = length b -> (n < length xs)%nat ->
  let ys := run_iir R r0 radd rmul rsub b a xs in
  nth n ys r0 =
  rsub (rsum R r0 radd (fun i => if (i <=? n)%nat then rmul (nth i b r0) (nth (n - i) xs r0) else r0) (length b))
       (rsum R r0 radd (fun i => if ((1 <=? i)%nat && (i <=? n)%nat)%bool then rmul (nth i a r0) (nth (n - i) ys r0) else r0) (length a)).
Proof. exact iir_is_difference_equation_lemma. Qed.
Print Assumptions c19_iir_is_difference_equation.

(** with a_0 = 1 this is the standard difference equation  Σ_i a_i y_{n-i} = Σ_i b_i x_{n-i} *)
Theorem c19_iir_standard_form :
  forall (R : Type) (r0 r1 : R) (radd rmul rsub : R -> R -> R) (ropp : R -> R), is_ring r0 r1 radd rmul rsub ropp ->
  forall (b a xs : list R) (n : nat), (0 < length b)%nat -> length a = length b -> (n < length xs)%nat ->
  nth 0 a r0 = r1 ->
  conv_at R r0 radd rmul a (run_iir R r0 radd rmul rsub b a xs) n = conv_at R r0 radd rmul b xs n.
Proof. exact iir_standard_form_lemma. Qed.
Print Assumptions c19_iir_standard_form.

(** the coefficient arrays of the repository: three taps each and a_0 = 1 exactly (float and double) *)
Theorem c19_iir_consts_normalised :
  iir_normalised corr_b_double_exp corr_b_double_mant corr_a_double_exp corr_a_double_mant /\
  iir_normalised corr_b_float_exp corr_b_float_mant corr_a_float_exp corr_a_float_mant /\
  iir_normalised evm_b_exp evm_b_mant evm_a_exp evm_a_mant.
Proof. exact iir_consts. Qed.
Print Assumptions c19_iir_consts_normalised.

(** * 3. Sliding DFT (complex numbers = pairs over the ring) *)
(** the recurrence the class realises, for ANY coefficient w and damping rho, circular window hidden:
      y_n = (rho * y_{n-1} + x_n - x_{n-N}) * w,    y_{-1} = 0, x_k = 0 for k < 0 *)
Theorem c19_sdft_recurrence :
  forall (R : Type) (r0 r1 : R) (radd rmul rsub : R -> R -> R) (ropp : R -> R), is_ring r0 r1 radd rmul rsub ropp ->
  forall (N : nat) (w : cx R) (rho : R) (xs : list R) (n : nat), (0 < N)%nat -> (n < length xs)%nat ->
  let ys := run_sdft R r0 radd rmul rsub N w rho xs in
  nth n ys (cx0 R r0) =
  cx_mul R radd rmul rsub
    (cx_add R radd
       (match n with O => cx0 R r0 | S m => cx_mul R radd rmul rsub (nth m ys (cx0 R r0)) (cx_of_real R r0 rho) end)
       (cx_sub R rsub (cx_of_real R r0 (nth n xs r0)) (cx_of_real R r0 (if (N <=? n)%nat then nth (n - N) xs r0 else r0))))
    w.
Proof. exact sdft_recurrence_lemma. Qed.
Print Assumptions c19_sdft_recurrence.

(** with w^N = 1 and rho = 1, for n >= N-1 the returned value is EXACTLY the DFT bin of the last N samples
    taken with the twiddle w^(N-1) = w^(-1):    y_n = Σ_{j<N} x_{n-N+1+j} * (w^(N-1))^j *)
Theorem c19_sdft_is_dft :
  forall (R : Type) (r0 r1 : R) (radd rmul rsub : R -> R -> R) (ropp : R -> R), is_ring r0 r1 radd rmul rsub ropp ->
  forall (N : nat) (w : cx R) (xs : list R) (n : nat),
  (0 < N)%nat -> cx_pow R r0 r1 radd rmul rsub w N = cx1 R r0 r1 -> (N - 1 <= n)%nat -> (n < length xs)%nat ->
  nth n (run_sdft R r0 radd rmul rsub N w r1 xs) (cx0 R r0) =
  dft_bin R r0 r1 radd rmul rsub (cx_pow R r0 r1 radd rmul rsub w (N - 1)) (window R N xs n).
Proof. exact sdft_is_dft_lemma. Qed.
Print Assumptions c19_sdft_is_dft.

(** if moreover |w| = 1 (w * conj w = 1; automatic for a root of unity in the complex numbers) it is the
    complex conjugate of the textbook bin Σ_j v_j w^j, hence of EQUAL squared magnitude (std::norm) *)
Theorem c19_sdft_magnitude :
  forall (R : Type) (r0 r1 : R) (radd rmul rsub : R -> R -> R) (ropp : R -> R), is_ring r0 r1 radd rmul rsub ropp ->
  forall (N : nat) (w : cx R) (xs : list R) (n : nat),
  (0 < N)%nat -> cx_pow R r0 r1 radd rmul rsub w N = cx1 R r0 r1 ->
  cx_mul R radd rmul rsub w (cx_conj R r0 rsub w) = cx1 R r0 r1 ->
  (N - 1 <= n)%nat -> (n < length xs)%nat ->
  let y := nth n (run_sdft R r0 radd rmul rsub N w r1 xs) (cx0 R r0) in
  let X := dft_bin R r0 r1 radd rmul rsub w (window R N xs n) in
  y = cx_conj R r0 rsub X /\ cx_norm R radd rmul y = cx_norm R radd rmul X.
Proof.
  intros R r0 r1 radd rmul rsub ropp Rth N w xs n HN Hw Hu Hn Hl. split.
  - exact (sdft_is_conj_dft_lemma R r0 r1 radd rmul rsub ropp Rth N w xs n HN Hw Hu Hn Hl).
  - exact (sdft_norm_lemma R r0 r1 radd rmul rsub ropp Rth N w xs n HN Hw Hu Hn Hl).
Qed.
Print Assumptions c19_sdft_magnitude.

(** NSlidingDFT: bin i of every output equals the single-bin SlidingDFT with coefficient coeffs_i and rho = 1
    (so the three theorems above apply to each bin) *)
Theorem c19_nsdft_is_sdft :
  forall (R : Type) (r0 r1 : R) (radd rmul rsub : R -> R -> R) (ropp : R -> R), is_ring r0 r1 radd rmul rsub ropp ->
  forall (N : nat) (coeffs : list (cx R)) (i : nat) (xs : list R), (i < length coeffs)%nat ->
  map (fun r => nth i r (cx0 R r0)) (run_nsdft R r0 radd rmul rsub N coeffs xs) =
  run_sdft R r0 radd rmul rsub N (nth i coeffs (cx0 R r0)) r1 xs.
Proof. exact nsdft_bin_is_sdft_lemma. Qed.
Print Assumptions c19_nsdft_is_sdft.

(** side condition of c19_sdft_is_dft for the data-carrier-detect configuration regenerated from
    M17Demodulator.h / DataCarrierDetect.h: N = SampleRate/Accuracy divides exactly, and N*f ≡ 0 (mod SampleRate)
    for each configured frequency (so w = exp(-2 pi i f/SampleRate) is an N-th root of unity), f below Nyquist *)
Theorem c19_dcd_bins_integral :
  (dcd_N * dcd_accuracy = dcd_sample_rate /\ 0 < dcd_N /\ length dcd_freqs = dcd_bins /\
   Forall (fun f => (dcd_N * f) mod dcd_sample_rate = 0 /\ 2 * f < dcd_sample_rate) dcd_freqs)%N
  /\ (dcd_N = 120 /\ dcd_sample_rate = 48000 /\ dcd_freqs = [2400; 3600])%N.
Proof. exact (conj dcd_config dcd_numbers). Qed.
Print Assumptions c19_dcd_bins_integral.

(** * 4. The RRC tap tables (exact: tap_i = mant_i / 2^exp, the value the C++ literal denotes) *)
(** each table is symmetric about its peak ([symmetric_about p t]: t_i = t_{2p-i} for i <= 2p, t_i = 0 beyond
    (the 150-entry tables are 149 symmetric taps and a trailing 0), t_p the strict maximum), and for
    TX in {m17-mod 150 taps, M17Modulator 79 taps} x RX in {Taps<double>, Taps<float>} the cascade
    c = TX * RX has its maximum c_p > 0 at p = p_TX + p_RX, every symbol-spaced side tap (i ≡ p mod 10, i <> p)
    satisfies |c_i| < 0.5 % c_p and their absolute sum is < 2 % c_p *)
Theorem c19_rrc_nyquist :
  (symmetric_about 74 rx_double_mant /\ symmetric_about 74 rx_float_mant /\
   symmetric_about 74 tx_mod_mant /\ symmetric_about 39 tx_modulator_mant) /\
  samples_per_symbol = 10%nat /\
  nyquist_holds samples_per_symbol (74 + 74) (zconvolve tx_mod_mant rx_double_mant) /\
  nyquist_holds samples_per_symbol (74 + 74) (zconvolve tx_mod_mant rx_float_mant) /\
  nyquist_holds samples_per_symbol (39 + 74) (zconvolve tx_modulator_mant rx_double_mant) /\
  nyquist_holds samples_per_symbol (39 + 74) (zconvolve tx_modulator_mant rx_float_mant).
Proof.
  exact (conj (conj sym_rx_double (conj sym_rx_float (conj sym_tx_mod sym_tx_modulator)))
        (conj sps_is_10 (conj nyq_mod_double (conj nyq_mod_float (conj nyq_modulator_double nyq_modulator_float))))).
Qed.
Print Assumptions c19_rrc_nyquist.

(** the three 150-entry copies: m17-mod's table denotes exactly the same rationals as Taps<double>;
    every Taps<float> entry is within relative error 2^-24 of the Taps<double> entry (the literals are the
    same, rounded to binary32); the 79-entry M17Modulator table is exactly entries 35..113 of Taps<double> *)
Theorem c19_tables_consistent :
  same_table tx_mod_exp tx_mod_mant rx_double_exp rx_double_mant /\
  close_table 24 rx_float_exp rx_float_mant rx_double_exp rx_double_mant /\
  same_table tx_modulator_exp tx_modulator_mant rx_double_exp (firstn 79 (skipn (74 - 39) rx_double_mant)) /\
  (length rx_double_mant = 150 /\ length rx_float_mant = 150 /\ length tx_mod_mant = 150 /\ length tx_modulator_mant = 79)%nat.
Proof.
  exact (conj tx_mod_is_rx_double (conj rx_float_close_to_double (conj tx_modulator_is_centre
         (conj eq_refl (conj eq_refl (conj eq_refl eq_refl)))))).
Qed.
Print Assumptions c19_tables_consistent.

(** * Non-vacuity: the hypotheses are satisfiable and the statements compute *)
(* Z and Qc are commutative rings in the sense used above *)
Example c19_Z_is_ring : is_ring 0%Z 1%Z Z.add Z.mul Z.sub Z.opp.
Proof. exact Zth. Qed.
Example c19_Qc_is_ring : is_ring 0%Qc 1%Qc Qcplus Qcmult Qcminus Qcopp.
Proof. exact Qcrt. Qed.
(* a 3-tap FIR on 5 samples; reset in the middle *)
Example c19_fir_instance :
  run_fir Z 0%Z Z.add Z.mul [1; 2; 3]%Z [1; 0; 0; 5; -1]%Z = [1; 2; 3; 5; 9]%Z /\
  snd (fir_run Z 0%Z Z.add Z.mul [1; 2; 3]%Z
        (fir_reset Z 0%Z (fst (fir_run Z 0%Z Z.add Z.mul [1; 2; 3]%Z (fir_init Z 0%Z 3) [7; 7]%Z))) [1; 0]%Z) = [1; 2]%Z.
Proof. vm_compute. split; reflexivity. Qed.
(* y_n = x_n + y_{n-1} (b = {1,0}, a = {1,-1}): the running sum *)
Example c19_iir_instance : run_iir Z 0%Z Z.add Z.mul Z.sub [1; 0]%Z [1; -1]%Z [1; 2; 3; 4]%Z = [1; 3; 6; 10]%Z.
Proof. vm_compute. reflexivity. Qed.
(* w = -i is a 4th root of unity of modulus 1 over Z; the sliding DFT of 6 samples, N = 4 *)
Example c19_sdft_instance :
  let w := (0, -1)%Z in
  cx_pow Z 0%Z 1%Z Z.add Z.mul Z.sub w 4 = (1, 0)%Z /\ cx_mul Z Z.add Z.mul Z.sub w (cx_conj Z 0%Z Z.sub w) = (1, 0)%Z /\
  nth 5 (run_sdft Z 0%Z Z.add Z.mul Z.sub 4 w 1%Z [1; 2; 3; 4; 5; 6]%Z) (0, 0)%Z
    = cx_conj Z 0%Z Z.sub (dft_bin Z 0%Z 1%Z Z.add Z.mul Z.sub w [3; 4; 5; 6]%Z).
Proof. vm_compute. repeat split. Qed.
