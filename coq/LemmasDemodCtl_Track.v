(** C03: the control logic neither drops, duplicates nor shifts a frame in steady stream reception.
    Simulation between the control model and the framing monitor. *)
From Coq Require Import ZArith Bool List Lia ZifyBool.
From M17 Require Import ConstsDemod ImplDemodCtl SpecDemodCtl LemmasDemodCtl_Base.
Import ListNotations.
Local Open Scope Z_scope.
Ltac Zify.zify_post_hook ::= Z.div_mod_to_equations.

Record track_common (s : st) : Prop := {
  tc_init : init_left s = 0;
  tc_dcd : dcd_ s = true;
  tc_trig : dcd_trig s = true;
  tc_ncr : ncr s = false;
  tc_si : 0 <= sample_index s < 10;
  tc_cpos : 0 <= cpos s < 80;
  tc_miss : 0 <= missing s <= 1
}.

(** samples until the next sampling instant, as seen from the state between two samples *)
Definition w_of (s : st) : Z := (sample_index s - cpos s) mod 10.

Inductive track_inv (m : mon) (pf : bool) (s : st) : Prop :=
| TI_sync :
    ds s = STREAM_SYNC -> 0 <= sync_count s <= 86 -> fidx s = 0 ->
    m_t m = sync_count s -> m_n m = 0 ->
    (cpos s - 1 - sample_index s - sync_count s) mod 10 = 0 -> track_inv m pf s
| TI_wait :
    ds s = SYNC_WAIT -> 78 <= sync_count s <= 87 -> swt s = SW_STREAM -> fidx s = 0 ->
    m_t m = sync_count s -> m_n m = 0 ->
    (cpos s - 1 - sample_index s - sync_count s) mod 10 = 0 -> track_inv m pf s
| TI_first :
    ds s = FRAME -> swt s = SW_STREAM -> fidx s = 0 -> m_n m = 0 ->
    87 <= m_t m <= 89 -> w_of s = 89 - m_t m -> track_inv m pf s
| TI_pay :
    ds s = FRAME -> swt s = SW_STREAM -> fidx s = 2 * m_n m -> 0 < m_n m < 184 ->
    0 <= m_t m - m_last m <= 10 ->
    (m_t m - m_last m <= 4 -> w_of s = 9 - (m_t m - m_last m) /\ pf = false) ->
    (5 <= m_t m - m_last m -> 8 - (m_t m - m_last m) <= w_of s <= 10 - (m_t m - m_last m) /\ (w_of s = 5 -> pf = true)) ->
    track_inv m pf s.

Definition safe (s : st) : Prop :=
  ds s <> UNLOCKED /\ 0 <= missing s <= 1 /\ dcd_ s = true /\
  (ds s = STREAM_SYNC -> sync_count s = 0 -> boundary s = true).

Lemma far_iff si cp : 0 <= si < 10 -> (Z.abs (si - cp mod 10) =? 5) = ((si - cp) mod 10 =? 5).
Proof. intros. lia. Qed.

Lemma cpos_next cp : 0 <= cp < 80 -> (if cp + 1 =? 80 then 0 else cp + 1) mod 10 = (cp + 1) mod 10
                                   /\ 0 <= (if cp + 1 =? 80 then 0 else cp + 1) < 80.
Proof. intros. destruct (cp + 1 =? 80) eqn:E; lia. Qed.

(** dispatch in the three states of steady reception, on a state [s3] whose relevant fields are known *)

Lemma payload_symbols_eq : PAYLOAD_SYMBOLS = 184. Proof. reflexivity. Qed.
Lemma first_gap_eq : (SYNC_SYMBOLS + 1) * SAMPLES_PER_SYMBOL = 90. Proof. reflexivity. Qed.

Lemma mon_quiet m ev : quiet ev -> mon_step m ev = Some (mkmon (m_t m + 1) (m_n m) (m_last m)).
Proof. intros [A B]. unfold mon_step. rewrite A, B. reflexivity. Qed.

Lemma boundary_inv s : boundary s = true -> track_common s /\ track_inv mon0 false s.
Proof.
  unfold boundary. intro H. destruct (ds s) eqn:Eds; try (rewrite !andb_false_r in H; cbn in H; discriminate H).
  unfold_consts.
  repeat (apply andb_prop in H; destruct H as [H ?]).
  split.
  - constructor; try lia. destruct (dcd_ s); [reflexivity|discriminate]. destruct (dcd_trig s); [reflexivity|discriminate].
    destruct (ncr s); [discriminate|reflexivity].
  - apply TI_sync; cbn [mon0 m_t m_n]; try lia. exact Eds.
Qed.

(** every frame boundary reached along such a run is again a [boundary] state: the theorem re-applies period after period *)
Lemma track_inv_boundary m pf s : track_common s -> track_inv m pf s -> ds s = STREAM_SYNC -> sync_count s = 0 -> boundary s = true.
Proof.
  intros [Ci Cd Ct Cn Csi Ccp Cm] I Eds Hsc. unfold boundary. rewrite Ci, Cd, Ct, Cn, Eds, Hsc. unfold_consts.
  destruct I as [_ ? Hf ? ? Hc|E|E|E]; try congruence.
  rewrite Hf. rewrite Hsc in Hc. cbn [Z.eqb negb andb].
  repeat (apply andb_true_intro; split); lia.
Qed.

Theorem track_step : forall (m : mon) (pf : bool) (s : st) (o : obs),
  track_common s -> track_inv m pf s -> track_good pf s o = true ->
  exists m', mon_step m (snd (step s o)) = Some m' /\
             track_common (fst (step s o)) /\ track_inv m' (far_next s) (fst (step s o)) /\ safe (fst (step s o)).
Proof.
  intros m pf s o C I G.
  destruct C as [Ci Cd Ct Cn Csi Ccp Cm].
  rewrite (step_locked_eq s o Ci Cd).
  destruct (pre_dispatch_spec s o) as [P Pq].
  destruct (pre_dispatch s o) as [s3 e1]. cbn [fst snd] in P, Pq.
  destruct P as [P_init P_eot P_count P_ds P_swt P_dcd P_sc P_miss P_ssi P_cprev P_cpos P_fidx P_cost P_trig P_dec P_si P_ncr].
  rewrite Cn in P_si, P_ncr. rewrite andb_false_r in P_si.
  assert (P_ncr' : ncr s3 = false) by (rewrite P_ncr; destruct (cpos s mod CORR_SPS =? 0); reflexivity).
  clear P_ncr.
  assert (Glo : o_lvl_lo o = true) by (unfold track_good in G; apply andb_prop in G; tauto).
  destruct (cpos_next (cpos s) Ccp) as [Nmod Nrange].
  unfold CORR_BUFFER in P_cpos.
  (* the dispatch, by state class *)
  assert (D : exists m', mon_step m (e1 ++ snd (dispatch s3 o)) = Some m' /\
              let s4 := fst (dispatch s3 o) in
              init_left s4 = 0 /\ dcd_ s4 = true /\ dcd_trig s4 = true /\ ncr s4 = false /\
              0 <= sample_index s4 < 10 /\ cpos s4 = cpos s3 /\ 0 <= missing s4 <= 1 /\ ds s4 <> UNLOCKED /\
              forall s5, ds s5 = ds s4 -> swt s5 = swt s4 -> sample_index s5 = sample_index s4 -> sync_count s5 = sync_count s4 ->
                         fidx s5 = fidx s4 -> cpos s5 = cpos s4 -> track_inv m' (far_next s) s5).
  { unfold dispatch. rewrite P_ds.
    unfold track_good in G. rewrite Glo in G. cbn [andb] in G.
    destruct I as [Eds Hsc Hf Ht Hn Hc | Eds Hsc Hsw Hf Ht Hn Hc | Eds Hsw Hf Hn Ht Hw | Eds Hsw Hf Hn Hd Hlo Hhi];
      rewrite Eds in G |- *.
    - (* STREAM_SYNC *)
      unfold do_stream_sync, sync_missed. destruct_st s3. st_cbn. subst. unfold_consts.
      destruct (sync_count s + 1 <? 78) eqn:E1.
      + st_cbn. eexists. split; [rewrite app_nil_r; apply mon_quiet; exact Pq|].
        cbn zeta. st_cbn. repeat split; try lia; try congruence.
        intros s5 H1 H2 H3 H4 H5 H6. apply TI_sync; cbn [m_t m_n m_last]; try congruence; try lia.
        all: try (rewrite H3, H4, H6; lia).
      + apply andb_prop in G. destruct G as [Geot Gfc]. apply negb_true_iff in Geot. rewrite Geot.
        destruct (o_lsf_upd o <? 0) eqn:E2.
        * st_cbn. eexists. split; [apply mon_quiet; apply quiet_app; [exact Pq | split; reflexivity] | ].
          cbn zeta. st_cbn. repeat split; try lia; try congruence.
          intros s5 H1 H2 H3 H4 H5 H6. apply TI_wait; cbn [m_t m_n m_last]; try congruence; try lia.
          all: try (rewrite H3, H4, H6; lia).
        * destruct (86 <? sync_count s + 1) eqn:E3.
          -- cbn [orb] in Gfc. rewrite Gfc.
             destruct (missing s =? 0) eqn:E4; st_cbn;
             (eexists; split; [rewrite app_nil_r; apply mon_quiet; exact Pq|]);
             cbn zeta; st_cbn; (repeat split; try lia; try congruence);
             intros s5 H1 H2 H3 H4 H5 H6; apply TI_first; cbn [m_t m_n m_last]; try congruence; try lia;
             unfold w_of; rewrite H3, H6; lia.
          -- st_cbn. eexists. split; [rewrite app_nil_r; apply mon_quiet; exact Pq|].
             cbn zeta. st_cbn. repeat split; try lia; try congruence.
             intros s5 H1 H2 H3 H4 H5 H6. apply TI_sync; cbn [m_t m_n m_last]; try congruence; try lia.
             all: try (rewrite H3, H4, H6; lia).
    - (* SYNC_WAIT *)
      unfold do_sync_wait. destruct_st s3. st_cbn. subst. unfold_consts.
      destruct (sync_count s <? 86) eqn:E1; st_cbn;
        (eexists; split; [rewrite app_nil_r; apply mon_quiet; exact Pq|]);
        cbn zeta; st_cbn; (repeat split; try lia; try congruence);
        intros s5 H1 H2 H3 H4 H5 H6.
      + apply TI_wait; cbn [m_t m_n m_last]; try congruence; try lia. all: try (rewrite H3, H4, H6; lia).
      + apply TI_first; cbn [m_t m_n m_last]; try congruence; try lia. unfold w_of. rewrite H3, H6. lia.
    - (* FRAME, before the first payload symbol *)
      unfold do_frame, is_far_point, corr_index. destruct_st s3. st_cbn. subst. unfold_consts. unfold w_of in Hw.
      rewrite (far_iff _ _ Csi).
      apply andb_prop in G. destruct G as [Gfar Gdec].
      destruct ((sample_index s - cpos s) mod 10 =? 5) eqn:E1; [exfalso; lia|].
      destruct (cpos s mod 10 =? sample_index s) eqn:E2; cbn [negb]; st_cbn.
      + rewrite Hf. cbn [Z.add Z.eqb Pos.eqb Pos.add]. st_cbn.
        eexists. split.
        { unfold mon_step. rewrite has_sym_quiet_l, decodes_quiet_l by exact Pq. cbn [has_sym existsb orb decodes flat_map app].
          rewrite Hn, payload_symbols_eq, first_gap_eq. cbn [Z.eqb Z.add]. replace (m_t m + 1 =? 90) with true by lia. cbn [negb Pos.eqb]. reflexivity. }
        cbn zeta. st_cbn. repeat split; try lia; try congruence.
        intros s5 H1 H2 H3 H4 H5 H6. apply TI_pay; cbn [m_t m_n m_last]; try congruence; try lia.
        * unfold w_of. rewrite H3, H6. intros _. split; [lia|]. unfold far_next, next_index. rewrite Eds. unfold_consts. rewrite (far_iff _ _ Csi). lia.
      + eexists. split; [rewrite app_nil_r; apply mon_quiet; exact Pq|].
        cbn zeta. st_cbn. repeat split; try lia; try congruence.
        intros s5 H1 H2 H3 H4 H5 H6. apply TI_first; cbn [m_t m_n m_last]; try congruence; try lia.
        unfold w_of. rewrite H3, H6. lia.
    - (* FRAME, payload *)
      unfold do_frame, is_far_point, corr_index. destruct_st s3. st_cbn. subst. unfold_consts. unfold w_of in Hlo, Hhi.
      rewrite (far_iff _ _ Csi).
      apply andb_prop in G. destruct G as [Gfar Gdec].
      unfold far_next in Gfar |- *. rewrite Eds in Gfar |- *. unfold next_index in Gfar |- *. unfold_consts.
      rewrite (far_iff _ _ Csi) in Gfar |- *.
      destruct ((sample_index s - cpos s) mod 10 =? 5) eqn:E1.
      + (* far point: free-running clock update *)
        unfold clock_step_ok in Gfar. unfold_consts.
        apply andb_prop in Gfar. destruct Gfar as [Gr Gd]. apply andb_prop in Gr. destruct Gr as [Gr0 Gr1].
        st_cbn. unfold u8.
        eexists. split.
        { apply mon_quiet. apply quiet_app; [exact Pq|split; reflexivity]. }
        cbn zeta. st_cbn. replace (o_cr_free o mod 256) with (o_cr_free o) by lia.
        repeat split; try lia; try congruence.
        assert (W5 : (sample_index s - cpos s) mod 10 = 5) by lia.
        assert (DP : (m_t m - m_last m = 4 /\ pf = false) \/ (m_t m - m_last m = 5 /\ pf = true)).
        { destruct (Z_le_gt_dec (m_t m - m_last m) 4) as [L|L].
          - destruct (Hlo L) as [A B]. left. split; [lia|exact B].
          - assert (L' : 5 <= m_t m - m_last m) by lia. destruct (Hhi L') as [A B]. right. split; [lia|exact (B W5)]. }
        intros s5 H1 H2 H3 H4 H5 H6. apply TI_pay; cbn [m_t m_n m_last]; try congruence; try lia.
        all: unfold w_of; rewrite H3, H6; intro.
        all: try (exfalso; lia).
        split; [|intros; reflexivity].
        destruct DP as [[D4 Pf]|[D5 Pf]]; rewrite Pf in Gd; lia.
      + destruct (cpos s mod 10 =? sample_index s) eqn:E2; cbn [negb]; st_cbn.
        * (* a symbol *)
          destruct (fidx s + 2 =? 368) eqn:E3; st_cbn.
          -- (* the 184th: decode *)
             eexists. split.
             { unfold mon_step. rewrite has_sym_quiet_l, decodes_quiet_l by exact Pq. cbn [has_sym existsb orb decodes flat_map app].
               rewrite payload_symbols_eq. unfold_consts.
               replace (m_n m =? 0) with false by lia.
               replace ((10 - 1 <=? m_t m + 1 - m_last m) && (m_t m + 1 - m_last m <=? 10 + 1)) with true by lia.
               cbn [negb]. replace (m_n m + 1 =? 184) with true by lia. rewrite Hsw. reflexivity. }
             cbn zeta. st_cbn.
             assert (Hns : next_sync_state (o_dec_state o) = STREAM_SYNC) by (destruct (o_dec_state o); try discriminate Gdec; reflexivity).
             rewrite Hns.
             repeat split; try lia; try congruence.
             intros s5 H1 H2 H3 H4 H5 H6. apply TI_sync; cbn [mon0 m_t m_n m_last]; try congruence; try lia.
             all: try (rewrite H3, H4, H6; lia).
          -- eexists. split.
             { unfold mon_step. rewrite has_sym_quiet_l, decodes_quiet_l by exact Pq. cbn [has_sym existsb orb decodes flat_map app].
               rewrite payload_symbols_eq. unfold_consts.
               replace (m_n m =? 0) with false by lia.
               replace ((10 - 1 <=? m_t m + 1 - m_last m) && (m_t m + 1 - m_last m <=? 10 + 1)) with true by lia.
               cbn [negb]. replace (m_n m + 1 =? 184) with false by lia. reflexivity. }
             cbn zeta. st_cbn. repeat split; try lia; try congruence.
             intros s5 H1 H2 H3 H4 H5 H6. apply TI_pay; cbn [m_t m_n m_last]; try congruence; try lia.
             unfold w_of. rewrite H3, H6. intros _. split; [lia|reflexivity].
        * eexists. split; [rewrite app_nil_r; apply mon_quiet; exact Pq|].
          cbn zeta. st_cbn. repeat split; try lia; try congruence.
          intros s5 H1 H2 H3 H4 H5 H6. apply TI_pay; cbn [m_t m_n m_last]; try congruence; try lia.
          -- unfold w_of. rewrite H3, H6. intro. split; [lia|reflexivity].
          -- unfold w_of. rewrite H3, H6. intro. split; [lia|]. intro. exfalso. lia. }
  destruct D as [m' [Dm D]].
  destruct (dispatch s3 o) as [s4 e2]. cbn [fst snd] in Dm, D. cbn zeta in D.
  destruct D as [D_init [D_dcd [D_trig [D_ncr [D_si [D_cpos [D_miss [D_ds D_inv]]]]]]]].
  destruct (post_dispatch_locked s4 o D_dcd D_trig Glo) as [Q Qq].
  destruct (post_dispatch s4 o) as [s5 e3]. cbn [fst snd] in Q, Qq |- *.
  destruct Q as [Q_init Q_eot Q_ds Q_swt Q_si Q_dcd Q_trig Q_ncr Q_ncu Q_sc Q_miss Q_ssi Q_cpos Q_cprev Q_fidx Q_cost Q_dec Q_count].
  exists m'. split.
  { rewrite app_assoc. unfold mon_step in Dm |- *. rewrite has_sym_quiet_r, decodes_quiet_r by exact Qq. exact Dm. }
  assert (C1 : track_common s5).
  { constructor; try congruence; try lia. all: rewrite Q_cpos, D_cpos, P_cpos; lia. }
  assert (I1 : track_inv m' (far_next s) s5).
  { apply D_inv; assumption. }
  split; [exact C1|]. split; [exact I1|].
  unfold safe. rewrite Q_ds, Q_miss, Q_dcd. repeat split; try assumption; try lia.
  intros E1 E2. apply (track_inv_boundary m' (far_next s) s5 C1 I1); [rewrite Q_ds; exact E1|exact E2].
Qed.

Lemma track_inv_bounded m pf s : track_inv m pf s -> mon_bounded m.
Proof.
  unfold mon_bounded. rewrite payload_symbols_eq, first_gap_eq. unfold_consts.
  intros [? ? ? ? ? ?|? ? ? ? ? ? ?|? ? ? ? ? ?|? ? ? ? ? ? ?]; lia.
Qed.

Theorem tracking_from_inv : forall (os : list obs) (m : mon) (pf : bool) (s : st),
  track_common s -> track_inv m pf s -> track_good_run pf s os ->
  (exists m', mon_run m (events s os) = Some m' /\ mon_bounded m') /\ Forall safe (states s os).
Proof.
  induction os as [|o os IH]; intros m pf s C I G.
  - cbn [events run snd mon_run states]. split; [|constructor]. exists m. split; [reflexivity|]. eapply track_inv_bounded; eassumption.
  - cbn [track_good_run] in G. destruct G as [G1 G2].
    destruct (track_step m pf s o C I G1) as [m1 [Hm [C1 [I1 S1]]]].
    destruct (IH m1 (far_next s) (fst (step s o)) C1 I1 G2) as [[m2 [Hr Hb]] HF].
    rewrite events_cons. cbn [mon_run states]. rewrite Hm. split.
    + exists m2. split; assumption.
    + constructor; assumption.
Qed.

Theorem tracking_lemma : forall (s : st) (os : list obs),
  boundary s = true -> track_good_run false s os ->
  (exists m', mon_run mon0 (events s os) = Some m' /\ mon_bounded m') /\
  Forall (fun s' => ds s' <> UNLOCKED /\ 0 <= missing s' <= 1 /\ dcd_ s' = true /\
                    (ds s' = STREAM_SYNC -> sync_count s' = 0 -> boundary s' = true)) (states s os).
Proof.
  intros s os B G. destruct (boundary_inv s B) as [C I].
  exact (tracking_from_inv os mon0 false s C I G).
Qed.

(** the hypotheses as a boolean function, for the satisfiability examples *)
Fixpoint track_good_runb (pf : bool) (s : st) (os : list obs) : bool :=
  match os with
  | [] => true
  | o :: os' => track_good pf s o && track_good_runb (far_next s) (fst (step s o)) os'
  end.
Lemma track_good_runb_ok : forall os pf s, track_good_runb pf s os = true -> track_good_run pf s os.
Proof.
  induction os as [|o os IH]; intros pf s H; cbn [track_good_runb track_good_run] in *; [exact I|].
  apply andb_prop in H. destruct H as [H1 H2]. split; [exact H1|apply IH; exact H2].
Qed.

(** ** the EOT path *)

(** inside the search window an EOT marker sends the demodulator into one more frame with the flag set *)
Lemma eot_detect_lemma : forall (s : st) (o : obs),
  init_left s = 0 -> dcd_ s = true -> dcd_trig s = true -> o_lvl_lo o = true ->
  ds s = STREAM_SYNC -> MIN_SYNC_COUNT <= sync_count s + 1 -> o_eot_trig o = true ->
  let s' := fst (step s o) in
  ds s' = FRAME /\ eot_flag s' = true /\ swt s' = SW_STREAM /\ missing s' = 0 /\ dcd_ s' = true.
Proof.
  intros s o Ci Cd Ct Glo Eds Hsc He.
  rewrite (step_locked_eq s o Ci Cd).
  destruct (pre_dispatch_spec s o) as [P Pq].
  destruct (pre_dispatch s o) as [s3 e1]. cbn [fst snd] in P, Pq.
  destruct P as [P_init P_eot P_count P_ds P_swt P_dcd P_sc P_miss P_ssi P_cprev P_cpos P_fidx P_cost P_trig P_dec P_si P_ncr].
  assert (D : let s4 := fst (dispatch s3 o) in
              ds s4 = FRAME /\ eot_flag s4 = true /\ swt s4 = SW_STREAM /\ missing s4 = 0 /\ dcd_ s4 = true /\ dcd_trig s4 = true).
  { unfold dispatch. rewrite P_ds, Eds. unfold do_stream_sync. destruct_st s3. st_cbn. subst. unfold_consts.
    replace (sync_count s + 1 <? 78) with false by lia. rewrite He. st_cbn. repeat split; congruence. }
  destruct (dispatch s3 o) as [s4 e2]. cbn [fst] in D. cbn zeta in D. destruct D as [D1 [D2 [D3 [D4 [D5 D6]]]]].
  destruct (post_dispatch_locked s4 o D5 D6 Glo) as [Q Qq].
  destruct (post_dispatch s4 o) as [s5 e3]. cbn [fst snd] in Q |- *. cbn zeta.
  destruct Q. repeat split; congruence.
Qed.

(** with the flag set, a window that closes without sync word and with a Viterbi cost at or above the limit ends the
    stream: UNLOCKED and dcd.unlock() *)
Lemma eot_end_lemma : forall (s : st) (o : obs),
  init_left s = 0 -> dcd_ s = true ->
  ds s = STREAM_SYNC -> sync_count s = MAX_SYNC_COUNT -> eot_flag s = true ->
  o_eot_trig o = false -> 0 <= o_lsf_upd o -> STREAM_COST_LIMIT <= cost s ->
  ds (fst (step s o)) = UNLOCKED /\ In EvDcdUnlock (snd (step s o)) /\ eot_flag (fst (step s o)) = false.
Proof.
  intros s o Ci Cd Eds Hsc Hef He Hl Hc.
  rewrite (step_locked_eq s o Ci Cd).
  destruct (pre_dispatch_spec s o) as [P Pq].
  destruct (pre_dispatch s o) as [s3 e1]. cbn [fst snd] in P, Pq.
  destruct P as [P_init P_eot P_count P_ds P_swt P_dcd P_sc P_miss P_ssi P_cprev P_cpos P_fidx P_cost P_trig P_dec P_si P_ncr].
  assert (D : ds (fst (dispatch s3 o)) = UNLOCKED /\ In EvDcdUnlock (snd (dispatch s3 o)) /\ eot_flag (fst (dispatch s3 o)) = false /\
              dcd_trig (fst (dispatch s3 o)) = false).
  { unfold dispatch. rewrite P_ds, Eds. unfold do_stream_sync, sync_missed. destruct_st s3. st_cbn. subst. unfold_consts.
    rewrite Hsc, He, Hef. cbn [Z.add Z.ltb Z.compare Pos.compare Pos.compare_cont Pos.add Pos.succ].
    replace (o_lsf_upd o <? 0) with false by lia. replace (cost s <? 80) with false by lia.
    st_cbn. repeat split; try reflexivity. left. reflexivity. }
  destruct (dispatch s3 o) as [s4 e2]. cbn [fst snd] in D. destruct D as [D1 [D2 [D3 D4]]].
  unfold post_dispatch, update_dcd, dcd_poll, dcd_off.
  destruct (count s4 mod POLL_DCD =? 0).
  - rewrite D4. cbn [negb andb]. rewrite andb_false_r. destruct (dcd_ s4) eqn:E5; cbn [andb]; destruct_st s4; st_cbn; subst;
      (repeat split; try reflexivity; apply in_or_app; right; apply in_or_app; left; exact D2).
  - cbn [fst snd]. repeat split; try assumption. apply in_or_app; right; apply in_or_app; left; exact D2.
Qed.

(** facts about the regenerated constants *)
Lemma structural_constants_lemma :
  LLR_WIDTH = VITERBI_LLR_WIDTH /\ FRAMER_BITS = 368 /\ PAYLOAD_SYMBOLS = 184 /\ POLARITY = 1 /\
  FAR_POINT * 2 = SAMPLES_PER_SYMBOL /\ CORR_SPS = SAMPLES_PER_SYMBOL /\ CORR_BUFFER = SYNC_SYMBOLS * SAMPLES_PER_SYMBOL.
Proof. repeat split; reflexivity. Qed.
