(** ImplQueue — small-step interleaving model of mobilinkd::queue<T,SIZE> (include/m17cxx/queue.h).

    Shared state: items (queue_), size_, state_, the mutex owner, the wait sets of the two condition
    variables full_/empty_, a clock.  Each thread runs one operation at a time; each C++ statement that
    touches shared state or synchronises is one labelled step of the thread's program point.
    Condition variables: wait atomically releases the mutex and joins the wait set; a waiter leaves by
    notify, by timeout (deadline <= now) or spuriously; it then re-acquires the mutex.  Scheduler and clock
    are arbitrary.  Any number of threads, any operation sequences (an idle thread may invoke any operation),
    any capacity.  The facts audited from the source on every run (gen/ConstsQueue.v: which methods lock,
    whether the drain statement assigns, whether max() waits without deadline, whether close notifies all)
    are parameters of the step relation.  Ghost state: committed enqueues/dequeues and the history of
    invocations, linearization points and responses.  No proofs in this file. *)
From Coq Require Import ZArith List Bool Arith.
From M17 Require ConstsQueue.
Import ListNotations.
Local Open Scope Z_scope.

Definition tid := nat.
Definition val := nat.

Inductive qstate := OPEN | CLOSING | CLOSED.
Inductive cvar := CvFull | CvEmpty.
Inductive query := QIsOpen | QIsClosed | QSize | QEmpty.

(** operations; a timeout is (count, nanoseconds per tick) of the std::chrono::duration<int64_t,Period> passed *)
Inductive op :=
| OpPut (v : val) (count per : Z)
| OpGet (count per : Z)
| OpGetUntil (when : Z)
| OpClose
| OpQuery (q : query).

Inductive why := WFull0 | WNotOpen | WTimeout | WClosedEmpty.
Inductive resp :=
| ROk (v : option val)     (* put: ROk None = true; get: ROk (Some v) = true with value v *)
| RFail (w : why)          (* false, with the (ghost) reason *)
| RUnit                    (* close *)
| RQuery (n : nat).        (* is_open/is_closed/empty: 0/1; size: the number *)

(** int64 arithmetic of the deadline computation, wrap-around written out *)
Definition wrap64 (z : Z) : Z := (z + 2^63) mod 2^64 - 2^63.
Definition int64_max : Z := 2^63 - 1.
Definition to_ns (count per : Z) : Z := wrap64 (count * per).
Definition is_max (count : Z) : bool := count =? int64_max.

(** put: [expiration = system_clock::now(); if (!no_deadline) expiration += timeout;]  (None = wait(lock)) *)
Definition put_deadline (count per now : Z) : option Z :=
  if ConstsQueue.put_no_deadline && is_max count then None else Some (wrap64 (now + to_ns count per)).
(** get: [timeout == max() ? wait(lock) : wait_for(lock, timeout)], wait_for = wait_until(now + timeout);
    get_until: wait_until(lock, when) *)
Definition get_deadline (o : op) (now : Z) : option Z :=
  match o with
  | OpGet count per => if ConstsQueue.get_no_deadline && is_max count then None else Some (wrap64 (now + to_ns count per))
  | OpGetUntil when => Some when
  | _ => None
  end.

Definition locks_query (q : query) : bool :=
  match q with
  | QIsOpen => ConstsQueue.lock_is_open | QIsClosed => ConstsQueue.lock_is_closed
  | QSize => ConstsQueue.lock_size | QEmpty => ConstsQueue.lock_empty
  end.
Definition locks (o : op) : bool :=
  match o with
  | OpPut _ _ _ => ConstsQueue.lock_put | OpGet _ _ => ConstsQueue.lock_get
  | OpGetUntil _ => ConstsQueue.lock_get_until | OpClose => ConstsQueue.lock_close
  | OpQuery q => locks_query q
  end.
Definition drain_assigns (o : op) : bool :=
  match o with OpGetUntil _ => ConstsQueue.drain_assigns_get_until | _ => ConstsQueue.drain_assigns_get end.

(** program points (with the thread-local data live at that point: the deadline, the value popped) *)
Inductive point :=
| XLock                                   (* before  lock_type lock(mutex_) *)
| PTestFull | PTestZero | PCompExp
| PLoopFull (dl : option Z) | PLoopState (dl : option Z) | PWait (dl : option Z)
| PWaiting (dl : option Z) | PWoken (dl : option Z)
| PTestState | PPush | PSizeInc | PNotify
| GTestEmpty | GTestClosed | GWait | GWaiting (dl : option Z) | GWoken (dl : option Z)
| GPop | GSizeDec (v : val) | GDrainTest (v : val) | GDrainWrite (v : val) | GNotify (v : val)
| CWrite | CNotifyFull | CNotifyEmpty
| QRead
| XRet (r : resp).                        (* at the return statement; the lock is released by the return step *)

Inductive hevent :=
| HInv (t : tid) (o : op)
| HLin (t : tid) (o : op) (r : resp)      (* linearization point (commit) *)
| HRes (t : tid) (o : op) (r : resp).

Record config := mk {
  items : list val; size_ : nat; st : qstate;
  mutex : option tid;
  wfull : list tid; wempty : list tid;
  now : Z;
  pcs : tid -> option (op * point);
  enq : list (tid * val); deq : list val;   (* ghost: committed enqueues (with producer) / dequeues, oldest first *)
  hist : list hevent                         (* ghost: newest first *)
}.

Definition init (n0 : Z) : config := mk [] 0 OPEN None [] [] n0 (fun _ => None) [] [] [].

Definition upd {A} (f : tid -> A) (t : tid) (x : A) : tid -> A := fun u => if Nat.eqb u t then x else f u.

Definition set_items c x := mk x (size_ c) (st c) (mutex c) (wfull c) (wempty c) (now c) (pcs c) (enq c) (deq c) (hist c).
Definition set_size c x := mk (items c) x (st c) (mutex c) (wfull c) (wempty c) (now c) (pcs c) (enq c) (deq c) (hist c).
Definition set_state c x := mk (items c) (size_ c) x (mutex c) (wfull c) (wempty c) (now c) (pcs c) (enq c) (deq c) (hist c).
Definition set_mutex c x := mk (items c) (size_ c) (st c) x (wfull c) (wempty c) (now c) (pcs c) (enq c) (deq c) (hist c).
Definition set_wfull c x := mk (items c) (size_ c) (st c) (mutex c) x (wempty c) (now c) (pcs c) (enq c) (deq c) (hist c).
Definition set_wempty c x := mk (items c) (size_ c) (st c) (mutex c) (wfull c) x (now c) (pcs c) (enq c) (deq c) (hist c).
Definition set_now c x := mk (items c) (size_ c) (st c) (mutex c) (wfull c) (wempty c) x (pcs c) (enq c) (deq c) (hist c).
Definition set_pcs c x := mk (items c) (size_ c) (st c) (mutex c) (wfull c) (wempty c) (now c) x (enq c) (deq c) (hist c).
Definition set_enq c x := mk (items c) (size_ c) (st c) (mutex c) (wfull c) (wempty c) (now c) (pcs c) x (deq c) (hist c).
Definition set_deq c x := mk (items c) (size_ c) (st c) (mutex c) (wfull c) (wempty c) (now c) (pcs c) (enq c) x (hist c).
Definition hpush c e := mk (items c) (size_ c) (st c) (mutex c) (wfull c) (wempty c) (now c) (pcs c) (enq c) (deq c) (e :: hist c).

Definition go c (t : tid) (o : op) (p : point) := set_pcs c (upd (pcs c) t (Some (o, p))).
Definition fail c t o w := hpush (go c t o (XRet (RFail w))) (HLin t o (RFail w)).
Definition holds c (t : tid) : bool := match mutex c with Some u => Nat.eqb u t | None => false end.
Definition release c t := if holds c t then set_mutex c None else c.
Definition wset c cv := match cv with CvFull => wfull c | CvEmpty => wempty c end.
Definition set_wset c cv x := match cv with CvFull => set_wfull c x | CvEmpty => set_wempty c x end.
Definition rm (t : tid) (l : list tid) : list tid := filter (fun u => negb (Nat.eqb u t)) l.
Definition rm_opt (u : option tid) l := match u with Some x => rm x l | None => l end.
Definition mem (t : tid) (l : list tid) : bool := existsb (Nat.eqb t) l.
Definition reached (dl : option Z) (now : Z) : bool := match dl with Some d => d <=? now | None => false end.
Definition is_nil {A} (l : list A) : bool := match l with [] => true | _ => false end.
Definition st_eqb a b := match a, b with OPEN, OPEN | CLOSING, CLOSING | CLOSED, CLOSED => true | _, _ => false end.
Definition b2n (b : bool) : nat := if b then 1%nat else 0%nat.
Definition qval (q : query) c : nat :=
  match q with
  | QIsOpen => b2n (st_eqb (st c) OPEN) | QIsClosed => b2n (st_eqb (st c) CLOSED)
  | QSize => size_ c | QEmpty => b2n (Nat.eqb (size_ c) 0)
  end.
Definition first (o : op) : point :=
  match o with OpPut _ _ _ => PTestFull | OpGet _ _ | OpGetUntil _ => GTestEmpty | OpClose => CWrite | OpQuery _ => QRead end.
Definition is_get (o : op) : bool := match o with OpGet _ _ | OpGetUntil _ => true | _ => false end.
Definition is_put (o : op) : bool := match o with OpPut _ _ _ => true | _ => false end.
Definition close_state c := if is_nil (items c) then CLOSED else CLOSING.
(** what the value the C++ caller sees is *)
Definition resp_code (r : resp) : nat :=
  match r with ROk _ => 1 | RFail _ => 0 | RUnit => 0 | RQuery n => n end%nat.

(** labels: one per statement kind; every access to queue_/size_/state_ carries [held] = does the thread hold the mutex *)
Inductive acc := RdSize | RdItems | RdState | RdStateItems.
Inductive reason := Notified | Spurious | TimedOut.
Inductive label :=
| LInvoke (o : op)
| LLock | LNoLock
| LRead (a : acc) (held : bool)
| LLocal
| LWaitEnter (cv : cvar) (dl : option Z)
| LWake (cv : cvar) (r : reason)
| LWaitExit (cv : cvar) (timedout : bool)
| LPush (v : val) (held : bool) | LPop (v : val) (held : bool)
| LSizeInc (held : bool) | LSizeDec (held : bool)
| LStateWrite (s : qstate) (held : bool)
| LStateCompare (held : bool)              (* the drain statement when it is [state_ == CLOSED;] *)
| LNotifyOne (cv : cvar) (u : option tid) | LNotifyAll (cv : cvar) | LNotifyOneOnly (cv : cvar) (u : option tid)
| LReturn (r : resp)
| LTick (d : Z).

Definition accesses_shared (l : label) : Prop :=
  match l with
  | LRead _ _ | LPush _ _ | LPop _ _ | LSizeInc _ | LSizeDec _ | LStateWrite _ _ | LStateCompare _ => True
  | _ => False
  end.
Definition held_flag (l : label) : option bool :=
  match l with
  | LRead _ h | LPush _ h | LPop _ h | LSizeInc h | LSizeDec h | LStateWrite _ h | LStateCompare h => Some h
  | _ => None
  end.

Definition wake_ok (r : reason) (t : tid) (ws : list tid) (dl : option Z) (now : Z) : Prop :=
  match r with Notified => mem t ws = false | Spurious => True | TimedOut => reached dl now = true end.
Definition notify_ok (u : option tid) (ws : list tid) : Prop :=
  match u with Some x => mem x ws = true | None => ws = [] end.

Section Step.
Variable cap : nat.     (* the template argument SIZE *)

Definition at_ c (t : tid) (o : op) (p : point) : Prop := pcs c t = Some (o, p).

Inductive step (c : config) (t : tid) : label -> config -> Prop :=
| S_tick d : 0 <= d -> step c t (LTick d) (set_now c (now c + d))
| S_invoke o : pcs c t = None -> step c t (LInvoke o) (hpush (go c t o XLock) (HInv t o))
| S_lock o : at_ c t o XLock -> locks o = true -> mutex c = None ->
    step c t LLock (go (set_mutex c (Some t)) t o (first o))
| S_nolock o : at_ c t o XLock -> locks o = false -> step c t LNoLock (go c t o (first o))
| S_ret o r : at_ c t o (XRet r) ->
    step c t (LReturn r) (hpush (set_pcs (release c t) (upd (pcs c) t None)) (HRes t o r))
(* ---- put ---- *)
| S_p_test_full o : at_ c t o PTestFull -> is_put o = true ->
    step c t (LRead RdSize (holds c t)) (go c t o (if Nat.eqb cap (size_ c) then PTestZero else PTestState))
| S_p_test_zero v n per : at_ c t (OpPut v n per) PTestZero ->
    step c t LLocal (if n =? 0 then fail c t (OpPut v n per) WFull0 else go c t (OpPut v n per) PCompExp)
| S_p_comp_exp v n per : at_ c t (OpPut v n per) PCompExp ->
    step c t LLocal (go c t (OpPut v n per) (PLoopFull (put_deadline n per (now c))))
| S_p_loop_full o dl : at_ c t o (PLoopFull dl) ->
    step c t (LRead RdSize (holds c t)) (go c t o (if Nat.eqb cap (size_ c) then PLoopState dl else PTestState))
| S_p_loop_state o dl : at_ c t o (PLoopState dl) ->
    step c t (LRead RdState (holds c t)) (if st_eqb (st c) OPEN then go c t o (PWait dl) else fail c t o WNotOpen)
| S_p_wait o dl : at_ c t o (PWait dl) ->
    step c t (LWaitEnter CvFull dl) (go (set_wfull (release c t) (t :: wfull c)) t o (PWaiting dl))
| S_p_wake o dl r : at_ c t o (PWaiting dl) -> wake_ok r t (wfull c) dl (now c) ->
    step c t (LWake CvFull r) (go (set_wfull c (rm t (wfull c))) t o (PWoken dl))
| S_p_exit o dl (timedout : bool) : at_ c t o (PWoken dl) -> mutex c = None ->
    (timedout = true -> reached dl (now c) = true) ->
    step c t (LWaitExit CvFull timedout)
         (if timedout then fail (set_mutex c (Some t)) t o WTimeout else go (set_mutex c (Some t)) t o (PLoopFull dl))
| S_p_test_state o : at_ c t o PTestState ->
    step c t (LRead RdState (holds c t)) (if st_eqb (st c) OPEN then go c t o PPush else fail c t o WNotOpen)
| S_p_push v n per : at_ c t (OpPut v n per) PPush ->
    step c t (LPush v (holds c t))
         (hpush (set_enq (set_items (go c t (OpPut v n per) PSizeInc) (items c ++ [v])) (enq c ++ [(t, v)]))
                (HLin t (OpPut v n per) (ROk None)))
| S_p_size_inc o : at_ c t o PSizeInc ->
    step c t (LSizeInc (holds c t)) (set_size (go c t o PNotify) (S (size_ c)))
| S_p_notify o u : at_ c t o PNotify -> notify_ok u (wempty c) ->
    step c t (LNotifyOne CvEmpty u) (go (set_wempty c (rm_opt u (wempty c))) t o (XRet (ROk None)))
(* ---- get / get_until ---- *)
| S_g_test_empty o : at_ c t o GTestEmpty -> is_get o = true ->
    step c t (LRead RdItems (holds c t)) (go c t o (if is_nil (items c) then GTestClosed else GPop))
| S_g_test_closed o : at_ c t o GTestClosed ->
    step c t (LRead RdState (holds c t)) (if st_eqb (st c) CLOSED then fail c t o WClosedEmpty else go c t o GWait)
| S_g_wait o : at_ c t o GWait ->
    step c t (LWaitEnter CvEmpty (get_deadline o (now c)))
         (go (set_wempty (release c t) (t :: wempty c)) t o (GWaiting (get_deadline o (now c))))
| S_g_wake o dl r : at_ c t o (GWaiting dl) -> wake_ok r t (wempty c) dl (now c) ->
    step c t (LWake CvEmpty r) (go (set_wempty c (rm t (wempty c))) t o (GWoken dl))
| S_g_exit o dl (timedout : bool) : at_ c t o (GWoken dl) -> mutex c = None ->
    (timedout = true -> reached dl (now c) = true) ->
    step c t (LWaitExit CvEmpty timedout)
         (if timedout then fail (set_mutex c (Some t)) t o WTimeout else go (set_mutex c (Some t)) t o GTestEmpty)
| S_g_pop o v rest : at_ c t o GPop -> items c = v :: rest ->
    step c t (LPop v (holds c t))
         (hpush (set_deq (set_items (go c t o (GSizeDec v)) rest) (deq c ++ [v])) (HLin t o (ROk (Some v))))
| S_g_size_dec o v : at_ c t o (GSizeDec v) ->
    step c t (LSizeDec (holds c t)) (set_size (go c t o (GDrainTest v)) (pred (size_ c)))
| S_g_drain_test o v : at_ c t o (GDrainTest v) ->
    step c t (LRead RdStateItems (holds c t))
         (go c t o (if st_eqb (st c) CLOSING && is_nil (items c) then GDrainWrite v else GNotify v))
| S_g_drain_write o v : at_ c t o (GDrainWrite v) ->
    step c t (if drain_assigns o then LStateWrite CLOSED (holds c t) else LStateCompare (holds c t))
         (go (if drain_assigns o then set_state c CLOSED else c) t o (GNotify v))
| S_g_notify o v u : at_ c t o (GNotify v) -> notify_ok u (wfull c) ->
    step c t (LNotifyOne CvFull u) (go (set_wfull c (rm_opt u (wfull c))) t o (XRet (ROk (Some v))))
(* ---- close ---- *)
| S_c_write : at_ c t OpClose CWrite ->
    step c t (LStateWrite (close_state c) (holds c t))
         (hpush (set_state (go c t OpClose CNotifyFull) (close_state c)) (HLin t OpClose RUnit))
| S_c_notify_full u : at_ c t OpClose CNotifyFull -> notify_ok u (wfull c) ->
    step c t (if ConstsQueue.close_notify_all_full then LNotifyAll CvFull else LNotifyOneOnly CvFull u)
         (go (set_wfull c (if ConstsQueue.close_notify_all_full then [] else rm_opt u (wfull c))) t OpClose CNotifyEmpty)
| S_c_notify_empty u : at_ c t OpClose CNotifyEmpty -> notify_ok u (wempty c) ->
    step c t (if ConstsQueue.close_notify_all_empty then LNotifyAll CvEmpty else LNotifyOneOnly CvEmpty u)
         (go (set_wempty c (if ConstsQueue.close_notify_all_empty then [] else rm_opt u (wempty c))) t OpClose (XRet RUnit))
(* ---- is_open / is_closed / size / empty ---- *)
| S_q_read q : at_ c t (OpQuery q) QRead ->
    step c t (LRead (match q with QSize | QEmpty => RdSize | _ => RdState end) (holds c t))
         (hpush (go c t (OpQuery q) (XRet (RQuery (qval q c)))) (HLin t (OpQuery q) (RQuery (qval q c)))).

(** runs, newest step last *)
Inductive steps (a : config) : list (tid * label) -> config -> Prop :=
| steps_refl : steps a [] a
| steps_snoc ls b t l c : steps a ls b -> step b t l c -> steps a (ls ++ [(t, l)]) c.

Definition reachable (c : config) : Prop := exists n0 ls, steps (init n0) ls c.
End Step.

(** * The same transition relation as a function (soundness/completeness w.r.t. [step]: LemmasQueue_Exec.v).
    [choice] resolves the nondeterminism of a step: which operation is invoked, why a waiter wakes, the
    status of a wait, whom a notify_one wakes, by how much the clock advances. *)
Inductive choice :=
| ChStep | ChInvoke (o : op) | ChWake (r : reason) | ChExit (timedout : bool) | ChNotify (u : option tid) | ChTick (d : Z).

Definition wake_okb (r : reason) (t : tid) (ws : list tid) (dl : option Z) (now : Z) : bool :=
  match r with Notified => negb (mem t ws) | Spurious => true | TimedOut => reached dl now end.
Definition notify_okb (u : option tid) (ws : list tid) : bool :=
  match u with Some x => mem x ws | None => is_nil ws end.
Definition mutex_free c : bool := match mutex c with None => true | Some _ => false end.

Section StepFn.
Variable cap : nat.

Definition step_point (c : config) (t : tid) (o : op) (p : point) (ch : choice) : option (label * config) :=
  match p, ch with
  | XLock, ChStep =>
      if locks o then (if mutex_free c then Some (LLock, go (set_mutex c (Some t)) t o (first o)) else None)
      else Some (LNoLock, go c t o (first o))
  | XRet r, ChStep => Some (LReturn r, hpush (set_pcs (release c t) (upd (pcs c) t None)) (HRes t o r))
  | PTestFull, ChStep =>
      if is_put o then Some (LRead RdSize (holds c t), go c t o (if Nat.eqb cap (size_ c) then PTestZero else PTestState)) else None
  | PTestZero, ChStep =>
      match o with
      | OpPut v n per => Some (LLocal, if n =? 0 then fail c t o WFull0 else go c t o PCompExp)
      | _ => None
      end
  | PCompExp, ChStep =>
      match o with
      | OpPut v n per => Some (LLocal, go c t o (PLoopFull (put_deadline n per (now c))))
      | _ => None
      end
  | PLoopFull dl, ChStep =>
      Some (LRead RdSize (holds c t), go c t o (if Nat.eqb cap (size_ c) then PLoopState dl else PTestState))
  | PLoopState dl, ChStep =>
      Some (LRead RdState (holds c t), if st_eqb (st c) OPEN then go c t o (PWait dl) else fail c t o WNotOpen)
  | PWait dl, ChStep => Some (LWaitEnter CvFull dl, go (set_wfull (release c t) (t :: wfull c)) t o (PWaiting dl))
  | PWaiting dl, ChWake r =>
      if wake_okb r t (wfull c) dl (now c) then Some (LWake CvFull r, go (set_wfull c (rm t (wfull c))) t o (PWoken dl)) else None
  | PWoken dl, ChExit b =>
      if mutex_free c && (negb b || reached dl (now c)) then
        Some (LWaitExit CvFull b,
              if b then fail (set_mutex c (Some t)) t o WTimeout else go (set_mutex c (Some t)) t o (PLoopFull dl))
      else None
  | PTestState, ChStep =>
      Some (LRead RdState (holds c t), if st_eqb (st c) OPEN then go c t o PPush else fail c t o WNotOpen)
  | PPush, ChStep =>
      match o with
      | OpPut v n per =>
          Some (LPush v (holds c t),
                hpush (set_enq (set_items (go c t o PSizeInc) (items c ++ [v])) (enq c ++ [(t, v)])) (HLin t o (ROk None)))
      | _ => None
      end
  | PSizeInc, ChStep => Some (LSizeInc (holds c t), set_size (go c t o PNotify) (S (size_ c)))
  | PNotify, ChNotify u =>
      if notify_okb u (wempty c) then Some (LNotifyOne CvEmpty u, go (set_wempty c (rm_opt u (wempty c))) t o (XRet (ROk None))) else None
  | GTestEmpty, ChStep =>
      if is_get o then Some (LRead RdItems (holds c t), go c t o (if is_nil (items c) then GTestClosed else GPop)) else None
  | GTestClosed, ChStep =>
      Some (LRead RdState (holds c t), if st_eqb (st c) CLOSED then fail c t o WClosedEmpty else go c t o GWait)
  | GWait, ChStep =>
      Some (LWaitEnter CvEmpty (get_deadline o (now c)),
            go (set_wempty (release c t) (t :: wempty c)) t o (GWaiting (get_deadline o (now c))))
  | GWaiting dl, ChWake r =>
      if wake_okb r t (wempty c) dl (now c) then Some (LWake CvEmpty r, go (set_wempty c (rm t (wempty c))) t o (GWoken dl)) else None
  | GWoken dl, ChExit b =>
      if mutex_free c && (negb b || reached dl (now c)) then
        Some (LWaitExit CvEmpty b,
              if b then fail (set_mutex c (Some t)) t o WTimeout else go (set_mutex c (Some t)) t o GTestEmpty)
      else None
  | GPop, ChStep =>
      match items c with
      | v :: rest =>
          Some (LPop v (holds c t), hpush (set_deq (set_items (go c t o (GSizeDec v)) rest) (deq c ++ [v])) (HLin t o (ROk (Some v))))
      | [] => None
      end
  | GSizeDec v, ChStep => Some (LSizeDec (holds c t), set_size (go c t o (GDrainTest v)) (pred (size_ c)))
  | GDrainTest v, ChStep =>
      Some (LRead RdStateItems (holds c t),
            go c t o (if st_eqb (st c) CLOSING && is_nil (items c) then GDrainWrite v else GNotify v))
  | GDrainWrite v, ChStep =>
      Some (if drain_assigns o then LStateWrite CLOSED (holds c t) else LStateCompare (holds c t),
            go (if drain_assigns o then set_state c CLOSED else c) t o (GNotify v))
  | GNotify v, ChNotify u =>
      if notify_okb u (wfull c) then Some (LNotifyOne CvFull u, go (set_wfull c (rm_opt u (wfull c))) t o (XRet (ROk (Some v)))) else None
  | CWrite, ChStep =>
      match o with
      | OpClose => Some (LStateWrite (close_state c) (holds c t),
                         hpush (set_state (go c t OpClose CNotifyFull) (close_state c)) (HLin t OpClose RUnit))
      | _ => None
      end
  | CNotifyFull, ChNotify u =>
      match o with
      | OpClose =>
          if notify_okb u (wfull c) then
            Some (if ConstsQueue.close_notify_all_full then LNotifyAll CvFull else LNotifyOneOnly CvFull u,
                  go (set_wfull c (if ConstsQueue.close_notify_all_full then [] else rm_opt u (wfull c))) t OpClose CNotifyEmpty)
          else None
      | _ => None
      end
  | CNotifyEmpty, ChNotify u =>
      match o with
      | OpClose =>
          if notify_okb u (wempty c) then
            Some (if ConstsQueue.close_notify_all_empty then LNotifyAll CvEmpty else LNotifyOneOnly CvEmpty u,
                  go (set_wempty c (if ConstsQueue.close_notify_all_empty then [] else rm_opt u (wempty c))) t OpClose (XRet RUnit))
          else None
      | _ => None
      end
  | QRead, ChStep =>
      match o with
      | OpQuery q =>
          Some (LRead (match q with QSize | QEmpty => RdSize | _ => RdState end) (holds c t),
                hpush (go c t o (XRet (RQuery (qval q c)))) (HLin t o (RQuery (qval q c))))
      | _ => None
      end
  | _, _ => None
  end.

Definition step_fn (c : config) (t : tid) (ch : choice) : option (label * config) :=
  match ch with
  | ChTick d => if 0 <=? d then Some (LTick d, set_now c (now c + d)) else None
  | _ =>
      match pcs c t with
      | None => match ch with ChInvoke o => Some (LInvoke o, hpush (go c t o XLock) (HInv t o)) | _ => None end
      | Some (o, p) => step_point c t o p ch
      end
  end.

(** run an explicit schedule; returns the labels (oldest first) and the final configuration *)
Fixpoint run_sched (c : config) (s : list (tid * choice)) : option (list (tid * label) * config) :=
  match s with
  | [] => Some ([], c)
  | (t, ch) :: s' =>
      match step_fn c t ch with
      | Some (l, c') => match run_sched c' s' with Some (ls, c'') => Some ((t, l) :: ls, c'') | None => None end
      | None => None
      end
  end.
End StepFn.

(** * Recorded traces of the real implementation (events of the M17CXX_VERIF hook + the harness's invocation records)
    and the checker: [accepts cap tr = true] iff the schedule synthesised from the trace ([synth], untrusted) is
    executed by [run_sched] (= the step relation) and its visible labels are exactly the trace. *)
Inductive tev :=
| EInvoke (o : op) | ELock
| EWaitEnter (cv : cvar) (timed : bool) | EWaitExit (cv : cvar) (timedout : bool)
| EPush (v : val) | EPop (v : val) | EStateWrite (s : qstate) | EReturn (code : nat).

Definition is_some {A} (x : option A) : bool := match x with Some _ => true | None => false end.
Definition vis (l : label) : option tev :=
  match l with
  | LInvoke o => Some (EInvoke o) | LLock => Some ELock
  | LWaitEnter cv dl => Some (EWaitEnter cv (is_some dl)) | LWaitExit cv b => Some (EWaitExit cv b)
  | LPush v _ => Some (EPush v) | LPop v _ => Some (EPop v)
  | LStateWrite s _ => Some (EStateWrite s) | LReturn r => Some (EReturn (resp_code r))
  | _ => None
  end.
Fixpoint visible (ls : list (tid * label)) : list (tid * tev) :=
  match ls with
  | [] => []
  | (t, l) :: r => match vis l with Some e => (t, e) :: visible r | None => visible r end
  end.

Definition query_eqb a b := match a, b with QIsOpen, QIsOpen | QIsClosed, QIsClosed | QSize, QSize | QEmpty, QEmpty => true | _, _ => false end.
Definition cv_eqb a b := match a, b with CvFull, CvFull | CvEmpty, CvEmpty => true | _, _ => false end.
Definition op_eqb (a b : op) : bool :=
  match a, b with
  | OpPut v n p, OpPut v' n' p' => Nat.eqb v v' && (n =? n') && (p =? p')
  | OpGet n p, OpGet n' p' => (n =? n') && (p =? p')
  | OpGetUntil w, OpGetUntil w' => w =? w'
  | OpClose, OpClose => true
  | OpQuery q, OpQuery q' => query_eqb q q'
  | _, _ => false
  end.
Definition tev_eqb (a b : tev) : bool :=
  match a, b with
  | EInvoke o, EInvoke o' => op_eqb o o'
  | ELock, ELock => true
  | EWaitEnter cv x, EWaitEnter cv' x' => cv_eqb cv cv' && Bool.eqb x x'
  | EWaitExit cv x, EWaitExit cv' x' => cv_eqb cv cv' && Bool.eqb x x'
  | EPush v, EPush v' => Nat.eqb v v' | EPop v, EPop v' => Nat.eqb v v'
  | EStateWrite s, EStateWrite s' => st_eqb s s'
  | EReturn n, EReturn n' => Nat.eqb n n'
  | _, _ => false
  end.
Fixpoint trace_eqb (a b : list (tid * tev)) : bool :=
  match a, b with
  | [], [] => true
  | (t, e) :: a', (t', e') :: b' => Nat.eqb t t' && tev_eqb e e' && trace_eqb a' b'
  | _, _ => false
  end.

Section Checker.
Variable cap : nat.

Definition hd_opt (l : list tid) : option tid := match l with x :: _ => Some x | [] => None end.
(** the choice that lets thread t advance towards the recorded event e *)
Definition pick (c : config) (t : tid) (e : tev) : choice :=
  match pcs c t with
  | None => match e with EInvoke o => ChInvoke o | _ => ChStep end
  | Some (o, p) =>
      match p with
      | PWaiting _ => ChWake (if mem t (wfull c) then Spurious else Notified)
      | GWaiting _ => ChWake (if mem t (wempty c) then Spurious else Notified)
      | PWoken dl | GWoken dl =>
          match e with
          | EWaitExit _ true =>
              match dl with
              | Some d => if d <=? now c then ChExit true else ChTick (d - now c)
              | None => ChExit true
              end
          | _ => ChExit false
          end
      | PNotify | CNotifyEmpty => ChNotify (hd_opt (wempty c))
      | GNotify _ | CNotifyFull => ChNotify (hd_opt (wfull c))
      | _ => ChStep
      end
  end.

(** advance thread t until it makes a visible step (at most [fuel] steps) *)
Fixpoint advance (fuel : nat) (c : config) (t : tid) (e : tev) (acc : list (tid * choice))
  : option (config * list (tid * choice) * tev) :=
  match fuel with
  | O => None
  | S f =>
      let ch := pick c t e in
      match step_fn cap c t ch with
      | None => None
      | Some (l, c') =>
          match vis l with
          | Some e' => Some (c', (t, ch) :: acc, e')
          | None => advance f c' t e ((t, ch) :: acc)
          end
      end
  end.

(** returns the schedule (reversed) and the index of the first event that could not be matched, if any *)
Fixpoint synth_go (c : config) (tr : list (tid * tev)) (acc : list (tid * choice)) (i : nat)
  : list (tid * choice) * option nat :=
  match tr with
  | [] => (acc, None)
  | (t, e) :: tr' =>
      match advance 16 c t e acc with
      | Some (c', acc', e') => if tev_eqb e e' then synth_go c' tr' acc' (S i) else (acc', Some i)
      | None => (acc, Some i)
      end
  end.
Definition synth (tr : list (tid * tev)) : list (tid * choice) := rev (fst (synth_go (init 0) tr [] 0)).
Definition first_reject (tr : list (tid * tev)) : option nat := snd (synth_go (init 0) tr [] 0).

Definition accepts_with (tr : list (tid * tev)) (s : list (tid * choice)) : bool :=
  match run_sched cap (init 0) s with
  | Some (ls, _) => trace_eqb (visible ls) tr
  | None => false
  end.
Definition accepts (tr : list (tid * tev)) : bool := accepts_with tr (synth tr).

(** deterministic sequential run used by the differential test: thread 0 performs the operations one after the
    other, each run to completion with the default choices; returns the responses. *)
Fixpoint run_op (fuel : nat) (c : config) (t : tid) : option (config * resp) :=
  match fuel with
  | O => None
  | S f =>
      match pcs c t with
      | None => None
      | Some (o, p) =>
          match step_fn cap c t (pick c t (EReturn 0)) with
          | Some (LReturn r, c') => Some (c', r)
          | Some (LWaitEnter _ _, _) => None        (* would block: not a sequential case *)
          | Some (_, c') => run_op f c' t
          | None => None
          end
      end
  end.
Fixpoint run_seq (c : config) (ops : list op) : list (option resp) :=
  match ops with
  | [] => []
  | o :: r =>
      match step_fn cap c 0%nat (ChInvoke o) with
      | Some (_, c1) =>
          match run_op 32 c1 0%nat with
          | Some (c2, n) => Some n :: run_seq c2 r
          | None => [None]
          end
      | None => [None]
      end
  end.
End Checker.
