(** C10 — interleaver and randomizer are exact, mutually inverse bit-conditioning maps.
    Only the property theorems (each closed by [exact]) and their Print Assumptions.
    Models: ImplInterleave.v / ImplRandom.v / ImplUtilBits.v (mirrors of PolynomialInterleaver.h,
    M17Randomizer.h, Util.h bit helpers); specifications: SpecInterleave.v, SpecRandom.v.
    [interleave], [deinterleave], [il_index] … are the frame decoder's instantiation, with the
    template arguments regenerated from the source; every other instantiation is shown to use
    the same arguments.  All statements are polymorphic in the element type / quantify over all
    frame contents. *)
From Coq Require Import NArith ZArith List Bool Permutation.
From M17 Require Import Bits ImplUtilBits ConstsInterleave ConstsRandomizer ImplInterleave ImplRandom
  SpecInterleave SpecRandom LemmasUtilBits LemmasInterleave LemmasRandom LemmasC10.
Import ListNotations.

(** * Interleaver *)

(** index() is the specification's polynomial, for every argument *)
Theorem c10_index_is_pi : forall i : nat, il_index i = pi i.
Proof. exact il_index_is_pi. Qed.
Print Assumptions c10_index_is_pi.

(** ... and a permutation of the 368 positions *)
Theorem c10_index_perm : Permutation (map il_index (seq 0 368)) (seq 0 368).
Proof. exact index_perm_lemma. Qed.
Print Assumptions c10_index_perm.

(** every instantiation in the modem (header defaults, decoder, modulator, the four in m17-mod.cpp) is <45, 92, 368> *)
Theorem c10_all_sites_are_m17 : Forall (fun s => s = (45, 92, 368)%N) (il_default :: il_sites).
Proof. exact il_sites_lemma. Qed.
Print Assumptions c10_all_sites_are_m17.

(** interleave puts element i at position π(i); the result has 368 elements (any element type, any content) *)
Theorem c10_interleave_spec : forall (A : Type) (d : A) (l : list A),
  length (interleave d l) = 368 /\ forall i, i < 368 -> nth (pi i) (interleave d l) d = nth i l d.
Proof. exact interleave_spec_thm. Qed.
Print Assumptions c10_interleave_spec.

(** deinterleave fetches element i from position π(i) *)
Theorem c10_deinterleave_spec : forall (A : Type) (d : A) (l : list A),
  length (deinterleave d l) = 368 /\ forall i, i < 368 -> nth i (deinterleave d l) d = nth (pi i) l d.
Proof. exact deinterleave_spec_thm. Qed.
Print Assumptions c10_deinterleave_spec.

(** the fill value of the scratch buffer never shows in the result of a 368-element frame *)
Theorem c10_fill_irrelevant : forall (A : Type) (d d' : A) (l : list A), length l = 368 -> interleave d l = interleave d' l.
Proof. exact (@interleave_default_irrelevant). Qed.
Print Assumptions c10_fill_irrelevant.

Theorem c10_deinterleave_interleave : forall (A : Type) (d : A) (l : list A), length l = 368 -> deinterleave d (interleave d l) = l.
Proof. exact (@deinterleave_interleave_lemma). Qed.
Print Assumptions c10_deinterleave_interleave.

Theorem c10_interleave_deinterleave : forall (A : Type) (d : A) (l : list A), length l = 368 -> interleave d (deinterleave d l) = l.
Proof. exact (@interleave_deinterleave_lemma). Qed.
Print Assumptions c10_interleave_deinterleave.

(** π is an involution, so the two functions are the same map (the transmitter could use either) *)
Theorem c10_interleave_is_deinterleave : forall (A : Type) (d : A) (l : list A), interleave d l = deinterleave d l.
Proof. exact (@interleave_eq_deinterleave_lemma). Qed.
Print Assumptions c10_interleave_is_deinterleave.

(** closed form of both functions, convenient for the users of these models (frame decoder, modulators) *)
Theorem c10_closed_form : forall (A : Type) (d : A) (l : list A),
  interleave d l = map (fun j => nth (pi j) l d) (seq 0 368) /\
  deinterleave d l = map (fun j => nth (pi j) l d) (seq 0 368).
Proof. exact closed_form_thm. Qed.
Print Assumptions c10_closed_form.

(** packed-byte variants: on the MSB-first bit view they are the array variants, for every byte content *)
Theorem c10_bytes_variant_agrees : forall b : list N,
  bytes_bits (interleave_bytes b) = interleave false (bytes_bits b) /\
  bytes_bits (deinterleave_bytes b) = deinterleave false (bytes_bits b).
Proof. exact bytes_variant_agrees_thm. Qed.
Print Assumptions c10_bytes_variant_agrees.

Theorem c10_bytes_roundtrip : forall b : list N, length b = 46 -> all_bytes b ->
  deinterleave_bytes (interleave_bytes b) = b /\ interleave_bytes (deinterleave_bytes b) = b.
Proof. exact bytes_roundtrip_thm. Qed.
Print Assumptions c10_bytes_roundtrip.

(** * Randomizer *)

(** detail::DC is the specification's sequence; every instantiation has the frame's size *)
Theorem c10_DC_is_spec : DC = dc_spec.
Proof. exact DC_is_spec. Qed.
Print Assumptions c10_DC_is_spec.

Theorem c10_randomizer_sizes : Forall (fun n => n = 368%N) rnd_soft_sites /\ Forall (fun n => n = 46%N) rnd_byte_sites.
Proof. exact rnd_sites_lemma. Qed.
Print Assumptions c10_randomizer_sizes.

(** the constructor's table is the sequence's 368 bits, 1 -> -1 and 0 -> +1 *)
Theorem c10_dc_table : dc_soft = map (fun b : bool => if b then (-1)%Z else 1%Z) dc_bits.
Proof. exact dc_soft_is_spec. Qed.
Print Assumptions c10_dc_table.

(** soft variant: a sign change (with the int8_t conversion) exactly where the sequence has a 1 *)
Theorem c10_soft_rand_is_spec : forall s : list Z, Forall int8 s -> derandomize_soft s = map wrap8 (rand_soft_spec s).
Proof. exact soft_rand_is_spec_lemma. Qed.
Print Assumptions c10_soft_rand_is_spec.

(** applied twice it is the identity on every int8_t frame, -128 included *)
Theorem c10_soft_rand_involutive : forall s : list Z, length s = 368 -> Forall int8 s -> derandomize_soft (derandomize_soft s) = s.
Proof. exact soft_rand_involutive_lemma. Qed.
Print Assumptions c10_soft_rand_involutive.

(** the value whose sign cannot be flipped: -128 stays -128 where the sequence has a 1 (position 0 does) *)
Theorem c10_soft_rand_m128 : derandomize_soft [(-128)%Z] = [(-128)%Z] /\ nth 0 dc_soft 0%Z = (-1)%Z.
Proof. exact soft_rand_m128_lemma. Qed.
Print Assumptions c10_soft_rand_m128.

(** bit variant: xor with the sequence's bits; involutive (any array content; int8_t view included) *)
Theorem c10_bit_rand_is_spec : forall l : list bool, randomize_bits (map b2n l) = map b2n (rand_bits_spec l).
Proof. exact bits_rand_is_spec_bool. Qed.
Print Assumptions c10_bit_rand_is_spec.

Theorem c10_bit_rand_involutive : forall l : list N, length l = 368 -> randomize_bits (randomize_bits l) = l.
Proof. exact bit_rand_involutive_lemma. Qed.
Print Assumptions c10_bit_rand_involutive.

Theorem c10_int8_rand_involutive : forall s : list Z, length s = 368 -> Forall int8 s -> randomize_int8 (randomize_int8 s) = s.
Proof. exact int8_rand_involutive_lemma. Qed.
Print Assumptions c10_int8_rand_involutive.

Theorem c10_int8_rand_agrees : forall l : list N, Forall (fun x => (x < 128)%N) l ->
  randomize_int8 (map Z.of_N l) = map Z.of_N (randomize_bits l).
Proof. exact bit_rand_int8_agrees. Qed.
Print Assumptions c10_int8_rand_agrees.

(** byte variant: the mask loop is the plain xor with the sequence; involutive *)
Theorem c10_byte_rand_is_xor : forall frame : list N, all_bytes frame -> randomize_bytes frame = xor_bytes frame dc_spec.
Proof. exact byte_rand_is_spec_lemma. Qed.
Print Assumptions c10_byte_rand_is_xor.

Theorem c10_byte_rand_involutive : forall frame : list N, length frame = 46 -> all_bytes frame ->
  randomize_bytes (randomize_bytes frame) = frame.
Proof. exact byte_rand_involutive_lemma. Qed.
Print Assumptions c10_byte_rand_involutive.

(** the three variants implement the same mapping: hard decisions of the soft variant (values -127..127, non-zero)
    are the bit variant of the hard decisions; the bits of the byte variant are the bit variant of the bits *)
Theorem c10_variants_agree :
  (forall s : list Z, Forall (fun x => (-127 <= x <= 127)%Z /\ x <> 0%Z) s ->
     map hardN (derandomize_soft s) = randomize_bits (map hardN s)) /\
  (forall b : list N, length b = 46 -> all_bytes b ->
     map b2n (bytes_bits (randomize_bytes b)) = randomize_bits (map b2n (bytes_bits b))).
Proof. exact variants_agree_thm. Qed.
Print Assumptions c10_variants_agree.

(** * Non-vacuity: concrete frames *)
Example c10_ex_positions : pi 1 = 137 /\ il_index 1 = 137 /\ il_index 367 = 47 /\
  nth 137 (interleave 0%N (map N.of_nat (seq 0 368))) 0%N = 1%N.
Proof. vm_compute. repeat split; reflexivity. Qed.
Example c10_ex_bytes_roundtrip : let b := DC in length b = 46 /\ interleave_bytes b <> b /\ deinterleave_bytes (interleave_bytes b) = b.
Proof. vm_compute. repeat split; try reflexivity. discriminate. Qed.
Example c10_ex_rand : randomize_bytes (repeat 0%N 46) = dc_spec /\
  firstn 8 (derandomize_soft (repeat 7%Z 368)) = [-7; -7; 7; -7; 7; -7; -7; 7]%Z /\
  firstn 8 (randomize_bits (repeat 0%N 368)) = [1; 1; 0; 1; 0; 1; 1; 0]%N.
Proof. vm_compute. repeat split; reflexivity. Qed.
Example c10_ex_m128_frame : derandomize_soft (repeat (-128)%Z 368) = repeat (-128)%Z 368.
Proof. exact soft_rand_m128_frame. Qed.
