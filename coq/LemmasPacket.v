(** Growth of the global [current_packet]: over arbitrary callback sequences it is unbounded (every last-frame
    segment appends up to 25 bytes and only an LSF callback clears the vector), and it is bounded by
    3 + 25 * 32 + 25 * (number of last-frame segments since the last LSF callback). *)
From Coq Require Import NArith ZArith Arith Bool String Lia List.
From Coq Require Import ZifyBool ZifyNat ZifyN.
From M17 Require Import Checked LemmasChecked ConstsApp ImplAx25 LemmasAx25 ImplApp LemmasApp.
Import ListNotations.
Ltac Zify.zify_post_hook ::= Z.div_mod_to_equations.

Lemma get_each_length {A} site (l : list A) : forall idxs xs, get_each site l idxs = Ok xs -> length xs = length idxs.
Proof. induction idxs as [|i r IH]; intros xs H; cbn [get_each] in H.
- injection H as <-. reflexivity.
- apply bind_inv in H. destruct H as [x [_ H]]. apply bind_inv in H. destruct H as [ys [Hy H]]. injection H as <-.
  cbn [length]. rewrite (IH ys Hy). reflexivity.
Qed.

Lemma seg_bytes_length site seg n bs : seg_bytes site seg n = Ok bs -> length bs = n.
Proof. intros H. unfold seg_bytes in H. apply get_each_length in H. rewrite seq_length in H. exact H. Qed.

Lemma field_le_31 c : (N.shiftr (N.land c dp_cnt_mask) dp_cnt_shift <= 31)%N.
Proof. change dp_cnt_mask with (N.ones 7). rewrite N.land_ones, N.shiftr_div_pow2.
  pose proof (N.mod_lt c (2 ^ 7)). change (2 ^ 7)%N with 128%N in *. change (2 ^ dp_cnt_shift)%N with 4%N. lia. Qed.

Lemma append_packet_30 lsf : length lsf = lsf_bytes -> length (append_packet [] lsf) = 3.
Proof. intros L. unfold lsf_bytes in L.
  repeat (destruct lsf as [|? lsf]; [discriminate L|]). destruct lsf; [|discriminate L]. reflexivity. Qed.

Section Packet.
Variable cstate : Type.
Variable codec2_decode : cstate -> list N -> cstate * list Z.
Notation app := (app cstate).
Notation handle_frame := (handle_frame cstate codec2_decode).
Notation run_app := (run_app cstate codec2_decode).

(** ** unbounded *)
Definition eof25 : list N := repeat 0%N 25 ++ [228%N].     (* control byte 0xE4: last frame, 25 bytes *)

Lemma eof25_step (st : app) : exists st' out, decode_packet cstate st eof25 = Ok (st', out) /\ a_packet st' = a_packet st ++ repeat 0%N 25.
Proof. unfold decode_packet.
  change (get "decode_packet: packet_segment[25]" eof25 dp_ctl_idx) with (@Ok N 228%N). cbn [bind].
  change (negb (N.eqb (N.land 228 dp_eof_mask) 0)) with true. cbv iota.
  change (N.to_nat (N.min (N.shiftr (N.land 228 dp_cnt_mask) dp_cnt_shift) dp_size_clamp)) with 25.
  change (seg_bytes "decode_packet: packet_segment[i] (last frame)" eof25 25) with (@Ok (list N) (repeat 0%N 25)). cbn [bind].
  change dp_uses_front with false. cbv iota. cbn [bind].
  destruct (N.eqb _ dp_crc_residue).
  - destruct (parse_ok_lemma (a_packet st ++ repeat 0%N 25)) as [f Hf]. rewrite Hf. cbn [bind].
    eexists; eexists; split; reflexivity.
  - eexists; eexists; split; reflexivity.
Qed.

Lemma unbounded_run o : forall n (st : app),
  exists st' outs, run_app o st (repeat (CbBasicPacket eof25 0%Z) n) = Ok (st', outs) /\ length (a_packet st') = length (a_packet st) + 25 * n.
Proof. induction n as [|n IH]; intros st; cbn [repeat run_app].
- exists st, []. split; [reflexivity|lia].
- cbn [handle_frame]. change hf_basic_uses_full with false. cbv iota.
  destruct (eof25_step st) as [st1 [o1 [H1 L1]]]. rewrite H1. cbn [bind fst snd].
  destruct (IH st1) as [st2 [o2 [H2 L2]]]. rewrite H2. cbn [bind fst snd].
  eexists; eexists; split; [reflexivity|]. rewrite L2, L1, app_length, repeat_length. lia.
Qed.

Lemma current_packet_unbounded_lemma o c : forall n : nat,
  exists cbs st' outs, Forall wf_callback cbs /\ run_app o (app_init cstate c) cbs = Ok (st', outs) /\ n <= length (a_packet st').
Proof. intros n. destruct (unbounded_run o n (app_init cstate c)) as [st' [outs [H L]]].
  exists (repeat (CbBasicPacket eof25 0%Z) n), st', outs. split; [|split; [exact H|]].
  - apply Forall_forall. intros x Hx. apply repeat_spec in Hx. subst. reflexivity.
  - rewrite L. lia.
Qed.

(** ** bounded per last-frame segment *)
Definition is_eof (seg : list N) : bool :=
  match nth_error seg dp_ctl_idx with Some c => negb (N.eqb (N.land c dp_eof_mask) 0) | None => false end.

(* number of last-frame packet segments since the last LSF callback *)
Definition eof_track (e : nat) (cb : callback) : nat :=
  match cb with
  | CbLSF _ _ => 0
  | CbBasicPacket seg _ | CbFullPacket seg _ => if is_eof seg then S e else e
  | _ => e
  end.

Definition pk_inv (st : app) (e : nat) : Prop :=
  length (a_packet st) <= 3 + 25 * N.to_nat (a_counter st) + 25 * e /\ (a_counter st <= 32)%N.

Lemma decode_packet_bound (st st' : app) seg out e :
  decode_packet cstate st seg = Ok (st', out) -> pk_inv st e -> pk_inv st' (if is_eof seg then S e else e).
Proof. intros H [B C]. unfold decode_packet in H. apply bind_inv in H. destruct H as [c [Hc H]].
  unfold is_eof. unfold get in Hc. destruct (nth_error seg dp_ctl_idx) as [c'|]; [|discriminate]. injection Hc as ->.
  destruct (negb (N.eqb (N.land c dp_eof_mask) 0)).
  - apply bind_inv in H. destruct H as [bs [Hbs H]]. apply seg_bytes_length in Hbs.
    assert (Lb : length bs <= 25).
    { rewrite Hbs. pose proof (N.le_min_r (N.shiftr (N.land c dp_cnt_mask) dp_cnt_shift) dp_size_clamp). unfold dp_size_clamp in *. lia. }
    apply bind_inv in H. destruct H as [_f [_ H]].
    destruct (N.eqb _ dp_crc_residue).
    + apply bind_inv in H. destruct H as [f [_ H]]. injection H as <- _. split; cbn [a_packet a_counter]; [rewrite app_length; lia | exact C].
    + injection H as <- _. split; cbn [a_packet a_counter]; [rewrite app_length; lia | exact C].
  - destruct (negb (N.eqb (N.shiftr (N.land c dp_cnt_mask) dp_cnt_shift) (a_counter st))) eqn:Q.
    + injection H as <- _. split; assumption.
    + apply negb_false_iff in Q. apply N.eqb_eq in Q. pose proof (field_le_31 c) as F.
      apply bind_inv in H. destruct H as [bs [Hbs H]]. apply seg_bytes_length in Hbs. injection H as <- _.
      split; cbn [a_packet a_counter]; [rewrite app_length, Hbs; unfold dp_full_bytes; lia | lia].
Qed.

Lemma handle_frame_bound o (st st' : app) cb out e :
  wf_callback cb -> handle_frame o st cb = Ok (st', out) -> pk_inv st e -> pk_inv st' (eof_track e cb).
Proof. intros W H I. destruct cb as [lsf c|c|audio c|seg c|seg c|bert c]; cbn [handle_frame eof_track wf_callback] in *.
- unfold dump_lsf in H. apply bind_inv in H. destruct H as [text [_ H]]. apply bind_inv in H. destruct H as [b [_ H]].
  apply bind_inv in H. destruct H as [pk [Hpk H]]. injection H as <- _. split; cbn [a_packet a_counter]; [|lia].
  destruct (N.eqb (N.land b dl_pkt_mask) 0).
  + apply bind_inv in Hpk. destruct Hpk as [b' [_ Hpk]]. injection Hpk as <-.
    destruct (N.eqb _ 1); [cbn; lia|]. destruct (N.eqb _ 2); cbn [fst]; rewrite append_packet_30 by exact W; lia.
  + injection Hpk as <-. cbn. lia.
- injection H as <- _. exact I.
- unfold demodulate_audio in H. apply bind_inv in H. destruct H as [a0 [_ H]].
  destruct (o_noise_blanker o && (da_blank_cost <? c)%Z).
  + repeat (apply bind_inv in H; destruct H as [? [_ H]]). injection H as <- _. exact I.
  + repeat (apply bind_inv in H; destruct H as [? [_ H]]). injection H as <- _. exact I.
- change hf_basic_uses_full with false in H. cbv iota in H. eapply decode_packet_bound; eassumption.
- change hf_full_uses_full with false in H. cbv iota in H. eapply decode_packet_bound; eassumption.
- unfold decode_bert in H. apply bind_inv in H. destruct H as [p [_ H]]. injection H as <- _. exact I.
Qed.

Lemma run_app_bound o : forall cbs (st st' : app) outs e,
  Forall wf_callback cbs -> run_app o st cbs = Ok (st', outs) -> pk_inv st e -> pk_inv st' (fold_left eof_track cbs e).
Proof. induction cbs as [|cb r IH]; intros st st' outs e W H I; cbn [run_app fold_left] in *.
- injection H as <- _. exact I.
- inversion W as [|? ? Wc Wr]; subst. apply bind_inv in H. destruct H as [[st1 o1] [H1 H]]. apply bind_inv in H. destruct H as [[st2 o2] [H2 H]].
  cbn [fst snd] in *. injection H as <- _. eapply IH; [exact Wr | exact H2 |]. eapply handle_frame_bound; eassumption.
Qed.

Lemma current_packet_bounded_lemma o c cbs (st' : app) outs :
  Forall wf_callback cbs -> run_app o (app_init cstate c) cbs = Ok (st', outs) ->
  length (a_packet st') <= 3 + 25 * 32 + 25 * fold_left eof_track cbs 0.
Proof. intros W H. assert (I : pk_inv (app_init cstate c) 0) by (split; cbn; lia).
  destruct (run_app_bound o cbs _ _ _ _ W H I) as [B C]. lia. Qed.

End Packet.
