(** Extraction of the modulator model and of the specification encoder for the C14 correspondence check:
    ExtrOcamlBasic only; numbers stay Coq inductives. *)
Require Extraction.
Require Import ExtrOcamlBasic.
From Coq Require Import NArith ZArith List.
From M17 Require Import Bits SpecCRC SpecM17 ConstsModulator ImplModulator SpecModulator ModelOutQueue.
Import ListNotations.

(** replay oracle for Codec2: the harness supplies the 8-byte results of the successive codec2_encode calls
    (computed with libcodec2 on the same audio); the model records the audio it asked to be encoded *)
Definition replay : Type := (list (list N) * list (list Z))%type.
Definition replay_encode (c : replay) (a : list Z) : replay * list N :=
  match fst c with
  | o :: r => ((r, a :: snd c), o)
  | [] => (([], a :: snd c), repeat 0%N 8)
  end.

Definition mode_code (m : mode) : N :=
  match m with INACTIVE => 0 | IDLE => 1 | PREAMBLE => 2 | LINK_SETUP => 3 | ACTIVE => 4 | END_OF_STREAM => 5 end%N.

(** impl: callsign strings -> run the state machine on a schedule *)
Definition c14_impl_run (junk : N) (dst src : list N) (table : list (list N)) (sched : list item)
  : option (N * list N * list (list Z) * nat) :=
  match run (fun _ => junk) replay replay_encode (encode_callsign dst) (encode_callsign src)
            (minit (fun _ => junk) replay (table, [])) sched with
  | Some (s, out) => Some (mode_code (st_mode replay s), out, rev (snd (st_codec replay s)), length (fst (st_codec replay s)))
  | None => None
  end.
(** impl with source()/dest() between segments: (dst, src, items) per segment *)
Definition c14_impl_run_segments (junk : N) (table : list (list N)) (segs : list (list N * list N * list item))
  : option (N * list N * list (list Z) * nat) :=
  match run_segments (fun _ => junk) replay replay_encode (minit (fun _ => junk) replay (table, []))
                     (map (fun g => match g with (d, s, it) => (encode_callsign d, encode_callsign s, it) end) segs) with
  | Some (s, out) => Some (mode_code (st_mode replay s), out, rev (snd (st_codec replay s)), length (fst (st_codec replay s)))
  | None => None
  end.
Definition c14_impl_callsign := encode_callsign.
Definition c14_impl_lsf (dst src : list N) : list N := build_lsf (encode_callsign dst) (encode_callsign src).
Definition c14_impl_lsf_frame (junk : N) (lsf : list N) : list N := output_frame ConstsModulator.sync_lsf (lsf_frame (fun _ => junk) lsf).
Definition c14_impl_stream_frame (junk : N) (lsf : list N) (n : nat) (fnraw : N) (payload : list N) : list N :=
  send_audio_frame (fun _ => junk) (nth n (build_lich (fun _ => junk) lsf) []) (make_payload (fun _ => junk) fnraw payload).
Definition c14_queue_capacity : nat := ConstsModulator.bitstream_queue_capacity.

(** spec *)
Definition c14_spec_address (dst : bool) (s : list N) : list N := if dst then spec_dst_address s else spec_address s.
Definition c14_spec_lsf (dst src : list N) : list N := spec_lsf dst src 0.
Definition c14_spec_lsf_frame (lsf : list N) : list N := sync_lsf ++ bits_bytes (spec_lsf_frame lsf).
Definition c14_spec_stream_frame (lsf : list N) (n fn : N) (payload : list N) (eos : bool) : list N :=
  sync_stream ++ bits_bytes (spec_stream_frame lsf n fn payload eos).
Definition c14_spec_preamble : list N := preamble.
Definition c14_spec_keyup (dst src : list N) (table : list (list N)) (samples : list Z) (last : Z) : list N * list (list Z) :=
  let '(c, out) := keyup_stream replay replay_encode dst src (table, []) samples last in (out, rev (snd c)).
Definition c14_spec_crc := m17_crc.
Definition c14_queue_run (blocks : bool) (cap : nat) (bytes : list N) (trace : list actor) : qstate :=
  qrun (if blocks then Blocks else ReturnsFalse) cap bytes trace.

Extraction "c14_model.ml" c14_impl_run c14_impl_run_segments c14_impl_callsign c14_impl_lsf c14_impl_lsf_frame c14_impl_stream_frame c14_queue_capacity
  c14_spec_address c14_spec_lsf c14_spec_lsf_frame c14_spec_stream_frame c14_spec_preamble c14_spec_keyup c14_spec_crc c14_queue_run.
