(** C12 — configurations for which the faithful model REFUTES the sign clause (widths 2 and 3, both float types),
    each with a concrete witness evaluated by vm_compute, and the cross-sign asymmetry of the width-4 float table. *)
From Coq Require Import ZArith QArith Lia List Bool Floats.SpecFloat.
From Flocq Require Import IEEE754.Binary IEEE754.Bits.
From M17 Require Import ConstsLlr ImplLLR SpecLLR LemmasLLR_C LemmasLLR_T32 LemmasLLR_T64.
Open Scope Z_scope.

Definition sign_fails32 (L : Z) (x : binary32) : Prop :=
  is_finite 24 128 x = true /\ far_from_boundaries (B2Q32 x) /\
  soft_dibit (llr F32 L (B2SF 24 128 x)) <> nearest_dibit (B2Q32 x).
Definition sign_fails64 (L : Z) (x : binary64) : Prop :=
  is_finite 53 1024 x = true /\ far_from_boundaries (B2Q64 x) /\
  soft_dibit (llr F64 L (B2SF 53 1024 x)) <> nearest_dibit (B2Q64 x).

Ltac refute := split; [reflexivity | split; [apply far_b_iff; vm_compute; reflexivity | vm_compute; discriminate]].

(** float, width 3: 1.8 (0x3fe66666) lies in the bin (1.667, 2.0] which carries second soft bit +1 (level +3), nearest level is +1 *)
Definition w3_32 : binary32 := f32 false 15099494 (-23) eq_refl.
Lemma sign_L3_float_refuted : sign_fails32 3 w3_32.
Proof. refute. Qed.

(** double, width 3: -0.2 (0xbfc999999999999a) lies in the bin (-0.333, -1.1e-16] which carries first soft bit -1 (level +1), nearest level is -1 *)
Definition w3_64 : binary64 := f64 true 7205759403792794 (-55) eq_refl.
Lemma sign_L3_double_refuted : sign_fails64 3 w3_64.
Proof. refute. Qed.

(** width 2: -0.5 lies in the bin (-1, 0] with first soft bit -1; 1.5 lies in (1, 2] with second soft bit +1 *)
Definition w2a_32 : binary32 := f32 true 8388608 (-24) eq_refl.
Definition w2b_32 : binary32 := f32 false 12582912 (-23) eq_refl.
Lemma sign_L2_float_refuted : sign_fails32 2 w2a_32 /\ sign_fails32 2 w2b_32.
Proof. split; refute. Qed.
Definition w2a_64 : binary64 := f64 true 4503599627370496 (-53) eq_refl.
Definition w2b_64 : binary64 := f64 false 6755399441055744 (-52) eq_refl.
Lemma sign_L2_double_refuted : sign_fails64 2 w2a_64 /\ sign_fails64 2 w2b_64.
Proof. split; refute. Qed.

(** the witnesses are the floats the oracle replays on the C++ *)
Example witness_bits :
  bits_of_b32 w3_32 = 0x3fe66666 /\ bits_of_b64 w3_64 = 0xbfc999999999999a /\
  bits_of_b32 w2a_32 = 0xbf000000 /\ bits_of_b32 w2b_32 = 0x3fc00000 /\
  bits_of_b64 w2a_64 = 0xbfe0000000000000 /\ bits_of_b64 w2b_64 = 0x3ff8000000000000.
Proof. vm_compute. repeat split. Qed.

(** Width 4, float: the thresholds of the negative and the positive half are not mirror images (they differ by a few ulp),
    so "second soft bit as a function of |x|" holds on each half-line (llr32_second_monotone_in_abs) but not across signs:
    x = +1.14285707 (0x3f924924), y = -1.14285719 (0xbf924925):  |x| < |y|  but  snd (llr y) = -7 < -6 = snd (llr x). *)
Definition asym_x : binary32 := f32 false 9586980 (-23) eq_refl.
Definition asym_y : binary32 := f32 true 9586981 (-23) eq_refl.
Lemma second_cross_sign_asymmetry :
  (B2Q32 asym_x < - B2Q32 asym_y)%Q /\ llr4_float asym_x = (-7, -6) /\ llr4_float asym_y = (7, -7).
Proof. split; [vm_compute; reflexivity | vm_compute; auto]. Qed.

(** the driver's decoder of bit patterns agrees with Flocq's encoder on the data used above and on the special values *)
Example sf_of_bits_examples :
  forallb (fun x : binary32 => Z.eqb (bits_of_sf F32 (B2SF 24 128 x)) (bits_of_b32 x) &&
                               match sf_of_bits F32 (bits_of_b32 x), B2SF 24 128 x with
                               | S754_zero a, S754_zero b => Bool.eqb a b
                               | S754_infinity a, S754_infinity b => Bool.eqb a b
                               | S754_nan, S754_nan => true
                               | S754_finite a m e, S754_finite b m' e' => Bool.eqb a b && Pos.eqb m m' && Z.eqb e e'
                               | _, _ => false
                               end)
          (w3_32 :: w2a_32 :: w2b_32 :: asym_x :: asym_y :: p1_32 :: m1_32 :: p3_32 :: m3_32 :: B754_zero 24 128 false ::
           B754_zero 24 128 true :: B754_infinity 24 128 false :: B754_infinity 24 128 true ::
           f32 false 1 (-149) eq_refl :: f32 true 8388607 (-149) eq_refl :: f32 false 16777215 104 eq_refl :: nil) = true.
Proof. vm_compute. reflexivity. Qed.
