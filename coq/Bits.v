(** Bit-level helpers shared by the models: MSB-first byte <-> bit conversion,
    bitwise xor on lists, and the binary-splitting sweep used for finite domains. *)
From Coq Require Import NArith ZArith List Bool Lia Arith.
Import ListNotations.
Local Open Scope N_scope.

(** MSB-first bits of a byte, as the C++ reads them: (byte >> (7 - i)) & 1, i = 0..7 *)
Definition byte_bits (x : N) : list bool :=
  map (fun i => N.testbit x (N.of_nat (7 - i))) (seq 0 8).

Definition bytes_bits (l : list N) : list bool := flat_map byte_bits l.

Definition b2n (b : bool) : N := if b then 1 else 0.

(** MSB-first bits -> number *)
Definition bits_N (l : list bool) : N := fold_left (fun acc b => 2 * acc + b2n b) l 0.

(** pack a bit list into bytes MSB first; a trailing partial byte is left-aligned *)
Fixpoint pack_bits_fuel (fuel : nat) (l : list bool) : list N :=
  match fuel with
  | O => []
  | S f => match l with
           | [] => []
           | _ => bits_N (firstn 8 (l ++ repeat false 7)) :: pack_bits_fuel f (skipn 8 l)
           end
  end.
Definition pack_bits (l : list bool) : list N := pack_bits_fuel (length l) l.

Definition xor_bits (a b : list bool) : list bool := map (fun p => xorb (fst p) (snd p)) (combine a b).
Definition xor_bytes (a b : list N) : list N := map (fun p => N.lxor (fst p) (snd p)) (combine a b).

Definition is_byte (x : N) : Prop := x < 256.
Definition all_bytes (l : list N) : Prop := Forall is_byte l.

Lemma byte_bits_length x : length (byte_bits x) = 8%nat.
Proof. reflexivity. Qed.

Lemma bytes_bits_length l : length (bytes_bits l) = (8 * length l)%nat.
Proof. induction l as [|x l IH]; [reflexivity|].
  unfold bytes_bits in *. cbn [flat_map]. rewrite app_length, IH, byte_bits_length. cbn [length]. lia. Qed.

Lemma bytes_bits_app a b : bytes_bits (a ++ b) = bytes_bits a ++ bytes_bits b.
Proof. unfold bytes_bits. apply flat_map_app. Qed.

Lemma byte_bits_lxor x y : byte_bits (N.lxor x y) = xor_bits (byte_bits x) (byte_bits y).
Proof. unfold byte_bits, xor_bits. cbn [seq map combine fst snd]. rewrite !N.lxor_spec. reflexivity. Qed.

Lemma combine_app_eq {A B} (a : list A) : forall (c : list B) b d, length a = length c ->
  combine (a ++ b) (c ++ d) = combine a c ++ combine b d.
Proof. induction a as [|x a IH]; intros [|y c] b d H; try discriminate; [reflexivity|].
  cbn [app combine]. f_equal. apply IH. cbn in H; lia. Qed.

Lemma xor_bits_app a b c d : length a = length c ->
  xor_bits (a ++ b) (c ++ d) = xor_bits a c ++ xor_bits b d.
Proof. intros H. unfold xor_bits. rewrite combine_app_eq by exact H. apply map_app. Qed.

Lemma bytes_bits_xor a b : length a = length b ->
  bytes_bits (xor_bytes a b) = xor_bits (bytes_bits a) (bytes_bits b).
Proof. revert b; induction a as [|x a IH]; intros [|y b] H; try discriminate; [reflexivity|].
  unfold xor_bytes, bytes_bits in *. cbn [combine map flat_map fst snd].
  rewrite xor_bits_app by reflexivity. rewrite <- byte_bits_lxor. f_equal. apply IH. cbn in H; lia. Qed.

(** Binary-splitting sweep over all k-bit numbers (never through [seq 0 (2^k)]). *)
Fixpoint below (k : nat) (f : N -> bool) : bool :=
  match k with
  | O => f 0
  | S k => below k (fun x => f (2 * x)) && below k (fun x => f (2 * x + 1))
  end.

Lemma below_spec k : forall f, below k f = true -> forall x, x < 2 ^ (N.of_nat k) -> f x = true.
Proof. induction k as [|k IH]; intros f H x Hx.
- simpl in *. assert (x = 0) by lia. subst. exact H.
- cbn [below] in H. apply andb_prop in H. destruct H as [H0 H1].
  rewrite Nat2N.inj_succ, N.pow_succ_r' in Hx.
  destruct (N.even x) eqn:E.
  + apply N.even_spec in E. destruct E as [y ->]. apply (IH _ H0 y). lia.
  + assert (O : N.odd x = true) by (rewrite <- N.negb_even, E; reflexivity).
    apply N.odd_spec in O. destruct O as [y ->]. apply (IH _ H1 y). lia.
Qed.

Lemma below_false_witness k : forall f, below k f = false -> exists x, x < 2 ^ (N.of_nat k) /\ f x = false.
Proof. induction k as [|k IH]; intros f H.
- exists 0. split; [simpl; lia | exact H].
- cbn [below] in H. rewrite Nat2N.inj_succ, N.pow_succ_r'.
  apply andb_false_iff in H. destruct H as [H|H]; apply IH in H; destruct H as [y [Hy Hf]].
  + exists (2 * y). split; [lia | exact Hf].
  + exists (2 * y + 1). split; [lia | exact Hf].
Qed.

Lemma testbit_b2n_land_shiftr x i : N.land (N.shiftr x i) 1 = b2n (N.testbit x i).
Proof. rewrite N.land_ones with (n := 1). change (2 ^ 1) with 2.
  rewrite <- N.bit0_mod. rewrite N.shiftr_spec' . rewrite N.add_0_l.
  destruct (N.testbit x i); reflexivity. Qed.

(** Simulation of one fold by another through an abstraction function, under an invariant.
    Stated over section variables so that instantiating it never unfolds the step functions. *)
Section Sim.
Variables (A B C : Type) (f : A -> C -> A) (g : B -> C -> B) (abs : A -> B) (inv : A -> Prop).
Hypothesis Hstep : forall a c, inv a -> abs (f a c) = g (abs a) c /\ inv (f a c).
Lemma sim_fold : forall cs a, inv a -> abs (fold_left f cs a) = fold_left g cs (abs a) /\ inv (fold_left f cs a).
Proof. induction cs as [|c cs IH]; intros a Ha; [split; [reflexivity|exact Ha]|].
  cbn [fold_left]. destruct (Hstep a c Ha) as [E L]. rewrite <- E. apply IH. exact L. Qed.
End Sim.
Arguments sim_fold {A B C}.

(** Enumeration of all bit lists of a given length. *)
Fixpoint all_lists (k : nat) (f : list bool -> bool) : bool :=
  match k with
  | O => f []
  | S k => all_lists k (fun l => f (false :: l)) && all_lists k (fun l => f (true :: l))
  end.

Lemma all_lists_spec k : forall f, all_lists k f = true -> forall l, length l = k -> f l = true.
Proof. induction k as [|k IH]; intros f H l Hl.
- destruct l; [exact H|discriminate].
- destruct l as [|b l]; [discriminate|]. cbn [all_lists] in H. apply andb_prop in H. destruct H as [H0 H1].
  injection Hl as Hl. destruct b; [apply (IH _ H1 l Hl) | apply (IH _ H0 l Hl)].
Qed.

Lemma lxor_lt_pow2 a b n : a < 2 ^ n -> b < 2 ^ n -> N.lxor a b < 2 ^ n.
Proof. intros Ha Hb. destruct (N.eq_dec (N.lxor a b) 0) as [E|E].
- rewrite E. apply N.neq_0_lt_0. apply N.pow_nonzero. discriminate.
- apply N.log2_lt_pow2; [lia|]. pose proof (N.log2_lxor a b) as L.
  assert (Hn : n <> 0). { intros ->. simpl in *. assert (a = 0) by lia. assert (b = 0) by lia. subst. apply E. reflexivity. }
  assert (La : N.log2 a < n). { destruct (N.eq_dec a 0) as [->|Na]; [simpl; lia|]. apply N.log2_lt_pow2; lia. }
  assert (Lb : N.log2 b < n). { destruct (N.eq_dec b 0) as [->|Nb]; [simpl; lia|]. apply N.log2_lt_pow2; lia. }
  lia.
Qed.

Lemma lxor_cancel_r a c : N.lxor a c = a -> c = 0.
Proof. intros H. assert (E : N.lxor a (N.lxor a c) = 0) by (rewrite H; apply N.lxor_nilpotent).
  rewrite <- N.lxor_assoc, N.lxor_nilpotent, N.lxor_0_l in E. exact E. Qed.

Lemma land_lxor_distr_l a b c : N.land (N.lxor a b) c = N.lxor (N.land a c) (N.land b c).
Proof. apply N.bits_inj. intro n. rewrite N.land_spec, !N.lxor_spec, !N.land_spec.
  destruct (N.testbit a n), (N.testbit b n), (N.testbit c n); reflexivity. Qed.

Lemma div8_step n : (8 <= n -> (n - 8 + 7) / 8 + 1 = (n + 7) / 8)%nat.
Proof. intros H. replace (n + 7)%nat with ((n - 8 + 7) + 1 * 8)%nat by lia. rewrite Nat.div_add by lia. lia. Qed.
Lemma div8_small n : (1 <= n -> n < 8 -> (n + 7) / 8 = 1)%nat.
Proof. intros H1 H2. replace (n + 7)%nat with ((n - 1) + 1 * 8)%nat by lia. rewrite Nat.div_add by lia.
  rewrite Nat.div_small by lia. reflexivity. Qed.

Lemma pack_bits_fuel_length f : forall l, (length l <= f)%nat ->
  length (pack_bits_fuel f l) = ((length l + 7) / 8)%nat.
Proof. induction f as [|f IH]; intros l H.
- destruct l; [reflexivity | cbn in H; lia].
- destruct l as [|b l]; [reflexivity|].
  change (pack_bits_fuel (S f) (b :: l)) with
    (bits_N (firstn 8 ((b :: l) ++ repeat false 7)) :: pack_bits_fuel f (skipn 8 (b :: l))).
  cbn [length] in H.
  change (length (?x :: ?t)) with (S (length t)).
  rewrite IH by (rewrite skipn_length; cbn [length]; lia).
  rewrite skipn_length. cbn [length].
  set (n := S (length l)). assert (Hn : (1 <= n)%nat) by (subst n; lia). clearbody n.
  destruct (Nat.le_gt_cases 8 n) as [G|G].
  + rewrite <- (div8_step n G). lia.
  + rewrite (div8_small n Hn G). replace (n - 8)%nat with 0%nat by lia. reflexivity.
Qed.

Lemma pack_bits_length l : length (pack_bits l) = ((length l + 7) / 8)%nat.
Proof. apply pack_bits_fuel_length. lia. Qed.
