(** Puncturing as the M17 specification describes it: a puncture matrix is repeated cyclically
    over the encoder output; positions where it is 1 are transmitted, in order; the receiver puts
    each received value back at its position and marks every other position as an erasure (0).
    Written from the specification text, independent of the code. *)
From Coq Require Import NArith ZArith List Arith Bool.
Import ListNotations.

(** the matrices of the specification *)
Definition p1 : list N := concat (repeat [1; 1; 0; 1]%N 15) ++ [1%N].      (* 61 entries: 1,1,0,1 repeated, final 1 *)
Definition p2 : list N := [1; 1; 1; 1; 1; 1; 1; 1; 1; 1; 1; 0]%N.
Definition p3 : list N := [1; 1; 1; 1; 1; 1; 1; 0]%N.

(** the matrix repeated cyclically over n positions, from position s on *)
Definition mask_from (p : list N) (s n : nat) : list bool :=
  map (fun i => negb (N.eqb (nth (i mod length p) p 0%N) 0)) (seq s n).
Definition mask (p : list N) (n : nat) : list bool := mask_from p 0 n.

(** the elements at the positions where the mask is 1, in order *)
Fixpoint keep {A : Type} (m : list bool) (l : list A) : list A :=
  match m, l with
  | b :: m', x :: l' => if b then x :: keep m' l' else keep m' l'
  | _, _ => []
  end.

(** the received values put back at the positions where the mask is 1; the erasure value [e] at the
    other positions and where no received value is left *)
Fixpoint spread {A : Type} (e : A) (m : list bool) (l : list A) : list A :=
  match m with
  | [] => []
  | true :: m' => match l with
                  | x :: l' => x :: spread e m' l'
                  | [] => e :: spread e m' []
                  end
  | false :: m' => e :: spread e m' l
  end.

(** number of erasures [spread] inserts *)
Fixpoint erasures (m : list bool) (navail : nat) : nat :=
  match m with
  | [] => 0
  | true :: m' => match navail with
                  | S k => erasures m' k
                  | O => S (erasures m' 0)
                  end
  | false :: m' => S (erasures m' navail)
  end.

Definition count_true (m : list bool) : nat := length (filter (fun b => b) m).

(** the elements of [l] at the positions where [m] is 1, the erasure value elsewhere *)
Fixpoint erase_unkept {A : Type} (e : A) (m : list bool) (l : list A) : list A :=
  match m, l with
  | b :: m', x :: l' => (if b then x else e) :: erase_unkept e m' l'
  | _, _ => []
  end.
