(** Concrete, computed instances for the non-vacuity Examples of C05/C08/C01: frames built by the specification
    encoder (SpecM17.v) and decoded by the instantiated frame-decoder model. *)
From Coq Require Import NArith ZArith List Bool.
From M17 Require Import Bits ImplFrameDecoder FrameDecoderInst SpecM17.
Import ListNotations.

Fixpoint eq_listN (a b : list N) : bool :=
  match a, b with
  | [], [] => true
  | x :: a', y :: b' => N.eqb x y && eq_listN a' b'
  | _, _ => false
  end.

Definition soft7 (bits : list bool) : list Z := map (fun b : bool => if b then 7%Z else (-7)%Z) bits.
(* "AB1CD" -> "XY9Z", CAN 7 *)
Definition ex_src : list N := [65; 66; 49; 67; 68]%N.
Definition ex_dst : list N := [88; 89; 57; 90]%N.
Definition ex_lsf : list N := spec_lsf ex_dst ex_src 7.
Definition ex_payload : list N := map N.of_nat (seq 0 16).

Definition ex_frag_frame (n : N) : sync * list Z * bool :=
  (SStream, soft7 (spec_stream_frame ex_lsf n n ex_payload false), true).

(* six clean fragments in the order 3,1,0,2,5,4 from a fresh decoder: the last call reports the LSF *)
Definition fd_example_reassembly_ok : bool :=
  let '(obs, s) := fd_run fd_init (map ex_frag_frame [3; 1; 0; 2; 5; 4]%N) in
  match rev obs with
  | (m, r, c, cbs) :: _ =>
      match m, r, cbs with
      | MStream, ROk, [cb1; cb2] =>
          (eq_listN (cb_bytes cb2) ex_lsf) && (N.eqb (d_seg _ s) 0) &&
          match cb_type cb2 with FLsf => true | _ => false end
      | _, _, _ => false
      end
  | [] => false
  end.

(* a packet-type link setup frame (TYPE = 0x0002: packet, raw data), then a packet frame without and one with the EOF bit:
   observations (BASIC, OK, [LSF]), (BASIC, PACKET_INCOMPLETE, [BASIC]), (LSF, OK, [BASIC]) *)
Definition ex_packet_lsf : list N :=
  let body := spec_address ex_dst ++ spec_address ex_src ++ [0; 2]%N ++ repeat 0%N 14 in
  body ++ be_bytes 2 (crc30 body).
Definition ex_packet_history : list (sync * list Z * bool) :=
  [ (SLsf, soft7 (spec_lsf_frame ex_packet_lsf), true);
    (SPacket, soft7 (spec_packet_frame (map N.of_nat (seq 0 25)) false 0), true);
    (SPacket, soft7 (spec_packet_frame (map N.of_nat (seq 100 25)) true 25), true) ].
Definition fd_example_packet_ok : bool :=
  match fst (fd_run fd_init ex_packet_history) with
  | [ (MBasic, ROk, Some 0%Z, [cb0]); (MBasic, RPacketIncomplete, Some 0%Z, [cb1]); (MLsf, ROk, Some 0%Z, [cb2]) ] =>
      eq_listN (cb_bytes cb0) ex_packet_lsf &&
      match cb_type cb0, cb_type cb1, cb_type cb2 with FLsf, FBasic, FBasic => true | _, _, _ => false end &&
      eq_listN (firstn 25 (cb_bytes cb1)) (map N.of_nat (seq 0 25)) && N.eqb (N.land (nth 25 (cb_bytes cb1) 0%N) 128) 0 &&
      eq_listN (firstn 25 (cb_bytes cb2)) (map N.of_nat (seq 100 25))
  | _ => false
  end.
