(** Concrete, computed instances for the non-vacuity Examples of C05/C08/C01: frames built by the specification
    encoder (SpecM17.v) and decoded by the instantiated frame-decoder model. *)
From Coq Require Import NArith ZArith List Bool.
From M17 Require Import Bits ImplFrameDecoder FrameDecoderInst SpecM17.
Import ListNotations.

Fixpoint eq_listN (a b : list N) : bool :=
  match a, b with
  | [], [] => true
  | x :: a', y :: b' => N.eqb x y && eq_listN a' b'
  | _, _ => false
  end.

Definition soft7 (bits : list bool) : list Z := map (fun b : bool => if b then 7%Z else (-7)%Z) bits.
(* "AB1CD" -> "XY9Z", CAN 7 *)
Definition ex_src : list N := [65; 66; 49; 67; 68]%N.
Definition ex_dst : list N := [88; 89; 57; 90]%N.
Definition ex_lsf : list N := spec_lsf ex_dst ex_src 7.
Definition ex_payload : list N := map N.of_nat (seq 0 16).

Definition ex_frag_frame (n : N) : sync * list Z * bool :=
  (SStream, soft7 (spec_stream_frame ex_lsf n n ex_payload false), true).

(* six clean fragments in the order 3,1,0,2,5,4 from a fresh decoder: the last call reports the LSF *)
Definition fd_example_reassembly_ok : bool :=
  let '(obs, s) := fd_run fd_init (map ex_frag_frame [3; 1; 0; 2; 5; 4]%N) in
  match rev obs with
  | (m, r, c, cbs) :: _ =>
      match m, r, cbs with
      | MStream, ROk, [cb1; cb2] =>
          (eq_listN (cb_bytes cb2) ex_lsf) && (N.eqb (d_seg _ s) 0) &&
          match cb_type cb2 with FLsf => true | _ => false end
      | _, _, _ => false
      end
  | [] => false
  end.
