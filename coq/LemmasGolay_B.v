(** Golay, sweeps over the 4096 data words and the 2048 low-order words; linearity of the encoders;
    a 23-bit word with zero syndrome is a codeword; minimum distance 8. *)
From Coq Require Import NArith List Bool Lia.
From M17 Require Import Bits ConstsGolay ImplGolay SpecGolay LemmasGolay_A.
Import ListNotations.
Local Open Scope N_scope.

(** ** sweeps (each over all d < 2^12) *)
Lemma sw_enc23_xor : below 12 (fun d => encode23 d =? N.lxor (enc_rem d) (N.shiftl d 11)) = true.
Proof. vm_compute. reflexivity. Qed.
Lemma sw_enc23_lt : below 12 (fun d => encode23 d <? 2 ^ 23) = true.
Proof. vm_compute. reflexivity. Qed.
Lemma sw_enc23_data : below 12 (fun d => N.shiftr (encode23 d) 11 =? d) = true.
Proof. vm_compute. reflexivity. Qed.
Lemma sw_enc23_syn : below 12 (fun d => syndrome (encode23 d) =? 0) = true.
Proof. vm_compute. reflexivity. Qed.
Lemma sw_enc24_xor : below 12 (fun d => encode24 d =? N.lxor (N.shiftl (encode23 d) 1) (b2n (parity (encode23 d)))) = true.
Proof. vm_compute. reflexivity. Qed.
Lemma sw_enc24_shr : below 12 (fun d => N.shiftr (encode24 d) 1 =? encode23 d) = true.
Proof. vm_compute. reflexivity. Qed.
Lemma sw_enc24_bit0 : below 12 (fun d => Bool.eqb (N.testbit (encode24 d) 0) (parity (encode23 d))) = true.
Proof. vm_compute. reflexivity. Qed.
Lemma sw_enc24_par : below 12 (fun d => negb (parity (encode24 d))) = true.
Proof. vm_compute. reflexivity. Qed.
Lemma sw_enc24_data : below 12 (fun d => N.shiftr (encode24 d) 12 =? d) = true.
Proof. vm_compute. reflexivity. Qed.
Lemma sw_enc24_lt : below 12 (fun d => encode24 d <? 2 ^ 24) = true.
Proof. vm_compute. reflexivity. Qed.
Lemma sw_enc24_w8 : below 12 (fun d => (d =? 0) || (8 <=? popcount (encode24 d))) = true.
Proof. vm_compute. reflexivity. Qed.
Lemma sw_enc24_spec : below 12 (fun d => encode24 d =? spec_encode24 d) = true.
Proof. vm_compute. reflexivity. Qed.
Lemma sw_enc23_spec : below 12 (fun d => encode23 d =? spec_encode23 d) = true.
Proof. vm_compute. reflexivity. Qed.
Lemma sw_enc24_member : below 12 (fun d => spec_is_codeword24 (encode24 d)) = true.
Proof. vm_compute. reflexivity. Qed.
Lemma sw_enc24_even : below 12 (fun d => (weight (encode24 d)) mod 2 =? 0) = true.
Proof. vm_compute. reflexivity. Qed.
(** among the words with 12 zero data bits only 0 has syndrome 0 *)
Lemma sw_low_syn : below 11 (fun y => negb (syndrome y =? 0) || (y =? 0)) = true.
Proof. vm_compute. reflexivity. Qed.
(** the generator-matrix rows tabulated for M17 *)
Lemma spec_matrix_ok :
  map (fun i => spec_encode24 (N.shiftl 1 (N.of_nat i))) (seq 0 12) =
  map (fun p => N.lor (N.shiftl (N.shiftl 1 (N.of_nat (fst p))) 12) (snd p)) (combine (seq 0 12) spec_matrix).
Proof. vm_compute. reflexivity. Qed.
(** g divides x^23 + 1: the code is cyclic *)
Lemma g_divides_x23_1 : pmod 13 (2 ^ 23 + 1) = 0.
Proof. vm_compute. reflexivity. Qed.

Local Opaque encode23 encode24 syndrome parity popcount enc_rem spec_encode24 spec_encode23 spec_is_codeword24 weight.

Definition D12 (d : N) : Prop := d < 4096.

Lemma enc23_xor d : d < 4096 -> encode23 d = N.lxor (enc_rem d) (N.shiftl d 11).
Proof. exact (below_eqb 12 _ _ sw_enc23_xor d). Qed.
Lemma enc23_lt d : d < 4096 -> encode23 d < 2 ^ 23.
Proof. intros H. apply N.ltb_lt. exact (below_spec 12 _ sw_enc23_lt d H). Qed.
Lemma enc23_data d : d < 4096 -> N.shiftr (encode23 d) 11 = d.
Proof. exact (below_eqb 12 _ _ sw_enc23_data d). Qed.
Lemma enc23_syn d : d < 4096 -> syndrome (encode23 d) = 0.
Proof. exact (below_eqb 12 _ (fun _ => 0) sw_enc23_syn d). Qed.
Lemma enc24_xor d : d < 4096 -> encode24 d = N.lxor (N.shiftl (encode23 d) 1) (b2n (parity (encode23 d))).
Proof. exact (below_eqb 12 _ _ sw_enc24_xor d). Qed.
Lemma enc24_shr d : d < 4096 -> N.shiftr (encode24 d) 1 = encode23 d.
Proof. exact (below_eqb 12 _ _ sw_enc24_shr d). Qed.
Lemma enc24_bit0 d : d < 4096 -> N.testbit (encode24 d) 0 = parity (encode23 d).
Proof. intros H. apply Bool.eqb_prop. exact (below_spec 12 _ sw_enc24_bit0 d H). Qed.
Lemma enc24_par d : d < 4096 -> parity (encode24 d) = false.
Proof. intros H. apply negb_true_iff. exact (below_spec 12 _ sw_enc24_par d H). Qed.
Lemma enc24_data d : d < 4096 -> N.shiftr (encode24 d) 12 = d.
Proof. exact (below_eqb 12 _ _ sw_enc24_data d). Qed.
Lemma enc24_lt d : d < 4096 -> encode24 d < 2 ^ 24.
Proof. intros H. apply N.ltb_lt. exact (below_spec 12 _ sw_enc24_lt d H). Qed.
Lemma enc24_w8 d : d < 4096 -> d <> 0 -> 8 <= popcount (encode24 d).
Proof. intros H NZ. pose proof (below_spec 12 _ sw_enc24_w8 d H) as S. cbv beta in S.
  apply orb_true_iff in S. destruct S as [S|S]; [apply N.eqb_eq in S; contradiction | apply N.leb_le; exact S]. Qed.
Lemma enc24_spec d : d < 4096 -> encode24 d = spec_encode24 d.
Proof. exact (below_eqb 12 _ _ sw_enc24_spec d). Qed.
Lemma enc23_spec d : d < 4096 -> encode23 d = spec_encode23 d.
Proof. exact (below_eqb 12 _ _ sw_enc23_spec d). Qed.
Lemma enc24_member d : d < 4096 -> spec_is_codeword24 (encode24 d) = true.
Proof. exact (below_spec 12 _ sw_enc24_member d). Qed.
Lemma enc24_even d : d < 4096 -> (weight (encode24 d)) mod 2 = 0.
Proof. exact (below_eqb 12 (fun d => (weight (encode24 d)) mod 2) (fun _ => 0) sw_enc24_even d). Qed.
Lemma low_syn y : y < 2048 -> syndrome y = 0 -> y = 0.
Proof. intros H S. pose proof (below_spec 11 _ sw_low_syn y H) as T. cbv beta in T.
  apply orb_true_iff in T. destruct T as [T|T]; [|apply N.eqb_eq; exact T].
  rewrite S in T. discriminate T. Qed.

Lemma lxor_lt12 a b : a < 4096 -> b < 4096 -> N.lxor a b < 4096.
Proof. apply (lxor_lt_pow2 a b 12). Qed.

(** ** encode_linear *)
Lemma encode23_lxor a b : a < 4096 -> b < 4096 ->
  encode23 (N.lxor a b) = N.lxor (encode23 a) (encode23 b).
Proof. intros Ha Hb. rewrite !enc23_xor by (try apply lxor_lt12; assumption).
  rewrite enc_rem_lxor, N.shiftl_lxor.
  generalize (enc_rem a) (enc_rem b) (N.shiftl a 11) (N.shiftl b 11). intros p q r s. xor_bits. Qed.

Lemma encode24_lxor a b : a < 4096 -> b < 4096 ->
  encode24 (N.lxor a b) = N.lxor (encode24 a) (encode24 b).
Proof. intros Ha Hb. rewrite !enc24_xor by (try apply lxor_lt12; assumption).
  rewrite encode23_lxor by assumption. rewrite parity_lxor, b2n_xorb, N.shiftl_lxor.
  generalize (N.shiftl (encode23 a) 1) (N.shiftl (encode23 b) 1) (b2n (parity (encode23 a))) (b2n (parity (encode23 b))).
  intros p q r s. xor_bits. Qed.

(** ** a 23-bit word whose syndrome is 0 is the codeword of its top 12 bits *)
Lemma shiftr_0_lt x n : N.shiftr x n = 0 -> x < 2 ^ n.
Proof. intros H. rewrite N.shiftr_div_pow2 in H.
  assert (P : 2 ^ n <> 0) by (apply N.pow_nonzero; discriminate).
  pose proof (N.div_mod x (2 ^ n) P) as E. rewrite H in E.
  pose proof (N.mod_lt x (2 ^ n) P). lia. Qed.

Lemma zero_syndrome_is_codeword x : x < 2 ^ 23 -> syndrome x = 0 -> x = encode23 (N.shiftr x 11).
Proof. intros Hx S.
  assert (Hd : N.shiftr x 11 < 4096) by (apply (shiftr_lt x 12 11); exact Hx).
  set (d := N.shiftr x 11) in *.
  apply N.lxor_eq. apply low_syn.
  - apply (shiftr_0_lt _ 11). rewrite N.shiftr_lxor. fold d. rewrite enc23_data by exact Hd. apply N.lxor_nilpotent.
  - rewrite syndrome_lxor, S, enc23_syn by exact Hd. reflexivity.
Qed.

(** ** minimum distance 8 *)
Lemma min_distance_8 a b : a < 4096 -> b < 4096 -> a <> b -> 8 <= popcount (N.lxor (encode24 a) (encode24 b)).
Proof. intros Ha Hb Hab. rewrite <- encode24_lxor by assumption. apply enc24_w8; [apply lxor_lt12; assumption|].
  intros E. apply Hab. apply N.lxor_eq. exact E. Qed.
