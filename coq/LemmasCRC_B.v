(** CRC (specification side): linearity over GF(2), residue zero, and detection of
    every burst of span <= 16, every single and every double error at distance <= 239,
    for messages of any length. *)
From Coq Require Import NArith List Bool Lia Arith.
From M17 Require Import Bits SpecCRC.
Import ListNotations.
Local Open Scope N_scope.

Notation P := m17_poly.

(* ---------- range ---------- *)
Lemma direct_bit_lt r b : direct_bit P r b < 65536.
Proof. unfold direct_bit.
  assert (L : N.land (N.shiftl r 1) 65535 < 2 ^ 16).
  { change 65535 with (N.ones 16). rewrite N.land_ones. apply N.mod_lt. discriminate. }
  destruct (xorb (N.testbit r 15) b); [|exact L].
  apply (lxor_lt_pow2 _ _ 16 L). reflexivity. Qed.

Lemma direct_bits_lt bits : forall r, r < 65536 -> direct_bits P r bits < 65536.
Proof. induction bits as [|b bits IH]; intros r H; [exact H|].
  unfold direct_bits in *. cbn [fold_left]. apply IH. apply direct_bit_lt. Qed.

(* ---------- linearity ---------- *)
Lemma lxor_pp a b p : N.lxor (N.lxor a p) (N.lxor b p) = N.lxor a b.
Proof. rewrite (N.lxor_comm b p), N.lxor_assoc, <- (N.lxor_assoc p p b), N.lxor_nilpotent, N.lxor_0_l. reflexivity. Qed.
Lemma lxor_p1 a b p : N.lxor (N.lxor a p) b = N.lxor (N.lxor a b) p.
Proof. rewrite !N.lxor_assoc, (N.lxor_comm p b). reflexivity. Qed.
Lemma lxor_p2 a b p : N.lxor a (N.lxor b p) = N.lxor (N.lxor a b) p.
Proof. rewrite N.lxor_assoc. reflexivity. Qed.

Lemma direct_bit_linear r1 r2 b1 b2 :
  direct_bit P (N.lxor r1 r2) (xorb b1 b2) = N.lxor (direct_bit P r1 b1) (direct_bit P r2 b2).
Proof. unfold direct_bit. rewrite N.lxor_spec, N.shiftl_lxor, land_lxor_distr_l.
  set (A := N.land (N.shiftl r1 1) 65535). set (B := N.land (N.shiftl r2 1) 65535). set (p := P).
  clearbody A B p.
  (* never [reflexivity] on unequal symbolic N terms (conversion on N.lxor does not return): go to bits *)
  destruct (N.testbit r1 15), (N.testbit r2 15), b1, b2; cbn [xorb];
    apply N.bits_inj; intro n; rewrite ?N.lxor_spec;
    destruct (N.testbit A n), (N.testbit B n), (N.testbit p n); exact eq_refl. Qed.

Lemma direct_bits_linear m : forall e r1 r2, length m = length e ->
  direct_bits P (N.lxor r1 r2) (xor_bits m e) = N.lxor (direct_bits P r1 m) (direct_bits P r2 e).
Proof. induction m as [|b m IH]; intros [|c e] r1 r2 H; try discriminate; [reflexivity|].
  unfold xor_bits, direct_bits in *. cbn [combine map fold_left fst snd].
  rewrite direct_bit_linear. apply IH. cbn in H; lia. Qed.

Lemma crc_affine m e : length m = length e ->
  m17_crc (xor_bytes m e) = N.lxor (m17_crc m) (crc0_bits P (bytes_bits e)).
Proof. intros H. unfold m17_crc, crc_direct, crc0_bits. rewrite bytes_bits_xor by exact H.
  rewrite <- direct_bits_linear by (rewrite !bytes_bits_length; lia).
  rewrite N.lxor_0_r. reflexivity. Qed.

Lemma changes_if_crc0_nonzero m e : length m = length e ->
  crc0_bits P (bytes_bits e) <> 0 -> m17_crc (xor_bytes m e) <> m17_crc m.
Proof. intros H Nz E. rewrite crc_affine in E by exact H. apply lxor_cancel_r in E. exact (Nz E). Qed.

(* ---------- zero register ---------- *)
Lemma zeros_keep_zero n : direct_bits P 0 (repeat false n) = 0.
Proof. induction n as [|n IH]; [reflexivity|]. unfold direct_bits in *. cbn [repeat fold_left]. exact IH. Qed.

Definition ok_step0 (r : N) : bool := (r =? 0) || negb (direct_bit P r false =? 0).
Lemma sweep_step0 : below 16 ok_step0 = true.
Proof. vm_cast_no_check (eq_refl true). Qed.

Definition ok_window (w : list bool) : bool := negb (existsb (fun b => b) w) || negb (direct_bits P 0 w =? 0).
Lemma sweep_window : all_lists 16 ok_window = true.
Proof. vm_cast_no_check (eq_refl true). Qed.

Definition ok_self (c : N) : bool := direct_bits P c (bytes_bits (crc_hi_lo c)) =? 0.
Lemma sweep_self : below 16 ok_self = true.
Proof. vm_cast_no_check (eq_refl true). Qed.

(* double errors: after the first error bit the register is [direct_bit 0 true]; d-1 zero steps;
   the second error bit must not clear it *)
Definition step0 (r : N) : N := direct_bit P r false.
Definition max_double_distance : nat := 239.
Definition ok_double (d : nat) : bool :=
  negb (direct_bit P (Nat.iter d step0 (direct_bit P 0 true)) true =? 0).
Lemma sweep_double : forallb ok_double (seq 0 max_double_distance) = true.
Proof. vm_cast_no_check (eq_refl true). Qed.

Opaque direct_bit.

Lemma step0_nonzero r : r < 65536 -> r <> 0 -> direct_bit P r false <> 0.
Proof. intros H Nz. pose proof (below_spec 16 ok_step0 sweep_step0 r H) as S. unfold ok_step0 in S.
  apply orb_prop in S. destruct S as [S|S].
  - apply N.eqb_eq in S. contradiction.
  - apply negb_true_iff in S. apply N.eqb_neq in S. exact S. Qed.

Lemma zeros_keep_nonzero n : forall r, r < 65536 -> r <> 0 -> direct_bits P r (repeat false n) <> 0.
Proof. induction n as [|n IH]; intros r H Nz; [exact Nz|].
  unfold direct_bits in *. cbn [repeat fold_left]. apply IH; [apply direct_bit_lt | apply step0_nonzero; assumption]. Qed.

Lemma window16_nonzero w : length w = 16%nat -> existsb (fun b => b) w = true -> direct_bits P 0 w <> 0.
Proof. intros L E. pose proof (all_lists_spec 16 ok_window sweep_window w L) as S. unfold ok_window in S.
  rewrite E in S. cbn [negb orb] in S. apply negb_true_iff in S. apply N.eqb_neq in S. exact S. Qed.

Lemma existsb_app_false n w : existsb (fun b : bool => b) (repeat false n ++ w) = existsb (fun b => b) w.
Proof. induction n as [|n IH]; [reflexivity|]. cbn [repeat app existsb]. exact IH. Qed.

Lemma window_nonzero w : (length w <= 16)%nat -> existsb (fun b => b) w = true -> direct_bits P 0 w <> 0.
Proof. intros L E.
  assert (H : direct_bits P 0 (repeat false (16 - length w) ++ w) <> 0).
  { apply window16_nonzero; [rewrite app_length, repeat_length; lia | rewrite existsb_app_false; exact E]. }
  unfold direct_bits in *. rewrite fold_left_app in H.
  fold (direct_bits P 0 (repeat false (16 - length w))) in H. rewrite zeros_keep_zero in H. exact H. Qed.

(** every non-zero error pattern confined to a window of <= 16 bits, at any offset, any length *)
Lemma burst_nonzero a w b : (length w <= 16)%nat -> existsb (fun x => x) w = true ->
  crc0_bits P (repeat false a ++ w ++ repeat false b) <> 0.
Proof. intros L E. unfold crc0_bits, direct_bits. rewrite !fold_left_app.
  fold (direct_bits P 0 (repeat false a)). rewrite zeros_keep_zero.
  fold (direct_bits P 0 w). fold (direct_bits P (direct_bits P 0 w) (repeat false b)).
  apply zeros_keep_nonzero; [apply direct_bits_lt; reflexivity | apply window_nonzero; assumption]. Qed.

Lemma iter_step0 d : forall r, direct_bits P r (repeat false d) = Nat.iter d step0 r.
Proof. induction d as [|d IH]; intros r; [reflexivity|].
  replace (S d) with (d + 1)%nat by lia. rewrite repeat_app. unfold direct_bits in *. rewrite fold_left_app.
  rewrite IH. cbn [repeat fold_left]. rewrite Nat.add_comm. reflexivity. Qed.

(** every double error whose two bits are d+1 positions apart, d < 239 (so any two of 240 bits) *)
Lemma double_nonzero a d b : (d < max_double_distance)%nat ->
  crc0_bits P (repeat false a ++ [true] ++ repeat false d ++ [true] ++ repeat false b) <> 0.
Proof. intros Hd. unfold crc0_bits, direct_bits. rewrite !fold_left_app.
  fold (direct_bits P 0 (repeat false a)). rewrite zeros_keep_zero.
  cbn [fold_left].
  fold (direct_bits P (direct_bit P 0 true) (repeat false d)). rewrite iter_step0.
  match goal with |- fold_left _ _ ?r <> 0 => fold (direct_bits P r (repeat false b)) end.
  apply zeros_keep_nonzero; [apply direct_bit_lt|].
  pose proof sweep_double as S. rewrite forallb_forall in S.
  specialize (S d). unfold ok_double in S. 
  assert (In d (seq 0 max_double_distance)) as I by (apply in_seq; lia).
  apply S in I. apply negb_true_iff in I. apply N.eqb_neq in I. exact I. Qed.

(** a message followed by its CRC (high byte first) checks to zero *)
Lemma residue_zero m : m17_crc (m ++ crc_hi_lo (m17_crc m)) = 0.
Proof. unfold m17_crc at 1. unfold crc_direct. rewrite bytes_bits_app. unfold direct_bits. rewrite fold_left_app.
  fold (direct_bits P m17_init (bytes_bits m)). fold (crc_direct P m17_init m). fold (m17_crc m).
  assert (L : m17_crc m < 65536) by (apply direct_bits_lt; reflexivity).
  pose proof (below_spec 16 ok_self sweep_self _ L) as S. unfold ok_self in S. apply N.eqb_eq in S. exact S. Qed.
