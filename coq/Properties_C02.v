(** C02 — Viterbi decoding is maximum-likelihood and its cost is the true path metric.
    Only the property theorems (each closed by [exact]) and their Print Assumptions.
    Model: ImplViterbi.v (mirror of Viterbi.h / Convolution.h / Util.h on the regenerated constants of ConstsViterbi);
    specification: SpecConv.v (M17 convolutional code, soft distance, free distance); geometries: ViterbiGeom.v.

    Reading of the property (DESIGN.md §4 C02): the decoder minimises over ALL IN/2-bit input sequences — the four
    flush bits are free — and reports the first OUT bits of a minimiser.  That is what is proved.  The other reading
    (optimal among zero-terminated code words) is false of this decoder by design: [c02_viterbi_terminated_ml_refuted]. *)
From Coq Require Import NArith ZArith List Bool Arith.
From M17 Require Import Bits ConstsViterbi ImplViterbi SpecConv ViterbiGeom
  LemmasVit_DP LemmasVit_Tables LemmasVit_Step LemmasVit_Loop LemmasVit_ML LemmasVit_Free LemmasVit_Geom.
Import ListNotations.
Local Open Scope Z_scope.

(** 0. the specification's encoder (G1 = 1+D^3+D^4, G2 = 1+D+D^2+D^4) is what convolve_bit computes with the
       polynomials regenerated from M17FrameDecoder.h, on the encoder memory (state << 1 | input) *)
Theorem c02_spec_encoder_is_convolve_bit : forall d1 d2 d3 d4 b : bool,
  let memory := N.of_nat (2 * st_of d1 d2 d3 d4 + b2nat b) in
  convolve_bit (nth 0 vit_polys 0%N) memory = b2n (xorb b (xorb d3 d4)) /\
  convolve_bit (nth 1 vit_polys 0%N) memory = b2n (xorb b (xorb d1 (xorb d2 d4))).
Proof. exact convolve_bit_is_spec. Qed.
Print Assumptions c02_spec_encoder_is_convolve_bit.

(** 1. generic layered dynamic programme: forward relaxation with stored decisions, then traceback from an end state of
       least metric, yields a path that is optimal among all paths from all start states (start penalties [m]) *)
Theorem c02_layered_dp_optimal :
  forall (NS : nat) (nx pv : nat -> bool -> nat) (inb : nat -> bool) (pick : nat -> Z -> Z -> bool),
  (forall s b, (s < NS)%nat -> (nx s b < NS)%nat) ->
  (forall s d, (s < NS)%nat -> (pv s d < NS)%nat) ->
  (forall s d, (s < NS)%nat -> nx (pv s d) (inb s) = s) ->
  (forall s b, (s < NS)%nat -> exists d, pv (nx s b) d = s /\ inb (nx s b) = b) ->
  (forall s a0 a1, if pick s a0 a1 then a1 <= a0 else a0 <= a1) ->
  forall (cs : list cost) (m : list Z) (s_best : nat) (m2 : list Z) (h : list (list bool)) (s0 : nat) (bits : list bool),
  forward NS pv inb pick m cs = (m2, h) -> (s_best < NS)%nat ->
  (forall s, (s < NS)%nat -> nth s_best m2 0 <= nth s m2 0) ->
  traceR pv inb (rev h) s_best [] = (s0, bits) ->
  (s0 < NS)%nat /\ length bits = length cs /\ run nx s0 bits = s_best /\
  nth s_best m2 0 = nth s0 m 0 + pcost nx s0 bits cs /\
  forall s0' bits', (s0' < NS)%nat -> length bits' = length cs ->
    nth s0 m 0 + pcost nx s0 bits cs <= nth s0' m 0 + pcost nx s0' bits' cs.
Proof. exact dp_optimal. Qed.
Print Assumptions c02_layered_dp_optimal.

(** 2. one pass of the eight butterflies (with the erasure-skipping branch costs) is that relaxation on the M17
       trellis with the specification's soft distances as branch costs; for every tie-break rule and width *)
Theorem c02_acs_is_relaxation : forall (tb : tiebreak) (W : nat) (st : scratch) (hindex : nat) (s0 s1 : Z),
  (2 <= W <= 6)%nat -> length (sc_curr st) = 16%nat ->
  let st' := vit_step tb (makeCost W) makeNextState st hindex s0 s1 in
  let c := fun s b => sdist (soft_limit W) s0 (out1 s b) + sdist (soft_limit W) s1 (out2 s b) in
  sc_prev st' = map fst (relax 16 pv16 inb16 (pick16 tb) (sc_prev st) c) /\
  (exists x, sc_hist st' = upd (sc_hist st) hindex x /\
             map (get_bit x) (seq 0 16) = map snd (relax 16 pv16 inb16 (pick16 tb) (sc_prev st) c)) /\
  sc_curr st' = sc_prev st.
Proof. exact acs_is_relaxation. Qed.
Print Assumptions c02_acs_is_relaxation.

(** 3. no int16 / int32 value of the forward pass leaves its range, for every int8 input and IN/2 <= 244: table entries,
       each |cost_[j][o] -/+ s|, the accumulated branch costs (int16), the survivor metrics and the four sums of every
       butterfly (int32: at most 1073741823 + 77592 < 2^31).  So the Z arithmetic of the model is the C++ arithmetic. *)
Theorem c02_no_wrap : forall (tb : tiebreak) (W : nat) (sc : scratch) (r : list Z) (n t j : nat),
  (2 <= W <= 6)%nat -> wf_scratch sc -> (n <= 244)%nat -> Forall (fun x => -128 <= x <= 127) r ->
  (t < n)%nat -> (j < 8)%nat ->
  let st := vit_forward tb W sc r t in
  let s0 := nth (2 * t) r 0 in
  let s1 := nth (2 * t + 1) r 0 in
  let cost0 := map (branch_cost0 (makeCost W) s0 s1) (seq 0 HalfStates) in
  let cost1 := map (branch_cost1 (makeCost W) s0 s1) (seq 0 HalfStates) in
  (forall o, (o < 2)%nat -> -31 <= nth o (nth j (makeCost W) []) 0 <= 31) /\
  (forall o s, (o < 2)%nat -> -128 <= s <= 127 ->
      0 <= Z.abs (nth o (nth j (makeCost W) []) 0 - s) <= 159 /\ 0 <= Z.abs (nth o (nth j (makeCost W) []) 0 + s) <= 159) /\
  0 <= nth j cost0 0 <= 318 /\ 0 <= nth j cost1 0 <= 318 /\
  (forall s, (s < 16)%nat -> 0 <= nth s (sc_prev st) 0 <= MAX_METRIC + 318 * Z.of_nat t) /\
  0 <= bf_m0 (sc_prev st) cost0 cost1 j <= 1073741823 + 77592 /\
  0 <= bf_m1 (sc_prev st) cost0 cost1 j <= 1073741823 + 77592 /\
  0 <= bf_m2 (sc_prev st) cost0 cost1 j <= 1073741823 + 77592 /\
  0 <= bf_m3 (sc_prev st) cost0 cost1 j <= 1073741823 + 77592.
Proof. exact no_wrap_lemma. Qed.
Print Assumptions c02_no_wrap.

(** 4. MAXIMUM LIKELIHOOD.  For every width 2..6, every even IN with IN/2 <= 244, every OUT <= IN/2, every vector of IN
       int8 soft bits (0 = erasure, values beyond +-L allowed), every state of the decoder object and output buffer:
       the bits written are the first OUT bits of an input word w whose code word is at minimum soft distance among ALL
       2^(IN/2) input words, the cost is that minimum divided by L rounded to nearest — and the result is the same from
       every other object state / output buffer. *)
Theorem c02_viterbi_ml :
  forall (W IN OUT : nat) (sc : scratch) (out0 : list N) (r : list Z) (out : list N) (cost : Z),
  (2 <= W <= 6)%nat -> Nat.even IN = true -> (IN / 2 <= 244)%nat -> (OUT <= IN / 2)%nat ->
  wf_scratch sc -> length out0 = OUT -> length r = IN -> Forall (fun x => -128 <= x <= 127) r ->
  fst (decode W IN OUT sc out0 r) = (out, cost) ->
  let L := soft_limit W in
  (exists w : list bool, length w = (IN / 2)%nat /\ map b2n (firstn OUT w) = out /\
     (forall w', length w' = (IN / 2)%nat -> dist L r (conv w) <= dist L r (conv w')) /\
     cost = (2 * dist L r (conv w) + L) / (2 * L) /\ nearest (dist L r (conv w)) L cost) /\
  (forall sc' out0', wf_scratch sc' -> length out0' = OUT -> fst (decode W IN OUT sc' out0' r) = (out, cost)).
Proof. exact (viterbi_ml_gen source_tiebreak). Qed.
Print Assumptions c02_viterbi_ml.

(** margins behind modelling  size_t(std::round(min_cost / float(llr_limit)))  as (2 min + L) / (2 L): the exact
    quotient min/L stays at least 1/(2L) away from every half-integer (L odd), and min < 2^23 so that the int -> float
    conversion is exact and a correctly rounded float division errs by less than 1/(2L).  ([c02_no_wrap] and
    [c02_viterbi_ml] give 0 <= min <= 318 * 244 = 77592.)  The IEEE operations themselves are not modelled. *)
Theorem c02_cost_rounding_margin : forall m L k : Z, 0 <= m <= 77592 -> 1 <= L <= 31 -> Z.odd L = true ->
  1 <= Z.abs (2 * m - (2 * k + 1) * L) /\ 2 * m < 2 ^ 24.
Proof. exact cost_rounding_margin. Qed.
Print Assumptions c02_cost_rounding_margin.

(** the same for every way of breaking ties in the two butterfly comparisons and the end-state scan
    (so a [>] -> [>=] rewrite of the source stays inside the proved class) *)
Theorem c02_viterbi_ml_any_tiebreak :
  forall (tb : tiebreak) (W IN OUT : nat) (sc : scratch) (out0 : list N) (r : list Z) (out : list N) (cost : Z),
  (2 <= W <= 6)%nat -> Nat.even IN = true -> (IN / 2 <= 244)%nat -> (OUT <= IN / 2)%nat ->
  wf_scratch sc -> length out0 = OUT -> length r = IN -> Forall (fun x => -128 <= x <= 127) r ->
  fst (decode_gen tb W IN OUT sc out0 r) = (out, cost) ->
  let L := soft_limit W in
  (exists w : list bool, length w = (IN / 2)%nat /\ map b2n (firstn OUT w) = out /\
     (forall w', length w' = (IN / 2)%nat -> dist L r (conv w) <= dist L r (conv w')) /\
     cost = (2 * dist L r (conv w) + L) / (2 * L) /\ nearest (dist L r (conv w)) L cost) /\
  (forall sc' out0', wf_scratch sc' -> length out0' = OUT -> fst (decode_gen tb W IN OUT sc' out0' r) = (out, cost)).
Proof. exact viterbi_ml_gen. Qed.
Print Assumptions c02_viterbi_ml_any_tiebreak.

(** scratch independence in the form the frame-decoder model uses: from any object state decode returns
    [viterbi_decode W IN OUT r] and leaves a well-formed object *)
Theorem c02_decode_is_viterbi_decode : forall (W IN OUT : nat) (sc : scratch) (out0 : list N) (r : list Z),
  (2 <= W <= 6)%nat -> (IN / 2 <= 244)%nat -> (OUT <= IN / 2)%nat -> wf_scratch sc -> length out0 = OUT ->
  fst (decode W IN OUT sc out0 r) = viterbi_decode W IN OUT r /\ wf_scratch (snd (decode W IN OUT sc out0 r)).
Proof. exact decode_is_viterbi_decode. Qed.
Print Assumptions c02_decode_is_viterbi_decode.

Theorem c02_viterbi_decode_ml : forall (W IN OUT : nat) (r : list Z),
  (2 <= W <= 6)%nat -> Nat.even IN = true -> (IN / 2 <= 244)%nat -> (OUT <= IN / 2)%nat ->
  length r = IN -> Forall (fun x => -128 <= x <= 127) r ->
  let L := soft_limit W in
  exists w : list bool, length w = (IN / 2)%nat /\ fst (viterbi_decode W IN OUT r) = map b2n (firstn OUT w) /\
    (forall w', length w' = (IN / 2)%nat -> dist L r (conv w) <= dist L r (conv w')) /\
    snd (viterbi_decode W IN OUT r) = (2 * dist L r (conv w) + L) / (2 * L).
Proof. exact viterbi_decode_ml. Qed.
Print Assumptions c02_viterbi_decode_ml.

(** 5. error correction.  [dfree mask k] (SpecConv.v, one backward pass over the trellis, evaluated by vm_compute) is a
       lower bound for the number of kept positions at which the code words of two inputs differing in their first k
       bits differ ... *)
Theorem c02_dfree_lower_bound : forall (mask : list bool) (k : nat) (d : list bool),
  length mask = (2 * length d)%nat -> existsb (fun x => x) (firstn k d) = true ->
  dfree mask k <= mweight mask (conv d).
Proof. exact dfree_lb. Qed.
Print Assumptions c02_dfree_lower_bound.

(**    ... and it is attained, i.e. dfree mask k IS that minimum ... *)
Theorem c02_dfree_is_minimum : forall (mask : list bool) (k n : nat),
  length mask = (2 * n)%nat -> (1 <= k)%nat -> (1 <= n)%nat ->
  exists d : list bool, length d = n /\ existsb (fun b => b) (firstn k d) = true /\ mweight mask (conv d) = dfree mask k.
Proof. exact dfree_attained. Qed.
Print Assumptions c02_dfree_is_minimum.

(**    ... a word strictly closer than every word with different first k bits is the one decoded ... *)
Theorem c02_closer_returned :
  forall (tb : tiebreak) (W IN OUT k : nat) (sc : scratch) (out0 : list N) (r : list Z) (w : list bool),
  (2 <= W <= 6)%nat -> Nat.even IN = true -> (IN / 2 <= 244)%nat -> (OUT <= IN / 2)%nat -> (k <= OUT)%nat ->
  wf_scratch sc -> length out0 = OUT -> length r = IN -> Forall (fun x => -128 <= x <= 127) r ->
  length w = (IN / 2)%nat ->
  (forall w', length w' = (IN / 2)%nat -> firstn k w' <> firstn k w ->
      dist (soft_limit W) r (conv w) < dist (soft_limit W) r (conv w')) ->
  firstn k (fst (fst (decode_gen tb W IN OUT sc out0 r))) = map b2n (firstn k w).
Proof. exact closer_returned. Qed.
Print Assumptions c02_closer_returned.

(**    ... hence, for each of the four M17 geometries g (erasures where depuncture() writes 0), every width, every input
       word w (payload and ANY tail) received at full confidence with sign flips [fl]: if twice the number of flips on
       kept positions is below dfree_g(k) then the first k <= OUT decoded bits are those of w.  With k = OUT this is
       the property's "every error pattern lighter than half the punctured code's distance is corrected". *)
Theorem c02_viterbi_corrects :
  forall (g : nat * nat * nat * nat) (W k : nat) (sc : scratch) (out0 : list N) (w fl : list bool),
  In g geoms -> (2 <= W <= 6)%nat -> (k <= g_out g)%nat -> wf_scratch sc -> length out0 = g_out g ->
  length w = (g_in g / 2)%nat -> length fl = g_in g ->
  2 * nflips (g_mask g) fl < dfree (g_mask g) k ->
  firstn k (fst (fst (decode W (g_in g) (g_out g) sc out0 (tx_image (soft_limit W) (g_mask g) (conv w) fl)))) =
  map b2n (firstn k w).
Proof. exact corrects_m17. Qed.
Print Assumptions c02_viterbi_corrects.

(** the computed distances: for the whole payload (k = OUT), and for all but its last 16 bits — the decoder leaves the
    tail free, so the last payload bits are protected only by the few code bits that follow them *)
Example c02_dfree_values :
  map (fun g => (g_in g, g_out g, dfree (g_mask g) (g_out g), dfree (g_mask g) (g_out g - 16))) geoms =
  [(488%nat, 240%nat, 3, 4); (296%nat, 144%nat, 2, 6); (420%nat, 206%nat, 3, 5); (402%nat, 197%nat, 3, 6)].
Proof. vm_compute. reflexivity. Qed.

(** 6. clean code words.  If every non-erased soft bit has the sign of conv w and magnitude 1..L, and the erasure pattern
       satisfies the computed predicate [unique_ok] (no input word with a one among its first OUT bits has all its code
       ones on erased positions), then decode returns exactly firstn OUT w — with cost 0 when all magnitudes are L. *)
Theorem c02_clean_unique :
  forall (W IN OUT : nat) (mask : list bool) (sc : scratch) (out0 : list N) (r : list Z) (w : list bool),
  (2 <= W <= 6)%nat -> Nat.even IN = true -> (IN / 2 <= 244)%nat -> (OUT <= IN / 2)%nat ->
  wf_scratch sc -> length out0 = OUT -> length w = (IN / 2)%nat ->
  clean (soft_limit W) r (conv w) -> mask_sub mask r -> unique_ok mask OUT = true ->
  fst (fst (decode W IN OUT sc out0 r)) = map b2n (firstn OUT w) /\
  ((forall x, In x r -> x = 0 \/ Z.abs x = soft_limit W) -> snd (fst (decode W IN OUT sc out0 r)) = 0).
Proof. exact (clean_unique_gen source_tiebreak). Qed.
Print Assumptions c02_clean_unique.

(** the four M17 erasure masks satisfy the predicate (and the geometries are the ones the property names) *)
Theorem c02_m17_geometries :
  map (fun g => (g_in g, g_out g)) geoms = [(488, 240); (296, 144); (420, 206); (402, 197)]%nat /\
  vit_LLR = 4%nat /\
  forall g, In g geoms ->
    Nat.even (g_in g) = true /\ (g_in g / 2 <= 244)%nat /\ (g_out g <= g_in g / 2)%nat /\
    length (g_mask g) = g_in g /\ unique_ok (g_mask g) (g_out g) = true.
Proof. exact (conj geoms_are_m17 (conj llr_is_4 geom_facts)). Qed.
Print Assumptions c02_m17_geometries.

Theorem c02_clean_unique_m17 :
  forall (g : nat * nat * nat * nat) (W : nat) (sc : scratch) (out0 : list N) (r : list Z) (w : list bool),
  In g geoms -> (2 <= W <= 6)%nat -> wf_scratch sc -> length out0 = g_out g -> length w = (g_in g / 2)%nat ->
  clean (soft_limit W) r (conv w) -> mask_sub (g_mask g) r ->
  fst (fst (decode W (g_in g) (g_out g) sc out0 r)) = map b2n (firstn (g_out g) w) /\
  ((forall x, In x r -> x = 0 \/ Z.abs x = soft_limit W) -> snd (fst (decode W (g_in g) (g_out g) sc out0 r)) = 0).
Proof. exact clean_unique_m17. Qed.
Print Assumptions c02_clean_unique_m17.

(** the same for the exported function *)
Theorem c02_viterbi_decode_clean :
  forall (W IN OUT : nat) (mask : list bool) (r : list Z) (w : list bool),
  (2 <= W <= 6)%nat -> Nat.even IN = true -> (IN / 2 <= 244)%nat -> (OUT <= IN / 2)%nat ->
  length w = (IN / 2)%nat -> clean (soft_limit W) r (conv w) -> mask_sub mask r -> unique_ok mask OUT = true ->
  fst (viterbi_decode W IN OUT r) = map b2n (firstn OUT w) /\
  ((forall x, In x r -> x = 0 \/ Z.abs x = soft_limit W) -> snd (viterbi_decode W IN OUT r) = 0).
Proof. exact viterbi_decode_clean. Qed.
Print Assumptions c02_viterbi_decode_clean.

(** 7. interpretation note: under the reading "optimal among zero-terminated code words" the statement is false of this
       decoder.  Width 4, IN = 12, OUT = 2: the decoder returns payload 11, whose zero-terminated code word is at distance
       60 from r, while payload 01 followed by 0000 is at distance 52. *)
Theorem c02_viterbi_terminated_ml_refuted :
  exists (r : list Z) (p' : list bool),
    length r = 12%nat /\ Forall (fun x => -7 <= x <= 7) r /\ length p' = 2%nat /\
    exists p, fst (viterbi_decode 4 12 2 r) = map b2n p /\
      dist 7 r (conv (p' ++ [false; false; false; false])) < dist 7 r (conv (p ++ [false; false; false; false])).
Proof. exists refute_r, [false; true]. split; [reflexivity|]. split; [repeat constructor; vm_compute; discriminate|].
  split; [reflexivity|]. exists [true; true]. exact terminated_refuted. Qed.
Print Assumptions c02_viterbi_terminated_ml_refuted.

(** non-vacuity: concrete instances of the hypotheses, evaluated *)
Example c02_instance_noisy :   (* a noisy, partly erased, partly out-of-range vector: decode, true minimum, cost *)
  let r := [7; -7; 3; 0; -128; 127; 0; 0; -7; 7; 1; -1]%Z in
  viterbi_decode 4 12 6 r = ([0; 1; 0; 0; 1; 0]%N, 39).
Proof. vm_compute. reflexivity. Qed.
Example c02_instance_clean :   (* a clean LSF-sized code word punctured with P1 decodes to its payload with cost 0 *)
  let w := map (fun i => Nat.odd (i / 3)) (seq 0 244) in
  let r := tx_image 7 (g_mask geom_lsf) (conv w) (repeat false 488) in
  viterbi_decode 4 488 240 r = (map b2n (firstn 240 w), 0).
Proof. vm_compute. reflexivity. Qed.
