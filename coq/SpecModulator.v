(** * SpecModulator — the byte stream M17Modulator must deliver, written from its documented contract
    (header comment of M17Modulator.h: IDLE -> ptt_on -> PREAMBLE -> LINK_SETUP -> ACTIVE -> ptt_off ->
    END_OF_STREAM -> IDLE; "at least 3 frames: the preamble, the link setup frame, and one audio frame with the
    EOS flag set"; 8 kHz audio, 40 ms = 320 samples = two Codec2-3200 frames of 160 samples / 8 bytes per M17
    frame) and from the M17 specification ([SpecM17]).  Independent of the code: it only shares the
    vocabulary of schedule items ([event], [item]) with the model.

    A *key-up* is described by the loop iterations it consists of:
      - [ku_idle]   results of audio_queue.get() while idle before ptt_on() (samples discarded),
      - PttOn, then one iteration that emits the preamble and one that emits the LSF frame
        ([ku_pre], [ku_lsf]: both samples discarded),
      - [ku_active] the iterations while PTT is held (each contributes one sample; a timed-out get()
        contributes silence), possibly interleaved with further ptt_on() calls, which return at once,
      - PttOff, then one iteration [ku_eos], whose sample is the last one of the final frame.
    The audio frames of the key-up are the samples cut into 320-sample frames; the final frame is the rest
    followed by the [ku_eos] sample, zero-padded; it carries the end-of-stream bit.  Codec2 is an oracle with
    hidden state that runs through all frames of all key-ups in order. *)
From Coq Require Import NArith ZArith List Bool.
From M17 Require Import Bits SpecCRC SpecM17 ImplModulator.
Import ListNotations.

Definition spec_sample (e : event) : Z := match e with Sample z => z | Timeout => 0%Z end.

Definition frame_samples : nat := 320.
Definition codec_samples : nat := 160.
Definition pad_frame (l : list Z) : list Z := l ++ repeat 0%Z (frame_samples - length l).

(** cut the samples of a key-up into frames; [acc] is the frame being filled *)
Fixpoint cut_acc (acc samples : list Z) (last : Z) : list (list Z) :=
  match samples with
  | [] => [pad_frame (acc ++ [last])]
  | s :: r => if Nat.eqb (length acc + 1) frame_samples then (acc ++ [s]) :: cut_acc [] r last
              else cut_acc (acc ++ [s]) r last
  end.
Definition cut (samples : list Z) (last : Z) : list (list Z) := cut_acc [] samples last.

Record keyup := MkKeyup {
  ku_idle : list event;
  ku_pre : event;
  ku_lsf : event;
  ku_active : list item;
  ku_eos : event
}.

(** while PTT is held the application may call ptt_on() again (it returns at once) but not ptt_off() *)
Definition active_item (it : item) : Prop := match it with PttOff => False | _ => True end.
Definition keyup_ok (ku : keyup) : Prop := Forall active_item (ku_active ku).

Definition samples_of (items : list item) : list Z :=
  flat_map (fun it => match it with Ev e => [spec_sample e] | _ => [] end) items.

Definition keyup_items (ku : keyup) : list item :=
  map Ev (ku_idle ku) ++ [PttOn; Ev (ku_pre ku); Ev (ku_lsf ku)] ++ ku_active ku ++ [PttOff; Ev (ku_eos ku)].

(** a complete session: key-ups, then iterations while idle *)
Definition session_items (kus : list keyup) (trailing : list event) : list item :=
  flat_map keyup_items kus ++ map Ev trailing.

Section SpecMod.
Variable cstate : Type.
Variable codec2_encode : cstate -> list Z -> cstate * list N.

(** 320 samples -> 16 bytes *)
Definition encode_frame (c : cstate) (audio : list Z) : cstate * list N :=
  let '(c1, b1) := codec2_encode c (firstn codec_samples audio) in
  let '(c2, b2) := codec2_encode c1 (firstn codec_samples (skipn codec_samples audio)) in
  (c2, b1 ++ b2).

Fixpoint encode_frames (c : cstate) (frames : list (list Z)) : cstate * list (list N) :=
  match frames with
  | [] => (c, [])
  | f :: r => let '(c1, p) := encode_frame c f in let '(c2, ps) := encode_frames c1 r in (c2, p :: ps)
  end.

(** the bytes of one key-up for callsigns (dst, src): preamble, LSF frame (voice stream, CAN 0), stream frames
    k = 0, 1, 2, ... with LICH fragment k mod 6, frame number k mod 2^15, end-of-stream on the last
    ([SpecM17.spec_stream_frames]).  This is [SpecM17.spec_bitstream] without the EOT marker, which the
    class leaves to the application. *)
Definition keyup_stream (dst src : list N) (c : cstate) (samples : list Z) (last : Z) : cstate * list N :=
  let lsf := spec_lsf dst src 0 in
  let '(c', payloads) := encode_frames c (cut samples last) in
  (c', preamble ++ sync_lsf ++ bits_bytes (spec_lsf_frame lsf) ++ spec_stream_frames lsf 0 payloads).

Fixpoint session_stream (dst src : list N) (c : cstate) (kus : list keyup) : cstate * list N :=
  match kus with
  | [] => (c, [])
  | ku :: r =>
      let '(c1, out) := keyup_stream dst src c (samples_of (ku_active ku)) (spec_sample (ku_eos ku)) in
      let '(c2, outs) := session_stream dst src c1 r in
      (c2, out ++ outs)
  end.

(** the specification of a reconfigured session: each group of key-ups carries the callsigns configured for it *)
Fixpoint configured_stream (c : cstate) (groups : list (list N * list N * list keyup)) : cstate * list N :=
  match groups with
  | [] => (c, [])
  | (dst, src, kus) :: r =>
      let '(c1, out) := session_stream dst src c kus in
      let '(c2, outs) := configured_stream c1 r in
      (c2, out ++ outs)
  end.
End SpecMod.
