(** Gallina mirror of the puncturing code: Util.h (depunctured, depuncture, puncture, puncture_bytes)
    and Trellis.h (make_p1, P1, P2, P3), statement by statement, with exactly the C++ loop guards.
    The output array the caller passes in is an explicit argument ([prev] = its prior content), so that
    "every position is defined" is a statement.  Puncture matrices are int8_t arrays with
    non-negative entries (list N); soft bits are Z.  No proofs here. *)
From Coq Require Import NArith ZArith List Arith Bool.
From M17 Require Import ImplUtilBits ConstsPuncture.
Import ListNotations.

(** p[pindex] != 0 *)
Definition p_at (p : list N) (pindex : nat) : bool := negb (N.eqb (nth pindex p 0%N) 0).
(** pindex++ ... if (pindex == P) pindex = 0; *)
Definition p_next (p : list N) (pindex : nat) : nat := if S pindex =? length p then 0 else S pindex.

(** size_t puncture(const std::array<T, IN>& in, std::array<U, OUT>& out, const std::array<int8_t, P>& p)
      index = pindex = bit_count = 0;
      for (i = 0; i != IN && index != OUT; ++i) {
          if (p[pindex++]) { out[index++] = in[i]; bit_count++; }
          if (pindex == P) pindex = 0; }
      return bit_count;
    The recursion is on the part of [in] not yet visited (i == IN  <->  nothing left). *)
Fixpoint puncture_loop {A : Type} (p : list N) (OUT : nat) (inp : list A) (out : list A) (index pindex bit_count : nat)
  : list A * nat :=
  match inp with
  | [] => (out, bit_count)
  | x :: rest =>
    if index =? OUT then (out, bit_count)
    else if p_at p pindex
         then puncture_loop p OUT rest (set_nth index x out) (S index) (p_next p pindex) (S bit_count)
         else puncture_loop p OUT rest out index (p_next p pindex) bit_count
  end.

Definition puncture (p : list N) (OUT : nat) {A : Type} (inp : list A) (prev : list A) : list A * nat :=
  puncture_loop p OUT inp prev 0 0 0.

(** size_t puncture_bytes(const std::array<uint8_t, IN>& in, std::array<uint8_t, OUT>& out, p)
      for (i = 0; i != IN * 8 && index != OUT * 8; ++i) {
          if (p[pindex++]) { assign_bit_index(out, index++, get_bit_index(in, i)); bit_count++; }
          if (pindex == P) pindex = 0; }
    [is] = the values of i still to visit. *)
Fixpoint puncture_bytes_loop (p : list N) (OUT8 : nat) (inp : list N) (is : list nat) (out : list N) (index pindex bit_count : nat)
  : list N * nat :=
  match is with
  | [] => (out, bit_count)
  | i :: rest =>
    if index =? OUT8 then (out, bit_count)
    else if p_at p pindex
         then puncture_bytes_loop p OUT8 inp rest (assign_bit_index out index (get_bit_index inp i)) (S index) (p_next p pindex) (S bit_count)
         else puncture_bytes_loop p OUT8 inp rest out index (p_next p pindex) bit_count
  end.

(** [OUT] is the number of output bytes, IN = length inp *)
Definition puncture_bytes (p : list N) (OUT : nat) (inp : list N) (prev : list N) : list N * nat :=
  puncture_bytes_loop p (OUT * 8) inp (seq 0 (length inp * 8)) prev 0 0 0.

(** size_t depuncture(const std::array<int8_t, IN>& in, std::array<int8_t, OUT>& out, p)      (current text of Util.h)
      for (i = 0; i != OUT; ++i) {
          if (!p[pindex++] || index == IN) { out[i] = 0; bit_count++; }
          else { out[i] = in[index++]; }
          if (pindex == P) pindex = 0; }
      return bit_count; *)
Fixpoint depuncture_loop (p : list N) (inp : list Z) (is : list nat) (out : list Z) (index pindex bit_count : nat)
  : list Z * nat :=
  match is with
  | [] => (out, bit_count)
  | i :: rest =>
    if negb (p_at p pindex) || (index =? length inp)
    then depuncture_loop p inp rest (set_nth i 0%Z out) index (p_next p pindex) (S bit_count)
    else depuncture_loop p inp rest (set_nth i (nth index inp 0%Z) out) (S index) (p_next p pindex) bit_count
  end.

Definition depuncture (p : list N) (OUT : nat) (inp prev : list Z) : list Z * nat :=
  depuncture_loop p inp (seq 0 OUT) prev 0 0 0.

(** auto depunctured<M>(std::array<T, N> puncture_matrix, std::array<U, IN> in)
      std::array<U, M> result;            // not initialised: [junk]
      for (i = 0; i != M; ++i) {
          if (!puncture_matrix[pindex++]) result[i] = 0; else result[i] = in[index++];
          if (pindex == N) pindex = 0; }
    There is no guard on [index]; a read past the end of [in] is not modelled here (the model yields 0; index safety is C07). *)
Fixpoint depunctured_loop (p : list N) (inp : list Z) (is : list nat) (result : list Z) (index pindex : nat) : list Z :=
  match is with
  | [] => result
  | i :: rest =>
    if negb (p_at p pindex)
    then depunctured_loop p inp rest (set_nth i 0%Z result) index (p_next p pindex)
    else depunctured_loop p inp rest (set_nth i (nth index inp 0%Z) result) (S index) (p_next p pindex)
  end.

Definition depunctured_from (p : list N) (M : nat) (inp junk : list Z) : list Z :=
  depunctured_loop p inp (seq 0 M) junk 0 0.
Definition depunctured (p : list N) (M : nat) (inp : list Z) : list Z := depunctured_from p M inp (repeat 0%Z M).

(** constexpr make_p1(): result{}; for (i = 0, j = 2; i != 61; ++i) { if (i == j) { result[i] = 0; j += 4; } else result[i] = 1; } *)
Fixpoint make_p1_loop (is : list nat) (result : list N) (j : nat) : list N :=
  match is with
  | [] => result
  | i :: rest => if i =? j then make_p1_loop rest (set_nth i p1_hit result) (j + p1_stride)
                 else make_p1_loop rest (set_nth i p1_else result) j
  end.
Definition make_p1 : list N := make_p1_loop (seq 0 p1_size) (repeat 0%N p1_size) p1_j0.

Definition P1 : list N := make_p1.
Definition P2 : list N := ConstsPuncture.P2.
Definition P3 : list N := ConstsPuncture.P3.

(** the matrix number used in ConstsPuncture.*_sites *)
Definition matrix (k : N) : list N := match k with 1%N => P1 | 2%N => P2 | 3%N => P3 | _ => [] end.

(** The four geometries of the modem (matrix, encoded length, frame length).
    Transmit side (m17-mod.cpp): puncture(encoded[IN], punctured[OUT], P).
    Receive side (M17FrameDecoder): depuncture(frame[OUT], depuncture_buffer[IN], P). *)
Definition puncture_lsf {A} (inp prev : list A) := puncture P1 368 inp prev.      (* IN = 488 *)
Definition puncture_stream {A} (inp prev : list A) := puncture P2 272 inp prev.   (* IN = 296 *)
Definition puncture_bert {A} (inp prev : list A) := puncture P2 368 inp prev.     (* IN = 402 *)
Definition puncture_packet {A} (inp prev : list A) := puncture P3 368 inp prev.   (* IN = 420 *)
Definition depuncture_lsf (inp prev : list Z) := depuncture P1 488 inp prev.      (* IN = 368 *)
Definition depuncture_stream (inp prev : list Z) := depuncture P2 296 inp prev.   (* IN = 272 *)
Definition depuncture_bert (inp prev : list Z) := depuncture P2 402 inp prev.     (* IN = 368 *)
Definition depuncture_packet (inp prev : list Z) := depuncture P3 420 inp prev.   (* IN = 368 *)
(** M17Modulator: puncture_bytes(encoded[61], punctured[46], P1), puncture_bytes(encoded[37], punctured[34], P2) *)
Definition puncture_bytes_lsf (inp prev : list N) := puncture_bytes P1 46 inp prev.     (* IN = 61 bytes *)
Definition puncture_bytes_stream (inp prev : list N) := puncture_bytes P2 34 inp prev.  (* IN = 37 bytes *)
