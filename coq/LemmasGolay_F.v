(** Golay: the trie-based decoder of ImplGolayFast.v equals the faithful model on every 24-bit input
    (one sweep over the 2048 syndromes: both lookups return the same row). *)
From Coq Require Import NArith List Bool Lia FMapPositive.
From M17 Require Import Bits ConstsGolay ImplGolay ImplGolayFast LemmasGolay_A.
Import ListNotations.
Local Open Scope N_scope.

Definition entry_eqb (e e' : entry) : bool := (fst e =? fst e') && (snd e =? snd e').
Lemma entry_eqb_eq e e' : entry_eqb e e' = true -> e = e'.
Proof. destruct e as [a b], e' as [a' b']. unfold entry_eqb. cbn [fst snd]. intros H.
  apply andb_prop in H. destruct H as [H1 H2]. apply N.eqb_eq in H1, H2. subst. reflexivity. Qed.

Definition same_row (lut : list entry) (m : PositiveMap.t entry) (t : N) : bool :=
  let val := N.shiftl t 12 in
  match nth_error lut (lower_bound lut val), PositiveMap.find (key_pos val) m with
  | Some e, Some e' => entry_eqb e e'
  | _, _ => false
  end.

Lemma sw_same_row : below 11 (same_row LUT LUT_index) = true.
Proof. vm_compute. reflexivity. Qed.

Local Opaque LUT LUT_index syndrome lower_bound popcount parity correction_of.

Lemma decode_fast_eq r : r < 2 ^ 24 -> decode_fast r = decode r.
Proof. intros H.
  assert (W : N.shiftr r 1 < 2 ^ 23) by (apply (shiftr_lt r 23 1); exact H).
  destruct (syndrome_range _ W) as [E L].
  pose proof (below_spec 11 _ sw_same_row _ L) as S. unfold same_row in S. cbv zeta in S. rewrite <- E in S.
  unfold decode_fast, decode_fast_with, decode, decode_with. cbv zeta.
  change golay_dec_in_shift with 1.
  destruct (nth_error LUT (lower_bound LUT (syndrome (N.shiftr r 1)))) as [e|]; [|discriminate S].
  destruct (PositiveMap.find (key_pos (syndrome (N.shiftr r 1))) LUT_index) as [e'|]; [|discriminate S].
  apply entry_eqb_eq in S. subst e'. reflexivity. Qed.

Lemma golay_decode_fast_eq r : r < 2 ^ 24 -> golay_decode_fast r = golay_decode r.
Proof. intros H. unfold golay_decode_fast, golay_decode. rewrite (decode_fast_eq r H). reflexivity. Qed.
