(** C13, part E: transmit()'s sequencing (frame_number with its wrap, LICH cycling, the partial frame, the
    final frame, output_eot) and the bitstream rendering: the bytes m17-mod -b writes are the specification's
    stream for the Codec2 payloads of the audio, followed by the zero padding. *)
From Coq Require Import NArith ZArith List Bool Lia Arith.
From M17 Require Import Bits SpecCRC SpecM17 ImplCRC ImplMod ConstsMod LemmasMod_A LemmasMod_B LemmasMod_C LemmasMod_D.
Import ListNotations.
Local Open Scope N_scope.

(** ** list facts *)
Lemma firstn_set_nth {A} (x : A) l : forall i, (i < length l)%nat -> firstn (S i) (set_nth i x l) = firstn i l ++ [x].
Proof. induction l as [|y l IH]; intros [|i] H; cbn in *; try lia; [reflexivity|]. rewrite IH by lia. reflexivity. Qed.

Lemma skipn_set_nth {A} (x : A) l : forall i j, (i < j)%nat -> skipn j (set_nth i x l) = skipn j l.
Proof. induction l as [|y l IH]; intros [|i] [|j] H; cbn; try lia; try reflexivity. apply IH. lia. Qed.

Lemma set_nth_last {A} (pre : list A) x y : set_nth (length pre) x (pre ++ [y]) = pre ++ [x].
Proof. induction pre as [|z pre IH]; [reflexivity|]. cbn [length app set_nth]. rewrite IH. reflexivity. Qed.

Lemma groups_fuel_any {A} k : (0 < k)%nat -> forall f1 (l : list A) f2, (length l <= f1)%nat -> (length l <= f2)%nat ->
  groups_fuel f1 k l = groups_fuel f2 k l.
Proof. intros Hk. induction f1 as [|f1 IH]; intros l f2 H1 H2.
- destruct l; [destruct f2; reflexivity | cbn in H1; lia].
- destruct l as [|x l]; [destruct f2; reflexivity|]. destruct f2 as [|f2]; [cbn in H2; lia|].
  cbn [groups_fuel]. f_equal.
  assert (L : (length (skipn k (x :: l)) <= length l)%nat) by (rewrite skipn_length; cbn [length]; lia).
  cbn [length] in H1, H2. apply IH; lia. Qed.

Lemma groups_fuel_enough {A} k : (0 < k)%nat -> forall f (l : list A), (length l <= f)%nat ->
  groups_fuel f k l = groups_fuel (length l) k l.
Proof. intros Hk f l H. apply groups_fuel_any; [exact Hk | exact H | lia]. Qed.

Lemma groups_cons {A} k (l : list A) : (0 < k)%nat -> l <> [] -> groups k l = firstn k l :: groups k (skipn k l).
Proof. intros Hk Hl. unfold groups. destruct l as [|x l]; [contradiction|]. cbn [length groups_fuel]. f_equal.
  apply groups_fuel_enough; [exact Hk|]. rewrite skipn_length. cbn [length]. lia. Qed.

(** ** output_bitstream packs MSB first *)
Definition pack8 (l : list bool) : N := fold_left (fun c j => N.lor (u8 (N.shiftl c 1)) (b2n (nth j l false))) (seq 0 8) 0.
Definition ok_pack (l : list bool) : bool := pack8 l =? bits_N l.
Lemma sweep_pack : all_lists 8 ok_pack = true.
Proof. vm_compute. reflexivity. Qed.
Lemma pack8_ok' l : length l = 8%nat -> pack8 l = bits_N l.
Proof. intros H. apply N.eqb_eq. exact (all_lists_spec 8 ok_pack sweep_pack l H). Qed.

Lemma pack_bytes n : forall frame, length frame = (8 * n)%nat ->
  map (fun k => fold_left (fun c j => N.lor (u8 (N.shiftl c 1)) (b2n (nth (8 * k + j) frame false))) (seq 0 8) 0) (seq 0 n)
  = bits_bytes frame.
Proof. induction n as [|n IH]; intros frame H.
- destruct frame; [reflexivity | discriminate].
- destruct frame as [|a0 [|a1 [|a2 [|a3 [|a4 [|a5 [|a6 [|a7 rest]]]]]]]]; try (cbn in H; lia).
  unfold bits_bytes. rewrite groups_cons by (lia || discriminate). cbn [firstn skipn map seq].
  f_equal.
  + rewrite <- (pack8_ok' [a0; a1; a2; a3; a4; a5; a6; a7]) by reflexivity. reflexivity.
  + rewrite <- seq_shift, map_map. fold (bits_bytes rest). rewrite <- IH by (cbn [length] in H; lia).
    apply map_ext. intros k. replace (8 * S k)%nat with (8 + 8 * k)%nat by lia. reflexivity. Qed.

Lemma output_bitstream_ok sw frame : length frame = 368%nat -> output_bitstream sw frame = sw ++ bits_bytes frame.
Proof. intros H. unfold output_bitstream. f_equal. change (frame_bits / 8)%nat with 46%nat. apply pack_bytes. exact H. Qed.

(** ** counters *)
Definition ok_fn_step (f : N) : bool :=
  (let f1 := u16 (f + 1) in (if f1 =? fn_wrap_at then fn_wrap_to else f1) =? (f + 1) mod 32768) &&
  (N.lor f fn_eos_bit <? 65536) && ((N.lor f fn_eos_bit) mod 32768 =? f) && N.testbit (N.lor f fn_eos_bit) 15 &&
  negb (N.testbit f 15) && (f mod 32768 =? f).
Lemma sweep_fn_step : below 15 ok_fn_step = true.
Proof. vm_compute. reflexivity. Qed.

Lemma fn_step_ok f : f < 32768 ->
  (let f1 := u16 (f + 1) in if f1 =? fn_wrap_at then fn_wrap_to else f1) = (f + 1) mod 32768 /\
  N.lor f fn_eos_bit < 65536 /\ (N.lor f fn_eos_bit) mod 32768 = f /\ N.testbit (N.lor f fn_eos_bit) 15 = true /\
  N.testbit f 15 = false /\ f mod 32768 = f.
Proof. intros H. assert (L : f < 2 ^ N.of_nat 15) by exact H.
  pose proof (below_spec 15 ok_fn_step sweep_fn_step f L) as K. unfold ok_fn_step in K.
  repeat (apply andb_prop in K; let K' := fresh "K" in destruct K as [K K']).
  repeat split; try (apply N.eqb_eq; assumption); try (apply N.ltb_lt; assumption); try assumption.
  apply negb_true_iff. assumption. Qed.

Lemma lich_step_ok l : l < 6 ->
  (let l1 := u8 (l + 1) in if l1 =? N.of_nat lich_segments then 0 else l1) = (l + 1) mod 6.
Proof. intros H. assert (C : l = 0 \/ l = 1 \/ l = 2 \/ l = 3 \/ l = 4 \/ l = 5) by lia.
  destruct C as [-> | [-> | [-> | [-> | [-> | ->]]]]]; reflexivity. Qed.

Lemma succ_mod k m : m <> 0 -> (k mod m + 1) mod m = (k + 1) mod m.
Proof. intros H. rewrite N.add_mod_idemp_l by exact H. reflexivity. Qed.

(** ** the payloads a transmission carries (the statement's side of the codec oracle) *)
Section Seq.
Variable uninit : list bool.
Variable cstate : Type.
Variable codec2_encode : cstate -> list Z -> cstate * list N.
Hypothesis codec_ok : forall cs a, length (snd (codec2_encode cs a)) = 8%nat /\ all_bytes (snd (codec2_encode cs a)).

(** one 320-sample frame = two Codec2 frames of 160 samples, the codec state carried along *)
Definition frame_payload (cs : cstate) (frame : list Z) : cstate * list N :=
  let (cs1, r0) := codec2_encode cs (firstn 160 frame) in
  let (cs2, r1) := codec2_encode cs1 (skipn 160 frame) in
  (cs2, r0 ++ r1).

Definition silence : list Z := repeat 0%Z 320.

(** full frames in order; if samples remain, one more frame padded from [pad] (what the audio buffer holds
    beyond the samples); then the frame that encodes silence.  [pad] is the buffer content for the FIRST frame;
    after a full frame the buffer is zero-filled. *)
Fixpoint payloads_fuel (fuel : nat) (pad : list Z) (cs : cstate) (samples : list Z) : list (list N) :=
  match fuel with
  | O => []
  | S f =>
      if Nat.ltb (length samples) 320 then
        match samples with
        | [] => [snd (frame_payload cs silence)]
        | _ => let (cs1, p) := frame_payload cs (samples ++ skipn (length samples) pad) in
               [p; snd (frame_payload cs1 silence)]
        end
      else
        let (cs1, p) := frame_payload cs (firstn 320 samples) in
        p :: payloads_fuel f silence cs1 (skipn 320 samples)
  end.
Definition expected_payloads (pad : list Z) (cs : cstate) (samples : list Z) : list (list N) :=
  payloads_fuel (S (length samples)) pad cs samples.

(** with a zero-filled buffer *)
Definition zero_padded_payloads := expected_payloads silence.

Lemma encode_is_frame_payload cs frame : length frame = 320%nat ->
  encode cstate codec2_encode cs frame = frame_payload cs frame.
Proof. intros H. unfold encode, frame_payload. change codec_half_samples with 160%nat.
  rewrite (firstn_all2 (skipn 160 frame)) by (rewrite skipn_length; lia). reflexivity. Qed.

Lemma frame_payload_ok cs frame : length (snd (frame_payload cs frame)) = 16%nat /\ all_bytes (snd (frame_payload cs frame)).
Proof. unfold frame_payload.
  pose proof (codec_ok cs (firstn 160 frame)) as [L0 B0]. destruct (codec2_encode cs (firstn 160 frame)) as [cs1 r0].
  pose proof (codec_ok cs1 (skipn 160 frame)) as [L1 B1]. destruct (codec2_encode cs1 (skipn 160 frame)) as [cs2 r1].
  cbn [snd] in *. split; [rewrite app_length, L0, L1; reflexivity | apply Forall_app; split; assumption]. Qed.

(** the stream frames as output calls *)
Fixpoint frame_calls (lsf : list N) (k : N) (payloads : list (list N)) : list out_call :=
  match payloads with
  | [] => []
  | p :: rest =>
      OutFrame SpecM17.sync_stream
        (spec_stream_frame lsf (lich_index k) (fn_index k) p (match rest with [] => true | _ => false end))
      :: frame_calls lsf (k + 1) rest
  end.

Variable lsf : list N.
Hypothesis lsf_len30 : length lsf = 30%nat.
Hypothesis lsf_bytes : all_bytes lsf.

Definition lich : list (list bool) :=
  map (fun i => make_lich_segment (firstn lich_stride (skipn (i * lich_stride) lsf)) (N.of_nat i)) (seq 0 lich_segments).

Lemma lich_nth n : (n < 6)%nat ->
  nth n lich [] = make_lich_segment (firstn lich_stride (skipn (n * lich_stride) lsf)) (N.of_nat n).
Proof. intros H. unfold lich. change lich_segments with 6%nat.
  destruct n as [|[|[|[|[|[|n]]]]]]; try lia; reflexivity. Qed.

Notation tstate := (tstate cstate).
Notation mk := (mk_tstate cstate).
Notation step := (sample_step uninit cstate codec2_encode lich).
Notation emit := (emit_frame uninit cstate codec2_encode lich).

(** filling the buffer without completing it *)
Lemma fill_partial chunk : forall cs audio i fn l out, length audio = 320%nat -> (i + length chunk < 320)%nat ->
  fold_left step chunk (mk cs audio i fn l out)
  = mk cs (firstn i audio ++ chunk ++ skipn (i + length chunk) audio) (i + length chunk) fn l out.
Proof. induction chunk as [|x chunk IH]; intros cs audio i fn l out Ha Hi.
- cbn [fold_left length app]. rewrite Nat.add_0_r, firstn_skipn. reflexivity.
- cbn [fold_left length] in *. unfold sample_step at 2. cbn [t_index t_audio t_codec t_fn t_lich t_out].
  change audio_frame_len with 320%nat. destruct (Nat.eqb_spec (S i) 320) as [E|_]; [lia|].
  rewrite IH by (rewrite ?set_nth_length; lia).
  rewrite firstn_set_nth by lia. rewrite skipn_set_nth by lia. rewrite <- app_assoc. cbn [app].
  replace (i + S (length chunk))%nat with (S i + length chunk)%nat by lia. reflexivity. Qed.

(** one frame as transmit() emits it: frame number k mod 2^15 (no EOS flag), LICH chunk k mod 6 *)
Lemma emit_ok cs audio i k out : length audio = 320%nat ->
  emit (mk cs audio i (fn_index k) (lich_index k) out)
  = mk (fst (frame_payload cs audio)) audio i (fn_index (k + 1)) (lich_index (k + 1))
       (out ++ [OutFrame SpecM17.sync_stream (spec_stream_frame lsf (lich_index k) (fn_index k) (snd (frame_payload cs audio)) false)]).
Proof. intros Ha. unfold emit_frame. cbn [t_index t_audio t_codec t_fn t_lich t_out].
  rewrite encode_is_frame_payload by exact Ha.
  destruct (frame_payload_ok cs audio) as [PL PB]. destruct (frame_payload cs audio) as [cs' payload]. cbn [fst snd] in *.
  assert (F : fn_index k < 32768) by (unfold fn_index; apply N.mod_lt; discriminate).
  assert (Lk : lich_index k < 6) by (unfold lich_index; apply N.mod_lt; discriminate).
  destruct (fn_step_ok _ F) as [S1 [_ [_ [_ [S5 S6]]]]]. cbv zeta in S1. rewrite S1.
  pose proof (lich_step_ok _ Lk) as S2. cbv zeta in S2. rewrite S2.
  replace ((fn_index k + 1) mod 32768) with (fn_index (k + 1)) by (unfold fn_index; symmetry; apply succ_mod; discriminate).
  replace ((lich_index k + 1) mod 6) with (lich_index (k + 1)) by (unfold lich_index; symmetry; apply succ_mod; discriminate).
  rewrite lich_nth by lia.
  rewrite (stream_frame_ok uninit lsf (N.to_nat (lich_index k)) (fn_index k) payload) by (try assumption; lia).
  rewrite N2Nat.id, S5, S6. reflexivity. Qed.

(** the final frame: EOS flag on frame number k mod 2^15 *)
Lemma last_ok cs k :
  send_audio_frame (nth (N.to_nat (lich_index k)) lich [])
     (make_data_frame uninit (N.lor (fn_index k) fn_eos_bit) (snd (encode cstate codec2_encode cs (repeat 0%Z audio_frame_len))))
  = [OutFrame SpecM17.sync_stream (spec_stream_frame lsf (lich_index k) (fn_index k) (snd (frame_payload cs silence)) true)].
Proof. change (repeat 0%Z audio_frame_len) with silence. rewrite encode_is_frame_payload by reflexivity.
  destruct (frame_payload_ok cs silence) as [PL PB].
  assert (F : fn_index k < 32768) by (unfold fn_index; apply N.mod_lt; discriminate).
  assert (Lk : lich_index k < 6) by (unfold lich_index; apply N.mod_lt; discriminate).
  destruct (fn_step_ok _ F) as [_ [S2 [S3 [S4 _]]]].
  rewrite lich_nth by lia.
  rewrite (stream_frame_ok uninit lsf (N.to_nat (lich_index k)) _ _ lsf_len30 lsf_bytes ltac:(lia) S2 PL PB).
  rewrite N2Nat.id, S3, S4. reflexivity. Qed.

(** a complete frame: 320 samples from index 0 *)
Lemma full_frame chunk cs audio k out : length chunk = 320%nat -> length audio = 320%nat ->
  fold_left step chunk (mk cs audio 0 (fn_index k) (lich_index k) out)
  = mk (fst (frame_payload cs chunk)) silence 0 (fn_index (k + 1)) (lich_index (k + 1))
       (out ++ [OutFrame SpecM17.sync_stream (spec_stream_frame lsf (lich_index k) (fn_index k) (snd (frame_payload cs chunk)) false)]).
Proof. intros Hc Ha.
  assert (E : chunk = firstn 319 chunk ++ [nth 319 chunk 0%Z]).
  { rewrite <- (firstn_skipn 319 chunk) at 1. f_equal.
    assert (L : length (skipn 319 chunk) = 1%nat) by (rewrite skipn_length; lia).
    destruct (skipn 319 chunk) as [|y [|? ?]] eqn:Es; try discriminate L.
    f_equal. rewrite <- (firstn_skipn 319 chunk) at 1. rewrite app_nth2 by (rewrite firstn_length; lia).
    rewrite firstn_length, Es. replace (319 - Nat.min 319 (length chunk))%nat with 0%nat by lia. reflexivity. }
  rewrite E at 1. rewrite fold_left_app.
  rewrite fill_partial by (rewrite ?firstn_length; lia).
  rewrite firstn_length. replace (Nat.min 319 (length chunk)) with 319%nat by lia.
  change (firstn 0 audio) with (@nil Z). cbn [fold_left app Nat.add].
  unfold sample_step. cbn [t_index t_audio t_codec t_fn t_lich t_out]. change audio_frame_len with 320%nat.
  change (Nat.eqb 320 320) with true. cbv iota.
  assert (A : set_nth 319 (nth 319 chunk 0%Z) (firstn 319 chunk ++ skipn 319 audio) = chunk).
  { assert (L : length (skipn 319 audio) = 1%nat) by (rewrite skipn_length; lia).
    destruct (skipn 319 audio) as [|y [|? ?]]; try discriminate L.
    assert (Lpre : length (firstn 319 chunk) = 319%nat) by (rewrite firstn_length; lia).
    remember (nth 319 chunk 0%Z) as v. remember (firstn 319 chunk) as pre.
    rewrite <- Lpre. rewrite set_nth_last. symmetry. exact E. }
  rewrite A. rewrite emit_ok by exact Hc. cbn [t_index t_audio t_codec t_fn t_lich t_out]. reflexivity. Qed.

(** everything transmit() outputs after the LSF, except the EOT call *)
Definition tail_calls (st : tstate) : list out_call :=
  let st := if Nat.ltb 0 (t_index cstate st) then emit st else st in
  let (_, payload) := encode cstate codec2_encode (t_codec cstate st) (repeat 0%Z audio_frame_len) in
  t_out cstate st ++
  send_audio_frame (nth (N.to_nat (t_lich cstate st)) lich []) (make_data_frame uninit (N.lor (t_fn cstate st) fn_eos_bit) payload).

Lemma transmit_frames fuel : forall samples pad cs k out, length pad = 320%nat -> (length samples < 320 * fuel)%nat ->
  tail_calls (fold_left step samples (mk cs pad 0 (fn_index k) (lich_index k) out))
  = out ++ frame_calls lsf k (payloads_fuel fuel pad cs samples).
Proof. induction fuel as [|fuel IH]; intros samples pad cs k out Hp Hs; [lia|].
  cbn [payloads_fuel]. destruct (Nat.ltb_spec (length samples) 320) as [Hlt|Hge].
  - (* the end of the audio *)
    rewrite (fill_partial samples cs pad 0) by (cbn; lia). cbn [firstn app Nat.add].
    unfold tail_calls. cbn [t_index t_audio t_codec t_fn t_lich t_out].
    destruct samples as [|x samples].
    + cbn [length Nat.ltb Nat.leb]. cbn [t_index t_audio t_codec t_fn t_lich t_out].
      pose proof (last_ok cs k) as Last.
      destruct (encode cstate codec2_encode cs (repeat 0%Z audio_frame_len)) as [c' payload]. cbn [snd] in Last.
      rewrite Last. reflexivity.
    + replace (Nat.ltb 0 (length (x :: samples))) with true by (cbn [length]; reflexivity).
      rewrite emit_ok by (rewrite app_length, skipn_length; lia).
      cbn [t_index t_audio t_codec t_fn t_lich t_out].
      pose proof (last_ok (fst (frame_payload cs ((x :: samples) ++ skipn (length (x :: samples)) pad))) (k + 1)) as Last.
      destruct (frame_payload cs ((x :: samples) ++ skipn (length (x :: samples)) pad)) as [cs1 p]. cbn [fst snd] in *.
      destruct (encode cstate codec2_encode cs1 (repeat 0%Z audio_frame_len)) as [c' payload]. cbn [snd] in Last.
      rewrite Last. cbn [frame_calls]. rewrite <- app_assoc. reflexivity.
  - (* a full frame, then the rest *)
    rewrite <- (firstn_skipn 320 samples) at 1. rewrite fold_left_app.
    rewrite full_frame by (rewrite ?firstn_length; lia).
    destruct (frame_payload cs (firstn 320 samples)) as [cs1 p]. cbn [fst snd].
    rewrite IH by (rewrite ?skipn_length; try reflexivity; lia).
    cbn [frame_calls]. rewrite <- app_assoc. cbn [app].
    assert (NE : payloads_fuel fuel silence cs1 (skipn 320 samples) <> []).
    { destruct fuel as [|f]; [lia|]. cbn [payloads_fuel].
      destruct (Nat.ltb (length (skipn 320 samples)) 320).
      - destruct (skipn 320 samples); [discriminate|]. destruct (frame_payload cs1 _). discriminate.
      - destruct (frame_payload cs1 _). discriminate. }
    destruct (payloads_fuel fuel silence cs1 (skipn 320 samples)); [contradiction|]. reflexivity. Qed.

End Seq.

(** ** the bitstream *)
Lemma spec_stream_frame_length lsf n fn payload eos : length lsf = 30%nat -> n < 6 -> length payload = 16%nat ->
  length (spec_stream_frame lsf n fn payload eos) = 368%nat.
Proof. intros. unfold spec_stream_frame, spec_finish, spec_randomize, spec_interleave.
  unfold xor_bits. rewrite map_length, combine_length, map_length. reflexivity. Qed.

Lemma spec_lsf_frame_length lsf : length (spec_lsf_frame lsf) = 368%nat.
Proof. unfold spec_lsf_frame, spec_finish, spec_randomize, spec_interleave.
  unfold xor_bits. rewrite map_length, combine_length, map_length. reflexivity. Qed.

Lemma render_frame_calls lsf payloads : forall k,
  render_bitstream (frame_calls lsf k payloads) = spec_stream_frames lsf k payloads.
Proof. induction payloads as [|p rest IH]; intros k; [reflexivity|].
  cbn [frame_calls spec_stream_frames]. unfold render_bitstream in *. cbn [flat_map render_bitstream_call].
  rewrite IH. f_equal. apply output_bitstream_ok.
  unfold spec_stream_frame, spec_finish, spec_randomize, spec_interleave, xor_bits.
  rewrite map_length, combine_length, map_length. reflexivity. Qed.

Section Program.
Variable uninit : list bool.
Variable cstate : Type.
Variable codec2_encode : cstate -> list Z -> cstate * list N.
Hypothesis codec_ok : forall cs a, length (snd (codec2_encode cs a)) = 8%nat /\ all_bytes (snd (codec2_encode cs a)).

(** the audio buffer when the first sample arrives *)
Definition initial_audio (zero_init : bool) (audio0 : list Z) : list Z :=
  if zero_init then silence else audio0.

Lemma mod_calls_ok zero_init audio0 cs0 can src dest samples :
  valid_callsign src -> valid_callsign dest -> can < 16 -> length audio0 = 320%nat ->
  mod_calls uninit cstate codec2_encode zero_init audio0 cs0 can src dest samples =
  [OutPreamble; OutFrame SpecM17.sync_lsf (spec_lsf_frame (spec_lsf dest src can))] ++
  frame_calls (spec_lsf dest src can) 0
     (expected_payloads cstate codec2_encode (initial_audio zero_init audio0) cs0 samples) ++ [OutEot].
Proof. intros Hs Hd Hc Ha. unfold mod_calls. rewrite send_lsf_ok by assumption.
  cbn [app]. do 2 f_equal. unfold transmit.
  pose proof (transmit_frames uninit cstate codec2_encode codec_ok (spec_lsf dest src can)
               (spec_lsf_length dest src can) (spec_lsf_bytes dest src can)
               (S (length samples)) samples (initial_audio zero_init audio0) cs0 0 []) as T.
  assert (Hp : length (initial_audio zero_init audio0) = 320%nat) by (destruct zero_init; [reflexivity | exact Ha]).
  specialize (T Hp ltac:(lia)). cbn [app] in T. unfold expected_payloads. rewrite <- T. clear T.
  unfold tail_calls. fold (lich (spec_lsf dest src can)).
  change fn_initial with (fn_index 0). change (N.of_nat lich_initial) with (lich_index 0).
  assert (E : (if zero_init then repeat 0%Z audio_frame_len else firstn audio_frame_len audio0) = initial_audio zero_init audio0).
  { destruct zero_init; [reflexivity|]. unfold initial_audio. apply firstn_all2. change audio_frame_len with 320%nat. lia. }
  rewrite E.
  set (st := fold_left _ samples _).
  set (st' := if Nat.ltb 0 (t_index cstate st) then _ else st).
  destruct (encode cstate codec2_encode (t_codec cstate st') (repeat 0%Z audio_frame_len)) as [c' payload].
  rewrite <- app_assoc. reflexivity. Qed.

Lemma render_bitstream_app a b : render_bitstream (a ++ b) = render_bitstream a ++ render_bitstream b.
Proof. unfold render_bitstream. apply flat_map_app. Qed.

Lemma mod_bitstream_ok zero_init audio0 cs0 can src dest samples :
  valid_callsign src -> valid_callsign dest -> can < 16 -> length audio0 = 320%nat ->
  render_bitstream (mod_calls uninit cstate codec2_encode zero_init audio0 cs0 can src dest samples) =
  spec_bitstream dest src can (expected_payloads cstate codec2_encode (initial_audio zero_init audio0) cs0 samples)
  ++ repeat 0 eot_zero_bytes.
Proof. intros Hs Hd Hc Ha. rewrite mod_calls_ok by assumption.
  rewrite !render_bitstream_app, render_frame_calls. unfold spec_bitstream.
  unfold render_bitstream. cbn [flat_map render_bitstream_call app].
  rewrite output_bitstream_ok by apply spec_lsf_frame_length.
  destruct sync_consts_ok as [_ [_ [_ [-> ->]]]]. rewrite app_nil_r.
  rewrite <- !app_assoc. reflexivity. Qed.

(** when the padding of a partial first frame does not matter *)
Lemma payloads_pad_irrelevant pad cs samples :
  (320 <= length samples)%nat \/ samples = [] ->
  expected_payloads cstate codec2_encode pad cs samples = zero_padded_payloads cstate codec2_encode cs samples.
Proof. unfold zero_padded_payloads, expected_payloads. cbn [payloads_fuel].
  intros [H | ->]; [|reflexivity]. destruct (Nat.ltb_spec (length samples) 320); [lia | reflexivity]. Qed.
End Program.
