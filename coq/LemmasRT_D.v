(** C01 round trip, part D: to_byte_array inverts the specification's byte-to-bit conversion (whole bytes, the
    206-bit packet payload, the 197-bit BERT payload), and the lengths of the specification frames' parts. *)
From Coq Require Import NArith ZArith List Bool Lia Arith.
From M17 Require Import Bits ImplPuncture SpecPuncture LemmasPuncture SpecM17 ImplFrameDecoder FrameDecoderInst
  LemmasFD_Lich LemmasRT_A LemmasRT_B LemmasRT_C.
Import ListNotations.
Local Open Scope N_scope.

(* ------------------------------------------------------------------ whole bytes *)
Lemma sweep_byte : below 8 (fun x => bits_N (byte_bits x) =? x) = true.
Proof. vm_cast_no_check (eq_refl true). Qed.

Lemma bits_N_byte_bits x : x < 256 -> bits_N (byte_bits x) = x.
Proof. intros H. apply N.eqb_eq. exact (below_spec 8 _ sweep_byte x H). Qed.

Lemma pack_bits_nil : pack_bits [] = []. Proof. reflexivity. Qed.

Lemma pack_bytes_app : forall l rest, all_bytes l -> pack_bits (bytes_bits l ++ rest) = l ++ pack_bits rest.
Proof. induction l as [|x l IH]; intros rest F; [reflexivity|].
  change (bytes_bits (x :: l)) with (byte_bits x ++ bytes_bits l). rewrite <- app_assoc.
  rewrite pack_bits_cons8 by apply byte_bits_length.
  rewrite bits_N_byte_bits by exact (Forall_inv F). rewrite IH by exact (Forall_inv_tail F). reflexivity. Qed.

Lemma to_bytes_bytes_bits l : all_bytes l -> to_bytes (bytes_bits l) = l.
Proof. intros F. unfold to_bytes. rewrite <- (app_nil_r (bytes_bits l)). rewrite pack_bytes_app by exact F.
  rewrite pack_bits_nil. apply app_nil_r. Qed.

Lemma land255_lt x : N.land x 255 < 256.
Proof. change 255 with (N.ones 8). rewrite N.land_ones. apply N.mod_lt. discriminate. Qed.

Lemma be_bytes_all_bytes n v : all_bytes (be_bytes n v).
Proof. unfold be_bytes. apply Forall_forall. intros x Hx. apply in_map_iff in Hx. destruct Hx as (i & <- & _).
  apply land255_lt. Qed.

Lemma be_bytes_length n v : length (be_bytes n v) = n.
Proof. unfold be_bytes. rewrite map_length, seq_length. reflexivity. Qed.

Lemma fn_field_ok fn eos : all_bytes (fn_field fn eos) /\ length (fn_field fn eos) = 2%nat.
Proof. unfold fn_field. split; [apply be_bytes_all_bytes | apply be_bytes_length]. Qed.

(* ------------------------------------------------------------------ packet: 25 bytes + EOF + 5-bit counter *)
Definition packet_last (eof : bool) (counter : N) : N := 128 * b2n eof + 4 * counter.

Definition ok_last (c : N) : bool :=
  forallb (fun e => (bits_N (firstn 8 (([e] ++ N_bits 5 c) ++ repeat false 7)) =? packet_last e c) &&
                    Bool.eqb (N.land (packet_last e c) 0x80 =? 0) (negb e)) [true; false].
Lemma sweep_last : below 5 ok_last = true.
Proof. vm_cast_no_check (eq_refl true). Qed.

Lemma packet_tail_pack eof counter : counter < 32 ->
  pack_bits ([eof] ++ N_bits 5 counter) = [packet_last eof counter] /\
  (N.land (packet_last eof counter) 0x80 =? 0) = negb eof.
Proof. intros H. pose proof (below_spec 5 _ sweep_last counter H) as S. unfold ok_last in S.
  cbn [forallb] in S. rewrite !andb_true_iff in S. destruct S as ((S1 & S2) & (S3 & S4) & _).
  apply N.eqb_eq in S1, S3. apply Bool.eqb_prop in S2, S4.
  destruct eof; (split; [|assumption]).
  - rewrite <- S1. reflexivity.
  - rewrite <- S3. reflexivity. Qed.

Lemma N_bits_length n v : length (N_bits n v) = n.
Proof. unfold N_bits. rewrite map_length, seq_length. reflexivity. Qed.

Definition packet_bits (data25 : list N) (eof : bool) (counter : N) : list bool :=
  firstn 200 (bytes_bits data25) ++ [eof] ++ N_bits 5 counter.

Lemma packet_bits_ok data25 eof counter : length data25 = 25%nat -> all_bytes data25 -> counter < 32 ->
  length (packet_bits data25 eof counter) = 206%nat /\
  to_bytes (packet_bits data25 eof counter) = data25 ++ [packet_last eof counter].
Proof. intros L F Hc. unfold packet_bits.
  assert (E : firstn 200 (bytes_bits data25) = bytes_bits data25).
  { apply firstn_all2. rewrite bytes_bits_length, L. apply Nat.le_refl. }
  rewrite E. split.
  - rewrite !app_length, bytes_bits_length, L, N_bits_length. reflexivity.
  - unfold to_bytes. rewrite pack_bytes_app by exact F. rewrite (proj1 (packet_tail_pack eof counter Hc)). reflexivity. Qed.

(* ------------------------------------------------------------------ BERT: 197 bits -> 25 bytes, last one left-aligned *)
Fixpoint forallb2 {A} (f : A -> A -> bool) (a b : list A) : bool :=
  match a, b with
  | [], [] => true
  | x :: a', y :: b' => f x y && forallb2 f a' b'
  | _, _ => false
  end.

Lemma sweep_bits8 : all_lists 8 (fun a => (bits_N a <? 256) && forallb2 Bool.eqb (byte_bits (bits_N a)) a) = true.
Proof. vm_cast_no_check (eq_refl true). Qed.

Lemma forallb2_eqb_eq : forall a b, forallb2 Bool.eqb a b = true -> a = b.
Proof. induction a as [|x a IH]; intros [|y b] H; cbn [forallb2] in H; try discriminate; [reflexivity|].
  apply andb_prop in H. destruct H as [H1 H2]. apply Bool.eqb_prop in H1. subst. f_equal. apply IH. exact H2. Qed.

Lemma byte_bits_bits_N a : length a = 8%nat -> byte_bits (bits_N a) = a /\ bits_N a < 256.
Proof. intros L. pose proof (all_lists_spec 8 _ sweep_bits8 a L) as S. cbv beta in S.
  apply andb_prop in S. destruct S as [S1 S2]. split; [apply forallb2_eqb_eq; exact S2 | apply N.ltb_lt; exact S1]. Qed.

(** on a whole number of bytes, bytes_bits inverts pack_bits *)
Lemma bytes_bits_pack : forall k l, length l = (8 * k)%nat -> bytes_bits (pack_bits l) = l /\ length (pack_bits l) = k.
Proof. induction k as [|k IH]; intros l L.
  - destruct l; [split; reflexivity | discriminate].
  - rewrite <- (firstn_skipn 8 l). 
    assert (L8 : length (firstn 8 l) = 8%nat) by (rewrite firstn_length; lia).
    rewrite pack_bits_cons8 by exact L8.
    destruct (IH (skipn 8 l) ltac:(rewrite skipn_length; lia)) as [E1 E2].
    change (bytes_bits (?x :: ?t)) with (byte_bits x ++ bytes_bits t).
    rewrite E1, (proj1 (byte_bits_bits_N _ L8)). cbn [length]. rewrite E2. split; reflexivity. Qed.

Lemma pack_bits_app8 : forall k a rest, length a = (8 * k)%nat -> pack_bits (a ++ rest) = pack_bits a ++ pack_bits rest.
Proof. induction k as [|k IH]; intros a rest L.
  - destruct a; [reflexivity | discriminate].
  - rewrite <- (firstn_skipn 8 a). rewrite <- app_assoc.
    assert (L8 : length (firstn 8 a) = 8%nat) by (rewrite firstn_length; lia).
    rewrite (pack_bits_cons8 _ (skipn 8 a ++ rest) L8), (pack_bits_cons8 _ (skipn 8 a) L8).
    rewrite IH by (rewrite skipn_length; lia). reflexivity. Qed.

Lemma pack_bits_5 t : length t = 5%nat -> pack_bits t = pack_bits (t ++ repeat false 3).
Proof. intros L. do 5 (destruct t as [|? t]; [discriminate|]). destruct t; [reflexivity | discriminate]. Qed.

Lemma bert_bytes_ok b : length b = 197%nat ->
  length (to_bytes b) = 25%nat /\ bytes_bits (to_bytes b) = b ++ repeat false 3.
Proof. intros L. unfold to_bytes.
  assert (E : pack_bits b = pack_bits (b ++ repeat false 3)).
  { rewrite <- (firstn_skipn 192 b).
    assert (La : length (firstn 192 b) = (8 * 24)%nat) by (rewrite firstn_length; lia).
    rewrite <- app_assoc. rewrite !(pack_bits_app8 24 _ _ La). f_equal.
    apply pack_bits_5. rewrite skipn_length. lia. }
  rewrite E. destruct (bytes_bits_pack 25 (b ++ repeat false 3)) as [E1 E2].
  { rewrite app_length, repeat_length, L. reflexivity. }
  split; assumption. Qed.

(* ------------------------------------------------------------------ lengths of the specification frames' parts *)
Lemma punctured_length g bits : length bits = ImplFrameDecoder.g_out g ->
  length (spec_puncture (Pspec g) (spec_conv bits)) =
  match g with GLsf => 368 | GStream => 272 | GPacket => 368 | GBert => 369 end%nat.
Proof. intros L. rewrite Pspec_agree, spec_puncture_keep by apply fd_matrix_nonempty.
  assert (Lc : length (spec_conv bits) = ImplFrameDecoder.g_in g).
  { rewrite spec_conv_length, L. destruct (vgeom_sizes g) as (_ & _ & _ & G2). rewrite G2. reflexivity. }
  rewrite keep_length by (unfold mask; rewrite mask_from_length; reflexivity).
  rewrite Lc. destruct g; reflexivity. Qed.

Lemma groups12_48 {A} (l : list A) : length l = 48%nat ->
  groups 12 l = [firstn 12 l; firstn 12 (skipn 12 l); firstn 12 (skipn 24 l); skipn 36 l].
Proof. intros L. do 48 (destruct l as [|? l]; [discriminate|]). destruct l; [reflexivity | discriminate]. Qed.

Lemma lich_chunk_length lsf n : length lsf = 30%nat -> n < 6 -> length (lich_chunk lsf n) = 6%nat.
Proof. intros L Hn. unfold lich_chunk. rewrite app_length, firstn_length, skipn_length, L. cbn [length]. lia. Qed.

Lemma golay24_bits_length d : length (golay24_bits d) = 24%nat.
Proof. apply N_bits_length. Qed.

Lemma spec_lich_length lsf n : length lsf = 30%nat -> n < 6 -> length (spec_lich lsf n) = 96%nat.
Proof. intros L Hn. unfold spec_lich.
  rewrite groups12_48 by (rewrite bytes_bits_length, lich_chunk_length by assumption; reflexivity).
  cbn [flat_map]. rewrite !app_length, !golay24_bits_length. reflexivity. Qed.
