(** Proofs about the puncture / depuncture models: for every matrix, every length and every content the C++
    loops compute the specification's [keep] / [spread]; then the four geometries of the modem. *)
From Coq Require Import NArith ZArith List Arith Bool Lia.
From M17 Require Import Bits ImplUtilBits LemmasUtilBits ConstsPuncture ImplPuncture SpecPuncture.
Import ListNotations.

(** * the cyclic matrix index *)
Lemma mod_succ s P : 0 < P -> (S s) mod P = if S (s mod P) =? P then 0 else S (s mod P).
Proof. intros HP. pose proof (Nat.div_mod s P ltac:(lia)) as E. pose proof (Nat.mod_upper_bound s P ltac:(lia)) as B.
  destruct (Nat.eqb_spec (S (s mod P)) P) as [H|H]; symmetry.
  - apply (Nat.mod_unique (S s) P (S (s / P))); [lia|]. rewrite Nat.mul_succ_r. lia.
  - apply (Nat.mod_unique (S s) P (s / P)); lia. Qed.

Lemma p_next_mod p s : 0 < length p -> p_next p (s mod length p) = (S s) mod length p.
Proof. intros H. unfold p_next. rewrite (mod_succ s (length p) H). reflexivity. Qed.

Lemma mask_from_S p s n : mask_from p s (S n) = p_at p (s mod length p) :: mask_from p (S s) n.
Proof. reflexivity. Qed.

Lemma mask_from_length p s n : length (mask_from p s n) = n.
Proof. unfold mask_from. rewrite map_length, seq_length. reflexivity. Qed.

(** * keep / spread *)
Lemma keep_nil_r {A} m : @keep A m [] = [].
Proof. destruct m; reflexivity. Qed.

Lemma keep_length {A} : forall m (l : list A), length m = length l -> length (keep m l) = count_true m.
Proof. unfold count_true. induction m as [|b m IH]; intros [|x l] H; try discriminate; [reflexivity|].
  cbn [keep filter]. destruct b; cbn [length]; rewrite IH by (cbn in H; lia); reflexivity. Qed.

Lemma keep_app {A} : forall m1 m2 (l1 l2 : list A), length m1 = length l1 -> keep (m1 ++ m2) (l1 ++ l2) = keep m1 l1 ++ keep m2 l2.
Proof. induction m1 as [|b m1 IH]; intros m2 [|x l1] l2 H; try discriminate; [reflexivity|].
  cbn [app keep]. rewrite IH by (cbn in H; lia). destruct b; reflexivity. Qed.

Lemma spread_length {A} (e : A) : forall m l, length (spread e m l) = length m.
Proof. induction m as [|b m IH]; intros l; [reflexivity|]. destruct b; [destruct l|]; cbn [spread length]; rewrite IH; reflexivity. Qed.

Lemma spread_keep_app {A} (e : A) : forall m1 (l1 : list A) m2 r, length m1 = length l1 ->
  spread e (m1 ++ m2) (keep m1 l1 ++ r) = erase_unkept e m1 l1 ++ spread e m2 r.
Proof. induction m1 as [|b m1 IH]; intros [|x l1] m2 r H; try discriminate; [reflexivity|].
  cbn [app keep erase_unkept]. destruct b; cbn [app spread]; rewrite IH by (cbn in H; lia); reflexivity. Qed.

Lemma spread_keep {A} (e : A) m (l : list A) : length m = length l -> spread e m (keep m l) = erase_unkept e m l.
Proof. intros H. pose proof (spread_keep_app e m l [] [] H) as K. rewrite !app_nil_r in K. exact K. Qed.

Lemma erase_unkept_length {A} (e : A) : forall m (l : list A), length m = length l -> length (erase_unkept e m l) = length l.
Proof. induction m as [|b m IH]; intros [|x l] H; try discriminate; [reflexivity|]. cbn [erase_unkept length]. rewrite IH by (cbn in H; lia). reflexivity. Qed.

Lemma nth_erase_unkept {A} (e : A) : forall m (l : list A) i, length m = length l ->
  nth i (erase_unkept e m l) e = if nth i m false then nth i l e else e.
Proof. induction m as [|b m IH]; intros [|x l] i H; try discriminate.
- destruct i; reflexivity.
- cbn [erase_unkept]. destruct i as [|i]; cbn [nth]; [destruct b; reflexivity|]. apply IH. cbn in H; lia. Qed.

(** * puncture: for every matrix, output size and content *)
Lemma puncture_loop_spec {A} (p : list N) (OUT : nat) : 0 < length p ->
  forall (inp out : list A) index s count, index <= OUT -> length out = OUT ->
  puncture_loop p OUT inp out index (s mod length p) count =
    (let k := firstn (OUT - index) (keep (mask_from p s (length inp)) inp) in
     (firstn index out ++ k ++ skipn (index + length k) out, count + length k)).
Proof. intros HP. induction inp as [|x rest IH]; intros out index s count Hi Hl; cbn zeta.
- cbn [puncture_loop]. rewrite keep_nil_r, firstn_nil. cbn [app length]. rewrite !Nat.add_0_r, firstn_skipn. reflexivity.
- cbn [puncture_loop length]. rewrite mask_from_S. destruct (Nat.eqb_spec index OUT) as [->|Hne].
  + rewrite Nat.sub_diag. cbn [firstn app length]. rewrite !Nat.add_0_r, firstn_skipn. reflexivity.
  + rewrite (p_next_mod p s HP). destruct (p_at p (s mod length p)); cbn [keep].
    * rewrite (IH (set_nth index x out) (S index) (S s) (S count)) by (rewrite ?set_nth_length; lia). cbn zeta.
      rewrite firstn_S_set_nth by lia. rewrite skipn_set_nth_gt by lia.
      replace (OUT - index) with (S (OUT - S index)) by lia. rewrite firstn_cons.
      set (k := firstn (OUT - S index) (keep (mask_from p (S s) (length rest)) rest)). cbn [length].
      rewrite <- app_assoc. cbn [app]. replace (S index + length k) with (index + S (length k)) by lia.
      replace (S count + length k) with (count + S (length k)) by lia. reflexivity.
    * apply IH; assumption. Qed.

Lemma puncture_spec {A} (p : list N) (OUT : nat) (inp prev : list A) : 0 < length p -> length prev = OUT ->
  OUT <= count_true (mask p (length inp)) ->
  puncture p OUT inp prev = (firstn OUT (keep (mask p (length inp)) inp), OUT).
Proof. intros HP Hl Hc. unfold puncture. pose proof (puncture_loop_spec p OUT HP inp prev 0 0 0 ltac:(lia) Hl) as K.
  rewrite Nat.mod_0_l in K by lia. rewrite K. clear K. cbn zeta. rewrite Nat.sub_0_r. fold (mask p (length inp)).
  assert (L : length (firstn OUT (keep (mask p (length inp)) inp)) = OUT).
  { rewrite firstn_length, keep_length by (unfold mask; rewrite mask_from_length; reflexivity). lia. }
  rewrite L. cbn [firstn app Nat.add]. rewrite skipn_all2 by lia. rewrite app_nil_r. reflexivity. Qed.

(** * puncture_bytes is puncture on the bit views *)
Lemma skipn_cons_nth' {A} (d : A) : forall l n, n < length l -> skipn n l = nth n l d :: skipn (S n) l.
Proof. induction l as [|h t IH]; intros [|n] H; cbn [length] in H; try lia; [reflexivity|].
  cbn [skipn nth]. rewrite (IH n) by lia. reflexivity. Qed.

Lemma puncture_bytes_loop_spec (p : list N) (OUTB : nat) (inp : list N) :
  forall n s out index pindex count, s + n = 8 * length inp -> length out = OUTB -> index <= 8 * OUTB ->
  let r := puncture_bytes_loop p (8 * OUTB) inp (seq s n) out index pindex count in
  let r' := puncture_loop p (8 * OUTB) (skipn s (bytes_bits inp)) (bytes_bits out) index pindex count in
  bytes_bits (fst r) = fst r' /\ snd r = snd r' /\ length (fst r) = OUTB.
Proof. induction n as [|n IH]; intros s out index pindex count Hs Hl Hi; cbn zeta.
- cbn [seq puncture_bytes_loop]. rewrite skipn_all2 by (rewrite bytes_bits_length; lia). cbn [puncture_loop fst snd]. auto.
- cbn [seq puncture_bytes_loop]. rewrite (skipn_cons_nth' false) by (rewrite bytes_bits_length; lia). cbn [puncture_loop].
  destruct (Nat.eqb_spec index (8 * OUTB)) as [E|Hne]; [cbn [fst snd]; auto|].
  destruct (p_at p pindex).
  + rewrite get_bit_index_spec.
    specialize (IH (S s) (assign_bit_index out index (nth s (bytes_bits inp) false)) (S index) (p_next p pindex) (S count)
                   ltac:(lia) ltac:(rewrite assign_bit_index_length; exact Hl) ltac:(lia)). cbn zeta in IH.
    rewrite assign_bit_index_spec in IH by lia. exact IH.
  + apply IH; [lia | exact Hl | exact Hi]. Qed.

Lemma puncture_bytes_spec (p : list N) (OUT : nat) (inp prev : list N) : length prev = OUT ->
  bytes_bits (fst (puncture_bytes p OUT inp prev)) = fst (puncture p (OUT * 8) (bytes_bits inp) (bytes_bits prev)) /\
  snd (puncture_bytes p OUT inp prev) = snd (puncture p (OUT * 8) (bytes_bits inp) (bytes_bits prev)) /\
  length (fst (puncture_bytes p OUT inp prev)) = OUT.
Proof. intros Hl. unfold puncture_bytes, puncture. rewrite !(Nat.mul_comm _ 8).
  exact (puncture_bytes_loop_spec p OUT inp (8 * length inp) 0 prev 0 0 0 ltac:(lia) Hl ltac:(lia)). Qed.

(** * depuncture: every position written, for every prior content *)
Lemma depuncture_loop_spec (p : list N) (inp : list Z) : 0 < length p ->
  forall n s out index count, s + n <= length out -> index <= length inp ->
  depuncture_loop p inp (seq s n) out index (s mod length p) count =
    (firstn s out ++ spread 0%Z (mask_from p s n) (skipn index inp) ++ skipn (s + n) out,
     count + erasures (mask_from p s n) (length inp - index)).
Proof. intros HP. induction n as [|n IH]; intros s out index count Hs Hi.
- cbn [seq depuncture_loop mask_from map spread erasures app]. rewrite !Nat.add_0_r, firstn_skipn. reflexivity.
- cbn [seq depuncture_loop]. rewrite mask_from_S, (p_next_mod p s HP).
  destruct (p_at p (s mod length p)); cbn [negb orb].
  + destruct (Nat.eqb_spec index (length inp)) as [E|Hne].
    * rewrite IH by (rewrite ?set_nth_length; lia). rewrite firstn_S_set_nth, skipn_set_nth_gt by lia.
      subst index. rewrite skipn_all, Nat.sub_diag. cbn [spread erasures]. rewrite <- app_assoc. cbn [app].
      replace (S s + n) with (s + S n) by lia. f_equal. lia.
    * rewrite IH by (rewrite ?set_nth_length; lia). rewrite firstn_S_set_nth, skipn_set_nth_gt by lia.
      rewrite (skipn_cons_nth' 0%Z inp index) by lia. cbn [spread]. rewrite <- app_assoc. cbn [app].
      replace (length inp - index) with (S (length inp - S index)) by lia. cbn [erasures].
      replace (S s + n) with (s + S n) by lia. reflexivity.
  + rewrite IH by (rewrite ?set_nth_length; lia). rewrite firstn_S_set_nth, skipn_set_nth_gt by lia.
    cbn [spread erasures]. rewrite <- app_assoc. cbn [app]. replace (S s + n) with (s + S n) by lia. f_equal. lia. Qed.

Lemma depuncture_spec (p : list N) (OUT : nat) (inp prev : list Z) : 0 < length p -> length prev = OUT ->
  depuncture p OUT inp prev = (spread 0%Z (mask p OUT) inp, erasures (mask p OUT) (length inp)).
Proof. intros HP Hl. unfold depuncture. pose proof (depuncture_loop_spec p inp HP OUT 0 prev 0 0 ltac:(lia) ltac:(lia)) as K.
  rewrite Nat.mod_0_l in K by lia. rewrite K. clear K.
  cbn [firstn skipn app Nat.add]. rewrite skipn_all2 by lia. rewrite app_nil_r, Nat.sub_0_r. reflexivity. Qed.

(** depunctured<M>: the same, from any initial content of the local array (a read past the input yields the model's 0) *)
Lemma depunctured_loop_spec (p : list N) (inp : list Z) : 0 < length p ->
  forall n s result index, s + n <= length result ->
  depunctured_loop p inp (seq s n) result index (s mod length p) =
    firstn s result ++ spread 0%Z (mask_from p s n) (skipn index inp) ++ skipn (s + n) result.
Proof. intros HP. induction n as [|n IH]; intros s result index Hs.
- cbn [seq depunctured_loop mask_from map spread app]. rewrite !Nat.add_0_r, firstn_skipn. reflexivity.
- cbn [seq depunctured_loop]. rewrite mask_from_S, (p_next_mod p s HP).
  destruct (p_at p (s mod length p)); cbn [negb].
  + rewrite IH by (rewrite ?set_nth_length; lia). rewrite firstn_S_set_nth, skipn_set_nth_gt by lia.
    destruct (Nat.ltb_spec index (length inp)) as [Hlt|Hge].
    * rewrite (skipn_cons_nth' 0%Z inp index) by lia. cbn [spread]. rewrite <- app_assoc. cbn [app]. replace (S s + n) with (s + S n) by lia. reflexivity.
    * rewrite nth_overflow by lia. rewrite (@skipn_all2 _ (S index) inp), (@skipn_all2 _ index inp) by lia. cbn [spread]. rewrite <- app_assoc. cbn [app]. replace (S s + n) with (s + S n) by lia. reflexivity.
  + rewrite IH by (rewrite ?set_nth_length; lia). rewrite firstn_S_set_nth, skipn_set_nth_gt by lia.
    cbn [spread]. rewrite <- app_assoc. cbn [app]. replace (S s + n) with (s + S n) by lia. reflexivity. Qed.

Lemma depunctured_spec (p : list N) (M : nat) (inp junk : list Z) : 0 < length p -> length junk = M ->
  depunctured_from p M inp junk = spread 0%Z (mask p M) inp.
Proof. intros HP Hl. unfold depunctured_from. pose proof (depunctured_loop_spec p inp HP M 0 junk 0 ltac:(lia)) as K.
  rewrite Nat.mod_0_l in K by lia. rewrite K. clear K.
  cbn [firstn skipn app Nat.add]. rewrite skipn_all2 by lia. apply app_nil_r. Qed.

(** * the matrices *)
Lemma make_p1_is_spec : make_p1 = SpecPuncture.p1.
Proof. reflexivity. Qed.
Lemma P2_is_spec : P2 = SpecPuncture.p2.
Proof. reflexivity. Qed.
Lemma P3_is_spec : P3 = SpecPuncture.p3.
Proof. reflexivity. Qed.

Lemma P_lengths : length P1 = 61 /\ length P2 = 12 /\ length P3 = 8.
Proof. repeat split; reflexivity. Qed.

(** kept positions per geometry *)
Lemma mask_counts : count_true (mask P1 488) = 368 /\ count_true (mask P2 296) = 272 /\
               count_true (mask P2 402) = 369 /\ count_true (mask P3 420) = 368 /\ count_true (mask P2 401) = 368.
Proof. repeat split; reflexivity. Qed.

Lemma mask_bert_split : mask P2 402 = mask P2 401 ++ [true].
Proof. reflexivity. Qed.

Lemma puncture_sites_lemma :
  Forall (fun s => In s [(1, 368, 488); (2, 272, 296); (2, 368, 402); (3, 368, 420)]%N) depuncture_sites /\
  Forall (fun s => In s [(1, 488, 368); (2, 296, 272); (2, 402, 368); (3, 420, 368)]%N) puncture_sites /\
  Forall (fun s => In s [(1, 61, 46); (2, 37, 34)]%N) puncture_bytes_sites.
Proof. split; [|split]; repeat (apply Forall_cons; [cbn [In]; auto 8|]); apply Forall_nil. Qed.

(** * the four geometries *)
Section Geometry.
Variables (p : list N) (IN OUT : nat).
Hypothesis HP : 0 < length p.

Lemma geometry_puncture {A} (inp prev : list A) : OUT <= count_true (mask p IN) -> length inp = IN -> length prev = OUT ->
  puncture p OUT inp prev = (firstn OUT (keep (mask p IN) inp), OUT) /\ length (firstn OUT (keep (mask p IN) inp)) = OUT.
Proof using HP. intros Hc Hi Ho. subst IN. split; [apply puncture_spec; assumption|].
  rewrite firstn_length, keep_length by (unfold mask; rewrite mask_from_length; reflexivity). lia. Qed.

Lemma geometry_exact {A} (inp : list A) : count_true (mask p IN) = OUT -> length inp = IN ->
  firstn OUT (keep (mask p IN) inp) = keep (mask p IN) inp.
Proof using HP. intros Hc Hi. apply firstn_all2. rewrite keep_length by (unfold mask; rewrite mask_from_length; lia). lia. Qed.

(** depuncture(puncture(l)) when nothing is cut *)
Lemma geometry_roundtrip (l prev1 prev2 : list Z) : count_true (mask p IN) = OUT -> length l = IN -> length prev1 = OUT -> length prev2 = IN ->
  fst (depuncture p IN (fst (puncture p OUT l prev1)) prev2) = erase_unkept 0%Z (mask p IN) l.
Proof using HP. intros Hc Hl H1 H2. rewrite (proj1 (geometry_puncture l prev1 ltac:(lia) Hl H1)). cbn [fst].
  rewrite (geometry_exact l Hc Hl). rewrite depuncture_spec by assumption. cbn [fst].
  apply spread_keep. unfold mask. rewrite mask_from_length. lia. Qed.
End Geometry.

Lemma P1_nonempty : 0 < length P1. Proof. cbn; lia. Qed.
Lemma P2_nonempty : 0 < length P2. Proof. cbn; lia. Qed.
Lemma P3_nonempty : 0 < length P3. Proof. cbn; lia. Qed.

(** BERT: 369 positions are kept by the matrix, the frame has room for 368: the last kept position, 401, is cut *)
Lemma bert_keep {A} (d : A) (l : list A) : length l = 402 ->
  keep (mask P2 402) l = firstn 368 (keep (mask P2 402) l) ++ [nth 401 l d] /\
  firstn 368 (keep (mask P2 402) l) = keep (mask P2 401) (firstn 401 l).
Proof. intros Hl. assert (E : l = firstn 401 l ++ [nth 401 l d]).
  { rewrite <- (firstn_skipn 401 l) at 1. f_equal. rewrite (skipn_cons_nth' d) by lia. rewrite skipn_all2 by lia. reflexivity. }
  assert (L1 : length (firstn 401 l) = 401) by (rewrite firstn_length; lia).
  assert (K : keep (mask P2 402) l = keep (mask P2 401) (firstn 401 l) ++ [nth 401 l d]).
  { rewrite E at 1. rewrite mask_bert_split. rewrite keep_app by (unfold mask; rewrite mask_from_length; lia). reflexivity. }
  assert (L2 : length (keep (mask P2 401) (firstn 401 l)) = 368).
  { rewrite keep_length by (unfold mask; rewrite mask_from_length; lia). reflexivity. }
  rewrite K. rewrite firstn_app, L2, Nat.sub_diag, firstn_O, app_nil_r. rewrite (@firstn_all2 _ 368 (keep (mask P2 401) (firstn 401 l))) by lia. split; reflexivity. Qed.

Lemma erase_unkept_app {A} (e : A) : forall m1 m2 (l1 l2 : list A), length m1 = length l1 ->
  erase_unkept e (m1 ++ m2) (l1 ++ l2) = erase_unkept e m1 l1 ++ erase_unkept e m2 l2.
Proof. induction m1 as [|b m1 IH]; intros m2 [|x l1] l2 H; try discriminate; [reflexivity|].
  cbn [app erase_unkept]. rewrite IH by (cbn in H; lia). reflexivity. Qed.

Lemma bert_roundtrip (l prev1 prev2 : list Z) : length l = 402 -> length prev1 = 368 -> length prev2 = 402 ->
  fst (depuncture P2 402 (fst (puncture P2 368 l prev1)) prev2) = erase_unkept 0%Z (mask P2 401 ++ [false]) l.
Proof. intros Hl H1 H2.
  rewrite (proj1 (geometry_puncture P2 402 368 P2_nonempty l prev1 ltac:(rewrite (proj1 (proj2 (proj2 mask_counts))); lia) Hl H1)). cbn [fst].
  destruct (bert_keep 0%Z l Hl) as [_ K]. rewrite K. rewrite depuncture_spec by (exact P2_nonempty || exact H2). cbn [fst].
  rewrite mask_bert_split.
  assert (L1 : length (firstn 401 l) = 401) by (rewrite firstn_length; lia).
  pose proof (spread_keep_app 0%Z (mask P2 401) (firstn 401 l) [true] [] ltac:(unfold mask; rewrite mask_from_length; lia)) as S.
  rewrite app_nil_r in S. rewrite S. cbn [spread].
  assert (E : l = firstn 401 l ++ [nth 401 l 0%Z]).
  { rewrite <- (firstn_skipn 401 l) at 1. f_equal. rewrite (skipn_cons_nth' 0%Z) by lia. rewrite skipn_all2 by lia. reflexivity. }
  rewrite E at 2. rewrite erase_unkept_app by (unfold mask; rewrite mask_from_length; lia). reflexivity. Qed.

(** number of erasures = positions - values actually placed *)
Lemma erasures_count : forall m k, erasures m k + Nat.min (count_true m) k = length m.
Proof. unfold count_true. induction m as [|b m IH]; intros k; [reflexivity|]. destruct b; cbn [erasures filter length].
- destruct k as [|k]; [specialize (IH 0); lia | specialize (IH k); lia].
- specialize (IH k). lia. Qed.

Lemma geometry_depuncture (p : list N) (OUT : nat) (x prev : list Z) : 0 < length p -> length prev = OUT ->
  count_true (mask p OUT) >= length x ->
  depuncture p OUT x prev = (spread 0%Z (mask p OUT) x, OUT - length x).
Proof. intros HP Hl Hc. rewrite depuncture_spec by assumption. f_equal.
  pose proof (erasures_count (mask p OUT) (length x)) as E. unfold mask in E at 3. rewrite mask_from_length in E. lia. Qed.

(** the modulator's packed geometries *)
Lemma c_lsf : 368 <= count_true (mask P1 488).
Proof. rewrite (proj1 mask_counts). apply le_n. Qed.
Lemma c_stream : 272 <= count_true (mask P2 296).
Proof. rewrite (proj1 (proj2 mask_counts)). apply le_n. Qed.

Lemma pb_lsf_bits (inp prev : list N) : length prev = 46 ->
  bytes_bits (fst (puncture_bytes_lsf inp prev)) = fst (puncture P1 368 (bytes_bits inp) (bytes_bits prev)).
Proof. intros Ho. exact (proj1 (puncture_bytes_spec P1 46 inp prev Ho)). Qed.
Lemma pb_lsf_rest (inp prev : list N) : length prev = 46 ->
  snd (puncture_bytes_lsf inp prev) = snd (puncture P1 368 (bytes_bits inp) (bytes_bits prev)) /\ length (fst (puncture_bytes_lsf inp prev)) = 46.
Proof. intros Ho. exact (proj2 (puncture_bytes_spec P1 46 inp prev Ho)). Qed.
Lemma p_lsf_bits (inp prev : list N) : length inp = 61 -> length prev = 46 ->
  puncture P1 368 (bytes_bits inp) (bytes_bits prev) = (firstn 368 (keep (mask P1 488) (bytes_bits inp)), 368).
Proof. intros Hi Ho.
  assert (Lb : length (bytes_bits inp) = 488) by (rewrite bytes_bits_length, Hi; reflexivity).
  assert (Lp : length (bytes_bits prev) = 368) by (rewrite bytes_bits_length, Ho; reflexivity).
  exact (proj1 (geometry_puncture P1 488 368 P1_nonempty (bytes_bits inp) (bytes_bits prev) c_lsf Lb Lp)). Qed.

Lemma puncture_bytes_lsf_lemma (inp prev : list N) : length inp = 61 -> length prev = 46 ->
  bytes_bits (fst (puncture_bytes_lsf inp prev)) = keep (mask P1 488) (bytes_bits inp) /\
  snd (puncture_bytes_lsf inp prev) = 368 /\ length (fst (puncture_bytes_lsf inp prev)) = 46.
Proof. intros Hi Ho. destruct (pb_lsf_rest inp prev Ho) as [E2 E3]. rewrite (pb_lsf_bits inp prev Ho), E2, (p_lsf_bits inp prev Hi Ho). cbn [fst snd].
  split; [|split; [reflexivity | exact E3]].
  apply (geometry_exact P1 488 368 P1_nonempty (bytes_bits inp) (proj1 mask_counts)). rewrite bytes_bits_length, Hi. reflexivity. Qed.

Lemma pb_stream_bits (inp prev : list N) : length prev = 34 ->
  bytes_bits (fst (puncture_bytes_stream inp prev)) = fst (puncture P2 272 (bytes_bits inp) (bytes_bits prev)).
Proof. intros Ho. exact (proj1 (puncture_bytes_spec P2 34 inp prev Ho)). Qed.
Lemma pb_stream_rest (inp prev : list N) : length prev = 34 ->
  snd (puncture_bytes_stream inp prev) = snd (puncture P2 272 (bytes_bits inp) (bytes_bits prev)) /\ length (fst (puncture_bytes_stream inp prev)) = 34.
Proof. intros Ho. exact (proj2 (puncture_bytes_spec P2 34 inp prev Ho)). Qed.
Lemma p_stream_bits (inp prev : list N) : length inp = 37 -> length prev = 34 ->
  puncture P2 272 (bytes_bits inp) (bytes_bits prev) = (firstn 272 (keep (mask P2 296) (bytes_bits inp)), 272).
Proof. intros Hi Ho.
  assert (Lb : length (bytes_bits inp) = 296) by (rewrite bytes_bits_length, Hi; reflexivity).
  assert (Lp : length (bytes_bits prev) = 272) by (rewrite bytes_bits_length, Ho; reflexivity).
  exact (proj1 (geometry_puncture P2 296 272 P2_nonempty (bytes_bits inp) (bytes_bits prev) c_stream Lb Lp)). Qed.

Lemma puncture_bytes_stream_lemma (inp prev : list N) : length inp = 37 -> length prev = 34 ->
  bytes_bits (fst (puncture_bytes_stream inp prev)) = keep (mask P2 296) (bytes_bits inp) /\
  snd (puncture_bytes_stream inp prev) = 272 /\ length (fst (puncture_bytes_stream inp prev)) = 34.
Proof. intros Hi Ho. destruct (pb_stream_rest inp prev Ho) as [E2 E3]. rewrite (pb_stream_bits inp prev Ho), E2, (p_stream_bits inp prev Hi Ho). cbn [fst snd].
  split; [|split; [reflexivity | exact E3]].
  apply (geometry_exact P2 296 272 P2_nonempty (bytes_bits inp) (proj1 (proj2 mask_counts))). rewrite bytes_bits_length, Hi. reflexivity. Qed.

(** * statements of the property file *)
Lemma puncture_general_thm : forall (p : list N) (OUT : nat) (A : Type) (inp prev : list A),
  0 < length p -> length prev = OUT -> OUT <= count_true (mask p (length inp)) ->
  puncture p OUT inp prev = (firstn OUT (keep (mask p (length inp)) inp), OUT).
Proof. intros p OUT A inp prev. exact (puncture_spec p OUT inp prev). Qed.

Lemma puncture_geometries_thm : forall (A : Type) (l prev : list A),
  (length l = 488 -> length prev = 368 ->
     puncture_lsf l prev = (firstn 368 (keep (mask P1 488) l), 368) /\ length (firstn 368 (keep (mask P1 488) l)) = 368) /\
  (length l = 296 -> length prev = 272 ->
     puncture_stream l prev = (firstn 272 (keep (mask P2 296) l), 272) /\ length (firstn 272 (keep (mask P2 296) l)) = 272) /\
  (length l = 402 -> length prev = 368 ->
     puncture_bert l prev = (firstn 368 (keep (mask P2 402) l), 368) /\ length (firstn 368 (keep (mask P2 402) l)) = 368) /\
  (length l = 420 -> length prev = 368 ->
     puncture_packet l prev = (firstn 368 (keep (mask P3 420) l), 368) /\ length (firstn 368 (keep (mask P3 420) l)) = 368).
Proof. intros A l prev. split; [|split; [|split]]; intros Hl Hp.
- apply (geometry_puncture P1 488 368 P1_nonempty l prev); [rewrite (proj1 mask_counts); apply le_n | exact Hl | exact Hp].
- apply (geometry_puncture P2 296 272 P2_nonempty l prev); [rewrite (proj1 (proj2 mask_counts)); apply le_n | exact Hl | exact Hp].
- apply (geometry_puncture P2 402 368 P2_nonempty l prev); [rewrite (proj1 (proj2 (proj2 mask_counts))); apply le_S, le_n | exact Hl | exact Hp].
- apply (geometry_puncture P3 420 368 P3_nonempty l prev); [rewrite (proj1 (proj2 (proj2 (proj2 mask_counts)))); apply le_n | exact Hl | exact Hp].
Qed.

Lemma keep_drops_nothing_thm : forall (A : Type) (l : list A),
  (length l = 488 -> firstn 368 (keep (mask P1 488) l) = keep (mask P1 488) l) /\
  (length l = 296 -> firstn 272 (keep (mask P2 296) l) = keep (mask P2 296) l) /\
  (length l = 420 -> firstn 368 (keep (mask P3 420) l) = keep (mask P3 420) l).
Proof. intros A l. split; [|split]; intros Hl.
- exact (geometry_exact P1 488 368 P1_nonempty l (proj1 mask_counts) Hl).
- exact (geometry_exact P2 296 272 P2_nonempty l (proj1 (proj2 mask_counts)) Hl).
- exact (geometry_exact P3 420 368 P3_nonempty l (proj1 (proj2 (proj2 (proj2 mask_counts)))) Hl).
Qed.

Lemma puncture_bytes_geometries_thm : forall inp prev : list N,
  (length inp = 61 -> length prev = 46 ->
     bytes_bits (fst (puncture_bytes_lsf inp prev)) = keep (mask P1 488) (bytes_bits inp) /\
     snd (puncture_bytes_lsf inp prev) = 368 /\ length (fst (puncture_bytes_lsf inp prev)) = 46) /\
  (length inp = 37 -> length prev = 34 ->
     bytes_bits (fst (puncture_bytes_stream inp prev)) = keep (mask P2 296) (bytes_bits inp) /\
     snd (puncture_bytes_stream inp prev) = 272 /\ length (fst (puncture_bytes_stream inp prev)) = 34).
Proof. intros inp prev. split; [exact (puncture_bytes_lsf_lemma inp prev) | exact (puncture_bytes_stream_lemma inp prev)]. Qed.

Lemma depuncture_geometries_thm : forall x prev : list Z,
  (length x = 368 -> length prev = 488 -> depuncture_lsf x prev = (spread 0%Z (mask P1 488) x, 120)) /\
  (length x = 272 -> length prev = 296 -> depuncture_stream x prev = (spread 0%Z (mask P2 296) x, 24)) /\
  (length x = 368 -> length prev = 402 -> depuncture_bert x prev = (spread 0%Z (mask P2 402) x, 34)) /\
  (length x = 368 -> length prev = 420 -> depuncture_packet x prev = (spread 0%Z (mask P3 420) x, 52)).
Proof. intros x prev. split; [|split; [|split]]; intros Hx Hp.
- unfold depuncture_lsf. rewrite (geometry_depuncture P1 488 x prev P1_nonempty Hp) by (rewrite (proj1 mask_counts), Hx; apply le_n). rewrite Hx. reflexivity.
- unfold depuncture_stream. rewrite (geometry_depuncture P2 296 x prev P2_nonempty Hp) by (rewrite (proj1 (proj2 mask_counts)), Hx; apply le_n). rewrite Hx. reflexivity.
- unfold depuncture_bert. rewrite (geometry_depuncture P2 402 x prev P2_nonempty Hp) by (rewrite (proj1 (proj2 (proj2 mask_counts))), Hx; apply le_S, le_n). rewrite Hx. reflexivity.
- unfold depuncture_packet. rewrite (geometry_depuncture P3 420 x prev P3_nonempty Hp) by (rewrite (proj1 (proj2 (proj2 (proj2 mask_counts)))), Hx; apply le_n). rewrite Hx. reflexivity.
Qed.

Lemma depuncture_history_free_thm : forall (p : list N) (OUT : nat) (x prev prev' : list Z),
  0 < length p -> length prev = OUT -> length prev' = OUT -> depuncture p OUT x prev = depuncture p OUT x prev'.
Proof. intros p OUT x prev prev' HP H1 H2. rewrite (depuncture_spec p OUT x prev HP H1). symmetry. exact (depuncture_spec p OUT x prev' HP H2). Qed.

Lemma depuncture_puncture_thm : forall l prev1 prev2 : list Z,
  (length l = 488 -> length prev1 = 368 -> length prev2 = 488 ->
     fst (depuncture_lsf (fst (puncture_lsf l prev1)) prev2) = erase_unkept 0%Z (mask P1 488) l) /\
  (length l = 296 -> length prev1 = 272 -> length prev2 = 296 ->
     fst (depuncture_stream (fst (puncture_stream l prev1)) prev2) = erase_unkept 0%Z (mask P2 296) l) /\
  (length l = 402 -> length prev1 = 368 -> length prev2 = 402 ->
     fst (depuncture_bert (fst (puncture_bert l prev1)) prev2) = erase_unkept 0%Z (mask P2 401 ++ [false]) l) /\
  (length l = 420 -> length prev1 = 368 -> length prev2 = 420 ->
     fst (depuncture_packet (fst (puncture_packet l prev1)) prev2) = erase_unkept 0%Z (mask P3 420) l).
Proof. intros l prev1 prev2. split; [|split; [|split]]; intros Hl H1 H2.
- exact (geometry_roundtrip P1 488 368 P1_nonempty l prev1 prev2 (proj1 mask_counts) Hl H1 H2).
- exact (geometry_roundtrip P2 296 272 P2_nonempty l prev1 prev2 (proj1 (proj2 mask_counts)) Hl H1 H2).
- exact (bert_roundtrip l prev1 prev2 Hl H1 H2).
- exact (geometry_roundtrip P3 420 368 P3_nonempty l prev1 prev2 (proj1 (proj2 (proj2 (proj2 mask_counts)))) Hl H1 H2).
Qed.
