(** The M17 address encoding written from the specification (DESIGN.md Appendix A), independent of the C++:
    base 40 over the alphabet " ABCDEFGHIJKLMNOPQRSTUVWXYZ0123456789-/." (values 0..39), first character least
    significant, six bytes big-endian; 0xFFFFFFFFFFFF = broadcast; values >= 40^9 are reserved. *)
From Coq Require Import NArith List Bool Arith.
Import ListNotations.
Local Open Scope N_scope.

(** character codes (ASCII) of the alphabet, value = position *)
Definition alphabet : list N :=
  [32;                                                                     (* ' ' = 0 *)
   65; 66; 67; 68; 69; 70; 71; 72; 73; 74; 75; 76; 77;                     (* A..M = 1..13 *)
   78; 79; 80; 81; 82; 83; 84; 85; 86; 87; 88; 89; 90;                     (* N..Z = 14..26 *)
   48; 49; 50; 51; 52; 53; 54; 55; 56; 57;                                 (* 0..9 = 27..36 *)
   45; 47; 46].                                                            (* - / . = 37 38 39 *)

(** the characters a callsign may contain (the alphabet without the space) *)
Definition callsign_chars : list N := tl alphabet.

Definition valid_char (c : N) : Prop := In c callsign_chars.
Definition valid_charb (c : N) : bool := existsb (N.eqb c) callsign_chars.

(** a callsign: 1..9 characters of the alphabet A-Z 0-9 - / . *)
Definition valid_callsign (s : list N) : Prop :=
  (1 <= length s <= 9)%nat /\ Forall valid_char s.

Fixpoint index_of (c : N) (l : list N) (i : N) : option N :=
  match l with
  | [] => None
  | x :: t => if x =? c then Some i else index_of c t (i + 1)
  end.
Definition spec_digit (c : N) : option N := index_of c alphabet 0.

(** value of a little-endian base-40 numeral *)
Definition value40 (ds : list N) : N := fold_right (fun d acc => d + 40 * acc) 0 ds.

Definition digit_or_0 (c : N) : N := match spec_digit c with Some d => d | None => 0 end.
Definition spec_value (s : list N) : N := value40 (map digit_or_0 s).

(** big-endian bytes <-> number *)
Definition be_value (bytes : list N) : N := fold_left (fun acc b => 256 * acc + b) bytes 0.
Definition be_bytes6 (v : N) : list N :=
  [(v / 2 ^ 40) mod 256; (v / 2 ^ 32) mod 256; (v / 2 ^ 24) mod 256; (v / 2 ^ 16) mod 256; (v / 2 ^ 8) mod 256; v mod 256].

Definition spec_encode (s : list N) : list N := be_bytes6 (spec_value s).

Definition broadcast_value : N := 2 ^ 48 - 1.
Definition reserved_from : N := 40 ^ 9.
Definition broadcast_text : list N := [66; 82; 79; 65; 68; 67; 65; 83; 84].     (* "BROADCAST" *)

(** little-endian base-40 digits of v, at most n of them, stopping when nothing is left *)
Fixpoint digits40 (n : nat) (v : N) : list N :=
  match n with
  | O => []
  | S n' => if v =? 0 then [] else (v mod 40) :: digits40 n' (v / 40)
  end.

(** the call array of the C++ API: the string followed by NULs up to ten characters *)
Definition pad10 (s : list N) : list N := s ++ repeat 0 (10 - length s).

Inductive decoded := Broadcast | Reserved | Callsign (s : list N).

(** decoding per the specification; a zero digit below the most significant one denotes the space character *)
Definition spec_decode (bytes : list N) : decoded :=
  let v := be_value bytes in
  if v =? broadcast_value then Broadcast
  else if reserved_from <=? v then Reserved
  else Callsign (map (fun d => nth (N.to_nat d) alphabet 0) (digits40 9 v)).

(** a C string: the characters before the first NUL *)
Fixpoint c_string (l : list N) : list N :=
  match l with
  | [] => []
  | c :: t => if c =? 0 then [] else c :: c_string t
  end.
