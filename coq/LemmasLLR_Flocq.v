(** C12 — the SpecFloat operations used by ImplLLR are Flocq's IEEE-754 operations (round to nearest even).

    Part 1 (any format): [B2SF] of Flocq's [Bplus]/[Bminus]/[Bdiv]/[binary_normalize] (mode_NE) equals
    [SFadd]/[SFsub]/[SFdiv]/[SpecFloat.binary_normalize] on the [B2SF] of the arguments; [Bltb] is [SFltb] by
    definition.  (Flocq's PrimFloat.v proves the same for binary64 only; the proofs below are format-generic.)
    Part 2: the soft demapper written directly with Flocq's operations on [binary_float] ([fmake_llr_map], [fllr]);
    its tables for float/double x widths 2,3,4 are, entry by entry, the tables of ImplLLR ([vm_compute]), and
    [fllr] = [llr] on every argument.
    These statements mention Flocq's operations, whose definitions embed proofs over the reals; they therefore
    depend on the standard library's real-number axioms (listed by Print Assumptions in Properties_C12.v).  The
    property theorems themselves do not. *)
From Coq Require Import ZArith Lia List Bool Floats.SpecFloat.
From Flocq Require Import Core.Zaux Core.FLX Calc.Round IEEE754.BinarySingleNaN.
From M17 Require Import ConstsLlr ImplLLR.
Import ListNotations.
Open Scope Z_scope.

Section Equiv.
  Variables prec emax : Z.
  Context (Hp : Prec_gt_0 prec) (Hm : Prec_lt_emax prec emax).

  Lemma round_nearest_even_equiv : forall s m l, round_nearest_even m l = choice_mode mode_NE s m l.
  Proof.
    intros s m l. case l; [reflexivity|intro c].
    case c; [ | reflexivity..].
    now simpl; unfold Round.cond_incr; case Z.even.
  Qed.

  Lemma binary_round_aux_equiv : forall sx mx ex lx,
    SpecFloat.binary_round_aux prec emax sx mx ex lx = BinarySingleNaN.binary_round_aux prec emax mode_NE sx mx ex lx.
  Proof.
    intros sx mx ex lx. unfold SpecFloat.binary_round_aux, BinarySingleNaN.binary_round_aux.
    set (mrse' := shr_fexp _ _ _ _ _). case mrse'; intros mrs' e'; simpl.
    now rewrite (round_nearest_even_equiv sx).
  Qed.

  Lemma binary_round_equiv : forall s m e,
    SpecFloat.binary_round prec emax s m e = BinarySingleNaN.binary_round prec emax mode_NE s m e.
  Proof.
    intros s m e. unfold SpecFloat.binary_round, BinarySingleNaN.binary_round, shl_align_fexp.
    set (mez := shl_align _ _ _); case mez as [mz ez].
    apply binary_round_aux_equiv.
  Qed.

  Lemma binary_normalize_equiv : forall m e szero,
    SpecFloat.binary_normalize prec emax m e szero = B2SF (BinarySingleNaN.binary_normalize prec emax Hp Hm mode_NE m e szero).
  Proof.
    intros m e szero. case m as [ | p | p].
    - now simpl.
    - simpl; rewrite B2SF_SF2B; apply binary_round_equiv.
    - simpl; rewrite B2SF_SF2B; apply binary_round_equiv.
  Qed.

  Theorem add_equiv : forall x y : binary_float prec emax,
    SFadd prec emax (B2SF x) (B2SF y) = B2SF (Bplus mode_NE x y).
  Proof.
    intros [sx|sx| |sx mx ex Bx] [sy|sy| |sy my ey By];
      try reflexivity; try (simpl; now case Bool.eqb).
    apply binary_normalize_equiv.
  Qed.

  Theorem sub_equiv : forall x y : binary_float prec emax,
    SFsub prec emax (B2SF x) (B2SF y) = B2SF (Bminus mode_NE x y).
  Proof.
    intros [sx|sx| |sx mx ex Bx] [sy|sy| |sy my ey By];
      try reflexivity; try (simpl; now case Bool.eqb).
    simpl. unfold Zminus. rewrite <- cond_Zopp_negb. apply binary_normalize_equiv.
  Qed.

  Theorem div_equiv : forall x y : binary_float prec emax,
    SFdiv prec emax (B2SF x) (B2SF y) = B2SF (Bdiv mode_NE x y).
  Proof.
    intros [sx|sx| |sx mx ex Bx] [sy|sy| |sy my ey By];
      try reflexivity; try (simpl; now case Bool.eqb).
    simpl. rewrite B2SF_SF2B.
    set (melz := SFdiv_core_binary _ _ _ _ _ _). case melz as [[mz ez] lz].
    apply binary_round_aux_equiv.
  Qed.

  Theorem ltb_equiv : forall x y : binary_float prec emax, SFltb (B2SF x) (B2SF y) = Bltb x y.
  Proof. reflexivity. Qed.
End Equiv.

(** * the soft demapper written with Flocq's operations *)
#[global] Instance Hp64 : Prec_gt_0 53 := eq_refl.
#[global] Instance Hm64 : Prec_lt_emax 53 1024 := eq_refl.
Notation D := (binary_float 53 1024).

Section FlocqModel.
  Variables prec emax : Z.
  Context (Hp : Prec_gt_0 prec) (Hm : Prec_lt_emax prec emax).
  Notation FT := (binary_float prec emax).

  (** format conversion, as CompCert's Bconv: re-round the exact value (exact when widening) *)
  Definition conv (p1 e1 p2 e2 : Z) (H2 : Prec_gt_0 p2) (M2 : Prec_lt_emax p2 e2) (x : binary_float p1 e1) : binary_float p2 e2 :=
    match x with
    | B754_finite s m e _ => BinarySingleNaN.binary_normalize p2 e2 H2 M2 mode_NE (cond_Zopp s (Zpos m)) e s
    | B754_zero s => B754_zero s
    | B754_infinity s => B754_infinity s
    | B754_nan => B754_nan
    end.
  Definition toD (x : FT) : D := conv prec emax 53 1024 Hp64 Hm64 x.
  Definition ofD (x : D) : FT := conv 53 1024 prec emax Hp Hm x.
  Definition ofZ (z : Z) : FT := BinarySingleNaN.binary_normalize prec emax Hp Hm mode_NE z 0 false.

  (** the double literals of the source *)
  Definition lit (x : spec_float) (H : valid_binary 53 1024 x = true) : D := SF2B x H.
  Definition d_inc_num : D := lit llr_inc_num eq_refl.
  Definition d_k0 : D := lit llr_k0 eq_refl.
  Definition d_seg1_add : D := lit llr_seg1_add eq_refl.
  Definition d_seg1_cmp : D := lit llr_seg1_cmp eq_refl.
  Definition d_seg2_sub : D := lit llr_seg2_sub eq_refl.
  Definition d_seg2_cmp : D := lit llr_seg2_cmp eq_refl.
  Definition d_max : D := lit llr_max_value eq_refl.
  Definition d_min : D := lit llr_min_value eq_refl.

  Definition frow := (FT * (Z * Z))%type.

  Definition fmap_step (limit : Z) (inc : FT) (st : FT * Z * Z) : frow * (FT * Z * Z) :=
    let '(k, i, j) := st in
    let '(i', j') :=
      if Bltb (Bplus mode_NE (toD k) d_seg1_add) d_seg1_cmp then
        let j1 := wrap8 (j - 1) in
        let j2 := if j1 =? 0 then wrap8 llr_skip1 else j1 in
        let j3 := if j2 <? - limit then wrap8 (- limit) else j2 in
        (i, j3)
      else if Bltb (Bminus mode_NE (toD k) d_seg2_sub) d_seg2_cmp then
        let i1 := wrap8 (i - 1) in
        let i2 := if i1 =? 0 then wrap8 llr_skip2 else i1 in
        let i3 := if i2 <? - limit then wrap8 (- limit) else i2 in
        (i3, j)
      else
        let j1 := wrap8 (j + 1) in
        let j2 := if j1 =? 0 then wrap8 llr_skip3 else j1 in
        let j3 := if limit <? j2 then limit else j2 in
        (i, j3) in
    ((k, (i, j)), (Bplus mode_NE k inc, i', j')).

  Fixpoint fmap_loop (limit : Z) (inc : FT) (n : nat) (st : FT * Z * Z) : list frow :=
    match n with
    | O => []
    | S n' => let '(a, st') := fmap_step limit inc st in a :: fmap_loop limit inc n' st'
    end.

  Definition fmake_llr_map (L : Z) : list frow :=
    let size := llr_size L in
    let limit := wrap8 (llr_limit L) in
    let inc := ofD (Bdiv mode_NE d_inc_num (toD (ofZ limit))) in
    let k0 := ofD (Bplus mode_NE d_k0 (toD inc)) in
    fmap_loop limit inc (Z.to_nat size) (k0, limit, limit).

  Definition fstd_max (a b : FT) : FT := if Bltb a b then b else a.
  Definition fstd_min (a b : FT) : FT := if Bltb b a then b else a.
  Definition frow_dflt : frow := (B754_nan, (0, 0)).

  Definition fllr_with (tbl : list frow) (sample : FT) : Z * Z :=
    let s := fstd_min (ofD d_max) (fstd_max (ofD d_min) sample) in
    let it := lower_bound frow (fun e => Bltb (fst e) s) frow_dflt tbl in
    if Nat.eqb it (length tbl) then snd (last tbl frow_dflt) else snd (nth it tbl frow_dflt).

  Definition fllr (L : Z) (sample : FT) : Z * Z := fllr_with (fmake_llr_map L) sample.

  Definition erase_row (r : frow) : row := (B2SF (fst r), snd r).

  (** the lookup is the same function once the table is the same *)
  Lemma lower_bound_map : forall (comp : row -> bool) (tbl : list frow) fuel first len,
    lower_bound_aux frow (fun e => comp (erase_row e)) frow_dflt fuel tbl first len =
    lower_bound_aux row comp row_dflt fuel (map erase_row tbl) first len.
  Proof.
    intros comp tbl. induction fuel as [|f IH]; intros first len; [reflexivity|].
    simpl. destruct len as [|l]; [reflexivity|].
    change row_dflt with (erase_row frow_dflt). rewrite map_nth.
    destruct (comp (erase_row (nth (first + Nat.div2 (S l)) tbl frow_dflt))); apply IH.
  Qed.

  Lemma last_erase : forall tbl : list frow, snd (last tbl frow_dflt) = snd (last (map erase_row tbl) row_dflt).
  Proof.
    induction tbl as [|a l IH]; [reflexivity|]. destruct l as [|b l]; [reflexivity|].
    change (snd (last (b :: l) frow_dflt) = snd (last (map erase_row (b :: l)) row_dflt)). exact IH.
  Qed.

  Theorem fllr_with_equiv : forall (tbl : list frow) (x : FT),
    B2SF (ofD d_max) = sf_conv (Fmt prec emax) llr_max_value ->
    B2SF (ofD d_min) = sf_conv (Fmt prec emax) llr_min_value ->
    fllr_with tbl x = llr_with (map erase_row tbl) (Fmt prec emax) (B2SF x).
  Proof.
    intros tbl x Hmax Hmin. unfold fllr_with, llr_with. rewrite <- Hmax, <- Hmin.
    set (s := fstd_min (ofD d_max) (fstd_max (ofD d_min) x)).
    assert (Es : std_min (B2SF (ofD d_max)) (std_max (B2SF (ofD d_min)) (B2SF x)) = B2SF s).
    { unfold s, fstd_min, fstd_max, std_min, std_max. rewrite ltb_equiv.
      destruct (Bltb (ofD d_min) x); rewrite ltb_equiv; [destruct (Bltb x (ofD d_max)) | destruct (Bltb (ofD d_min) (ofD d_max))]; reflexivity. }
    rewrite Es. rewrite map_length.
    unfold lower_bound. rewrite map_length.
    rewrite <- (lower_bound_map (fun e => SFltb (fst e) (B2SF s))).
    change (fun e : frow => SFltb (fst (erase_row e)) (B2SF s)) with (fun e : frow => Bltb (fst e) s).
    destruct (Nat.eqb _ _).
    - apply last_erase.
    - change row_dflt with (erase_row frow_dflt). rewrite map_nth. reflexivity.
  Qed.
End FlocqModel.

(** * the six tables: Flocq arithmetic = ImplLLR arithmetic, entry by entry *)
Definition Hp32 : Prec_gt_0 24 := eq_refl.
Definition Hm32 : Prec_lt_emax 24 128 := eq_refl.
Definition ftable32 (L : Z) : list row := map (erase_row 24 128) (fmake_llr_map 24 128 Hp32 Hm32 L).
Definition ftable64 (L : Z) : list row := map (erase_row 53 1024) (fmake_llr_map 53 1024 Hp64 Hm64 L).

Lemma flocq_table_32_4 : ftable32 4 = make_llr_map F32 4. Proof. vm_compute. reflexivity. Qed.
Lemma flocq_table_32_3 : ftable32 3 = make_llr_map F32 3. Proof. vm_compute. reflexivity. Qed.
Lemma flocq_table_32_2 : ftable32 2 = make_llr_map F32 2. Proof. vm_compute. reflexivity. Qed.
Lemma flocq_table_64_4 : ftable64 4 = make_llr_map F64 4. Proof. vm_compute. reflexivity. Qed.
Lemma flocq_table_64_3 : ftable64 3 = make_llr_map F64 3. Proof. vm_compute. reflexivity. Qed.
Lemma flocq_table_64_2 : ftable64 2 = make_llr_map F64 2. Proof. vm_compute. reflexivity. Qed.

Theorem flocq_llr32 : forall (x : binary_float 24 128),
  fllr 24 128 Hp32 Hm32 llr_width_modem x = llr F32 llr_width_modem (B2SF x).
Proof.
  intro x. unfold fllr, llr.
  rewrite (fllr_with_equiv 24 128 Hp32 Hm32 _ x) by (vm_compute; reflexivity).
  change (map (erase_row 24 128) (fmake_llr_map 24 128 Hp32 Hm32 llr_width_modem)) with (ftable32 4).
  rewrite flocq_table_32_4. reflexivity.
Qed.

Theorem flocq_llr64 : forall (x : binary_float 53 1024),
  fllr 53 1024 Hp64 Hm64 llr_width_modem x = llr F64 llr_width_modem (B2SF x).
Proof.
  intro x. unfold fllr, llr.
  rewrite (fllr_with_equiv 53 1024 Hp64 Hm64 _ x) by (vm_compute; reflexivity).
  change (map (erase_row 53 1024) (fmake_llr_map 53 1024 Hp64 Hm64 llr_width_modem)) with (ftable64 4).
  rewrite flocq_table_64_4. reflexivity.
Qed.
