(** LemmasQueue_C — ghost-state invariants: FIFO equation, history well-formedness (one linearization point per
    operation, between invocation and response, response = committed result), CLOSING => not yet drained. *)
From Coq Require Import ZArith List Bool Arith Lia.
From M17 Require Import ImplQueue SpecQueue ConstsQueue LemmasQueue_A LemmasQueue_B.
Import ListNotations.

Definition phase_of (x : option (op * point)) : phase :=
  match x with
  | None => PhIdle
  | Some (o, p) =>
      match p with
      | PSizeInc | PNotify => PhLin o (ROk None)
      | GSizeDec v | GDrainTest v | GDrainWrite v | GNotify v => PhLin o (ROk (Some v))
      | CNotifyFull | CNotifyEmpty => PhLin o RUnit
      | XRet r => PhLin o r
      | _ => PhInv o
      end
  end.
Definition draining (x : option (op * point)) : bool :=
  match x with Some (_, GSizeDec _) | Some (_, GDrainTest _) | Some (_, GDrainWrite _) => true | _ => false end.

Ltac by_reach := let c := fresh "c" in let R := fresh "R" in intros c R; pattern c; revert c R; apply reach_ind.

Section C.
Variable cap : nat.

Lemma fifo_reach : forall c, reachable cap c -> map snd (enq c) = deq c ++ items c.
Proof.
  by_reach.
  - reflexivity.
  - intros c t l c' R IH S. inv_step S; brk; unf; rel; auto.
    + rewrite map_app, IH, app_assoc. reflexivity.
    + rewrite IH. match goal with H : items c = _ |- _ => rewrite H end. now rewrite <- app_assoc.
Qed.

Lemma ghost_reach : forall c, reachable cap c -> enq c = rev (puts_in (hist c)) /\ deq c = rev (gets_in (hist c)).
Proof.
  by_reach.
  - split; reflexivity.
  - intros c t l c' R [E D] S. inv_step S; brk; unf; rel; cbn [puts_in gets_in rev]; auto;
      try (destruct o; split; cbn; congruence).
    + split; cbn; congruence.
Qed.

Lemma hwf_reach : forall c, reachable cap c -> forall t, hwf t (hist c) (phase_of (pcs c t)).
Proof.
  by_reach.
  - intros n0 t. constructor.
  - intros c t l c' R IH S. pose proof (IH t) as IHt.
    inv_step S;
      try (match goal with H : pcs c t = _ |- _ => rewrite H in IHt end); cbn [phase_of] in IHt;
      intros uu; brk; unf; rel;
      (destruct (Nat.eq_dec uu t) as [->|Ne];
       [ rewrite ?upd_same; cbn [phase_of];
         first [ exact IHt | constructor; exact IHt | destruct o; exact IHt ]
       | rewrite ?(upd_other _ _ _ _ Ne);
         first [ exact (IH uu) | apply hwf_other; [ cbn; congruence | exact (IH uu) ] ] ]).
Qed.
End C.

Section C2.
Variable cap : nat.

(** a CLOSING queue still holds items, unless a get is between its pop and its drain statement *)
Lemma closing_reach : forall c, reachable cap c ->
  st c = CLOSING -> items c <> [] \/ exists u, draining (pcs c u) = true.
Proof.
  by_reach.
  - cbn. discriminate.
  - intros c t l c' R IH S.
    pose proof (inv_B_reach cap c R) as (L & _ & _ & _). specialize (L t).
    inv_step S;
      try (match goal with H : pcs c t = _ |- _ => rewrite H in L end); cbn [loc] in L;
      brk; unf; rel; try discriminate; intros Hst;
      try (rewrite (drain_assigns_all o) in *; discriminate);
      try (right; exists t; rewrite upd_same; reflexivity);
      try (left; fin; fail);
      try (exact (IH Hst));
      try (left; norm_tests; match goal with H : _ \/ _ |- _ => destruct H end; norm_tests; congruence);
      try (left; unfold close_state in Hst; destruct (is_nil (items c)) eqn:E; [discriminate | now apply is_nil_false]);
      try (destruct (IH Hst) as [Hne | (u0 & Hu)];
           [ left; exact Hne
           | right; destruct (Nat.eq_dec u0 t) as [->|Ne];
             [ match goal with H : pcs c t = _ |- _ => rewrite H in Hu end; try discriminate Hu;
               exists t; rewrite upd_same; reflexivity
             | exists u0; rewrite ?(upd_other _ _ _ _ Ne); exact Hu ] ]; fail).
Qed.
End C2.

Section C3.
Variable cap : nat.
Definition by_producer (t : tid) (l : list (tid * val)) : list val :=
  map snd (filter (fun x => Nat.eqb (fst x) t) l).
Lemma filter_rev {A} (f : A -> bool) (l : list A) : filter f (rev l) = rev (filter f l).
Proof.
  induction l as [|a l IH]; cbn; auto. rewrite filter_app, IH. cbn. destruct (f a); cbn; auto using app_nil_r.
Qed.
Lemma per_producer_lemma : forall c, reachable cap c -> forall t,
  by_producer t (enq c) = rev (by_producer t (puts_in (hist c))).
Proof.
  intros c R t. destruct (ghost_reach cap c R) as [E _]. unfold by_producer. now rewrite E, filter_rev, map_rev.
Qed.
(** size_ = length items whenever nobody is between its two statements of a commit; in particular when the mutex is free *)
Lemma size_when_free : forall c, reachable cap c -> mutex c = None -> size_ c = length (items c).
Proof.
  intros c R Hm. destruct (inv_B_reach cap c R) as (_ & _ & Hsz & _). apply Hsz. intros t.
  destruct (mid (pcs c t)) eqn:E; auto. apply mid_cs in E. apply (mutex_inv_reach cap c R) in E. congruence.
Qed.
End C3.
