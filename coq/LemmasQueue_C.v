(** LemmasQueue_C — ghost-state invariants: FIFO equation, history well-formedness (one linearization point per
    operation, between invocation and response, response = committed result), CLOSING => not yet drained. *)
From Coq Require Import ZArith List Bool Arith Lia.
From M17 Require Import ImplQueue SpecQueue ConstsQueue LemmasQueue_A LemmasQueue_B.
Import ListNotations.

Definition phase_of (x : option (op * point)) : phase :=
  match x with
  | None => PhIdle
  | Some (o, p) =>
      match p with
      | PSizeInc | PNotify => PhLin o (ROk None)
      | GSizeDec v | GDrainTest v | GDrainWrite v | GNotify v => PhLin o (ROk (Some v))
      | CNotifyFull | CNotifyEmpty => PhLin o RUnit
      | XRet r => PhLin o r
      | _ => PhInv o
      end
  end.
Definition draining (x : option (op * point)) : bool :=
  match x with Some (_, GSizeDec _) | Some (_, GDrainTest _) | Some (_, GDrainWrite _) => true | _ => false end.

Ltac by_reach := let c := fresh "c" in let R := fresh "R" in intros c R; pattern c; revert c R; apply reach_ind.

Section C.
Variable cap : nat.

Lemma fifo_reach : forall c, reachable cap c -> map snd (enq c) = deq c ++ items c.
Proof.
  by_reach.
  - reflexivity.
  - intros c t l c' R IH S. inv_step S; brk; unf; rel; auto.
    + rewrite map_app, IH, app_assoc. reflexivity.
    + rewrite IH. match goal with H : items c = _ |- _ => rewrite H end. now rewrite <- app_assoc.
Qed.

Lemma ghost_reach : forall c, reachable cap c -> enq c = rev (puts_in (hist c)) /\ deq c = rev (gets_in (hist c)).
Proof.
  by_reach.
  - split; reflexivity.
  - intros c t l c' R [E D] S. inv_step S; brk; unf; rel; cbn [puts_in gets_in rev]; auto;
      try (destruct o; split; cbn; congruence).
    + split; cbn; congruence.
Qed.

Lemma hwf_reach : forall c, reachable cap c -> forall t, hwf t (hist c) (phase_of (pcs c t)).
Proof.
  by_reach.
  - intros n0 t. constructor.
  - intros c t l c' R IH S. pose proof (IH t) as IHt.
    inv_step S;
      try (match goal with H : pcs c t = _ |- _ => rewrite H in IHt end); cbn [phase_of] in IHt;
      intros uu; brk; unf; rel;
      (destruct (Nat.eq_dec uu t) as [->|Ne];
       [ rewrite ?upd_same; cbn [phase_of];
         first [ exact IHt | constructor; exact IHt | destruct o; exact IHt ]
       | rewrite ?(upd_other _ _ _ _ Ne);
         first [ exact (IH uu) | apply hwf_other; [ cbn; congruence | exact (IH uu) ] ] ]).
Qed.
End C.

Section C2.
Variable cap : nat.

(** a CLOSING queue still holds items, unless a get is between its pop and its drain statement *)
Lemma closing_reach : forall c, reachable cap c ->
  st c = CLOSING -> items c <> [] \/ exists u, draining (pcs c u) = true.
Proof.
  by_reach.
  - cbn. discriminate.
  - intros c t l c' R IH S.
    pose proof (inv_B_reach cap c R) as (L & _ & _ & _). specialize (L t).
    inv_step S;
      try (match goal with H : pcs c t = _ |- _ => rewrite H in L end); cbn [loc] in L;
      brk; unf; rel; try discriminate; intros Hst;
      try (rewrite (drain_assigns_all o) in *; discriminate);
      try (right; exists t; rewrite upd_same; reflexivity);
      try (left; fin; fail);
      try (exact (IH Hst));
      try (left; norm_tests; match goal with H : _ \/ _ |- _ => destruct H end; norm_tests; congruence);
      try (left; unfold close_state in Hst; destruct (is_nil (items c)) eqn:E; [discriminate | now apply is_nil_false]);
      try (destruct (IH Hst) as [Hne | (u0 & Hu)];
           [ left; exact Hne
           | right; destruct (Nat.eq_dec u0 t) as [->|Ne];
             [ match goal with H : pcs c t = _ |- _ => rewrite H in Hu end; try discriminate Hu;
               exists t; rewrite upd_same; reflexivity
             | exists u0; rewrite ?(upd_other _ _ _ _ Ne); exact Hu ] ]; fail).
Qed.
End C2.
