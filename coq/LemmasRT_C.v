(** C01 round trip, part C: de-puncture + Viterbi (decode_payload of the instantiated frame decoder) on the
    soft image of a punctured specification code word returns exactly the payload bits, with cost 0 at full
    confidence — for each of the four union geometries, every payload, every magnitude vector, every content
    of the hidden buffers.  Uses C11 (depuncture_spec) and C02 (clean_unique_m17). *)
From Coq Require Import NArith ZArith List Bool Lia Arith.
From M17 Require Import Bits ImplPuncture SpecPuncture LemmasPuncture SpecConv SpecM17 ConstsViterbi ViterbiGeom
  ImplViterbi LemmasVit_Free LemmasVit_Geom ImplFrameDecoder FrameDecoderInst LemmasFD_Hidden LemmasFD_Inst
  LemmasRT_A LemmasRT_B.
Import ListNotations.
Local Open Scope Z_scope.

(** the C02 geometry tuple of a union geometry, the number of received soft bits, the specification's matrix *)
Definition vgeom (g : geometry) : nat * nat * nat * nat :=
  match g with GLsf => geom_lsf | GStream => geom_stream | GPacket => geom_packet | GBert => geom_bert end.
Definition g_rx (g : geometry) : nat := match g with GStream => 272%nat | _ => 368%nat end.
Definition Pspec (g : geometry) : list bool :=
  match g with GLsf => SpecM17.P1 | GStream => SpecM17.P2 | GPacket => SpecM17.P3 | GBert => SpecM17.P2 end.

Lemma Pspec_agree g : Pspec g = map nz (fd_matrix g).
Proof. destruct g; reflexivity. Qed.

Lemma vgeom_in g : In (vgeom g) geoms.
Proof. destruct g; unfold geoms, vgeom; cbn [In]; auto. Qed.

Lemma vgeom_sizes g : ViterbiGeom.g_in (vgeom g) = ImplFrameDecoder.g_in g /\
  ViterbiGeom.g_out (vgeom g) = ImplFrameDecoder.g_out g /\
  (ImplFrameDecoder.g_in g / 2 = ImplFrameDecoder.g_out g + 4)%nat /\
  (ImplFrameDecoder.g_in g = 2 * (ImplFrameDecoder.g_out g + 4))%nat.
Proof. destruct g; repeat split; reflexivity. Qed.

(** the decoder's erasure mask (C02's g_mask) = the matrix's cyclic mask limited to the received values *)
Lemma vgeom_mask g : g_mask (vgeom g) = avail (mask (fd_matrix g) (ImplFrameDecoder.g_in g)) (g_rx g).
Proof. destruct g; vm_compute; reflexivity. Qed.

Lemma W_dec_limit : soft_limit W_dec = 7. Proof. reflexivity. Qed.

Lemma map_bit_of_b2n l : map bit_of (map b2n l) = l.
Proof. rewrite map_map. rewrite <- (map_id l) at 2. apply map_ext. intros []; reflexivity. Qed.

Lemma firstn_app_exact {A} (a b : list A) : firstn (length a) (a ++ b) = a.
Proof. rewrite firstn_app, Nat.sub_diag, firstn_all. cbn [firstn]. apply app_nil_r. Qed.

Notation hidden := (ImplFrameDecoder.hidden scratch).
Notation fd_decode_payload := (ImplFrameDecoder.decode_payload scratch fd_depuncture fd_viterbi).

Lemma rt_payload g (h : hidden) (m : list Z) (bits : list bool) :
  hid_ok scratch wf_scratch h ->
  length bits = ImplFrameDecoder.g_out g -> length m = g_rx g -> Forall (fun x => 1 <= x <= 7) m ->
  exists c h', fd_decode_payload g h (soft m (spec_puncture (Pspec g) (spec_conv bits))) = (to_bytes bits, bits, c, h') /\
    (Forall (fun x => x = 7) m -> c = 0).
Proof. intros (HD & HO & HU & HV) Lb Lm F.
  destruct (vgeom_sizes g) as (GI & GO & GH & G2).
  set (cw := spec_conv bits).
  assert (Lc : length cw = ImplFrameDecoder.g_in g) by (subst cw; rewrite spec_conv_length, Lb; lia).
  unfold ImplFrameDecoder.decode_payload.
  assert (L1 : length (firstn (ImplFrameDecoder.g_in g) (h_dbuf scratch h)) = ImplFrameDecoder.g_in g).
  { rewrite firstn_length, HD. pose proof (g_in_le g). lia. }
  assert (L2 : length (firstn (ImplFrameDecoder.g_out g) (h_obuf scratch h)) = ImplFrameDecoder.g_out g).
  { rewrite firstn_length, HO. pose proof (g_out_le g). lia. }
  unfold fd_depuncture at 1 2.
  rewrite (depuncture_spec (fd_matrix g) (ImplFrameDecoder.g_in g) _ _ (fd_matrix_nonempty g) L1). cbn [fst].
  rewrite Pspec_agree. rewrite <- Lc.
  destruct (depunctured_clean (fd_matrix g) cw m (fd_matrix_nonempty g) F) as (Hclean & Hsub & Hfull).
  set (r := spread 0 (mask (fd_matrix g) (length cw)) (soft m (spec_puncture (map nz (fd_matrix g)) cw))) in *.
  clearbody r. rewrite Lc, Lm, <- vgeom_mask in Hsub.
  subst cw. rewrite spec_conv_agree in Hclean. rewrite <- W_dec_limit in Hclean.
  set (w := bits ++ repeat false 4) in *.
  assert (Lw : length w = (ViterbiGeom.g_in (vgeom g) / 2)%nat).
  { subst w. rewrite app_length, repeat_length, GI, GH, Lb. reflexivity. }
  set (prev := firstn (ImplFrameDecoder.g_out g) (h_obuf scratch h)) in *.
  assert (Lp : length (map b2n prev) = ViterbiGeom.g_out (vgeom g)) by (rewrite map_length, GO; exact L2).
  destruct (clean_unique_m17 (vgeom g) W_dec (h_vs scratch h) (map b2n prev) r w (vgeom_in g) W_dec_ok HV Lp Lw Hclean Hsub)
    as (Hbits & Hcost).
  rewrite GI, GO in Hbits, Hcost. rewrite W_dec_limit in Hcost.
  unfold fd_viterbi.
  destruct (ImplViterbi.decode W_dec (ImplFrameDecoder.g_in g) (ImplFrameDecoder.g_out g) (h_vs scratch h) (map b2n prev) r)
    as [[o c] sc'].
  cbn [fst snd] in Hbits, Hcost. subst o. rewrite map_bit_of_b2n.
  assert (E : firstn (ImplFrameDecoder.g_out g) w = bits) by (subst w; rewrite <- Lb; apply firstn_app_exact).
  rewrite E. eexists. eexists. split; [reflexivity|].
  intros F7. apply Hcost. exact (Hfull F7). Qed.
