(** SpecConv — the M17 convolutional code and the soft distance, written from the M17 specification
    (rate 1/2, constraint length K = 5, G1 = 1 + D^3 + D^4, G2 = 1 + D + D^2 + D^4, G1's bit first),
    independent of the C++ code.  Used as the reference in the C02 theorems. *)
From Coq Require Import ZArith List Bool Arith.
Import ListNotations.
Local Open Scope Z_scope.

(** the encoder with its four delay elements d1 (newest) .. d4 (oldest) *)
Fixpoint conv_from (d1 d2 d3 d4 : bool) (w : list bool) : list bool :=
  match w with
  | [] => []
  | b :: w' => xorb b (xorb d3 d4)                     (* G1 = 1 + D^3 + D^4 *)
            :: xorb b (xorb d1 (xorb d2 d4))           (* G2 = 1 + D + D^2 + D^4 *)
            :: conv_from b d1 d2 d3 w'
  end.

(** code word of the input bits [w], encoder started in the all-zero state *)
Definition conv (w : list bool) : list bool := conv_from false false false false w.

(** soft limit of an LLR width: 2^(W-1) - 1 *)
Definition soft_limit (W : nat) : Z := 2 ^ (Z.of_nat W - 1) - 1.

(** distance of one received soft bit from a transmitted code bit; 0 = erasure contributes nothing *)
Definition sdist (L r : Z) (c : bool) : Z :=
  if r =? 0 then 0 else Z.abs (L * (2 * (if c then 1 else 0) - 1) - r).

(** dist L r c = sum over i with r_i <> 0 of |L (2 c_i - 1) - r_i| *)
Fixpoint dist (L : Z) (r : list Z) (c : list bool) : Z :=
  match r, c with
  | x :: r', b :: c' => sdist L x b + dist L r' c'
  | _, _ => 0
  end.

(** [k] is the nearest integer to d / L *)
Definition nearest (d L k : Z) : Prop := 2 * Z.abs (d - k * L) <= L.

(** number of positions kept by [mask] at which the code word has a one *)
Fixpoint mweight (mask c : list bool) : Z :=
  match mask, c with
  | m :: mask', b :: c' => (if m && b then 1 else 0) + mweight mask' c'
  | _, _ => 0
  end.

(** the full-confidence image of a code word: +L for 1, -L for 0, sign flipped where [fl], 0 where not [mask] *)
Fixpoint tx_image (L : Z) (mask c fl : list bool) : list Z :=
  match mask, c, fl with
  | m :: mask', b :: c', f :: fl' =>
      (if m then (if xorb b f then L else - L) else 0) :: tx_image L mask' c' fl'
  | _, _, _ => []
  end.

(** number of flips that fall on kept positions *)
Fixpoint nflips (mask fl : list bool) : Z :=
  match mask, fl with
  | m :: mask', f :: fl' => (if m && f then 1 else 0) + nflips mask' fl'
  | _, _ => 0
  end.

(** * the same encoder seen as a 16-state trellis: state = the last four input bits, bit 0 the newest *)
Definition nx16 (s : nat) (b : bool) : nat := ((2 * s + (if b then 1 else 0)) mod 16)%nat.
Definition pv16 (s' : nat) (d : bool) : nat := (s' / 2 + (if d then 8 else 0))%nat.
Definition inb16 (s' : nat) : bool := Nat.odd s'.

(** * the encoder outputs as functions of the trellis state (bit i of the state = input bit i+1 steps ago) *)
Definition out1 (s : nat) (b : bool) : bool := xorb b (xorb (Nat.testbit s 2) (Nat.testbit s 3)).
Definition out2 (s : nat) (b : bool) : bool :=
  xorb b (xorb (Nat.testbit s 0) (xorb (Nat.testbit s 1) (Nat.testbit s 3))).
Definition b2nat (b : bool) : nat := if b then 1%nat else 0%nat.
Definition st_of (d1 d2 d3 d4 : bool) : nat := (b2nat d1 + 2 * b2nat d2 + 4 * b2nat d3 + 8 * b2nat d4)%nat.


(** * free distance of the punctured, unterminated code with respect to the first OUT input bits
    [dfree mask OUT] = min over input words d (of the mask's length / 2) with a one among their first OUT bits of the
    number of kept positions at which conv d is one; computed by one backward pass over the trellis:
    B_t(s) = least kept weight of any path from state s at step t to the end (free end state), and the first one of d
    at step k < OUT contributes  weight(step k from state 0 with input 1) + B_(k+1)(state 1). *)
Definition wcost (m0 m1 : bool) : nat -> bool -> Z :=
  fun s b => (if m0 && out1 s b then 1 else 0) + (if m1 && out2 s b then 1 else 0).
Fixpoint wcosts (mask : list bool) : list (nat -> bool -> Z) :=
  match mask with
  | m0 :: m1 :: mask' => wcost m0 m1 :: wcosts mask'
  | _ => []
  end.
Definition bstep (c : nat -> bool -> Z) (B : list Z) : list Z :=
  map (fun s => Z.min (c s false + nth (nx16 s false) B 0) (c s true + nth (nx16 s true) B 0)) (seq 0 16).
Fixpoint dfree_aux (cs : list (nat -> bool -> Z)) (OUT : nat) : list Z * option Z :=
  match cs with
  | [] => (repeat 0 16, None)
  | c :: cs' =>
      let rc := dfree_aux cs' (pred OUT) in
      let cand := c 0%nat true + nth 1 (fst rc) 0 in
      (bstep c (fst rc),
       match OUT with
       | O => None
       | S _ => Some (match snd rc with None => cand | Some x => Z.min cand x end)
       end)
  end.
Definition dfree (mask : list bool) (OUT : nat) : Z :=
  match snd (dfree_aux (wcosts mask) OUT) with Some x => x | None => 0 end.

(** erasure patterns under which a clean code word determines its first OUT input bits *)
Definition unique_ok (mask : list bool) (OUT : nat) : bool := 0 <? dfree mask OUT.

(** [r] carries the signs of the code word [c] with confidences 1..L wherever it is not erased *)
Definition clean (L : Z) (r : list Z) (c : list bool) : Prop :=
  Forall2 (fun x (b : bool) => x = 0 \/ (if b then 1 <= x <= L else - L <= x <= -1)) r c.
(** every position kept by [mask] is present (non-zero) in [r] *)
Definition mask_sub (mask : list bool) (r : list Z) : Prop :=
  Forall2 (fun (m : bool) x => m = true -> x <> 0) mask r.
