(** SpecConv — the M17 convolutional code and the soft distance, written from the M17 specification
    (rate 1/2, constraint length K = 5, G1 = 1 + D^3 + D^4, G2 = 1 + D + D^2 + D^4, G1's bit first),
    independent of the C++ code.  Used as the reference in the C02 theorems. *)
From Coq Require Import ZArith List Bool.
Import ListNotations.
Local Open Scope Z_scope.

(** the encoder with its four delay elements d1 (newest) .. d4 (oldest) *)
Fixpoint conv_from (d1 d2 d3 d4 : bool) (w : list bool) : list bool :=
  match w with
  | [] => []
  | b :: w' => xorb b (xorb d3 d4)                     (* G1 = 1 + D^3 + D^4 *)
            :: xorb b (xorb d1 (xorb d2 d4))           (* G2 = 1 + D + D^2 + D^4 *)
            :: conv_from b d1 d2 d3 w'
  end.

(** code word of the input bits [w], encoder started in the all-zero state *)
Definition conv (w : list bool) : list bool := conv_from false false false false w.

(** soft limit of an LLR width: 2^(W-1) - 1 *)
Definition soft_limit (W : nat) : Z := 2 ^ (Z.of_nat W - 1) - 1.

(** distance of one received soft bit from a transmitted code bit; 0 = erasure contributes nothing *)
Definition sdist (L r : Z) (c : bool) : Z :=
  if r =? 0 then 0 else Z.abs (L * (2 * (if c then 1 else 0) - 1) - r).

(** dist L r c = sum over i with r_i <> 0 of |L (2 c_i - 1) - r_i| *)
Fixpoint dist (L : Z) (r : list Z) (c : list bool) : Z :=
  match r, c with
  | x :: r', b :: c' => sdist L x b + dist L r' c'
  | _, _ => 0
  end.

(** [k] is the nearest integer to d / L *)
Definition nearest (d L k : Z) : Prop := 2 * Z.abs (d - k * L) <= L.

(** number of positions kept by [mask] at which the code word has a one *)
Fixpoint mweight (mask c : list bool) : Z :=
  match mask, c with
  | m :: mask', b :: c' => (if m && b then 1 else 0) + mweight mask' c'
  | _, _ => 0
  end.

(** the full-confidence image of a code word: +L for 1, -L for 0, sign flipped where [fl], 0 where not [mask] *)
Fixpoint tx_image (L : Z) (mask c fl : list bool) : list Z :=
  match mask, c, fl with
  | m :: mask', b :: c', f :: fl' =>
      (if m then (if xorb b f then L else - L) else 0) :: tx_image L mask' c' fl'
  | _, _, _ => []
  end.

(** number of flips that fall on kept positions *)
Fixpoint nflips (mask fl : list bool) : Z :=
  match mask, fl with
  | m :: mask', f :: fl' => (if m && f then 1 else 0) + nflips mask' fl'
  | _, _ => 0
  end.
