(** ax25_frame::parse never leaves its strings, never throws, and its repeater loop terminates:
    for EVERY byte string [parse s = Ok _]. *)
From Coq Require Import NArith Arith Bool String Lia List.
From M17 Require Import Checked LemmasChecked ConstsApp ImplAx25.
Import ListNotations.

Ltac ax_consts :=
  cbv [ax_DEST_ADDRESS_POS ax_SRC_ADDRESS_POS ax_LAST_ADDRESS_POS ax_FIRST_REPEATER_POS ax_ADDRESS_LENGTH ax_min_len
       ax_addr_count_base ax_ctl_guard ax_fcs_len ax_call_len ax_ssid_idx ax_fcs_back ax_rep_guard_strict] in *.

Lemma removeExt_length a : length (removeAddressExtensionBit a) = length a.
Proof. apply map_length. Qed.

Lemma fixup_address_ok a : ax_ADDRESS_LENGTH - 1 <= length a -> ax_ssid_idx <= length a -> ax_call_len <= length a ->
  is_ok (fixup_address a).
Proof. intros H1 H2 H3. unfold fixup_address.
  apply is_ok_bind; [apply str_at_is_ok; exact H1 | intros c _].
  apply is_ok_bind.
  { unfold getSSID. apply is_ok_bind; [apply str_at_is_ok; rewrite removeExt_length; exact H2 | intros; apply is_ok_Ok]. }
  intros ssid _.
  apply is_ok_bind; [| intros; apply is_ok_Ok].
  rewrite erase_from_ok; [apply is_ok_Ok|].
  destruct (find_first 32 (removeAddressExtensionBit a)) as [p|] eqn:E.
  - apply find_first_lt in E. lia.
  - rewrite removeExt_length. exact H3.
Qed.

Lemma fixup_address_7 a : length a = ax_ADDRESS_LENGTH -> is_ok (fixup_address a).
Proof. intros H. apply fixup_address_ok; ax_consts; lia. Qed.

Lemma parse_fcs_ok s : ax_fcs_back <= length s -> is_ok (parse_fcs s).
Proof. intros H. unfold parse_fcs. destruct (length s <? ax_fcs_back) eqn:E; [apply Nat.ltb_lt in E; lia|].
  apply is_ok_bind; [apply str_at_is_ok; ax_consts; lia | intros hi _].
  apply is_ok_bind; [apply str_at_is_ok; ax_consts; lia | intros lo _]. apply is_ok_Ok. Qed.

Lemma rep_guard_spec index s : rep_guard index s = true -> index + ax_ADDRESS_LENGTH <= length s.
Proof. unfold rep_guard. destruct ax_rep_guard_strict; intros H; [apply Nat.ltb_lt in H | apply Nat.leb_le in H]; lia. Qed.

Lemma rep_loop_ok s : forall fuel index acc, rep_guard index s = true -> length s - index <= fuel ->
  is_ok (rep_loop fuel s index acc).
Proof. induction fuel as [|fuel IH]; intros index acc G F.
- apply rep_guard_spec in G. ax_consts. lia.
- pose proof (rep_guard_spec _ _ G) as G'. cbn [rep_loop].
  rewrite substr_ok by lia. cbn [bind].
  apply is_ok_bind; [apply fixup_address_7; apply substr_full_length; exact G' | intros fx _].
  destruct (snd fx && rep_guard (index + ax_ADDRESS_LENGTH) s) eqn:M; [|apply is_ok_Ok].
  apply andb_prop in M. destruct M as [_ M]. apply IH; [exact M|]. ax_consts. lia.
Qed.

Lemma parse_repeaters_ok s : is_ok (parse_repeaters s).
Proof. unfold parse_repeaters. destruct (rep_guard ax_FIRST_REPEATER_POS s) eqn:G; [|apply is_ok_Ok].
  apply rep_loop_ok; [exact G | lia]. Qed.

Lemma parse_type_ok s pos : pos <= length s -> is_ok (parse_type s pos).
Proof. intros H. unfold parse_type. apply is_ok_bind; [apply str_at_is_ok; exact H | intros; apply is_ok_Ok]. Qed.

Lemma parse_ok_lemma : forall s : list N, is_ok (parse s).
Proof. intros s. unfold parse. destruct (length s <? ax_min_len) eqn:E; [apply is_ok_Ok|].
  apply Nat.ltb_ge in E.
  apply is_ok_bind; [apply parse_fcs_ok; ax_consts; lia | intros fcs _].
  unfold parse_destination, parse_source.
  rewrite substr_ok by (ax_consts; lia). cbn [bind].
  apply is_ok_bind; [apply fixup_address_7; apply substr_full_length; ax_consts; lia | intros fd _].
  rewrite substr_ok by (ax_consts; lia). cbn [bind].
  apply is_ok_bind; [apply fixup_address_7; apply substr_full_length; ax_consts; lia | intros fs _].
  apply is_ok_bind; [destruct (snd fs); [apply parse_repeaters_ok | apply is_ok_Ok] | intros reps _].
  cbv zeta.
  destruct (length s <? ax_ADDRESS_LENGTH * (length reps + ax_addr_count_base) + ax_ctl_guard) eqn:G; [apply is_ok_Ok|].
  apply Nat.ltb_ge in G.
  set (index := ax_ADDRESS_LENGTH * (length reps + ax_addr_count_base)) in *.
  apply is_ok_bind; [apply parse_type_ok; ax_consts; lia | intros ty _].
  apply is_ok_bind; [apply str_at_is_ok; ax_consts; lia | intros raw _].
  apply is_ok_bind.
  { destruct (N.eqb ty UNNUMBERED); [|apply is_ok_Ok].
    apply is_ok_bind; [apply str_at_is_ok; ax_consts; lia | intros; apply is_ok_Ok]. }
  intros pi Hpi.
  assert (Hidx : snd pi <= S (S index)).
  { destruct (N.eqb ty UNNUMBERED).
    - destruct (str_at_ok "parse: frame[index++] (pid_)" s (S index)) as [p Hp]; [ax_consts; lia|].
      rewrite Hp in Hpi. cbn [bind] in Hpi. injection Hpi as <-. cbn [snd]. lia.
    - injection Hpi as <-. cbn [snd]. lia. }
  apply is_ok_bind; [| intros; apply is_ok_Ok].
  rewrite range_ok; [apply is_ok_Ok | ax_consts; lia | lia].
Qed.

(** the weakest length guards that keep [parse] safe are tight: the control-field guard cannot be lowered to 2 *)
Lemma parse_never_faults : forall s : list N, exists f, parse s = Ok f.
Proof. exact parse_ok_lemma. Qed.
