(** ViterbiGeom — the erasure masks of the four M17 frame geometries, computed from the literals of Trellis.h and the
    buffer sizes of M17FrameDecoder.h (ConstsViterbi) by the same algorithms as make_p1() and depuncture()
    (Trellis.h:17-28, Util.h:169-190).  No proofs. *)
From Coq Require Import NArith ZArith List Bool Arith.
From M17 Require Import ConstsViterbi.
Import ListNotations.

(* for (i = 0, j = 2; i != 61; ++i) if (i == j) { result[i] = 0; j += 4; } else result[i] = 1; *)
Definition make_p1 : list N :=
  fst (fold_left (fun (acc : list N * nat) i =>
         if (i =? snd acc)%nat then (fst acc ++ [p1_hit_value], (snd acc + p1_stride)%nat)
         else (fst acc ++ [p1_else_value], snd acc))
       (seq 0 p1_size) ([], p1_first)).
Definition P1 : list N := make_p1.

(* depuncture(): position i of the [n] output positions receives a soft bit (true) or is set to 0 = erased (false):
   if (!p[pindex++] || index == IN) out[i] = 0; else out[i] = in[index++];  if (pindex == P) pindex = 0; *)
Definition depuncture_mask (p : list N) (rx n : nat) : list bool :=
  fst (fold_left (fun (acc : list bool * (nat * nat)) (_ : nat) =>
         let index := fst (snd acc) in
         let pindex := snd (snd acc) in
         let erased := (nth pindex p 0 =? 0)%N || (index =? rx)%nat in
         let pindex' := if (S pindex =? length p)%nat then 0%nat else S pindex in
         (fst acc ++ [negb erased], ((if erased then index else S index), pindex')))
       (seq 0 n) ([], (0%nat, 0%nat))).

Definition matrix (i : nat) : list N :=
  match i with 1%nat => P1 | 2%nat => P2 | _ => P3 end.

Definition g_rx (g : nat * nat * nat * nat) : nat := fst (fst (fst g)).
Definition g_in (g : nat * nat * nat * nat) : nat := snd (fst (fst g)).
Definition g_out (g : nat * nat * nat * nat) : nat := snd (fst g).
Definition g_mask (g : nat * nat * nat * nat) : list bool := depuncture_mask (matrix (snd g)) (g_rx g) (g_in g).
