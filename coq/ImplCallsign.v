(** Gallina mirror of LinkSetupFrame::encode_callsign / decode_callsign
    (include/m17cxx/LinkSetupFrame.h), statement by statement.  Characters and bytes are [N]
    (0..255; a [char] that is negative on the target fails every range test of the C++ exactly as a
    value 128..255 does here).  The [uint64_t] accumulator wraps explicitly.  No proofs in this file. *)
From Coq Require Import NArith List Bool Arith.
From M17 Require Import ConstsCallsign.
Import ListNotations.
Local Open Scope N_scope.

Definition U64 : N := 2 ^ 64.

(** ---------------------------------------------------------------- encode_callsign *)

(** the if / else-if chain: [Some d] when a branch [lo <= c <= hi] is taken (encoded += c - lo + k) *)
Fixpoint char_digit_in (ranges : list (N * N * N)) (c : N) : option N :=
  match ranges with
  | [] => None
  | (lo, hi, k) :: rest => if (lo <=? c) && (c <=? hi) then Some (c - lo + k) else char_digit_in rest c
  end.
Definition char_digit (c : N) : option N := char_digit_in ConstsCallsign.enc_ranges c.

(** loop body, [strict = false]:  encoded *= 40;  if mapped: encoded += digit   (uint64 arithmetic) *)
Definition enc_step (encoded c : N) : N :=
  let e1 := (encoded * ConstsCallsign.enc_mul) mod U64 in
  match char_digit c with
  | Some d => (e1 + d) mod U64
  | None => e1
  end.

(** loop body with the [strict] flag; [None] = std::invalid_argument thrown *)
Definition enc_step_gen (strict : bool) (acc : option N) (c : N) : option N :=
  match acc with
  | None => None
  | Some encoded =>
      let e1 := (encoded * ConstsCallsign.enc_mul) mod U64 in
      match char_digit c with
      | Some d => Some ((e1 + d) mod U64)
      | None => if strict then None else Some e1
      end
  end.

(** p = (uint8_t* )&encoded (little endian);  std::copy(p, p + 6, result.rbegin()):  result[5-i] = p[i] *)
Definition u64_byte (e : N) (i : nat) : N := N.land (N.shiftr e (8 * N.of_nat i)) 255.
Definition low_bytes_be (e : N) : list N := rev (map (u64_byte e) (seq 0 ConstsCallsign.enc_copy)).

(** std::reverse(callsign); for (c : callsign) ... *)
Definition encode_acc (callsign : list N) : N := fold_left enc_step (rev callsign) 0.

Definition encode_callsign (callsign : list N) : list N := low_bytes_be (encode_acc callsign).

Definition encode_callsign_gen (strict : bool) (callsign : list N) : option (list N) :=
  option_map low_bytes_be (fold_left (enc_step_gen strict) (rev callsign) (Some 0)).

(** ---------------------------------------------------------------- decode_callsign *)

(** checked array write: [None] when the index is outside the array *)
Fixpoint set_nth (l : list N) (i : nat) (x : N) : option (list N) :=
  match l, i with
  | [], _ => None
  | _ :: t, O => Some (x :: t)
  | h :: t, S j => option_map (cons h) (set_nth t j x)
  end.

(** std::copy(callsign.rbegin(), callsign.rend(), p) into a zeroed uint64: p[i] = callsign[5-i] *)
Definition le_u64 (p : list N) : N := fold_right (fun b acc => b + 256 * acc) 0 p.
Definition address_value (callsign : list N) : N := le_u64 (rev callsign).

(** loop condition: encoded && index != result.size() - k  (second conjunct absent when the source has none);
    the bound is a parameter so that the loop without it (the code before fix 766f992) can be stated too *)
Definition dec_continue_with (reserve : option nat) (encoded : N) (index : nat) : bool :=
  negb (encoded =? 0) &&
  match reserve with
  | Some k => negb (Nat.eqb index (ConstsCallsign.call_size - k))
  | None => true
  end.

(** while (...) { result[index++] = callsign_map[encoded % 40]; encoded /= 40; }
    on explicit fuel; [None] = fuel exhausted, table index or array index out of range *)
Fixpoint decode_loop_with (reserve : option nat) (fuel : nat) (encoded : N) (index : nat) (result : list N) : option (list N) :=
  if dec_continue_with reserve encoded index then
    match fuel with
    | O => None
    | S f =>
        match nth_error ConstsCallsign.callsign_map (N.to_nat (encoded mod ConstsCallsign.dec_mod)) with
        | None => None
        | Some ch =>
            match set_nth result index ch with
            | None => None
            | Some result' => decode_loop_with reserve f (encoded / ConstsCallsign.dec_div) (S index) result'
            end
        end
    end
  else Some result.

Definition dec_continue := dec_continue_with ConstsCallsign.dec_index_reserve.
Definition decode_loop := decode_loop_with ConstsCallsign.dec_index_reserve.

Definition decode_fuel : nat := 64.

Definition list_N_eqb (a b : list N) : bool :=
  Nat.eqb (length a) (length b) && forallb (fun p => fst p =? snd p) (combine a b).

Definition decode_callsign_with (reserve : option nat) (callsign : list N) : option (list N) :=
  if list_N_eqb callsign ConstsCallsign.broadcast_address then Some ConstsCallsign.broadcast_call
  else decode_loop_with reserve decode_fuel (address_value callsign) 0 (repeat 0 ConstsCallsign.call_size).

Definition decode_callsign (callsign : list N) : option (list N) :=
  decode_callsign_with ConstsCallsign.dec_index_reserve callsign.
