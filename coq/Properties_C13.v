(** C13 — m17-mod emits exactly the specification's stream for its inputs, continuously pulse-shaped.

    Models: ImplMod.v (mirror of apps/m17-mod.cpp and the headers it calls; constants regenerated from the
    source into ConstsMod) and SpecM17.v (specification encoder written from the M17 specification).
    This file holds only the property theorems (each closed by [exact]) with their Print Assumptions, and
    examples showing the hypotheses are satisfiable.

    Quantifiers: [uninit] is the content of the uninitialised int8 arrays handed to puncture(); [audio0] the
    content of transmit()'s `audio_frame_t audio;` when transmit() starts; codec2 is an arbitrary state
    machine [codec2_encode] returning 8 bytes per 160-sample call ([codec_ok]); callsigns are lists of
    ASCII codes, [valid_callsign] = at most 9 characters of the M17 alphabet; an empty destination means
    broadcast (SpecM17.spec_dst_address).  The order of arguments of the spec functions is (dst, src). *)
From Coq Require Import NArith ZArith List Bool.
From M17 Require Import Bits SpecCRC SpecM17 ImplMod ConstsMod LemmasMod_D LemmasMod_E LemmasMod_G LemmasMod_H LemmasMod_I.
Import ListNotations.
Local Open Scope N_scope.

(** 0. every literal of the transmit path that the specification fixes has the specification's value
       (sync words, preamble, EOT marker, both polynomials at each of the seven TX sites, P1/P2/P3,
       interleaver, randomizer sequence, Golay generator, scale, symbol map) *)
Theorem c13_mod_constants_are_spec :
  ConstsMod.sync_lsf = SpecM17.sync_lsf /\ ConstsMod.sync_stream = SpecM17.sync_stream /\
  ConstsMod.sync_bert = SpecM17.sync_bert /\ eot_sync = eot_marker /\
  repeat preamble_byte preamble_len = preamble /\
  lsf_polys = [(25, 23); (25, 23)] /\ stream_polys = [(25, 23); (25, 23)] /\ bert_polys = [(25, 23); (25, 23); (25, 23)] /\
  make_p1 = P1 /\ p2_matrix = P2 /\ p3_matrix = P3 /\
  il_f1 = 45 /\ il_f2 = 92 /\ il_k = 368%nat /\ rnd_dc = dc_bytes /\ golay_poly = golay_generator /\
  baseband_scale = 7168%Z /\ samples_per_symbol = 10%nat /\ symbol_table = [1; 3; -1; -3]%Z /\ eot_zero_bytes = 10%nat.
Proof. exact constants_lemma. Qed.
Print Assumptions c13_mod_constants_are_spec.

(** 1. send_lsf: for all callsigns over the alphabet (<= 9 characters; empty destination = broadcast) and
       CAN 0..15, the 30 bytes it returns are the specification's LSF and the frame it outputs is the
       specification's LSF frame under the LSF sync word *)
Theorem c13_mod_lsf_is_spec : forall (uninit : list bool) (can : N) (src dest : list N),
  valid_callsign src -> valid_callsign dest -> can < 16 ->
  send_lsf uninit can src dest AUDIO =
  (spec_lsf dest src can, [OutFrame SpecM17.sync_lsf (spec_lsf_frame (spec_lsf dest src can))]).
Proof. exact send_lsf_ok. Qed.
Print Assumptions c13_mod_lsf_is_spec.

(** 2. one stream frame: for every 30-byte LSF, LICH counter n < 6, every uint16 argument of make_data_frame
       (frame number in the low 15 bits, EOS flag on top) and every 16-byte payload, send_audio_frame of
       make_lich_segment (chunk n) and make_data_frame is the specification's stream frame *)
Theorem c13_mod_stream_frame_is_spec : forall (uninit : list bool) (lsf : list N) (n : nat) (fnarg : N) (payload : list N),
  length lsf = 30%nat -> all_bytes lsf -> (n < 6)%nat -> fnarg < 65536 -> length payload = 16%nat -> all_bytes payload ->
  send_audio_frame (make_lich_segment (firstn lich_stride (skipn (n * lich_stride) lsf)) (N.of_nat n))
                   (make_data_frame uninit fnarg payload)
  = [OutFrame SpecM17.sync_stream (spec_stream_frame lsf (N.of_nat n) (fnarg mod 32768) payload (N.testbit fnarg 15))].
Proof. exact stream_frame_ok. Qed.
Print Assumptions c13_mod_stream_frame_is_spec.

(** 3. BERT: for every generator (state type, generate()), make_bert_frame consumes exactly the next 197
       generated bits and one iteration of main()'s BERT loop outputs the specification's BERT frame of them *)
Theorem c13_mod_bert_frame_is_spec : forall (uninit : list bool) (S : Type) (gen : S -> S * bool) (p : S),
  make_bert_frame uninit S gen p =
    (fst (gen_bits S gen 197 p), firstn 368 (spec_puncture P2 (spec_conv (snd (gen_bits S gen 197 p))))) /\
  bert_iteration uninit S gen p =
    (fst (gen_bits S gen 197 p), [OutFrame SpecM17.sync_bert (spec_bert_frame (snd (gen_bits S gen 197 p)))]).
Proof. exact bert_lemma. Qed.
Print Assumptions c13_mod_bert_frame_is_spec.

(** 4. the whole bitstream, for every callsign pair, CAN, codec and audio of ANY length (0, partial last
       frame, more than 2^15 frames): preamble, LSF frame, one stream frame per payload numbered
       k mod 2^15 (the specification's 15-bit counter wraps from 0x7FFF to 0; so does frame_number) with LICH
       chunk k mod 6, the EOS flag on the last frame only, the EOT marker, then 10 zero bytes.
       The payloads ([expected_payloads], LemmasMod_E): the Codec2 encodings of the full 320-sample frames in
       order, then (if samples remain) of the remaining samples followed by what the audio buffer held beyond
       them, then of 320 zeros; the codec state is carried through all calls in that order.  The buffer holds
       zeros after any full frame; before the first one it holds [initial_audio mod_audio_zero_init audio0],
       i.e. [audio0] itself as long as the source leaves the array uninitialised. *)
Theorem c13_mod_bitstream_is_spec :
  forall (uninit : list bool) (cstate : Type) (codec2_encode : cstate -> list Z -> cstate * list N),
  codec_ok codec2_encode ->
  forall (audio0 : list Z) (cs0 : cstate) (can : N) (src dest : list N) (samples : list Z),
  valid_callsign src -> valid_callsign dest -> can < 16 -> length audio0 = 320%nat ->
  run_mod_bitstream uninit cstate codec2_encode audio0 cs0 can src dest samples =
  spec_bitstream dest src can (expected_payloads cstate codec2_encode (initial_audio mod_audio_zero_init audio0) cs0 samples)
  ++ repeat 0 10.
Proof. exact bitstream_lemma. Qed.
Print Assumptions c13_mod_bitstream_is_spec.

(** 4a. ... with a ZERO-padded partial frame whenever the padding cannot come from the uninitialised buffer:
        at least one full frame, or no audio at all, or a buffer that happened to hold zeros *)
Theorem c13_mod_bitstream_is_spec_zero_padded :
  forall (zero_init : bool) (uninit : list bool) (cstate : Type) (codec2_encode : cstate -> list Z -> cstate * list N),
  codec_ok codec2_encode ->
  forall (audio0 : list Z) (cs0 : cstate) (can : N) (src dest : list N) (samples : list Z),
  valid_callsign src -> valid_callsign dest -> can < 16 -> length audio0 = 320%nat ->
  (320 <= length samples)%nat \/ samples = [] \/ audio0 = repeat 0%Z 320 ->
  run_mod_bitstream_gen uninit cstate codec2_encode zero_init audio0 cs0 can src dest samples =
  spec_bitstream dest src can (zero_padded_payloads cstate codec2_encode cs0 samples) ++ repeat 0 10.
Proof. exact zero_padding_when_irrelevant. Qed.
Print Assumptions c13_mod_bitstream_is_spec_zero_padded.

(** 4b. "a partial frame is always padded with zeros" ([zero_padding_statement], LemmasMod_H: the statement
        of 4a without its last hypothesis) is FALSE of the model with the uninitialised buffer
        (run_mod_bitstream_gen ... false): 1 sample, a buffer holding 5s, a codec that looks at sample 1 *)
Theorem c13_mod_partial_first_frame_zero_padded_refuted : ~ zero_padding_statement false.
Proof. exact zero_padding_not_if_uninitialised. Qed.
Print Assumptions c13_mod_partial_first_frame_zero_padded_refuted.

(** 4c. the statement in force for the source as it is now: refuted while `audio_frame_t audio;` is
        uninitialised (ConstsMod.mod_audio_zero_init = false), proved once it is initialised *)
Theorem c13_mod_partial_frame_padding_as_built :
  if mod_audio_zero_init then zero_padding_statement true else ~ zero_padding_statement false.
Proof. exact zero_padding_as_built. Qed.
Print Assumptions c13_mod_partial_frame_padding_as_built.

(** 5. baseband.  [continuity_statement per] (LemmasMod_H): for all inputs and both polarities, the int16
       samples the program writes are trunc(+-7168 * y[n]), y = ONE continuous run of the 150-tap filter over
       the up-sampled symbol sequence of the specification's stream followed by 40 zero symbols
       (the EOT block's flush).  [per] = the filter object is a function-local static of the template
       symbols_to_baseband<N> (one per N).

   5a. as built (whatever the flag): continuity holds across every frame boundary up to the end of the last
       stream frame, and the output has the ideal's length (480 more samples: the EOT block) *)
Theorem c13_mod_baseband_continuous_through_last_frame :
  forall (uninit : list bool) (cstate : Type) (codec2_encode : cstate -> list Z -> cstate * list N),
  codec_ok codec2_encode ->
  forall (invert : bool) (audio0 : list Z) (cs0 : cstate) (can : N) (src dest : list N) (samples : list Z),
  valid_callsign src -> valid_callsign dest -> can < 16 -> length audio0 = 320%nat ->
  let payloads := expected_payloads cstate codec2_encode (initial_audio mod_audio_zero_init audio0) cs0 samples in
  let y := run_mod_baseband uninit cstate codec2_encode invert audio0 cs0 can src dest samples in
  let ideal := spec_baseband rrc_taps_num rrc_den_log2 10 (if invert then (-7168)%Z else 7168%Z)
                 (spec_symbols dest src can payloads ++ repeat 0%Z 40) in
  let n := (10 * (192 * (2 + length payloads)))%nat in
  firstn n y = firstn n ideal /\ length y = length ideal /\ length y = (n + 480)%nat.
Proof. exact through_last_frame_lemma. Qed.
Print Assumptions c13_mod_baseband_continuous_through_last_frame.

(** 5b. with one filter object per instantiation the statement is FALSE: the EOT block (N = 48) starts
        from a cold filter and the tail of the last frame never leaves the N = 192 instance
        (witness: source "A", broadcast, CAN 0, no audio, a codec returning zeros) *)
Theorem c13_mod_baseband_is_continuous_refuted : ~ continuity_statement true.
Proof. exact continuity_not_if_per_instantiation. Qed.
Print Assumptions c13_mod_baseband_is_continuous_refuted.

(** 5c. with one shared filter object the statement holds *)
Theorem c13_mod_baseband_is_continuous_if_shared : continuity_statement false.
Proof. exact continuity_if_shared. Qed.
Print Assumptions c13_mod_baseband_is_continuous_if_shared.

(** 5d. the statement in force for the source as it is now (flag regenerated from the source):
        refuted while the static lives inside the template, proved once the filter is shared *)
Theorem c13_mod_baseband_continuity_as_built :
  if mod_filter_per_instantiation then ~ continuity_statement true else continuity_statement false.
Proof. exact continuity_as_built. Qed.
Print Assumptions c13_mod_baseband_continuity_as_built.

(** 5e. every sample fits int16_t, for all inputs, both polarities, shared filter or not: the (int16_t)(double)
        conversion, which the model renders as truncation toward zero, never leaves its defined range
        (for any symbols in [-3,3]: 7168 * 3 * max over the ten phases of sum |taps| < 32768) *)
Theorem c13_mod_baseband_fits_int16 :
  forall (uninit : list bool) (cstate : Type) (codec2_encode : cstate -> list Z -> cstate * list N),
  codec_ok codec2_encode ->
  forall (per invert : bool) (audio0 : list Z) (cs0 : cstate) (can : N) (src dest : list N) (samples : list Z),
  valid_callsign src -> valid_callsign dest -> can < 16 -> length audio0 = 320%nat ->
  Forall (fun y => (-32768 <= y <= 32767)%Z)
         (run_mod_baseband_gen uninit cstate codec2_encode per invert audio0 cs0 can src dest samples).
Proof. exact baseband_fits_int16. Qed.
Print Assumptions c13_mod_baseband_fits_int16.

(** 5f. reading aid for [spec_baseband]: the accumulator form used there is the convolution sum
        y[n] = sum_k taps[k] * u[n-k] ([ideal_sample]) *)
Theorem c13_ideal_response_is_convolution_sum : forall (taps u : list Z) (n : nat), (n < length u)%nat ->
  nth n (ideal_response taps u) 0%Z = ideal_sample taps u n.
Proof. exact ideal_response_nth. Qed.
Print Assumptions c13_ideal_response_is_convolution_sum.

(** non-vacuity *)
Example c13_callsigns_valid :
  valid_callsign [65; 66; 49; 67; 68] (* AB1CD *) /\ valid_callsign [] /\ valid_callsign [87; 49; 65; 87; 47; 45; 46; 32; 57].
Proof. repeat split; try (vm_compute; reflexivity); cbn [length]; repeat constructor. Qed.
Example c13_lower_case_is_not_valid : ~ valid_callsign [97].
Proof. intros [_ H]. vm_compute in H. discriminate. Qed.
Example c13_lsf_instance :
  firstn 6 (spec_lsf [] [65] 3) = repeat 0xFF 6 /\ nth 12 (spec_lsf [] [65] 3) 0 = 1 /\ nth 13 (spec_lsf [] [65] 3) 0 = 0x85.
Proof. vm_compute. repeat split; reflexivity. Qed.

Example c13_codec_exists : codec_ok w_codec /\ codec_ok p_codec.
Proof. split; [exact w_codec_ok | exact p_codec_ok]. Qed.

(** a concrete transmission: 700 samples = two full frames, a partial one, the final one; bytes 48+48+4*48+2+10 *)
Example c13_bitstream_instance :
  let out := run_mod_bitstream (repeat true 400) unit p_codec (repeat 5%Z 320) tt 10 [65; 66; 49; 67; 68] [75; 48] (repeat 7%Z 700) in
  length out = 300%nat /\ firstn 2 (skipn 48 out) = [0x55; 0xF7] /\ firstn 2 (skipn 96 out) = [0xFF; 0x5D] /\
  firstn 12 (skipn 288 out) = [0x55; 0x5D; 0; 0; 0; 0; 0; 0; 0; 0; 0; 0] /\
  length (expected_payloads unit p_codec (repeat 5%Z 320) tt (repeat 7%Z 700)) = 4%nat.
Proof. vm_compute. repeat split; reflexivity. Qed.
