(** BaseFirFilter: the circular-buffer implementation computes the convolution sum; reset; linearity;
    time invariance; the impulse response of two filters in series is the convolution of their taps. *)
From Coq Require Import Arith List Lia Ring Ring_theory Bool.
From M17 Require Import ImplDSP SpecDSP LemmasDSP_Sum.
Import ListNotations.

Section Fir.
Variable R : Type.
Variables (r0 r1 : R) (radd rmul rsub : R -> R -> R) (ropp : R -> R).
Hypothesis Rth : ring_theory r0 r1 radd rmul rsub ropp (@eq R).
Add Ring Rring : Rth.
Notation "0" := r0.
Notation "1" := r1.
Infix "+" := radd.
Infix "*" := rmul.
Infix "-" := rsub.
Notation rsum := (rsum R r0 radd).
Notation conv_at := (conv_at R r0 radd rmul).
Notation fir_step := (fir_step R r0 radd rmul).
Notation fir_run := (fir_run R r0 radd rmul).
Notation run_fir := (run_fir R r0 radd rmul).
Notation fir_init := (fir_init R r0).
Notation fir_reset := (fir_reset R r0).
Notation fir_acc := (fir_acc R r0 radd rmul).
Notation rb_inv := (rb_inv R r0).
Notation ago := (ago r0).
Notation seq_add := (seq_add R radd).
Notation seq_scale := (seq_scale R rmul).
Notation convolve := (convolve R r0 radd rmul).
Notation rsum_ext := (LemmasDSP_Sum.rsum_ext R r0 radd).
Notation rsum_S := (LemmasDSP_Sum.rsum_S R r0 radd).
Notation rsum_zero := (LemmasDSP_Sum.rsum_zero R r0 r1 radd rmul rsub ropp Rth).
Notation rsum_add := (LemmasDSP_Sum.rsum_add R r0 r1 radd rmul rsub ropp Rth).
Notation rsum_scale := (LemmasDSP_Sum.rsum_scale R r0 r1 radd rmul rsub ropp Rth).
Notation rsum_extend := (LemmasDSP_Sum.rsum_extend R r0 r1 radd rmul rsub ropp Rth).
Notation conv_at_ext := (LemmasDSP_Sum.conv_at_ext R r0 radd rmul).
Notation conv_conv_comm := (LemmasDSP_Sum.conv_conv_comm R r0 r1 radd rmul rsub ropp Rth).

(** the accumulation loop visits the samples newest first *)
Lemma fir_loop taps history pos : pos < length taps -> forall n, n <= length taps ->
  fold_left (fir_acc taps history) (seq 0 n) (pos, 0) =
  (match n with O => pos | S k => back (length taps) pos k end,
   rsum (fun i => nth (back (length taps) pos i) history 0 * nth i taps 0) n).
Proof.
  intros P. induction n; intros; [reflexivity|].
  rewrite seq_S, fold_left_app, IHn by lia. cbn [fold_left Nat.add]. unfold ImplDSP.fir_acc. cbn [fst snd].
  assert (E : fir_dec (length taps) (match n with O => pos | S k => back (length taps) pos k end) = back (length taps) pos n).
  { unfold fir_dec, back. destruct n.
    - destruct (Nat.eqb_spec pos 0), (Nat.ltb_spec 0 pos); simpl; lia.
    - destruct (Nat.ltb_spec n pos), (Nat.ltb_spec (S n) pos);
        match goal with |- context [negb (?a =? 0)] => destruct (Nat.eqb_spec a 0) end; simpl; lia. }
  rewrite E. reflexivity.
Qed.

(** one call of operator() *)
Lemma fir_step_spec taps pre st x : rb_inv (length taps) pre (fir_history st) (fir_pos st) ->
  let r := fir_step taps st x in
  rb_inv (length taps) (pre ++ [x]) (fir_history (fst r)) (fir_pos (fst r)) /\
  snd r = conv_at taps (pre ++ [x]) (length pre).
Proof.
  intros I. pose proof (rb_push R r0 _ _ _ _ x I) as I'. unfold adv in I'.
  unfold ImplDSP.fir_step. cbn [fst snd fir_history fir_pos]. split; [exact I'|].
  destruct I' as (L & P & H).
  rewrite fir_loop by (auto; lia). cbn [snd]. unfold SpecDSP.conv_at.
  apply rsum_ext. intros i Hi. rewrite H by exact Hi. unfold LemmasDSP_Sum.ago.
  rewrite app_length. cbn [length]. replace (length pre + 1 - 1 - i)%nat with (length pre - i)%nat by lia.
  destruct (Nat.ltb_spec i (length pre + 1)%nat), (Nat.leb_spec i (length pre)); try lia; ring.
Qed.

Lemma fir_run_length taps : forall xs st, length (snd (fir_run taps st xs)) = length xs.
Proof.
  induction xs; intros; [reflexivity|]. cbn [ImplDSP.fir_run].
  destruct (fir_step taps st a) as [st1 y]. specialize (IHxs st1).
  destruct (fir_run taps st1 xs). simpl in *. congruence.
Qed.

Lemma fir_run_spec taps : forall xs pre st, rb_inv (length taps) pre (fir_history st) (fir_pos st) ->
  forall n, n < length xs ->
  nth n (snd (fir_run taps st xs)) 0 = conv_at taps (pre ++ xs) (length pre + n)%nat.
Proof.
  induction xs; intros pre st I n Hn; [simpl in Hn; lia|].
  cbn [ImplDSP.fir_run]. pose proof (fir_step_spec taps pre st a I) as S. cbv zeta in S.
  destruct (fir_step taps st a) as [st1 y]. cbn [fst snd] in S. destruct S as [I1 Y].
  specialize (IHxs (pre ++ [a]) st1 I1). destruct (fir_run taps st1 xs) as [st2 ys]. cbn [snd] in *.
  destruct n.
  - cbn [nth]. rewrite Y, Nat.add_0_r. apply conv_at_ext.
    intros k Hk. destruct (Nat.eq_dec k (length pre)).
    + subst. rewrite !app_nth2 by lia. rewrite Nat.sub_diag. reflexivity.
    + rewrite !app_nth1 by lia. reflexivity.
  - cbn [nth]. simpl in Hn. rewrite IHxs by lia. rewrite <- app_assoc, app_length. cbn [app length].
    f_equal. lia.
Qed.

(** [nth n (run_fir taps xs) = Σ_{i<N, i<=n} taps_i * xs_{n-i}] *)
Lemma fir_is_convolution_lemma taps xs n : 0 < length taps -> n < length xs ->
  nth n (run_fir taps xs) 0 = conv_at taps xs n.
Proof.
  intros. unfold ImplDSP.run_fir.
  rewrite (fir_run_spec taps xs [] (fir_init (length taps))); auto.
  apply rb_inv_init. assumption.
Qed.

Lemma run_fir_length taps xs : length (run_fir taps xs) = length xs.
Proof. apply fir_run_length. Qed.

(** the state reached from a fresh filter satisfies the buffer invariant *)
Lemma fir_run_inv taps : forall xs pre st, rb_inv (length taps) pre (fir_history st) (fir_pos st) ->
  rb_inv (length taps) (pre ++ xs) (fir_history (fst (fir_run taps st xs))) (fir_pos (fst (fir_run taps st xs))).
Proof.
  induction xs; intros pre st I; [rewrite app_nil_r; exact I|].
  cbn [ImplDSP.fir_run]. pose proof (fir_step_spec taps pre st a I) as S. cbv zeta in S.
  destruct (fir_step taps st a) as [st1 y]. cbn [fst snd] in S. destruct S as [I1 _].
  specialize (IHxs (pre ++ [a]) st1 I1). destruct (fir_run taps st1 xs) as [st2 ys]. cbn [fst] in *.
  rewrite <- app_assoc in IHxs. exact IHxs.
Qed.

Lemma fir_reset_is_init st : fir_reset st = fir_init (length (fir_history st)).
Proof. unfold ImplDSP.fir_reset, ImplDSP.fir_init. rewrite map_const_repeat. reflexivity. Qed.

(** reset() after any history gives the outputs of a freshly constructed filter *)
Lemma fir_reset_lemma taps xs0 xs : 0 < length taps ->
  snd (fir_run taps (fir_reset (fst (fir_run taps (fir_init (length taps)) xs0))) xs) = run_fir taps xs.
Proof.
  intros. rewrite fir_reset_is_init.
  destruct (fir_run_inv taps xs0 [] (fir_init (length taps)) (rb_inv_init R r0 _ H)) as (L & _).
  rewrite L. reflexivity.
Qed.

(** ... and so does reset() in ANY state whose history_ has the right size (arbitrary contents and pos_) *)
Lemma fir_reset_any_lemma taps st xs : length (fir_history st) = length taps ->
  snd (fir_run taps (fir_reset st) xs) = run_fir taps xs.
Proof. intros. rewrite fir_reset_is_init, H. reflexivity. Qed.

(** ** corollaries *)
Lemma nth_ext_default (a b : list R) : length a = length b -> (forall n, n < length a -> nth n a 0 = nth n b 0) -> a = b.
Proof. intros. apply nth_ext with (d := 0) (d' := 0); auto. Qed.

Lemma nth_seq_scale k xs n : nth n (seq_scale k xs) 0 = k * nth n xs 0.
Proof.
  unfold SpecDSP.seq_scale. destruct (Nat.lt_ge_cases n (length xs)).
  - apply nth_map_in. assumption.
  - rewrite !nth_overflow by (rewrite ?map_length; lia). ring.
Qed.

Lemma nth_seq_add xs ys n : length xs = length ys -> nth n (seq_add xs ys) 0 = nth n xs 0 + nth n ys 0.
Proof.
  intros L. unfold SpecDSP.seq_add. destruct (Nat.lt_ge_cases n (length xs)).
  - rewrite (nth_map_in _ _ (0, 0)) by (rewrite combine_length; lia).
    rewrite combine_nth by auto. reflexivity.
  - rewrite !nth_overflow by (rewrite ?map_length, ?combine_length; lia). ring.
Qed.

Lemma seq_add_length xs ys : length xs = length ys -> length (seq_add xs ys) = length xs.
Proof. intros. unfold SpecDSP.seq_add. rewrite map_length, combine_length. lia. Qed.

Lemma seq_scale_length k xs : length (seq_scale k xs) = length xs.
Proof. apply map_length. Qed.

Lemma conv_at_linear taps a b xs ys n : length xs = length ys ->
  conv_at taps (seq_add (seq_scale a xs) (seq_scale b ys)) n = a * conv_at taps xs n + b * conv_at taps ys n.
Proof.
  intros L. unfold SpecDSP.conv_at.
  rewrite <- !rsum_scale, <- rsum_add.
  apply rsum_ext. intros i _.
  destruct (i <=? n); [|ring].
  rewrite nth_seq_add, !nth_seq_scale by (rewrite !seq_scale_length; exact L). ring.
Qed.

Lemma fir_linear_lemma taps a b xs ys : 0 < length taps -> length xs = length ys ->
  run_fir taps (seq_add (seq_scale a xs) (seq_scale b ys)) =
  seq_add (seq_scale a (run_fir taps xs)) (seq_scale b (run_fir taps ys)).
Proof.
  intros HN L.
  assert (L1 : length (seq_add (seq_scale a xs) (seq_scale b ys)) = length xs).
  { rewrite seq_add_length; rewrite !seq_scale_length; auto. }
  apply nth_ext_default.
  - rewrite run_fir_length, L1, seq_add_length; rewrite !seq_scale_length, !run_fir_length; auto.
  - intros n Hn. rewrite run_fir_length, L1 in Hn.
    rewrite fir_is_convolution_lemma by (auto; lia).
    rewrite nth_seq_add, !nth_seq_scale by (rewrite !seq_scale_length, !run_fir_length; exact L).
    rewrite !fir_is_convolution_lemma by (auto; lia).
    apply conv_at_linear. exact L.
Qed.

Lemma nth_delay d xs n : nth n (repeat 0 d ++ xs) 0 = if n <? d then 0 else nth (n - d)%nat xs 0.
Proof.
  destruct (Nat.ltb_spec n d).
  - rewrite app_nth1 by (rewrite repeat_length; lia). apply nth_repeat_any.
  - rewrite app_nth2; rewrite repeat_length; auto.
Qed.

Lemma conv_at_delay taps d xs n :
  conv_at taps (repeat 0 d ++ xs) n = if n <? d then 0 else conv_at taps xs (n - d)%nat.
Proof.
  unfold SpecDSP.conv_at. destruct (Nat.ltb_spec n d).
  - apply rsum_zero. intros i _. destruct (i <=? n); [|reflexivity].
    rewrite nth_delay. destruct (Nat.ltb_spec (n - i)%nat d); [ring|lia].
  - apply rsum_ext. intros i _. rewrite nth_delay.
    destruct (Nat.leb_spec i n), (Nat.leb_spec i (n - d)%nat), (Nat.ltb_spec (n - i)%nat d); try lia; try ring.
    replace (n - i - d)%nat with (n - d - i)%nat by lia. reflexivity.
Qed.

Lemma fir_time_invariant_lemma taps d xs : 0 < length taps ->
  run_fir taps (repeat 0 d ++ xs) = repeat 0 d ++ run_fir taps xs.
Proof.
  intros HN. apply nth_ext_default.
  - rewrite run_fir_length, !app_length, run_fir_length. reflexivity.
  - intros n Hn. rewrite run_fir_length in Hn.
    rewrite fir_is_convolution_lemma, conv_at_delay, nth_delay by auto.
    destruct (Nat.ltb_spec n d); [reflexivity|].
    rewrite app_length, repeat_length in Hn.
    rewrite fir_is_convolution_lemma by (auto; lia). reflexivity.
Qed.

(** ** two filters in series: the response to a unit impulse is the convolution of the two tap sets *)
Definition impulse (len : nat) : list R := 1 :: repeat 0 (len - 1)%nat.

Lemma nth_impulse len n : 0 < len -> nth n (impulse len) 0 = if n =? 0 then 1 else 0.
Proof. intros. unfold impulse. destruct n; [reflexivity|]. cbn [nth Nat.eqb]. apply nth_repeat_any. Qed.

Lemma conv_at_impulse taps len n : 0 < len -> conv_at taps (impulse len) n = nth n taps 0.
Proof.
  intros. unfold SpecDSP.conv_at.
  destruct (Nat.lt_ge_cases n (length taps)).
  - rewrite (rsum_extend _ (S n)); try lia.
    + rewrite rsum_S, rsum_zero.
      * rewrite Nat.leb_refl, Nat.sub_diag, nth_impulse by auto. cbn [Nat.eqb]. ring.
      * intros i Hi. destruct (Nat.leb_spec i n); [|reflexivity]. rewrite nth_impulse by auto.
        destruct (Nat.eqb_spec (n - i)%nat 0%nat); [lia|ring].
    + intros i Hi. destruct (Nat.leb_spec i n); [lia|reflexivity].
  - rewrite nth_overflow by lia. apply rsum_zero.
    intros i Hi. destruct (Nat.leb_spec i n); [|reflexivity]. rewrite nth_impulse by auto.
    destruct (Nat.eqb_spec (n - i)%nat 0%nat); [lia|ring].
Qed.

Lemma conv_at_comm a b n : conv_at a b n = conv_at b a n.
Proof.
  (* both are the two-kernel response to an impulse *)
  set (d := impulse (S n)).
  assert (Ha : forall m, m <= n -> nth m a 0 = conv_at a d m) by (intros; unfold d; rewrite conv_at_impulse; auto; lia).
  assert (Hb : forall m, m <= n -> nth m b 0 = conv_at b d m) by (intros; unfold d; rewrite conv_at_impulse; auto; lia).
  apply (conv_conv_comm b a d b a n Hb Ha).
Qed.

Lemma cascade_impulse_lemma tx rx : 0 < length tx -> 0 < length rx ->
  run_fir rx (run_fir tx (impulse (length tx + length rx - 1)%nat)) = convolve tx rx.
Proof.
  intros Ht Hr. set (len := (length tx + length rx - 1)%nat).
  assert (Hl : 0 < len) by (unfold len; lia).
  apply nth_ext_default.
  - unfold SpecDSP.convolve. rewrite !run_fir_length, map_length, seq_length. unfold impulse. cbn [length].
    rewrite repeat_length. fold len. lia.
  - intros n Hn. rewrite !run_fir_length in Hn.
    assert (Hn' : n < len) by (unfold impulse in Hn; cbn [length] in Hn; rewrite repeat_length in Hn; lia).
    rewrite fir_is_convolution_lemma by (rewrite ?run_fir_length; auto).
    unfold SpecDSP.convolve. fold len.
    rewrite (nth_map_in _ _ 0%nat) by (rewrite seq_length; lia).
    rewrite seq_nth by lia. cbn [Nat.add].
    rewrite (conv_at_comm tx rx n).
    apply conv_at_ext.
    intros k Hk. rewrite fir_is_convolution_lemma by (auto; lia).
    apply conv_at_impulse. exact Hl.
Qed.

(** scaling the two tables scales the cascade (so the normalised side-tap ratios do not depend on the
    common power-of-two denominators the tables are stored with) *)
Lemma conv_at_scale s t a b n : conv_at (seq_scale s a) (seq_scale t b) n = (s * t) * conv_at a b n.
Proof.
  unfold SpecDSP.conv_at. rewrite seq_scale_length, <- rsum_scale.
  apply rsum_ext. intros i _. rewrite !nth_seq_scale.
  destruct (i <=? n); ring.
Qed.

End Fir.
