(** Extraction of the soft-demapper model and specification for the correspondence check: ExtrOcamlBasic only. *)
Require Extraction.
Require Import ExtrOcamlBasic.
From Coq Require Import ZArith QArith List Floats.SpecFloat.
From M17 Require Import ConstsLlr ImplLLR SpecLLR.
Definition c12_width_modem : Z := llr_width_modem.
Definition c12_app_is_float : bool := llr_app_float_is_binary32.
Extraction "c12_model.ml" F32 F64 make_llr_map llr_with sf_of_bits bits_of_sf
  SF2Q sf_finite nearest_dibit far_from_boundariesb soft_dibit soft_ok saturated c12_width_modem c12_app_is_float.
