(** LemmasVit_Loop — the loop of decode() over the input pairs is [forward] of LayeredDP, the end-state scan is an
    argmin, and the chainback loop is [traceR]; together: what decode() returns, as a function of the DP alone. *)
From Coq Require Import NArith ZArith List Lia Bool Arith.
From M17 Require Import Bits ConstsViterbi ImplViterbi SpecConv LemmasVit_DP LemmasVit_Tables LemmasVit_Step.
Import ListNotations.
Local Open Scope Z_scope.

Definition m_init : list Z := upd (repeat MAX_METRIC 16) 0 0.

Lemma vit_forward_S tb W sc r n :
  vit_forward tb W sc r (S n) =
  vit_step tb (makeCost W) makeNextState (vit_forward tb W sc r n) n (nth (2 * n) r 0) (nth (2 * n + 1) r 0).
Proof. unfold vit_forward, vit_forward_t. rewrite seq_S, fold_left_app. reflexivity. Qed.

Lemma costs_of_S W r n : costs_of W r (S n) = costs_of W r n ++ [step_cost W r n].
Proof. unfold costs_of. rewrite seq_S, map_app. reflexivity. Qed.

Lemma costs_of_length W r n : length (costs_of W r n) = n.
Proof. unfold costs_of. rewrite map_length, seq_length. reflexivity. Qed.

Lemma m_init_length : length m_init = 16%nat.
Proof. reflexivity. Qed.

(** the state of the model after n steps, in terms of the DP *)
Lemma forward_model tb W sc r : (2 <= W <= 6)%nat -> length (sc_curr sc) = 16%nat ->
  forall n, (n <= length (sc_hist sc))%nat ->
  let st := vit_forward tb W sc r n in
  sc_prev st = fst (forward16 tb m_init (costs_of W r n)) /\
  map dec_list (firstn n (sc_hist st)) = snd (forward16 tb m_init (costs_of W r n)) /\
  length (sc_hist st) = length (sc_hist sc) /\ length (sc_curr st) = 16%nat /\ length (sc_prev st) = 16%nat.
Proof. intros HW Hc. induction n as [|n IH]; intros Hn.
- cbn zeta. unfold vit_forward, vit_forward_t. cbn [seq fold_left vit_init sc_prev sc_hist sc_curr firstn map costs_of forward fst snd].
  repeat split; try reflexivity. exact Hc.
- cbn zeta. rewrite vit_forward_S. specialize (IH ltac:(lia)). cbn zeta in IH.
  destruct IH as (I1 & I2 & I3 & I4 & I5).
  set (st := vit_forward tb W sc r n) in *.
  destruct (acs_is_relaxation tb W st n (nth (2 * n) r 0) (nth (2 * n + 1) r 0) HW I4) as (A1 & (x & A2 & A3) & A4).
  cbv zeta in A1, A2, A3, A4.
  rewrite costs_of_S, forward_snoc. cbn [fst snd]. rewrite <- I1, <- I2.
  split; [exact A1|]. split; [|split; [|split]].
  + rewrite A2. rewrite (firstn_S_nth _ 0%N) by (rewrite upd_length; lia).
    rewrite firstn_upd_ge by lia. rewrite nth_upd_same by lia. rewrite map_app. cbn [map]. rewrite A3. reflexivity.
  + rewrite A2, upd_length. exact I3.
  + rewrite A4. exact I5.
  + rewrite A1, map_length. apply relax_len.
Qed.

(** the best-end-state scan *)
Lemma scan_min_spec tb m :
  (fst (scan_min tb m) < 16)%nat /\ snd (scan_min tb m) = nth (fst (scan_min tb m)) m 0 /\
  forall s, (s < 16)%nat -> snd (scan_min tb m) <= nth s m 0.
Proof. unfold scan_min. change NumStates with 16%nat.
  apply (fold_seq_inv _ (fun j acc => (fst acc < 16)%nat /\ snd acc = nth (fst acc) m 0 /\
                                      forall s, (s < j)%nat -> snd acc <= nth s m 0)).
  - cbn [fst snd]. repeat split; [apply Nat.mod_upper_bound; discriminate|]. intros s Hs. lia.
  - intros j acc Hj (P1 & P2 & P3). unfold lt_tb.
    destruct (tb_scan tb).
    + destruct (Z.leb_spec (nth j m 0) (snd acc)); cbn [fst snd]; repeat split; try assumption; try reflexivity.
      * intros s Hs. destruct (Nat.eq_dec s j) as [->|]; [lia|]. specialize (P3 s ltac:(lia)). lia.
      * intros s Hs. destruct (Nat.eq_dec s j) as [->|]; [lia|]. apply P3. lia.
    + destruct (Z.ltb_spec (nth j m 0) (snd acc)); cbn [fst snd]; repeat split; try assumption; try reflexivity.
      * intros s Hs. destruct (Nat.eq_dec s j) as [->|]; [lia|]. specialize (P3 s ltac:(lia)). lia.
      * intros s Hs. destruct (Nat.eq_dec s j) as [->|]; [lia|]. apply P3. lia.
Qed.

(** * chainback *)
Lemma skipn_upd {A} (l : list A) : forall t x, (t < length l)%nat -> skipn t (upd l t x) = x :: skipn (S t) l.
Proof. induction l as [|h l IH]; intros [|t] x H; cbn [length] in H; try lia.
- reflexivity.
- cbn [upd]. change (skipn (S t) (h :: upd l t x)) with (skipn t (upd l t x)). rewrite IH by lia. reflexivity. Qed.

Lemma firstn_skipn_upd {A} (l : list A) : forall t x, firstn t (upd l t x) = firstn t l.
Proof. intros. apply firstn_upd_ge. lia. Qed.

Lemma odd_bit next : (next < 16)%nat -> N.of_nat (next mod 2) = b2n (inb16 next).
Proof. intros H. do 16 (destruct next as [|next]; [reflexivity|]). lia. Qed.

Section Chain.
Variables (H : list (list bool)) (hs : list N) (n OUT : nat).
Hypothesis HOUT : (OUT <= n)%nat.
Hypothesis HlenH : length H = n.
Hypothesis Hdec : forall t s, (t < n)%nat -> (s < 16)%nat -> get_bit (nth t hs 0%N) s = nth s (nth t H []) false.

Lemma traceR_step t next : (t < n)%nat ->
  snd (traceR16 (rev (firstn (S t) H)) next []) =
  snd (traceR16 (rev (firstn t H)) (pv16 next (nth next (nth t H []) false)) []) ++ [inb16 next].
Proof. intros Ht. rewrite (firstn_S_nth H []) by lia. rewrite rev_unit. cbn [traceR].
  rewrite traceR_acc. reflexivity. Qed.

Lemma traceR_fst_step t next : (t < n)%nat ->
  fst (traceR16 (rev (firstn (S t) H)) next []) =
  fst (traceR16 (rev (firstn t H)) (pv16 next (nth next (nth t H []) false)) []).
Proof. intros Ht. rewrite (firstn_S_nth H []) by lia. rewrite rev_unit. cbn [traceR].
  rewrite traceR_acc. reflexivity. Qed.

Lemma chainback_trace : forall t, (t <= n)%nat -> forall next out, (next < 16)%nat -> length out = OUT ->
  chainback t hs makePrevState OUT (Nat.min t OUT) t t next out =
  firstn (Nat.min t OUT) (map b2n (snd (traceR16 (rev (firstn t H)) next []))) ++ skipn (Nat.min t OUT) out.
Proof. induction t as [|t IH]; intros Ht next out Hnext Hout.
- cbn [chainback Nat.min firstn skipn app]. reflexivity.
- cbn [chainback].
  destruct (Nat.eq_dec OUT 0) as [Z0|NZ].
  { rewrite Z0. rewrite Nat.min_0_r. cbn [Nat.eqb orb firstn skipn app]. reflexivity. }
  assert (E0 : (Nat.min (S t) OUT =? 0)%nat = false) by (apply Nat.eqb_neq; lia).
  rewrite E0. cbn [orb Nat.eqb].
  replace (S t - 1)%nat with t by lia.
  rewrite Hdec by lia. rewrite prevState_spec by exact Hnext.
  set (v := nth next (nth t H []) false).
  assert (Hnext' : (pv16 next v < 16)%nat) by (apply pv16_lt; exact Hnext).
  rewrite traceR_step by lia. fold v.
  set (bits' := snd (traceR16 (rev (firstn t H)) (pv16 next v) [])).
  assert (Lb : length bits' = t).
  { subst bits'. rewrite traceR_length. rewrite rev_length, firstn_length. cbn [length]. lia. }
  rewrite map_app. cbn [map].
  destruct (Nat.leb_spec (S t) OUT) as [Hle|Hgt].
  + replace (Nat.min (S t) OUT) with (S t) by lia. replace (S t - 1)%nat with t by lia.
    specialize (IH ltac:(lia) (pv16 next v) (upd out t (N.of_nat (next mod 2))) Hnext' ltac:(rewrite upd_length; exact Hout)).
    replace (Nat.min t OUT) with t in IH by lia. rewrite IH. fold bits'.
    rewrite skipn_upd by lia. rewrite odd_bit by exact Hnext.
    rewrite firstn_all2 by (rewrite map_length; lia).
    rewrite firstn_all2 by (rewrite app_length, map_length; cbn [length]; lia).
    rewrite <- app_assoc. reflexivity.
  + replace (Nat.min (S t) OUT) with OUT by lia.
    specialize (IH ltac:(lia) (pv16 next v) out Hnext' Hout).
    replace (Nat.min t OUT) with OUT in IH by lia. rewrite IH. fold bits'.
    rewrite firstn_app. replace (OUT - length (map b2n bits'))%nat with 0%nat by (rewrite map_length; lia).
    cbn [firstn]. rewrite app_nil_r. reflexivity.
Qed.
End Chain.

Lemma nth_firstn_lt {A} (l : list A) d : forall n i, (i < n)%nat -> nth i (firstn n l) d = nth i l d.
Proof. induction l as [|h l IH]; intros [|n] [|i] Hi; cbn [firstn nth]; try reflexivity; try lia. apply IH. lia. Qed.

(** * what decode_gen returns *)
Definition dp_result (tb : tiebreak) (W IN OUT : nat) (r : list Z) : list N * Z :=
  let fw := forward16 tb m_init (costs_of W r (IN / 2)) in
  let me := scan_min tb (fst fw) in
  (map b2n (firstn OUT (snd (traceR16 (rev (snd fw)) (fst me) []))), round_div (snd me) (llr_limit W)).

Lemma decode_is_dp tb W IN OUT sc out0 r :
  (2 <= W <= 6)%nat -> (IN / 2 <= vit_history_size)%nat -> (OUT <= IN / 2)%nat ->
  wf_scratch sc -> length out0 = OUT ->
  fst (decode_gen tb W IN OUT sc out0 r) = dp_result tb W IN OUT r /\ wf_scratch (snd (decode_gen tb W IN OUT sc out0 r)).
Proof. intros HW HIN HOUT (W1 & W2 & W3) Hout. change NumStates with 16%nat in W2, W3.
  unfold decode_gen, decode_t, dp_result. cbn [fst snd make_tables t_prev t_limit].
  change (vit_forward_t (make_tables W) tb sc r (IN / 2)) with (vit_forward tb W sc r (IN / 2)).
  set (n := (IN / 2)%nat) in *.
  destruct (forward_model tb W sc r HW W3 n ltac:(lia)) as (F1 & F2 & F3 & F4 & F5). cbv zeta in F1, F2, F3, F4, F5.
  set (st := vit_forward tb W sc r n) in *.
  set (fw := forward16 tb m_init (costs_of W r n)) in *.
  rewrite F1.
  destruct (scan_min_spec tb (fst fw)) as (S1 & S2 & S3).
  set (me := scan_min tb (fst fw)) in *.
  split.
  - f_equal.
    assert (HlenH : length (snd fw) = n) by (subst fw; rewrite forward_hist_length, costs_of_length; reflexivity).
    pose proof (chainback_trace (snd fw) (sc_hist st) n OUT HOUT HlenH) as C.
    assert (Hdec : forall t s, (t < n)%nat -> (s < 16)%nat ->
              get_bit (nth t (sc_hist st) 0%N) s = nth s (nth t (snd fw) []) false).
    { intros t s Ht Hs. rewrite <- F2.
      rewrite nth_indep with (d' := dec_list 0%N) by (rewrite map_length, firstn_length; lia).
      rewrite map_nth. rewrite dec_list_nth by exact Hs. rewrite nth_firstn_lt by exact Ht. reflexivity. }
    specialize (C Hdec n (Nat.le_refl n) (fst me) out0 S1 Hout).
    replace (Nat.min n OUT) with OUT in C by lia. rewrite C.
    rewrite firstn_all2 with (l := snd fw) by lia.
    rewrite skipn_all2 by lia. rewrite app_nil_r. rewrite firstn_map. reflexivity.
  - unfold wf_scratch. change NumStates with 16%nat. repeat split; [rewrite F3; exact W1 | exact F5 | exact F4].
Qed.
