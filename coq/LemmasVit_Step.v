(** LemmasVit_Step — one pass of the eight butterflies of calculate_path_metric is the relaxation step of LayeredDP on
    the M17 trellis (c02_acs_is_relaxation), and the loop over the input pairs is [forward]. *)
From Coq Require Import NArith ZArith List Lia Bool Arith.
From M17 Require Import Bits ConstsViterbi ImplViterbi SpecConv LemmasVit_DP LemmasVit_Tables.
Import ListNotations.
Local Open Scope Z_scope.

(** * list update *)
Lemma upd_length {A} (l : list A) : forall i x, length (upd l i x) = length l.
Proof. induction l as [|h t IH]; intros [|i] x; cbn [upd length]; try reflexivity. rewrite IH. reflexivity. Qed.

Lemma nth_upd_same {A} (l : list A) : forall i x d, (i < length l)%nat -> nth i (upd l i x) d = x.
Proof. induction l as [|h t IH]; intros [|i] x d H; cbn [length] in H; try lia; cbn [upd nth]; [reflexivity|].
  apply IH. lia. Qed.

Lemma nth_upd_other {A} (l : list A) : forall i j x d, i <> j -> nth j (upd l i x) d = nth j l d.
Proof. induction l as [|h t IH]; intros [|i] [|j] x d H; cbn [upd nth]; try reflexivity; try lia.
  apply IH. lia. Qed.

Lemma firstn_upd_ge {A} (l : list A) : forall i n x, (n <= i)%nat -> firstn n (upd l i x) = firstn n l.
Proof. induction l as [|h t IH]; intros [|i] [|n] x H; cbn [upd firstn]; try reflexivity; try lia.
  f_equal. apply IH. lia. Qed.

Lemma firstn_S_nth {A} (l : list A) d : forall n, (n < length l)%nat -> firstn (S n) l = firstn n l ++ [nth n l d].
Proof. induction l as [|h t IH]; intros [|n] H; cbn [length] in H; try lia; [reflexivity|].
  cbn [firstn nth app]. f_equal. apply IH. lia. Qed.

Lemma fold_seq_inv {A} (f : A -> nat -> A) (P : nat -> A -> Prop) : forall n a,
  P 0%nat a -> (forall j x, (j < n)%nat -> P j x -> P (S j) (f x j)) -> P n (fold_left f (seq 0 n) a).
Proof. induction n as [|n IH]; intros a H0 Hs; [exact H0|].
  rewrite seq_S, fold_left_app. cbn [fold_left Nat.add]. apply Hs; [lia|]. apply IH; [exact H0|].
  intros j x Hj. apply Hs. lia. Qed.

(** * bit sets *)
Lemma get_set_bit_same h i d : get_bit (set_bit h i d) i = d.
Proof. unfold get_bit, set_bit. destruct d; [apply N.setbit_eq | apply N.clearbit_eq]. Qed.
Lemma get_set_bit_other h i j d : i <> j -> get_bit (set_bit h i d) j = get_bit h j.
Proof. intros H. unfold get_bit, set_bit. assert (N.of_nat i <> N.of_nat j) by lia.
  destruct d; [apply N.setbit_neq | apply N.clearbit_neq]; assumption. Qed.

Definition dec_list (h : N) : list bool := map (get_bit h) (seq 0 16).
Lemma dec_list_nth h s : (s < 16)%nat -> nth s (dec_list h) false = get_bit h s.
Proof. intros H. unfold dec_list. rewrite nth_indep with (d' := get_bit h 0) by (rewrite map_length, seq_length; lia).
  rewrite map_nth, seq_nth by lia. reflexivity. Qed.

(** * arithmetic of the butterfly indices *)
Lemma pv16_even j d : pv16 (2 * j) d = (j + (if d then 8 else 0))%nat.
Proof. unfold pv16. replace (2 * j)%nat with (j * 2)%nat by lia. rewrite Nat.div_mul by lia. reflexivity. Qed.
Lemma pv16_odd j d : pv16 (2 * j + 1) d = (j + (if d then 8 else 0))%nat.
Proof. unfold pv16. replace (2 * j + 1)%nat with (1 + j * 2)%nat by lia. rewrite Nat.div_add by lia. reflexivity. Qed.
Lemma inb16_even j : inb16 (2 * j) = false.
Proof. unfold inb16. rewrite Nat.odd_mul. reflexivity. Qed.
Lemma inb16_odd j : inb16 (2 * j + 1) = true.
Proof. unfold inb16. rewrite Nat.odd_add, Nat.odd_mul. reflexivity. Qed.

(** * the eight butterflies are one relaxation step *)
Section Butterflies.
Variables (tb : tiebreak) (prev cost0 cost1 : list Z) (c : cost).
Hypothesis Hc : forall j, (j < 8)%nat ->
  nth j cost0 0 = c j false /\ nth j cost1 0 = c j true /\
  nth j cost1 0 = c (j + 8)%nat false /\ nth j cost0 0 = c (j + 8)%nat true.

Definition bf_inv (j : nat) (hc : N * list Z) : Prop :=
  length (snd hc) = 16%nat /\
  forall s, (s < 2 * j)%nat ->
    nth s (snd hc) 0 = fst (relax1_16 tb prev c s) /\ get_bit (fst hc) s = snd (relax1_16 tb prev c s).

Lemma bf_step j hc : (j < 8)%nat -> bf_inv j hc ->
  bf_inv (S j) (calculate_path_metric tb makeNextState prev cost0 cost1 hc j).
Proof. intros Hj [Hlen Hinv]. destruct (nextState_spec j Hj) as [N0 N1]. destruct (Hc j Hj) as (C0 & C1 & C2 & C3).
  unfold calculate_path_metric. rewrite N0, N1. unfold bf_m0, bf_m1, bf_m2, bf_m3.
  change (NumStates / 2)%nat with 8%nat.
  set (m0 := nth j prev 0 + nth j cost0 0). set (m1 := nth j prev 0 + nth j cost1 0).
  set (m2 := nth (j + 8) prev 0 + nth j cost1 0). set (m3 := nth (j + 8) prev 0 + nth j cost0 0).
  assert (R0 : relax1_16 tb prev c (2 * j) = if gt_tb (tb_d0 tb) m0 m2 then (m2, true) else (m0, false)).
  { unfold relax1, pick16. rewrite !pv16_even, inb16_even. rewrite Nat.add_0_r. subst m0 m2. rewrite C0, C2. reflexivity. }
  assert (R1 : relax1_16 tb prev c (2 * j + 1) = if gt_tb (tb_d1 tb) m1 m3 then (m3, true) else (m1, false)).
  { unfold relax1, pick16. rewrite !pv16_odd, inb16_odd. rewrite Nat.add_0_r. subst m1 m3. rewrite C1, C3. reflexivity. }
  split.
  - cbn [snd]. rewrite !upd_length. exact Hlen.
  - intros s Hs. cbn [fst snd].
    destruct (Nat.eq_dec s (2 * j + 1)) as [E1|E1]; [|destruct (Nat.eq_dec s (2 * j)) as [E0|E0]].
    + subst s. rewrite nth_upd_same by (rewrite upd_length; lia). rewrite get_set_bit_same. rewrite R1.
      destruct (gt_tb (tb_d1 tb) m1 m3); split; reflexivity.
    + subst s. rewrite nth_upd_other by lia. rewrite nth_upd_same by lia.
      rewrite get_set_bit_other by lia. rewrite get_set_bit_same. rewrite R0.
      destruct (gt_tb (tb_d0 tb) m0 m2); split; reflexivity.
    + rewrite !nth_upd_other by lia. rewrite !get_set_bit_other by lia. apply Hinv. lia.
Qed.

Lemma butterflies_relax h curr : length curr = 16%nat ->
  let hc := fold_left (calculate_path_metric tb makeNextState prev cost0 cost1) (seq 0 8) (h, curr) in
  snd hc = map fst (relax16 tb prev c) /\ dec_list (fst hc) = map snd (relax16 tb prev c).
Proof. intros Hlen hc.
  assert (I : bf_inv 8 hc).
  { subst hc. apply (fold_seq_inv _ bf_inv).
    - split; [exact Hlen | intros s Hs; lia].
    - intros j x Hj Hx. apply bf_step; assumption. }
  destruct I as [Hl Hinv]. split.
  - apply nth_ext with (d := 0) (d' := 0).
    + rewrite map_length, relax_len. exact Hl.
    + intros s Hs. rewrite Hl in Hs. rewrite relax_nth_fst by exact Hs. apply Hinv. lia.
  - apply nth_ext with (d := false) (d' := false).
    + unfold dec_list. rewrite !map_length, seq_length, relax_len. reflexivity.
    + intros s Hs. unfold dec_list in Hs. rewrite map_length, seq_length in Hs.
      rewrite dec_list_nth, relax_nth_snd by exact Hs. apply Hinv. lia.
Qed.
End Butterflies.

(** * the branch costs computed per step are the specification's soft distances *)
Lemma branch_costs_spec W s0 s1 j : (2 <= W <= 6)%nat -> (j < 8)%nat ->
  let L := soft_limit W in
  branch_cost0 (makeCost W) s0 s1 j = bcost L s0 s1 j false /\
  branch_cost1 (makeCost W) s0 s1 j = bcost L s0 s1 j true /\
  branch_cost1 (makeCost W) s0 s1 j = bcost L s0 s1 (j + 8)%nat false /\
  branch_cost0 (makeCost W) s0 s1 j = bcost L s0 s1 (j + 8)%nat true.
Proof. intros HW Hj L. destruct (cost_spec W j HW Hj) as [T0 T1]. fold L in T0, T1.
  destruct (out_sym j Hj) as (A1 & A2 & A3 & A4 & A5 & A6).
  unfold branch_cost0, branch_cost1, bcost. rewrite T0, T1, A1, A2, A3, A4, A5, A6.
  unfold sdist, sgn.
  destruct (out1 j false), (out2 j false), (s0 =? 0), (s1 =? 0); cbn [negb]; repeat split; lia. Qed.

Definition step_cost (W : nat) (r : list Z) (t : nat) : cost :=
  bcost (soft_limit W) (nth (2 * t) r 0) (nth (2 * t + 1) r 0).
Definition costs_of (W : nat) (r : list Z) (n : nat) : list cost := map (step_cost W r) (seq 0 n).

(** Theorem 2 of the design: the butterfly/ACS pass is the relaxation of LayeredDP for this trellis *)
Lemma acs_is_relaxation tb W st hindex s0 s1 : (2 <= W <= 6)%nat -> length (sc_curr st) = 16%nat ->
  let st' := vit_step tb (makeCost W) makeNextState st hindex s0 s1 in
  let c := bcost (soft_limit W) s0 s1 in
  sc_prev st' = map fst (relax16 tb (sc_prev st) c) /\
  (exists x, sc_hist st' = upd (sc_hist st) hindex x /\ dec_list x = map snd (relax16 tb (sc_prev st) c)) /\
  sc_curr st' = sc_prev st.
Proof. intros HW Hlen st' c. subst st'. unfold vit_step. cbn [sc_prev sc_hist sc_curr].
  change HalfStates with 8%nat.
  set (cost0 := map (branch_cost0 (makeCost W) s0 s1) (seq 0 8)).
  set (cost1 := map (branch_cost1 (makeCost W) s0 s1) (seq 0 8)).
  assert (Hc : forall j, (j < 8)%nat ->
    nth j cost0 0 = c j false /\ nth j cost1 0 = c j true /\ nth j cost1 0 = c (j + 8)%nat false /\ nth j cost0 0 = c (j + 8)%nat true).
  { intros j Hj. subst cost0 cost1.
    rewrite nth_indep with (d' := branch_cost0 (makeCost W) s0 s1 0) by (rewrite map_length, seq_length; lia).
    rewrite (nth_indep (map (branch_cost1 _ _ _) _) 0 (branch_cost1 (makeCost W) s0 s1 0)) by (rewrite map_length, seq_length; lia).
    rewrite !map_nth, !seq_nth by lia. cbn [Nat.add].
    destruct (branch_costs_spec W s0 s1 j HW Hj) as (B0 & B1 & B2 & B3). subst c. repeat split; assumption. }
  destruct (butterflies_relax tb (sc_prev st) cost0 cost1 c Hc (nth hindex (sc_hist st) 0%N) (sc_curr st) Hlen) as [R1 R2].
  cbv zeta in R1, R2.
  split; [exact R1|]. split; [|reflexivity].
  eexists. split; [reflexivity | exact R2].
Qed.
