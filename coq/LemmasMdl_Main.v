(** C14 lemmas, part 11: the statements that Properties_C14.v closes. *)
From Coq Require Import NArith ZArith List Bool Lia Arith.
From M17 Require Import Bits SpecCRC SpecM17 ConstsModulator ImplModulator SpecModulator ModelOutQueue
  LemmasCRC_B LemmasMdl_Bits LemmasMdl_Conv LemmasMdl_Golay LemmasMdl_Frame LemmasMdl_LSF LemmasMdl_SM LemmasMdl_Run
  LemmasMdl_Shape LemmasMdl_Queue.
Import ListNotations.
Local Open Scope N_scope.

Definition callsigns_ok (dst src : list N) : Prop :=
  (all_bytes dst /\ (length dst <= 9)%nat) /\ (all_bytes src /\ (1 <= length src <= 9)%nat).

Definition codec2_ok {cstate} (codec2_encode : cstate -> list Z -> cstate * list N) : Prop :=
  forall c a, length (snd (codec2_encode c a)) = 8%nat /\ all_bytes (snd (codec2_encode c a)).

(** ** LSF *)
Lemma lsf_is_spec junk dst src : callsigns_ok dst src ->
  let lsf := build_lsf (encode_callsign dst) (encode_callsign src) in
  lsf = spec_lsf dst src 0
  /\ firstn 6 lsf = spec_dst_address dst /\ firstn 6 (skipn 6 lsf) = spec_address src
  /\ firstn 2 (skipn 12 lsf) = [0; 5] /\ firstn 14 (skipn 14 lsf) = repeat 0 14
  /\ m17_crc lsf = 0
  /\ send_link_setup junk (encode_callsign dst) (encode_callsign src) =
     (build_lich junk (spec_lsf dst src 0), sync_lsf ++ bits_bytes (spec_lsf_frame (spec_lsf dst src 0))).
Proof. intros [Hd Hs]. cbv zeta. rewrite (lsf_eq dst src Hd Hs).
  assert (L6 : length (spec_dst_address dst) = 6%nat) by (destruct dst; reflexivity).
  assert (M6 : length (spec_address src) = 6%nat) by reflexivity.
  split; [reflexivity|]. unfold spec_lsf, spec_lsf_body. rewrite type_field_can0.
  repeat split.
  - rewrite <- !app_assoc. replace 6%nat with (6 + 0)%nat by lia. rewrite firstn_app_exact by exact L6. cbn [firstn]. apply app_nil_r.
  - rewrite <- !app_assoc. replace (skipn 6) with (@skipn N (6 + 0)) by reflexivity. rewrite skipn_app_exact by exact L6. cbn [skipn].
    replace 6%nat with (6 + 0)%nat by lia. rewrite firstn_app_exact by exact M6. cbn [firstn]. apply app_nil_r.
  - rewrite <- !app_assoc. replace (skipn 12) with (@skipn N (6 + 6)) by reflexivity. rewrite skipn_app_exact by exact L6.
    replace (skipn 6) with (@skipn N (6 + 0)) by reflexivity. rewrite skipn_app_exact by exact M6. reflexivity.
  - rewrite <- !app_assoc. replace (skipn 14) with (@skipn N (6 + 8)) by reflexivity. rewrite skipn_app_exact by exact L6.
    replace (skipn 8) with (@skipn N (6 + 2)) by reflexivity. rewrite skipn_app_exact by exact M6. reflexivity.
  - apply residue_zero.
  - apply send_link_setup_eq; assumption. Qed.

(** ** stream frames: any 30-byte LSF, fragment number, 15-bit frame number, 16-byte payload, either EOS value *)
Definition fn_arg (fn : N) (eos : bool) : N := if eos then u16 (N.lor fn ConstsModulator.eos_mask) else fn.

Lemma frames_are_spec junk lsf n fn payload eos : all_bytes lsf -> length lsf = 30%nat -> (n < 6)%nat -> fn < 32768 ->
  all_bytes payload -> length payload = 16%nat ->
  send_audio_frame junk (nth n (build_lich junk lsf) []) (make_payload junk (fn_arg fn eos) payload) =
  sync_stream ++ bits_bytes (spec_stream_frame lsf (N.of_nat n) fn payload eos).
Proof. intros Hl Ll Hn Hf Hp Lp. rewrite stream_frame_bytes by assumption.
  unfold spec_stream_frame, spec_stream_payload, fn_arg. destruct eos.
  - rewrite fn_field_eos by exact Hf. reflexivity.
  - rewrite fn_field_plain by exact Hf. reflexivity. Qed.

(** the result does not depend on the content of uninitialised memory *)
Lemma frames_junk_independent junk junk' lsf n fnraw payload : all_bytes lsf -> length lsf = 30%nat -> (n < 6)%nat ->
  all_bytes payload -> length payload = 16%nat ->
  send_audio_frame junk (nth n (build_lich junk lsf) []) (make_payload junk fnraw payload) =
  send_audio_frame junk' (nth n (build_lich junk' lsf) []) (make_payload junk' fnraw payload).
Proof. intros. rewrite !stream_frame_bytes by assumption. reflexivity. Qed.

(** ** LICH *)
Lemma lich_table junk lsf n : all_bytes lsf -> length lsf = 30%nat -> (n < 6)%nat ->
  nth n (build_lich junk lsf) [] = bits_bytes (spec_lich lsf (N.of_nat n)) /\ length (build_lich junk lsf) = 6%nat.
Proof. intros Hl Ll Hn. destruct (build_lich_spec junk lsf n Hl Ll Hn) as [E [A _]].
  rewrite <- E, bits_bytes_bytes_bits by exact A. split; [reflexivity | apply build_lich_length]. Qed.

(** explicit form of [spec_stream_frames]: fragment and frame number of the k-th frame, EOS on the last only.
    Proved over an abstract frame function so that no conversion ever unfolds the encoders. *)
Section GenFrames.
Variable F : N -> list N -> bool -> list N.
Fixpoint gen_frames (k : N) (ps : list (list N)) : list N :=
  match ps with
  | [] => []
  | p :: rest => F k p (match rest with [] => true | _ => false end) ++ gen_frames (k + 1) rest
  end.
Fixpoint gen_plain (k : N) (ps : list (list N)) : list N :=
  match ps with
  | [] => []
  | p :: r => F k p false ++ gen_plain (k + 1) r
  end.
Lemma gen_explicit ps : forall k p, gen_frames k (ps ++ [p]) = gen_plain k ps ++ F (k + N.of_nat (length ps)) p true.
Proof. induction ps as [|q r IH]; intros k p.
- cbn [app gen_frames gen_plain length N.of_nat]. rewrite N.add_0_r, app_nil_r. reflexivity.
- cbn [app gen_frames gen_plain length]. rewrite IH. destruct (r ++ [p]) eqn:E; [destruct r; discriminate|].
  rewrite Nat2N.inj_succ. replace (k + N.succ (N.of_nat (length r))) with (k + 1 + N.of_nat (length r)) by lia.
  rewrite <- app_assoc. reflexivity. Qed.
End GenFrames.

Definition one_frame (lsf : list N) (k : N) (p : list N) (eos : bool) : list N :=
  sync_stream ++ bits_bytes (spec_stream_frame lsf (k mod 6) (k mod 32768) p eos).
Definition plain_frames (lsf : list N) : N -> list (list N) -> list N := gen_plain (one_frame lsf).

Lemma stream_frames_gen lsf ps : forall k, spec_stream_frames lsf k ps = gen_frames (one_frame lsf) k ps.
Proof. induction ps as [|p r IH]; intros k; [reflexivity|]. cbn [spec_stream_frames gen_frames]. rewrite IH. reflexivity. Qed.

Lemma stream_frames_explicit lsf ps k p :
  spec_stream_frames lsf k (ps ++ [p]) = plain_frames lsf k ps ++ one_frame lsf (k + N.of_nat (length ps)) p true.
Proof. rewrite stream_frames_gen. apply gen_explicit. Qed.
Global Opaque one_frame.

Lemma fn_top_sweep : below 15 (fun r => N.testbit (nth 0 (fn_field r true) 0) 7 && negb (N.testbit (nth 0 (fn_field r false) 0) 7)) = true.
Proof. vm_cast_no_check (eq_refl true). Qed.
Lemma fn_field_mod fn eos : fn_field fn eos = fn_field (fn mod 32768) eos.
Proof. unfold fn_field. rewrite N.mod_mod by discriminate. reflexivity. Qed.
Lemma fn_field_top_bit fn eos : N.testbit (nth 0 (fn_field fn eos) 0) 7 = eos.
Proof. rewrite fn_field_mod. assert (B0 : fn mod 32768 < 32768) by (apply N.mod_upper_bound; discriminate).
  pose proof (below_spec 15 _ fn_top_sweep (fn mod 32768) B0) as S.
  apply andb_prop in S. destruct S as [A B]. destruct eos; [exact A | apply negb_true_iff; exact B]. Qed.

Lemma exists_last' {A} (l : list A) : l <> [] -> exists init x, l = init ++ [x].
Proof. intros H. destruct (exists_last H) as [i [x E]]. eauto. Qed.

Section Main.
Variable junk : nat -> N.
Variable cstate : Type.
Variable codec2_encode : cstate -> list Z -> cstate * list N.
Hypothesis codec_ok : codec2_ok codec2_encode.
Variables dst src : list N.
Hypothesis calls_ok : callsigns_ok dst src.
Notation runm := (run junk cstate codec2_encode (encode_callsign dst) (encode_callsign src)).
Notation lsf := (spec_lsf dst src 0).

(** one key-up: EOS on the last frame and on no other *)
Lemma eos_on_last c samples last :
  exists ps p, snd (encode_frames cstate codec2_encode c (cut samples last)) = ps ++ [p]
  /\ length ps = (length samples / 320)%nat
  /\ snd (keyup_stream cstate codec2_encode dst src c samples last) =
     preamble ++ sync_lsf ++ bits_bytes (spec_lsf_frame lsf) ++ plain_frames lsf 0 ps ++ one_frame lsf (N.of_nat (length ps)) p true.
Proof. assert (Len : forall fs c0, length (snd (encode_frames cstate codec2_encode c0 fs)) = length fs).
  { induction fs as [|f r IH]; intros c0; [reflexivity|]. rewrite enc_frames_cons. cbn [snd length]. rewrite IH. reflexivity. }
  assert (Cut : forall samples0 acc, (length acc < 320)%nat -> length (cut_acc acc samples0 last) = S ((length acc + length samples0) / 320)).
  { induction samples0 as [|s r IH]; intros acc Ha; cbn [cut_acc length].
    - rewrite Nat.add_0_r, Nat.div_small by exact Ha. reflexivity.
    - unfold frame_samples. destruct (Nat.eqb_spec (length acc + 1) 320) as [F|F].
      + cbn [length]. rewrite IH by (cbn; lia). cbn [length Nat.add].
        replace (length acc + S (length r))%nat with (length r + 1 * 320)%nat by lia. rewrite Nat.div_add by lia. lia.
      + rewrite IH by (rewrite app_length; cbn [length]; lia). rewrite app_length. cbn [length]. f_equal. f_equal. lia. }
  destruct (exists_last' (snd (encode_frames cstate codec2_encode c (cut samples last)))) as [ps [p E]];
    [apply enc_frames_nonempty, cut_acc_nonempty|].
  exists ps, p. split; [exact E|]. pose proof (Len (cut samples last) c) as L. rewrite E in L. unfold cut in L. rewrite Cut in L by (cbn; lia).
  rewrite app_length in L. cbn [length Nat.add] in L. split; [lia|].
  unfold keyup_stream. destruct (encode_frames cstate codec2_encode c (cut samples last)) as [c' pl]. cbn [snd] in *. subst pl.
  rewrite stream_frames_explicit. rewrite N.add_0_l. reflexivity. Qed.

(** every enabled schedule that ends IDLE is a session of complete key-ups and emits the specification's stream *)
Theorem stream_wellformed c0 sched s' out :
  runm (minit junk cstate c0) sched = Some (s', out) -> st_mode s' = IDLE ->
  exists kus trailing, Forall keyup_ok kus /\ sched = session_items kus trailing
    /\ out = snd (session_stream cstate codec2_encode dst src c0 kus)
    /\ st_codec s' = fst (session_stream cstate codec2_encode dst src c0 kus).
Proof. intros R M.
  pose proof (run_modes junk cstate codec2_encode (encode_callsign dst) (encode_callsign src) sched (minit junk cstate c0)) as RM.
  change (st_mode (minit junk cstate c0)) with IDLE in RM.
  destruct (mode_run IDLE sched) as [m|] eqn:E; [|rewrite R in RM; discriminate].
  destruct RM as [s2 [o2 [R2 M2]]]. rewrite R in R2. injection R2 as <- <-. rewrite M in M2. subst m.
  destruct (sessions_shape (length sched) sched (le_n _) E) as [kus [trailing [K S]]].
  exists kus, trailing. split; [exact K|]. split; [exact S|].
  destruct calls_ok as [Hd Hs].
  destruct (run_structured junk cstate codec2_encode codec_ok dst src Hd Hs kus trailing c0 K) as [s3 [R3 [_ [_ C3]]]].
  rewrite <- S, R in R3. injection R3 as <- <-. split; [reflexivity | exact C3]. Qed.

(** conversely every session of well-formed key-ups is an enabled schedule *)
Theorem structured_runs kus trailing c0 : Forall keyup_ok kus ->
  exists s', runm (minit junk cstate c0) (session_items kus trailing) = Some (s', snd (session_stream cstate codec2_encode dst src c0 kus))
             /\ st_mode s' = IDLE.
Proof. intros K. destruct calls_ok as [Hd Hs].
  destruct (run_structured junk cstate codec2_encode codec_ok dst src Hd Hs kus trailing c0 K) as [s3 [R3 [M _]]]. eauto. Qed.
End Main.

(** ** return to IDLE: no hypothesis on the oracle or on the callsigns *)
Theorem ends_idle junk cstate codec2_encode dest source c0 sched s' out :
  run junk cstate codec2_encode dest source (minit junk cstate c0) sched = Some (s', out) ->
  st_mode s' <> INACTIVE /\
  forall e1 e2 e3, exists s'' out', run junk cstate codec2_encode dest source s' (completion (st_mode s') e1 e2 e3) = Some (s'', out')
                                   /\ st_mode s'' = IDLE.
Proof. intros R.
  pose proof (run_modes junk cstate codec2_encode dest source sched (minit junk cstate c0)) as RM.
  change (st_mode (minit junk cstate c0)) with IDLE in RM.
  destruct (mode_run IDLE sched) as [m|] eqn:E; [|rewrite R in RM; discriminate].
  destruct RM as [s2 [o2 [R2 M2]]]. rewrite R in R2. injection R2 as <- <-.
  assert (NI : st_mode s' <> INACTIVE) by (rewrite M2; apply (never_inactive sched IDLE m); [discriminate | exact E]).
  split; [exact NI|]. intros e1 e2 e3.
  pose proof (run_modes junk cstate codec2_encode dest source (completion (st_mode s') e1 e2 e3) s') as RC.
  rewrite completion_idle in RC by exact NI. exact RC. Qed.

(** ** the consumer's view: modulator + blocking output queue + consumer of arbitrary speed *)
Theorem consumer_receives_stream junk cstate codec2_encode : codec2_ok codec2_encode ->
  forall dst src, callsigns_ok dst src ->
  forall c0 sched s' out,
  run junk cstate codec2_encode (encode_callsign dst) (encode_callsign src) (minit junk cstate c0) sched = Some (s', out) ->
  st_mode s' = IDLE ->
  forall policy, policy = Blocks -> forall trace,
  drained (qrun policy ConstsModulator.bitstream_queue_capacity out trace) ->
  exists kus trailing, Forall keyup_ok kus /\ sched = session_items kus trailing
    /\ delivered (qrun policy ConstsModulator.bitstream_queue_capacity out trace) = snd (session_stream cstate codec2_encode dst src c0 kus).
Proof. intros Hc dst src Hs c0 sched s' out R M policy HP trace D.
  destruct (stream_wellformed junk cstate codec2_encode Hc dst src Hs c0 sched s' out R M) as [kus [trailing [K [S [O _]]]]].
  exists kus, trailing. split; [exact K|]. split; [exact S|].
  destruct (no_byte_lost ConstsModulator.bitstream_queue_capacity policy HP out trace) as [_ H]. rewrite (H D). exact O. Qed.
