(** C14 lemmas, part 10: with a blocking put the consumer receives exactly the bytes put, in order, under every
    interleaving; with a put that returns false on a full queue bytes are lost. *)
From Coq Require Import NArith List Bool Lia Arith.
From M17 Require Import ModelOutQueue.
Import ListNotations.

Section Queue.
Variable cap : nat.

Definition qinv (bytes : list N) (st : qstate) : Prop :=
  delivered st ++ snd (fst st) ++ fst (fst st) = bytes /\ (length (snd (fst st)) <= cap)%nat.

Lemma qstep_inv bytes st a : qinv bytes st -> qinv bytes (qstep Blocks cap st a).
Proof. destruct st as [[todo fifo] got]. unfold qinv, delivered. cbn [fst snd]. intros [E L]. destruct a; cbn [qstep].
- destruct todo as [|b rest]; [split; assumption|].
  destruct (Nat.ltb_spec (length fifo) cap) as [Lt|Ge]; [|split; assumption]. cbn [fst snd].
  split; [rewrite <- E, <- !app_assoc; reflexivity | rewrite app_length; cbn [length]; lia].
- destruct fifo as [|b q]; [split; assumption|]. cbn [fst snd].
  split; [rewrite <- E, <- !app_assoc; reflexivity | cbn [length] in L; lia]. Qed.

Lemma qrun_inv bytes trace : qinv bytes (qrun Blocks cap bytes trace).
Proof. unfold qrun.
  assert (G : forall tr st, qinv bytes st -> qinv bytes (fold_left (qstep Blocks cap) tr st)).
  { induction tr as [|a tr IH]; intros st H; [exact H|]. cbn [fold_left]. apply IH. apply qstep_inv. exact H. }
  apply G. split; [reflexivity | cbn; lia]. Qed.

(** nothing lost, duplicated or reordered: at every moment received ++ queued ++ still-to-put is the put
    sequence; once everything is drained the consumer holds exactly that sequence *)
Theorem no_byte_lost policy : policy = Blocks -> forall bytes trace,
  let st := qrun policy cap bytes trace in
  delivered st ++ snd (fst st) ++ fst (fst st) = bytes /\ (drained st -> delivered st = bytes).
Proof. intros -> bytes trace. pose proof (qrun_inv bytes trace) as H. cbv zeta. unfold qinv in H.
  destruct (qrun Blocks cap bytes trace) as [[todo fifo] got]. unfold delivered, drained in *. cbn [fst snd] in *. destruct H as [E _].
  split; [exact E|]. intros [-> ->]. rewrite !app_nil_r in E. exact E. Qed.

(** no deadlock: unless everything is delivered one of the two threads can run, and whoever runs reduces the
    remaining work; so every interleaving that keeps scheduling a runnable thread drains within
    2 * |bytes| steps *)
Theorem progress policy st : (0 < cap)%nat -> (length (snd (fst st)) <= cap)%nat -> ~ drained st ->
  can_run policy cap st Producer = true \/ can_run policy cap st Consumer = true.
Proof. destruct st as [[todo fifo] got]. unfold drained. cbn [fst snd can_run]. intros Hc L H.
  destruct fifo as [|b q]; [|right; reflexivity]. destruct todo as [|x r]; [exfalso; apply H; split; reflexivity|].
  left. destruct policy; [apply Nat.ltb_lt; exact Hc | reflexivity]. Qed.

Theorem productive policy st a : can_run policy cap st a = true -> (work (qstep policy cap st a) < work st)%nat.
Proof. destruct st as [[todo fifo] got]. unfold work. destruct a; cbn [can_run qstep fst snd].
- destruct todo as [|b rest]; [discriminate|]. destruct (Nat.ltb (length fifo) cap) eqn:Lt.
  + intros _. cbn [fst snd length]. rewrite app_length. cbn [length]. lia.
  + destruct policy; [discriminate|]. intros _. cbn [fst snd length]. lia.
- destruct fifo as [|b q]; [discriminate|]. intros _. cbn [fst snd length]. lia. Qed.
End Queue.

(** with the pre-5bc9c51 behaviour of put a byte is lost as soon as the producer runs 97 times in a row *)
Definition lossy_bytes : list N := map N.of_nat (seq 0 97).
Definition lossy_trace : list actor := repeat Producer 97 ++ repeat Consumer 97.
Lemma lossy_example :
  let st := qrun ReturnsFalse 96 lossy_bytes lossy_trace in
  fst (fst st) = [] /\ snd (fst st) = [] /\ delivered st = map N.of_nat (seq 0 96) /\ delivered st <> lossy_bytes.
Proof. vm_compute. repeat split. discriminate. Qed.

(** the source of queue::put, as read by the translator, waits without a deadline when called with the default
    timeout (a reverted fix makes this lemma fail); capacity of bitstream_queue_t *)
From M17 Require ConstsModulator.
Lemma put_policy_in_source : ConstsModulator.put_default_waits_without_deadline = true /\ ConstsModulator.bitstream_queue_capacity = 96%nat.
Proof. split; reflexivity. Qed.
