(** Gallina mirror of include/m17cxx/Golay24.h, statement by statement.  Values are [N]; the C++ widths are
    written out where a left shift could leave the type ([u32], [u64], [u16]).  Every literal comes from
    ConstsGolay (regenerated from the source on every run).  No proofs here.

    Exported for the frame-decoder model:
      golay_encode24 : N -> N              (Golay24::encode24)
      golay_decode   : N -> option N       (Golay24::decode: [Some output] iff the C++ returns true)
    The table lookup returns an index, so "iterator == LUT.end()" is visible ([DEnd]). *)
From Coq Require Import NArith List Bool.
From M17 Require Import ConstsGolay.
Import ListNotations.
Local Open Scope N_scope.

Definition u16 (x : N) : N := N.land x 0xFFFF.
Definition u32 (x : N) : N := N.land x 0xFFFFFFFF.
Definition u64 (x : N) : N := N.land x 0xFFFFFFFFFFFFFFFF.

Definition POLY : N := golay_POLY.

(** std::popcount *)
Fixpoint pop_pos (p : positive) : N :=
  match p with
  | xH => 1
  | xO q => pop_pos q
  | xI q => N.succ (pop_pos q)
  end.
Definition popcount (x : N) : N := match x with N0 => 0 | Npos p => pop_pos p end.

(** body of the loop shared by syndrome() and encode23():
      if (codeword & 1) codeword ^= POLY;  codeword >>= 1;            *)
Definition lfsr_step (codeword : N) : N :=
  N.shiftr (if N.testbit codeword 0 then N.lxor codeword POLY else codeword) 1.

(** constexpr uint32_t syndrome(uint32_t codeword) *)
Definition syndrome_raw (codeword : N) : N :=
  Nat.iter golay_syn_steps lfsr_step (N.land codeword golay_syn_mask).
Definition syndrome (codeword : N) : N := u32 (N.shiftl (syndrome_raw codeword) golay_syn_shift).

(** constexpr bool parity(uint32_t codeword) { return std::popcount(codeword) & 1; } *)
Definition parity (codeword : N) : bool := N.odd (popcount codeword).

(** SyndromeMapEntry { uint32_t a; uint16_t b; } *)
Definition entry : Type := (N * N)%type.

Definition makeSyndromeMapEntry (val : N) : entry :=
  (u32 (N.shiftr val golay_entry_a_shift), u16 (N.land val golay_entry_b_mask)).

Definition makeSME (syn bits : N) : N :=
  N.lor (u64 (N.shiftl syn golay_sme_shift)) (N.land bits golay_sme_mask).

(** for (size_t x = a; x != b; ++x) with a <= b *)
Definition range (a b : nat) : list nat := seq a (b - a).
Definition bit (i : nat) : N := N.shiftl 1 (N.of_nat i).
Definition VECLEN : nat := golay_VECLEN.
Definition LUT_SIZE : nat := golay_LUT_SIZE.
Definition sme_of (v : N) : N := makeSME (syndrome v) v.

(** the values stored through result[index++] in make_lut(), in program order *)
Definition lut_stores : list N :=
  [makeSME (syndrome 0) 0]
  ++ map (fun i => sme_of (bit i)) (range 0 (VECLEN - golay_w1_i_off))
  ++ flat_map (fun i =>
       map (fun j => sme_of (N.lor (bit i) (bit j))) (range (i + 1) (VECLEN - golay_w2_j_off)))
       (range 0 (VECLEN - golay_w2_i_off))
  ++ flat_map (fun i =>
       flat_map (fun j =>
         map (fun k => sme_of (N.lor (N.lor (bit i) (bit j)) (bit k))) (range (j + 1) (VECLEN - golay_w3_k_off)))
         (range (i + 1) (VECLEN - golay_w3_j_off)))
       (range 0 (VECLEN - golay_w3_i_off)).

(** detail::array<uint64_t, LUT_SIZE> result{}: zero-initialised, LUT_SIZE cells.  (More than LUT_SIZE stores
    do not compile in the C++ - out-of-range write in a constant expression; the model truncates.) *)
Definition lut_unsorted : list N :=
  firstn LUT_SIZE (lut_stores ++ repeat 0 (LUT_SIZE - length lut_stores)).

(** detail::sort(result): ascending on the uint64 keys.  The C++ is a constexpr quicksort; the model is an
    insertion sort.  The keys are proved distinct, hence every correct sort gives this list
    (LemmasGolay_C.sorted_unique), and the C++ table is dumped and compared row by row on every run. *)
Fixpoint insert (x : N) (l : list N) : list N :=
  match l with
  | [] => [x]
  | y :: l' => if x <=? y then x :: l else y :: insert x l'
  end.
Definition sort (l : list N) : list N := fold_right insert [] l.

Definition make_lut : list entry := map makeSyndromeMapEntry (sort lut_unsorted).
Definition LUT : list entry := make_lut.

(** constexpr uint32_t encode23(uint16_t data) *)
Definition encode23 (data : N) : N :=
  let codeword := Nat.iter golay_enc_steps lfsr_step data in
  N.lor codeword (u32 (N.shiftl data golay_enc_data_shift)).

(** constexpr uint32_t encode24(uint16_t data) *)
Definition encode24 (data : N) : N :=
  let codeword := encode23 data in
  N.lor (u32 (N.shiftl codeword golay_enc24_shift)) (if parity codeword then 1 else 0).

(** the comparator of the lower_bound call: (sme.a >> 8) < val *)
Definition comp (sme : entry) (val : N) : bool := N.shiftr (fst sme) golay_dec_cmp_shift <? val.

(** std::lower_bound(first, last, val, comp) as libstdc++ runs it (std::__lower_bound):
      len = last - first;
      while (len > 0) { half = len >> 1; middle = first + half;
                        if (comp(middle, val)) { first = middle + 1; len = len - half - 1; } else len = half; }
      return first;
    [fuel] bounds the number of iterations (len strictly decreases). *)
Fixpoint lb_loop (fuel : nat) (lut : list entry) (val : N) (first len : nat) : nat :=
  match fuel with
  | O => first
  | S fuel' =>
    match len with
    | O => first
    | _ =>
      let half := Nat.div2 len in
      let middle := (first + half)%nat in
      if comp (nth middle lut (0, 0)) val
      then lb_loop fuel' lut val (middle + 1)%nat (len - half - 1)%nat
      else lb_loop fuel' lut val first half
    end
  end.
Definition lower_bound (lut : list entry) (val : N) : nat := lb_loop (S (length lut)) lut val 0 (length lut).

(** what std::lower_bound is specified to return on a range partitioned by comp(_, val):
    the index of the first element for which comp is false (length = end()) *)
Fixpoint partition_point (lut : list entry) (val : N) : nat :=
  match lut with
  | [] => O
  | e :: l => if comp e val then S (partition_point l val) else O
  end.

(** (((it->a & 0xFF) << 16) | it->b) << 1 *)
Definition correction_of (e : entry) : N :=
  u32 (N.shiftl (N.lor (u32 (N.shiftl (N.land (fst e) golay_dec_corr_mask) golay_dec_corr_shift_a)) (snd e)) golay_dec_corr_shift).

Inductive dres : Type :=
| DEnd                  (* it == LUT.end(): the C++ would read it->a past the table *)
| DFail                 (* return false *)
| DOk (output : N).     (* return true, [output] written *)

(** bool decode(uint32_t input, uint32_t& output) *)
Definition decode_with (lut : list entry) (input : N) : dres :=
  let syndrm := syndrome (N.shiftr input golay_dec_in_shift) in
  let it := lower_bound lut syndrm in
  match nth_error lut it with
  | None => DEnd
  | Some e =>
    if N.shiftr (fst e) golay_dec_eq_shift =? syndrm then
      let correction := correction_of e in
      let output := N.lxor input correction in
      if (popcount correction <? golay_dec_accept_weight) || negb (parity output) then DOk output else DFail
    else DFail
  end.
Definition decode (input : N) : dres := decode_with LUT input.

Definition golay_encode24 (data : N) : N := encode24 data.
Definition dres_output (x : dres) : option N :=
  match x with DOk output => Some output | _ => None end.
Definition golay_decode (input : N) : option N := dres_output (decode input).
