(** C09 — CRC-16 is the M17 CRC for every message and detects all short error classes.
    This file holds only the property theorems (each closed by [exact]) and their
    Print Assumptions; the models are ImplCRC.v (mirror of CRC16.h) and SpecCRC.v. *)
From Coq Require Import NArith List Bool.
From M17 Require Import Bits ImplCRC SpecCRC ConstsCrc LemmasCRC_A LemmasCRC_B LemmasCRC_C.
Import ListNotations.
Local Open Scope N_scope.

(* the engine as the frame decoder instantiates it (template arguments regenerated from the source) *)
Notation impl_crc := (crc_of ConstsCrc.crc_poly ConstsCrc.crc_init).
Notation impl_crc_bytes := (crc_bytes_of ConstsCrc.crc_poly ConstsCrc.crc_init).

(** 1. for every byte string, reset(); feed; get() is the specification's CRC (poly 0x5935, init 0xFFFF,
       MSB first, no reflection, no final xor) *)
Theorem c09_crc_impl_is_m17 : forall bytes : list N, impl_crc bytes = crc_direct 0x5935 0xFFFF bytes.
Proof. exact crc_impl_is_m17_lemma. Qed.
Print Assumptions c09_crc_impl_is_m17.

(** every site at which the modem instantiates the CRC uses the M17 parameters *)
Theorem c09_all_sites_are_m17 :
  Forall (fun s => fst s = 0x5935 /\ snd s = 0xFFFF) ConstsCrc.crc_sites.
Proof. exact sites_forall. Qed.
Print Assumptions c09_all_sites_are_m17.

(** 2. a message followed by its two CRC bytes (as get_bytes() returns them) checks to zero *)
Theorem c09_crc_residue_zero : forall m : list N, impl_crc (m ++ impl_crc_bytes m) = 0.
Proof. exact residue_zero_impl. Qed.
Print Assumptions c09_crc_residue_zero.

(** 3. error detection, for messages of ANY length: xoring in an error pattern [e] changes the CRC when
       (a) all error bits lie in a window of <= 16 consecutive bits (bursts; single errors are the case w = [true]) *)
Theorem c09_burst_detected : forall (m e : list N) (a b : nat) (w : list bool),
  length m = length e ->
  bytes_bits e = repeat false a ++ w ++ repeat false b ->
  (length w <= 16)%nat -> existsb (fun x => x) w = true ->
  impl_crc (xor_bytes m e) <> impl_crc m.
Proof. exact burst_detected_impl. Qed.
Print Assumptions c09_burst_detected.

Theorem c09_single_detected : forall (m e : list N) (a b : nat),
  length m = length e -> bytes_bits e = repeat false a ++ [true] ++ repeat false b ->
  impl_crc (xor_bytes m e) <> impl_crc m.
Proof. exact single_detected_impl. Qed.
Print Assumptions c09_single_detected.

(**    (b) exactly two error bits, d+1 positions apart with d < 239 - i.e. any two bits of a 240-bit frame *)
Theorem c09_double_detected : forall (m e : list N) (a d b : nat),
  length m = length e -> (d < 239)%nat ->
  bytes_bits e = repeat false a ++ [true] ++ repeat false d ++ [true] ++ repeat false b ->
  impl_crc (xor_bytes m e) <> impl_crc m.
Proof. exact double_detected_impl. Qed.
Print Assumptions c09_double_detected.

(** non-vacuity: the published test vectors, a concrete burst, and a concrete valid frame *)
Example c09_vectors :
  impl_crc [] = 0xFFFF /\ impl_crc [65] = 0x206E /\ impl_crc [49;50;51;52;53;54;55;56;57] = 0x772B.
Proof. vm_compute. repeat split; reflexivity. Qed.
Example c09_burst_instance :
  bytes_bits [0; 0x01; 0x80; 0] = repeat false 15 ++ [true; true] ++ repeat false 15 /\
  impl_crc (xor_bytes [1;2;3;4] [0; 0x01; 0x80; 0]) <> impl_crc [1;2;3;4].
Proof. split; [reflexivity | vm_compute; discriminate]. Qed.
