(** C01 for the third transmitter: the frames M17Modulator puts on its output queue (C14: equal to the
    specification's encoding, bytes after the sync word) decode bit-exact in the frame decoder. *)
From Coq Require Import NArith ZArith List Bool Lia.
From M17 Require Import Bits SpecM17 ImplFrameDecoder ImplViterbi FrameDecoderInst LemmasFD_Inst
  LemmasRT_A LemmasRT_E LemmasMod_C LemmasMod_E LemmasMod_G ImplModulator LemmasMdl_Main ConstsModulator.
Import ListNotations.

(** what a receiver does with the 48 bytes of a frame: drop the two sync bytes, unpack MSB first *)
Definition frame_bits (bytes48 : list N) : list bool := bytes_bits (skipn 2 bytes48).

Lemma frame_bits_of_spec (sync2 : list N) (bits : list bool) :
  length sync2 = 2%nat -> length bits = 368%nat -> frame_bits (sync2 ++ bits_bytes bits) = bits.
Proof. intros L2 Lb. unfold frame_bits. rewrite skipn_app, L2. 
  rewrite (skipn_all2 sync2) by lia. cbn [Nat.sub skipn app].
  apply (bytes_bits_bits_bytes 46). exact Lb. Qed.

(** stream frames of M17Modulator in stream mode *)
Lemma rt_stream_modulator (junk : nat -> N) (s : fd_state) (m : list Z) (lsf : list N) (n : nat) (fn : N)
    (payload : list N) (eos r : bool) :
  fd_hid_ok s -> fd_mode s = MStream -> length m = 368%nat -> Forall (fun x => (1 <= x <= 7)%Z) m ->
  all_bytes lsf -> length lsf = 30%nat -> (n < 6)%nat -> (fn < 32768)%N -> all_bytes payload -> length payload = 16%nat ->
  let tx := send_audio_frame junk (nth n (build_lich junk lsf) []) (make_payload junk (fn_arg fn eos) payload) in
  let o := fd_step s SStream (soft m (frame_bits tx)) r in
  exists c : Z,
    fd_observe o = (MStream, ROk, Some c, [mkcb FStream (fn_field fn eos ++ payload) c]) /\
    (Forall (fun x => x = 7%Z) m -> c = 0%Z) /\ fd_hid_ok (fd_st_of o).
Proof. intros Hs Hm Lm Fm Bl Ll Hn Hfn Bp Lp tx o. subst tx o.
  rewrite (frames_are_spec junk lsf n fn payload eos Bl Ll Hn Hfn Bp Lp).
  assert (Lf : length (spec_stream_frame lsf (N.of_nat n) fn payload eos) = 368%nat)
    by (apply spec_stream_frame_length; [exact Ll | lia | exact Lp]).
  rewrite (frame_bits_of_spec ConstsModulator.sync_stream _ eq_refl Lf).
  destruct (rt_stream s m lsf (N.of_nat n) fn payload eos r Hs Hm Lm Fm Ll ltac:(lia) Lp Bp) as (c & O & C0 & _ & _ & H').
  exists c. split; [exact O | split; [exact C0 | exact H']]. Qed.

(** the LSF frame of M17Modulator: decodes to the specification's LSF for (dst, src), TYPE 0x0005 - a voice stream, so
    the decoder enters stream mode *)
Lemma rt_lsf_modulator (junk : nat -> N) (s : fd_state) (m : list Z) (dst src : list N) (r : bool) :
  fd_hid_ok s -> length m = 368%nat -> Forall (fun x => (1 <= x <= 7)%Z) m -> callsigns_ok dst src ->
  let tx := snd (send_link_setup junk (encode_callsign dst) (encode_callsign src)) in
  let L := spec_lsf dst src 0 in
  let o := fd_step s SLsf (soft m (frame_bits tx)) r in
  exists c : Z, (Forall (fun x => x = 7%Z) m -> c = 0%Z) /\
    fd_observe o = (update_state MLsf (bytes_bits L), ROk, Some c, [mkcb FLsf L c]) /\ fd_lsf (fd_st_of o) = L /\ fd_hid_ok (fd_st_of o).
Proof. intros Hs Lm Fm Hc tx L o. subst tx o.
  destruct (lsf_is_spec junk dst src Hc) as (EL & _ & _ & _ & _ & Crc & Send). cbv zeta in EL, Crc, Send.
  rewrite Send. cbn [snd]. rewrite (frame_bits_of_spec ConstsModulator.sync_lsf _ eq_refl (spec_lsf_frame_length _)).
  fold L. rewrite EL in Crc. fold L in Crc.
  assert (LL : length L = 30%nat) by (subst L; apply spec_lsf_length).
  assert (BL : all_bytes L) by (subst L; apply spec_lsf_bytes).
  destruct (rt_lsf s m L r Hs Lm Fm LL BL) as (c & C0 & H' & Hok & _).
  assert (C30 : crc30 L = 0%N) by (unfold crc30; rewrite LemmasCRC_A.crc_impl_is_m17_lemma; exact Crc).
  destruct (Hok C30) as (O & EL' & _).
  exists c. split; [exact C0 | split; [exact O | split; [exact EL' | exact H']]]. Qed.
