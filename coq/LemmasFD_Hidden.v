(** Frame decoder: the outcome of a call never depends on the hidden buffers (C08, "no hidden state").
    Stated over the Section parameters of ImplFrameDecoder with exactly the facts about the pipeline
    stages that are needed; FrameDecoderInst.v discharges them for the mirrors of the real stages. *)
From Coq Require Import NArith ZArith List Bool Lia.
From M17 Require Import Bits ImplCRC ConstsCrc ImplFrameDecoder.
Import ListNotations.

Section Hidden.
Variable VS : Type.
Variable derandomize deinterleave : list Z -> list Z.
Variable depuncture : geometry -> list Z -> list Z -> list Z.
Variable viterbi : geometry -> VS -> list Z -> list bool -> (list bool * Z) * VS.
Variable golay_decode : N -> option N.
Variable vs_ok : VS -> Prop.                       (* well-formedness of the Viterbi scratch (array sizes) *)

(* de-puncturing defines every output position, whatever was in the buffer (C11) *)
Hypothesis depuncture_indep : forall g inp prev prev',
  length prev = g_in g -> length prev' = g_in g -> depuncture g inp prev = depuncture g inp prev'.
Hypothesis depuncture_len : forall g inp prev, length prev = g_in g -> length (depuncture g inp prev) = g_in g.
(* Viterbi writes every output bit and re-initialises its scratch (C02) *)
Hypothesis viterbi_indep : forall g vs vs' inp prev prev', vs_ok vs -> vs_ok vs' ->
  length inp = g_in g -> length prev = g_out g -> length prev' = g_out g ->
  fst (viterbi g vs inp prev) = fst (viterbi g vs' inp prev').
Hypothesis viterbi_len : forall g vs inp prev, vs_ok vs ->
  length inp = g_in g -> length prev = g_out g ->
  length (fst (fst (viterbi g vs inp prev))) = g_out g /\ vs_ok (snd (viterbi g vs inp prev)).

Notation hidden := (hidden VS).
Notation dstate := (dstate VS).
Notation step := (step VS derandomize deinterleave depuncture viterbi golay_decode).
Notation decode_payload := (decode_payload VS depuncture viterbi).

Definition hid_ok (h : hidden) : Prop :=
  length (h_dbuf VS h) = 488%nat /\ length (h_obuf VS h) = 240%nat /\ length (h_ubuf VS h) = 26%nat /\ vs_ok (h_vs VS h).

Definition same_visible (s s' : dstate) : Prop :=
  d_mode VS s = d_mode VS s' /\ d_seg VS s = d_seg VS s' /\ d_lsf VS s = d_lsf VS s'.

Lemma g_in_le g : (g_in g <= 488)%nat. Proof. destruct g; cbn; lia. Qed.
Lemma g_out_le g : (g_out g <= 240)%nat. Proof. destruct g; cbn; lia. Qed.

Lemma overwrite_length {A} (new old : list A) : (length new <= length old)%nat ->
  length (overwrite new old) = length old.
Proof. intros H. unfold overwrite. rewrite app_length, skipn_length. lia. Qed.

(* the three visible results of decode_payload and the well-formedness of the new hidden part *)
Lemma decode_payload_spec g h h' inp : hid_ok h -> hid_ok h' ->
  forall bytes bits cost h1 bytes' bits' cost' h1',
  decode_payload g h inp = (bytes, bits, cost, h1) -> decode_payload g h' inp = (bytes', bits', cost', h1') ->
  bytes = bytes' /\ bits = bits' /\ cost = cost' /\ bytes = to_bytes bits /\ length bits = g_out g /\
  length (h_dbuf VS h1) = 488%nat /\ length (h_obuf VS h1) = 240%nat /\ h_ubuf VS h1 = h_ubuf VS h /\
  length (h_dbuf VS h1') = 488%nat /\ length (h_obuf VS h1') = 240%nat /\ h_ubuf VS h1' = h_ubuf VS h' /\
  vs_ok (h_vs VS h1) /\ vs_ok (h_vs VS h1').
Proof.
  intros (D & O & U & K) (D' & O' & U' & K') bytes bits cost h1 bytes' bits' cost' h1' E E'.
  unfold ImplFrameDecoder.decode_payload in E, E'.
  pose proof (g_in_le g) as GI. pose proof (g_out_le g) as GO.
  assert (L1 : length (firstn (g_in g) (h_dbuf VS h)) = g_in g) by (rewrite firstn_length; lia).
  assert (L1' : length (firstn (g_in g) (h_dbuf VS h')) = g_in g) by (rewrite firstn_length; lia).
  assert (L2 : length (firstn (g_out g) (h_obuf VS h)) = g_out g) by (rewrite firstn_length; lia).
  assert (L2' : length (firstn (g_out g) (h_obuf VS h')) = g_out g) by (rewrite firstn_length; lia).
  rewrite (depuncture_indep g inp _ _ L1' L1) in E'.
  set (dep := depuncture g inp (firstn (g_in g) (h_dbuf VS h))) in *.
  assert (Ld : length dep = g_in g) by (apply depuncture_len; exact L1).
  pose proof (viterbi_indep g (h_vs VS h) (h_vs VS h') dep _ _ K K' Ld L2 L2') as V.
  pose proof (viterbi_len g (h_vs VS h) dep _ K Ld L2) as (VL & VK).
  pose proof (viterbi_len g (h_vs VS h') dep _ K' Ld L2') as (VL' & VK').
  destruct (viterbi g (h_vs VS h) dep (firstn (g_out g) (h_obuf VS h))) as [[b c] v] eqn:EV.
  destruct (viterbi g (h_vs VS h') dep (firstn (g_out g) (h_obuf VS h'))) as [[b' c'] v'] eqn:EV'.
  cbn [fst snd] in V, VL, VL', VK, VK'. injection V as Vb Vc. subst b' c'.
  injection E as <- <- <- <-. injection E' as <- <- <- <-.
  cbn [h_dbuf h_obuf h_ubuf h_vs].
  repeat split; try reflexivity; try assumption; try (apply overwrite_length; lia).
  all: rewrite overwrite_length; lia.
Qed.


Definition hid (s : dstate) : hidden := d_hid VS s.

Definition obs_eq (o o' : outcome VS) : Prop :=
  observe VS o = observe VS o' /\ same_visible (st_of VS o) (st_of VS o') /\
  hid_ok (hid (st_of VS o)) /\ hid_ok (hid (st_of VS o')).

Lemma to_bytes_le bits g : g <> GLsf -> length bits = g_out g -> (length (to_bytes bits) <= 26)%nat.
Proof. intros G L. unfold to_bytes. rewrite pack_bits_length, L. destruct g; try congruence; vm_compute; lia. Qed.

Lemma set_ubuf_ok h bytes : length (h_dbuf VS h) = 488%nat -> length (h_obuf VS h) = 240%nat ->
  length (h_ubuf VS h) = 26%nat -> vs_ok (h_vs VS h) -> (length bytes <= 26)%nat -> hid_ok (set_ubuf VS h bytes).
Proof. intros D O U K L. unfold hid_ok, set_ubuf. cbn [h_dbuf h_obuf h_ubuf h_vs].
  repeat split; try assumption. rewrite overwrite_length; lia. Qed.

Ltac payload s s' fr E E' :=
  destruct (decode_payload _ (d_hid VS s) fr) as [[[bytes bits] cost] h1] eqn:E;
  destruct (decode_payload _ (d_hid VS s') fr) as [[[bytes' bits'] cost'] h1'] eqn:E'.

Lemma decode_lsf_indep s s' fr : same_visible s s' -> hid_ok (hid s) -> hid_ok (hid s') ->
  obs_eq (decode_lsf VS depuncture viterbi s fr) (decode_lsf VS depuncture viterbi s' fr).
Proof. intros (M & S & L) H H'. unfold decode_lsf. payload s s' fr E E'.
  destruct (decode_payload_spec GLsf _ _ fr H H' _ _ _ _ _ _ _ _ E E') as (-> & -> & -> & Eb & Lb & D1 & O1 & U1 & D1' & O1' & U1' & K1 & K1').
  destruct H as (_ & _ & U & _). destruct H' as (_ & _ & U' & _).
  destruct (N.eqb (crc30 bytes') 0); unfold obs_eq, observe, st_of, res_of, cost_of, cbs_of, same_visible, hid, hid_ok;
    cbn [fst snd d_mode d_seg d_lsf d_hid]; rewrite ?M, ?S; repeat split; try assumption; congruence. Qed.

Lemma decode_stream_indep s s' fr : same_visible s s' -> hid_ok (hid s) -> hid_ok (hid s') ->
  obs_eq (decode_stream VS depuncture viterbi s fr) (decode_stream VS depuncture viterbi s' fr).
Proof. intros (M & S & L) H H'. unfold decode_stream. payload s s' (skipn 96 fr) E E'.
  destruct (decode_payload_spec GStream _ _ _ H H' _ _ _ _ _ _ _ _ E E') as (-> & -> & -> & Eb & Lb & D1 & O1 & U1 & D1' & O1' & U1' & K1 & K1').
  destruct H as (_ & _ & U & _). destruct H' as (_ & _ & U' & _).
  pose proof (to_bytes_le _ GStream ltac:(discriminate) Lb) as LB.
  unfold obs_eq, observe, st_of, res_of, cost_of, cbs_of, same_visible, hid; cbn [fst snd d_mode d_seg d_lsf d_hid].
  rewrite Eb in *. split; [congruence|]. split; [repeat split; assumption|]. split; apply set_ubuf_ok; congruence || assumption. Qed.

Lemma decode_bert_indep s s' fr : same_visible s s' -> hid_ok (hid s) -> hid_ok (hid s') ->
  obs_eq (decode_bert VS depuncture viterbi s fr) (decode_bert VS depuncture viterbi s' fr).
Proof. intros (M & S & L) H H'. unfold decode_bert. payload s s' fr E E'.
  destruct (decode_payload_spec GBert _ _ _ H H' _ _ _ _ _ _ _ _ E E') as (-> & -> & -> & Eb & Lb & D1 & O1 & U1 & D1' & O1' & U1' & K1 & K1').
  destruct H as (_ & _ & U & _). destruct H' as (_ & _ & U' & _).
  pose proof (to_bytes_le _ GBert ltac:(discriminate) Lb) as LB.
  unfold obs_eq, observe, st_of, res_of, cost_of, cbs_of, same_visible, hid; cbn [fst snd d_mode d_seg d_lsf d_hid].
  rewrite Eb in *. split; [congruence|]. split; [repeat split; assumption|]. split; apply set_ubuf_ok; congruence || assumption. Qed.

Lemma decode_packet_indep s s' fr ty r : same_visible s s' -> hid_ok (hid s) -> hid_ok (hid s') ->
  obs_eq (decode_packet VS depuncture viterbi s fr ty r) (decode_packet VS depuncture viterbi s' fr ty r).
Proof. intros (M & S & L) H H'. unfold decode_packet. payload s s' fr E E'.
  destruct (decode_payload_spec GPacket _ _ _ H H' _ _ _ _ _ _ _ _ E E') as (-> & -> & -> & Eb & Lb & D1 & O1 & U1 & D1' & O1' & U1' & K1 & K1').
  destruct H as (_ & _ & U & _). destruct H' as (_ & _ & U' & _).
  pose proof (to_bytes_le _ GPacket ltac:(discriminate) Lb) as LB.
  rewrite Eb in *.
  destruct (negb (N.eqb (N.land (nth 25 (to_bytes bits') 0%N) 128) 0));
  unfold obs_eq, observe, st_of, res_of, cost_of, cbs_of, same_visible, hid; cbn [fst snd d_mode d_seg d_lsf d_hid];
  (split; [congruence|]; split; [repeat split; assumption|]; split; apply set_ubuf_ok; congruence || assumption). Qed.

Lemma upd_length {A} i (f : A -> A) l : length (upd i f l) = length l.
Proof. unfold upd. rewrite app_length, firstn_length. 
  destruct (skipn i l) as [|x t] eqn:E.
  - assert (length (skipn i l) = 0%nat) by (rewrite E; reflexivity). rewrite skipn_length in H. cbn [length]. lia.
  - assert (length (skipn i l) = S (length t)) by (rewrite E; reflexivity). rewrite skipn_length in H. cbn [length]. lia.
Qed.

Lemma unpack_step_length fr acc i : length (fst (fst acc)) = 6%nat ->
  length (fst (fst (unpack_step golay_decode fr acc i))) = 6%nat.
Proof. destruct acc as [[lich index] ok]. cbn [fst]. intros L. unfold unpack_step.
  destruct (negb ok); [exact L|]. destruct (golay_decode (codeword fr i)); [|exact L].
  destruct (Nat.odd i); cbn [fst]; rewrite !upd_length; exact L. Qed.

Lemma unpack_lich_length fr : length (fst (unpack_lich golay_decode fr)) = 6%nat.
Proof. unfold unpack_lich.
  assert (G : forall l acc, length (fst (fst acc)) = 6%nat ->
              length (fst (fst (fold_left (unpack_step golay_decode fr) l acc))) = 6%nat).
  { induction l as [|i l IH]; intros acc La; [exact La|]. cbn [fold_left]. apply IH. apply unpack_step_length. exact La. }
  specialize (G (seq 0 4) (repeat 0%N 6, 0%nat, true) eq_refl).
  destruct (fold_left _ _ _) as [[lich idx] ok]. exact G. Qed.

Lemma decode_lich_indep s s' fr : same_visible s s' -> hid_ok (hid s) -> hid_ok (hid s') ->
  obs_eq (decode_lich VS golay_decode s fr) (decode_lich VS golay_decode s' fr).
Proof. intros (M & S & L) (D & O & U & K0) (D' & O' & U' & K0'). unfold decode_lich.
  pose proof (unpack_lich_length fr) as LL.
  destruct (unpack_lich golay_decode fr) as [lich ok]. cbn [fst] in LL.
  assert (K : hid_ok (set_ubuf VS (d_hid VS s) lich)) by (apply set_ubuf_ok; try assumption; lia).
  assert (K' : hid_ok (set_ubuf VS (d_hid VS s') lich)) by (apply set_ubuf_ok; try assumption; lia).
  rewrite <- M, <- S, <- L.
  destruct (negb ok); [|destruct (N.ltb MAX_LICH_FRAGMENT _); [|destruct (negb _); [|destruct (N.eqb (crc30 _) 0)]]];
  unfold obs_eq, observe, st_of, res_of, cost_of, cbs_of, same_visible, hid; cbn [fst snd d_mode d_seg d_lsf d_hid];
  (split; [reflexivity|]; split; [repeat split; reflexivity|]; split; assumption). Qed.

Lemma with_mode_visible s s' m : same_visible s s' -> same_visible (with_mode VS s m) (with_mode VS s' m).
Proof. intros (M & S & L). unfold same_visible, with_mode; cbn. repeat split; assumption. Qed.

(** one call: same visible state (mode, LICH bitmap, LSF assembly buffer) + same frame => same observation,
    whatever the hidden buffers hold; and the visible states stay equal *)
Theorem step_hidden_indep s s' sw fr r : same_visible s s' -> hid_ok (hid s) -> hid_ok (hid s') ->
  obs_eq (step s sw fr r) (step s' sw fr r).
Proof. intros V H H'. unfold ImplFrameDecoder.step. pose proof V as (M & S & L).
  destruct sw.
  - apply decode_lsf_indep; [apply with_mode_visible; exact V | exact H | exact H'].
  - rewrite <- M. destruct (d_mode VS s).
    + apply decode_lich_indep; [exact V | exact H | exact H'].
    + apply decode_stream_indep; [exact V | exact H | exact H'].
    + unfold obs_eq, observe, st_of, res_of, cost_of, cbs_of; cbn [fst snd]. (split; [reflexivity|]; split; [apply with_mode_visible; exact V|]; split; assumption).
    + unfold obs_eq, observe, st_of, res_of, cost_of, cbs_of; cbn [fst snd]. (split; [reflexivity|]; split; [apply with_mode_visible; exact V|]; split; assumption).
    + unfold obs_eq, observe, st_of, res_of, cost_of, cbs_of; cbn [fst snd]. (split; [reflexivity|]; split; [apply with_mode_visible; exact V|]; split; assumption).
  - rewrite <- M. destruct (d_mode VS s).
    + unfold obs_eq, observe, st_of, res_of, cost_of, cbs_of; cbn [fst snd]. (split; [reflexivity|]; split; [apply with_mode_visible; exact V|]; split; assumption).
    + unfold obs_eq, observe, st_of, res_of, cost_of, cbs_of; cbn [fst snd]. (split; [reflexivity|]; split; [apply with_mode_visible; exact V|]; split; assumption).
    + apply decode_packet_indep; [exact V | exact H | exact H'].
    + apply decode_packet_indep; [exact V | exact H | exact H'].
    + unfold obs_eq, observe, st_of, res_of, cost_of, cbs_of; cbn [fst snd]. (split; [reflexivity|]; split; [apply with_mode_visible; exact V|]; split; assumption).
  - apply decode_bert_indep; [apply with_mode_visible; exact V | exact H | exact H'].
Qed.

(** every history *)
Theorem run_hidden_indep h : forall s s', same_visible s s' -> hid_ok (hid s) -> hid_ok (hid s') ->
  fst (run VS derandomize deinterleave depuncture viterbi golay_decode s h) =
  fst (run VS derandomize deinterleave depuncture viterbi golay_decode s' h).
Proof. induction h as [|[[sw fr] r] h IH]; intros s s' V H H'; [reflexivity|].
  cbn [run]. destruct (step_hidden_indep s s' sw fr r V H H') as (O & V1 & H1 & H1').
  specialize (IH _ _ V1 H1 H1').
  destruct (run _ _ _ _ _ _ (st_of VS (step s sw fr r)) h) as [obs1 s1].
  destruct (run _ _ _ _ _ _ (st_of VS (step s' sw fr r)) h) as [obs2 s2].
  cbn [fst] in *. rewrite O, IH. reflexivity. Qed.

End Hidden.
