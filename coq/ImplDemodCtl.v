(** Model of the demodulator's CONTROL LOGIC and of the carrier detector (C03, C06).

    Part 1 mirrors DataCarrierDetect.h: update(), unlock(), dcd(), over extended values
    [xval ::= Fin q | PInf | NInf | NaN] (q rational) with the IEEE-754 rules for division by zero,
    infinities, NaN propagation and comparisons.  NOT modelled: binary rounding (values are exact
    rationals), signed zeros (the only divisor, level_2, is a sum of squares, i.e. +0 when zero),
    overflow to infinity of finite operations.

    Part 2 mirrors M17Demodulator<FloatType>::operator() and the functions it calls (M17Demodulator.h)
    as a step FUNCTION over the discrete members, driven by one observation record per input sample.
    The observation holds the outcomes of the float-valued predicates the code evaluates during that
    sample; everything else is discrete state.  The two function-local statics ([initializing] in
    operator(), [eot_flag] in do_stream_sync) are part of the state.

    No proofs in this file. *)
From Coq Require Import ZArith QArith Bool List.
From M17 Require Import ConstsDemod.
Import ListNotations.

(* ====================================================================== *)
(** * Part 1 — extended values and DataCarrierDetect *)

Inductive xval := Fin (q : Q) | PInf | NInf | NaN.

Definition qsgn (q : Q) : comparison := (Qnum q ?= 0)%Z.
Definition qltb (a b : Q) : bool := negb (Qle_bool b a).

Definition xisfinite (x : xval) : bool := match x with Fin _ => true | _ => false end.
Definition xisnan (x : xval) : bool := match x with NaN => true | _ => false end.

Definition xneg (x : xval) : xval :=
  match x with Fin q => Fin (- q) | PInf => NInf | NInf => PInf | NaN => NaN end.

(** IEEE addition: NaN propagates, (+inf) + (-inf) = NaN *)
Definition xadd (x y : xval) : xval :=
  match x, y with
  | NaN, _ => NaN
  | _, NaN => NaN
  | Fin a, Fin b => Fin (a + b)
  | PInf, NInf => NaN
  | NInf, PInf => NaN
  | PInf, _ => PInf
  | _, PInf => PInf
  | NInf, _ => NInf
  | _, NInf => NInf
  end.

Definition xinf_signed (c : comparison) (pos : xval) : xval :=
  match c with Eq => NaN | Gt => pos | Lt => xneg pos end.

(** IEEE multiplication: 0 * inf = NaN *)
Definition xmul (x y : xval) : xval :=
  match x, y with
  | NaN, _ => NaN
  | _, NaN => NaN
  | Fin a, Fin b => Fin (a * b)
  | Fin a, PInf => xinf_signed (qsgn a) PInf
  | Fin a, NInf => xinf_signed (qsgn a) NInf
  | PInf, Fin b => xinf_signed (qsgn b) PInf
  | NInf, Fin b => xinf_signed (qsgn b) NInf
  | PInf, PInf => PInf
  | NInf, NInf => PInf
  | PInf, NInf => NInf
  | NInf, PInf => NInf
  end.

(** IEEE division: 0/0 = NaN, x/0 = +-inf (the zero divisor is +0), inf/inf = NaN, x/inf = 0 *)
Definition xdiv (x y : xval) : xval :=
  match x, y with
  | NaN, _ => NaN
  | _, NaN => NaN
  | Fin a, Fin b =>
      match qsgn b with
      | Eq => match qsgn a with Eq => NaN | Gt => PInf | Lt => NInf end
      | _ => Fin (a / b)
      end
  | Fin _, PInf => Fin 0
  | Fin _, NInf => Fin 0
  | PInf, Fin b => match qsgn b with Lt => NInf | _ => PInf end
  | NInf, Fin b => match qsgn b with Lt => PInf | _ => NInf end
  | _, _ => NaN
  end.

(** IEEE [x > y]: false as soon as one side is NaN *)
Definition xgt (x y : xval) : bool :=
  match x, y with
  | NaN, _ => false
  | _, NaN => false
  | Fin a, Fin b => qltb b a
  | PInf, PInf => false
  | PInf, _ => true
  | _, PInf => false
  | NInf, _ => false
  | Fin _, NInf => true
  end.

Record dcd_t := mkdcd { level_1 : xval; level_2 : xval; level_ : xval; triggered_ : bool }.

(** DataCarrierDetect{freq1, freq2, ltrigger, htrigger}: level_1 = level_2 = level_ = 0, triggered_ = false *)
Definition dcd_init : dcd_t := mkdcd (Fin 0) (Fin 0) (Fin 0) false.

(** operator()(sample): level_1 += norm(result[0]); level_2 += norm(result[1]) — the two energies are inputs *)
Definition dcd_sample (d : dcd_t) (e1 e2 : xval) : dcd_t :=
  mkdcd (xadd d.(level_1) e1) (xadd d.(level_2) e2) d.(level_) d.(triggered_).

(** the ratio that enters the average; [guard] = the statement
    [if (!std::isfinite(ratio)) ratio = 0.0;] is present *)
Definition dcd_ratio (guard : bool) (l1 l2 : xval) : xval :=
  let r := xdiv l1 l2 in
  if guard then (if xisfinite r then r else Fin 0) else r.

(** update() *)
Definition dcd_update_gen (guard : bool) (d : dcd_t) : dcd_t :=
  let ratio := dcd_ratio guard d.(level_1) d.(level_2) in
  let lv := xadd (xmul d.(level_) (Fin DCD_KEEP)) (xmul (Fin DCD_GAIN) ratio) in
  mkdcd (Fin 0) (Fin 0) lv
        (if d.(triggered_) then xgt lv (Fin DCD_LTRIGGER) else xgt lv (Fin DCD_HTRIGGER)).

(** the code as it is now (the guard flag is regenerated from the source text) *)
Definition dcd_update : dcd_t -> dcd_t := dcd_update_gen DCD_RATIO_GUARDED.
(** the code before commit 6204559 *)
Definition dcd_update_unguarded : dcd_t -> dcd_t := dcd_update_gen false.

Definition dcd_unlock (d : dcd_t) : dcd_t := mkdcd d.(level_1) d.(level_2) d.(level_) false.
Definition dcd_dcd (d : dcd_t) : bool := d.(triggered_).

(** one polling block: the accumulators hold (l1, l2) when update() runs *)
Definition dcd_block (upd : dcd_t -> dcd_t) (d : dcd_t) (b : xval * xval) : dcd_t :=
  upd (mkdcd (fst b) (snd b) d.(level_) d.(triggered_)).
Definition dcd_blocks (upd : dcd_t -> dcd_t) (d : dcd_t) (bs : list (xval * xval)) : dcd_t :=
  fold_left (dcd_block upd) bs d.

(* ====================================================================== *)
(** * Part 2 — the control state machine of M17Demodulator *)
Local Open Scope Z_scope.

Inductive dstate := UNLOCKED | LSF_SYNC | STREAM_SYNC | PACKET_SYNC | BERT_SYNC | SYNC_WAIT | FRAME.
Inductive swtype := SW_LSF | SW_STREAM | SW_PACKET | SW_BERT.          (* M17FrameDecoder::SyncWordType *)
Inductive decst := D_LSF | D_STREAM | D_BASIC_PACKET | D_FULL_PACKET | D_BERT.   (* M17FrameDecoder::State *)

(** discrete state.  [init_left] = static [initializing]; [eot_flag] = static in do_stream_sync;
    [count] = count_; [ncr]/[ncu] = need_clock_reset_/need_clock_update_; [missing] = missing_sync_count;
    [ssi] = sync_sample_index; [cpos]/[cprev] = correlator.buffer_pos_/prev_buffer_pos_;
    [fidx] = framer.index_; [cost] = viterbi_cost; [cr_idx]/[cr_cnt] = clock_recovery.sample_index_/count_;
    [dcd_trig] = dcd.triggered_; [dec_state] = decoder.state_. *)
Record st := mkst {
  init_left : Z;
  eot_flag : bool;
  count : Z;
  ds : dstate;
  swt : swtype;
  sample_index : Z;
  dcd_ : bool;
  ncr : bool;
  ncu : bool;
  sync_count : Z;
  missing : Z;
  ssi : Z;
  cpos : Z;
  cprev : Z;
  fidx : Z;
  cost : Z;
  cr_idx : Z;
  cr_cnt : Z;
  dcd_trig : bool;
  dec_state : decst
}.
Definition set_init_left (v : Z) (s : st) : st := mkst v (s.(eot_flag)) (s.(count)) (s.(ds)) (s.(swt)) (s.(sample_index)) (s.(dcd_)) (s.(ncr)) (s.(ncu)) (s.(sync_count)) (s.(missing)) (s.(ssi)) (s.(cpos)) (s.(cprev)) (s.(fidx)) (s.(cost)) (s.(cr_idx)) (s.(cr_cnt)) (s.(dcd_trig)) (s.(dec_state)).
Definition set_eot_flag (v : bool) (s : st) : st := mkst (s.(init_left)) v (s.(count)) (s.(ds)) (s.(swt)) (s.(sample_index)) (s.(dcd_)) (s.(ncr)) (s.(ncu)) (s.(sync_count)) (s.(missing)) (s.(ssi)) (s.(cpos)) (s.(cprev)) (s.(fidx)) (s.(cost)) (s.(cr_idx)) (s.(cr_cnt)) (s.(dcd_trig)) (s.(dec_state)).
Definition set_count (v : Z) (s : st) : st := mkst (s.(init_left)) (s.(eot_flag)) v (s.(ds)) (s.(swt)) (s.(sample_index)) (s.(dcd_)) (s.(ncr)) (s.(ncu)) (s.(sync_count)) (s.(missing)) (s.(ssi)) (s.(cpos)) (s.(cprev)) (s.(fidx)) (s.(cost)) (s.(cr_idx)) (s.(cr_cnt)) (s.(dcd_trig)) (s.(dec_state)).
Definition set_ds (v : dstate) (s : st) : st := mkst (s.(init_left)) (s.(eot_flag)) (s.(count)) v (s.(swt)) (s.(sample_index)) (s.(dcd_)) (s.(ncr)) (s.(ncu)) (s.(sync_count)) (s.(missing)) (s.(ssi)) (s.(cpos)) (s.(cprev)) (s.(fidx)) (s.(cost)) (s.(cr_idx)) (s.(cr_cnt)) (s.(dcd_trig)) (s.(dec_state)).
Definition set_swt (v : swtype) (s : st) : st := mkst (s.(init_left)) (s.(eot_flag)) (s.(count)) (s.(ds)) v (s.(sample_index)) (s.(dcd_)) (s.(ncr)) (s.(ncu)) (s.(sync_count)) (s.(missing)) (s.(ssi)) (s.(cpos)) (s.(cprev)) (s.(fidx)) (s.(cost)) (s.(cr_idx)) (s.(cr_cnt)) (s.(dcd_trig)) (s.(dec_state)).
Definition set_sample_index (v : Z) (s : st) : st := mkst (s.(init_left)) (s.(eot_flag)) (s.(count)) (s.(ds)) (s.(swt)) v (s.(dcd_)) (s.(ncr)) (s.(ncu)) (s.(sync_count)) (s.(missing)) (s.(ssi)) (s.(cpos)) (s.(cprev)) (s.(fidx)) (s.(cost)) (s.(cr_idx)) (s.(cr_cnt)) (s.(dcd_trig)) (s.(dec_state)).
Definition set_dcd_ (v : bool) (s : st) : st := mkst (s.(init_left)) (s.(eot_flag)) (s.(count)) (s.(ds)) (s.(swt)) (s.(sample_index)) v (s.(ncr)) (s.(ncu)) (s.(sync_count)) (s.(missing)) (s.(ssi)) (s.(cpos)) (s.(cprev)) (s.(fidx)) (s.(cost)) (s.(cr_idx)) (s.(cr_cnt)) (s.(dcd_trig)) (s.(dec_state)).
Definition set_ncr (v : bool) (s : st) : st := mkst (s.(init_left)) (s.(eot_flag)) (s.(count)) (s.(ds)) (s.(swt)) (s.(sample_index)) (s.(dcd_)) v (s.(ncu)) (s.(sync_count)) (s.(missing)) (s.(ssi)) (s.(cpos)) (s.(cprev)) (s.(fidx)) (s.(cost)) (s.(cr_idx)) (s.(cr_cnt)) (s.(dcd_trig)) (s.(dec_state)).
Definition set_ncu (v : bool) (s : st) : st := mkst (s.(init_left)) (s.(eot_flag)) (s.(count)) (s.(ds)) (s.(swt)) (s.(sample_index)) (s.(dcd_)) (s.(ncr)) v (s.(sync_count)) (s.(missing)) (s.(ssi)) (s.(cpos)) (s.(cprev)) (s.(fidx)) (s.(cost)) (s.(cr_idx)) (s.(cr_cnt)) (s.(dcd_trig)) (s.(dec_state)).
Definition set_sync_count (v : Z) (s : st) : st := mkst (s.(init_left)) (s.(eot_flag)) (s.(count)) (s.(ds)) (s.(swt)) (s.(sample_index)) (s.(dcd_)) (s.(ncr)) (s.(ncu)) v (s.(missing)) (s.(ssi)) (s.(cpos)) (s.(cprev)) (s.(fidx)) (s.(cost)) (s.(cr_idx)) (s.(cr_cnt)) (s.(dcd_trig)) (s.(dec_state)).
Definition set_missing (v : Z) (s : st) : st := mkst (s.(init_left)) (s.(eot_flag)) (s.(count)) (s.(ds)) (s.(swt)) (s.(sample_index)) (s.(dcd_)) (s.(ncr)) (s.(ncu)) (s.(sync_count)) v (s.(ssi)) (s.(cpos)) (s.(cprev)) (s.(fidx)) (s.(cost)) (s.(cr_idx)) (s.(cr_cnt)) (s.(dcd_trig)) (s.(dec_state)).
Definition set_ssi (v : Z) (s : st) : st := mkst (s.(init_left)) (s.(eot_flag)) (s.(count)) (s.(ds)) (s.(swt)) (s.(sample_index)) (s.(dcd_)) (s.(ncr)) (s.(ncu)) (s.(sync_count)) (s.(missing)) v (s.(cpos)) (s.(cprev)) (s.(fidx)) (s.(cost)) (s.(cr_idx)) (s.(cr_cnt)) (s.(dcd_trig)) (s.(dec_state)).
Definition set_cpos (v : Z) (s : st) : st := mkst (s.(init_left)) (s.(eot_flag)) (s.(count)) (s.(ds)) (s.(swt)) (s.(sample_index)) (s.(dcd_)) (s.(ncr)) (s.(ncu)) (s.(sync_count)) (s.(missing)) (s.(ssi)) v (s.(cprev)) (s.(fidx)) (s.(cost)) (s.(cr_idx)) (s.(cr_cnt)) (s.(dcd_trig)) (s.(dec_state)).
Definition set_cprev (v : Z) (s : st) : st := mkst (s.(init_left)) (s.(eot_flag)) (s.(count)) (s.(ds)) (s.(swt)) (s.(sample_index)) (s.(dcd_)) (s.(ncr)) (s.(ncu)) (s.(sync_count)) (s.(missing)) (s.(ssi)) (s.(cpos)) v (s.(fidx)) (s.(cost)) (s.(cr_idx)) (s.(cr_cnt)) (s.(dcd_trig)) (s.(dec_state)).
Definition set_fidx (v : Z) (s : st) : st := mkst (s.(init_left)) (s.(eot_flag)) (s.(count)) (s.(ds)) (s.(swt)) (s.(sample_index)) (s.(dcd_)) (s.(ncr)) (s.(ncu)) (s.(sync_count)) (s.(missing)) (s.(ssi)) (s.(cpos)) (s.(cprev)) v (s.(cost)) (s.(cr_idx)) (s.(cr_cnt)) (s.(dcd_trig)) (s.(dec_state)).
Definition set_cost (v : Z) (s : st) : st := mkst (s.(init_left)) (s.(eot_flag)) (s.(count)) (s.(ds)) (s.(swt)) (s.(sample_index)) (s.(dcd_)) (s.(ncr)) (s.(ncu)) (s.(sync_count)) (s.(missing)) (s.(ssi)) (s.(cpos)) (s.(cprev)) (s.(fidx)) v (s.(cr_idx)) (s.(cr_cnt)) (s.(dcd_trig)) (s.(dec_state)).
Definition set_cr_idx (v : Z) (s : st) : st := mkst (s.(init_left)) (s.(eot_flag)) (s.(count)) (s.(ds)) (s.(swt)) (s.(sample_index)) (s.(dcd_)) (s.(ncr)) (s.(ncu)) (s.(sync_count)) (s.(missing)) (s.(ssi)) (s.(cpos)) (s.(cprev)) (s.(fidx)) (s.(cost)) v (s.(cr_cnt)) (s.(dcd_trig)) (s.(dec_state)).
Definition set_cr_cnt (v : Z) (s : st) : st := mkst (s.(init_left)) (s.(eot_flag)) (s.(count)) (s.(ds)) (s.(swt)) (s.(sample_index)) (s.(dcd_)) (s.(ncr)) (s.(ncu)) (s.(sync_count)) (s.(missing)) (s.(ssi)) (s.(cpos)) (s.(cprev)) (s.(fidx)) (s.(cost)) (s.(cr_idx)) v (s.(dcd_trig)) (s.(dec_state)).
Definition set_dcd_trig (v : bool) (s : st) : st := mkst (s.(init_left)) (s.(eot_flag)) (s.(count)) (s.(ds)) (s.(swt)) (s.(sample_index)) (s.(dcd_)) (s.(ncr)) (s.(ncu)) (s.(sync_count)) (s.(missing)) (s.(ssi)) (s.(cpos)) (s.(cprev)) (s.(fidx)) (s.(cost)) (s.(cr_idx)) (s.(cr_cnt)) v (s.(dec_state)).
Definition set_dec_state (v : decst) (s : st) : st := mkst (s.(init_left)) (s.(eot_flag)) (s.(count)) (s.(ds)) (s.(swt)) (s.(sample_index)) (s.(dcd_)) (s.(ncr)) (s.(ncu)) (s.(sync_count)) (s.(missing)) (s.(ssi)) (s.(cpos)) (s.(cprev)) (s.(fidx)) (s.(cost)) (s.(cr_idx)) (s.(cr_cnt)) (s.(dcd_trig)) v.

Definition st_init : st :=
  mkst INITIALIZING false 0 UNLOCKED SW_LSF 0 false false false 0 0 0 0 0 0 0 0 0 false D_LSF.

(** what the float-valued code delivered during this sample (each field is read only on the branch
    that evaluates the corresponding expression) *)
Record obs := mkobs {
  o_pre_idx : Z; o_pre_upd : Z;     (* preamble_sync(correlator), preamble_sync.updated() *)
  o_lsf_idx : Z; o_lsf_upd : Z;     (* lsf_sync(correlator), lsf_sync.updated() *)
  o_pkt_idx : Z; o_pkt_upd : Z;     (* packet_sync(correlator), packet_sync.updated() *)
  o_pre_trig : bool;                (* preamble_sync.triggered(correlator) > 0.1 *)
  o_lsf_trig : Z;                   (* lsf_sync.triggered(correlator): 1 if > 0.1, -1 if < -0.1, else 0 *)
  o_bert_neg : bool;                (* packet_sync.triggered(correlator) < 0 *)
  o_eot_trig : bool;                (* eot_sync.triggered(correlator) > EOT_TRIGGER_LEVEL *)
  o_cr_sync : Z;                    (* clock_recovery.sample_index_ after update(sync_sample_index) *)
  o_cr_free : Z;                    (* clock_recovery.sample_index_ after update() *)
  o_dec_state : decst;              (* decoder.state() after decoder(...) *)
  o_cost : Z;                       (* viterbi_cost after decoder(...) *)
  o_lvl_hi : bool;                  (* level_ > htrigger_ after dcd.update() *)
  o_lvl_lo : bool                   (* level_ > ltrigger_ after dcd.update() *)
}.

Inductive event :=
| EvSym                      (* one symbol pushed into the framer *)
| EvDecode (w : swtype)      (* decoder(sync_word_type, buffer, viterbi_cost) called on the 368 soft bits *)
| EvDcdUnlock                (* dcd.unlock() *)
| EvDcdUpdate                (* dcd.update() *)
| EvReset                    (* framer.reset(); decoder.reset(); evm.reset() *)
| EvClockReset | EvClockSync | EvClockFree   (* clock_recovery.reset(i) / update(i) / update() *)
| EvDevReset | EvDevUpdate.  (* dev.reset() / update_values() *)

Definition u8 (x : Z) : Z := x mod 256.

Definition corr_index (s : st) : Z := s.(cprev) mod CORR_SPS.

(** Correlator::sample *)
Definition corr_sample (s : st) : st :=
  set_cpos (if s.(cpos) + 1 =? CORR_BUFFER then 0 else s.(cpos) + 1) (set_cprev s.(cpos) s).

(** dcd_on() *)
Definition dcd_on (s : st) : st * list event :=
  let s := set_dcd_ true s in
  match s.(ds) with
  | UNLOCKED => (set_dec_state D_LSF (set_fidx 0 (set_missing 0 (set_sync_count 0 s))), [EvReset])
  | _ => (s, [])
  end.

(** dcd_off() *)
Definition dcd_off (s : st) : st := set_dcd_ false (set_ds UNLOCKED s).

(** update_dcd() *)
Definition update_dcd (s : st) : st * list event :=
  if negb s.(dcd_) && s.(dcd_trig) then
    let (s, ev) := dcd_on s in (set_ncr true s, ev)
  else if s.(dcd_) && negb s.(dcd_trig) then (dcd_off s, [])
  else (s, []).

(** dcd.update(), abstracted to the two comparisons of the new level_ *)
Definition dcd_poll (s : st) (o : obs) : st :=
  set_dcd_trig (if s.(dcd_trig) then o.(o_lvl_lo) else o.(o_lvl_hi)) s.

(** the common part of every "sync word found while unlocked" branch of do_unlocked() *)
Definition unlocked_found (idx : Z) (w : swtype) (s : st) : st :=
  set_swt w (set_ds FRAME (set_ssi (u8 idx) (set_sample_index (u8 idx)
    (set_ncr true (set_missing 0 (set_sync_count MAX_SYNC_COUNT s)))))).

Definition do_unlocked (s : st) (o : obs) : st * list event :=
  if s.(missing) <? PREAMBLE_PHASE then
    let s := set_missing (s.(missing) + 1) s in
    if negb (o.(o_pre_upd) =? 0) then
      (set_ds LSF_SYNC (set_ssi (u8 o.(o_pre_idx)) (set_sample_index (u8 o.(o_pre_idx))
         (set_ncr true (set_missing 0 (set_sync_count 0 s))))), [EvDevReset; EvDevUpdate])
    else (s, [])
  else
    let (s, e1) :=
      if negb (o.(o_lsf_upd) =? 0) then
        (unlocked_found o.(o_lsf_idx) (if o.(o_lsf_upd) <? 0 then SW_STREAM else SW_LSF) s, [EvDevReset; EvDevUpdate])
      else (s, []) in
    let (s, e2) :=
      if o.(o_pkt_upd) <? 0 then (unlocked_found o.(o_pkt_idx) SW_BERT s, [EvDevReset; EvDevUpdate])
      else (s, []) in
    (s, e1 ++ e2).

Definition lsf_found (w : swtype) (s : st) : st :=
  set_swt w (set_ds FRAME (set_ssi s.(sample_index) (set_ncu true
    (set_sync_count MAX_SYNC_COUNT (set_missing 0 s))))).

Definition do_lsf_sync (s : st) (o : obs) : st * list event :=
  if corr_index s =? s.(sample_index) then
    if o.(o_pre_trig) then (set_sync_count (s.(sync_count) + 1) (set_ncu true s), [])
    else if o.(o_bert_neg) then (lsf_found SW_BERT s, [EvDevUpdate])
    else if negb (o.(o_lsf_trig) =? 0) then
      (lsf_found (if 0 <? o.(o_lsf_trig) then SW_LSF else SW_STREAM) s, [EvDevUpdate])
    else
      let s := set_missing (s.(missing) + 1) s in
      if LSF_SYNC_TIMEOUT <? s.(missing) then
        if LONG_PREAMBLE <=? s.(sync_count) then (set_ncu true (set_missing 0 s), [])
        else (set_dcd_trig false (set_missing 0 (set_ds UNLOCKED (set_sync_count 0 s))), [EvDcdUnlock])
      else (set_ssi s.(sample_index) s, [EvDevUpdate])
  else (s, []).

(** the shared tail of do_stream_sync/do_packet_sync/do_bert_sync once sync_count > MAX_SYNC_COUNT;
    [eot] is only relevant for the stream variant *)
Definition sync_missed (limit : Z) (w : swtype) (eot : bool) (s : st) : st * list event :=
  if s.(cost) <? limit then
    (set_ds FRAME (set_swt w (if s.(missing) =? 0 then set_missing 1 s else s)), [])
  else if eot then (set_dcd_trig false (set_ds UNLOCKED s), [EvDcdUnlock])
  else if s.(missing) <? MAX_MISSING_SYNC then
    (set_ds FRAME (set_swt w (set_missing (s.(missing) + 1) s)), [])
  else (set_dcd_trig false (set_ds UNLOCKED s), [EvDcdUnlock]).

Definition do_stream_sync (s : st) (o : obs) : st * list event :=
  let s := set_sync_count (s.(sync_count) + 1) s in
  if s.(sync_count) <? MIN_SYNC_COUNT then (s, [])
  else if o.(o_eot_trig) then
    (set_missing 0 (set_eot_flag true (set_ds FRAME (set_swt SW_STREAM s))), [])
  else if o.(o_lsf_upd) <? 0 then
    (set_eot_flag false (set_ds SYNC_WAIT (set_swt SW_STREAM (set_ssi (u8 o.(o_lsf_idx)) (set_missing 0 s)))), [EvDevUpdate])
  else if MAX_SYNC_COUNT <? s.(sync_count) then
    let (s', ev) := sync_missed STREAM_COST_LIMIT SW_STREAM s.(eot_flag) s in
    (set_eot_flag false s', ev)
  else (s, []).

Definition do_packet_sync (s : st) (o : obs) : st * list event :=
  let s := set_sync_count (s.(sync_count) + 1) s in
  if s.(sync_count) <? MIN_SYNC_COUNT then (s, [])
  else if negb (o.(o_pkt_upd) =? 0) then
    (set_ds SYNC_WAIT (set_swt SW_PACKET (set_ssi (u8 o.(o_pkt_idx)) (set_missing 0 s))), [EvDevUpdate])
  else if MAX_SYNC_COUNT <? s.(sync_count) then sync_missed PACKET_COST_LIMIT SW_PACKET false s
  else (s, []).

Definition do_bert_sync (s : st) (o : obs) : st * list event :=
  let s := set_sync_count (s.(sync_count) + 1) s in
  if s.(sync_count) <? MIN_SYNC_COUNT then (s, [])
  else if o.(o_pkt_upd) <? 0 then
    (set_ds SYNC_WAIT (set_swt SW_BERT (set_ssi (u8 o.(o_pkt_idx)) (set_missing 0 s))), [EvDevUpdate])
  else if MAX_SYNC_COUNT <? s.(sync_count) then sync_missed STREAM_COST_LIMIT SW_BERT false s
  else (s, []).

Definition do_sync_wait (s : st) : st * list event :=
  if s.(sync_count) <? MAX_SYNC_COUNT then (set_sync_count (s.(sync_count) + 1) s, [])
  else (set_ds FRAME (set_ncu true s), []).

(** demodState after a decode, from decoder.state() *)
Definition next_sync_state (d : decst) : dstate :=
  match d with
  | D_STREAM => STREAM_SYNC
  | D_LSF => STREAM_SYNC
  | D_BERT => BERT_SYNC
  | _ => PACKET_SYNC
  end.

Definition is_far_point (s : st) : bool := Z.abs (s.(sample_index) - corr_index s) =? FAR_POINT.

Definition do_frame (s : st) (o : obs) : st * list event :=
  if is_far_point s then
    (set_sample_index (u8 o.(o_cr_free)) (set_cr_idx o.(o_cr_free) s), [EvClockFree])
  else if negb (corr_index s =? s.(sample_index)) then (s, [])
  else
    let f := s.(fidx) + 2 in
    if f =? FRAMER_BITS then
      (set_ds (next_sync_state o.(o_dec_state)) (set_dec_state o.(o_dec_state) (set_cost o.(o_cost)
         (set_sync_count 0 (set_fidx 0 s)))), [EvSym; EvDecode s.(swt)])
    else (set_fidx f s, [EvSym]).

(** the block under [if (correlator.index() == 0)] followed by clock_recovery(filtered_sample) *)
Definition clock_at_zero (s : st) (o : obs) : st * list event :=
  let (s, ev) :=
    if corr_index s =? 0 then
      if s.(ncr) then
        (set_sample_index s.(ssi) (set_ncr false (set_cr_idx s.(ssi) (set_cr_cnt 0 s))), [EvClockReset])
      else if s.(ncu) then
        (set_ncu false (set_cr_idx o.(o_cr_sync) (set_cr_cnt 0 s)), [EvClockSync])
      else (s, [])
    else (s, []) in
  (set_cr_cnt (s.(cr_cnt) + 1) s, ev).

Definition dispatch (s : st) (o : obs) : st * list event :=
  match s.(ds) with
  | UNLOCKED => do_unlocked s o
  | LSF_SYNC => do_lsf_sync s o
  | STREAM_SYNC => do_stream_sync s o
  | PACKET_SYNC => do_packet_sync s o
  | BERT_SYNC => do_bert_sync s o
  | SYNC_WAIT => do_sync_wait s
  | FRAME => do_frame s o
  end.

(** M17Demodulator::operator()(input), one call *)
Definition step (s : st) (o : obs) : st * list event :=
  let s := set_count (s.(count) + 1) s in
  if 0 <? s.(init_left) then
    (set_count 0 (corr_sample (set_init_left (s.(init_left) - 1) s)), [])
  else if negb s.(dcd_) then
    if s.(count) mod POLL_NODCD =? 0 then
      let (s, ev) := update_dcd s in
      (set_count 0 (dcd_poll s o), ev ++ [EvDcdUpdate])
    else (s, [])
  else
    let s := corr_sample s in
    let (s, e1) := clock_at_zero s o in
    let (s, e2) := dispatch s o in
    if s.(count) mod POLL_DCD =? 0 then
      let (s, e3) := update_dcd s in
      (dcd_poll (set_count 0 s) o, e1 ++ e2 ++ e3 ++ [EvDcdUpdate])
    else (s, e1 ++ e2).

Fixpoint run (s : st) (os : list obs) : st * list (list event) :=
  match os with
  | [] => (s, [])
  | o :: os' => let (s1, ev) := step s o in let (s2, evs) := run s1 os' in (s2, ev :: evs)
  end.

Definition final (s : st) (os : list obs) : st := fst (run s os).
Definition events (s : st) (os : list obs) : list (list event) := snd (run s os).

(* ---------------------------------------------------------------------- *)
(** ** The framing monitor: the executable statement of "no frame dropped, duplicated or shifted".
    It watches the per-sample event lists.  [m_t] = samples since the last decode, [m_n] = symbols pushed
    since then, [m_last] = [m_t] at the last symbol. *)
Record mon := mkmon { m_t : Z; m_n : Z; m_last : Z }.
Definition mon0 : mon := mkmon 0 0 0.

Definition has_sym (ev : list event) : bool := existsb (fun e => match e with EvSym => true | _ => false end) ev.
Definition decodes (ev : list event) : list swtype :=
  flat_map (fun e => match e with EvDecode w => [w] | _ => [] end) ev.

Definition SYNC_SYMBOLS : Z := 8.
Definition PAYLOAD_SYMBOLS : Z := FRAMER_BITS / 2.

(** one sample.  The first payload symbol must be taken exactly (8+1)*10 samples after the last payload symbol
    of the previous frame, later ones 9..11 samples after their predecessor; the decoder must be called, with
    sync type STREAM, exactly with the 184th symbol and never otherwise. *)
Definition mon_step (m : mon) (ev : list event) : option mon :=
  let t := m.(m_t) + 1 in
  if has_sym ev then
    let gap_ok := if m.(m_n) =? 0 then t =? (SYNC_SYMBOLS + 1) * SAMPLES_PER_SYMBOL
                  else (SAMPLES_PER_SYMBOL - 1 <=? t - m.(m_last)) && (t - m.(m_last) <=? SAMPLES_PER_SYMBOL + 1) in
    let n := m.(m_n) + 1 in
    if negb gap_ok then None
    else if n =? PAYLOAD_SYMBOLS then
      match decodes ev with [SW_STREAM] => Some mon0 | _ => None end
    else match decodes ev with [] => Some (mkmon t n t) | _ => None end
  else match decodes ev with [] => Some (mkmon t m.(m_n) m.(m_last)) | _ => None end.

Fixpoint mon_run (m : mon) (evs : list (list event)) : option mon :=
  match evs with
  | [] => Some m
  | ev :: evs' => match mon_step m ev with Some m' => mon_run m' evs' | None => None end
  end.
