(** C14 lemmas, part 6: the link setup frame.  [encode_callsign] is the specification's base-40 address
    (broadcast for the empty callsign); [build_lsf] is DST . SRC . TYPE 0x0005 . 14 zero bytes . CRC, i.e.
    the specification's LSF of a voice stream with channel access number 0. *)
From Coq Require Import NArith ZArith List Bool Lia Arith.
From M17 Require Import Bits ImplCRC SpecCRC SpecM17 ConstsCrc ConstsModulator ImplModulator
  LemmasCRC_A LemmasCRC_C LemmasMdl_Bits LemmasMdl_Conv LemmasMdl_Frame.
Import ListNotations.
Local Open Scope N_scope.

(** ** callsigns *)
Lemma digit_sweep : below 8 (fun c => (call_digit c =? char_digit c) && (call_digit c <? 40)) = true.
Proof. vm_cast_no_check (eq_refl true). Qed.
Lemma call_digit_spec c : c < 256 -> call_digit c = char_digit c /\ call_digit c < 40.
Proof. intros H. pose proof (below_spec 8 _ digit_sweep c H) as S. apply andb_prop in S. destruct S as [A B].
  split; [apply N.eqb_eq; exact A | apply N.ltb_lt; exact B]. Qed.
Global Opaque call_digit char_digit.

Definition cs_step (enc c : N) : N := u64 (u64 (enc * ConstsModulator.call_radix) + call_digit c).

Lemma fold_rev_right l : fold_left cs_step (rev l) 0 = fold_right (fun c acc => cs_step acc c) 0 l.
Proof. induction l as [|x l IH]; [reflexivity|]. cbn [rev fold_right]. rewrite fold_left_app. cbn [fold_left]. rewrite IH. reflexivity. Qed.

Lemma u64_small x : x < 2 ^ 64 -> u64 x = x.
Proof. intros H. unfold u64. change 0xFFFFFFFFFFFFFFFF with (N.ones 64). rewrite N.land_ones. apply N.mod_small. exact H. Qed.

Lemma base40_fold l : all_bytes l -> (length l <= 10)%nat ->
  fold_right (fun c acc => cs_step acc c) 0 l = base40 l /\ base40 l < 40 ^ N.of_nat (length l).
Proof. induction 1 as [|c l Hc Hl IH]; intros Ln; [split; reflexivity|].
  cbn [length] in Ln. destruct IH as [E B]; [lia|]. destruct (call_digit_spec c Hc) as [D DL].
  cbn [fold_right length]. unfold base40 in *. cbn [fold_right]. rewrite E. rewrite <- D.
  set (b := fold_right (fun c0 acc => char_digit c0 + 40 * acc) 0 l) in *.
  rewrite Nat2N.inj_succ, N.pow_succ_r'.
  assert (P10 : 40 ^ N.of_nat (length l) <= 40 ^ 9) by (apply N.pow_le_mono_r; lia).
  change (40 ^ 9) with 262144000000000 in P10.
  unfold cs_step. change ConstsModulator.call_radix with 40.
  rewrite (u64_small (b * 40)) by (change (2 ^ 64) with 18446744073709551616; lia).
  rewrite u64_small by (change (2 ^ 64) with 18446744073709551616; lia). split; lia. Qed.

Lemma base40_zeros k : base40 (repeat 0 k) = 0.
Proof. induction k as [|k IH]; [reflexivity|]. unfold base40 in *. cbn [repeat fold_right]. rewrite IH.
  destruct (call_digit_spec 0 eq_refl) as [<- _]. reflexivity. Qed.
Lemma base40_pad s k : base40 (s ++ repeat 0 k) = base40 s.
Proof. induction s as [|x s IH]; [apply base40_zeros|]. unfold base40 in *. cbn [app fold_right]. rewrite IH. reflexivity. Qed.

Lemma all_bytes_repeat0 k : all_bytes (repeat 0 k).
Proof. apply Forall_forall. intros x Hx. apply repeat_spec in Hx. subst. reflexivity. Qed.

Lemma call_bytes_be enc :
  rev (map (fun i => u8 (N.shiftr enc (8 * N.of_nat i))) (seq 0 ConstsModulator.call_bytes)) = be_bytes 6 enc.
Proof. reflexivity. Qed.

Theorem encode_callsign_spec s : all_bytes s -> (1 <= length s <= 9)%nat -> encode_callsign s = spec_address s.
Proof. intros Hs Ls. unfold encode_callsign. change ConstsModulator.call_max_len with 9%nat. change ConstsModulator.call_array_len with 10%nat.
  destruct (Nat.eqb_spec (length s) 0) as [Z|_]; [lia|]. destruct (Nat.ltb_spec 9 (length s)) as [Z|_]; [lia|].
  cbn [orb]. unfold lsf_encode_callsign. fold cs_step. rewrite call_bytes_be. unfold spec_address. f_equal.
  assert (Ec : copy_at (repeat 0 10) 0 s = s ++ repeat 0 (10 - length s)).
  { pose proof (copy_at_spec s [] (repeat 0 (length s)) (repeat 0 (10 - length s))) as E. cbn [app length] in E.
    rewrite <- repeat_app in E. replace (length s + (10 - length s))%nat with 10%nat in E by lia.
    apply E. apply repeat_length. }
  rewrite Ec, fold_rev_right.
  destruct (base40_fold (s ++ repeat 0 (10 - length s))) as [E _].
  - apply Forall_app. split; [exact Hs | apply all_bytes_repeat0].
  - rewrite app_length, repeat_length. lia.
  - rewrite E. apply base40_pad. Qed.

Theorem encode_callsign_empty : encode_callsign [] = broadcast_address.
Proof. reflexivity. Qed.
Theorem encode_callsign_long s : (9 < length s)%nat -> encode_callsign s = broadcast_address.
Proof. intros H. unfold encode_callsign. change ConstsModulator.call_max_len with 9%nat.
  destruct (Nat.ltb_spec 9 (length s)) as [_|Z]; [|lia]. rewrite orb_true_r. reflexivity. Qed.

Lemma encode_callsign_ok s : all_bytes (encode_callsign s) /\ length (encode_callsign s) = 6%nat.
Proof. unfold encode_callsign. destruct (_ || _).
- split; [|reflexivity]. repeat constructor.
- unfold lsf_encode_callsign. rewrite call_bytes_be. split; [|unfold be_bytes; rewrite map_length; reflexivity].
  unfold be_bytes. apply Forall_forall. intros x Hx. apply in_map_iff in Hx. destruct Hx as [i [<- _]]. apply land255_lt. Qed.

(** ** the LSF array *)
Lemma crc_site_is_m17 : ConstsModulator.crc_poly = LemmasCRC_A.P /\ ConstsModulator.crc_init = LemmasCRC_A.I.
Proof. split; reflexivity. Qed.

Theorem build_lsf_layout dest source : length dest = 6%nat -> length source = 6%nat ->
  build_lsf dest source =
  let body := dest ++ source ++ [0; 5] ++ repeat 0 14 in body ++ crc_hi_lo (m17_crc body).
Proof. intros Ld Ls.
  destruct dest as [|d0 [|d1 [|d2 [|d3 [|d4 [|d5 [|? ?]]]]]]]; try discriminate.
  destruct source as [|s0 [|s1 [|s2 [|s3 [|s4 [|s5 [|? ?]]]]]]]; try discriminate.
  unfold build_lsf. destruct crc_site_is_m17 as [-> ->].
  change ConstsModulator.lsf_len with 30%nat. change ConstsModulator.lsf_first_field with 0%nat. change ConstsModulator.lsf_second_field with 1%nat.
  change ConstsModulator.lsf_type_writes with [(12%nat, 0); (13%nat, 5)]. change ConstsModulator.lsf_crc_span with 28%nat. change ConstsModulator.lsf_crc_index with (28%nat, 29%nat).
  cbn [lsf_field repeat copy_at set_nth length fold_left fst snd firstn].
  rewrite get_bytes_hi_lo. unfold crc_hi_lo. cbn [nth set_nth app repeat]. reflexivity. Qed.

Lemma type_field_can0 : be_bytes 2 (lsf_type_stream_voice 0) = [0; 5].
Proof. reflexivity. Qed.

(** the LSF the modulator sends for callsigns (dst, src) is the specification's LSF with CAN 0 *)
Theorem build_lsf_spec dst src : all_bytes dst -> all_bytes src -> (length dst <= 9)%nat -> (1 <= length src <= 9)%nat ->
  build_lsf (encode_callsign dst) (encode_callsign src) = spec_lsf dst src 0.
Proof. intros Hd Hs Ld Ls.
  rewrite build_lsf_layout by apply encode_callsign_ok.
  unfold spec_lsf, spec_lsf_body. rewrite type_field_can0. rewrite (encode_callsign_spec src Hs Ls).
  assert (Ed : encode_callsign dst = spec_dst_address dst).
  { destruct dst as [|c dst]; [reflexivity|]. unfold spec_dst_address. apply encode_callsign_spec; [exact Hd | cbn [length] in *; lia]. }
  rewrite Ed. reflexivity. Qed.

Lemma crc_hi_lo_ok c : c < 65536 -> all_bytes (crc_hi_lo c).
Proof. intros H. unfold crc_hi_lo. repeat constructor; [|apply land255_lt].
  unfold is_byte. rewrite N.shiftr_div_pow2. apply N.div_lt_upper_bound; [discriminate|]. exact H. Qed.

Lemma build_lsf_ok dest source : all_bytes dest -> all_bytes source -> length dest = 6%nat -> length source = 6%nat ->
  all_bytes (build_lsf dest source) /\ length (build_lsf dest source) = 30%nat.
Proof. intros Hd Hs Ld Ls. rewrite build_lsf_layout by assumption. cbv zeta. split.
- apply Forall_app. split.
  + apply Forall_app. split; [exact Hd|]. apply Forall_app. split; [exact Hs|].
    apply Forall_forall. intros x Hx. cbn [app repeat In] in Hx. unfold is_byte.
    repeat (destruct Hx as [<-|Hx]; [reflexivity|]). destruct Hx.
  + apply crc_hi_lo_ok. apply LemmasCRC_B.direct_bits_lt. exact eq_refl.
- rewrite !app_length, Ld, Ls. reflexivity. Qed.
