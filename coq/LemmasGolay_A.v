(** Golay, structural part (no enumeration): popcount/parity algebra, GF(2)-linearity of the shift register,
    of syndrome() and of the polynomial part of encode23(), range of syndrome(), and the weight-bounded
    enumerator [below_w] with its specification. *)
From Coq Require Import NArith List Bool Lia.
From M17 Require Import Bits ConstsGolay ImplGolay SpecGolay.
Import ListNotations.
Local Open Scope N_scope.

Ltac xor_bits := let n := fresh "n" in apply N.bits_inj; intro n; rewrite ?N.lxor_spec;
  repeat match goal with |- context [N.testbit ?a n] => destruct (N.testbit a n) end; reflexivity.

Lemma iter_S {A} (f : A -> A) n x : Nat.iter (S n) f x = f (Nat.iter n f x).
Proof. reflexivity. Qed.

(** * popcount *)
Lemma popcount_Ndouble n : popcount (Pos.Ndouble n) = popcount n.
Proof. destruct n; reflexivity. Qed.
Lemma popcount_Nsucc_double n : popcount (Pos.Nsucc_double n) = N.succ (popcount n).
Proof. destruct n; reflexivity. Qed.

Lemma pop_pos_lxor_land p : forall q,
  popcount (Pos.lxor p q) + 2 * popcount (Pos.land p q) = pop_pos p + pop_pos q.
Proof. induction p as [p IH|p IH|]; intros [q|q|]; cbn [Pos.lxor Pos.land pop_pos popcount];
  rewrite ?popcount_Ndouble, ?popcount_Nsucc_double; try specialize (IH q); lia. Qed.

Lemma popcount_lxor_land a b :
  popcount (N.lxor a b) + 2 * popcount (N.land a b) = popcount a + popcount b.
Proof. destruct a as [|p], b as [|q]; cbn [N.lxor N.land popcount]; try lia. apply pop_pos_lxor_land. Qed.

Lemma popcount_lxor_le a b : popcount (N.lxor a b) <= popcount a + popcount b.
Proof. pose proof (popcount_lxor_land a b). lia. Qed.

Lemma parity_lxor a b : parity (N.lxor a b) = xorb (parity a) (parity b).
Proof. unfold parity. rewrite <- N.odd_add, <- (popcount_lxor_land a b). symmetry. apply N.odd_add_mul_2. Qed.

Lemma popcount_double y : popcount (2 * y) = popcount y.
Proof. destruct y; reflexivity. Qed.
Lemma popcount_succ_double y : popcount (2 * y + 1) = N.succ (popcount y).
Proof. destruct y; reflexivity. Qed.
Lemma popcount_0 x : popcount x = 0 -> x = 0.
Proof. destruct x as [|p]; [reflexivity|]. cbn [popcount]. induction p; cbn [pop_pos]; lia. Qed.

(** popcount x = popcount (x >> 1) + (x & 1) *)
Lemma popcount_shiftr1 x : popcount x = popcount (N.shiftr x 1) + b2n (N.testbit x 0).
Proof. destruct x as [|[p|p|]]; cbn; lia. Qed.

Lemma parity_shiftr1 x : parity x = xorb (parity (N.shiftr x 1)) (N.testbit x 0).
Proof. unfold parity. rewrite (popcount_shiftr1 x), N.odd_add. destruct (N.testbit x 0); reflexivity. Qed.

(** flipping a clear bit 0 *)
Lemma popcount_flip0 c (q : bool) : N.testbit c 0 = false -> popcount (N.lxor c (b2n q)) = popcount c + b2n q.
Proof. destruct q; cbn [b2n]; [|rewrite N.lxor_0_r; lia].
  destruct c as [|[p|p|]]; cbn; intros H; try discriminate; lia. Qed.

(** the specification's weight (ones among the low k bits) is popcount *)
Lemma weight_k_popcount k : forall x, x < 2 ^ N.of_nat k -> weight_k k x = popcount x.
Proof. induction k as [|k IH]; intros x H.
- simpl in H. assert (x = 0) by lia. subst. reflexivity.
- rewrite Nat2N.inj_succ, N.pow_succ_r' in H. cbn [weight_k].
  destruct x as [|[p|p|]]; cbn [N.odd N.even negb N.div2 popcount pop_pos].
  + rewrite IH; [reflexivity | apply N.neq_0_lt_0, N.pow_nonzero; discriminate].
  + rewrite IH by lia. cbn [popcount]. lia.
  + rewrite IH by lia. cbn [popcount]. lia.
  + rewrite IH; [reflexivity | apply N.neq_0_lt_0, N.pow_nonzero; discriminate].
Qed.

Lemma weight_popcount x : x < 2 ^ 24 -> weight x = popcount x.
Proof. intros H. apply (weight_k_popcount 24). exact H. Qed.

(** * the shift register is GF(2)-linear *)
Lemma lfsr_step_lxor a b : lfsr_step (N.lxor a b) = N.lxor (lfsr_step a) (lfsr_step b).
Proof. unfold lfsr_step. rewrite N.lxor_spec.
  destruct (N.testbit a 0), (N.testbit b 0); cbn [xorb]; rewrite <- N.shiftr_lxor; f_equal; generalize POLY; intro P; xor_bits. Qed.

Lemma lfsr_iter_lxor n : forall a b,
  Nat.iter n lfsr_step (N.lxor a b) = N.lxor (Nat.iter n lfsr_step a) (Nat.iter n lfsr_step b).
Proof. induction n as [|n IH]; intros a b; [reflexivity|]. rewrite !iter_S, IH. apply lfsr_step_lxor. Qed.

Lemma u32_lxor a b : u32 (N.lxor a b) = N.lxor (u32 a) (u32 b).
Proof. apply land_lxor_distr_l. Qed.

Lemma syndrome_raw_lxor a b : syndrome_raw (N.lxor a b) = N.lxor (syndrome_raw a) (syndrome_raw b).
Proof. unfold syndrome_raw. rewrite land_lxor_distr_l. apply lfsr_iter_lxor. Qed.

(** syndrome_linear *)
Lemma syndrome_lxor a b : syndrome (N.lxor a b) = N.lxor (syndrome a) (syndrome b).
Proof. unfold syndrome. rewrite syndrome_raw_lxor, N.shiftl_lxor. apply u32_lxor. Qed.

Lemma syndrome_0 : syndrome 0 = 0.
Proof. reflexivity. Qed.

(** * range of the shift register and of syndrome() *)
Lemma lfsr_step_bound k x : POLY < 2 ^ N.succ k -> x < 2 ^ N.succ k -> lfsr_step x < 2 ^ k.
Proof. intros HP Hx. unfold lfsr_step.
  set (y := if N.testbit x 0 then N.lxor x POLY else x).
  assert (Hy : y < 2 ^ N.succ k) by (subst y; destruct (N.testbit x 0); [apply lxor_lt_pow2|]; assumption).
  clearbody y. rewrite N.shiftr_div_pow2. change (2 ^ 1) with 2.
  rewrite N.pow_succ_r' in Hy. apply N.div_lt_upper_bound; lia. Qed.

Lemma lfsr_iter_bound n : forall k x, POLY < 2 ^ N.succ k -> x < 2 ^ (N.of_nat n + k) ->
  Nat.iter n lfsr_step x < 2 ^ k.
Proof. induction n as [|n IH]; intros k x HP Hx.
- exact Hx.
- rewrite iter_S. apply lfsr_step_bound; [exact HP|]. apply IH.
  + eapply N.lt_trans; [exact HP|]. apply N.pow_lt_mono_r; lia.
  + replace (N.of_nat n + N.succ k) with (N.of_nat (S n) + k) by lia. exact Hx.
Qed.

Lemma POLY_lt : POLY < 2 ^ 12.
Proof. reflexivity. Qed.

Lemma land_ones_small x n : x < 2 ^ n -> N.land x (N.ones n) = x.
Proof. intros H. rewrite N.land_ones. apply N.mod_small. exact H. Qed.

Lemma syndrome_raw_lt x : x < 2 ^ 23 -> syndrome_raw x < 2 ^ 11.
Proof. intros H. unfold syndrome_raw. change golay_syn_mask with (N.ones 24).
  rewrite land_ones_small by (eapply N.lt_trans; [exact H | reflexivity]).
  apply (lfsr_iter_bound 12 11 x POLY_lt). exact H. Qed.

Lemma u32_small x : x < 2 ^ 32 -> u32 x = x.
Proof. intros H. unfold u32. change 0xFFFFFFFF with (N.ones 32). apply land_ones_small. exact H. Qed.

Lemma shiftl_lt x k n : x < 2 ^ k -> N.shiftl x n < 2 ^ (k + n).
Proof. intros H. rewrite N.shiftl_mul_pow2, N.pow_add_r. apply N.mul_lt_mono_pos_r; [|exact H].
  apply N.neq_0_lt_0, N.pow_nonzero. discriminate. Qed.

Lemma shiftr_lt x k n : x < 2 ^ (k + n) -> N.shiftr x n < 2 ^ k.
Proof. intros H. rewrite N.shiftr_div_pow2. apply N.div_lt_upper_bound.
  - apply N.pow_nonzero. discriminate.
  - rewrite <- N.pow_add_r, N.add_comm. exact H. Qed.

(** every syndrome of a 23-bit word is t << 12 with t < 2^11 *)
Lemma syndrome_range x : x < 2 ^ 23 ->
  syndrome x = N.shiftl (syndrome_raw x) 12 /\ syndrome_raw x < 2 ^ 11.
Proof. intros H. pose proof (syndrome_raw_lt x H) as L. split; [|exact L].
  unfold syndrome. change golay_syn_shift with 12. apply u32_small.
  eapply N.lt_trans; [apply (shiftl_lt _ 11 12 L) | reflexivity]. Qed.

(** * the polynomial part of encode23 is linear *)
Definition enc_rem (d : N) : N := Nat.iter golay_enc_steps lfsr_step d.
Lemma enc_rem_lxor a b : enc_rem (N.lxor a b) = N.lxor (enc_rem a) (enc_rem b).
Proof. apply lfsr_iter_lxor. Qed.

Lemma b2n_xorb p q : b2n (xorb p q) = N.lxor (b2n p) (b2n q).
Proof. destruct p, q; reflexivity. Qed.

(** * enumeration of all k-bit numbers with at most w ones (binary splitting; sum_{i<=w} C(k,i) leaves) *)
Fixpoint below_w (k w : nat) (f : N -> bool) : bool :=
  match k with
  | O => f 0
  | S k' => below_w k' w (fun x => f (2 * x)) &&
            match w with O => true | S w' => below_w k' w' (fun x => f (2 * x + 1)) end
  end.

Lemma below_w_spec k : forall w f, below_w k w f = true ->
  forall x, x < 2 ^ N.of_nat k -> popcount x <= N.of_nat w -> f x = true.
Proof. induction k as [|k IH]; intros w f H x Hx Hw.
- simpl in Hx. assert (x = 0) by lia. subst. exact H.
- cbn [below_w] in H. apply andb_prop in H. destruct H as [H0 H1].
  rewrite Nat2N.inj_succ, N.pow_succ_r' in Hx.
  destruct (N.even x) eqn:E.
  + apply N.even_spec in E. destruct E as [y ->]. rewrite popcount_double in Hw.
    apply (IH w _ H0 y); [lia | exact Hw].
  + assert (O : N.odd x = true) by (rewrite <- N.negb_even, E; reflexivity).
    apply N.odd_spec in O. destruct O as [y ->]. rewrite popcount_succ_double in Hw.
    destruct w as [|w']; [lia|]. apply (IH w' _ H1 y); lia.
Qed.

(** number of leaves visited, for the record: 1+24+276+2024+10626 *)
Fixpoint leaves (k w : nat) : N :=
  match k with
  | O => 1
  | S k' => leaves k' w + match w with O => 0 | S w' => leaves k' w' end
  end.
Lemma leaves_24_4 : leaves 24 4 = 12951 /\ leaves 24 3 = 2325 /\ leaves 23 3 = 2048.
Proof. repeat split; reflexivity. Qed.

Lemma below_eqb k (f g : N -> N) : below k (fun x => f x =? g x) = true ->
  forall x, x < 2 ^ N.of_nat k -> f x = g x.
Proof. intros H x Hx. apply N.eqb_eq. exact (below_spec k _ H x Hx). Qed.
