(** Index invariants of the framer, the LICH unpacking / copy, and the clock post-processing. *)
From Coq Require Import NArith ZArith QArith Qround Arith Bool String Lia Lqa List.
From M17 Require Import Checked LemmasChecked ConstsApp ImplRxIndex.
Import ListNotations.
Local Open Scope nat_scope.

Ltac rx_consts :=
  cbv [framer_size lich_bytes lsf_bytes input_bits lich_fn_idx lich_copy_len lich_copy_stride ul_words ul_word_bits ul_word_stride
       framer_resets_index lich_guard_before_copy] in *.

(** * M17Framer (LLR mode) *)
Definition framer_inv (f : framer) : Prop :=
  length (f_buffer f) = framer_size /\ Nat.even (f_index f) = true /\ f_index f < framer_size.

Lemma framer_init_inv : framer_inv framer_init.
Proof. split; [apply repeat_length|]. split; [reflexivity | rx_consts; cbn; lia]. Qed.

Lemma framer_step_ok f s : framer_inv f -> exists f' o, framer_step f s = Ok (f', o) /\ framer_inv f'.
Proof. intros [L [E B]]. apply Nat.even_spec in E. destruct E as [k Hk]. unfold framer_step.
  rewrite set_ok by lia. cbn [bind]. rewrite set_ok by (rewrite replace_nth_length; rx_consts; lia). cbn [bind].
  destruct (S (S (f_index f)) =? framer_size) eqn:Q.
  - change framer_resets_index with true. cbv iota. eexists; eexists; split; [reflexivity|]. split; cbn [f_buffer f_index].
    + rewrite !replace_nth_length. exact L.
    + split; [reflexivity | rx_consts; lia].
  - apply Nat.eqb_neq in Q. eexists; eexists; split; [reflexivity|]. split; cbn [f_buffer f_index].
    + rewrite !replace_nth_length. exact L.
    + split; [rewrite Hk; change (S (S (2 * k))) with (2 + 2 * k); rewrite Nat.even_add_mul_2; reflexivity | rx_consts; lia].
Qed.

Lemma framer_run_ok : forall symbols f n, framer_inv f -> exists f' n', framer_run f symbols n = Ok (f', n') /\ framer_inv f'.
Proof. induction symbols as [|s r IH]; intros f n I; cbn [framer_run].
- exists f, n. split; [reflexivity|exact I].
- destruct (framer_step_ok f s I) as [f1 [o [H1 I1]]]. rewrite H1. cbn [bind fst snd]. apply IH. exact I1.
Qed.

Lemma framer_index_lemma : forall symbols : list (Z * Z),
  exists f' n, framer_run framer_init symbols 0 = Ok (f', n) /\
               length (f_buffer f') = framer_size /\ Nat.even (f_index f') = true /\ f_index f' < framer_size.
Proof. intros symbols. destruct (framer_run_ok symbols framer_init 0 framer_init_inv) as [f' [n [H I]]]. exists f', n. split; [exact H|exact I]. Qed.

(** * decode_lich: fragment number and copy *)
Lemma fragment_number_le_7 x : (fragment_number x <= 7)%N.
Proof. unfold fragment_number. change lich_fn_mask with (N.ones 3). rewrite N.land_ones.
  pose proof (N.mod_lt (N.shiftr (N.land x 255) lich_fn_shift) (2 ^ 3)). change (2 ^ 3)%N with 8%N in *. lia. Qed.

Lemma lich_copy_ok lich lsf : length lich = lich_bytes -> length lsf = lsf_bytes ->
  exists r, lich_copy lich lsf = Ok r /\
    match r with
    | None => True
    | Some l => length l = lsf_bytes /\
                exists x, nth_error lich lich_fn_idx = Some x /\ (fragment_number x <= max_lich_fragment)%N /\
                          N.to_nat (fragment_number x) * lich_copy_stride + lich_copy_len <= lsf_bytes
    end.
Proof. intros L1 L2. unfold lich_copy.
  destruct (get_ok "decode_lich: output_buffer.lich[5]" lich lich_fn_idx) as [l5 H5]; [rx_consts; lia|]. rewrite H5. cbn [bind].
  change lich_guard_before_copy with true. cbv iota.
  destruct (N.ltb max_lich_fragment (fragment_number l5)) eqn:G.
  - exists None. split; [reflexivity|exact I].
  - apply N.ltb_ge in G. rewrite range_ok by (rx_consts; lia). cbn [bind].
    assert (B : N.to_nat (fragment_number l5) * lich_copy_stride + lich_copy_len <= lsf_bytes).
    { unfold max_lich_fragment in G. rx_consts. lia. }
    destruct (write_at_ok "decode_lich: std::copy to lsf.begin() + fragment_number * 5"
                (firstn (lich_copy_len - 0) (skipn 0 lich)) lsf (N.to_nat (fragment_number l5) * lich_copy_stride)) as [d [Hd Ld]].
    { rewrite firstn_length, skipn_length. rx_consts. lia. }
    rewrite Hd. cbn [bind]. exists (Some d). split; [reflexivity|]. split; [rewrite Ld; exact L2|].
    exists l5. split; [|split; [exact G|exact B]].
    unfold get in H5. destruct (nth_error lich lich_fn_idx); [injection H5 as ->; reflexivity|discriminate].
Qed.

(** * unpack_lich *)
Section Lich.
Variable golay_decode : N -> option N.

Lemma lich_codeword_ok buffer i : length buffer = input_bits -> i < ul_words -> is_ok (lich_codeword buffer i).
Proof. intros L Hi. unfold lich_codeword.
  destruct (get_each_ok "unpack_lich: buffer[i * 24 + j]" buffer (map (fun j => i * ul_word_stride + j) (seq 0 ul_word_bits))) as [bits [Hb _]].
  { apply Forall_forall. intros x Hx. apply in_map_iff in Hx. destruct Hx as [j [<- Hj]]. apply in_seq in Hj. rx_consts. lia. }
  rewrite Hb. cbn [bind]. apply is_ok_Ok. Qed.

Lemma unpack_step_ok buffer lich index i : length buffer = input_bits -> i < ul_words -> length lich = lich_bytes -> S index < lich_bytes ->
  exists r, unpack_step golay_decode buffer (lich, index) i = Ok r /\
    match r with
    | None => True
    | Some (l', index') => length l' = lich_bytes /\ index' = (if Nat.odd i then S (S index) else S index)
    end.
Proof. intros LB Hi LL HI. unfold unpack_step. destruct (lich_codeword_ok buffer i LB Hi) as [cw ->]. cbn [bind].
  destruct (golay_decode cw) as [d0|]; [|exists None; split; [reflexivity|exact I]]. cbn [fst snd].
  destruct (Nat.odd i).
  - destruct (get_ok "unpack_lich: lich[index++] |= (odd word)" lich index) as [x Hx]; [lia|]. rewrite Hx. cbn [bind].
    rewrite set_ok by lia. cbn [bind]. rewrite set_ok by (rewrite replace_nth_length; lia). cbn [bind].
    eexists; split; [reflexivity|]. split; [rewrite !replace_nth_length; exact LL | reflexivity].
  - destruct (get_ok "unpack_lich: lich[index++] |= (even word)" lich index) as [x Hx]; [lia|]. rewrite Hx. cbn [bind].
    rewrite set_ok by lia. cbn [bind]. rewrite set_ok by (rewrite replace_nth_length; lia). cbn [bind].
    eexists; split; [reflexivity|]. split; [rewrite !replace_nth_length; exact LL | reflexivity].
Qed.

(** the four iterations use index = 0, 1, 3, 4 (each touching index and index + 1 <= 5) and leave it at 6 *)
Lemma unpack_lich_ok buffer : length buffer = input_bits ->
  exists r, unpack_lich golay_decode buffer = Ok r /\
    match r with None => True | Some (l, index) => length l = lich_bytes /\ index = lich_bytes end.
Proof. intros LB. unfold unpack_lich. change (seq 0 ul_words) with [0; 1; 2; 3]. cbn [unpack_loop].
  destruct (unpack_step_ok buffer (repeat 0%N lich_bytes) 0 0 LB) as [r0 [H0 P0]]; [rx_consts; lia | apply repeat_length | rx_consts; lia |].
  rewrite H0. cbn [bind]. destruct r0 as [[l0 i0]|]; [|exists None; split; [reflexivity|exact I]]. destruct P0 as [L0 ->]. cbn [Nat.odd Nat.even negb].
  destruct (unpack_step_ok buffer l0 1 1 LB) as [r1 [H1 P1]]; [rx_consts; lia | exact L0 | rx_consts; lia |].
  rewrite H1. cbn [bind]. destruct r1 as [[l1 i1]|]; [|exists None; split; [reflexivity|exact I]]. destruct P1 as [L1 ->]. cbn [Nat.odd Nat.even negb].
  destruct (unpack_step_ok buffer l1 3 2 LB) as [r2 [H2 P2]]; [rx_consts; lia | exact L1 | rx_consts; lia |].
  rewrite H2. cbn [bind]. destruct r2 as [[l2 i2]|]; [|exists None; split; [reflexivity|exact I]]. destruct P2 as [L2 ->]. cbn [Nat.odd Nat.even negb].
  destruct (unpack_step_ok buffer l2 4 3 LB) as [r3 [H3 P3]]; [rx_consts; lia | exact L2 | rx_consts; lia |].
  rewrite H3. cbn [bind]. destruct r3 as [[l3 i3]|]; [|exists None; split; [reflexivity|exact I]]. destruct P3 as [L3 ->]. cbn [Nat.odd Nat.even negb].
  eexists; split; [reflexivity|]. split; [exact L3 | reflexivity].
Qed.
End Lich.

(** * Clock: int8_t(round(e)) and the wrap *)
Local Open Scope Z_scope.

Lemma wrap_int8_small x : -128 <= x <= 127 -> wrap_int8 x = x.
Proof. intros H. unfold wrap_int8. rewrite Z.mod_small by lia. lia. Qed.

Lemma post_range r : -10 <= r <= 19 -> 0 <= wrap_step2 (wrap_step1 r) <= 9.
Proof. intros H. unfold wrap_step1, wrap_step2, samples_per_symbol.
  destruct (Z.ltb_spec r 0).
  - rewrite wrap_int8_small by lia. destruct (Z.leb_spec 10 (r + 10)); [rewrite wrap_int8_small by lia|]; lia.
  - destruct (Z.leb_spec 10 r); [rewrite wrap_int8_small by lia|]; lia.
Qed.

Lemma Qfloor_bounds (x : Q) (a b : Z) : (inject_Z a <= x)%Q -> (x < inject_Z b)%Q -> a <= Qfloor x < b.
Proof. intros Ha Hb. split.
- pose proof (Qlt_floor x) as H. assert (E : (inject_Z a < inject_Z (Qfloor x + 1))%Q) by (eapply Qle_lt_trans; eassumption).
  rewrite <- Zlt_Qlt in E. lia.
- pose proof (Qfloor_le x) as H. assert (E : (inject_Z (Qfloor x) < inject_Z b)%Q) by (eapply Qle_lt_trans; eassumption).
  rewrite <- Zlt_Qlt in E. exact E.
Qed.

Lemma round_half_away_range (e : Q) : (-(21 # 2) < e)%Q -> (e < 39 # 2)%Q -> -10 <= round_half_away e <= 19.
Proof. intros Hlo Hhi. unfold round_half_away. destruct (Qle_bool 0 e) eqn:S.
- apply Qle_bool_iff in S.
  assert (B : 0 <= Qfloor (e + (1 # 2)) < 20).
  { apply Qfloor_bounds; [change (inject_Z 0) with (0 # 1)%Q | change (inject_Z 20) with (20 # 1)%Q]; lra. }
  lia.
- assert (N : (e < 0)%Q). { apply Qnot_le_lt. intro C. apply Qle_bool_iff in C. rewrite C in S. discriminate. }
  assert (B : 0 <= Qfloor (- e + (1 # 2)) < 11).
  { apply Qfloor_bounds; [change (inject_Z 0) with (0 # 1)%Q | change (inject_Z 11) with (11 # 1)%Q]; lra. }
  lia.
Qed.

Lemma sample_index_wide (e : Q) : (-(21 # 2) < e)%Q -> (e < 39 # 2)%Q -> exists s, sample_index_of e = Some s /\ 0 <= s <= 9.
Proof. intros Hlo Hhi. pose proof (round_half_away_range e Hlo Hhi) as R. unfold sample_index_of, to_int8.
  destruct (Z.leb_spec (-128) (round_half_away e)); [|lia]. destruct (Z.leb_spec (round_half_away e) 127); [|lia]. cbn [andb].
  eexists; split; [reflexivity|]. apply post_range. exact R. Qed.

Lemma sample_index_in_range_lemma (e : Q) : (0 <= e)%Q -> (e <= 10)%Q -> exists s, sample_index_of e = Some s /\ 0 <= s <= 9.
Proof. intros H0 H10. apply sample_index_wide.
- lra.
- lra.
Qed.

Lemma sample_index_outside :
  sample_index_of (39 # 2) = Some 10 /\ sample_index_of (-(21 # 2)) = Some (-1) /\ sample_index_of (200 # 1) = None.
Proof. vm_compute. repeat split. Qed.

(** * update(): fmod and the two adjustments, in exact arithmetic *)
Lemma floor_atom (y : Q) : exists a : Q, a = inject_Z (Qfloor y) /\ (a <= y)%Q /\ (y < a + 1)%Q.
Proof. exists (inject_Z (Qfloor y)). split; [reflexivity|]. split; [apply Qfloor_le|].
  pose proof (Qlt_floor y) as H. rewrite inject_Z_plus in H. exact H. Qed.

Lemma csw_range (x : Q) : (0 <= csw_of x)%Q /\ (csw_of x < 10)%Q.
Proof. unfold csw_of, fmod_trunc, samples_per_symbol.
  change (inject_Z 10) with (10 # 1)%Q.
  destruct (Qle_bool 0 x) eqn:S.
  - apply Qle_bool_iff in S. destruct (floor_atom (x / (10 # 1))) as [a [Ea [L U]]].
    rewrite inject_Z_mult, <- Ea. change (inject_Z 10) with (10 # 1)%Q.
    unfold Qdiv in L, U. change (/ (10 # 1))%Q with (1 # 10)%Q in L, U.
    set (c := (x - a * (10 # 1))%Q).
    assert (C0 : (0 <= c)%Q) by (unfold c; lra). assert (C1 : (c < 10 # 1)%Q) by (unfold c; lra).
    destruct (Qle_bool 0 c) eqn:S0.
    + destruct (Qle_bool (10 # 1) c) eqn:S1; [apply Qle_bool_iff in S1; lra | split; lra].
    + exfalso. apply Qle_bool_iff in C0. rewrite C0 in S0. discriminate.
  - assert (N : (x < 0)%Q). { apply Qnot_le_lt. intro C. apply Qle_bool_iff in C. rewrite C in S. discriminate. }
    destruct (floor_atom (- x / (10 # 1))) as [a [Ea [L U]]].
    rewrite inject_Z_mult, inject_Z_opp, <- Ea. change (inject_Z 10) with (10 # 1)%Q.
    unfold Qdiv in L, U. change (/ (10 # 1))%Q with (1 # 10)%Q in L, U.
    set (c := (x - - a * (10 # 1))%Q).
    assert (C0 : (-(10 # 1) < x - - a * (10 # 1))%Q) by (clear -L U; lra). assert (C1 : (x - - a * (10 # 1) <= 0)%Q) by (clear -L U; lra). fold c in C0, C1.
    destruct (Qle_bool 0 c) eqn:S0.
    + apply Qle_bool_iff in S0. destruct (Qle_bool (10 # 1) c) eqn:S1; [apply Qle_bool_iff in S1; lra | split; lra].
    + assert (N0 : (c < 0)%Q) by (apply Qnot_le_lt; intro C; apply Qle_bool_iff in C; rewrite C in S0; discriminate). split; lra.
Qed.

Lemma sample_index_update0_range (x : Q) : exists s, sample_index_update0 x = Some s /\ 0 <= s <= 9.
Proof. unfold sample_index_update0. destruct (csw_range x) as [L U]. apply sample_index_in_range_lemma; lra. Qed.
