(** C18, part D: acquisition followed by counting; BERT slices. *)
From Coq Require Import NArith ZArith List Bool Arith Lia ZifyBool ZifyNat ZifyN.
From M17 Require Import Bits ConstsPrbs ImplPRBS SpecPRBS LemmasPRBS_A LemmasPRBS_B LemmasPRBS_C.
Import ListNotations.
Local Open Scope N_scope.

Lemma count_true_skipn_le k : forall l, (count_true (skipn k l) <= count_true l)%nat.
Proof. induction k as [|k IH]; intros l; [rewrite skipn_O; lia|]. destruct l as [|x l]; [rewrite skipn_nil; lia|].
  cbn [skipn]. rewrite count_true_cons. specialize (IH l). lia. Qed.
Lemma count_true_lastn_le n l : (count_true (lastn n l) <= count_true l)%nat.
Proof. apply count_true_skipn_le. Qed.
Lemma count_true_firstn_le k : forall l, (count_true (firstn k l) <= count_true l)%nat.
Proof. induction k as [|k IH]; intros l; [rewrite firstn_O; change (count_true []) with 0%nat; lia|]. destruct l as [|x l]; [rewrite firstn_nil; lia|].
  cbn [firstn]. rewrite !count_true_cons. specialize (IH l). lia. Qed.

(** the state right after lock *)
Lemma locked_window s v : window_of (locked_at s v) = repeat false 128.
Proof. reflexivity. Qed.
Lemma locked_consistent s v : consistent (locked_at s v) s.
Proof. unfold consistent. rewrite locked_window. repeat split. Qed.
Lemma locked_wf s v : err_count v < 2 ^ 32 -> counters_wf (locked_at s v).
Proof. intros H. split; [|exact H]. cbn [locked_at bit_count]. unfold w_bits, wrap.
  change ConstsPrbs.prbs_bit_count_bits with 32. apply N.mod_lt. discriminate. Qed.

(** error patterns counted from the moment of lock: never 25 errors among the last (at most) 128 bits *)
Definition sparse (es : list bool) : Prop :=
  forall k, (1 <= k <= length es)%nat -> (count_true (lastn 128 (firstn k es)) < 25)%nat.

Lemma count_lastn_pad p : count_true (lastn 128 (repeat false 128 ++ p)) = count_true (lastn 128 p).
Proof. unfold lastn. rewrite app_length, repeat_length, skipn_app, repeat_length, count_true_app.
  destruct (Nat.le_gt_cases 128 (length p)) as [H|H].
  - replace (128 + length p - 128 - 128)%nat with (length p - 128)%nat by lia.
    rewrite skipn_all2 by (rewrite repeat_length; lia). reflexivity.
  - replace (128 + length p - 128 - 128)%nat with 0%nat by lia. replace (length p - 128)%nat with 0%nat by lia.
    pose proof (count_true_skipn_le (128 + length p - 128) (repeat false 128)) as K.
    rewrite count_true_repeat_false in K. rewrite skipn_O. lia. Qed.

Lemma sparse_sparse_from es : sparse es -> sparse_from (repeat false 128) es.
Proof. intros H k Hk. unfold window_len, unlock_threshold. rewrite count_lastn_pad. apply H. exact Hk. Qed.

Lemma sparse_all_false n W : count_true W = 0%nat -> sparse_from W (repeat false n).
Proof. intros H k Hk. unfold unlock_threshold.
  pose proof (count_true_lastn_le window_len (W ++ firstn k (repeat false n))) as K.
  rewrite count_true_app, H in K. pose proof (count_true_firstn_le k (repeat false n)) as K2.
  rewrite count_true_repeat_false in K2. lia. Qed.

Lemma xor_bits_false a : xor_bits a (repeat false (length a)) = a.
Proof. induction a as [|x a IH]; [reflexivity|]. cbn [length repeat]. unfold xor_bits in *. cbn [combine map fst snd].
  rewrite IH, xorb_false_r. reflexivity. Qed.

(** lock, then exact counting *)
Lemma lock_then_count v g : synced v = false -> state v < 512 -> sync_count v <= 9 -> counters_wf v -> g < 512 ->
  exists t, (1 <= t <= 27)%nat /\
    (forall m, (m < t)%nat -> synced (run v (gen_bits g m)) = false) /\
    forall es, sparse es ->
      let n := length es in
      let v' := run v (xor_bits (gen_bits g (t + n)) (repeat false t ++ es)) in
      synced v' = true /\ state v' = gen_state g (t + n) /\
      err_count v' = w_errs (err_count v + N.of_nat (count_true es)) /\
      bit_count v' = w_bits (bit_count v + ConstsPrbs.prbs_LOCK_COUNT + N.of_nat n) /\
      hist_count v' = N.of_nat (count_true (lastn 128 es)) /\ sync_count v' = 0.
Proof. intros Hs Hv Hc [Wb We] Hg. destruct (lock_within_27_lemma v g Hs Hv Hc Hg) as [t [T [A B]]].
  exists t. split; [exact T|]. split; [exact B|]. intros es Sp. cbv zeta.
  assert (R : run v (xor_bits (gen_bits g (t + length es)) (repeat false t ++ es)) =
              run (locked_at (gen_state g t) v) (xor_bits (gen_bits (gen_state g t) (length es)) es)).
  { rewrite gen_bits_add, xor_bits_app by (rewrite gen_bits_length, repeat_length; reflexivity).
    pose proof (xor_bits_false (gen_bits g t)) as X. rewrite gen_bits_length in X. rewrite X, run_app, A. reflexivity. }
  rewrite R. clear R.
  destruct (counts_run es (locked_at (gen_state g t) v) (gen_state g t) (locked_consistent _ _) (locked_wf _ _ We)
              ltac:(rewrite locked_window; apply sparse_sparse_from; exact Sp)) as [Cn [Wn [En [Bn Sn]]]].
  unfold after_run in *. destruct Cn as [C1 [C2 [C3 [C4 C5]]]].
  split; [exact C1|]. split; [rewrite C2, <- gen_state_add; reflexivity|].
  split; [exact En|]. split.
  - rewrite Bn. cbn [locked_at bit_count]. rewrite w_bits_add, N.add_assoc. reflexivity.
  - split; [|exact Sn]. rewrite C5, Wn, locked_window.
    change 128%nat with window_len at 1. f_equal. apply count_lastn_pad. Qed.

(** BERT: consecutive slices of the generator sequence (one per frame) are the continuous sequence *)
Definition bert_slice (g : N) (len j : nat) : list bool := gen_bits (gen_state g (len * j)) len.
Definition bert_slices (g : N) (len k : nat) : list bool := flat_map (bert_slice g len) (seq 0 k).

Lemma bert_slices_eq g len k : bert_slices g len k = gen_bits g (len * k).
Proof. induction k as [|k IH]; [rewrite Nat.mul_0_r; reflexivity|].
  unfold bert_slices in *. rewrite seq_S, flat_map_app, IH. cbn [flat_map Nat.add]. rewrite app_nil_r.
  unfold bert_slice. replace (len * S k)%nat with (len * k + len)%nat by lia. rewrite gen_bits_add. reflexivity. Qed.

Lemma bert_slices_relock_lemma v g k : synced v = false -> state v < 512 -> sync_count v <= 9 -> counters_wf v -> g < 512 ->
  (1 <= k)%nat ->
  exists t, (1 <= t <= 27)%nat /\
    (forall m, (m < t)%nat -> synced (run v (firstn m (bert_slices g 197 k))) = false) /\
    let v' := run v (bert_slices g 197 k) in
    synced v' = true /\ state v' = gen_state g (197 * k) /\ err_count v' = err_count v /\
    bit_count v' = w_bits (bit_count v + ConstsPrbs.prbs_LOCK_COUNT + N.of_nat (197 * k - t)).
Proof. intros Hs Hv Hc Wf Hg Hk. destruct (lock_then_count v g Hs Hv Hc Wf Hg) as [t [T [B C]]].
  exists t. split; [exact T|]. rewrite bert_slices_eq. split.
  - intros m Hm. replace (197 * k)%nat with (m + (197 * k - m))%nat by lia. rewrite gen_bits_add.
    rewrite firstn_app, gen_bits_length, Nat.sub_diag, firstn_O, app_nil_r, firstn_all2 by (rewrite gen_bits_length; lia).
    apply B. exact Hm.
  - specialize (C (repeat false (197 * k - t))). cbv zeta in C. rewrite repeat_length in C.
    replace (t + (197 * k - t))%nat with (197 * k)%nat in C by lia.
    assert (E : repeat false t ++ repeat false (197 * k - t) = repeat false (length (gen_bits g (197 * k)))).
    { rewrite gen_bits_length, <- repeat_app. f_equal. lia. }
    rewrite E, xor_bits_false in C.
    destruct C as [C1 [C2 [C3 [C4 _]]]].
    { intros j Hj. rewrite repeat_length in Hj. pose proof (count_true_lastn_le 128 (firstn j (repeat false (197 * k - t)))) as K.
      pose proof (count_true_firstn_le j (repeat false (197 * k - t))) as K2. rewrite count_true_repeat_false in K2. lia. }
    cbv zeta. split; [exact C1|]. split; [exact C2|]. split; [|exact C4].
    rewrite C3, count_true_repeat_false. cbn [N.of_nat]. rewrite N.add_0_r. unfold w_errs, wrap.
    change ConstsPrbs.prbs_err_count_bits with 32. apply N.mod_small. apply Wf. Qed.
