(** Extraction of the queue model for C15/C16: ExtrOcamlBasic only. *)
Require Extraction.
Require Import ExtrOcamlBasic.
From Coq Require Import ZArith List.
From M17 Require Import ImplQueue SpecQueue.
Definition c15_accepts := accepts.
Definition c15_first_reject := first_reject.
Definition c15_synth := synth.
Definition c15_run_sched := run_sched.
Definition c15_run_seq (cap : nat) := run_seq cap (init 0).
Definition c15_spec_run (cap : nat) := spec_run cap s_init.
Definition c15_resp_code := resp_code.
Definition c15_put_deadline := put_deadline.
Definition c15_get_deadline := get_deadline.
Extraction "c15_model.ml" c15_accepts c15_first_reject c15_synth c15_run_sched c15_run_seq c15_spec_run c15_resp_code
           c15_put_deadline c15_get_deadline visible int64_max.
