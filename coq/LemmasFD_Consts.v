(** The literals of M17FrameDecoder.h (regenerated from the source into ConstsFramedecoder.v on every
    run) are the ones the model ImplFrameDecoder.v was written with.  A changed constant breaks this file. *)
From Coq Require Import NArith ZArith List.
From M17 Require Import ImplFrameDecoder ConstsFramedecoder.
Import ListNotations.

Definition fd_consts_statement : Prop :=
  max_lich_fragment = MAX_LICH_FRAGMENT /\
  derandomizer_size = 368 /\ interleaver_args = (45, 92, 368) /\
  trellis_K = 4 /\ trellis_n = 2 /\ trellis_polys = [25; 23]%N /\ viterbi_llr = 4 /\
  input_size = 368 /\ lsf_bytes = 30 /\ lich_bytes = 6 /\ stream_bytes = 18 /\ packet_bytes = 26 /\ bert_bytes = 25 /\
  geometries = map (fun g => (g_in g, g_out g)) [GLsf; GStream; GPacket; GBert] /\
  p_lsf = (488, 1) /\ p_stream = (296, 2) /\ p_bert = (402, 2) /\ p_packet = (420, 3) /\
  update_state_indices = [111; 109; 109; 110] /\ update_state_cases = [(1, 0); (2, 1)] /\
  frag_shift = 5%N /\ frag_mask = 7%N /\ frag_byte = 5 /\ frag_copy_len = 5 /\ frag_stride = 5 /\
  seg_mask = 63%N /\ seg_full = 63%N /\ lich_costs = [128; (-1); (-1); 0; 128]%Z /\
  stream_offset = 96 /\ eof_byte = 25 /\ eof_mask = 128%N /\
  unpack_lich_literals = [0; 0; 4; 0; 0; 24; 1; 24; 0; 0; 12; 1; 8; 255; 4; 15; 4]%N.

Lemma fd_consts_ok : fd_consts_statement.
Proof. unfold fd_consts_statement. repeat split; reflexivity. Qed.
