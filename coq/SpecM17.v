(** * SpecM17 — a specification encoder for M17 stream mode

    Written from the M17 protocol specification (physical and data-link layer; the facts are listed in
    DESIGN.md, Appendix A), independently of the repository's C++.  Self-contained: it only uses
    [Bits] (MSB-first byte/bit conversion) and [SpecCRC] (the CRC-16 by the direct algorithm).

    Conventions: a byte is an [N] below 256, a bit is a [bool], frames are [list bool] in transmission
    order (first transmitted bit first), byte strings are MSB first, a callsign is the list of the
    ASCII codes of its characters, 4-FSK symbols are [Z] in {-3,-1,+1,+3}.

    Exported definitions (used by C13 here; meant for C01 round trip / C14 modulator as well):

      alphabet, char_value, in_alphabet, valid_callsign, base40, be_bytes,
      broadcast_address, spec_address, spec_dst_address
      lsf_type_stream_voice, spec_lsf_body, spec_lsf                     (30 bytes)
      conv_step, conv_from, spec_conv                                    (rate 1/2, K = 5, 4 flush bits)
      P1, P2, P3, puncture_from, spec_puncture
      pi, pi_inverse, spec_interleave ; dc_bytes, spec_randomize ; spec_finish
      golay_generator, poly_mod, golay23, golay24, golay24_bits
      lich_chunk, spec_lich                                              (96 bits)
      fn_field, spec_stream_payload (272 bits), spec_stream_frame, spec_lsf_frame,
      spec_bert_frame, spec_packet_frame                                 (368 bits each)
      sync_lsf, sync_stream, sync_packet, sync_bert, eot_marker, preamble
      lich_index, fn_index, spec_stream_frames, spec_bitstream           (bytes)
      dibit_symbol, bits_symbols, bytes_symbols, spec_symbols            (symbols)
      upsample, dot, ideal_sample, ideal_response, trunc_scaled, spec_baseband   (pulse shaping) *)
From Coq Require Import NArith ZArith List Bool.
From Coq Require Ascii String.
From M17 Require Import Bits SpecCRC.
Import ListNotations.
Local Open Scope N_scope.

(** ** Numbers and bits *)

(** the [n] low bits of [v], most significant first *)
Definition N_bits (n : nat) (v : N) : list bool := map (fun i => N.testbit v (N.of_nat (n - 1 - i))) (seq 0 n).

(** [n] bytes, big-endian *)
Definition be_bytes (n : nat) (v : N) : list N :=
  map (fun i => N.land (N.shiftr v (8 * N.of_nat (n - 1 - i))) 0xFF) (seq 0 n).

(** consecutive groups of [k] elements (the last one may be shorter) *)
Fixpoint groups_fuel {A} (fuel k : nat) (l : list A) : list (list A) :=
  match fuel with
  | O => []
  | S f => match l with [] => [] | _ => firstn k l :: groups_fuel f k (skipn k l) end
  end.
Definition groups {A} (k : nat) (l : list A) : list (list A) := groups_fuel (length l) k l.

(** bits -> bytes, MSB first (frames are multiples of 8 bits) *)
Definition bits_bytes (l : list bool) : list N := map bits_N (groups 8 l).

(** ** Addresses: base-40 callsigns *)

Module AlphabetText.
  Import Ascii String.
  Definition text : string := " ABCDEFGHIJKLMNOPQRSTUVWXYZ0123456789-/.".
  Definition codes : list N := map N_of_ascii (list_ascii_of_string text).
End AlphabetText.
(** the ASCII codes of " ABCDEFGHIJKLMNOPQRSTUVWXYZ0123456789-/." ; a character's value is its position *)
Definition alphabet : list N := AlphabetText.codes.

Fixpoint index_from (c : N) (l : list N) (i : N) : option N :=
  match l with
  | [] => None
  | x :: r => if N.eqb x c then Some i else index_from c r (i + 1)
  end.

(** value 0..39 of a character of the alphabet *)
Definition char_value (c : N) : option N := index_from c alphabet 0.
Definition in_alphabet (c : N) : bool := match char_value c with Some _ => true | None => false end.
Definition char_digit (c : N) : N := match char_value c with Some v => v | None => 0 end.

(** a callsign: at most 9 characters of the alphabet *)
Definition valid_callsign (s : list N) : Prop := (length s <= 9)%nat /\ forallb in_alphabet s = true.

(** first character least significant *)
Definition base40 (s : list N) : N := fold_right (fun c acc => char_digit c + 40 * acc) 0 s.

Definition broadcast_address : list N := repeat 0xFF 6.
Definition spec_address (s : list N) : list N := be_bytes 6 (base40 s).
(** the destination of a transmission: no callsign given = broadcast *)
Definition spec_dst_address (s : list N) : list N :=
  match s with [] => broadcast_address | _ => spec_address s end.

(** ** Link setup frame (240 bits): DST(48) SRC(48) TYPE(16) META(112) CRC(16) *)

(** TYPE of a voice stream: bit 0 = 1 (stream), bits 1-2 = 10 (voice), encryption 00, subtype 00,
    bits 7-10 = channel access number *)
Definition lsf_type_stream_voice (can : N) : N := 1 + 2 * 2 + 128 * can.

Definition spec_lsf_body (dst src : list N) (can : N) : list N :=
  spec_dst_address dst ++ spec_address src ++ be_bytes 2 (lsf_type_stream_voice can) ++ repeat 0 14.

Definition spec_lsf (dst src : list N) (can : N) : list N :=
  let body := spec_lsf_body dst src can in body ++ crc_hi_lo (m17_crc body).

(** ** Convolutional code: rate 1/2, K = 5, G1 = 1 + D^3 + D^4, G2 = 1 + D + D^2 + D^4 *)

(** the register holds the four previous inputs, most recent first *)
Definition conv_state : Type := (bool * bool * bool * bool)%type.
Definition conv_zero : conv_state := (false, false, false, false).

Definition conv_step (d : conv_state) (x : bool) : conv_state * list bool :=
  let '(d1, d2, d3, d4) := d in
  ((x, d1, d2, d3), [xorb x (xorb d3 d4); xorb x (xorb d1 (xorb d2 d4))]).

Fixpoint conv_from (d : conv_state) (bits : list bool) : list bool :=
  match bits with
  | [] => []
  | x :: r => let '(d', out) := conv_step d x in out ++ conv_from d' r
  end.

(** encode with four flush bits *)
Definition spec_conv (bits : list bool) : list bool := conv_from conv_zero (bits ++ repeat false 4).

(** ** Puncturing with a cyclic mask: coded bit [i] is sent iff mask[i mod |mask|] = 1 *)

Definition P1 : list bool := concat (repeat [true; true; false; true] 15) ++ [true].   (* 61 entries *)
Definition P2 : list bool := repeat true 11 ++ [false].
Definition P3 : list bool := repeat true 7 ++ [false].

Fixpoint puncture_from (mask : list bool) (i : nat) (bits : list bool) : list bool :=
  match bits with
  | [] => []
  | b :: r => (if nth (i mod length mask) mask true then [b] else []) ++ puncture_from mask (S i) r
  end.
Definition spec_puncture (mask bits : list bool) : list bool := puncture_from mask 0 bits.

(** ** Interleaver: the bit at position i goes to position pi(i) = (45 i + 92 i^2) mod 368 *)

Definition pi (i : N) : N := (45 * i + 92 * i * i) mod 368.

(** the position whose bit arrives at output position [j] *)
Definition pi_inverse (j : N) : nat :=
  match find (fun i => N.eqb (pi (N.of_nat i)) j) (seq 0 368) with Some i => i | None => 0%nat end.
Definition pi_inverse_table : list nat := map (fun j => pi_inverse (N.of_nat j)) (seq 0 368).

Definition spec_interleave (bits : list bool) : list bool := map (fun i => nth i bits false) pi_inverse_table.

(** ** Randomizer: xor with a fixed 46-byte sequence *)

Definition dc_bytes : list N :=
  [0xD6; 0xB5; 0xE2; 0x30; 0x82; 0xFF; 0x84; 0x62; 0xBA; 0x4E; 0x96; 0x90; 0xD8; 0x98; 0xDD; 0x5D;
   0x0C; 0xC8; 0x52; 0x43; 0x91; 0x1D; 0xF8; 0x6E; 0x68; 0x2F; 0x35; 0xDA; 0x14; 0xEA; 0xCD; 0x76;
   0x19; 0x8D; 0xD5; 0x80; 0xD1; 0x33; 0x87; 0x13; 0x57; 0x18; 0x2D; 0x29; 0x78; 0xC3].

Definition spec_randomize (bits : list bool) : list bool := xor_bits bits (bytes_bits dc_bytes).

(** the last two stages of every frame type *)
Definition spec_finish (bits : list bool) : list bool := spec_randomize (spec_interleave bits).

(** ** Golay(24,12): systematic cyclic (23,12) code with generator 0xC75, extended by overall parity *)

Definition golay_generator : N := 0xC75.   (* x^11 + x^10 + x^6 + x^5 + x^4 + x^2 + 1 *)

(** remainder of the GF(2) polynomial [v] (bit i = coefficient of x^i, degree < 11 + k) modulo the generator *)
Fixpoint poly_mod (k : nat) (v : N) : N :=
  match k with
  | O => v
  | S k' => poly_mod k' (if N.testbit v (N.of_nat (11 + k')) then N.lxor v (N.shiftl golay_generator (N.of_nat k')) else v)
  end.

Definition parity_bit (n : nat) (v : N) : bool := fold_left xorb (N_bits n v) false.

(** 12 data bits followed by 11 check bits *)
Definition golay23 (data : N) : N := let m := N.shiftl data 11 in N.lor m (poly_mod 12 m).
(** ... followed by the overall (even) parity bit; the data is in the top 12 bits *)
Definition golay24 (data : N) : N := let c := golay23 data in 2 * c + b2n (parity_bit 23 c).
Definition golay24_bits (data : N) : list bool := N_bits 24 (golay24 data).

(** ** LICH: chunk n of the LSF (40 bits), the 3-bit chunk number, 5 reserved zero bits;
       the 48 bits are sent as four Golay(24,12) words *)

Definition lich_chunk (lsf : list N) (n : N) : list N :=
  firstn 5 (skipn (5 * N.to_nat n) lsf) ++ [32 * n].

Definition spec_lich (lsf : list N) (n : N) : list bool :=
  flat_map (fun w => golay24_bits (bits_N w)) (groups 12 (bytes_bits (lich_chunk lsf n))).

(** ** Frames (368 bits after the sync word) *)

(** frame number: 15 bits, the most significant bit of the 16-bit field marks the last frame *)
Definition fn_field (fn : N) (eos : bool) : list N := be_bytes 2 (fn mod 32768 + (if eos then 32768 else 0)).

(** FN(16) . payload(128) = 144 bits + 4 flush -> 296 coded bits -> P2 -> 272 *)
Definition spec_stream_payload (fn : N) (payload : list N) (eos : bool) : list bool :=
  spec_puncture P2 (spec_conv (bytes_bits (fn_field fn eos ++ payload))).

Definition spec_stream_frame (lsf : list N) (n fn : N) (payload : list N) (eos : bool) : list bool :=
  spec_finish (spec_lich lsf n ++ spec_stream_payload fn payload eos).

(** 240 bits + 4 flush -> 488 -> P1 -> 368 *)
Definition spec_lsf_frame (lsf : list N) : list bool :=
  spec_finish (spec_puncture P1 (spec_conv (bytes_bits lsf))).

(** 197 bits + 4 flush -> 402 -> P2 -> 369, of which the first 368 are sent *)
Definition spec_bert_frame (bits197 : list bool) : list bool :=
  spec_finish (firstn 368 (spec_puncture P2 (spec_conv bits197))).

(** 200 data bits . EOF(1) . counter(5) = 206 + 4 flush -> 420 -> P3 -> 368 *)
Definition spec_packet_frame (data25 : list N) (eof : bool) (counter : N) : list bool :=
  spec_finish (spec_puncture P3 (spec_conv (firstn 200 (bytes_bits data25) ++ [eof] ++ N_bits 5 counter))).

(** ** Sync words, preamble, end of transmission *)

Definition sync_lsf : list N := [0x55; 0xF7].
Definition sync_stream : list N := [0xFF; 0x5D].
Definition sync_packet : list N := [0x75; 0xFF].
Definition sync_bert : list N := [0xDF; 0x55].
Definition eot_marker : list N := [0x55; 0x5D].
Definition preamble : list N := repeat 0x77 48.     (* one frame time of +3, -3, +3, -3 ... *)

(** ** A whole stream-mode transmission *)

(** frame k of the stream carries LICH chunk k mod 6 and frame number k mod 2^15 (the 15-bit counter
    starts at 0, increments by one per frame and wraps from 0x7FFF to 0) *)
Definition lich_index (k : N) : N := k mod 6.
Definition fn_index (k : N) : N := k mod 32768.

Fixpoint spec_stream_frames (lsf : list N) (k : N) (payloads : list (list N)) : list N :=
  match payloads with
  | [] => []
  | p :: rest =>
      (sync_stream ++ bits_bytes (spec_stream_frame lsf (lich_index k) (fn_index k) p
                                                     (match rest with [] => true | _ => false end)))
      ++ spec_stream_frames lsf (k + 1) rest
  end.

(** preamble, LSF frame, one stream frame per 16-byte payload (the last one flagged), EOT marker *)
Definition spec_bitstream (dst src : list N) (can : N) (payloads : list (list N)) : list N :=
  let lsf := spec_lsf dst src can in
  preamble ++ (sync_lsf ++ bits_bytes (spec_lsf_frame lsf)) ++ spec_stream_frames lsf 0 payloads ++ eot_marker.

(** ** 4-FSK symbols: dibit 01 -> +3, 00 -> +1, 10 -> -1, 11 -> -3 *)

Definition dibit_symbol (b1 b0 : bool) : Z :=
  match b1, b0 with
  | false, true => 3
  | false, false => 1
  | true, false => -1
  | true, true => -3
  end%Z.

Fixpoint bits_symbols (l : list bool) : list Z :=
  match l with
  | b1 :: b0 :: r => dibit_symbol b1 b0 :: bits_symbols r
  | _ => []
  end.
Definition bytes_symbols (l : list N) : list Z := bits_symbols (bytes_bits l).

Definition spec_symbols (dst src : list N) (can : N) (payloads : list (list N)) : list Z :=
  bytes_symbols (spec_bitstream dst src can payloads).

(** ** Pulse shaping: ONE continuous run of a FIR filter over the up-sampled symbol sequence

    u = every symbol followed by (sps - 1) zeros;  y[n] = sum_k taps[k] * u[n - k]  (u[j] = 0 for j < 0).
    The taps are given as integer numerators over a common power-of-two denominator 2^den_log2 (every
    IEEE double is such a number), so all arithmetic below is exact. *)
Local Open Scope Z_scope.

Definition upsample (sps : nat) (symbols : list Z) : list Z :=
  flat_map (fun s => s :: repeat 0 (sps - 1)) symbols.

(** sum of products over the common prefix *)
Fixpoint dot (a b : list Z) : Z :=
  match a, b with
  | x :: a', y :: b' => x * y + dot a' b'
  | _, _ => 0
  end.

(** y[n] as a sum: taps against the inputs up to n, most recent first *)
Definition ideal_sample (taps u : list Z) (n : nat) : Z := dot taps (rev (firstn (S n) u)).

(** the whole response, computed with the reversed prefix as an accumulator
    ([ideal_response_nth] in LemmasMod_I: its n-th element is [ideal_sample taps u n]) *)
Fixpoint ideal_response_from (taps past u : list Z) : list Z :=
  match u with
  | [] => []
  | x :: r => dot taps (x :: past) :: ideal_response_from taps (x :: past) r
  end.
Definition ideal_response (taps u : list Z) : list Z := ideal_response_from taps [] u.

(** scale * factor * (num / 2^den_log2), truncated toward zero to an integer *)
Definition trunc_scaled (den_log2 : N) (gain num : Z) : Z := Z.quot (gain * num) (2 ^ Z.of_N den_log2).

(** baseband samples of a symbol sequence: [gain] = scale, negated when the output is inverted *)
Definition spec_baseband (taps : list Z) (den_log2 : N) (sps : nat) (gain : Z) (symbols : list Z) : list Z :=
  map (trunc_scaled den_log2 gain) (ideal_response taps (upsample sps symbols)).
