(** C18, part A: the generator.  Period, balance, all states, register = last nine outputs, equality with the
    specification's recurrence.  Sweeps over the 512 register values. *)
From Coq Require Import NArith ZArith List Bool Arith Lia ZifyBool ZifyNat ZifyN.
From M17 Require Import Bits ConstsPrbs ImplPRBS SpecPRBS.
Import ListNotations.
Local Open Scope N_scope.

(** one call of generate() on the register alone *)
Definition lfsr (s : N) : N := shift_in s (taps s).
Fixpoint gen_state (s : N) (n : nat) : N := match n with O => s | S n' => gen_state (lfsr s) n' end.
Fixpoint gen_bits (s : N) (n : nat) : list bool := match n with O => [] | S n' => taps s :: gen_bits (lfsr s) n' end.
Definition gen_bit (s : N) (k : nat) : bool := taps (gen_state s k).
Fixpoint gen_orbit (s : N) (n : nat) : list N := match n with O => [] | S n' => s :: gen_orbit (lfsr s) n' end.

Definition set_state (v : prbs) (s : N) : prbs :=
  mkPRBS s (synced v) (sync_count v) (bit_count v) (err_count v) (history v) (hist_count v) (hist_pos v).

Lemma generate_n_eq : forall n v, generate_n v n = (set_state v (gen_state (state v) n), gen_bits (state v) n).
Proof. induction n as [|n IH]; intros v.
- destruct v; reflexivity.
- cbn [generate_n gen_state gen_bits]. unfold prbs_generate. rewrite IH. cbn [state]. reflexivity. Qed.

Lemma shift_in_lt s b : shift_in s b < 512.
Proof. unfold shift_in. change ConstsPrbs.prbs_MASK with (N.ones 9). rewrite N.land_ones. apply N.mod_lt. discriminate. Qed.
Lemma lfsr_lt s : lfsr s < 512. Proof. apply shift_in_lt. Qed.
Lemma gen_state_lt n : forall s, s < 512 -> gen_state s n < 512.
Proof. induction n as [|n IH]; intros s H; [exact H|]. cbn [gen_state]. apply IH. apply lfsr_lt. Qed.

Lemma gen_state_add a : forall b s, gen_state s (a + b) = gen_state (gen_state s a) b.
Proof. induction a as [|a IH]; intros b s; [reflexivity|]. cbn [Nat.add gen_state]. apply IH. Qed.
Lemma gen_bits_add a : forall b s, gen_bits s (a + b) = gen_bits s a ++ gen_bits (gen_state s a) b.
Proof. induction a as [|a IH]; intros b s; [reflexivity|]. cbn [Nat.add gen_state gen_bits app]. f_equal. apply IH. Qed.
Lemma gen_bits_length n : forall s, length (gen_bits s n) = n.
Proof. induction n as [|n IH]; intros s; [reflexivity|]. cbn [gen_bits length]. f_equal. apply IH. Qed.
Lemma gen_bits_snoc n s : gen_bits s (S n) = gen_bits s n ++ [taps (gen_state s n)].
Proof. replace (S n) with (n + 1)%nat by lia. rewrite gen_bits_add. reflexivity. Qed.
Lemma gen_state_S n s : gen_state s (S n) = lfsr (gen_state s n).
Proof. replace (S n) with (n + 1)%nat by lia. rewrite gen_state_add. reflexivity. Qed.
Lemma nth_gen_bits n : forall s k, (k < n)%nat -> nth k (gen_bits s n) false = gen_bit s k.
Proof. induction n as [|n IH]; intros s k H; [lia|]. destruct k; [reflexivity|]. cbn [gen_bits nth]. rewrite IH by lia. reflexivity. Qed.
Lemma nth_gen_orbit n : forall s k, (k < n)%nat -> nth k (gen_orbit s n) 0 = gen_state s k.
Proof. induction n as [|n IH]; intros s k H; [lia|]. destruct k; [reflexivity|]. cbn [gen_orbit nth gen_state]. apply IH. lia. Qed.

Lemma gen_orbit_length n : forall s, length (gen_orbit s n) = n.
Proof. induction n as [|n IH]; intros s; [reflexivity|]. cbn [gen_orbit length]. f_equal. apply IH. Qed.

(** * sweeps *)
Lemma period_sweep : below 9 (fun s => (s =? 0) || (gen_state s 511 =? s)) = true.
Proof. vm_cast_no_check (eq_refl true). Qed.
Lemma min_period_sweep : forallb (fun k => negb (gen_state 1 k =? 1)) (seq 1 510) = true.
Proof. vm_cast_no_check (eq_refl true). Qed.
Lemma visited_sweep : below 9 (fun s => (s =? 0) || existsb (N.eqb s) (gen_orbit 1 511)) = true.
Proof. vm_cast_no_check (eq_refl true). Qed.
Lemma ones_sweep : below 9 (fun s => (s =? 0) || Nat.eqb (count_true (gen_bits s 511)) 256) = true.
Proof. vm_cast_no_check (eq_refl true). Qed.
Lemma nine_sweep : below 9 (fun s => gen_state s 9 =? bits_N (gen_bits s 9)) = true.
Proof. vm_cast_no_check (eq_refl true). Qed.
Lemma bit_period_sweep :
  forallb (fun p => existsb (fun n => negb (eqb (nth (n + p) (gen_bits 1 520) false) (nth n (gen_bits 1 520) false))) (seq 0 9)) (seq 1 510) = true.
Proof. vm_cast_no_check (eq_refl true). Qed.
Lemma spec_step_sweep :
  all_lists 9 (fun w => eqb (taps (bits_N w)) (spec_next w)
                        && (shift_in (bits_N w) false =? bits_N (tl w ++ [false]))
                        && (shift_in (bits_N w) true =? bits_N (tl w ++ [true]))) = true.
Proof. vm_cast_no_check (eq_refl true). Qed.
Lemma zero_fixed : lfsr 0 = 0 /\ taps 0 = false. Proof. split; reflexivity. Qed.

Global Opaque taps shift_in.

Lemma pow9 : 2 ^ N.of_nat 9 = 512. Proof. reflexivity. Qed.

(** * the property-level statements *)
Lemma period_511_lemma :
  (forall s, 0 < s < 512 -> gen_state s 511 = s) /\
  (forall k, (0 < k < 511)%nat -> gen_state 1 k <> 1) /\
  (forall s n, 0 < s < 512 -> gen_bit s (n + 511) = gen_bit s n) /\
  (forall p, (0 < p < 511)%nat -> exists n, gen_bit 1 (n + p) <> gen_bit 1 n).
Proof. assert (P : forall s, 0 < s < 512 -> gen_state s 511 = s).
  { intros s H. pose proof (below_spec 9 _ period_sweep s ltac:(rewrite pow9; lia)) as K. cbv beta in K.
    apply orb_true_iff in K. destruct K as [K|K]; apply N.eqb_eq in K; [lia|exact K]. }
  split; [exact P|]. split; [|split].
- intros k Hk E. pose proof (proj1 (forallb_forall _ _) min_period_sweep k ltac:(apply in_seq; lia)) as K. cbv beta in K.
  rewrite E in K. discriminate.
- intros s n H. unfold gen_bit. rewrite Nat.add_comm, gen_state_add, (P s H). reflexivity.
- intros p Hp. pose proof (proj1 (forallb_forall _ _) bit_period_sweep p ltac:(apply in_seq; lia)) as K. cbv beta in K.
  apply existsb_exists in K. destruct K as [n [Hin K]]. apply in_seq in Hin. exists n.
  rewrite !nth_gen_bits in K by lia. intros E. rewrite E in K. rewrite eqb_reflx in K. discriminate. Qed.

Lemma ones_256_lemma : forall s, 0 < s < 512 -> count_true (gen_bits s 511) = 256%nat.
Proof. intros s H. pose proof (below_spec 9 _ ones_sweep s ltac:(rewrite pow9; lia)) as K. cbv beta in K.
  apply orb_true_iff in K. destruct K as [K|K]; [apply N.eqb_eq in K; lia | apply Nat.eqb_eq in K; exact K]. Qed.

Lemma all_nonzero_states_visited_lemma : forall s, 0 < s < 512 -> exists k, (k < 511)%nat /\ gen_state 1 k = s.
Proof. intros s H. pose proof (below_spec 9 _ visited_sweep s ltac:(rewrite pow9; lia)) as K. cbv beta in K.
  apply orb_true_iff in K. destruct K as [K|K]; [apply N.eqb_eq in K; lia|].
  apply existsb_exists in K. destruct K as [x [I E]]. apply N.eqb_eq in E. subst x.
  destruct (In_nth _ _ 0 I) as [k [Hk Hn]].
  rewrite gen_orbit_length in Hk. exists k. split; [exact Hk|]. rewrite <- (nth_gen_orbit 511 1 k Hk). exact Hn. Qed.

Lemma lastn_app_exact {A} (a b : list A) n : length b = n -> lastn n (a ++ b) = b.
Proof. intros H. unfold lastn. rewrite app_length, H. replace (length a + n - n)%nat with (length a) by lia.
  rewrite skipn_app, skipn_all, Nat.sub_diag. reflexivity. Qed.

Lemma state_is_last_nine_outputs_lemma : forall s n, s < 512 -> (9 <= n)%nat ->
  gen_state s n = bits_N (lastn 9 (gen_bits s n)).
Proof. intros s n Hs Hn. replace n with ((n - 9) + 9)%nat by lia.
  rewrite gen_state_add, gen_bits_add, lastn_app_exact by apply gen_bits_length.
  pose proof (below_spec 9 _ nine_sweep (gen_state s (n - 9)) ltac:(rewrite pow9; apply gen_state_lt; exact Hs)) as K.
  cbv beta in K. apply N.eqb_eq in K. exact K. Qed.

Lemma generator_is_spec_lemma : forall n w, length w = 9%nat -> gen_bits (bits_N w) n = spec_seq w n.
Proof. induction n as [|n IH]; intros w L; [reflexivity|].
  pose proof (all_lists_spec 9 _ spec_step_sweep w L) as K. cbv beta in K.
  apply andb_prop in K. destruct K as [K K3]. apply andb_prop in K. destruct K as [K1 K2].
  apply eqb_prop in K1. apply N.eqb_eq in K2. apply N.eqb_eq in K3.
  cbn [gen_bits spec_seq]. rewrite K1. f_equal. unfold lfsr. rewrite K1.
  assert (E : shift_in (bits_N w) (spec_next w) = bits_N (tl w ++ [spec_next w])) by (destruct (spec_next w); assumption).
  rewrite E. apply IH. rewrite app_length. destruct w; [discriminate|]. cbn [tl length] in *. lia. Qed.

Lemma m17_start_is_reset : bits_N m17_start = ConstsPrbs.prbs_reset_state /\ bits_N m17_start = ConstsPrbs.prbs_state_init.
Proof. split; reflexivity. Qed.
