(** Extraction of the interleaver / randomizer models for the correspondence check: ExtrOcamlBasic only. *)
Require Extraction.
Require Import ExtrOcamlBasic.
From Coq Require Import NArith ZArith List.
From M17 Require Import Bits ImplUtilBits ConstsInterleave ConstsRandomizer ImplInterleave ImplRandom SpecInterleave SpecRandom.

(* the template at the arguments of site k (0 = header defaults, 1 = decoder, 2 = modulator, 3.. = m17-mod.cpp) *)
Definition c10_site (k : nat) : N * N * N := il_site k.
Definition c10_nsites : nat := S (length il_sites).
Definition c10_interleave (k : nat) (l : list Z) : list Z :=
  let '(f1, f2, kk) := il_site k in interleave_of f1 f2 kk 0%Z l.
Definition c10_deinterleave (k : nat) (l : list Z) : list Z :=
  let '(f1, f2, kk) := il_site k in deinterleave_of f1 f2 kk 0%Z l.
Definition c10_interleave_bytes (k : nat) (l : list N) : list N :=
  let '(f1, f2, kk) := il_site k in interleave_bytes_of f1 f2 kk l.
Definition c10_deinterleave_bytes (k : nat) (l : list N) : list N :=
  let '(f1, f2, kk) := il_site k in deinterleave_bytes_of f1 f2 kk l.
Definition c10_derandomize_soft := derandomize_soft.
Definition c10_randomize_int8 := randomize_int8.
Definition c10_randomize_bits := randomize_bits.
Definition c10_randomize_bytes := randomize_bytes.
Definition c10_dc_soft := dc_soft.
(* specification side, for the oracle *)
Definition c10_spec_pi_table := pi_table.
Definition c10_spec_dc := dc_spec.
Extraction "c10_model.ml" c10_site c10_nsites c10_interleave c10_deinterleave c10_interleave_bytes c10_deinterleave_bytes
  c10_derandomize_soft c10_randomize_int8 c10_randomize_bits c10_randomize_bytes c10_dc_soft c10_spec_pi_table c10_spec_dc.
