(** C13, part B: puncture (Util.h) with the matrices of Trellis.h, PolynomialInterleaver::interleave and
    M17Randomizer::randomize are the specification's puncturing, interleaver and randomizer. *)
From Coq Require Import NArith ZArith List Bool Lia Arith.
From M17 Require Import Bits SpecM17 ImplMod ConstsMod.
Import ListNotations.

(** ** list facts *)
Lemma set_nth_length {A} (x : A) l : forall i, length (set_nth i x l) = length l.
Proof. induction l as [|y l IH]; intros [|i]; cbn; try reflexivity. rewrite IH. reflexivity. Qed.

Lemma set_nth_map {A B} (g : A -> B) x l : forall i, map g (set_nth i x l) = set_nth i (g x) (map g l).
Proof. induction l as [|y l IH]; intros [|i]; cbn; try reflexivity. rewrite IH. reflexivity. Qed.

Lemma map_repeat {A B} (g : A -> B) x n : map g (repeat x n) = repeat (g x) n.
Proof. induction n; cbn; [reflexivity | rewrite IHn; reflexivity]. Qed.

Lemma list_as_nth_map {A} (d : A) (l : list A) : l = map (fun i => nth i l d) (seq 0 (length l)).
Proof. induction l as [|x l IH]; [reflexivity|].
  cbn [length seq map nth]. f_equal. rewrite <- seq_shift, map_map. exact IH. Qed.

(** ** puncture matrices *)
Lemma matrices_ok : make_p1 = P1 /\ p2_matrix = P2 /\ p3_matrix = P3 /\
  puncture_matrix lsf_puncture_matrix = P1 /\ puncture_matrix stream_puncture_matrix = P2 /\
  puncture_matrix bert_puncture_matrix = P2.
Proof. repeat split; reflexivity. Qed.

(** ** puncture *)
Section Punct.
Context {A : Type}.
Variables (OUT : nat) (p : list bool).
Hypothesis Hp : (0 < length p)%nat.

(* generic version of SpecM17.puncture_from (which is on bool) *)
Fixpoint punct_from (i : nat) (l : list A) : list A :=
  match l with
  | [] => []
  | b :: r => (if nth (i mod length p) p true then [b] else []) ++ punct_from (S i) r
  end.

Lemma mod_succ i : (S i) mod length p = if Nat.eqb (S (i mod length p)) (length p) then 0%nat else S (i mod length p).
Proof. set (P := length p) in *. assert (HP : P <> 0%nat) by lia.
  pose proof (Nat.div_mod i P HP) as D. pose proof (Nat.mod_upper_bound i P HP) as U.
  destruct (Nat.eqb (S (i mod P)) P) eqn:E.
  - apply Nat.eqb_eq in E. symmetry. apply Nat.mod_unique with (S (i / P)); lia.
  - apply Nat.eqb_neq in E. symmetry. apply Nat.mod_unique with (i / P); lia. Qed.

Lemma punct_stuck (l : list A) : forall pidx (acc : list A), length acc = OUT ->
  snd (fold_left (puncture_step OUT p) l (pidx, acc)) = acc.
Proof. induction l as [|x l IH]; intros pidx acc H; [reflexivity|].
  cbn [fold_left]. unfold puncture_step at 2. rewrite H, Nat.eqb_refl. apply IH. exact H. Qed.

Lemma punct_fold (l : list A) : forall i (acc : list A), (length acc <= OUT)%nat ->
  snd (fold_left (puncture_step OUT p) l (i mod length p, acc)) = firstn OUT (acc ++ punct_from i l).
Proof. induction l as [|x l IH]; intros i acc H.
- cbn. rewrite app_nil_r. symmetry. apply firstn_all2. exact H.
- destruct (Nat.eqb (length acc) OUT) eqn:E.
  + apply Nat.eqb_eq in E. rewrite punct_stuck by exact E.
    rewrite firstn_app. replace (OUT - length acc)%nat with 0%nat by lia. cbn [firstn]. rewrite app_nil_r.
    symmetry. apply firstn_all2. lia.
  + cbn [fold_left]. unfold puncture_step at 2. rewrite E. rewrite <- mod_succ.
    apply Nat.eqb_neq in E. cbn [punct_from].
    assert (Hi : (i mod length p < length p)%nat) by (apply Nat.mod_upper_bound; lia).
    rewrite (nth_indep p false true Hi).
    destruct (nth (i mod length p) p true).
    * rewrite IH by (rewrite app_length; cbn; lia). rewrite <- app_assoc. reflexivity.
    * rewrite IH by lia. reflexivity. Qed.
End Punct.

Lemma punct_from_bool p i l : punct_from p i l = puncture_from p i l.
Proof. revert i; induction l as [|b r IH]; intros i; [reflexivity|]. cbn. rewrite IH. reflexivity. Qed.

(** number of kept bits: depends on the length only *)
Fixpoint kept (p : list bool) (i n : nat) : nat :=
  match n with
  | O => O
  | S n' => ((if nth (i mod length p) p true then 1 else 0) + kept p (S i) n')%nat
  end.
Lemma puncture_from_length p l : forall i, length (puncture_from p i l) = kept p i (length l).
Proof. induction l as [|b r IH]; intros i; [reflexivity|]. cbn [puncture_from length kept].
  rewrite app_length, IH. destruct (nth (i mod length p) p true); reflexivity. Qed.

Lemma kept_values : kept P1 0 488 = 368%nat /\ kept P2 0 296 = 272%nat /\ kept P2 0 402 = 369%nat /\ kept P3 0 420 = 368%nat.
Proof. repeat split; vm_compute; reflexivity. Qed.

(** puncture(in, out, p) with |in| = IN: the first OUT kept bits, then whatever `out` held *)
Lemma puncture_ok (IN OUT : nat) (inp out0 p : list bool) : (0 < length p)%nat -> length inp = IN ->
  puncture IN OUT inp out0 p =
  let w := firstn OUT (spec_puncture p inp) in w ++ skipn (length w) (firstn OUT out0).
Proof. intros Hp Hl. unfold puncture. rewrite firstn_all2 by lia.
  pose proof (punct_fold OUT p Hp inp 0 [] ltac:(cbn; lia)) as F.
  rewrite Nat.mod_0_l in F by lia. rewrite F. cbn [app]. rewrite punct_from_bool. reflexivity.
Qed.

Lemma puncture_exact (IN OUT : nat) (inp out0 p : list bool) : (0 < length p)%nat -> length inp = IN ->
  kept p 0 IN = OUT -> puncture IN OUT inp out0 p = spec_puncture p inp.
Proof. intros Hp Hl Hk. rewrite puncture_ok by assumption. cbv zeta.
  assert (L : length (spec_puncture p inp) = OUT) by (unfold spec_puncture; rewrite puncture_from_length, Hl; exact Hk).
  rewrite firstn_all2 by lia. rewrite L.
  rewrite skipn_all2 by (rewrite firstn_length; lia). apply app_nil_r. Qed.

Lemma puncture_truncating (IN OUT : nat) (inp out0 p : list bool) : (0 < length p)%nat -> length inp = IN ->
  (OUT <= kept p 0 IN)%nat -> puncture IN OUT inp out0 p = firstn OUT (spec_puncture p inp).
Proof. intros Hp Hl Hk. rewrite puncture_ok by assumption. cbv zeta.
  assert (L : length (spec_puncture p inp) = kept p 0 IN) by (unfold spec_puncture; rewrite puncture_from_length, Hl; reflexivity).
  rewrite firstn_length, L. replace (Nat.min OUT (kept p 0 IN)) with OUT by lia.
  rewrite skipn_all2 by (rewrite firstn_length; lia). apply app_nil_r. Qed.

(** ** interleaver *)
Lemma interleaver_consts_ok : il_f1 = 45%N /\ il_f2 = 92%N /\ il_k = 368%nat /\ rnd_n = 368%nat /\ rnd_dc = dc_bytes.
Proof. repeat split; reflexivity. Qed.

Lemma interleave_map {A B} (g : A -> B) (z : A) (data : list A) :
  map g (interleave z data) = interleave (g z) (map g data).
Proof. unfold interleave. rewrite <- (map_repeat g z il_k).
  generalize (repeat z il_k) as buf. generalize (seq 0 il_k) as l.
  induction l as [|i l IH]; intros buf; [reflexivity|].
  cbn [fold_left]. rewrite IH, set_nth_map. rewrite <- (map_nth g data z i). reflexivity. Qed.

(** the routing, computed once on the index list *)
Lemma interleave_routing : interleave 368%nat (seq 0 368) = pi_inverse_table.
Proof. vm_compute. reflexivity. Qed.

Lemma interleave_ok (data : list bool) : length data = 368%nat -> interleave false data = spec_interleave data.
Proof. intros H. unfold spec_interleave. rewrite <- interleave_routing.
  rewrite (interleave_map (fun i => nth i data false) 368%nat (seq 0 368)).
  rewrite nth_overflow by lia. f_equal. pose proof (list_as_nth_map false data) as E. rewrite H in E. exact E. Qed.

Lemma interleave_length {A} (z : A) data : length (interleave z data) = il_k.
Proof. unfold interleave. generalize (seq 0 il_k) as l.
  assert (H : length (repeat z il_k) = il_k) by apply repeat_length. revert H. generalize (repeat z il_k) as buf.
  intros buf H l. revert buf H. induction l as [|i l IH]; intros buf H; [exact H|].
  cbn [fold_left]. apply IH. rewrite set_nth_length. exact H. Qed.

(** ** randomizer *)
Lemma xor_bits_nth a : forall b n, length a = n -> length b = n ->
  xor_bits a b = map (fun i => xorb (nth i a false) (nth i b false)) (seq 0 n).
Proof. induction a as [|x a IH]; intros [|y b] n Ha Hb; subst n; try discriminate; [reflexivity|].
  cbn [length seq map nth]. unfold xor_bits in *. cbn [combine map fst snd]. f_equal.
  rewrite <- seq_shift, map_map. apply IH; [reflexivity | cbn in Hb; lia]. Qed.

Lemma dc_sign_bits : map (fun i => Z.eqb (nth i randomizer_dc 0%Z) (-1)) (seq 0 368) = bytes_bits dc_bytes.
Proof. vm_compute. reflexivity. Qed.

Lemma randomize_ok (frame : list bool) : length frame = 368%nat -> randomize frame = spec_randomize frame.
Proof. intros H. unfold spec_randomize. rewrite (xor_bits_nth frame _ 368 H) by reflexivity.
  unfold randomize. change rnd_n with 368%nat. apply map_ext_in. intros i Hi. apply in_seq in Hi. f_equal.
  rewrite <- dc_sign_bits.
  set (g := fun i : nat => Z.eqb (nth i randomizer_dc 0%Z) (-1)).
  rewrite (nth_indep (map g (seq 0 368)) false (g 0%nat)) by (rewrite map_length, seq_length; lia).
  rewrite (map_nth g (seq 0 368) 0%nat i). rewrite seq_nth by lia. reflexivity. Qed.

Lemma randomize_length frame : length (randomize frame) = 368%nat.
Proof. unfold randomize. rewrite map_length, seq_length. reflexivity. Qed.

(** interleave then randomize = the specification's last two stages *)
Lemma finish_ok (frame : list bool) : length frame = 368%nat ->
  randomize (interleave false frame) = spec_finish frame.
Proof. intros H. unfold spec_finish. rewrite interleave_ok by exact H.
  apply randomize_ok. unfold spec_interleave. rewrite map_length. reflexivity. Qed.
