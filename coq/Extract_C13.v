(** Extraction of the m17-mod models and of the specification encoder for the correspondence check:
    ExtrOcamlBasic only (numbers stay Coq inductives). *)
Require Extraction.
Require Import ExtrOcamlBasic.
From Coq Require Import NArith ZArith List Bool.
From M17 Require Import Bits SpecCRC SpecM17 ImplMod ConstsMod.
Import ListNotations.

(** codec2 oracle for the runs: the table of (160 input samples, 8 output bytes) in call order, as computed by
    libcodec2 in the harness; a call with an input that is not the next one of the table yields 0xFF bytes *)
Definition zlist_eq (a b : list Z) : bool :=
  Nat.eqb (length a) (length b) && forallb (fun p => Z.eqb (fst p) (snd p)) (combine a b).
Definition table_codec (cs : list (list Z * list N)) (a : list Z) : list (list Z * list N) * list N :=
  match cs with
  | (i, o) :: r => (r, if zlist_eq i a then o else repeat 255%N 8)
  | [] => ([], repeat 255%N 8)
  end.
(** PRBS oracle: the bits generate() will return *)
Definition replay_gen (s : list bool) : list bool * bool :=
  match s with b :: r => (r, b) | [] => ([], false) end.

Definition c13_send_lsf (uninit : list bool) (can : N) (src dest : list N) := send_lsf uninit can src dest AUDIO.
Definition c13_make_data_frame := make_data_frame.
Definition c13_make_lich_segment := make_lich_segment.
Definition c13_send_audio_frame := send_audio_frame.
Definition c13_bert_iteration (uninit : list bool) (bits : list bool) := bert_iteration uninit (list bool) replay_gen bits.
Definition c13_calls (uninit : list bool) (audio0 : list Z) (table : list (list Z * list N)) (can : N) (src dest : list N) (samples : list Z) :=
  run_mod_calls uninit (list (list Z * list N)) table_codec audio0 table can src dest samples.
Definition c13_render_bitstream := render_bitstream.
Definition c13_render_baseband (invert : bool) := render_baseband mod_filter_per_instantiation invert.
Definition c13_int16_bytes := int16_bytes.
Definition c13_flag_per_instantiation := mod_filter_per_instantiation.
Definition c13_flag_audio_zero_init := mod_audio_zero_init.

(** specification side (the oracle's expected values) *)
Definition c13_spec_lsf := spec_lsf.
Definition c13_spec_lsf_frame := spec_lsf_frame.
Definition c13_spec_lich := spec_lich.
Definition c13_spec_stream_payload := spec_stream_payload.
Definition c13_spec_stream_frame := spec_stream_frame.
Definition c13_spec_bert_frame := spec_bert_frame.
Definition c13_spec_packet_frame := spec_packet_frame.
Definition c13_spec_bitstream := spec_bitstream.
Definition c13_spec_symbols := spec_symbols.
Definition c13_spec_baseband (invert : bool) (symbols : list Z) :=
  spec_baseband rrc_taps_num rrc_den_log2 10 (if invert then (-7168)%Z else 7168%Z) symbols.
Definition c13_bits_bytes := bits_bytes.
Definition c13_bytes_symbols := bytes_symbols.

Extraction "c13_model.ml"
  c13_bytes_symbols c13_send_lsf c13_make_data_frame c13_make_lich_segment c13_send_audio_frame c13_bert_iteration
  c13_calls c13_render_bitstream c13_render_baseband c13_int16_bytes
  c13_flag_per_instantiation c13_flag_audio_zero_init
  c13_spec_lsf c13_spec_lsf_frame c13_spec_lich c13_spec_stream_payload c13_spec_stream_frame
  c13_spec_bert_frame c13_spec_packet_frame c13_spec_bitstream c13_spec_symbols c13_spec_baseband c13_bits_bytes.
