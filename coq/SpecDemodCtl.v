(** What the C03/C06 theorems assume about the observations, and the state predicates they speak about.
    Everything here is a decidable (boolean) predicate so that the extracted checker can also evaluate the
    hypotheses on traces of the real demodulator (evidence that they are satisfiable in actual reception).
    No proofs in this file. *)
From Coq Require Import ZArith Bool List.
From M17 Require Import ConstsDemod ImplDemodCtl.
Import ListNotations.
Local Open Scope Z_scope.

(** index (0..9) that the correlator will report for the NEXT sample *)
Definition next_index (s : st) : Z := s.(cpos) mod CORR_SPS.

(** well-formed discrete state: the ranges that every reachable state satisfies (proved inductive) *)
Definition wf_st (s : st) : bool :=
  (0 <=? s.(init_left)) && (0 <=? s.(count)) &&
  (0 <=? s.(sample_index)) && (s.(sample_index) <? SAMPLES_PER_SYMBOL) &&
  (0 <=? s.(ssi)) && (s.(ssi) <? SAMPLES_PER_SYMBOL) &&
  (0 <=? s.(cpos)) && (s.(cpos) <? CORR_BUFFER) &&
  (0 <=? s.(sync_count)) && (0 <=? s.(missing)) &&
  (0 <=? s.(fidx)) && (s.(fidx) <? FRAMER_BITS) && (s.(fidx) mod 2 =? 0).

(** observations whose float-derived indices are in range (what ClockRecovery's wrap logic and
    SyncWord::find_peak deliver for non-NaN arithmetic) *)
Definition obs_in_range (o : obs) : bool :=
  (0 <=? o.(o_pre_idx)) && (o.(o_pre_idx) <? SAMPLES_PER_SYMBOL) &&
  (0 <=? o.(o_lsf_idx)) && (o.(o_lsf_idx) <? SAMPLES_PER_SYMBOL) &&
  (0 <=? o.(o_pkt_idx)) && (o.(o_pkt_idx) <? SAMPLES_PER_SYMBOL) &&
  (0 <=? o.(o_cr_free)) && (o.(o_cr_free) <? SAMPLES_PER_SYMBOL).

(** the carrier detector sees the carrier at every poll of this sample (level_ above both thresholds) *)
Definition obs_carrier (o : obs) : bool := o.(o_lvl_hi) && o.(o_lvl_lo).

(** the next sample is the "far point" of do_frame (free-running clock update) *)
Definition far_next (s : st) : bool :=
  match s.(ds) with
  | FRAME => Z.abs (s.(sample_index) - next_index s) =? FAR_POINT
  | _ => false
  end.

(** the free-running clock moves the sampling index by at most one position (circularly), and not on two
    consecutive samples ([pf] = the previous sample already was a far-point update) *)
Definition clock_step_ok (pf : bool) (s : st) (o : obs) : bool :=
  let d := (o.(o_cr_free) - s.(sample_index)) mod SAMPLES_PER_SYMBOL in
  (0 <=? o.(o_cr_free)) && (o.(o_cr_free) <? SAMPLES_PER_SYMBOL) &&
  (if pf then d =? 0 else (d =? 0) || (d =? 1) || (d =? SAMPLES_PER_SYMBOL - 1)).

(** frame boundary in steady stream reception: the last payload symbol of a frame has just been sampled and decoded *)
Definition boundary (s : st) : bool :=
  (s.(init_left) =? 0) && s.(dcd_) && s.(dcd_trig) && negb s.(ncr) &&
  (match s.(ds) with STREAM_SYNC => true | _ => false end) &&
  (s.(sync_count) =? 0) && (s.(fidx) =? 0) &&
  (0 <=? s.(missing)) && (s.(missing) <=? 1) &&
  (0 <=? s.(sample_index)) && (s.(sample_index) <? SAMPLES_PER_SYMBOL) &&
  (0 <=? s.(cpos)) && (s.(cpos) <? CORR_BUFFER) &&
  ((s.(cpos) - 1 - s.(sample_index)) mod SAMPLES_PER_SYMBOL =? 0).

(** C03's hypothesis on the observation of one sample, given the state before the sample:
    - the carrier detector keeps seeing the carrier;
    - inside the search window no EOT marker is reported, and when the window closes (sync_count would exceed
      MAX_SYNC_COUNT) EITHER the stream sync word is reported now OR the previous Viterbi cost is below the coasting limit;
    - a free-running clock update moves the sampling index by at most one, not twice in a row;
    - the frame decoder stays in stream reception (state STREAM, or LSF while the LSF is still being re-assembled). *)
Definition track_good (pf : bool) (s : st) (o : obs) : bool :=
  o.(o_lvl_lo) &&
  match s.(ds) with
  | STREAM_SYNC =>
      let j := s.(sync_count) + 1 in
      if j <? MIN_SYNC_COUNT then true
      else negb o.(o_eot_trig) &&
           (if MAX_SYNC_COUNT <? j then (o.(o_lsf_upd) <? 0) || (s.(cost) <? STREAM_COST_LIMIT) else true)
  | FRAME =>
      (if far_next s then clock_step_ok pf s o else true) &&
      (match o.(o_dec_state) with D_STREAM | D_LSF => true | _ => false end)
  | _ => true
  end.

(** a run satisfies the tracking hypothesis *)
Fixpoint track_good_run (pf : bool) (s : st) (os : list obs) : Prop :=
  match os with
  | [] => True
  | o :: os' => track_good pf s o = true /\ track_good_run (far_next s) (fst (step s o)) os'
  end.

(** the states after each sample of a run *)
Fixpoint states (s : st) (os : list obs) : list st :=
  match os with
  | [] => []
  | o :: os' => let s1 := fst (step s o) in s1 :: states s1 os'
  end.

(** the monitor state stays within its bounds: the next symbol is never overdue *)
Definition mon_bounded (m : mon) : Prop :=
  (0 <= m.(m_n) /\ m.(m_n) < PAYLOAD_SYMBOLS) /\ 
  (m.(m_n) = 0 -> (0 <= m.(m_t) /\ m.(m_t) < (SYNC_SYMBOLS + 1) * SAMPLES_PER_SYMBOL)) /\ 
  (0 < m.(m_n) -> (0 <= m.(m_t) - m.(m_last) /\ m.(m_t) - m.(m_last) <= SAMPLES_PER_SYMBOL)).

(** C06: hypothesis of the liveness theorem on one sample: carrier present, indices in range, fair clock *)
Definition live_good (pf : bool) (s : st) (o : obs) : bool :=
  obs_carrier o && obs_in_range o &&
  (if far_next s then clock_step_ok pf s o else true).

Fixpoint live_good_run (pf : bool) (s : st) (os : list obs) : Prop :=
  match os with
  | [] => True
  | o :: os' => live_good pf s o = true /\ live_good_run (far_next s) (fst (step s o)) os'
  end.

(** the receiver is listening for a frame sync word: carrier detected, and either the unlocked search over
    LSF/STREAM/BERT sync words runs on every sample, or the LSF_SYNC state tests them at every symbol *)
Definition listening (s : st) : bool :=
  (s.(init_left) =? 0) && s.(dcd_) && s.(dcd_trig) &&
  match s.(ds) with
  | UNLOCKED => PREAMBLE_PHASE <=? s.(missing)
  | LSF_SYNC => true
  | _ => false
  end.

(** the observation of this sample is a frame-sync detection that the listening state [s] acts upon *)
Definition detection (s : st) (o : obs) : bool :=
  match s.(ds) with
  | UNLOCKED => negb (o.(o_lsf_upd) =? 0) || (o.(o_pkt_upd) <? 0)
  | LSF_SYNC => (next_index s =? (if (next_index s =? 0) && s.(ncr) then s.(ssi) else s.(sample_index))) &&
                negb o.(o_pre_trig) &&
                (o.(o_bert_neg) || negb (o.(o_lsf_trig) =? 0))
  | _ => false
  end.

Definition any_decode (evs : list (list event)) : bool :=
  existsb (fun ev => match decodes ev with [] => false | _ => true end) evs.
