(** C18, part E: what happens after a false lock.  Record-level GF(2)-linearity (a validator fed phase g with error
    pattern es behaves as the validator with register xor g fed es against the all-zero sequence), independence of the
    control flow from the two uint32 counters, a sweep over the 511 non-zero register differences (the free-running
    mismatch makes 25 window errors within 70 bits: unlock), and the composition: from EVERY unsynced state the
    validator is truly locked within 27 + 70 + 27 bits, having counted either 0 or exactly 25 spurious errors. *)
From Coq Require Import NArith ZArith List Bool Arith Lia ZifyBool ZifyNat ZifyN.
From M17 Require Import Bits ConstsPrbs ImplPRBS SpecPRBS LemmasPRBS_A LemmasPRBS_B LemmasPRBS_C LemmasPRBS_D.
Import ListNotations.
Local Open Scope N_scope.

Lemma set_state_id w : set_state w (state w) = w.
Proof. destruct w; reflexivity. Qed.
Lemma count_errors_set_state v s e : prbs_count_errors (set_state v s) e = set_state (prbs_count_errors v e) s.
Proof. unfold prbs_count_errors, set_state. cbn [state synced sync_count bit_count err_count history hist_count hist_pos].
  destruct e; reflexivity. Qed.
Lemma lxor_cancel a b : N.lxor (N.lxor a b) b = a.
Proof. rewrite N.lxor_assoc, N.lxor_nilpotent, N.lxor_0_r. reflexivity. Qed.

Lemma sync_step_lin_e r g c e : r < 512 -> g < 512 ->
  sync_step (N.lxor r g) c e =
  (let '(r', c', lk) := sync_step r c (xorb (taps g) e) in (N.lxor r' (lfsr g), c', lk)).
Proof. intros Hr Hg. unfold sync_step. rewrite (taps_lin r g Hr Hg).
  assert (E : shift_in (N.lxor r g) e = N.lxor (shift_in r (xorb (taps g) e)) (lfsr g)).
  { unfold lfsr. rewrite (shift_lin r g _ _ Hr Hg). f_equal. destruct (taps g), e; reflexivity. }
  rewrite E.
  replace (xorb (xorb (taps g) e) (taps r)) with (xorb e (xorb (taps r) (taps g))) by (destruct (taps g), e, (taps r); reflexivity).
  destruct (xorb e (xorb (taps r) (taps g))); [reflexivity|].
  destruct (w_sync (c + 1) =? ConstsPrbs.prbs_LOCK_COUNT); reflexivity. Qed.

Lemma validate_linear v g e : state v < 512 -> g < 512 ->
  prbs_validate v (xorb (taps g) e) =
  (let (w, r) := prbs_validate (set_state v (N.lxor (state v) g)) e in (set_state w (N.lxor (state w) (lfsr g)), r)).
Proof. intros Hv Hg. destruct (synced v) eqn:S.
- (* synced: free-running register *)
  unfold prbs_validate.
  replace (synced (set_state v (N.lxor (state v) g))) with true by (symmetry; exact S). rewrite S. cbn [negb].
  unfold prbs_generate. cbn [set_state state synced sync_count bit_count err_count history hist_count hist_pos]. rewrite S.
  fold (lfsr (state v)). fold (lfsr (N.lxor (state v) g)).
  rewrite (taps_lin _ _ Hv Hg), (lfsr_lin _ _ Hv Hg).
  replace (xorb (xorb (taps g) e) (taps (state v))) with (xorb e (xorb (taps (state v)) (taps g)))
    by (destruct (taps g), e, (taps (state v)); reflexivity).
  set (res := xorb e _).
  change (mkPRBS (N.lxor (lfsr (state v)) (lfsr g)) true (sync_count v) (bit_count v) (err_count v) (history v) (hist_count v) (hist_pos v))
    with (set_state (mkPRBS (lfsr (state v)) true (sync_count v) (bit_count v) (err_count v) (history v) (hist_count v) (hist_pos v))
                    (N.lxor (lfsr (state v)) (lfsr g))).
  rewrite count_errors_set_state. f_equal.
  set (w := prbs_count_errors _ res).
  assert (Sw : state w = lfsr (state v)) by (unfold w, prbs_count_errors; destruct res; reflexivity).
  cbn [set_state state]. rewrite lxor_cancel.
  rewrite <- Sw. unfold set_state. destruct w; reflexivity.
- rewrite (validate_unsynced v _ S).
  rewrite (validate_unsynced (set_state v (N.lxor (state v) g)) e S).
  cbn [set_state state sync_count bit_count err_count history hist_count hist_pos].
  rewrite (sync_step_lin_e _ _ _ _ Hv Hg), (taps_lin _ _ Hv Hg).
  destruct (sync_step (state v) (sync_count v) (xorb (taps g) e)) as [[r' c'] lk].
  replace (xorb (xorb (taps g) e) (taps (state v))) with (xorb e (xorb (taps (state v)) (taps g)))
    by (destruct (taps g), e, (taps (state v)); reflexivity).
  f_equal. destruct lk; unfold locked_at, set_state; cbn [state synced sync_count bit_count err_count history hist_count hist_pos];
    rewrite lxor_cancel; reflexivity. Qed.

Lemma run_linear : forall es v g, state v < 512 -> g < 512 ->
  run v (xor_bits (gen_bits g (length es)) es) =
  (let w := run (set_state v (N.lxor (state v) g)) es in set_state w (N.lxor (state w) (gen_state g (length es)))).
Proof. induction es as [|e es IH]; intros v g Hv Hg.
- cbn [length gen_bits gen_state xor_bits combine map run fold_left]. cbv zeta. cbn [set_state state]. rewrite lxor_cancel.
  destruct v; reflexivity.
- cbn [length gen_bits gen_state]. unfold xor_bits. cbn [combine map fst snd]. fold (xor_bits (gen_bits (lfsr g) (length es)) es).
  rewrite !run_cons. rewrite (validate_linear v g e Hv Hg).
  destruct (prbs_validate (set_state v (N.lxor (state v) g)) e) as [w r] eqn:E. cbn [fst].
  assert (Hw : state w < 512) by (pose proof (validate_state_lt (set_state v (N.lxor (state v) g)) e) as K; rewrite E in K; exact K).
  rewrite IH by (cbn [set_state state]; try apply lxor_lt_512; try apply lfsr_lt; assumption).
  cbv zeta. cbn [set_state state]. rewrite lxor_cancel.
  replace (set_state (set_state w (N.lxor (state w) (lfsr g))) (state w)) with w by (destruct w; reflexivity).
  reflexivity. Qed.

(** * the uint32 counters never influence anything else *)
Definition add_counts (v : prbs) (a b : N) : prbs :=
  mkPRBS (state v) (synced v) (sync_count v) (w_bits (bit_count v + a)) (w_errs (err_count v + b))
         (history v) (hist_count v) (hist_pos v).

Lemma w_bits_comm x a c : w_bits (w_bits (x + a) + c) = w_bits (w_bits (x + c) + a).
Proof. rewrite !w_bits_add. f_equal. lia. Qed.
Lemma w_errs_comm x a c : w_errs (w_errs (x + a) + c) = w_errs (w_errs (x + c) + a).
Proof. rewrite !w_errs_add. f_equal. lia. Qed.

Lemma validate_counts v e a b :
  prbs_validate (add_counts v a b) e = (let (w, r) := prbs_validate v e in (add_counts w a b, r)).
Proof. unfold prbs_validate, prbs_synchronize, prbs_generate, prbs_count_errors, add_counts.
  cbn [state synced sync_count bit_count err_count history hist_count hist_pos].
  destruct (synced v); cbn [negb].
  - destruct (xorb e (taps (state v))); cbn [state synced sync_count bit_count err_count history hist_count hist_pos];
      rewrite ?(w_bits_comm (bit_count v) a 1), ?(w_errs_comm (err_count v) b 1); reflexivity.
  - destruct (xorb e (taps (state v))); [reflexivity|].
    destruct (w_sync (sync_count v + 1) =? ConstsPrbs.prbs_LOCK_COUNT);
      cbn [state synced sync_count bit_count err_count history hist_count hist_pos];
      rewrite ?(w_bits_comm (bit_count v) a ConstsPrbs.prbs_LOCK_COUNT); reflexivity. Qed.

Lemma run_counts : forall es v a b, run (add_counts v a b) es = add_counts (run v es) a b.
Proof. induction es as [|e es IH]; intros v a b; [reflexivity|]. rewrite !run_cons, validate_counts.
  destruct (prbs_validate v e) as [w r]. cbn [fst]. apply IH. Qed.

Definition zero_counts (v : prbs) : prbs :=
  mkPRBS (state v) (synced v) (sync_count v) 0 0 (history v) (hist_count v) (hist_pos v).
Lemma add_zero_counts v : counters_wf v -> add_counts (zero_counts v) (bit_count v) (err_count v) = v.
Proof. intros [A B]. unfold add_counts, zero_counts, w_bits, w_errs, wrap.
  cbn [state synced sync_count bit_count err_count history hist_count hist_pos].
  change ConstsPrbs.prbs_bit_count_bits with 32. change ConstsPrbs.prbs_err_count_bits with 32.
  rewrite !N.add_0_l, !N.mod_small by assumption. destruct v; reflexivity. Qed.

(** * a register mismatch d <> 0 on a just-locked validator: unlock within 70 bits, exactly 25 errors counted *)
Definition just_locked (d : N) : prbs := mkPRBS d true 0 0 0 zero_history 0 0.

Fixpoint first_unlock (n : nat) (v : prbs) : option (nat * prbs) :=
  match n with
  | O => None
  | S n' => let w := fst (prbs_validate v false) in
            if synced w then match first_unlock n' w with Some (t, u) => Some (S t, u) | None => None end
            else Some (1%nat, w)
  end.

Definition unlock_ok (d : N) : bool :=
  (d =? 0) ||
  match first_unlock 70 (just_locked d) with
  | Some (t, u) => Nat.leb t 70 && negb (synced u) && (sync_count u =? 0) && (err_count u =? 25) && (bit_count u =? N.of_nat t)
                   && (state u <? 512)
  | None => false
  end.
Lemma unlock_sweep : below 9 unlock_ok = true.
Proof. vm_cast_no_check (eq_refl true). Qed.

Lemma first_unlock_run : forall n v t u, first_unlock n v = Some (t, u) ->
  run v (repeat false t) = u /\ (1 <= t)%nat /\ forall m, (1 <= m < t)%nat -> synced (run v (repeat false m)) = true.
Proof. induction n as [|n IH]; intros v t u H; [discriminate|]. cbn [first_unlock] in H.
  destruct (synced (fst (prbs_validate v false))) eqn:S.
  - destruct (first_unlock n (fst (prbs_validate v false))) as [[t' u']|] eqn:F; [|discriminate].
    injection H as <- <-. destruct (IH _ _ _ F) as [A [B C]]. cbn [repeat]. rewrite run_cons. split; [exact A|]. split; [lia|].
    intros m Hm. destruct m as [|m]; [lia|]. cbn [repeat]. rewrite run_cons. destruct m as [|m]; [exact S|]. apply C. lia.
  - injection H as <- <-. split; [reflexivity|]. split; [lia|]. intros m Hm. lia. Qed.

Global Opaque first_unlock.

Lemma false_lock_unlocks d : 0 < d < 512 ->
  exists t u, (1 <= t <= 70)%nat /\ run (just_locked d) (repeat false t) = u /\
    synced u = false /\ sync_count u = 0 /\ err_count u = 25 /\ bit_count u = N.of_nat t /\ state u < 512.
Proof. intros H. pose proof (below_spec 9 _ unlock_sweep d ltac:(rewrite pow9; lia)) as K. cbv beta in K. unfold unlock_ok in K.
  apply orb_true_iff in K. destruct K as [K|K]; [apply N.eqb_eq in K; lia|].
  destruct (first_unlock 70 (just_locked d)) as [[t u]|] eqn:F; [|discriminate].
  repeat (apply andb_prop in K; destruct K as [K ?]).
  destruct (first_unlock_run _ _ _ _ F) as [A [B _]].
  exists t, u. apply Nat.leb_le in K. apply negb_true_iff in H4. apply N.eqb_eq in H3. apply N.eqb_eq in H2. apply N.eqb_eq in H1.
  apply N.ltb_lt in H0. repeat split; try assumption; lia. Qed.

Lemma gen_bits_zero n : gen_bits 0 n = repeat false n.
Proof. induction n as [|n IH]; [reflexivity|]. cbn [gen_bits repeat].
  destruct zero_fixed as [L T]. rewrite T, L. f_equal. exact IH. Qed.
Lemma gen_state_zero n : gen_state 0 n = 0.
Proof. induction n as [|n IH]; [reflexivity|]. cbn [gen_state]. destruct zero_fixed as [L _]. rewrite L. exact IH. Qed.

(** the state "just truly locked": everything but the two counters is determined *)
Definition fresh_lock (u : prbs) (s : N) : Prop :=
  synced u = true /\ state u = s /\ sync_count u = 0 /\ history u = zero_history /\ hist_count u = 0 /\ hist_pos u = 0.

Lemma fresh_lock_locked_at s v : fresh_lock (locked_at s v) s.
Proof. repeat split. Qed.

Lemma locked_at_as_counts d v : counters_wf v ->
  locked_at d v = add_counts (just_locked d) (w_bits (bit_count v + ConstsPrbs.prbs_LOCK_COUNT)) (err_count v).
Proof. intros [A B]. unfold locked_at, add_counts, just_locked.
  cbn [state synced sync_count bit_count err_count history hist_count hist_pos]. rewrite !N.add_0_l.
  f_equal.
  - unfold w_bits, wrap. rewrite N.mod_mod by (apply N.pow_nonzero; discriminate). reflexivity.
  - unfold w_errs, wrap. change ConstsPrbs.prbs_err_count_bits with 32. symmetry. apply N.mod_small. exact B. Qed.

(** against the all-zero reference sequence: any unsynced state reaches a true lock (register 0) within 124 bits *)
Lemma true_lock_zero_ref v : synced v = false -> state v < 512 -> sync_count v <= 17 -> counters_wf v ->
  exists n, (1 <= n <= 124)%nat /\
    let u := run v (repeat false n) in
    fresh_lock u 0 /\ (err_count u = err_count v \/ err_count u = w_errs (err_count v + 25)).
Proof. intros Hs Hv Hc Wf.
  destruct (sync_flag_within_27_lemma v 0 Hs Hv Hc ltac:(lia)) as [t [dl [T [Hd [A [_ _]]]]]].
  rewrite gen_bits_zero, gen_state_zero, N.lxor_0_r in A.
  destruct (N.eq_dec dl 0) as [->|Nz].
  - exists t. split; [lia|]. cbv zeta. rewrite A. split; [apply fresh_lock_locked_at|]. left. reflexivity.
  - destruct (false_lock_unlocks dl ltac:(lia)) as [t2 [u2 [T2 [R2 [S2 [C2 [E2 [B2 L2]]]]]]]].
    rewrite (locked_at_as_counts dl v Wf) in A.
    set (a := w_bits (bit_count v + ConstsPrbs.prbs_LOCK_COUNT)) in *. set (b := err_count v) in *.
    assert (A2 : run v (repeat false (t + t2)) = add_counts u2 a b).
    { rewrite repeat_app, run_app, A, run_counts, R2. reflexivity. }
    destruct (lock_within_27_lemma (add_counts u2 a b) 0) as [t3 [T3 [A3 _]]];
      try (cbn [add_counts synced state sync_count]; first [exact S2 | exact L2 | rewrite C2; lia | lia]).
    rewrite gen_bits_zero, gen_state_zero in A3.
    exists (t + t2 + t3)%nat. split; [lia|]. cbv zeta. rewrite repeat_app, run_app, A2, A3.
    split; [apply fresh_lock_locked_at|]. right. cbn [locked_at add_counts err_count]. rewrite E2. f_equal. lia. Qed.

(** the same for every phase g of the sequence *)
Lemma true_lock_any_state v g : synced v = false -> state v < 512 -> sync_count v <= 17 -> counters_wf v -> g < 512 ->
  exists n, (1 <= n <= 124)%nat /\
    let u := run v (gen_bits g n) in
    fresh_lock u (gen_state g n) /\ (err_count u = err_count v \/ err_count u = w_errs (err_count v + 25)).
Proof. intros Hs Hv Hc Wf Hg.
  destruct (true_lock_zero_ref (set_state v (N.lxor (state v) g)) Hs (lxor_lt_512 _ _ Hv Hg) Hc Wf) as [n [N [F E]]].
  exists n. split; [exact N|]. cbv zeta in *.
  pose proof (run_linear (repeat false n) v g Hv Hg) as R. rewrite repeat_length in R.
  pose proof (xor_bits_false (gen_bits g n)) as X. rewrite gen_bits_length in X. rewrite X in R. cbv zeta in R.
  rewrite R. set (w := run (set_state v (N.lxor (state v) g)) (repeat false n)) in *.
  destruct F as [F1 [F2 [F3 [F4 [F5 F6]]]]]. unfold fresh_lock. cbn [set_state synced state sync_count history hist_count hist_pos err_count].
  rewrite F2, N.lxor_0_l. repeat split; assumption. Qed.

(** * the invariant of every state reachable through the API: the hypotheses of the theorems above cover them all,
      and every history access is inside the 16-byte array *)
Definition reach_inv (v : prbs) : Prop :=
  length (history v) = 16%nat /\ hist_pos v < 128 /\ state v < 512 /\ sync_count v <= 17.

Lemma reach_inv_new h : length h = 16%nat -> reach_inv (prbs_new h).
Proof. intros H. unfold reach_inv, prbs_new. cbn [history hist_pos state sync_count].
  split; [exact H|]. split; [reflexivity|]. split; [reflexivity|]. cbv. discriminate. Qed.
Lemma reach_inv_reset v : reach_inv (prbs_reset v).
Proof. unfold reach_inv, prbs_reset. cbn [history hist_pos state sync_count].
  split; [reflexivity|]. split; [reflexivity|]. split; [reflexivity|]. cbv. discriminate. Qed.
Lemma reach_inv_generate v : reach_inv v -> reach_inv (fst (prbs_generate v)).
Proof. intros [A [B [C D]]]. unfold reach_inv, prbs_generate. cbn [fst history hist_pos state sync_count].
  repeat split; try assumption. apply shift_in_lt. Qed.

Lemma reach_inv_validate v b : reach_inv v -> reach_inv (fst (prbs_validate v b)).
Proof. intros [A [B [C D]]]. destruct (synced v) eqn:S.
- unfold prbs_validate. rewrite S. cbn [negb]. unfold prbs_generate, prbs_count_errors.
  cbn [fst state synced sync_count bit_count err_count history hist_count hist_pos].
  rewrite (hpos_inc (hist_pos v) B).
  change ConstsPrbs.prbs_hist_len with 128. change ConstsPrbs.prbs_hist_wrap_to with 0.
  assert (P : (if hist_pos v + 1 =? 128 then 0 else hist_pos v + 1) < 128) by (destruct (hist_pos v + 1 =? 128) eqn:Q; lia).
  destruct (xorb b (taps (state v))); unfold reach_inv; cbn [history hist_pos state sync_count]; rewrite upd_length;
    repeat split; try assumption; apply shift_in_lt.
- rewrite (validate_unsynced v b S). cbn [fst]. unfold sync_step.
  destruct (xorb b (taps (state v))).
  + unfold reach_inv. cbn [history hist_pos state sync_count]. repeat split; try assumption; try apply shift_in_lt. lia.
  + destruct (w_sync (sync_count v + 1) =? ConstsPrbs.prbs_LOCK_COUNT) eqn:Q.
    * unfold reach_inv, locked_at. cbn [history hist_pos state sync_count].
      split; [reflexivity|]. split; [reflexivity|]. split; [apply shift_in_lt|]. cbv. discriminate.
    * unfold reach_inv. cbn [history hist_pos state sync_count]. repeat split; try assumption; try apply shift_in_lt.
      unfold w_sync, wrap in *. change ConstsPrbs.prbs_sync_count_bits with 8 in *. change (2 ^ 8) with 256 in *.
      change ConstsPrbs.prbs_LOCK_COUNT with 18 in Q.
      rewrite N.mod_small in * by lia. lia. Qed.

Lemma reach_inv_index v : reach_inv v ->
  (N.to_nat (N.shiftr (hist_pos v) ConstsPrbs.prbs_hist_byte_shift) < length (history v))%nat.
Proof. intros [A [B _]]. rewrite A. change ConstsPrbs.prbs_hist_byte_shift with 3. apply (pos_split _ B). Qed.

(** reset() returns the validator to the state of a new object with a zeroed window, whatever it held: every member is assigned
    (the assignments are read from the source: the ConstsPrbs.prbs_reset_ constants), so the fresh-state theorems apply after every reset *)
Lemma reset_is_fresh (v : prbs) :
  prbs_reset v = mkPRBS 1 false 0 0 0 (repeat 0 16) 0 0 /\
  synced (prbs_reset v) = false /\ state (prbs_reset v) < 512 /\ sync_count (prbs_reset v) <= 9 /\
  bit_count (prbs_reset v) < 2 ^ 32 /\ err_count (prbs_reset v) < 2 ^ 32.
Proof. split; [reflexivity|]. cbn. repeat split; try reflexivity; try discriminate. Qed.
