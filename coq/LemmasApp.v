(** Index safety of m17-demod's frame handlers: every handler returns [Ok] on every well-formed callback
    from every state satisfying the (PRBS history) invariant, and preserves the invariant. *)
From Coq Require Import NArith ZArith Arith Bool String Lia List.
From M17 Require Import Checked LemmasChecked ConstsApp ImplAx25 LemmasAx25 ImplApp.
Import ListNotations.

Lemma bind_inv {A B} (m : res A) (f : A -> res B) b : bind m f = Ok b -> exists a, m = Ok a /\ f a = Ok b.
Proof. destruct m; cbn [bind]; try discriminate. intros H. eexists; split; [reflexivity|exact H]. Qed.

Ltac app_consts :=
  cbv [lsf_bytes lich_bytes audio_bytes packet_bytes bert_bytes call_bytes call_chars
       dl_src_lo dl_src_hi dl_dst_hi dl_type_hi_idx dl_type_lo_idx dl_nonce_lo dl_nonce_hi dl_crc_hi_idx dl_crc_lo_idx
       dl_pkt_idx dl_ptype_idx da_buf_samples da_eos_idx da_write_bytes da_off1 da_off2 codec2_frame_bytes
       dp_ctl_idx dp_full_bytes dfp_ctl_idx dfp_full_bytes db_full_bytes db_bits_per_byte db_tail_idx db_tail_bits
       prbs_history_bytes prbs_hist_wrap prbs_hist_shift] in *.

(** * decode_callsign *)
Lemma callsign_map_length : length (str callsign_map ++ [0%N]) = 41.
Proof. reflexivity. Qed.

Lemma callsign_loop_ok : forall k fuel enc index result,
  length result = call_chars -> index + k = call_chars - 1 -> k < fuel ->
  exists r, callsign_loop k fuel enc index result = Ok r /\ length r = call_chars.
Proof. induction k as [|k IH]; intros fuel enc index result L E F; (destruct fuel as [|fuel]; [lia|]); cbn [callsign_loop].
- destruct (N.eqb enc 0); [exists result; split; [reflexivity|exact L]|].
  change callsign_loop_bounded with true. cbv iota. exists result. split; [reflexivity|exact L].
- destruct (N.eqb enc 0); [exists result; split; [reflexivity|exact L]|].
  destruct (get_ok "decode_callsign: callsign_map[encoded % 40]" (str callsign_map ++ [0%N]) (N.to_nat (enc mod callsign_base))) as [c Hc].
  { rewrite callsign_map_length. pose proof (N.mod_lt enc callsign_base). unfold callsign_base in *. lia. }
  rewrite Hc. cbn [bind]. rewrite set_ok by (app_consts; lia). cbn [bind]. cbn [pred].
  apply IH; [rewrite replace_nth_length; exact L | lia | lia].
Qed.

Lemma decode_callsign_ok c : length c = call_bytes -> exists r, decode_callsign c = Ok r /\ length r = call_chars.
Proof. intros L. unfold decode_callsign. destruct (list_N_eqb c broadcast_address); [exists broadcast_call; split; reflexivity|].
  unfold call_value. destruct (get_each_seq_ok "decode_callsign: callsign[i]" c 0 call_bytes) as [bytes [Hb _]]; [lia|].
  rewrite Hb. cbn [bind]. apply callsign_loop_ok; [apply repeat_length | app_consts; lia | app_consts; lia]. Qed.

(** * dump_lsf *)
Lemma dump_lsf_text_ok lsf : length lsf = lsf_bytes -> is_ok (dump_lsf_text lsf).
Proof. intros L. unfold dump_lsf_text.
  rewrite range_ok by (app_consts; lia). cbn [bind].
  destruct (decode_callsign_ok (firstn (dl_src_hi - dl_src_lo) (skipn dl_src_lo lsf))) as [src [Hs _]].
  { rewrite firstn_length, skipn_length. app_consts. lia. }
  rewrite Hs. cbn [bind].
  rewrite range_ok by (app_consts; lia). cbn [bind].
  destruct (decode_callsign_ok (firstn (dl_dst_hi - 0) (skipn 0 lsf))) as [dst [Hd _]].
  { rewrite firstn_length, skipn_length. app_consts. lia. }
  rewrite Hd. cbn [bind].
  apply is_ok_bind; [apply get_is_ok; app_consts; lia | intros t_hi _].
  apply is_ok_bind; [apply get_is_ok; app_consts; lia | intros t_lo _].
  apply is_ok_bind.
  { destruct (get_each_seq_ok "dump_lsf: lsf[i] (NONCE)" lsf dl_nonce_lo (dl_nonce_hi - dl_nonce_lo)) as [xs [Hx _]]; [app_consts; lia|].
    rewrite Hx. apply is_ok_Ok. }
  intros nonce _.
  apply is_ok_bind; [apply get_is_ok; app_consts; lia | intros c_hi _].
  apply is_ok_bind; [apply get_is_ok; app_consts; lia | intros c_lo _].
  apply is_ok_Ok.
Qed.

(** * PRBS validator *)
Lemma shiftr3_lt p : p < prbs_hist_wrap -> Nat.shiftr p prbs_hist_shift < prbs_history_bytes.
Proof. intros H. rewrite Nat.shiftr_div_pow2. app_consts. change (2 ^ 3) with 8. apply Nat.div_lt_upper_bound; lia. Qed.

Lemma count_errors_ok p e : prbs_inv p -> exists p', count_errors p e = Ok p' /\ prbs_inv p'.
Proof. intros [HL HP]. unfold count_errors.
  pose proof (shiftr3_lt _ HP) as Hidx.
  destruct (get_ok "PRBS9::count_errors: history[hist_pos >> 3]" (p_history p) (Nat.shiftr (p_hist_pos p) prbs_hist_shift)) as [h Hh]; [lia|].
  rewrite Hh. cbn [bind].
  assert (HP' : (if S (p_hist_pos p) =? prbs_hist_wrap then 0 else S (p_hist_pos p)) < prbs_hist_wrap).
  { destruct (S (p_hist_pos p) =? prbs_hist_wrap) eqn:E; [app_consts; lia|]. apply Nat.eqb_neq in E. lia. }
  destruct e; rewrite set_ok by lia; cbn [bind]; eexists; (split; [reflexivity|]);
    (split; cbn [p_history p_hist_pos]; [rewrite replace_nth_length; exact HL | exact HP']).
Qed.

Lemma prbs_validate_ok p b : prbs_inv p -> exists p', prbs_validate p b = Ok p' /\ prbs_inv p'.
Proof. intros I. pose proof I as [HL HP]. unfold prbs_validate. destruct (negb (p_synced p)).
- destruct (negb (N.eqb _ 0)); [eexists; split; [reflexivity|]; split; cbn [p_history p_hist_pos]; assumption|].
  destruct (N.eqb (p_sync_count p + 1) prbs_LOCK_COUNT); eexists; (split; [reflexivity|]); split; cbn [p_history p_hist_pos];
    try assumption; [rewrite map_length; exact HL | app_consts; lia].
- apply count_errors_ok. split; cbn [p_history p_hist_pos]; assumption.
Qed.

Lemma validate_bits_ok : forall n p b, prbs_inv p -> exists p', validate_bits n p b = Ok p' /\ prbs_inv p'.
Proof. induction n as [|n IH]; intros p b I; cbn [validate_bits].
- exists p. split; [reflexivity|exact I].
- destruct (prbs_validate_ok p (negb (N.eqb (N.land b db_bit_mask) 0)) I) as [p1 [H1 I1]]. rewrite H1. cbn [bind]. apply IH. exact I1.
Qed.

Lemma decode_bert_bytes_ok bert : forall idxs p, Forall (fun i => i < length bert) idxs -> prbs_inv p ->
  exists p', decode_bert_bytes bert idxs p = Ok p' /\ prbs_inv p'.
Proof. induction idxs as [|j r IH]; intros p F I; cbn [decode_bert_bytes].
- exists p. split; [reflexivity|exact I].
- inversion F as [|? ? Hj Hr]; subst. destruct (get_ok "decode_bert: bert[j]" bert j Hj) as [b Hb]. rewrite Hb. cbn [bind].
  destruct (validate_bits_ok db_bits_per_byte p (N.land b 255) I) as [p1 [H1 I1]]. rewrite H1. cbn [bind]. apply IH; assumption.
Qed.

Lemma decode_bert_prbs_ok bert p : length bert = bert_bytes -> prbs_inv p ->
  exists p', decode_bert_prbs bert p = Ok p' /\ prbs_inv p'.
Proof. intros L I. unfold decode_bert_prbs.
  destruct (decode_bert_bytes_ok bert (seq 0 db_full_bytes) p) as [p1 [H1 I1]]; [apply Forall_seq_lt; app_consts; lia | exact I|].
  rewrite H1. cbn [bind].
  destruct (get_ok "decode_bert: bert[24]" bert db_tail_idx) as [b Hb]; [app_consts; lia|]. rewrite Hb. cbn [bind].
  apply validate_bits_ok. exact I1.
Qed.

Lemma prbs_init_inv : prbs_inv prbs_init.
Proof. split; [apply repeat_length | app_consts; cbn; lia]. Qed.

Section App.
Variable cstate : Type.
Variable codec2_decode : cstate -> list N -> cstate * list Z.
(* the contract of the external decoder: it stores exactly the 160 samples of one 20 ms frame *)
Hypothesis codec2_160 : forall c bits, length (snd (codec2_decode c bits)) = da_buf_samples.

Notation app := (app cstate).
Notation handle_frame := (handle_frame cstate codec2_decode).
Notation run_app := (run_app cstate codec2_decode).
Notation app_inv := (app_inv cstate).

Lemma dump_lsf_ok o (st : app) lsf : length lsf = lsf_bytes -> app_inv st ->
  exists st' out, dump_lsf cstate o st lsf = Ok (st', out) /\ app_inv st'.
Proof. intros L I. unfold dump_lsf.
  assert (T : is_ok (if o_display_lsf o then dump_lsf_text lsf else Ok [])).
  { destruct (o_display_lsf o); [apply dump_lsf_text_ok; exact L | apply is_ok_Ok]. }
  destruct T as [text ->]. cbn [bind].
  destruct (get_ok "dump_lsf: lsf[13] (type bit 0)" lsf dl_pkt_idx) as [b Hb]; [app_consts; lia|]. rewrite Hb. cbn [bind].
  destruct (N.eqb (N.land b dl_pkt_mask) 0).
  - destruct (get_ok "dump_lsf: lsf[13] (packet type)" lsf dl_ptype_idx) as [b' Hb']; [app_consts; lia|]. rewrite Hb'. cbn [bind].
    eexists; eexists; split; [reflexivity|]. exact I.
  - cbn [bind]. eexists; eexists; split; [reflexivity|]. exact I.
Qed.

Lemma write_buf_ok buf : length buf = da_buf_samples -> exists w, write_buf buf = Ok w /\ length w = da_write_bytes.
Proof. intros L. unfold write_buf. pose proof (flat_map_le16_length buf) as F.
  rewrite range_ok by (app_consts; lia). eexists; split; [reflexivity|].
  rewrite firstn_length, skipn_length. app_consts. lia. Qed.

Lemma store_buf_ok site s : length s = da_buf_samples -> store_buf site s = Ok s.
Proof. intros L. unfold store_buf. rewrite L, Nat.ltb_irrefl. reflexivity. Qed.

Lemma demodulate_audio_ok o (st : app) audio cost : length audio = audio_bytes -> app_inv st ->
  exists st' out, demodulate_audio cstate codec2_decode o st audio cost = Ok (st', out) /\ app_inv st' /\
                  length (r_out out) = da_writes_per_frame * da_write_bytes.
Proof. intros L I. unfold demodulate_audio.
  destruct (get_ok "demodulate_audio: audio[0]" audio da_eos_idx) as [a0 Ha]; [app_consts; lia|]. rewrite Ha. cbn [bind].
  destruct (o_noise_blanker o && (da_blank_cost <? cost)%Z).
  - destruct (write_buf_ok (repeat 0%Z da_buf_samples) (repeat_length _ _)) as [w [Hw Lw]]. rewrite Hw. cbn [bind].
    eexists; eexists; split; [reflexivity|]. split; [exact I|]. cbn [r_out]. rewrite app_length, Lw. unfold da_writes_per_frame. lia.
  - rewrite range_ok by (app_consts; lia). cbn [bind].
    rewrite store_buf_ok by apply codec2_160. cbn [bind].
    destruct (write_buf_ok _ (codec2_160 (a_codec st) (firstn (da_off1 + codec2_frame_bytes - da_off1) (skipn da_off1 audio)))) as [w1 [Hw1 L1]].
    rewrite Hw1. cbn [bind].
    rewrite range_ok by (app_consts; lia). cbn [bind].
    rewrite store_buf_ok by apply codec2_160. cbn [bind].
    match goal with |- context [write_buf (snd (codec2_decode ?c ?b))] => destruct (write_buf_ok _ (codec2_160 c b)) as [w2 [Hw2 L2]] end.
    rewrite Hw2. cbn [bind].
    eexists; eexists; split; [reflexivity|]. split; [exact I|]. cbn [r_out]. rewrite app_length, L1, L2. unfold da_writes_per_frame. lia.
Qed.

Lemma seg_bytes_ok site seg n : n <= length seg -> exists bs, seg_bytes site seg n = Ok bs /\ length bs = n.
Proof. intros H. unfold seg_bytes. apply get_each_seq_ok. lia. Qed.

Lemma decode_packet_ok (st : app) seg : length seg = packet_bytes -> app_inv st ->
  exists st' out, decode_packet cstate st seg = Ok (st', out) /\ app_inv st' /\ r_out out = [].
Proof. intros L I. unfold decode_packet.
  destruct (get_ok "decode_packet: packet_segment[25]" seg dp_ctl_idx) as [c Hc]; [app_consts; lia|]. rewrite Hc. cbn [bind].
  destruct (negb (N.eqb (N.land c dp_eof_mask) 0)).
  - destruct (seg_bytes_ok "decode_packet: packet_segment[i] (last frame)" seg
                (N.to_nat (N.min (N.shiftr (N.land c dp_cnt_mask) dp_cnt_shift) dp_size_clamp))) as [bs [Hbs _]].
    { pose proof (N.le_min_r (N.shiftr (N.land c dp_cnt_mask) dp_cnt_shift) dp_size_clamp). unfold dp_size_clamp in *. app_consts. lia. }
    rewrite Hbs. cbn [bind]. change dp_uses_front with false. cbv iota. cbn [bind].
    destruct (N.eqb _ dp_crc_residue).
    + destruct (parse_ok_lemma (a_packet st ++ bs)) as [f Hf]. rewrite Hf. cbn [bind].
      eexists; eexists; split; [reflexivity|]. split; [exact I|reflexivity].
    + eexists; eexists; split; [reflexivity|]. split; [exact I|reflexivity].
  - destruct (negb (N.eqb _ (a_counter st))).
    + eexists; eexists; split; [reflexivity|]. split; [exact I|reflexivity].
    + destruct (seg_bytes_ok "decode_packet: packet_segment[i]" seg dp_full_bytes) as [bs [Hbs _]]; [app_consts; lia|].
      rewrite Hbs. cbn [bind]. eexists; eexists; split; [reflexivity|]. split; [exact I|reflexivity].
Qed.

Lemma decode_full_packet_ok (st : app) seg : length seg = packet_bytes -> app_inv st ->
  exists st' out, decode_full_packet cstate st seg = Ok (st', out) /\ app_inv st'.
Proof. intros L I. unfold decode_full_packet.
  destruct (get_ok "decode_full_packet: packet_segment[25]" seg dfp_ctl_idx) as [c Hc]; [app_consts; lia|]. rewrite Hc. cbn [bind].
  destruct (negb (N.eqb (N.land c dfp_eof_mask) 0)).
  - destruct (seg_bytes_ok "decode_full_packet: packet_segment[i] (last frame)" seg
                (N.to_nat (N.min (N.shiftr (N.land c dfp_cnt_mask) dfp_cnt_shift) dfp_size_clamp))) as [bs [Hbs _]].
    { pose proof (N.le_min_r (N.shiftr (N.land c dfp_cnt_mask) dfp_cnt_shift) dfp_size_clamp). unfold dfp_size_clamp in *. app_consts. lia. }
    rewrite Hbs. cbn [bind]. change dfp_uses_front with false. cbv iota. cbn [bind].
    eexists; eexists; split; [reflexivity|]. exact I.
  - destruct (negb (N.eqb _ (a_counter st))).
    + eexists; eexists; split; [reflexivity|]. exact I.
    + destruct (seg_bytes_ok "decode_full_packet: packet_segment[i]" seg dfp_full_bytes) as [bs [Hbs _]]; [app_consts; lia|].
      rewrite Hbs. cbn [bind]. eexists; eexists; split; [reflexivity|]. exact I.
Qed.

Lemma decode_bert_ok (st : app) bert : length bert = bert_bytes -> app_inv st ->
  exists st' out, decode_bert cstate st bert = Ok (st', out) /\ app_inv st' /\ r_out out = [].
Proof. intros L I. unfold decode_bert. destruct (decode_bert_prbs_ok bert (a_prbs st) L I) as [p [Hp Ip]].
  rewrite Hp. cbn [bind]. eexists; eexists; split; [reflexivity|]. split; [exact Ip|reflexivity]. Qed.

(** stdout bytes a callback produces: 640 for a STREAM callback, none otherwise *)
Definition is_stream (cb : callback) : bool := match cb with CbStream _ _ => true | _ => false end.
Definition stdout_bytes_of (cb : callback) : nat := if is_stream cb then da_writes_per_frame * da_write_bytes else 0.

Lemma handle_frame_ok o (st : app) cb : wf_callback cb -> app_inv st ->
  exists st' out, handle_frame o st cb = Ok (st', out) /\ app_inv st' /\ length (r_out out) = stdout_bytes_of cb.
Proof. intros W I. destruct cb as [lsf c|c|audio c|seg c|seg c|bert c]; cbn [handle_frame wf_callback] in *; unfold stdout_bytes_of; cbn [is_stream].
- destruct (dump_lsf_ok o st lsf W I) as [st' [out [H I']]]. exists st', out. split; [exact H|]. split; [exact I'|].
  unfold dump_lsf in H. repeat (apply bind_inv in H; destruct H as [? [_ H]]). injection H as _ <-. reflexivity.
- eexists; eexists; split; [reflexivity|]. split; [exact I|reflexivity].
- destruct (demodulate_audio_ok o st audio c W I) as [st' [out [H [I' L]]]]. exists st', out. auto.
- change hf_basic_uses_full with false. cbv iota. destruct (decode_packet_ok st seg W I) as [st' [out [H [I' L]]]].
  exists st', out. split; [exact H|]. split; [exact I'|]. rewrite L. reflexivity.
- change hf_full_uses_full with false. cbv iota. destruct (decode_packet_ok st seg W I) as [st' [out [H [I' L]]]].
  exists st', out. split; [exact H|]. split; [exact I'|]. rewrite L. reflexivity.
- destruct (decode_bert_ok st bert W I) as [st' [out [H [I' L]]]]. exists st', out. split; [exact H|]. split; [exact I'|]. rewrite L. reflexivity.
Qed.

Definition total_stdout (outs : list out) : nat := fold_right (fun o n => length (r_out o) + n) 0 outs.

Lemma run_app_ok o : forall cbs (st : app), Forall wf_callback cbs -> app_inv st ->
  exists st' outs, run_app o st cbs = Ok (st', outs) /\ app_inv st' /\
                   total_stdout outs = fold_right (fun cb n => stdout_bytes_of cb + n) 0 cbs.
Proof. induction cbs as [|cb r IH]; intros st W I; cbn [run_app].
- exists st, []. split; [reflexivity|]. split; [exact I|reflexivity].
- inversion W as [|? ? Wc Wr]; subst.
  destruct (handle_frame_ok o st cb Wc I) as [st1 [o1 [H1 [I1 L1]]]]. rewrite H1. cbn [bind fst snd].
  destruct (IH st1 Wr I1) as [st2 [o2 [H2 [I2 L2]]]]. rewrite H2. cbn [bind fst snd].
  exists st2, (o1 :: o2). split; [reflexivity|]. split; [exact I2|]. cbn [total_stdout fold_right]. fold (total_stdout o2).
  rewrite L1, L2. reflexivity.
Qed.

Lemma app_init_inv c : app_inv (app_init cstate c).
Proof. exact prbs_init_inv. Qed.

Lemma app_handlers_never_oob_lemma : forall (o : opts) (cbs : list callback) (st : app),
  Forall wf_callback cbs -> app_inv st ->
  exists st' outs, run_app o st cbs = Ok (st', outs) /\ app_inv st'.
Proof. intros o cbs st W I. destruct (run_app_ok o cbs st W I) as [st' [outs [E [I' _]]]].
  exists st', outs. split; [exact E | exact I']. Qed.

Lemma run_app_not_oob_lemma : forall (o : opts) (c0 : cstate) (cbs : list callback), Forall wf_callback cbs ->
  (forall site, run_app o (app_init cstate c0) cbs <> Oob site) /\
  (forall site, run_app o (app_init cstate c0) cbs <> Throw site) /\
  run_app o (app_init cstate c0) cbs <> Diverge.
Proof. intros o c0 cbs W. apply is_ok_not_oob.
  destruct (run_app_ok o cbs (app_init cstate c0) W (app_init_inv c0)) as [st' [outs [E _]]].
  exists (st', outs). exact E. Qed.

End App.
