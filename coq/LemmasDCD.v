(** Proofs about the carrier-detector model (Part 1 of ImplDemodCtl.v): the no-latch invariant and the
    assert/release bounds of the exponential average with hysteresis. *)
From Coq Require Import ZArith QArith Qpower Bool List Lia Lqa.
From M17 Require Import ConstsDemod ImplDemodCtl.
Import ListNotations.
Local Open Scope Q_scope.

(** facts about the regenerated constants; a changed constant that invalidates one of them breaks the build here *)
Lemma dcd_guard_present : DCD_RATIO_GUARDED = true.
Proof. reflexivity. Qed.
Lemma dcd_weights_convex : DCD_KEEP + DCD_GAIN == 1 /\ 0 <= DCD_KEEP /\ DCD_KEEP < 1 /\ 0 <= DCD_GAIN.
Proof. unfold DCD_KEEP, DCD_GAIN. repeat split; try reflexivity; try discriminate. Qed.
Lemma dcd_thresholds_ordered : DCD_LTRIGGER <= DCD_HTRIGGER.
Proof. unfold DCD_LTRIGGER, DCD_HTRIGGER. discriminate. Qed.

Lemma Qmult_le_compat_l_nonneg (z x y : Q) : 0 <= z -> x <= y -> z * x <= z * y.
Proof. intros Hz H. rewrite (Qmult_comm z x), (Qmult_comm z y). apply Qmult_le_compat_r; assumption. Qed.

Lemma qltb_true a b : qltb a b = true <-> a < b.
Proof.
  unfold qltb. rewrite negb_true_iff. split; intro H.
  - apply Qnot_le_lt. intro C. apply Qle_bool_iff in C. congruence.
  - destruct (Qle_bool b a) eqn:E; [|reflexivity]. apply Qle_bool_iff in E. exfalso. apply (Qlt_not_le _ _ H E).
Qed.
Lemma qltb_false a b : qltb a b = false <-> b <= a.
Proof.
  unfold qltb. rewrite negb_false_iff. apply Qle_bool_iff.
Qed.

(** ** no latch: the level stays finite *)

Lemma dcd_ratio_guarded_finite l1 l2 : exists r, dcd_ratio true l1 l2 = Fin r.
Proof.
  unfold dcd_ratio. destruct (xdiv l1 l2) eqn:E; cbn; eauto.
Qed.

Lemma dcd_update_level d q :
  level_ d = Fin q ->
  forall r, dcd_ratio true (level_1 d) (level_2 d) = Fin r ->
  level_ (dcd_update d) = Fin (q * DCD_KEEP + DCD_GAIN * r).
Proof.
  intros Hq r Hr. unfold dcd_update. rewrite dcd_guard_present. unfold dcd_update_gen. cbn [level_].
  rewrite Hr, Hq. reflexivity.
Qed.

Lemma dcd_update_triggered d :
  triggered_ (dcd_update d) =
  if triggered_ d then xgt (level_ (dcd_update d)) (Fin DCD_LTRIGGER) else xgt (level_ (dcd_update d)) (Fin DCD_HTRIGGER).
Proof. reflexivity. Qed.

Lemma dcd_level_finite_step d : xisfinite (level_ d) = true -> xisfinite (level_ (dcd_update d)) = true.
Proof.
  intro H. destruct (level_ d) as [q| | |] eqn:E; try discriminate.
  destruct (dcd_ratio_guarded_finite (level_1 d) (level_2 d)) as [r Hr].
  rewrite (dcd_update_level d q E r Hr). reflexivity.
Qed.

Lemma dcd_block_level_finite d b : xisfinite (level_ d) = true -> xisfinite (level_ (dcd_block dcd_update d b)) = true.
Proof. intro H. unfold dcd_block. apply dcd_level_finite_step. exact H. Qed.

Lemma dcd_level_finite_lemma : forall (bs : list (xval * xval)) (d0 : dcd_t),
  xisfinite (level_ d0) = true -> xisfinite (level_ (dcd_blocks dcd_update d0 bs)) = true.
Proof.
  induction bs as [|b bs IH]; intros d0 H; cbn [dcd_blocks fold_left].
  - exact H.
  - apply IH. apply dcd_block_level_finite. exact H.
Qed.

(** unlock() and operator()(sample) leave the level alone, so they can be interleaved freely *)
Lemma dcd_unlock_level d : level_ (dcd_unlock d) = level_ d. Proof. reflexivity. Qed.
Lemma dcd_sample_level d e1 e2 : level_ (dcd_sample d e1 e2) = level_ d. Proof. reflexivity. Qed.

(** the general history: any interleaving of operator()(sample) with arbitrary energies, update() and unlock() *)
Inductive dcd_op := OpSample (e1 e2 : xval) | OpUpdate | OpUnlock.
Definition dcd_apply (d : dcd_t) (o : dcd_op) : dcd_t :=
  match o with OpSample e1 e2 => dcd_sample d e1 e2 | OpUpdate => dcd_update d | OpUnlock => dcd_unlock d end.
Lemma dcd_history_level_finite : forall (ops : list dcd_op) (d0 : dcd_t),
  xisfinite (level_ d0) = true -> xisfinite (level_ (fold_left dcd_apply ops d0)) = true.
Proof.
  induction ops as [|o ops IH]; intros d0 H; cbn [fold_left]; [exact H|].
  apply IH. destruct o; cbn [dcd_apply].
  - exact H.
  - apply dcd_level_finite_step; exact H.
  - exact H.
Qed.

(** ** assert / release bounds *)

Fixpoint qpow (k : Q) (n : nat) : Q := match n with O => 1 | S n => k * qpow k n end.

Lemma qpow_nonneg k n : 0 <= k -> 0 <= qpow k n.
Proof. intro H. induction n; cbn [qpow]; [discriminate|]. apply Qmult_le_0_compat; assumption. Qed.

(** every block's (guarded) ratio is at least R *)
Definition ratios_ge (R : Q) (bs : list (xval * xval)) : Prop :=
  Forall (fun b => exists r, dcd_ratio true (fst b) (snd b) = Fin r /\ R <= r) bs.
Definition ratios_le (R : Q) (bs : list (xval * xval)) : Prop :=
  Forall (fun b => exists r, dcd_ratio true (fst b) (snd b) = Fin r /\ r <= R) bs.

Lemma level_rises : forall (R : Q) (bs : list (xval * xval)) (d0 : dcd_t) (q0 : Q),
  level_ d0 = Fin q0 -> ratios_ge R bs ->
  exists q, level_ (dcd_blocks dcd_update d0 bs) = Fin q /\ R - q <= qpow DCD_KEEP (length bs) * (R - q0).
Proof.
  intros R bs. induction bs as [|b bs IH]; intros d0 q0 H0 HF.
  - exists q0. split; [exact H0|]. cbn [length qpow]. lra.
  - inversion HF as [|b' bs' [r [Hr Hge]] HF']; subst.
    cbn [dcd_blocks fold_left].
    assert (H1 : level_ (dcd_block dcd_update d0 b) = Fin (q0 * DCD_KEEP + DCD_GAIN * r)).
    { unfold dcd_block. apply dcd_update_level; cbn [level_ level_1 level_2]; assumption. }
    destruct (IH _ _ H1 HF') as [q [Hq Hb]].
    exists q. split; [exact Hq|].
    cbn [length qpow].
    destruct dcd_weights_convex as [Hs [Hk0 [Hk1 Hg0]]].
    assert (Hstep : R - (q0 * DCD_KEEP + DCD_GAIN * r) <= DCD_KEEP * (R - q0)).
    { assert (E : R - (q0 * DCD_KEEP + DCD_GAIN * r) == DCD_KEEP * (R - q0) + DCD_GAIN * (R - r)).
      { setoid_replace R with ((DCD_KEEP + DCD_GAIN) * R) at 1 by (rewrite Hs; ring). ring. }
      rewrite E.
      assert (DCD_GAIN * (R - r) <= 0).
      { setoid_replace 0 with (DCD_GAIN * 0) by ring. apply Qmult_le_compat_l_nonneg; lra. }
      lra. }
    assert (Hp := qpow_nonneg DCD_KEEP (length bs) Hk0).
    assert (qpow DCD_KEEP (length bs) * (R - (q0 * DCD_KEEP + DCD_GAIN * r)) <= qpow DCD_KEEP (length bs) * (DCD_KEEP * (R - q0))).
    { apply Qmult_le_compat_l_nonneg; assumption. }
    assert (E2 : DCD_KEEP * qpow DCD_KEEP (length bs) * (R - q0) == qpow DCD_KEEP (length bs) * (DCD_KEEP * (R - q0))) by ring.
    rewrite E2. lra.
Qed.

Lemma level_falls : forall (R : Q) (bs : list (xval * xval)) (d0 : dcd_t) (q0 : Q),
  level_ d0 = Fin q0 -> ratios_le R bs ->
  exists q, level_ (dcd_blocks dcd_update d0 bs) = Fin q /\ q - R <= qpow DCD_KEEP (length bs) * (q0 - R).
Proof.
  intros R bs. induction bs as [|b bs IH]; intros d0 q0 H0 HF.
  - exists q0. split; [exact H0|]. cbn [length qpow]. lra.
  - inversion HF as [|b' bs' [r [Hr Hle]] HF']; subst.
    cbn [dcd_blocks fold_left].
    assert (H1 : level_ (dcd_block dcd_update d0 b) = Fin (q0 * DCD_KEEP + DCD_GAIN * r)).
    { unfold dcd_block. apply dcd_update_level; cbn [level_ level_1 level_2]; assumption. }
    destruct (IH _ _ H1 HF') as [q [Hq Hb]].
    exists q. split; [exact Hq|].
    cbn [length qpow].
    destruct dcd_weights_convex as [Hs [Hk0 [Hk1 Hg0]]].
    assert (Hstep : (q0 * DCD_KEEP + DCD_GAIN * r) - R <= DCD_KEEP * (q0 - R)).
    { assert (E : (q0 * DCD_KEEP + DCD_GAIN * r) - R == DCD_KEEP * (q0 - R) + DCD_GAIN * (r - R)).
      { setoid_replace R with ((DCD_KEEP + DCD_GAIN) * R) at 1 by (rewrite Hs; ring). ring. }
      rewrite E.
      assert (DCD_GAIN * (r - R) <= 0).
      { setoid_replace 0 with (DCD_GAIN * 0) by ring. apply Qmult_le_compat_l_nonneg; lra. }
      lra. }
    assert (Hp := qpow_nonneg DCD_KEEP (length bs) Hk0).
    assert (qpow DCD_KEEP (length bs) * ((q0 * DCD_KEEP + DCD_GAIN * r) - R) <= qpow DCD_KEEP (length bs) * (DCD_KEEP * (q0 - R))).
    { apply Qmult_le_compat_l_nonneg; assumption. }
    assert (E2 : DCD_KEEP * qpow DCD_KEEP (length bs) * (q0 - R) == qpow DCD_KEEP (length bs) * (DCD_KEEP * (q0 - R))) by ring.
    rewrite E2. lra.
Qed.

(** the last block of a non-empty history decides [triggered_] from the final level *)
Lemma blocks_last : forall (bs : list (xval * xval)) (d0 : dcd_t), bs <> [] ->
  exists d, dcd_blocks dcd_update d0 bs = dcd_update d /\ True.
Proof.
  induction bs as [|b bs IH]; intros d0 Hne; [congruence|].
  cbn [dcd_blocks fold_left]. destruct bs as [|b2 bs2].
  - cbn [fold_left]. unfold dcd_block. eexists. split; [reflexivity|exact I].
  - apply IH. discriminate.
Qed.

Lemma dcd_asserts_lemma : forall (R q0 : Q) (d0 : dcd_t) (bs : list (xval * xval)),
  level_ d0 = Fin q0 -> DCD_HTRIGGER < R -> bs <> [] -> ratios_ge R bs ->
  qpow DCD_KEEP (length bs) * (R - q0) < R - DCD_HTRIGGER ->
  triggered_ (dcd_blocks dcd_update d0 bs) = true /\
  exists q, level_ (dcd_blocks dcd_update d0 bs) = Fin q /\ DCD_HTRIGGER < q.
Proof.
  intros R q0 d0 bs H0 HR Hne HF Hn.
  destruct (level_rises R bs d0 q0 H0 HF) as [q [Hq Hb]].
  assert (Hgt : DCD_HTRIGGER < q) by lra.
  split; [|exists q; split; assumption].
  destruct (blocks_last bs d0 Hne) as [d [Hd _]].
  rewrite Hd in Hq |- *. rewrite dcd_update_triggered, Hq.
  assert (Hl := dcd_thresholds_ordered).
  destruct (triggered_ d); cbn [xgt]; apply qltb_true; lra.
Qed.

Lemma dcd_releases_lemma : forall (R q0 : Q) (d0 : dcd_t) (bs : list (xval * xval)),
  level_ d0 = Fin q0 -> R < DCD_LTRIGGER -> bs <> [] -> ratios_le R bs ->
  qpow DCD_KEEP (length bs) * (q0 - R) < DCD_LTRIGGER - R ->
  triggered_ (dcd_blocks dcd_update d0 bs) = false /\
  exists q, level_ (dcd_blocks dcd_update d0 bs) = Fin q /\ q < DCD_LTRIGGER.
Proof.
  intros R q0 d0 bs H0 HR Hne HF Hn.
  destruct (level_falls R bs d0 q0 H0 HF) as [q [Hq Hb]].
  assert (Hlt : q < DCD_LTRIGGER) by lra.
  split; [|exists q; split; assumption].
  destruct (blocks_last bs d0 Hne) as [d [Hd _]].
  rewrite Hd in Hq |- *. rewrite dcd_update_triggered, Hq.
  assert (Hl := dcd_thresholds_ordered).
  destruct (triggered_ d); cbn [xgt]; apply qltb_false; lra.
Qed.

(** ** what the guard buys: the pre-fix update() latches *)

Lemma unguarded_nan_sticks d : level_ d = NaN ->
  level_ (dcd_update_unguarded d) = NaN /\ triggered_ (dcd_update_unguarded d) = false.
Proof.
  intro H. unfold dcd_update_unguarded, dcd_update_gen. cbn [level_ triggered_]. rewrite H. cbn [xmul xadd].
  split; [reflexivity|]. destruct (triggered_ d); reflexivity.
Qed.

Lemma unguarded_nan_forever : forall (bs : list (xval * xval)) (d : dcd_t),
  level_ d = NaN -> triggered_ d = false ->
  level_ (dcd_blocks dcd_update_unguarded d bs) = NaN /\ triggered_ (dcd_blocks dcd_update_unguarded d bs) = false.
Proof.
  induction bs as [|b bs IH]; intros d HL HT; cbn [dcd_blocks fold_left]; [split; assumption|].
  apply IH; unfold dcd_block; apply unguarded_nan_sticks; reflexivity || exact HL.
Qed.

Lemma dcd_unguarded_latches_lemma : forall (d0 : dcd_t) (bs : list (xval * xval)),
  let d := dcd_blocks dcd_update_unguarded d0 ((Fin 0, Fin 0) :: bs) in
  level_ d = NaN /\ triggered_ d = false.
Proof.
  intros d0 bs. cbn zeta. cbn [dcd_blocks fold_left].
  assert (H : level_ (dcd_block dcd_update_unguarded d0 (Fin 0, Fin 0)) = NaN /\
              triggered_ (dcd_block dcd_update_unguarded d0 (Fin 0, Fin 0)) = false).
  { unfold dcd_block, dcd_update_unguarded, dcd_update_gen, dcd_ratio. cbn [fst snd level_ level_1 level_2 triggered_ xdiv qsgn Qnum].
    cbn [Z.compare xmul]. destruct (level_ d0); cbn [xmul xadd xinf_signed]; (split; [reflexivity|]); destruct (triggered_ d0); reflexivity. }
  destruct H as [HL HT]. apply unguarded_nan_forever; assumption.
Qed.

(** the other latch of the unguarded code: energy in band, exactly none out of band: +inf for ever (or NaN), never finite again *)
Lemma unguarded_nonfinite_sticks d : xisfinite (level_ d) = false -> xisfinite (level_ (dcd_update_unguarded d)) = false.
Proof.
  intro H. unfold dcd_update_unguarded, dcd_update_gen. cbn [level_].
  set (y := xmul (Fin DCD_GAIN) (dcd_ratio false (level_1 d) (level_2 d))). clearbody y.
  destruct (level_ d) as [q| | |]; try discriminate H.
  - change (xmul PInf (Fin DCD_KEEP)) with PInf. destruct y; reflexivity.
  - change (xmul NInf (Fin DCD_KEEP)) with NInf. destruct y; reflexivity.
  - reflexivity.
Qed.

Lemma dcd_unguarded_latches_on_lemma : forall (d0 : dcd_t) (q0 a : Q) (bs : list (xval * xval)),
  level_ d0 = Fin q0 -> 0 < a ->
  xisfinite (level_ (dcd_blocks dcd_update_unguarded d0 ((Fin a, Fin 0) :: bs))) = false.
Proof.
  intros d0 q0 a bs H0 Ha. cbn [dcd_blocks fold_left].
  assert (H : xisfinite (level_ (dcd_block dcd_update_unguarded d0 (Fin a, Fin 0))) = false).
  { unfold dcd_block, dcd_update_unguarded, dcd_update_gen, dcd_ratio. cbn [fst snd level_ level_1 level_2 xdiv].
    rewrite H0. unfold qsgn at 1. cbn [Qnum Z.compare].
    assert (E : qsgn a = Gt). { unfold qsgn. destruct a as [n dn]. unfold Qlt in Ha. cbn in Ha |- *. apply Z.compare_gt_iff. lia. }
    rewrite E. reflexivity. }
  revert H. generalize (dcd_block dcd_update_unguarded d0 (Fin a, Fin 0)).
  induction bs as [|b bs IH]; intros d H; cbn [fold_left]; [exact H|].
  apply IH. unfold dcd_block. apply unguarded_nonfinite_sticks. exact H.
Qed.
