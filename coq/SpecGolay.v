(** The extended binary Golay code (24,12) of the M17 specification, written from the specification and
    textbook definitions only (independent of Golay24.h):

    - the (23,12) cyclic code with generator polynomial g(x) = x^11+x^10+x^6+x^5+x^4+x^2+1 (0xC75),
      bit i of a word = coefficient of x^i; systematic encoding  c(x) = d(x) x^11 + (d(x) x^11 mod g(x)),
      so the 12 data bits are the top 12 bits;
    - extended by one overall even-parity bit appended as the least significant bit (24 bits, data in bits 23..12);
    - Hamming weight / distance; the bounded-distance decoder of radius 3 (the code has minimum distance 8, so
      at most one codeword lies within distance 3 of any word). *)
From Coq Require Import NArith List Bool.
Import ListNotations.
Local Open Scope N_scope.

(** GF(2)[x] with polynomials as numbers *)
Definition g : N := 0xC75.
Definition deg_g : nat := 11.

(** [pmod n a]: remainder modulo g of a polynomial of degree < n + 11, by long division from the top *)
Fixpoint pmod (n : nat) (a : N) : N :=
  match n with
  | O => a
  | S n' => pmod n' (if N.testbit a (N.of_nat (n' + deg_g)) then N.lxor a (N.shiftl g (N.of_nat n')) else a)
  end.

(** carry-less product a(x) * b(x), a of degree < n *)
Fixpoint pmul (n : nat) (a b : N) : N :=
  match n with
  | O => 0
  | S n' => N.lxor (if N.testbit a (N.of_nat n') then N.shiftl b (N.of_nat n') else 0) (pmul n' a b)
  end.

(** number of ones among the low k bits *)
Fixpoint weight_k (k : nat) (x : N) : N :=
  match k with
  | O => 0
  | S k' => (if N.odd x then 1 else 0) + weight_k k' (N.div2 x)
  end.
Definition weight (x : N) : N := weight_k 24 x.
Definition hamming (a b : N) : N := weight (N.lxor a b).

Definition spec_encode23 (d : N) : N :=
  let m := N.shiftl d 11 in N.lxor m (pmod 12 m).

Definition spec_encode24 (d : N) : N :=
  let c := spec_encode23 d in 2 * c + (weight c) mod 2.

(** membership, stated without the encoder: 23-bit part is a multiple of g, overall parity even *)
Definition spec_is_codeword23 (c : N) : bool := (c <? 2 ^ 23) && (pmod 12 c =? 0).
Definition spec_is_codeword24 (c : N) : bool :=
  (c <? 2 ^ 24) && (pmod 12 (N.div2 c) =? 0) && ((weight c) mod 2 =? 0).

(** The parity part of the generator matrix [I12 | P] as tabulated for M17 implementations: row i is the 12
    check bits (11 cyclic check bits, then the overall parity bit) of the data word with only bit i set. *)
Definition spec_matrix : list N :=
  [0x8eb; 0x93e; 0xa97; 0xdc6; 0x367; 0x6cd; 0xd99; 0x3da; 0x7b4; 0xf68; 0x63b; 0xc75].

(** first number below 2^k satisfying f, by binary splitting on the low bit *)
Fixpoint search (k : nat) (f : N -> bool) : option N :=
  match k with
  | O => if f 0 then Some 0 else None
  | S k' =>
    match search k' (fun x => f (2 * x)) with
    | Some x => Some (2 * x)
    | None => match search k' (fun x => f (2 * x + 1)) with Some x => Some (2 * x + 1) | None => None end
    end
  end.

(** bounded-distance decoding, radius 3: the data word of a codeword within distance 3 of [r], if there is one *)
Definition within3 (r d : N) : bool := hamming r (spec_encode24 d) <=? 3.
Definition spec_decode (r : N) : option N := search 12 (within3 r).
