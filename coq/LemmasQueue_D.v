(** LemmasQueue_D — blocking and shutdown (C16): deadlines, reasons for returning false, close. *)
From Coq Require Import ZArith List Bool Arith Lia.
From M17 Require Import ImplQueue SpecQueue ConstsQueue LemmasQueue_A LemmasQueue_B LemmasQueue_C.
Import ListNotations.

Definition kind_ok (o : op) (p : point) : Prop :=
  match p with
  | PTestFull | PTestZero | PCompExp | PLoopFull _ | PLoopState _ | PWait _ | PWaiting _ | PWoken _
  | PTestState | PPush | PSizeInc | PNotify => is_put o = true
  | GTestEmpty | GTestClosed | GWait | GWaiting _ | GWoken _ | GPop | GSizeDec _ | GDrainTest _
  | GDrainWrite _ | GNotify _ => is_get o = true
  | CWrite | CNotifyFull | CNotifyEmpty => o = OpClose
  | QRead => exists q, o = OpQuery q
  | XLock | XRet _ => True
  end.
(** the deadline a thread is waiting with (None: no deadline, or not in the wait loop) *)
Definition dl_of (p : point) : option Z :=
  match p with
  | PLoopFull dl | PLoopState dl | PWait dl | PWaiting dl | PWoken dl | GWaiting dl | GWoken dl => dl
  | _ => None
  end.
Definition pt_inv (c : config) : Prop :=
  forall t o p, pcs c t = Some (o, p) -> kind_ok o p /\ (forever o -> dl_of p = None).

Lemma put_deadline_forever v per now : forever (OpPut v int64_max per) -> put_deadline int64_max per now = None.
Proof. intros _. unfold put_deadline. rewrite put_no_deadline_ok. reflexivity. Qed.
Lemma get_deadline_forever o now : is_get o = true -> forever o -> get_deadline o now = None.
Proof.
  destruct o; cbn [is_get forever get_deadline]; try discriminate; try tauto. intros _ ->.
  rewrite get_no_deadline_ok. reflexivity.
Qed.

Section D.
Variable cap : nat.

Lemma pt_inv_reach : forall c, reachable cap c -> pt_inv c.
Proof.
  by_reach.
  - intros n0 t o p. cbn. discriminate.
  - intros c t l c' R IH S.
    assert (IHt : forall o p, pcs c t = Some (o, p) -> kind_ok o p /\ (forever o -> dl_of p = None)) by (apply IH).
    inv_step S;
      try (match goal with H : pcs c t = _ |- _ => destruct (IHt _ _ H) as [K F]; cbn [kind_ok dl_of] in K, F end);
      intros uu o' p'; brk; unf; rel;
      (destruct (Nat.eq_dec uu t) as [->|Ne];
       [ rewrite ?upd_same | rewrite ?(upd_other _ _ _ _ Ne); try apply IH ]);
      try (intros E; injection E as <- <-; cbn [kind_ok dl_of]);
      try tauto; try discriminate; try (apply IH; fail);
      try (destruct o as [| | | |[]]; cbn; eauto; fail);
      try (split; [reflexivity | intros Fv; cbn [forever] in Fv; unfold put_deadline, is_max; rewrite put_no_deadline_ok, Fv; reflexivity]);
      try (split; [exact K | intros Fv; now apply get_deadline_forever]).
Qed.
End D.

Lemma reached_some dl now : reached dl now = true -> exists d, dl = Some d /\ (d <= now)%Z.
Proof. destruct dl; cbn; try discriminate. intros H. apply Z.leb_le in H. eauto. Qed.

Section D2.
Variable cap : nat.

(** why an operation may return false *)
Definition cause (c : config) (o : op) (p : point) (w : why) : Prop :=
  match w with
  | WTimeout => ~ forever o /\ exists d, dl_of p = Some d /\ (d <= now c)%Z
  | WNotOpen => is_put o = true /\ st c <> OPEN
  | WClosedEmpty => is_get o = true /\ st c = CLOSED /\ items c = []
  | WFull0 => (exists v per, o = OpPut v 0 per) /\ size_ c = cap
  end.

Lemma false_only_if_lemma : forall c t l c' o p o' w,
  reachable cap c -> step cap c t l c' ->
  pcs c t = Some (o, p) -> p <> XRet (RFail w) -> pcs c' t = Some (o', XRet (RFail w)) ->
  o' = o /\ cause c o p w.
Proof.
  intros c t l c' o p o' w R S Hpc Hne Hpc'.
  destruct (pt_inv_reach cap c R t o p Hpc) as [K F].
  pose proof (inv_B_reach cap c R) as (L & _ & _ & _). specialize (L t). rewrite Hpc in L.
  inv_step S;
    try (match goal with H : pcs c t = Some _ |- _ => rewrite Hpc in H; injection H as ? ?; subst end);
    try congruence;
    revert Hpc'; brk; unf; rel; rewrite ?upd_same; try congruence;
    intros E; injection E as E1 E2; subst; (split; [reflexivity|]); cbn [cause kind_ok dl_of loc] in *; norm_tests;
    try (destruct o'; discriminate);
    try tauto;
    try (match goal with H : (_ =? 0)%Z = true |- _ => apply Z.eqb_eq in H; subst end; split; eauto);
    try (match goal with H : true = true -> _ |- _ =>
           specialize (H eq_refl); apply reached_some in H; destruct H as (d & -> & Hd) end;
         split; [ intros Fv; specialize (F Fv); discriminate | eauto ]).
Qed.
End D2.

Section D3.
Variable cap : nat.

(** with the default timeout no operation ever records a time-out (history form) *)
Lemma forever_never_times_out_lemma : forall c, reachable cap c ->
  forall t o, In (HLin t o (RFail WTimeout)) (hist c) -> ~ forever o.
Proof.
  by_reach.
  - cbn. tauto.
  - intros c t l c' R IH S u o' Hin.
    assert (G : forall o p, pcs c t = Some (o, p) -> pcs c' t = Some (o, XRet (RFail WTimeout)) ->
                            p <> XRet (RFail WTimeout) -> ~ forever o).
    { intros o p Hpc Hpc' Hne. now destruct (false_only_if_lemma cap c t l c' o p o WTimeout R S Hpc Hne Hpc') as [_ [Hf _]]. }
    inv_step S; revert Hin; brk; unf; rel; cbn [In]; intros Hin;
      try (apply (IH u o' Hin); fail);
      (destruct Hin as [E | Hin]; [ try discriminate E | apply (IH u o' Hin) ]);
      injection E as <- <-; try discriminate;
      match goal with H : pcs c _ = Some _ |- _ => eapply (G _ _ H); [ unf; rewrite upd_same; reflexivity | discriminate ] end.
Qed.

Lemma close_wakes_all_lemma : forall c t c',
  reachable cap c -> step cap c t (LNotifyAll CvEmpty) c' -> wfull c' = [] /\ wempty c' = [].
Proof.
  intros c t c' R S. pose proof (inv_B_reach cap c R) as (L & _ & _ & _). specialize (L t).
  inversion S; subst; unfold at_ in *;
    try (destruct (drain_assigns o); discriminate);
    try (destruct ConstsQueue.close_notify_all_full; discriminate).
  match goal with H : pcs c t = _ |- _ => rewrite H in L end. cbn in L. unf. split; [exact L | reflexivity].
Qed.

Lemma closed_stays_step : forall c t l c', reachable cap c -> step cap c t l c' -> st c <> OPEN -> st c' <> OPEN.
Proof.
  intros c t l c' R S H. inv_step S; brk; unf; rel; auto; try discriminate.
  unfold close_state. destruct (is_nil (items c)); discriminate.
Qed.

Lemma no_push_after_close : forall c t v h c',
  reachable cap c -> st c <> OPEN -> step cap c t (LPush v h) c' -> False.
Proof.
  intros c t v h c' R H S. pose proof (inv_B_reach cap c R) as (L & _ & _ & _). specialize (L t).
  inversion S; subst; unfold at_ in *; try (destruct (drain_assigns o); discriminate).
  match goal with H : pcs c t = _ |- _ => rewrite H in L end. cbn in L. tauto.
Qed.

(** after close nothing more is accepted, and what was accepted before is handed out in order *)
Lemma after_close_step : forall c t l c', reachable cap c -> step cap c t l c' -> st c <> OPEN ->
  enq c' = enq c /\ exists got, deq c' = deq c ++ got.
Proof.
  intros c t l c' R S H. pose proof (inv_B_reach cap c R) as (L & _ & _ & _). specialize (L t).
  inv_step S; brk; unf; rel;
    try (split; [reflexivity | exists []; now rewrite app_nil_r]);
    try (split; [reflexivity | eauto]; fail).
  match goal with H : pcs c t = _ |- _ => rewrite H in L end. cbn in L. tauto.
Qed.

Lemma after_close_steps : forall c ls c', reachable cap c -> steps cap c ls c' -> st c <> OPEN ->
  st c' <> OPEN /\ enq c' = enq c /\ exists got, deq c' = deq c ++ got /\ items c = got ++ items c'.
Proof.
  intros c ls c' R H Hst. induction H.
  - split; auto. split; auto. exists []. now rewrite app_nil_r.
  - destruct IHsteps as (Hb & He & got & Hd & Hi).
    assert (Rb : reachable cap b) by (eapply steps_reach; eauto).
    destruct (after_close_step b t l c0 Rb H0 Hb) as (He' & got' & Hd').
    split; [eapply closed_stays_step; eauto|]. split; [congruence|].
    exists (got ++ got'). split; [rewrite Hd', Hd; now rewrite app_assoc|].
    pose proof (fifo_reach cap b Rb) as Fb. pose proof (fifo_reach cap c0 (reach_step cap _ _ _ _ Rb H0)) as Fc.
    rewrite He', Fb, Hd', <- app_assoc in Fc. apply app_inv_head in Fc. rewrite Hi, Fc. now rewrite app_assoc.
Qed.

Lemma drained_is_closed_lemma : forall c, reachable cap c ->
  st c <> OPEN -> items c = [] -> (forall t, draining (pcs c t) = false) -> st c = CLOSED.
Proof.
  intros c R H E D. destruct (st c) eqn:Es; try congruence.
  destruct (closing_reach cap c R Es) as [Hne | (u & Hu)]; [contradiction | rewrite D in Hu; discriminate].
Qed.

Lemma no_wait_when_closed : forall c t cv dl c',
  reachable cap c -> st c = CLOSED -> step cap c t (LWaitEnter cv dl) c' -> False.
Proof.
  intros c t cv dl c' R H S. pose proof (inv_B_reach cap c R) as (L & _ & _ & _). specialize (L t).
  pose proof (pt_inv_reach cap c R t) as K.
  inversion S; subst; unfold at_ in *; try (destruct (drain_assigns o); discriminate);
    match goal with H : pcs c t = _ |- _ => rewrite H in L; destruct (K _ _ H) as [K' _] end; cbn in L.
  - destruct L as [_ L]. congruence.
  - tauto.
Qed.
End D3.

Section D4.
Variable cap : nat.

(** a drained closed queue stays drained and closed *)
Lemma closed_stable_step : forall c t l c', reachable cap c -> step cap c t l c' -> st c = CLOSED ->
  st c' = CLOSED /\ items c' = [].
Proof.
  intros c t l c' R S H. pose proof (inv_B_reach cap c R) as (L & _ & _ & Hc). specialize (L t). specialize (Hc H).
  inv_step S; brk; unf; rel; try (split; assumption); try (split; [reflexivity | assumption]);
    try (match goal with H : pcs c t = _ |- _ => rewrite H in L end; cbn in L).
  - destruct L; congruence.
  - congruence.
  - unfold close_state. rewrite Hc. split; reflexivity.
Qed.

(** from a drained closed queue a get that has the mutex reaches [return false] in two steps, neither of them a wait *)
Lemma get_fails_at_once_lemma : forall c t o,
  reachable cap c -> st c = CLOSED -> pcs c t = Some (o, GTestEmpty) ->
  exists c1 c2, step cap c t (LRead RdItems true) c1 /\ step cap c1 t (LRead RdState true) c2 /\
                pcs c2 t = Some (o, XRet (RFail WClosedEmpty)).
Proof.
  intros c t o R H Hpc.
  pose proof (inv_B_reach cap c R) as (_ & _ & _ & Hc). specialize (Hc H).
  destruct (pt_inv_reach cap c R t o _ Hpc) as [K _]. cbn in K.
  assert (Hm : mutex c = Some t) by (apply (mutex_inv_reach cap c R t); rewrite Hpc; reflexivity).
  pose proof (S_g_test_empty cap c t o Hpc K) as S1. rewrite (holds_true c t Hm), Hc in S1. cbn [is_nil] in S1.
  eexists. eexists. split; [exact S1|].
  set (c1 := go c t o GTestClosed) in *.
  assert (Hpc1 : pcs c1 t = Some (o, GTestClosed)) by (unfold c1; unf; apply upd_same).
  pose proof (S_g_test_closed cap c1 t o Hpc1) as S2.
  assert (Hh : holds c1 t = true) by (apply holds_true; exact Hm).
  assert (Hs : st c1 = CLOSED) by exact H.
  rewrite Hh, Hs in S2. cbn [st_eqb] in S2. split; [exact S2|].
  unfold fail, c1. unf. apply upd_same.
Qed.
End D4.

(** the int64 deadline arithmetic is exact whenever the mathematical result is representable *)
Lemma wrap64_id z : (- 2^63 <= z < 2^63)%Z -> wrap64 z = z.
Proof. intros H. unfold wrap64. rewrite Z.mod_small; lia. Qed.
Lemma put_deadline_exact count per now :
  count <> int64_max -> (- 2^63 <= count * per < 2^63)%Z -> (- 2^63 <= now + count * per < 2^63)%Z ->
  put_deadline count per now = Some (now + count * per)%Z.
Proof.
  intros Hc H1 H2. unfold put_deadline, is_max, to_ns. apply Z.eqb_neq in Hc. rewrite Hc, andb_false_r.
  now rewrite (wrap64_id _ H1), (wrap64_id _ H2).
Qed.
Lemma get_deadline_exact count per now :
  count <> int64_max -> (- 2^63 <= count * per < 2^63)%Z -> (- 2^63 <= now + count * per < 2^63)%Z ->
  get_deadline (OpGet count per) now = Some (now + count * per)%Z.
Proof.
  intros Hc H1 H2. unfold get_deadline, is_max, to_ns. apply Z.eqb_neq in Hc. rewrite Hc, andb_false_r.
  now rewrite (wrap64_id _ H1), (wrap64_id _ H2).
Qed.
