(** Checked memory accesses for the C07 models.

    Every array / vector / string access of the modelled C++ goes through one of the
    accessors below.  An access outside the object is the result [Oob site] (what a
    bounds-checked build aborts on); a C++ exception that nothing catches is [Throw site]
    (std::terminate); [Diverge] is "the explicit fuel of a data-dependent loop ran out".
    The C07 theorems say that the result of a run is [Ok _] for every input.

    Text (stderr / stdout) is a list of bytes [list N]; [str] converts a literal. *)
From Coq Require Import NArith ZArith Bool String Ascii Lia Arith List.
Import ListNotations.

Inductive res (A : Type) : Type :=
| Ok (a : A)
| Oob (site : string)
| Throw (site : string)
| Diverge.
Arguments Ok {A} a.
Arguments Oob {A} site.
Arguments Throw {A} site.
Arguments Diverge {A}.

Definition bind {A B} (m : res A) (f : A -> res B) : res B :=
  match m with
  | Ok a => f a
  | Oob s => Oob s
  | Throw s => Throw s
  | Diverge => Diverge
  end.

Declare Scope res_scope.
Delimit Scope res_scope with res.
Notation "x <- m ;; k" := (bind m (fun x => k)) (at level 61, m at next level, right associativity) : res_scope.
Notation "' pat <- m ;; k" := (bind m (fun x => match x with pat => k end))
  (at level 61, pat pattern, m at next level, right associativity) : res_scope.
Open Scope res_scope.

Definition is_ok {A} (r : res A) : Prop := exists a, r = Ok a.
Definition is_okb {A} (r : res A) : bool := match r with Ok _ => true | _ => false end.

Section Access.
Context {A : Type}.

(** operator[] / *(p + i) on an object of [length l] elements *)
Definition get (site : string) (l : list A) (i : nat) : res A :=
  match nth_error l i with
  | Some x => Ok x
  | None => Oob site
  end.

Fixpoint replace_nth (l : list A) (i : nat) (v : A) : list A :=
  match l, i with
  | [], _ => []
  | _ :: t, O => v :: t
  | h :: t, S j => h :: replace_nth t j v
  end.

Definition set (site : string) (l : list A) (i : nat) (v : A) : res (list A) :=
  if i <? length l then Ok (replace_nth l i v) else Oob site.

(** the reads of a loop  for (i : idxs) ... l[i] ...  *)
Fixpoint get_each (site : string) (l : list A) (idxs : list nat) : res (list A) :=
  match idxs with
  | [] => Ok []
  | i :: r => x <- get site l i ;; xs <- get_each site l r ;; Ok (x :: xs)
  end.

(** an iterator / pointer range [first + a, first + b) handed to std::copy, write(), assign():
    it must be a valid range of the object *)
Definition range (site : string) (l : list A) (a b : nat) : res (list A) :=
  if (a <=? b) && (b <=? length l) then Ok (firstn (b - a) (skipn a l)) else Oob site.

(** std::copy(src..., dst.begin() + at) : overwrite |src| elements of dst starting at [at] *)
Fixpoint write_at (site : string) (dst : list A) (at_ : nat) (src : list A) : res (list A) :=
  match src with
  | [] => Ok dst
  | x :: r => d <- set site dst at_ x ;; write_at site d (S at_) r
  end.

(** std::vector::front() *)
Definition front (site : string) (l : list A) : res A :=
  match l with x :: _ => Ok x | [] => Oob site end.
End Access.

(** std::string members (characters are bytes, [N]) *)
Definition str_at (site : string) (s : list N) (i : nat) : res N :=
  (* operator[]: pos == size() is allowed and yields the terminating NUL *)
  if i =? length s then Ok 0%N else get site s i.
Definition substr (site : string) (s : list N) (pos len : nat) : res (list N) :=
  if pos <=? length s then Ok (firstn len (skipn pos s)) else Throw site.   (* std::out_of_range *)
Definition erase_from (site : string) (s : list N) (pos : nat) : res (list N) :=
  if pos <=? length s then Ok (firstn pos s) else Throw site.               (* std::out_of_range *)
Fixpoint find_first (c : N) (s : list N) : option nat :=
  match s with
  | [] => None
  | x :: r => if N.eqb x c then Some O else option_map S (find_first c r)
  end.

(** ---- text helpers (iostream formatting) *)
Definition str (s : string) : list N := map (fun a => N_of_ascii a) (list_ascii_of_string s).

Definition digit_char (d : N) : N := if (d <? 10)%N then (48 + d)%N else (87 + d)%N.   (* lowercase hex, as iostreams print *)

Fixpoint digits_fuel (base : N) (fuel : nat) (n : N) (acc : list N) : list N :=
  match fuel with
  | O => acc
  | S f => let acc' := digit_char (n mod base) :: acc in
           if (n / base =? 0)%N then acc' else digits_fuel base f (n / base) acc'
  end.
(** operator<<(unsigned) in the given base, no padding *)
Definition show_base (base : N) (n : N) : list N := digits_fuel base (S (N.to_nat (N.log2 n))) n [].
Definition show_dec := show_base 10.
Definition show_hex := show_base 16.
(** setw(w) << setfill(c) (right adjustment, the default) *)
Definition pad_left (w : nat) (c : N) (l : list N) : list N := repeat c (w - length l) ++ l.

Fixpoint list_N_eqb (a b : list N) : bool :=
  match a, b with
  | [], [] => true
  | x :: a', y :: b' => N.eqb x y && list_N_eqb a' b'
  | _, _ => false
  end.

(** [contains pat text]: pat occurs in text *)
Definition contains (pat text : list N) : Prop := exists a b, text = a ++ pat ++ b.

(** int16 sample -> two bytes, little endian (the memory image cout.write() emits) *)
Definition le16 (s : Z) : list N := [Z.to_N (s mod 256); Z.to_N ((s / 256) mod 256)]%Z.
