(** Extraction of the executable control-logic model (transition checker) and of the carrier-detect model
    for the correspondence checks of C03 and C06: ExtrOcamlBasic only. *)
Require Extraction.
Require Import ExtrOcamlBasic.
From Coq Require Import ZArith QArith List.
From M17 Require Import ConstsDemod ImplDemodCtl SpecDemodCtl.
Extraction "c03_model.ml" step st_init mkst mkobs run mon_step mon0
  dcd_update dcd_update_unguarded dcd_unlock dcd_init mkdcd xgt
  boundary track_good wf_st
  N.succ far_next Z.add Z.mul Z.compare Qcompare Qminus Qmult Qred
  DCD_LTRIGGER DCD_HTRIGGER DCD_RATIO_GUARDED INITIALIZING POLL_DCD POLL_NODCD.
