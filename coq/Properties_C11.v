(** C11 — puncture / depuncture keep positions exactly and mark everything else erased.
    Only the property theorems (each closed by [exact] / a one-line instantiation) and their Print Assumptions.
    Model: ImplPuncture.v (mirror of Util.h depunctured/depuncture/puncture/puncture_bytes and Trellis.h
    make_p1/P1/P2/P3 as they are NOW, i.e. with the fix "depuncture() marks positions after the last received
    bit as erased"); specification: SpecPuncture.v (mask, keep, spread).  The prior content of the output array
    is an explicit argument [prev]; all statements quantify over all contents and all [prev]. *)
From Coq Require Import NArith ZArith List Bool.
From M17 Require Import Bits ImplUtilBits ConstsPuncture ImplPuncture SpecPuncture LemmasUtilBits LemmasPuncture.
Import ListNotations.

(** * the matrices and the call sites *)
Theorem c11_matrices : make_p1 = SpecPuncture.p1 /\ P1 = SpecPuncture.p1 /\ P2 = SpecPuncture.p2 /\ P3 = SpecPuncture.p3.
Proof. exact (conj make_p1_is_spec (conj make_p1_is_spec (conj P2_is_spec P3_is_spec))). Qed.
Print Assumptions c11_matrices.

(** every call in the modem uses one of the geometries treated below, as (matrix number, IN, OUT) *)
Theorem c11_sites :
  Forall (fun s => In s [(1, 368, 488); (2, 272, 296); (2, 368, 402); (3, 368, 420)]%N) depuncture_sites /\
  Forall (fun s => In s [(1, 488, 368); (2, 296, 272); (2, 402, 368); (3, 420, 368)]%N) puncture_sites /\
  Forall (fun s => In s [(1, 61, 46); (2, 37, 34)]%N) puncture_bytes_sites.
Proof. exact puncture_sites_lemma. Qed.
Print Assumptions c11_sites.

(** * puncture *)

(** for every matrix, every element type and content, and every prior content of the output: the output is exactly the
    first OUT kept elements, in order, and the returned count is OUT (when the matrix keeps at least OUT positions) *)
Theorem c11_puncture_general : forall (p : list N) (OUT : nat) (A : Type) (inp prev : list A),
  0 < length p -> length prev = OUT -> OUT <= count_true (mask p (length inp)) ->
  puncture p OUT inp prev = (firstn OUT (keep (mask p (length inp)) inp), OUT).
Proof. exact puncture_general_thm. Qed.
Print Assumptions c11_puncture_general.

(** the four geometries: exactly one frame's worth of bits (368, 272, 368, 368) *)
Theorem c11_puncture_geometries : forall (A : Type) (l prev : list A),
  (length l = 488 -> length prev = 368 ->
     puncture_lsf l prev = (firstn 368 (keep (mask P1 488) l), 368) /\ length (firstn 368 (keep (mask P1 488) l)) = 368) /\
  (length l = 296 -> length prev = 272 ->
     puncture_stream l prev = (firstn 272 (keep (mask P2 296) l), 272) /\ length (firstn 272 (keep (mask P2 296) l)) = 272) /\
  (length l = 402 -> length prev = 368 ->
     puncture_bert l prev = (firstn 368 (keep (mask P2 402) l), 368) /\ length (firstn 368 (keep (mask P2 402) l)) = 368) /\
  (length l = 420 -> length prev = 368 ->
     puncture_packet l prev = (firstn 368 (keep (mask P3 420) l), 368) /\ length (firstn 368 (keep (mask P3 420) l)) = 368).
Proof. exact puncture_geometries_thm. Qed.
Print Assumptions c11_puncture_geometries.

(** nothing that the matrix keeps is dropped in the LSF, stream and packet geometries ... *)
Theorem c11_keep_drops_nothing : forall (A : Type) (l : list A),
  (length l = 488 -> firstn 368 (keep (mask P1 488) l) = keep (mask P1 488) l) /\
  (length l = 296 -> firstn 272 (keep (mask P2 296) l) = keep (mask P2 296) l) /\
  (length l = 420 -> firstn 368 (keep (mask P3 420) l) = keep (mask P3 420) l).
Proof. exact keep_drops_nothing_thm. Qed.
Print Assumptions c11_keep_drops_nothing.

(** ... and in the BERT geometry the matrix keeps 369 positions: exactly the last kept one, position 401, is cut *)
Theorem c11_bert_cut : forall (A : Type) (d : A) (l : list A), length l = 402 ->
  keep (mask P2 402) l = firstn 368 (keep (mask P2 402) l) ++ [nth 401 l d] /\
  firstn 368 (keep (mask P2 402) l) = keep (mask P2 401) (firstn 401 l).
Proof. exact (@bert_keep). Qed.
Print Assumptions c11_bert_cut.

(** puncture_bytes is puncture on the MSB-first bit views, for every matrix, size and content *)
Theorem c11_puncture_bytes_agrees : forall (p : list N) (OUT : nat) (inp prev : list N), length prev = OUT ->
  bytes_bits (fst (puncture_bytes p OUT inp prev)) = fst (puncture p (OUT * 8) (bytes_bits inp) (bytes_bits prev)) /\
  snd (puncture_bytes p OUT inp prev) = snd (puncture p (OUT * 8) (bytes_bits inp) (bytes_bits prev)) /\
  length (fst (puncture_bytes p OUT inp prev)) = OUT.
Proof. exact puncture_bytes_spec. Qed.
Print Assumptions c11_puncture_bytes_agrees.

(** the modulator's two packed geometries (61 -> 46 bytes with P1; 37 -> 34 bytes with P2) *)
Theorem c11_puncture_bytes_geometries : forall inp prev : list N,
  (length inp = 61 -> length prev = 46 ->
     bytes_bits (fst (puncture_bytes_lsf inp prev)) = keep (mask P1 488) (bytes_bits inp) /\
     snd (puncture_bytes_lsf inp prev) = 368 /\ length (fst (puncture_bytes_lsf inp prev)) = 46) /\
  (length inp = 37 -> length prev = 34 ->
     bytes_bits (fst (puncture_bytes_stream inp prev)) = keep (mask P2 296) (bytes_bits inp) /\
     snd (puncture_bytes_stream inp prev) = 272 /\ length (fst (puncture_bytes_stream inp prev)) = 34).
Proof. exact puncture_bytes_geometries_thm. Qed.
Print Assumptions c11_puncture_bytes_geometries.

(** * depuncture *)

(** EVERY output position is defined, whatever the output array held before: for every matrix, size, received frame
    (of any length) and prior content the result is the specification's [spread] — received values at the kept positions,
    the erasure value 0 at punctured positions and at positions for which no received value is left *)
Theorem c11_depuncture_defines_all : forall (p : list N) (OUT : nat) (x prev : list Z),
  0 < length p -> length prev = OUT ->
  depuncture p OUT x prev = (spread 0%Z (mask p OUT) x, erasures (mask p OUT) (length x)).
Proof. exact depuncture_spec. Qed.
Print Assumptions c11_depuncture_defines_all.

(** hence no dependence on the reused buffer, in each geometry of the decoder, with the returned erasure mask_counts *)
Theorem c11_depuncture_geometries : forall x prev : list Z,
  (length x = 368 -> length prev = 488 -> depuncture_lsf x prev = (spread 0%Z (mask P1 488) x, 120)) /\
  (length x = 272 -> length prev = 296 -> depuncture_stream x prev = (spread 0%Z (mask P2 296) x, 24)) /\
  (length x = 368 -> length prev = 402 -> depuncture_bert x prev = (spread 0%Z (mask P2 402) x, 34)) /\
  (length x = 368 -> length prev = 420 -> depuncture_packet x prev = (spread 0%Z (mask P3 420) x, 52)).
Proof. exact depuncture_geometries_thm. Qed.
Print Assumptions c11_depuncture_geometries.

Theorem c11_depuncture_history_free : forall (p : list N) (OUT : nat) (x prev prev' : list Z),
  0 < length p -> length prev = OUT -> length prev' = OUT -> depuncture p OUT x prev = depuncture p OUT x prev'.
Proof. exact depuncture_history_free_thm. Qed.
Print Assumptions c11_depuncture_history_free.

(** depunctured<M>: the same map, from any content of its (uninitialised) local array *)
Theorem c11_depunctured_is_spread : forall (p : list N) (M : nat) (inp junk : list Z),
  0 < length p -> length junk = M -> depunctured_from p M inp junk = spread 0%Z (mask p M) inp.
Proof. exact depunctured_spec. Qed.
Print Assumptions c11_depunctured_is_spread.

(** * depuncture after puncture: identity on the kept (and transmitted) positions, 0 on the others *)
Theorem c11_depuncture_puncture : forall l prev1 prev2 : list Z,
  (length l = 488 -> length prev1 = 368 -> length prev2 = 488 ->
     fst (depuncture_lsf (fst (puncture_lsf l prev1)) prev2) = erase_unkept 0%Z (mask P1 488) l) /\
  (length l = 296 -> length prev1 = 272 -> length prev2 = 296 ->
     fst (depuncture_stream (fst (puncture_stream l prev1)) prev2) = erase_unkept 0%Z (mask P2 296) l) /\
  (length l = 402 -> length prev1 = 368 -> length prev2 = 402 ->
     fst (depuncture_bert (fst (puncture_bert l prev1)) prev2) = erase_unkept 0%Z (mask P2 401 ++ [false]) l) /\
  (length l = 420 -> length prev1 = 368 -> length prev2 = 420 ->
     fst (depuncture_packet (fst (puncture_packet l prev1)) prev2) = erase_unkept 0%Z (mask P3 420) l).
Proof. exact depuncture_puncture_thm. Qed.
Print Assumptions c11_depuncture_puncture.

(** position by position: [erase_unkept] is the element where the mask is 1 and 0 elsewhere *)
Theorem c11_erase_unkept_nth : forall (m : list bool) (l : list Z) (i : nat), length m = length l ->
  nth i (erase_unkept 0%Z m l) 0%Z = if nth i m false then nth i l 0%Z else 0%Z.
Proof. exact (@nth_erase_unkept Z 0%Z). Qed.
Print Assumptions c11_erase_unkept_nth.

(** * Non-vacuity: concrete frames *)
Example c11_ex_p1 : P1 = [1;1;0;1; 1;1;0;1; 1;1;0;1; 1;1;0;1; 1;1;0;1; 1;1;0;1; 1;1;0;1; 1;1;0;1; 1;1;0;1; 1;1;0;1;
                          1;1;0;1; 1;1;0;1; 1;1;0;1; 1;1;0;1; 1;1;0;1; 1]%N.
Proof. reflexivity. Qed.
Example c11_ex_puncture : let l := map Z.of_nat (seq 1 488) in
  length l = 488 /\ firstn 6 (fst (puncture_lsf l (repeat 0%Z 368))) = [1; 2; 4; 5; 6; 8]%Z /\ snd (puncture_lsf l (repeat 0%Z 368)) = 368.
Proof. vm_compute. repeat split; reflexivity. Qed.
Example c11_ex_bert_tail : let x := map Z.of_nat (seq 1 368) in
  skipn 396 (fst (depuncture_bert x (repeat 85%Z 402))) = [364; 365; 366; 367; 368; 0]%Z /\ snd (depuncture_bert x (repeat 85%Z 402)) = 34.
Proof. vm_compute. split; reflexivity. Qed.
Example c11_ex_roundtrip : let l := map Z.of_nat (seq 1 402) in
  skipn 394 (fst (depuncture_bert (fst (puncture_bert l (repeat 7%Z 368))) (repeat 85%Z 402))) = [395; 0; 397; 398; 399; 400; 401; 0]%Z.
Proof. vm_compute. reflexivity. Qed.
