(** Gallina mirror of struct PRBS9 (include/m17cxx/Util.h), statement by statement.
    Members keep their C++ widths: the counters wrap explicitly (uint8 sync_count, uint32 bit_count/err_count,
    size_t hist_count/hist_pos), the history is the array of 16 bytes.  No proofs in this file. *)
From Coq Require Import NArith List Bool.
From M17 Require Import Bits ConstsPrbs.
Import ListNotations.
Local Open Scope N_scope.

Record prbs := mkPRBS {
  state : N;            (* uint16_t *)
  synced : bool;
  sync_count : N;       (* uint8_t  *)
  bit_count : N;        (* uint32_t *)
  err_count : N;        (* uint32_t *)
  history : list N;     (* std::array<uint8_t, 16> *)
  hist_count : N;       (* size_t *)
  hist_pos : N          (* size_t *)
}.

Definition wrap (bits x : N) : N := x mod 2 ^ bits.
Definition w_sync := wrap ConstsPrbs.prbs_sync_count_bits.
Definition w_bits := wrap ConstsPrbs.prbs_bit_count_bits.
Definition w_errs := wrap ConstsPrbs.prbs_err_count_bits.
Definition w_hcnt := wrap ConstsPrbs.prbs_hist_count_bits.
Definition w_hpos := wrap ConstsPrbs.prbs_hist_pos_bits.

(** ((state >> TAP_1) ^ (state >> TAP_2)) & 1 *)
Definition taps (s : N) : bool :=
  negb (N.land (N.lxor (N.shiftr s ConstsPrbs.prbs_TAP_1) (N.shiftr s ConstsPrbs.prbs_TAP_2)) 1 =? 0).

(** ((state << 1) | bit) & MASK *)
Definition shift_in (s : N) (b : bool) : N := N.land (N.lor (N.shiftl s 1) (b2n b)) ConstsPrbs.prbs_MASK.

(** array write; the index is shown to be in range separately (an out-of-range write leaves the list unchanged) *)
Fixpoint upd {A} (l : list A) (i : nat) (x : A) : list A :=
  match l, i with
  | [], _ => []
  | _ :: t, O => x :: t
  | h :: t, S j => h :: upd t j x
  end.

Definition zero_history : list N := repeat 0 ConstsPrbs.prbs_history_size.

(** the object as constructed: [history] has no initialiser in the C++, so its content is a parameter *)
Definition prbs_new (uninitialised_history : list N) : prbs :=
  mkPRBS ConstsPrbs.prbs_state_init ConstsPrbs.prbs_synced_init ConstsPrbs.prbs_sync_count_init
         ConstsPrbs.prbs_bit_count_init ConstsPrbs.prbs_err_count_init uninitialised_history
         ConstsPrbs.prbs_hist_count_init ConstsPrbs.prbs_hist_pos_init.

(** void reset() *)
(** the members it assigns are read from the source (the ConstsPrbs.prbs_reset_ constants): one it does not mention keeps its value *)
Definition keep (o : option N) (old : N) : N := match o with Some x => x | None => old end.
Definition prbs_reset (v : prbs) : prbs :=
  mkPRBS ConstsPrbs.prbs_reset_state
         (match ConstsPrbs.prbs_reset_synced with Some x => negb (N.eqb x 0) | None => synced v end)
         (keep ConstsPrbs.prbs_reset_sync_count (sync_count v))
         (keep ConstsPrbs.prbs_reset_bit_count (bit_count v))
         (keep ConstsPrbs.prbs_reset_err_count (err_count v))
         (match ConstsPrbs.prbs_reset_history_fill with Some x => repeat x ConstsPrbs.prbs_history_size | None => history v end)
         (keep ConstsPrbs.prbs_reset_hist_count (hist_count v))
         (keep ConstsPrbs.prbs_reset_hist_pos (hist_pos v)).

(** bool generate() *)
Definition prbs_generate (v : prbs) : prbs * bool :=
  let result := taps (state v) in
  (mkPRBS (shift_in (state v) result) (synced v) (sync_count v) (bit_count v) (err_count v)
          (history v) (hist_count v) (hist_pos v), result).

(** void count_errors(bool error) *)
Definition prbs_count_errors (v : prbs) (error : bool) : prbs :=
  let bit_count1 := w_bits (bit_count v + 1) in
  let idx := N.to_nat (N.shiftr (hist_pos v) ConstsPrbs.prbs_hist_byte_shift) in
  let m := N.shiftl 1 (N.land (hist_pos v) ConstsPrbs.prbs_hist_bit_mask) in
  let byte := nth idx (history v) 0 in
  (* hist_count -= (history[hist_pos >> 3] & (1 << (hist_pos & 7))) != 0;   size_t arithmetic *)
  let old := negb (N.land byte m =? 0) in
  let hist_count1 := w_hcnt (hist_count v + 2 ^ ConstsPrbs.prbs_hist_count_bits - b2n old) in
  let hist_pos1 := w_hpos (hist_pos v + 1) in
  let hist_pos2 := if hist_pos1 =? ConstsPrbs.prbs_hist_len then ConstsPrbs.prbs_hist_wrap_to else hist_pos1 in
  if error then
    let err_count1 := w_errs (err_count v + 1) in
    let hist_count2 := w_hcnt (hist_count1 + 1) in
    let history1 := upd (history v) idx (N.land (N.lor byte m) 255) in                 (* uint8_t |= int *)
    let synced1 := if ConstsPrbs.prbs_UNLOCK_COUNT <=? hist_count2 then false else synced v in
    mkPRBS (state v) synced1 (sync_count v) bit_count1 err_count1 history1 hist_count2 hist_pos2
  else
    let history1 := upd (history v) idx (N.land (N.ldiff byte m) 255) in               (* uint8_t &= ~int *)
    mkPRBS (state v) (synced v) (sync_count v) bit_count1 (err_count v) history1 hist_count1 hist_pos2.

(** bool synchronize(bool bit) *)
Definition prbs_synchronize (v : prbs) (bit : bool) : prbs * bool :=
  let result := xorb bit (taps (state v)) in            (* (bit ^ (state >> TAP_1) ^ (state >> TAP_2)) & 1 *)
  let state1 := shift_in (state v) bit in
  if result then
    (mkPRBS state1 (synced v) 0 (bit_count v) (err_count v) (history v) (hist_count v) (hist_pos v), result)
  else
    let sync_count1 := w_sync (sync_count v + 1) in      (* ++sync_count on uint8_t *)
    if sync_count1 =? ConstsPrbs.prbs_LOCK_COUNT then
      (mkPRBS state1 true 0 (w_bits (bit_count v + ConstsPrbs.prbs_LOCK_COUNT)) (err_count v) zero_history 0 0, result)
    else
      (mkPRBS state1 (synced v) sync_count1 (bit_count v) (err_count v) (history v) (hist_count v) (hist_pos v), result).

(** bool validate(bool bit) *)
Definition prbs_validate (v : prbs) (bit : bool) : prbs * bool :=
  if negb (synced v) then prbs_synchronize v bit
  else
    let (v1, g) := prbs_generate v in
    let result := xorb bit g in
    (prbs_count_errors v1 result, result).

(** feeding a bit string; the results of validate() are collected *)
Definition validate_step (acc : prbs * list bool) (bit : bool) : prbs * list bool :=
  let (v', r) := prbs_validate (fst acc) bit in (v', snd acc ++ [r]).
Definition validate_all (v : prbs) (bits : list bool) : prbs * list bool := fold_left validate_step bits (v, []).
Definition run (v : prbs) (bits : list bool) : prbs := fold_left (fun v b => fst (prbs_validate v b)) bits v.

(** n calls of generate(): the bits, and the object afterwards *)
Fixpoint generate_n (v : prbs) (n : nat) : prbs * list bool :=
  match n with
  | O => (v, [])
  | S n' => let (v1, b) := prbs_generate v in let (v2, bs) := generate_n v1 n' in (v2, b :: bs)
  end.
