(** C04 — Golay(24,12): corrects every <= 3-bit error, rejects every 4-bit error, never succeeds with data
    other than that of the unique codeword within distance three; the encoder is systematic, linear, of
    minimum distance 8.  Only the property theorems (each closed by [exact]) and their Print Assumptions.
    Models: ImplGolay.v (mirror of Golay24.h as it is now, i.e. with the acceptance rule
    popcount(correction) < 3 || !parity(output)) and SpecGolay.v (cyclic code g = 0xC75 + parity bit,
    Hamming weight, bounded-distance decoder).  [weight]/[hamming] are the specification's (ones among the
    low 24 bits); data words are the numbers below 4096 = 2^12, received words the numbers below 2^24. *)
From Coq Require Import NArith List Bool Sorted Permutation.
From M17 Require Import Bits ConstsGolay ImplGolay ImplGolayFast SpecGolay LemmasGolay_A LemmasGolay_B LemmasGolay_C LemmasGolay_D LemmasGolay_E LemmasGolay_F.
Import ListNotations.
Local Open Scope N_scope.

(** ** the encoder *)
Theorem c04_encode_systematic : forall d, d < 4096 -> N.shiftr (golay_encode24 d) 12 = d.
Proof. exact x_encode_systematic. Qed.
Print Assumptions c04_encode_systematic.

(** encode24 is the specification's systematic encoder of the cyclic code g = 0xC75 extended by even parity *)
Theorem c04_encode_is_spec : forall d, d < 4096 ->
  golay_encode24 d = spec_encode24 d /\ spec_is_codeword24 (golay_encode24 d) = true.
Proof. exact x_encode_is_spec. Qed.
Print Assumptions c04_encode_is_spec.

Theorem c04_codeword_syndrome_zero : forall d, d < 4096 ->
  syndrome (encode23 d) = 0 /\ syndrome (N.shiftr (golay_encode24 d) 1) = 0.
Proof. exact x_codeword_syndrome_zero. Qed.
Print Assumptions c04_codeword_syndrome_zero.

Theorem c04_codeword_even_parity : forall d, d < 4096 ->
  parity (golay_encode24 d) = false /\ (weight (golay_encode24 d)) mod 2 = 0.
Proof. exact x_codeword_even_parity. Qed.
Print Assumptions c04_codeword_even_parity.

(** GF(2)-linearity; syndrome() for ALL arguments (not only 24-bit ones) *)
Theorem c04_syndrome_linear : forall a b, syndrome (N.lxor a b) = N.lxor (syndrome a) (syndrome b).
Proof. exact syndrome_lxor. Qed.
Print Assumptions c04_syndrome_linear.

Theorem c04_encode_linear : forall a b, a < 4096 -> b < 4096 ->
  golay_encode24 (N.lxor a b) = N.lxor (golay_encode24 a) (golay_encode24 b).
Proof. exact x_encode_linear. Qed.
Print Assumptions c04_encode_linear.

Theorem c04_min_weight_8 : forall d, d < 4096 -> d <> 0 -> 8 <= weight (golay_encode24 d).
Proof. exact x_min_weight_8. Qed.
Print Assumptions c04_min_weight_8.

Theorem c04_min_distance_8 : forall a b, a < 4096 -> b < 4096 -> a <> b ->
  8 <= hamming (golay_encode24 a) (golay_encode24 b).
Proof. exact x_min_distance_8. Qed.
Print Assumptions c04_min_distance_8.

(** ** the table *)
(** make_lut() stores exactly LUT_SIZE keys, all different; the model's table is the strictly sorted list of
    them, and its rows are strictly increasing in (a >> 8) (the precondition of std::lower_bound; it also says
    that the 2048 patterns of weight <= 3 have 2048 different syndromes: the (23,12) code is perfect) *)
Theorem c04_lut_sorted_distinct :
  length lut_stores = 2048%nat /\ NoDup lut_stores /\ lut_unsorted = lut_stores /\
  StronglySorted N.lt (sort lut_unsorted) /\ LUT = map makeSyndromeMapEntry (sort lut_unsorted) /\
  length LUT = 2048%nat /\ StronglySorted N.lt (map (fun e => N.shiftr (fst e) 8) LUT).
Proof. exact x_lut_sorted_distinct. Qed.
Print Assumptions c04_lut_sorted_distinct.

(** the model sorts by insertion, the C++ by a constexpr quicksort: ANY algorithm that returns a sorted
    permutation of the stored keys returns the model's list *)
Theorem c04_sort_model_unique : forall l, Permutation lut_stores l -> StronglySorted N.le l -> l = sort lut_unsorted.
Proof. exact sorted_unique_stmt. Qed.
Print Assumptions c04_sort_model_unique.

(** for every 23-bit word the search (libstdc++'s loop = the partition point std::lower_bound specifies) stops
    on a row inside the table, the only one whose key is the word's syndrome; its correction pattern has
    weight <= 3 and that syndrome *)
Theorem c04_lut_complete : forall w, w < 2 ^ 23 ->
  exists i e, i = lower_bound LUT (syndrome w) /\ i = partition_point LUT (syndrome w) /\ (i < 2048)%nat /\
    nth_error LUT i = Some e /\ N.shiftr (fst e) 8 = syndrome w /\
    (let f := N.shiftr (correction_of e) 1 in f < 2 ^ 23 /\ popcount f <= 3 /\ syndrome f = syndrome w) /\
    (forall j e', nth_error LUT j = Some e' -> N.shiftr (fst e') 8 = syndrome w -> j = i).
Proof. exact lut_complete_lemma. Qed.
Print Assumptions c04_lut_complete.

(** `it` is never LUT.end() for a 24-bit input, so `it->a` is a read inside the table (also an obligation of C07) *)
Theorem c04_lookup_never_end : forall r, r < 2 ^ 24 ->
  (lower_bound LUT (syndrome (N.shiftr r 1)) < length LUT)%nat /\ decode r <> DEnd.
Proof. exact lookup_never_end_lemma. Qed.
Print Assumptions c04_lookup_never_end.

(** ** the decoder, for all 4096 data words x all error patterns, i.e. all 2^24 received words *)
Theorem c04_decode_corrects : forall d e, d < 4096 -> e < 2 ^ 24 -> weight e <= 3 ->
  exists o, golay_decode (N.lxor (golay_encode24 d) e) = Some o /\ N.shiftr o 12 = d.
Proof. exact x_decode_corrects. Qed.
Print Assumptions c04_decode_corrects.

Theorem c04_decode_rejects4 : forall d e, d < 4096 -> e < 2 ^ 24 -> weight e = 4 ->
  golay_decode (N.lxor (golay_encode24 d) e) = None.
Proof. exact x_decode_rejects4. Qed.
Print Assumptions c04_decode_rejects4.

Theorem c04_decode_sound : forall r o, r < 2 ^ 24 -> golay_decode r = Some o ->
  exists d, d < 4096 /\ N.shiftr o 12 = d /\ hamming r (golay_encode24 d) <= 3 /\
    (forall d', d' < 4096 -> hamming r (golay_encode24 d') <= 3 -> d' = d).
Proof. exact x_decode_sound. Qed.
Print Assumptions c04_decode_sound.

(** decode succeeds exactly on the words within distance 3 of a codeword ... *)
Theorem c04_decode_accepts_iff : forall r, r < 2 ^ 24 ->
  (exists o, golay_decode r = Some o) <-> (exists d, d < 4096 /\ hamming r (golay_encode24 d) <= 3).
Proof. exact x_decode_accepts_iff. Qed.
Print Assumptions c04_decode_accepts_iff.

(** ... and its data output is the specification's bounded-distance decoder (radius 3) on every word *)
Theorem c04_decode_is_bounded_distance_decoder : forall r, r < 2 ^ 24 ->
  option_map (fun o => N.shiftr o 12) (golay_decode r) = spec_decode r.
Proof. exact decode_is_spec_lemma. Qed.
Print Assumptions c04_decode_is_bounded_distance_decoder.

(** ** characterisations for the users of the model (frame decoder, C05/C01) *)
Theorem c04_decode_translate : forall d e, d < 4096 -> e < 2 ^ 24 ->
  golay_decode (N.lxor (golay_encode24 d) e) = option_map (N.lxor (golay_encode24 d)) (golay_decode e).
Proof. exact x_decode_translate. Qed.
Print Assumptions c04_decode_translate.

(** `output` is the codeword of its top 12 bits, except that a wrong overall-parity bit is left uncorrected *)
Theorem c04_decode_output_shape : forall r o, r < 2 ^ 24 -> golay_decode r = Some o ->
  o < 2 ^ 24 /\ (o = golay_encode24 (N.shiftr o 12) \/ o = N.lxor (golay_encode24 (N.shiftr o 12)) 1).
Proof. exact x_decode_output_shape. Qed.
Print Assumptions c04_decode_output_shape.

(** the trie-based form used for bulk evaluation is the same function on the domain *)
Theorem c04_decode_fast_equiv : forall r, r < 2 ^ 24 -> golay_decode_fast r = golay_decode r.
Proof. exact golay_decode_fast_eq. Qed.
Print Assumptions c04_decode_fast_equiv.

(** ** the hypotheses are satisfiable; the published vector; what the repaired acceptance rule is about *)
Example c04_vector : golay_encode24 0xD78 = 0xD7880F /\ golay_decode 0xD7880F = Some 0xD7880F.
Proof. vm_compute. split; reflexivity. Qed.
(* the generator-matrix rows tabulated for M17, and cyclicity (g divides x^23+1) *)
Example c04_spec_matrix : map (fun i => spec_encode24 (N.shiftl 1 (N.of_nat i))) (seq 0 12) =
  map (fun p => N.lor (N.shiftl (N.shiftl 1 (N.of_nat (fst p))) 12) (snd p)) (combine (seq 0 12) spec_matrix).
Proof. exact spec_matrix_ok. Qed.
Example c04_cyclic : pmod 13 (2 ^ 23 + 1) = 0.
Proof. exact g_divides_x23_1. Qed.
(* a two-bit and a three-bit error touching the overall-parity bit (rejected before the fix d138ea7), a 3-bit
   and a 4-bit error elsewhere *)
Example c04_instances :
  weight 0x000003 = 2 /\ golay_decode (N.lxor (golay_encode24 0xABC) 0x000003) = Some (N.lxor (golay_encode24 0xABC) 1) /\
  weight 0x800201 = 3 /\ option_map (fun o => N.shiftr o 12) (golay_decode (N.lxor (golay_encode24 0xABC) 0x800201)) = Some 0xABC /\
  weight 0x810100 = 3 /\ golay_decode (N.lxor (golay_encode24 0xD78) 0x810100) = Some 0xD7880F /\
  weight 0x810101 = 4 /\ golay_decode (N.lxor (golay_encode24 0xD78) 0x810101) = None.
Proof. vm_compute. repeat split; reflexivity. Qed.
(* outside the domain of the property: with bit 24 of `input` set the search returns LUT.end() (the only
   caller, M17FrameDecoder::unpack_lich, passes 24-bit values) *)
Example c04_end_outside_domain : decode (2 ^ 24) = DEnd /\ lower_bound LUT (syndrome (N.shiftr (2 ^ 24) 1)) = length LUT.
Proof. vm_compute. split; reflexivity. Qed.
