(** C17 — callsign codec: lossless for valid callsigns, terminated for any address.
    Only the property theorems (each closed by [exact]) and their Print Assumptions.
    Models: ImplCallsign.v (mirror of LinkSetupFrame.h as it is now, i.e. with fix 766f992),
    SpecCallsign.v (base-40 addresses written from the M17 specification).
    A callsign [s] is a list of character codes; [pad10 s] is the call_t array (s followed by NULs). *)
From Coq Require Import NArith List Bool.
From M17 Require Import Bits ConstsCallsign ImplCallsign SpecCallsign LemmasCallsign.
Import ListNotations.
Local Open Scope N_scope.

(** 0. uint64: for EVERY ten-character array (mapped or not) the accumulator of encode_callsign, computed with
       explicit wrap modulo 2^64, equals the unbounded base-40 value in which unmapped characters (NUL, space,
       lower case, ...) count 0: it never wraps, because ten digits stay below 40^10 < 2^64. *)
Theorem c17_encode_no_wrap : forall cs : list N, length cs = 10%nat -> Forall (fun c => c < 256) cs ->
  encode_acc cs = spec_value cs /\ spec_value cs < 40 ^ 10 /\ 40 ^ 10 < 2 ^ 64.
Proof. exact encode_no_wrap_lemma. Qed.
Print Assumptions c17_encode_no_wrap.

(** 1. encode_value: the six bytes are the specification's encoding; read big-endian they are
       sum digit(s_i) * 40^i, which is below 40^9 < 2^48 *)
Theorem c17_encode_value : forall s : list N, valid_callsign s ->
  encode_callsign (pad10 s) = spec_encode s /\
  be_value (encode_callsign (pad10 s)) = spec_value s /\ spec_value s < 40 ^ 9 /\ 40 ^ 9 < 2 ^ 48.
Proof. exact encode_value_lemma. Qed.
Print Assumptions c17_encode_value.

(** 2. roundtrip, for every callsign of 1..9 characters over A-Z 0-9 - / . ; in particular the decode loop
       terminates within its fuel and writes inside the array ([Some]) *)
Theorem c17_roundtrip : forall s : list N, valid_callsign s ->
  decode_callsign (encode_callsign (pad10 s)) = Some (pad10 s).
Proof. exact roundtrip_lemma. Qed.
Print Assumptions c17_roundtrip.

(** 3. distinct callsigns get distinct addresses *)
Theorem c17_encode_injective : forall s1 s2 : list N, valid_callsign s1 -> valid_callsign s2 ->
  encode_callsign (pad10 s1) = encode_callsign (pad10 s2) -> s1 = s2.
Proof. exact encode_injective_lemma. Qed.
Print Assumptions c17_encode_injective.

(** 4. the all-ones address decodes to "BROADCAST" *)
Theorem c17_broadcast :
  decode_callsign [255; 255; 255; 255; 255; 255] = Some (pad10 [66; 82; 79; 65; 68; 67; 65; 83; 84]).
Proof. exact decode_broadcast. Qed.
Print Assumptions c17_broadcast.

(** 5. no valid callsign is encoded as the broadcast address *)
Theorem c17_no_valid_is_broadcast : forall s : list N, valid_callsign s ->
  encode_callsign (pad10 s) <> [255; 255; 255; 255; 255; 255].
Proof. exact no_valid_is_broadcast_lemma. Qed.
Print Assumptions c17_no_valid_is_broadcast.

(** 6. decode_total: for EVERY address (any six bytes - in fact any byte list) the loop terminates within the fuel,
       every table read and every array write is in range (the model returns [None] otherwise), result has 10 chars *)
Theorem c17_decode_total : forall a : list N, exists r, decode_callsign a = Some r /\ length r = 10%nat.
Proof. exact decode_total_lemma. Qed.
Print Assumptions c17_decode_total.

(** 7. decode_terminated: for EVERY address the result is a NUL-terminated string of at most 9 characters:
       result[9] = NUL, and after the string there are only NULs *)
Theorem c17_decode_terminated : forall (a r : list N), decode_callsign a = Some r ->
  nth 9 r 1 = 0 /\ (length (c_string r) <= 9)%nat /\ r = pad10 (c_string r).
Proof. exact decode_terminated_lemma. Qed.
Print Assumptions c17_decode_terminated.

(** 8. what decode prints, exactly: the (at most nine) low base-40 digits through callsign_map.
       Hence digit 0 is printed - as 'x' - exactly where the address has a zero digit below a more significant
       non-zero digit (or anywhere in the nine low digits when the address is >= 40^9). *)
Theorem c17_decode_digits : forall a : list N, a <> [255; 255; 255; 255; 255; 255] ->
  decode_callsign a = Some (pad10 (map tbl (digits40 9 (be_value a)))).
Proof. exact decode_not_broadcast. Qed.
Print Assumptions c17_decode_digits.

(** 9. against the specification's decoder: on every non-reserved, non-broadcast address the C++ prints the
       specification's text, with the space the specification assigns to digit 0 rendered as 'x' *)
Theorem c17_decode_vs_spec : forall (a s : list N), spec_decode a = Callsign s ->
  decode_callsign a = Some (pad10 (map (fun c => if c =? 32 then 120 else c) s)).
Proof. exact decode_vs_spec_lemma. Qed.
Print Assumptions c17_decode_vs_spec.

(** 10. decode then (non-strict) encode returns every non-broadcast address modulo 40^9 - in particular every
        address below 40^9 unchanged, because 'x' is unmapped in encode_callsign and counts 0 *)
Theorem c17_decode_encode : forall (a r : list N), a <> [255; 255; 255; 255; 255; 255] -> decode_callsign a = Some r ->
  be_value (encode_callsign r) = be_value a mod 40 ^ 9.
Proof. exact decode_encode_lemma. Qed.
Print Assumptions c17_decode_encode.

(** 11. the [strict] flag: off, it is [encode_callsign]; on, an exception ([None]) iff some character is unmapped -
        which includes the NUL padding, so strict mode rejects every callsign shorter than ten characters *)
Theorem c17_strict_flag : forall cs : list N,
  encode_callsign_gen false cs = Some (encode_callsign cs) /\
  encode_callsign_gen true cs = (if all_mapped cs then Some (encode_callsign cs) else None).
Proof. intros cs. split; [exact (encode_gen_nonstrict cs) | exact (encode_gen_strict cs)]. Qed.
Print Assumptions c17_strict_flag.

Theorem c17_strict_rejects_short : forall s : list N, (length s < 10)%nat -> encode_callsign_gen true (pad10 s) = None.
Proof. exact strict_rejects_short_lemma. Qed.
Print Assumptions c17_strict_rejects_short.

(** non-vacuity / instances (the repository's two test vectors, the F3 witness, a zero digit) *)
Example c17_ex_valid : valid_callsign [87; 88; 57; 79].                 (* "WX9O" *)
Proof. split; [cbn; split; repeat constructor | repeat (constructor; [apply valid_charb_valid; reflexivity|]); constructor]. Qed.
Example c17_ex_encode : encode_callsign (pad10 [87; 88; 57; 79]) = [0; 0; 0; 0x0f; 0x8a; 0xd7].
Proof. vm_compute. reflexivity. Qed.
Example c17_ex_decode : decode_callsign [0; 0; 0x5F; 0x1B; 0x66; 0x91] = Some (pad10 [73; 85; 50; 75; 87; 79]).   (* "IU2KWO" *)
Proof. vm_compute. reflexivity. Qed.
(* 40^9 = 0xEE6B28000000: nine zero digits, printed as nine 'x', terminated *)
Example c17_ex_40_pow_9 : decode_callsign [0xEE; 0x6B; 0x28; 0; 0; 0] = Some (pad10 (repeat 120 9)).
Proof. vm_compute. reflexivity. Qed.
(* the digit loop WITHOUT the bound of fix 766f992 writes "xxxxxxxxxA" - ten characters, no NUL - for the same address (defect F3, fixed) *)
Example c17_ex_unbounded_loop_unterminated :
  decode_callsign_with None [0xEE; 0x6B; 0x28; 0; 0; 0] = Some (repeat 120 9 ++ [65]).
Proof. exact unbounded_loop_unterminated. Qed.
(* "A B" (space unmapped): encodes as 1 + 0*40 + 2*1600 and decodes as "AxB" *)
Example c17_ex_space : decode_callsign (encode_callsign (pad10 [65; 32; 66])) = Some (pad10 [65; 120; 66]).
Proof. vm_compute. reflexivity. Qed.
