(** C14 lemmas, part 8: whole key-ups and sessions of the modulate() state machine equal the specification's
    stream ([SpecModulator.session_stream]), for every structured schedule and every Codec2 oracle. *)
From Coq Require Import NArith ZArith List Bool Lia Arith.
From M17 Require Import Bits SpecCRC SpecM17 ConstsModulator ImplModulator SpecModulator
  LemmasMdl_Bits LemmasMdl_Frame LemmasMdl_LSF LemmasMdl_SM.
Import ListNotations.
Local Open Scope N_scope.

Opaque send_audio send_link_setup send_preamble.

Lemma cut_acc_nonempty samples : forall acc last, cut_acc acc samples last <> [].
Proof. induction samples as [|s r IH]; intros acc last; cbn [cut_acc]; [discriminate|].
  destruct (Nat.eqb (length acc + 1) frame_samples); [discriminate | apply IH]. Qed.

Section Run.
Variable junk : nat -> N.
Variable cstate : Type.
Variable codec2_encode : cstate -> list Z -> cstate * list N.
Hypothesis codec_ok : forall c a, length (snd (codec2_encode c a)) = 8%nat /\ all_bytes (snd (codec2_encode c a)).
Variables dst src : list N.
Hypothesis dst_ok : all_bytes dst /\ (length dst <= 9)%nat.
Hypothesis src_ok : all_bytes src /\ (1 <= length src <= 9)%nat.

Notation dest := (encode_callsign dst).
Notation source := (encode_callsign src).
Notation lsf := (spec_lsf dst src 0).
Notation step := (mstep junk cstate codec2_encode dest source).
Notation runm := (run junk cstate codec2_encode dest source).
Notation enc_frame := (encode_frame cstate codec2_encode).
Notation enc_frames := (encode_frames cstate codec2_encode).
Notation act := (act_state junk cstate dst src).
Notation fbytes := (frame_bytes dst src).

Lemma run_app a : forall s b,
  runm s (a ++ b) = match runm s a with
                    | Some (s1, o1) => match runm s1 b with Some (s2, o2) => Some (s2, o1 ++ o2) | None => None end
                    | None => None
                    end.
Proof. induction a as [|it a IH]; intros s b.
- cbn [app run]. destruct (runm s b) as [[s2 o2]|]; reflexivity.
- cbn [app run]. destruct (enabled s it); [|reflexivity].
  destruct (step_item junk cstate codec2_encode dest source s it) as [s' o]. rewrite IH.
  destruct (runm s' a) as [[s1 o1]|]; [|reflexivity]. destruct (runm s1 b) as [[s2 o2]|]; [|reflexivity].
  rewrite app_assoc. reflexivity. Qed.

Lemma run_ev s e r : runm s (Ev e :: r) =
  match runm (fst (step s e)) r with Some (s2, o2) => Some (s2, snd (step s e) ++ o2) | None => None end.
Proof. cbn [run enabled step_item]. destruct (step s e) as [s' o]. reflexivity. Qed.

Lemma run_idle es : forall s c, idle_inv s c -> runm s (map Ev es) = Some (s, []).
Proof. induction es as [|e es IH]; intros s c H; [reflexivity|].
  cbn [map]. rewrite run_ev. erewrite step_idle by eassumption. cbn [fst snd]. rewrite (IH s c H). reflexivity. Qed.

Lemma enc_frames_cons c f r :
  enc_frames c (f :: r) = (fst (enc_frames (fst (enc_frame c f)) r), snd (enc_frame c f) :: snd (enc_frames (fst (enc_frame c f)) r)).
Proof. cbn [encode_frames]. destruct (enc_frame c f) as [c1 p]. cbn [fst snd]. destruct (enc_frames c1 r). reflexivity. Qed.

Lemma enc_frames_nonempty c fs : fs <> [] -> snd (enc_frames c fs) <> [].
Proof. destruct fs as [|f r]; [congruence|]. intros _. rewrite enc_frames_cons. discriminate. Qed.

Lemma frames_cons k p rest : rest <> [] ->
  spec_stream_frames lsf k (p :: rest) = fbytes k p false ++ spec_stream_frames lsf (k + 1) rest.
Proof. intros H. cbn [spec_stream_frames]. destruct rest; [congruence|]. reflexivity. Qed.

Lemma frames_last k p : spec_stream_frames lsf k [p] = fbytes k p true.
Proof. cbn [spec_stream_frames]. rewrite app_nil_r. reflexivity. Qed.

(** while PTT is held, then release *)
Lemma run_active items : Forall active_item items -> forall k partial c e, (length partial < 320)%nat ->
  exists s', runm (act ACTIVE k partial c) (items ++ [PttOff; Ev e]) =
             Some (s', spec_stream_frames lsf k (snd (enc_frames c (cut_acc partial (samples_of items) (spec_sample e)))))
             /\ idle_inv s' (fst (enc_frames c (cut_acc partial (samples_of items) (spec_sample e)))).
Proof. induction 1 as [|it items Hit _ IH]; intros k partial c e Hp.
- cbn [app run]. cbn [enabled act_state st_mode step_item].
  change (set_mode (act ACTIVE k partial c) END_OF_STREAM) with (act END_OF_STREAM k partial c).
  edestruct step_eos as [s' [E I]]; [exact codec_ok | exact dst_ok | exact src_ok | exact Hp |].
  rewrite E. exists s'. cbn [samples_of flat_map cut_acc]. rewrite enc_frames_cons. cbn [encode_frames fst snd].
  rewrite frames_last, app_nil_r. split; [reflexivity | exact I].
- destruct it as [e1| |]; [| |destruct Hit].
  + cbn [app]. rewrite run_ev. cbn [samples_of flat_map app]. fold (samples_of items). cbn [cut_acc].
    unfold frame_samples. destruct (Nat.eqb_spec (length partial + 1) 320) as [F|F].
    * rewrite step_active_full by assumption. cbn [fst snd].
      destruct (IH (k + 1) [] (fst (enc_frame c (partial ++ [spec_sample e1]))) e) as [s' [E I]]; [cbn; lia|].
      rewrite E. exists s'. rewrite enc_frames_cons. cbn [fst snd].
      rewrite frames_cons by (apply enc_frames_nonempty, cut_acc_nonempty). split; [reflexivity | exact I].
    * rewrite step_active_more by (try assumption; lia). cbn [fst snd].
      destruct (IH k (partial ++ [spec_sample e1]) c e) as [s' [E I]]; [rewrite app_length; cbn [length]; lia|].
      rewrite E. exists s'. split; [reflexivity | exact I].
  + cbn [app run]. cbn [enabled act_state st_mode step_item]. cbn [samples_of flat_map app]. fold (samples_of items).
    destruct (IH k partial c e Hp) as [s' [E I]]. fold (act ACTIVE k partial c). rewrite E. exists s'. split; [reflexivity | exact I]. Qed.

Notation kstream := (keyup_stream cstate codec2_encode dst src).

Lemma run_keyup ku s c : idle_inv s c -> keyup_ok ku ->
  exists s', runm s (keyup_items ku) = Some (s', snd (kstream c (samples_of (ku_active ku)) (spec_sample (ku_eos ku))))
             /\ idle_inv s' (fst (kstream c (samples_of (ku_active ku)) (spec_sample (ku_eos ku)))).
Proof. intros I K. unfold keyup_items. rewrite run_app, (run_idle (ku_idle ku) s c I).
  destruct I as [M [A Cc]].
  cbn [app run]. cbn [enabled step_item]. rewrite M.
  rewrite step_preamble by reflexivity.
  rewrite step_link_setup by (try assumption; reflexivity).
  cbn [set_mode st_codec]. rewrite Cc.
  destruct (run_active (ku_active ku) K 0 [] c (ku_eos ku)) as [s' [E I']]; [cbn; lia|].
  rewrite E. exists s'. unfold keyup_stream, cut.
  destruct (enc_frames c (cut_acc [] (samples_of (ku_active ku)) (spec_sample (ku_eos ku)))) as [c' ps]. cbn [fst snd] in *.
  split; [|exact I']. cbn [app]. rewrite <- !app_assoc. reflexivity. Qed.

Notation sstream := (session_stream cstate codec2_encode dst src).

Lemma run_session kus : forall s c, idle_inv s c -> Forall keyup_ok kus ->
  exists s', runm s (flat_map keyup_items kus) = Some (s', snd (sstream c kus)) /\ idle_inv s' (fst (sstream c kus)).
Proof. induction kus as [|ku kus IH]; intros s c I K.
- exists s. split; [reflexivity | exact I].
- inversion K; subst. cbn [flat_map session_stream]. rewrite run_app.
  destruct (run_keyup ku s c I) as [s1 [E1 I1]]; [assumption|]. rewrite E1.
  destruct (kstream c (samples_of (ku_active ku)) (spec_sample (ku_eos ku))) as [c1 o1]. cbn [fst snd] in *.
  destruct (IH s1 c1 I1) as [s2 [E2 I2]]; [assumption|]. rewrite E2.
  destruct (sstream c1 kus) as [c2 o2]. cbn [fst snd] in *. exists s2. split; [reflexivity | exact I2]. Qed.

Theorem run_structured kus trailing c0 : Forall keyup_ok kus ->
  exists s', runm (minit junk cstate c0) (session_items kus trailing) = Some (s', snd (sstream c0 kus))
             /\ idle_inv s' (fst (sstream c0 kus)).
Proof. intros K. unfold session_items. rewrite run_app.
  destruct (run_session kus (minit junk cstate c0) c0) as [s1 [E1 I1]]; [repeat split | exact K |].
  rewrite E1, (run_idle trailing s1 _ I1), app_nil_r. exists s1. split; [reflexivity | exact I1]. Qed.
End Run.

(** ** Reconfiguration: source()/dest() between sessions.  Every group of key-ups carries the LSF (frame and LICH) of the pair
    configured for it, whatever the earlier groups left in the state (LICH segments, counters, audio buffer). *)
Section Reconfig.
Variable junk : nat -> N.
Variable cstate : Type.
Variable codec2_encode : cstate -> list Z -> cstate * list N.
Hypothesis codec_ok : forall c a, length (snd (codec2_encode c a)) = 8%nat /\ all_bytes (snd (codec2_encode c a)).

Definition group : Type := (list N * list N * list keyup * list event)%type.
Definition group_ok (g : group) : Prop :=
  let '(dst, src, kus, _) := g in
  (all_bytes dst /\ (length dst <= 9)%nat) /\ (all_bytes src /\ (1 <= length src <= 9)%nat) /\ Forall keyup_ok kus.
Definition seg_of (g : group) : list N * list N * list item :=
  let '(dst, src, kus, trailing) := g in (encode_callsign dst, encode_callsign src, session_items kus trailing).
Definition grp_of (g : group) : list N * list N * list keyup := let '(dst, src, kus, _) := g in (dst, src, kus).

Lemma run_configured (groups : list group) : forall s c, idle_inv s c -> Forall group_ok groups ->
  exists s', run_segments junk cstate codec2_encode s (map seg_of groups)
             = Some (s', snd (configured_stream cstate codec2_encode c (map grp_of groups)))
             /\ idle_inv s' (fst (configured_stream cstate codec2_encode c (map grp_of groups))).
Proof. induction groups as [|g groups IH]; intros s c I K.
- exists s. split; [reflexivity | exact I].
- inversion K as [|g' gs' Hg Hgs]; subst. destruct g as [[[dst src] kus] trailing]. destruct Hg as [Hd [Hs Hk]].
  cbn [map seg_of grp_of run_segments configured_stream]. unfold session_items.
  rewrite (run_app junk cstate codec2_encode dst src).
  destruct (run_session junk cstate codec2_encode codec_ok dst src Hd Hs kus s c I Hk) as [s1 [E1 I1]]. rewrite E1.
  rewrite (run_idle junk cstate codec2_encode dst src trailing s1 _ I1), app_nil_r.
  destruct (session_stream cstate codec2_encode dst src c kus) as [c1 o1]. cbn [fst snd] in *.
  destruct (IH s1 c1 I1 Hgs) as [s2 [E2 I2]]. rewrite E2.
  destruct (configured_stream cstate codec2_encode c1 (map grp_of groups)) as [c2 o2]. cbn [fst snd] in *.
  exists s2. split; [reflexivity | exact I2]. Qed.

Theorem configured_sessions_run (groups : list group) (c0 : cstate) : Forall group_ok groups ->
  exists s', run_segments junk cstate codec2_encode (minit junk cstate c0) (map seg_of groups)
             = Some (s', snd (configured_stream cstate codec2_encode c0 (map grp_of groups)))
             /\ st_mode s' = IDLE /\ st_codec s' = fst (configured_stream cstate codec2_encode c0 (map grp_of groups)).
Proof. intros K. destruct (run_configured groups (minit junk cstate c0) c0) as [s' [E [M [_ C]]]]; [repeat split | exact K|].
  exists s'. split; [exact E | split; [exact M | exact C]]. Qed.
End Reconfig.
