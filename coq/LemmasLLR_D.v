(** C12 — the property clauses for EVERY valid IEEE datum [x], for an arbitrary table [tbl] of an arbitrary format,
    assuming only finitely many boolean facts about the table (hypotheses [C_*], each of the form [... = true];
    LemmasLLR_T32/T64 discharge them for the computed width-4 tables by [vm_compute]).  No enumeration of floats. *)
From Coq Require Import ZArith QArith Lia List Bool Floats.SpecFloat.
From M17 Require Import ConstsLlr ImplLLR SpecLLR LemmasLLR_A LemmasLLR_B LemmasLLR_C.
Import ListNotations.
Open Scope Z_scope.

Section Final.
  Variables prec emax : Z.
  Hypothesis Hprec : 0 < prec.
  Hypothesis Hemax : prec < emax.
  Let t := Fmt prec emax.
  Variable tbl : list row.
  Variable L : Z.
  Variable Sp : positive.
  Hypothesis HSp : Zpos Sp = 2 ^ (- SpecFloat.emin prec emax).
  Let S := Zpos Sp.
  Let ordf := ord prec emax.
  Let keys := map (fun r : row => ordf (fst r)) tbl.
  Let n := length tbl.
  Let maxv := sf_conv t llr_max_value.
  Let minv := sf_conv t llr_min_value.
  Let zrow := zrow tbl.
  Let zval := zval prec emax tbl.
  Let zclamp := zclamp prec emax.
  Let zin := zin prec emax.
  Let bin_lo := bin_lo prec emax tbl.
  Let bin_hi := bin_hi prec emax tbl.
  Let idx0 := zidx keys 0.

  (** the finite facts *)
  Definition chk_valid : bool := forallb (fun r : row => okv prec emax (fst r)) tbl.
  Definition chk_sorted : bool := sortedb keys.
  Definition chk_bounds : bool := okv prec emax maxv && okv prec emax minv && (ordf maxv =? 3 * S) && (ordf minv =? -3 * S).
  Definition chk_soft : bool := forallb (fun i => soft_ok L (zrow i)) (seq 0 (Datatypes.S n)).
  Definition chk_sign : bool := forallb (fun i => sign_chk S (bin_lo i) (bin_hi i) (zrow i)) (seq 0 (Datatypes.S n)).
  Definition pairs (R : Z * Z -> Z * Z -> bool) (ilo ihi : nat) : bool :=
    forallb (fun i => forallb (fun j => implb (Nat.leb ilo i && Nat.leb i j && Nat.leb j ihi) (R (zrow i) (zrow j)))
                              (seq 0 (Datatypes.S n))) (seq 0 (Datatypes.S n)).
  (** first soft bit: non-increasing along all bins *)
  Definition chk_first : bool := pairs (fun v1 v2 => fst v2 <=? fst v1) 0 n.
  (** second soft bit: non-decreasing along the bins reachable with z >= 0, non-increasing along those reachable with z <= 0 *)
  Definition chk_second_pos : bool := pairs (fun v1 v2 => snd v1 <=? snd v2) idx0 n.
  Definition chk_second_neg : bool := pairs (fun v1 v2 => snd v2 <=? snd v1) 0 idx0.
  Definition chk_saturated : bool := saturated L (zval (ordf maxv)) && saturated L (zval (ordf minv)).

  Hypothesis C_valid : chk_valid = true.
  Hypothesis C_sorted : chk_sorted = true.
  Hypothesis C_bounds : chk_bounds = true.

  Lemma bounds_facts : okv prec emax maxv = true /\ okv prec emax minv = true /\ ordf maxv = 3 * S /\ ordf minv = -3 * S.
  Proof.
    pose proof C_bounds as C. unfold chk_bounds in C.
    apply andb_prop in C. destruct C as [C C4]. apply andb_prop in C. destruct C as [C C3].
    apply andb_prop in C. destruct C as [C1 C2].
    apply Z.eqb_eq in C3. apply Z.eqb_eq in C4. auto.
  Qed.

  Lemma S_pos : 0 < S.
  Proof. unfold S. lia. Qed.

  Lemma llr_zval : forall x, valid_binary prec emax x = true -> llr_with tbl t x = zval (zclamp (zin x)).
  Proof.
    destruct bounds_facts as (Bmax & Bmin & _).
    intros x V. apply (llr_with_zval prec emax Hprec Hemax tbl C_valid C_sorted Bmax Bmin x V).
  Qed.

  Lemma zin_nonnan : forall x, is_nan_sf x = false -> zin x = ordf x.
  Proof. intros x H. unfold zin, LemmasLLR_B.zin. rewrite H. reflexivity. Qed.

  (** ** both soft bits non-zero and within +-(2^(L-1)-1), for every datum including NaN and infinities *)
  Hypothesis C_soft : chk_soft = true.
  Theorem final_soft_ok : forall x, valid_binary prec emax x = true -> soft_ok L (llr_with tbl t x) = true.
  Proof.
    intros x V. rewrite (llr_zval x V).
    apply (bins_lift prec emax tbl (fun _ v => soft_ok L v = true) (fun _ _ v => soft_ok L v)); [auto | exact C_soft].
  Qed.

  (** ** sign = Gray dibit of the nearest level, for every finite datum farther than 1e-6 from 0, +2, -2 *)
  Hypothesis C_sign : chk_sign = true.
  Theorem final_sign : forall x, valid_binary prec emax x = true -> sf_finite x = true ->
    far_from_boundaries (SF2Q x) -> soft_dibit (llr_with tbl t x) = nearest_dibit (SF2Q x).
  Proof.
    intros x V F G.
    destruct bounds_facts as (Bmax & Bmin & Emax & Emin). pose proof S_pos as HS.
    assert (Nx : is_nan_sf x = false) by (destruct x; try reflexivity; discriminate).
    pose proof (SF2Q_ord prec emax Hprec Hemax Sp HSp x V F) as E.
    pose proof (guard_bridge prec emax Sp (SF2Q x) (ordf x) E G) as ZG. fold S in ZG.
    rewrite (region_bridge prec emax Sp HSp (SF2Q x) (ordf x) E ZG). fold S.
    rewrite (llr_zval x V), (zin_nonnan x Nx).
    set (z := ordf x) in *.
    (* the lookup at the clamped argument has the sign pattern of the clamped argument's region *)
    assert (K : forall z', zguard S z' -> signs (zval z') = zregion S z').
    { intro z'. apply (bins_lift prec emax tbl (fun z0 v => zguard S z0 -> signs v = zregion S z0) (sign_chk S)); [|exact C_sign].
      intros lo hi v z0 Hc Hb Hg. apply (sign_chk_sound S HS lo hi v z0 Hc Hb Hg). }
    change (soft_dibit (zval (zclamp z))) with (signs (zval (zclamp z))).
    unfold zclamp, LemmasLLR_B.zclamp. fold t maxv minv ordf. rewrite Emax, Emin.
    destruct ZG as (G0 & G2 & Gm2). unfold zfar, EPSDEN in *.
    destruct (Z_lt_le_dec z (-3 * S)); [|destruct (Z_lt_le_dec (3 * S) z)].
    - replace (Z.min (3 * S) (Z.max (-3 * S) z)) with (-3 * S) by lia.
      rewrite K by (unfold zguard, zfar, EPSDEN; lia).
      unfold zregion. repeat match goal with |- context [?a <? ?b] => destruct (Z.ltb_spec a b) end; try reflexivity; lia.
    - replace (Z.min (3 * S) (Z.max (-3 * S) z)) with (3 * S) by lia.
      rewrite K by (unfold zguard, zfar, EPSDEN; lia).
      unfold zregion. repeat match goal with |- context [?a <? ?b] => destruct (Z.ltb_spec a b) end; try reflexivity; lia.
    - replace (Z.min (3 * S) (Z.max (-3 * S) z)) with z by lia.
      apply K. unfold zguard, zfar, EPSDEN. lia.
  Qed.

  (** ** the first soft bit never increases with the sample *)
  Hypothesis C_first : chk_first = true.
  Theorem final_first_antitone : forall x y, valid_binary prec emax x = true -> valid_binary prec emax y = true ->
    sf_le x y -> fst (llr_with tbl t y) <= fst (llr_with tbl t x).
  Proof.
    intros x y Vx Vy H. destruct (sf_le_ord prec emax Hprec Hemax x y Vx Vy H) as (Nx & Ny & Ho).
    rewrite (llr_zval x Vx), (llr_zval y Vy), (zin_nonnan x Nx), (zin_nonnan y Ny).
    apply Z.leb_le.
    apply (pairs_lift prec emax tbl (fun v1 v2 => fst v2 <=? fst v1) 0%nat n C_first).
    - apply (zclamp_mono prec emax tbl). exact Ho.
    - lia.
    - apply zidx_le_n.
  Qed.

  (** ** the second soft bit never decreases with the magnitude (on each half-line) *)
  Hypothesis C_second_pos : chk_second_pos = true.
  Hypothesis C_second_neg : chk_second_neg = true.

  Lemma zclamp_zero : zclamp 0 = 0.
  Proof.
    destruct bounds_facts as (_ & _ & Emax & Emin). pose proof S_pos.
    unfold zclamp, LemmasLLR_B.zclamp. fold t maxv minv ordf. rewrite Emax, Emin. lia.
  Qed.

  Theorem final_second_pos : forall z x y, valid_binary prec emax x = true -> valid_binary prec emax y = true ->
    z = S754_zero false \/ z = S754_zero true ->
    sf_le z x -> sf_le x y -> snd (llr_with tbl t x) <= snd (llr_with tbl t y).
  Proof.
    intros z x y Vx Vy Hz H0 H. destruct (sf_le_ord prec emax Hprec Hemax x y Vx Vy H) as (Nx & Ny & Ho).
    assert (Vz : valid_binary prec emax z = true) by (destruct Hz; subst z; reflexivity).
    destruct (sf_le_ord prec emax Hprec Hemax z x Vz Vx H0) as (_ & _ & Hzx).
    assert (ord prec emax z = 0) by (destruct Hz; subst z; reflexivity).
    rewrite (llr_zval x Vx), (llr_zval y Vy), (zin_nonnan x Nx), (zin_nonnan y Ny).
    apply Z.leb_le.
    apply (pairs_lift prec emax tbl (fun v1 v2 => snd v1 <=? snd v2) idx0 n C_second_pos).
    - apply (zclamp_mono prec emax tbl). exact Ho.
    - unfold idx0. apply zidx_mono. rewrite <- zclamp_zero. apply (zclamp_mono prec emax tbl). unfold ordf. lia.
    - apply zidx_le_n.
  Qed.

  Theorem final_second_neg : forall z x y, valid_binary prec emax x = true -> valid_binary prec emax y = true ->
    z = S754_zero false \/ z = S754_zero true ->
    sf_le y x -> sf_le x z -> snd (llr_with tbl t x) <= snd (llr_with tbl t y).
  Proof.
    intros z x y Vx Vy Hz H H0. destruct (sf_le_ord prec emax Hprec Hemax y x Vy Vx H) as (Ny & Nx & Ho).
    assert (Vz : valid_binary prec emax z = true) by (destruct Hz; subst z; reflexivity).
    destruct (sf_le_ord prec emax Hprec Hemax x z Vx Vz H0) as (_ & _ & Hxz).
    assert (ord prec emax z = 0) by (destruct Hz; subst z; reflexivity).
    rewrite (llr_zval x Vx), (llr_zval y Vy), (zin_nonnan x Nx), (zin_nonnan y Ny).
    apply Z.leb_le.
    apply (pairs_lift prec emax tbl (fun v1 v2 => snd v2 <=? snd v1) 0%nat idx0 C_second_neg).
    - apply (zclamp_mono prec emax tbl). exact Ho.
    - lia.
    - unfold idx0. apply zidx_mono. rewrite <- zclamp_zero. apply (zclamp_mono prec emax tbl). unfold ordf. lia.
  Qed.

  (** ** saturated at and beyond the clamp bounds +-3 *)
  Theorem final_beyond_max : forall x, valid_binary prec emax x = true -> sf_le maxv x ->
    llr_with tbl t x = llr_with tbl t maxv.
  Proof.
    intros x V H. destruct bounds_facts as (Bmax & _). destruct (okv_split prec emax _ Bmax) as [Vm Nm].
    destruct (sf_le_ord prec emax Hprec Hemax maxv x Vm V H) as (_ & Nx & Ho).
    rewrite (llr_zval x V), (llr_zval maxv Vm), (zin_nonnan x Nx), (zin_nonnan maxv Nm).
    f_equal. apply (zclamp_above prec emax tbl). exact Ho.
  Qed.

  Theorem final_beyond_min : forall x, valid_binary prec emax x = true -> sf_le x minv ->
    llr_with tbl t x = llr_with tbl t minv.
  Proof.
    intros x V H. destruct bounds_facts as (_ & Bmin & _). destruct (okv_split prec emax _ Bmin) as [Vm Nm].
    destruct (sf_le_ord prec emax Hprec Hemax x minv V Vm H) as (Nx & _ & Ho).
    rewrite (llr_zval x V), (llr_zval minv Vm), (zin_nonnan x Nx), (zin_nonnan minv Nm).
    f_equal. apply (zclamp_below prec emax tbl). exact Ho.
  Qed.
End Final.
