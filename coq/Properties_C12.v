(** C12 — soft demapper: sign = nearest symbol's dibit, magnitude monotone, never zero.

    [llr4_float x  = llr F32 llr_width_modem (B2SF x)]  is the Gallina mirror (ImplLLR.v) of  llr<float,4>(x)  of Util.h;
    [llr4_double] the same for double.  The width is ConstsLlr.llr_width_modem, regenerated from M17Demodulator.h
    (= 4, lemma [width_is_4]).  [binary32]/[binary64] are Flocq's types: EVERY IEEE datum, finite (normal, denormal,
    +-0), infinite or NaN (any payload).  [B2Q32 x] is the exact rational value of a finite datum.
    [fle32 x y] is IEEE "x <= y" by Flocq's [Bcompare] (Some Lt or Some Eq; false when either is NaN).
    No enumeration of floats: order reasoning over the 43 + 1 bins of the table computed inside Coq.

    Theorems about widths 2 and 3 are refutations (the faithful model breaks the sign clause there): finding F11. *)
From Coq Require Import ZArith QArith List Bool Floats.SpecFloat.
From Flocq Require Import IEEE754.Binary IEEE754.Bits IEEE754.BinarySingleNaN.
From M17 Require Import ConstsLlr ImplLLR SpecLLR LemmasLLR_A LemmasLLR_B LemmasLLR_C LemmasLLR_D
                        LemmasLLR_T32 LemmasLLR_T64 LemmasLLR_R LemmasLLR_Flocq.
Import ListNotations.
Open Scope Z_scope.

(** ** float *)

(** both soft bits are non-zero and within +-7, for every float whatsoever *)
Theorem c12_llr_nonzero_inrange : forall x : binary32,
  let v := llr4_float x in fst v <> 0 /\ -7 <= fst v <= 7 /\ snd v <> 0 /\ -7 <= snd v <= 7.
Proof. exact llr32_nonzero_inrange. Qed.
Print Assumptions c12_llr_nonzero_inrange.

(** signs = Gray dibit of the nearest 4-FSK level (+3:01, +1:00, -1:10, -3:11; positive = 1; first component = first bit)
    whenever the exact value is farther than 1e-6 from each decision boundary 0, +2, -2 *)
Theorem c12_llr_sign : forall x : binary32, Binary.is_finite 24 128 x = true ->
  (forall b, In b [0; 2; -2] -> (1 # 1000000 < Qabs.Qabs (B2Q32 x - inject_Z b))%Q) ->
  (0 <? fst (llr4_float x), 0 <? snd (llr4_float x)) = nearest_dibit (B2Q32 x).
Proof. intros x F G. rewrite <- soft_dibit_unfold. exact (llr32_sign x F G). Qed.
Print Assumptions c12_llr_sign.

(** the first soft bit never increases with the sample (x <= y in IEEE order, so neither is NaN; infinities included) *)
Theorem c12_llr_first_antitone : forall x y : binary32,
  (Binary.Bcompare 24 128 x y = Some Lt \/ Binary.Bcompare 24 128 x y = Some Eq) ->
  fst (llr4_float y) <= fst (llr4_float x).
Proof. exact llr32_first_antitone. Qed.
Print Assumptions c12_llr_first_antitone.

(** the second soft bit never decreases with the magnitude: on the non-negative half-line it is non-decreasing in the
    sample, on the non-positive half-line non-increasing (0 <= x <= y  or  y <= x <= 0  gives  snd(llr x) <= snd(llr y)).
    Across the two half-lines the thresholds differ by a few ulp (see c12_llr_second_cross_sign_asymmetry). *)
Theorem c12_llr_second_monotone_in_abs : forall x y : binary32,
  (fle32 zero32 x /\ fle32 x y) \/ (fle32 y x /\ fle32 x zero32) ->
  snd (llr4_float x) <= snd (llr4_float y).
Proof. exact llr32_second_monotone_in_abs. Qed.
Print Assumptions c12_llr_second_monotone_in_abs.

(** full confidence (+-7, +-7) with the level's dibit at the ideal levels, and saturated at and beyond +-3 (incl. +-inf) *)
Theorem c12_llr_saturates :
  llr4_float p3_32 = (-7, 7) /\ llr4_float p1_32 = (-7, -7) /\ llr4_float m1_32 = (7, -7) /\ llr4_float m3_32 = (7, 7) /\
  forall x : binary32, (fle32 p3_32 x -> llr4_float x = (-7, 7)) /\ (fle32 x m3_32 -> llr4_float x = (7, 7)).
Proof. pose proof llr32_levels as (A & B & C & D). repeat split; try assumption; apply llr32_beyond. Qed.
Print Assumptions c12_llr_saturates.

(** every NaN maps to (7,7) (the clamp turns NaN into -3: dibit 11), +inf to (-7,7) (dibit 01 = +3), -inf to (7,7) (dibit 11 = -3) *)
Theorem c12_llr_nan_inf_defined :
  (forall x : binary32, Binary.is_nan 24 128 x = true -> llr4_float x = (7, 7)) /\
  llr4_float (Binary.B754_infinity 24 128 false) = (-7, 7) /\
  llr4_float (Binary.B754_infinity 24 128 true) = (7, 7).
Proof. exact llr32_nan_inf. Qed.
Print Assumptions c12_llr_nan_inf_defined.

(** ** double: the same clauses for llr<double,4> *)
Theorem c12_llr_nonzero_inrange_double : forall x : binary64,
  let v := llr4_double x in fst v <> 0 /\ -7 <= fst v <= 7 /\ snd v <> 0 /\ -7 <= snd v <= 7.
Proof. exact llr64_nonzero_inrange. Qed.
Print Assumptions c12_llr_nonzero_inrange_double.

Theorem c12_llr_sign_double : forall x : binary64, Binary.is_finite 53 1024 x = true ->
  (forall b, In b [0; 2; -2] -> (1 # 1000000 < Qabs.Qabs (B2Q64 x - inject_Z b))%Q) ->
  (0 <? fst (llr4_double x), 0 <? snd (llr4_double x)) = nearest_dibit (B2Q64 x).
Proof. intros x F G. rewrite <- soft_dibit_unfold. exact (llr64_sign x F G). Qed.
Print Assumptions c12_llr_sign_double.

Theorem c12_llr_first_antitone_double : forall x y : binary64,
  (Binary.Bcompare 53 1024 x y = Some Lt \/ Binary.Bcompare 53 1024 x y = Some Eq) ->
  fst (llr4_double y) <= fst (llr4_double x).
Proof. exact llr64_first_antitone. Qed.
Print Assumptions c12_llr_first_antitone_double.

Theorem c12_llr_second_monotone_in_abs_double : forall x y : binary64,
  (fle64 zero64 x /\ fle64 x y) \/ (fle64 y x /\ fle64 x zero64) ->
  snd (llr4_double x) <= snd (llr4_double y).
Proof. exact llr64_second_monotone_in_abs. Qed.
Print Assumptions c12_llr_second_monotone_in_abs_double.

Theorem c12_llr_saturates_double :
  llr4_double p3_64 = (-7, 7) /\ llr4_double p1_64 = (-7, -7) /\ llr4_double m1_64 = (7, -7) /\ llr4_double m3_64 = (7, 7) /\
  forall x : binary64, (fle64 p3_64 x -> llr4_double x = (-7, 7)) /\ (fle64 x m3_64 -> llr4_double x = (7, 7)).
Proof. pose proof llr64_levels as (A & B & C & D). repeat split; try assumption; apply llr64_beyond. Qed.
Print Assumptions c12_llr_saturates_double.

Theorem c12_llr_nan_inf_defined_double :
  (forall x : binary64, Binary.is_nan 53 1024 x = true -> llr4_double x = (7, 7)) /\
  llr4_double (Binary.B754_infinity 53 1024 false) = (-7, 7) /\
  llr4_double (Binary.B754_infinity 53 1024 true) = (7, 7).
Proof. exact llr64_nan_inf. Qed.
Print Assumptions c12_llr_nan_inf_defined_double.

(** ** generic lemma behind the monotonicity clauses (DESIGN: lookup_monotone): for ANY table in ANY format whose
    thresholds are valid, non-NaN and strictly increasing and whose first components do not increase along the rows,
    clamp + std::lower_bound + end() fallback yields a first component that does not increase with the sample *)
Theorem c12_lookup_monotone : forall (prec emax : Z) (tbl : list row) (Sp : positive),
  0 < prec -> prec < emax ->
  chk_valid prec emax tbl = true -> chk_sorted prec emax tbl = true -> chk_bounds prec emax Sp = true ->
  chk_first tbl = true ->
  forall x y, SpecFloat.valid_binary prec emax x = true -> SpecFloat.valid_binary prec emax y = true -> sf_le x y ->
  fst (llr_with tbl (Fmt prec emax) y) <= fst (llr_with tbl (Fmt prec emax) x).
Proof. intros. eapply final_first_antitone; eassumption. Qed.
Print Assumptions c12_lookup_monotone.

(** table_ok: the finite facts about the two computed 43-row tables (sorted valid thresholds, clamp bounds = +-3,
    entries non-zero within +-7, per-bin region check with 1e-6 slack in exact arithmetic, monotone components) *)
Theorem c12_table_ok :
  length tbl32 = 43%nat /\ length tbl64 = 43%nat /\ llr_width_modem = 4 /\
  chk_valid 24 128 tbl32 = true /\ chk_sorted 24 128 tbl32 = true /\ chk_bounds 24 128 Sp32 = true /\
  chk_soft tbl32 llr_width_modem = true /\ chk_sign 24 128 tbl32 Sp32 = true /\ chk_first tbl32 = true /\
  chk_second_pos 24 128 tbl32 = true /\ chk_second_neg 24 128 tbl32 = true /\
  chk_valid 53 1024 tbl64 = true /\ chk_sorted 53 1024 tbl64 = true /\ chk_bounds 53 1024 Sp64 = true /\
  chk_soft tbl64 llr_width_modem = true /\ chk_sign 53 1024 tbl64 Sp64 = true /\ chk_first tbl64 = true /\
  chk_second_pos 53 1024 tbl64 = true /\ chk_second_neg 53 1024 tbl64 = true.
Proof.
  exact (conj tbl32_rows (conj tbl64_rows (conj width_is_4 (conj C32_valid (conj C32_sorted (conj C32_bounds (conj C32_soft (conj C32_sign (conj C32_first (conj C32_second_pos (conj C32_second_neg (conj C64_valid (conj C64_sorted (conj C64_bounds (conj C64_soft (conj C64_sign (conj C64_first (conj C64_second_pos C64_second_neg)))))))))))))))))).
Qed.
Print Assumptions c12_table_ok.

(** ** widths 2 and 3: the sign clause is FALSE of the faithful model (finding F11); concrete witnesses *)
Theorem c12_llr_sign_L3_refuted :
  (exists x : binary32, Binary.is_finite 24 128 x = true /\ far_from_boundaries (B2Q32 x) /\
     soft_dibit (llr F32 3 (Binary.B2SF 24 128 x)) <> nearest_dibit (B2Q32 x)) /\
  (exists x : binary64, Binary.is_finite 53 1024 x = true /\ far_from_boundaries (B2Q64 x) /\
     soft_dibit (llr F64 3 (Binary.B2SF 53 1024 x)) <> nearest_dibit (B2Q64 x)).
Proof. split; [exists w3_32; exact sign_L3_float_refuted | exists w3_64; exact sign_L3_double_refuted]. Qed.
Print Assumptions c12_llr_sign_L3_refuted.

Theorem c12_llr_sign_L2_refuted :
  (exists x : binary32, Binary.is_finite 24 128 x = true /\ far_from_boundaries (B2Q32 x) /\
     soft_dibit (llr F32 2 (Binary.B2SF 24 128 x)) <> nearest_dibit (B2Q32 x)) /\
  (exists x : binary64, Binary.is_finite 53 1024 x = true /\ far_from_boundaries (B2Q64 x) /\
     soft_dibit (llr F64 2 (Binary.B2SF 53 1024 x)) <> nearest_dibit (B2Q64 x)).
Proof. split; [exists w2a_32; exact (proj1 sign_L2_float_refuted) | exists w2a_64; exact (proj1 sign_L2_double_refuted)]. Qed.
Print Assumptions c12_llr_sign_L2_refuted.

(** width 4, float: "second soft bit as a function of |x|" does not hold ACROSS the two half-lines (asymmetric thresholds) *)
Theorem c12_llr_second_cross_sign_asymmetry : exists x y : binary32,
  (0 < B2Q32 x)%Q /\ (B2Q32 y < 0)%Q /\ (B2Q32 x < - B2Q32 y)%Q /\ snd (llr4_float y) < snd (llr4_float x).
Proof.
  exists asym_x, asym_y. destruct second_cross_sign_asymmetry as (A & B & C). rewrite B, C.
  repeat split; try exact A; vm_compute; reflexivity.
Qed.
Print Assumptions c12_llr_second_cross_sign_asymmetry.

(** ** the model's arithmetic is Flocq's IEEE-754 arithmetic (round to nearest even):
    the demapper written with Flocq's Bplus/Bminus/Bdiv/binary_normalize/Bltb on binary_float (LemmasLLR_Flocq.fllr)
    returns the same pair for every datum, and its six tables are those of ImplLLR.
    (Flocq's operations carry proofs over the reals: this theorem, and only this one, rests on the real-number axioms.) *)
Theorem c12_model_is_flocq_ieee :
  (forall x : binary32, fllr 24 128 Hp32 Hm32 llr_width_modem (B2BSN 24 128 x) = llr4_float x) /\
  (forall x : binary64, fllr 53 1024 Hp64 Hm64 llr_width_modem (B2BSN 53 1024 x) = llr4_double x) /\
  ftable32 4 = make_llr_map F32 4 /\ ftable32 3 = make_llr_map F32 3 /\ ftable32 2 = make_llr_map F32 2 /\
  ftable64 4 = make_llr_map F64 4 /\ ftable64 3 = make_llr_map F64 3 /\ ftable64 2 = make_llr_map F64 2.
Proof.
  split; [|split].
  - intro x. rewrite flocq_llr32. unfold llr4_float. rewrite B2SF_B2BSN. reflexivity.
  - intro x. rewrite flocq_llr64. unfold llr4_double. rewrite B2SF_B2BSN. reflexivity.
  - exact (conj flocq_table_32_4 (conj flocq_table_32_3 (conj flocq_table_32_2
            (conj flocq_table_64_4 (conj flocq_table_64_3 flocq_table_64_2))))).
Qed.
Print Assumptions c12_model_is_flocq_ieee.

(** ** the hypotheses are satisfiable: concrete instances *)
Definition x_1_8 : binary32 := f32 false 15099494 (-23) eq_refl.     (* 1.8f = 0x3fe66666 *)
Definition x_m0_3 : binary32 := f32 true 10066330 (-25) eq_refl.     (* -0.3f = 0xbe99999a *)
Example c12_sign_instance :
  far_from_boundaries (B2Q32 x_1_8) /\ llr4_float x_1_8 = (-7, -2) /\ nearest_dibit (B2Q32 x_1_8) = (false, false) /\
  far_from_boundaries (B2Q32 x_m0_3) /\ llr4_float x_m0_3 = (3, -7) /\ nearest_dibit (B2Q32 x_m0_3) = (true, false).
Proof. repeat split; try (apply far_b_iff); vm_compute; reflexivity. Qed.
Example c12_monotone_instance :
  fle32 zero32 p1_32 /\ fle32 p1_32 x_1_8 /\ fle32 x_1_8 p3_32 /\ fle32 m3_32 x_m0_3 /\ fle32 x_m0_3 zero32.
Proof. repeat split; left; vm_compute; reflexivity. Qed.
