(** LemmasQueue_Exec — the executable transition function is sound and complete for the step relation; a trace
    accepted by the extracted checker is the visible part of a run of the model. *)
From Coq Require Import ZArith List Bool Arith Lia.
From M17 Require Import ImplQueue.
Import ListNotations.

Lemma mutex_free_iff c : mutex_free c = true <-> mutex c = None.
Proof. unfold mutex_free. destruct (mutex c); split; congruence. Qed.
Lemma wake_okb_iff r t ws dl now : wake_okb r t ws dl now = true <-> wake_ok r t ws dl now.
Proof. destruct r; cbn; try tauto. now rewrite negb_true_iff. Qed.
Lemma notify_okb_iff u ws : notify_okb u ws = true <-> notify_ok u ws.
Proof. destruct u; cbn; try tauto. destruct ws; cbn; split; congruence. Qed.

Ltac head_split H :=
  repeat match type of H with
         | (if ?b then _ else _) = _ => destruct b eqn:?
         | (match ?x with _ => _ end) = _ => destruct x eqn:?
         end.

Section Exec.
Variable cap : nat.

Lemma step_fn_sound : forall c t ch l c', step_fn cap c t ch = Some (l, c') -> step cap c t l c'.
Proof.
  intros c t ch l c' H. unfold step_fn in H.
  destruct ch;
    try (destruct (0 <=? d)%Z eqn:E; [ injection H as <- <-; apply S_tick; apply Z.leb_le; exact E | discriminate ]);
    (destruct (pcs c t) as [[o0 p]|] eqn:Hpc;
     [ | try discriminate; injection H as <- <-; now constructor ]);
    destruct p; cbn [step_point] in H; try discriminate;
    head_split H; try discriminate; injection H as <- <-;
    repeat match goal with
           | H : mutex_free _ = true |- _ => apply mutex_free_iff in H
           | H : wake_okb _ _ _ _ _ = true |- _ => apply wake_okb_iff in H
           | H : notify_okb _ _ = true |- _ => apply notify_okb_iff in H
           | H : andb _ _ = true |- _ => apply andb_prop in H; destruct H
           end;
    try (econstructor; eauto; fail);
    (econstructor; eauto; intros ->; exact H0).
Qed.
End Exec.

Section Exec2.
Variable cap : nat.

Lemma step_fn_complete : forall c t l c', step cap c t l c' -> exists ch, step_fn cap c t ch = Some (l, c').
Proof.
  intros c t l c' S. inversion S; subst; unfold at_ in *.
  - exists (ChTick d). cbn. apply Z.leb_le in H. now rewrite H.
  - exists (ChInvoke o). cbn. now rewrite H.
  - exists ChStep. cbn. rewrite H. cbn. rewrite H0. apply mutex_free_iff in H1. now rewrite H1.
  - exists ChStep. cbn. rewrite H. cbn. now rewrite H0.
  - exists ChStep. cbn. now rewrite H.
  - exists ChStep. cbn. rewrite H. cbn. now rewrite H0.
  - exists ChStep. cbn. now rewrite H.
  - exists ChStep. cbn. now rewrite H.
  - exists ChStep. cbn. now rewrite H.
  - exists ChStep. cbn. now rewrite H.
  - exists ChStep. cbn. now rewrite H.
  - exists (ChWake r). cbn. rewrite H. cbn. apply wake_okb_iff in H0. now rewrite H0.
  - exists (ChExit timedout). cbn. rewrite H. cbn. apply mutex_free_iff in H0. rewrite H0.
    destruct timedout; cbn; [now rewrite (H1 eq_refl) | reflexivity].
  - exists ChStep. cbn. now rewrite H.
  - exists ChStep. cbn. now rewrite H.
  - exists ChStep. cbn. now rewrite H.
  - exists (ChNotify u). cbn. rewrite H. cbn. apply notify_okb_iff in H0. now rewrite H0.
  - exists ChStep. cbn. rewrite H. cbn. now rewrite H0.
  - exists ChStep. cbn. now rewrite H.
  - exists ChStep. cbn. now rewrite H.
  - exists (ChWake r). cbn. rewrite H. cbn. apply wake_okb_iff in H0. now rewrite H0.
  - exists (ChExit timedout). cbn. rewrite H. cbn. apply mutex_free_iff in H0. rewrite H0.
    destruct timedout; cbn; [now rewrite (H1 eq_refl) | reflexivity].
  - exists ChStep. cbn. rewrite H. cbn. now rewrite H0.
  - exists ChStep. cbn. now rewrite H.
  - exists ChStep. cbn. now rewrite H.
  - exists ChStep. cbn. now rewrite H.
  - exists (ChNotify u). cbn. rewrite H. cbn. apply notify_okb_iff in H0. now rewrite H0.
  - exists ChStep. cbn. now rewrite H.
  - exists (ChNotify u). cbn. rewrite H. cbn. apply notify_okb_iff in H0. now rewrite H0.
  - exists (ChNotify u). cbn. rewrite H. cbn. apply notify_okb_iff in H0. now rewrite H0.
  - exists ChStep. cbn. now rewrite H.
Qed.

Lemma steps_cons a t l b ls c : step cap a t l b -> steps cap b ls c -> steps cap a ((t, l) :: ls) c.
Proof.
  intros S H. induction H.
  - change [(t, l)] with ([] ++ [(t, l)]). econstructor; [constructor | exact S].
  - rewrite app_comm_cons. econstructor; eauto.
Qed.

Lemma run_sched_sound : forall s c ls c', run_sched cap c s = Some (ls, c') -> steps cap c ls c'.
Proof.
  induction s as [|[t ch] s IH]; intros c ls c' H; cbn in H.
  - injection H as <- <-. constructor.
  - destruct (step_fn cap c t ch) as [[l c1]|] eqn:E; try discriminate.
    destruct (run_sched cap c1 s) as [[ls1 c2]|] eqn:E2; try discriminate.
    injection H as <- <-. eapply steps_cons; eauto using step_fn_sound.
Qed.
End Exec2.

Lemma st_eqb_true a b : st_eqb a b = true -> a = b. Proof. destruct a, b; cbn; congruence. Qed.
Lemma op_eqb_true a b : op_eqb a b = true -> a = b.
Proof.
  destruct a, b; cbn; try discriminate; intros H;
    repeat (apply andb_prop in H; destruct H as [H ?]);
    repeat match goal with
           | H : Nat.eqb _ _ = true |- _ => apply Nat.eqb_eq in H
           | H : (_ =? _)%Z = true |- _ => apply Z.eqb_eq in H
           end; subst; try reflexivity.
  destruct q, q0; cbn in H; try discriminate; reflexivity.
Qed.
Lemma tev_eqb_true a b : tev_eqb a b = true -> a = b.
Proof.
  destruct a, b; cbn; try discriminate; intros H;
    try (apply andb_prop in H; destruct H as [H H']);
    try (apply op_eqb_true in H); try (apply Nat.eqb_eq in H); try (apply st_eqb_true in H);
    try (apply eqb_prop in H'); subst; try reflexivity.
  all: destruct cv, cv0; cbn in H; try discriminate; reflexivity.
Qed.
Lemma trace_eqb_true : forall a b, trace_eqb a b = true -> a = b.
Proof.
  induction a as [|[t e] a IH]; destruct b as [|[t' e'] b]; cbn; try discriminate; auto.
  intros H. apply andb_prop in H. destruct H as [H H2]. apply andb_prop in H. destruct H as [H H1].
  apply Nat.eqb_eq in H. apply tev_eqb_true in H1. apply IH in H2. now subst.
Qed.

(** soundness of the trace checker: an accepted trace is the visible part of a run of the model from the initial
    configuration (whatever schedule the untrusted synthesiser proposed) *)
Lemma accepts_with_sound : forall cap tr s, accepts_with cap tr s = true ->
  exists ls c, steps cap (init 0) ls c /\ visible ls = tr.
Proof.
  intros cap tr s H. unfold accepts_with in H.
  destruct (run_sched cap (init 0) s) as [[ls c]|] eqn:E; try discriminate.
  exists ls, c. split; [eapply run_sched_sound; eauto | now apply trace_eqb_true].
Qed.
Lemma accepts_sound : forall cap tr, accepts cap tr = true ->
  exists ls c, steps cap (init 0) ls c /\ visible ls = tr.
Proof. intros cap tr. apply accepts_with_sound. Qed.
