(** Index arithmetic of the receive path below the application (C07), with checked accesses:
    M17Framer::operator() (LLR mode), M17FrameDecoder::unpack_lich and decode_lich's copy into the
    LSF super-frame buffer, and the integer post-processing of the clock estimate in
    ClockRecovery::update() / update(uint8_t).  Constants regenerated from the headers (ConstsApp).
    The Viterbi / Golay / depuncture / callsign index obligations belong to C02 / C04 / C11 / C17.
    No proofs here. *)
From Coq Require Import NArith ZArith QArith Qround Arith Bool String List.
From M17 Require Import Checked ConstsApp.
Import ListNotations.

(** * M17Framer<368>::operator()(std::tuple<int8_t,int8_t>, int8_t** ) *)
Record framer : Type := { f_buffer : list Z; f_index : nat }.
Definition framer_init : framer := {| f_buffer := repeat 0%Z framer_size; f_index := 0 |}.

(* returns the new state and Some frame when a whole frame is handed out *)
Definition framer_step (f : framer) (symbol : Z * Z) : res (framer * option (list Z)) :=
  b1 <- set "M17Framer: buffer_[index_++] (first soft bit)" (f_buffer f) (f_index f) (fst symbol) ;;
  b2 <- set "M17Framer: buffer_[index_++] (second soft bit)" b1 (S (f_index f)) (snd symbol) ;;
  let idx := S (S (f_index f)) in
  if (idx =? framer_size)%nat then
    Ok ({| f_buffer := b2; f_index := if framer_resets_index then 0 else idx |}, Some b2)
  else Ok ({| f_buffer := b2; f_index := idx |}, None).

(* a whole history of symbols; returns the final state and the number of frames handed out *)
Fixpoint framer_run (f : framer) (symbols : list (Z * Z)) (frames : nat) : res (framer * nat) :=
  match symbols with
  | [] => Ok (f, frames)
  | s :: r => x <- framer_step f s ;;
              framer_run (fst x) r (match snd x with Some _ => S frames | None => frames end)
  end.

(** * M17FrameDecoder::unpack_lich: the walk of [index] through the 6-byte lich buffer *)
Section Lich.
Variable golay_decode : N -> option N.     (* Golay24::decode(codeword, decoded): None = uncorrectable *)

Definition lich_codeword (buffer : list Z) (i : nat) : res N :=
  bits <- get_each "unpack_lich: buffer[i * 24 + j]" buffer (map (fun j => i * ul_word_stride + j)%nat (seq 0 ul_word_bits)) ;;
  Ok (fold_left (fun cw b => N.lor (N.shiftl cw 1) (if (0 <? b)%Z then 1 else 0))%N bits 0%N).

(* one iteration of the outer loop; uint8_t stores *)
Definition unpack_step (buffer : list Z) (st : list N * nat) (i : nat) : res (option (list N * nat)) :=
  cw <- lich_codeword buffer i ;;
  match golay_decode cw with
  | None => Ok None
  | Some d0 =>
    let decoded := N.shiftr d0 ul_check_shift in
    let lich := fst st in
    let index := snd st in
    if Nat.odd i then
      x <- get "unpack_lich: lich[index++] |= (odd word)" lich index ;;
      l1 <- set "unpack_lich: lich[index++] |= (odd word)" lich index (N.land (N.lor x (N.shiftr decoded 8)) 255)%N ;;
      l2 <- set "unpack_lich: lich[index++] = (odd word)" l1 (S index) (N.land decoded 255)%N ;;
      Ok (Some (l2, S (S index)))
    else
      x <- get "unpack_lich: lich[index++] |= (even word)" lich index ;;
      l1 <- set "unpack_lich: lich[index++] |= (even word)" lich index (N.land (N.lor x (N.shiftr decoded 4)) 255)%N ;;
      l2 <- set "unpack_lich: lich[index] = (even word)" l1 (S index) (N.land (N.shiftl (N.land decoded 15) 4) 255)%N ;;
      Ok (Some (l2, S index))
  end.

Fixpoint unpack_loop (buffer : list Z) (st : list N * nat) (is : list nat) : res (option (list N * nat)) :=
  match is with
  | [] => Ok (Some st)
  | i :: r => x <- unpack_step buffer st i ;;
              match x with
              | None => Ok None
              | Some st' => unpack_loop buffer st' r
              end
  end.

(* output_buffer.lich.fill(0) precedes the call (decode_lich) *)
Definition unpack_lich (buffer : list Z) : res (option (list N * nat)) :=
  unpack_loop buffer (repeat 0%N lich_bytes, O) (seq 0 ul_words).
End Lich.

(** * decode_lich: fragment number and the copy into output_buffer.lsf *)
Definition fragment_number (lich5 : N) : N := N.land (N.shiftr (N.land lich5 255) lich_fn_shift) lich_fn_mask.

(* returns None for "fragment_number > MAX_LICH_FRAGMENT" (INCOMPLETE, nothing copied), else the new lsf buffer *)
Definition lich_copy (lich lsf : list N) : res (option (list N)) :=
  l5 <- get "decode_lich: output_buffer.lich[5]" lich lich_fn_idx ;;
  let fn := fragment_number l5 in
  let copy := (src <- range "decode_lich: lich.begin() .. lich.begin() + 5" lich 0 lich_copy_len ;;
               write_at "decode_lich: std::copy to lsf.begin() + fragment_number * 5" lsf (N.to_nat fn * lich_copy_stride) src) in
  if lich_guard_before_copy then
    if (max_lich_fragment <? fn)%N then Ok None else (l <- copy ;; Ok (Some l))
  else
    (l <- copy ;; if (max_lich_fragment <? fn)%N then Ok None else Ok (Some l)).

(** * ClockRecovery: int8_t(round(e)) and the wrap into [0, SamplesPerSymbol) *)
Local Open Scope Z_scope.

(* std::round: half away from zero *)
Definition round_half_away (e : Q) : Z :=
  if Qle_bool 0 e then Qfloor (e + (1 # 2)) else - Qfloor (- e + (1 # 2)).

(* int8_t(x) for an integral double x: defined only inside [-128, 127] (else float-cast-overflow: [None]) *)
Definition to_int8 (r : Z) : option Z := if (-128 <=? r) && (r <=? 127) then Some r else None.

(* conversion of a size_t result back to int8_t: modular *)
Definition wrap_int8 (x : Z) : Z := (x + 128) mod 256 - 128.

(* sample_index_ = s < 0 ? s + N : s;  sample_index_ = s >= int8_t(N) ? s - N : s;   (size_t arithmetic, stored to int8_t) *)
Definition wrap_step1 (s : Z) : Z := if s <? 0 then wrap_int8 (s + samples_per_symbol) else s.
Definition wrap_step2 (s : Z) : Z := if samples_per_symbol <=? s then wrap_int8 (s - samples_per_symbol) else s.

Definition sample_index_of (e : Q) : option Z :=
  match to_int8 (round_half_away e) with
  | Some s => Some (wrap_step2 (wrap_step1 s))
  | None => None
  end.

(* update(): csw = fmod(x, N); if (csw < 0) csw += N; else if (csw >= N) csw -= N;  in exact arithmetic *)
Definition fmod_trunc (x : Q) (n : Z) : Q :=
  let q := if Qle_bool 0 x then Qfloor (x / inject_Z n) else - Qfloor (- x / inject_Z n) in
  x - inject_Z (q * n).
Definition csw_of (x : Q) : Q :=
  let c := fmod_trunc x samples_per_symbol in
  if Qle_bool 0 c then (if Qle_bool (inject_Z samples_per_symbol) c then c - inject_Z samples_per_symbol else c)
  else c + inject_Z samples_per_symbol.
Definition sample_index_update0 (x : Q) : option Z := sample_index_of (csw_of x).
