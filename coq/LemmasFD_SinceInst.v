(** The history theorems of LemmasFD_Since.v for the model of the real decoder (FrameDecoderInst.fd_run), through the
    refinement LemmasFD_Inst.fd_run_refines_sm: they hold from every decoder state with any buffer contents. *)
From Coq Require Import NArith ZArith List Bool Lia.
From M17 Require Import Bits ImplCRC ConstsCrc ImplFrameDecoder SpecFrames FrameDecoderInst
  LemmasFD_Hidden LemmasFD_Refine LemmasFD_Inst LemmasFD_Since.
Import ListNotations.

Definition fd_at (P : input -> obs -> Prop) (h : list input) (s : fd_state) (i : nat) : Prop :=
  at_ input obs P h (fst (fd_run s h)) i.

Definition fd_packet_arm := packet_arm spec_crc_ok.
Definition fd_stream_arm := stream_arm spec_crc_ok.

Lemma fd_packet_only_after_packet_lsf (h : list input) (s : fd_state) (k : nat) : fd_hid_ok s ->
  fd_at packet_emit h s k ->
  (is_packet_mode (sm_mode (fd_abs s)) = true /\ forall i, i < k -> fd_at packet_cont h s i) \/
  (exists j, j < k /\ fd_at fd_packet_arm h s j /\ forall i, j < i < k -> fd_at packet_cont h s i).
Proof. intros Hok. unfold fd_at. rewrite (fd_run_refines_sm h s Hok).
  exact (sm_packet_only_after_packet_lsf sm_prep sm_dec sm_lich spec_crc_ok h (fd_abs s) k). Qed.

Lemma fd_stream_only_after_link_setup (h : list input) (s : fd_state) (k : nat) : fd_hid_ok s ->
  fd_at stream_emit h s k ->
  (sm_mode (fd_abs s) = MStream /\ forall i, i < k -> fd_at stream_cont h s i) \/
  (exists j, j < k /\ fd_at fd_stream_arm h s j /\ forall i, j < i < k -> fd_at stream_cont h s i).
Proof. intros Hok. unfold fd_at. rewrite (fd_run_refines_sm h s Hok).
  exact (sm_stream_only_after_link_setup sm_prep sm_dec sm_lich spec_crc_ok h (fd_abs s) k). Qed.

Lemma fd_lsf_callbacks_crc_valid (h : list input) (s : fd_state) (k : nat) (o : obs) (cb : callback) : fd_hid_ok s ->
  nth_error (fst (fd_run s h)) k = Some o -> In cb (o_cbs o) -> cb_type cb = FLsf -> spec_crc_ok (cb_bytes cb) = true.
Proof. intros Hok. rewrite (fd_run_refines_sm h s Hok).
  exact (sm_lsf_callbacks_crc_valid sm_prep sm_dec sm_lich spec_crc_ok h (fd_abs s) k o cb). Qed.

Lemma fd_history_sync_rules (h : list input) (s : fd_state) (k : nat) (x : input) (o : obs) : fd_hid_ok s ->
  nth_error h k = Some x -> nth_error (fst (fd_run s h)) k = Some o ->
  (i_sync x = SBert -> o_mode o = MBert /\ o_res o = ROk /\ exists cb, o_cbs o = [cb] /\ cb_type cb = FBert /\ o_cost o = Some (cb_cost cb)) /\
  (i_sync x = SLsf -> (o_res o = ROk /\ exists cb, o_cbs o = [cb] /\ cb_type cb = FLsf) \/ (o_res o = RFail /\ o_mode o = MLsf /\ o_cbs o = [])) /\
  (o_cost o = None -> o_mode o = MLsf /\ o_res o = RFail /\ o_cbs o = [] /\ (i_sync x = SStream \/ i_sync x = SPacket)).
Proof. intros Hok. rewrite (fd_run_refines_sm h s Hok).
  exact (sm_history_sync_rules sm_prep sm_dec sm_lich spec_crc_ok h (fd_abs s) k x o). Qed.

Lemma spec_crc_ok_unfold (l : list N) : spec_crc_ok l = N.eqb (crc30 l) 0.
Proof. unfold spec_crc_ok. reflexivity. Qed.

Lemma fd_lsf_callbacks_crc_valid' (h : list input) (s : fd_state) (k : nat) (o : obs) (cb : callback) : fd_hid_ok s ->
  nth_error (fst (fd_run s h)) k = Some o -> In cb (o_cbs o) -> cb_type cb = FLsf -> N.eqb (crc30 (cb_bytes cb)) 0 = true.
Proof. intros Hok Hn Hin Hty. rewrite <- spec_crc_ok_unfold. exact (fd_lsf_callbacks_crc_valid h s k o cb Hok Hn Hin Hty). Qed.
