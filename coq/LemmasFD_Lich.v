(** unpack_lich: when the four Golay words decode, the six LICH bytes are the 48 data bits packed MSB first
    (the nibble packing of M17FrameDecoder::unpack_lich is right), for all contents. *)
From Coq Require Import NArith ZArith List Bool Lia.
From M17 Require Import Bits ImplFrameDecoder.
Import ListNotations.
Local Open Scope N_scope.

Definition lich_of_words (w0 w1 w2 w3 : N) : list N :=
  [ N.land (N.lor 0 (N.shiftr w0 4)) 0xFF;
    N.land (N.lor (N.land (N.shiftl (N.land w0 0x0F) 4) 0xFF) (N.shiftr w1 8)) 0xFF;
    N.land w1 0xFF;
    N.land (N.lor 0 (N.shiftr w2 4)) 0xFF;
    N.land (N.lor (N.land (N.shiftl (N.land w2 0x0F) 4) 0xFF) (N.shiftr w3 8)) 0xFF;
    N.land w3 0xFF ].

Section Unpack.
Variable golay_decode : N -> option N.

Lemma unpack_lich_words fr o0 o1 o2 o3 :
  golay_decode (codeword fr 0) = Some o0 -> golay_decode (codeword fr 1) = Some o1 ->
  golay_decode (codeword fr 2) = Some o2 -> golay_decode (codeword fr 3) = Some o3 ->
  unpack_lich golay_decode fr =
    (lich_of_words (N.shiftr o0 12) (N.shiftr o1 12) (N.shiftr o2 12) (N.shiftr o3 12), true).
Proof. intros G0 G1 G2 G3. unfold unpack_lich. cbn [seq fold_left].
  unfold unpack_step at 4. cbn [negb]. rewrite G0. cbn [Nat.odd negb].
  unfold unpack_step at 3. cbn [negb]. rewrite G1. cbn [Nat.odd negb].
  unfold unpack_step at 2. cbn [negb]. rewrite G2. cbn [Nat.odd negb].
  unfold unpack_step at 1. cbn [negb]. rewrite G3. cbn [Nat.odd negb].
  cbn [repeat upd firstn skipn app Nat.add]. reflexivity. Qed.

Lemma unpack_lich_fails fr i : (i < 4)%nat -> golay_decode (codeword fr i) = None ->
  snd (unpack_lich golay_decode fr) = false.
Proof. intros Hi G. unfold unpack_lich. cbn [seq fold_left].
  assert (K : forall acc j, snd acc = false -> snd (unpack_step golay_decode fr acc j) = false).
  { intros [[l x] ok] j H. cbn [snd] in H. subst ok. reflexivity. }
  assert (F : forall acc, snd (unpack_step golay_decode fr acc i) = false).
  { intros [[l x] ok]. unfold unpack_step. destruct ok; cbn [negb]; [rewrite G|]; reflexivity. }
  destruct i as [|[|[|[|i]]]]; try lia;
  repeat match goal with
  | |- context[unpack_step golay_decode fr ?a ?j] =>
      let H := fresh in
      first [ pose proof (F a) as H | idtac ]; fail
  end.
  - set (a1 := unpack_step golay_decode fr (repeat 0 6, 0%nat, true) 0%nat).
    assert (snd a1 = false) by apply F.
    set (a2 := unpack_step golay_decode fr a1 1%nat). assert (snd a2 = false) by (apply K; assumption).
    set (a3 := unpack_step golay_decode fr a2 2%nat). assert (snd a3 = false) by (apply K; assumption).
    set (a4 := unpack_step golay_decode fr a3 3%nat). assert (snd a4 = false) by (apply K; assumption).
    destruct a4 as [[l x] ok]. exact H2.
  - set (a1 := unpack_step golay_decode fr (repeat 0 6, 0%nat, true) 0%nat).
    set (a2 := unpack_step golay_decode fr a1 1%nat). assert (snd a2 = false) by apply F.
    set (a3 := unpack_step golay_decode fr a2 2%nat). assert (snd a3 = false) by (apply K; assumption).
    set (a4 := unpack_step golay_decode fr a3 3%nat). assert (snd a4 = false) by (apply K; assumption).
    destruct a4 as [[l x] ok]. exact H1.
  - set (a1 := unpack_step golay_decode fr (repeat 0 6, 0%nat, true) 0%nat).
    set (a2 := unpack_step golay_decode fr a1 1%nat).
    set (a3 := unpack_step golay_decode fr a2 2%nat). assert (snd a3 = false) by apply F.
    set (a4 := unpack_step golay_decode fr a3 3%nat). assert (snd a4 = false) by (apply K; assumption).
    destruct a4 as [[l x] ok]. exact H0.
  - set (a1 := unpack_step golay_decode fr (repeat 0 6, 0%nat, true) 0%nat).
    set (a2 := unpack_step golay_decode fr a1 1%nat).
    set (a3 := unpack_step golay_decode fr a2 2%nat).
    set (a4 := unpack_step golay_decode fr a3 3%nat). assert (snd a4 = false) by apply F.
    destruct a4 as [[l x] ok]. exact H.
Qed.
End Unpack.

(* ---------------------------------------------------------------- nibble packing = MSB-first bit packing *)
Definition ok12 (q : list bool) : bool :=
  (N.land (N.lor 0 (N.shiftr (bits_N q) 4)) 0xFF =? bits_N (firstn 8 q)) &&
  (N.land (N.shiftl (N.land (bits_N q) 0x0F) 4) 0xFF =? 16 * bits_N (skipn 8 q)) &&
  (N.shiftr (bits_N q) 8 =? bits_N (firstn 4 q)) &&
  (N.land (bits_N q) 0xFF =? bits_N (skipn 4 q)).
Lemma sweep12 : all_lists 12 ok12 = true.
Proof. vm_cast_no_check (eq_refl true). Qed.

Definition ok44 (a : list bool) : bool :=
  all_lists 4 (fun b => N.land (N.lor (16 * bits_N a) (bits_N b)) 0xFF =? bits_N (a ++ b)).
Lemma sweep44 : all_lists 4 ok44 = true.
Proof. vm_cast_no_check (eq_refl true). Qed.

Lemma pack_bits_fuel_irrel : forall f1 f2 l, (length l <= f1)%nat -> (length l <= f2)%nat ->
  pack_bits_fuel f1 l = pack_bits_fuel f2 l.
Proof. induction f1 as [|f1 IH]; intros f2 l H1 H2.
  - destruct l; [destruct f2; reflexivity | cbn in H1; lia].
  - destruct l as [|x l]; [destruct f2; reflexivity|].
    destruct f2 as [|f2]; [cbn in H2; lia|].
    change (pack_bits_fuel (S f1) (x :: l)) with (bits_N (firstn 8 ((x :: l) ++ repeat false 7)) :: pack_bits_fuel f1 (skipn 8 (x :: l))).
    change (pack_bits_fuel (S f2) (x :: l)) with (bits_N (firstn 8 ((x :: l) ++ repeat false 7)) :: pack_bits_fuel f2 (skipn 8 (x :: l))).
    f_equal. apply IH; rewrite skipn_length; cbn [length] in *; lia. Qed.

Lemma pack_bits_cons8 (a rest : list bool) : length a = 8%nat -> pack_bits (a ++ rest) = bits_N a :: pack_bits rest.
Proof. intros L. do 8 (destruct a as [|? a]; [discriminate|]). destruct a; [|discriminate].
  unfold pack_bits.
  set (l := [b; b0; b1; b2; b3; b4; b5; b6] ++ rest).
  assert (Ll : length l = S (7 + length rest)) by (subst l; rewrite app_length; reflexivity).
  rewrite Ll.
  change (pack_bits_fuel (S (7 + length rest)) l) with
    (match l with [] => [] | _ => bits_N (firstn 8 (l ++ repeat false 7)) :: pack_bits_fuel (7 + length rest) (skipn 8 l) end).
  subst l. cbn [app firstn skipn]. f_equal.
  apply pack_bits_fuel_irrel; lia. Qed.

Lemma lich_of_words_bits (q0 q1 q2 q3 : list bool) :
  length q0 = 12%nat -> length q1 = 12%nat -> length q2 = 12%nat -> length q3 = 12%nat ->
  lich_of_words (bits_N q0) (bits_N q1) (bits_N q2) (bits_N q3) = pack_bits (q0 ++ q1 ++ q2 ++ q3).
Proof. intros L0 L1 L2 L3.
  pose proof (all_lists_spec 12 ok12 sweep12 q0 L0) as S0. pose proof (all_lists_spec 12 ok12 sweep12 q1 L1) as S1.
  pose proof (all_lists_spec 12 ok12 sweep12 q2 L2) as S2. pose proof (all_lists_spec 12 ok12 sweep12 q3 L3) as S3.
  unfold ok12 in S0, S1, S2, S3.
  repeat match goal with H : _ && _ = true |- _ => apply andb_prop in H; destruct H end.
  repeat match goal with H : (_ =? _) = true |- _ => apply N.eqb_eq in H end.
  assert (P : forall a b, length a = 4%nat -> length b = 4%nat ->
              N.land (N.lor (16 * bits_N a) (bits_N b)) 0xFF = bits_N (a ++ b)).
  { intros a b La Lb. pose proof (all_lists_spec 4 ok44 sweep44 a La) as Sa. unfold ok44 in Sa.
    pose proof (all_lists_spec 4 _ Sa b Lb) as Sb. apply N.eqb_eq in Sb. exact Sb. }
  assert (E : q0 ++ q1 ++ q2 ++ q3 =
    firstn 8 q0 ++ (skipn 8 q0 ++ firstn 4 q1) ++ skipn 4 q1 ++ firstn 8 q2 ++ (skipn 8 q2 ++ firstn 4 q3) ++ skipn 4 q3 ++ []).
  { rewrite <- (firstn_skipn 8 q0) at 1. rewrite <- (firstn_skipn 4 q1) at 1.
    rewrite <- (firstn_skipn 8 q2) at 1. rewrite <- (firstn_skipn 4 q3) at 1.
    rewrite app_nil_r. rewrite <- !app_assoc. reflexivity. }
  rewrite E.
  rewrite !pack_bits_cons8 by (rewrite ?app_length, ?firstn_length, ?skipn_length; lia).
  unfold lich_of_words.
  repeat match goal with H : _ = bits_N _ |- _ => rewrite H; clear H end.
  repeat match goal with H : _ = 16 * bits_N _ |- _ => rewrite H; clear H end.
  rewrite !P by (rewrite ?firstn_length, ?skipn_length; lia).
  reflexivity. Qed.
