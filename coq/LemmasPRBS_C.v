(** C18, part C: error counting.  The 16-byte history is a circular buffer of 128 error flags; its rotation by
    hist_pos is a FIFO of the last 128 error flags (oldest first); hist_count is its population count, so the size_t
    decrement never wraps; err_count/bit_count count errors/bits modulo 2^32; unlock exactly at 25. *)
From Coq Require Import NArith ZArith List Bool Arith Lia ZifyBool ZifyNat ZifyN.
From M17 Require Import Bits ConstsPrbs ImplPRBS SpecPRBS LemmasPRBS_A LemmasPRBS_B.
Import ListNotations.
Local Open Scope N_scope.
Ltac Zify.zify_post_hook ::= Z.div_mod_to_equations.

(** * lists *)
Lemma upd_length {A} (l : list A) : forall i x, length (upd l i x) = length l.
Proof. induction l as [|h l IH]; intros [|i] x; cbn [upd length]; try reflexivity. f_equal. apply IH. Qed.

Lemma upd_eq {A} (l : list A) : forall i x, (i < length l)%nat -> upd l i x = firstn i l ++ x :: skipn (S i) l.
Proof. induction l as [|h l IH]; intros [|i] x H; cbn [length] in H; try lia; [reflexivity|].
  cbn [upd firstn skipn app]. f_equal. apply IH. lia. Qed.

Lemma nth_upd_same {A} (l : list A) : forall i x d, (i < length l)%nat -> nth i (upd l i x) d = x.
Proof. induction l as [|h l IH]; intros [|i] x d H; cbn [length] in H; try lia; [reflexivity|]. cbn [upd nth]. apply IH. lia. Qed.

Definition rot {A} (p : nat) (w : list A) : list A := skipn p w ++ firstn p w.

Lemma rot_length {A} p (w : list A) : length (rot p w) = length w.
Proof. unfold rot. rewrite app_length, skipn_length, firstn_length. lia. Qed.

Lemma hd_rot {A} p (w : list A) d : (p < length w)%nat -> hd d (rot p w) = nth p w d.
Proof. revert p. induction w as [|h w IH]; intros p H; cbn [length] in H; [lia|].
  destruct p; [reflexivity|]. unfold rot in *. cbn [skipn firstn nth].
  specialize (IH p ltac:(lia)). destruct (skipn p w) eqn:E.
  - exfalso. assert (length (skipn p w) = 0%nat) by (rewrite E; reflexivity). rewrite skipn_length in H0. lia.
  - cbn [app hd] in *. exact IH. Qed.

Lemma tl_skipn {A} p (w : list A) : tl (skipn p w) = skipn (S p) w.
Proof. revert p. induction w as [|h w IH]; intros [|p]; try reflexivity. cbn [skipn]. rewrite IH. reflexivity. Qed.

Lemma rot_step {A} (w : list A) p e : (p < length w)%nat ->
  rot (if Nat.eqb (S p) (length w) then 0%nat else S p) (upd w p e) = tl (rot p w) ++ [e].
Proof. intros H. rewrite upd_eq by exact H. unfold rot.
  assert (T : tl (skipn p w ++ firstn p w) = skipn (S p) w ++ firstn p w).
  { destruct (skipn p w) eqn:E.
    - exfalso. assert (length (skipn p w) = 0%nat) by (rewrite E; reflexivity). rewrite skipn_length in H0. lia.
    - rewrite <- tl_skipn, E. reflexivity. }
  rewrite T. destruct (Nat.eqb (S p) (length w)) eqn:Q.
  - apply Nat.eqb_eq in Q. rewrite skipn_O, firstn_O, app_nil_r.
    rewrite (skipn_all2 w) by lia. reflexivity.
  - apply Nat.eqb_neq in Q.
    assert (Lf : length (firstn p w) = p) by (rewrite firstn_length; lia).
    rewrite skipn_app, firstn_app, Lf.
    replace (S p - p)%nat with 1%nat by lia.
    rewrite (skipn_all2 (firstn p w)) by lia. rewrite (firstn_all2 (firstn p w)) by lia.
    change (firstn 1 (e :: skipn (S p) w)) with [e]. change (skipn 1 (e :: skipn (S p) w)) with (skipn (S p) w).
    rewrite app_nil_l, <- app_assoc. reflexivity. Qed.

Lemma count_true_app a b : count_true (a ++ b) = (count_true a + count_true b)%nat.
Proof. unfold count_true. rewrite filter_app, app_length. reflexivity. Qed.
Lemma count_true_cons x l : count_true (x :: l) = ((if x then 1 else 0) + count_true l)%nat.
Proof. unfold count_true. cbn [filter]. destruct x; reflexivity. Qed.
Lemma count_true_le l : (count_true l <= length l)%nat.
Proof. induction l as [|x l IH]; [cbn; lia|]. rewrite count_true_cons. cbn [length]. destruct x; lia. Qed.
Lemma count_true_repeat_false n : count_true (repeat false n) = 0%nat.
Proof. induction n; [reflexivity|]. cbn [repeat]. rewrite count_true_cons. exact IHn. Qed.

Lemma count_true_step W e : W <> [] ->
  (count_true (tl W ++ [e]) + (if hd false W then 1 else 0) = count_true W + (if e then 1 else 0))%nat.
Proof. destruct W as [|x W]; [contradiction|]. intros _. cbn [tl hd].
  rewrite count_true_app, !count_true_cons. change (count_true []) with 0%nat. destruct x, e; lia. Qed.

Lemma lastn_snoc {A} n (X : list A) e : (1 <= n <= length X)%nat -> lastn n (X ++ [e]) = tl (lastn n X) ++ [e].
Proof. intros H. unfold lastn. rewrite app_length. cbn [length].
  replace (length X + 1 - n)%nat with (S (length X - n)) by lia.
  rewrite tl_skipn. rewrite skipn_app. replace (S (length X - n) - length X)%nat with 0%nat by lia. reflexivity. Qed.
Lemma lastn_length {A} n (X : list A) : (n <= length X)%nat -> length (lastn n X) = n.
Proof. intros H. unfold lastn. rewrite skipn_length. lia. Qed.
Lemma lastn_all {A} n (X : list A) : (length X <= n)%nat -> lastn n X = X.
Proof. intros H. unfold lastn. replace (length X - n)%nat with 0%nat by lia. reflexivity. Qed.

(** * chunks of eight *)
Definition bits8 (b : N) : list bool := map (N.testbit b) [0; 1; 2; 3; 4; 5; 6; 7].
Definition win (h : list N) : list bool := flat_map bits8 h.

Lemma bits8_length b : length (bits8 b) = 8%nat. Proof. reflexivity. Qed.
Lemma win_length h : length (win h) = (8 * length h)%nat.
Proof. induction h as [|b h IH]; [reflexivity|]. unfold win in *. cbn [flat_map]. rewrite app_length, IH, bits8_length. cbn [length]. lia. Qed.

Lemma nth_win h : forall i k, (k < 8)%nat -> (i < length h)%nat ->
  nth (8 * i + k) (win h) false = nth k (bits8 (nth i h 0)) false.
Proof. induction h as [|b h IH]; intros i k Hk Hi; cbn [length] in Hi; [lia|].
  unfold win in *. cbn [flat_map]. destruct i.
  - rewrite app_nth1 by (rewrite bits8_length; lia). replace (8 * 0 + k)%nat with k by lia. reflexivity.
  - rewrite app_nth2 by (rewrite bits8_length; lia). rewrite bits8_length.
    replace (8 * S i + k - 8)%nat with (8 * i + k)%nat by lia. cbn [nth]. apply IH; lia. Qed.

Lemma upd_app_l {A} (a b : list A) i x : (i < length a)%nat -> upd (a ++ b) i x = upd a i x ++ b.
Proof. revert i. induction a as [|h a IH]; intros i H; cbn [length] in H; [lia|]. destruct i; [reflexivity|].
  cbn [app upd]. f_equal. apply IH. lia. Qed.
Lemma upd_app_r {A} (a b : list A) i x : (length a <= i)%nat -> upd (a ++ b) i x = a ++ upd b (i - length a) x.
Proof. revert i. induction a as [|h a IH]; intros i H; cbn [length] in *.
  - rewrite Nat.sub_0_r. reflexivity.
  - destruct i; [lia|]. cbn [app upd]. f_equal. apply IH. lia. Qed.

Lemma upd_win h : forall i k y x, (k < 8)%nat -> (i < length h)%nat ->
  bits8 y = upd (bits8 (nth i h 0)) k x ->
  win (upd h i y) = upd (win h) (8 * i + k) x.
Proof. induction h as [|b h IH]; intros i k y x Hk Hi E; cbn [length] in Hi; [lia|].
  unfold win in *. destruct i.
  - cbn [upd flat_map nth] in *. rewrite E. replace (8 * 0 + k)%nat with k by lia.
    rewrite upd_app_l by (rewrite bits8_length; lia). reflexivity.
  - cbn [upd flat_map nth] in *. rewrite upd_app_r by (rewrite bits8_length; lia). rewrite bits8_length.
    replace (8 * S i + k - 8)%nat with (8 * i + k)%nat by lia. f_equal. apply IH; [exact Hk | lia | exact E]. Qed.

(** * one history byte *)
Lemma land_pow2 b k : N.land b (2 ^ k) = if N.testbit b k then 2 ^ k else 0.
Proof. apply N.bits_inj. intro j. rewrite N.land_spec, N.pow2_bits_eqb.
  destruct (N.eqb_spec k j) as [->|Ne].
  - rewrite andb_true_r. destruct (N.testbit b j) eqn:E; [rewrite N.pow2_bits_true | rewrite N.bits_0]; reflexivity.
  - rewrite andb_false_r. destruct (N.testbit b k); [rewrite N.pow2_bits_false by exact Ne | rewrite N.bits_0]; reflexivity. Qed.

Lemma byte_test b k : negb (N.land b (N.shiftl 1 k) =? 0) = N.testbit b k.
Proof. rewrite N.shiftl_1_l, land_pow2. destruct (N.testbit b k); [|reflexivity].
  destruct (2 ^ k =? 0) eqn:E; [|reflexivity]. apply N.eqb_eq in E. exfalso. revert E. apply N.pow_nonzero. discriminate. Qed.

Lemma byte_cases k : k < 8 -> k = 0 \/ k = 1 \/ k = 2 \/ k = 3 \/ k = 4 \/ k = 5 \/ k = 6 \/ k = 7.
Proof. lia. Qed.

Lemma byte_set b k : k < 8 -> bits8 (N.land (N.lor b (N.shiftl 1 k)) 255) = upd (bits8 b) (N.to_nat k) true.
Proof. intros H. unfold bits8.
  destruct (byte_cases k H) as [->|[->|[->|[->|[->|[->|[->| ->]]]]]]]; cbn [map upd N.to_nat Pos.to_nat Pos.iter_op Nat.add];
    rewrite !N.land_spec, !N.lor_spec; cbn; rewrite ?andb_true_r, ?orb_false_r, ?orb_true_r; reflexivity. Qed.

Lemma byte_clear b k : k < 8 -> bits8 (N.land (N.ldiff b (N.shiftl 1 k)) 255) = upd (bits8 b) (N.to_nat k) false.
Proof. intros H. unfold bits8.
  destruct (byte_cases k H) as [->|[->|[->|[->|[->|[->|[->| ->]]]]]]]; cbn [map upd N.to_nat Pos.to_nat Pos.iter_op Nat.add];
    rewrite !N.land_spec, !N.ldiff_spec; cbn; rewrite ?andb_true_r, ?andb_false_r; reflexivity. Qed.

Lemma nth_bits8 b k : k < 8 -> nth (N.to_nat k) (bits8 b) false = N.testbit b k.
Proof. intros H. destruct (byte_cases k H) as [->|[->|[->|[->|[->|[->|[->| ->]]]]]]]; reflexivity. Qed.

(** * the window *)
Definition window_of (v : prbs) : list bool := rot (N.to_nat (hist_pos v)) (win (history v)).

Lemma pos_split p : p < 128 ->
  N.to_nat p = (8 * N.to_nat (N.shiftr p 3) + N.to_nat (N.land p 7))%nat /\ N.land p 7 < 8 /\ (N.to_nat (N.shiftr p 3) < 16)%nat.
Proof. intros H. rewrite N.shiftr_div_pow2. change 7 with (N.ones 3). rewrite N.land_ones. change (2 ^ 3) with 8. lia. Qed.

Lemma hcnt_dec c x : c <= 128 -> b2n x <= c -> w_hcnt (c + 2 ^ ConstsPrbs.prbs_hist_count_bits - b2n x) = c - b2n x.
Proof. intros H1 H2. unfold w_hcnt, wrap. change (2 ^ ConstsPrbs.prbs_hist_count_bits) with 18446744073709551616.
  destruct x; cbn [b2n] in *; lia. Qed.
Lemma hcnt_inc c : c <= 128 -> w_hcnt (c + 1) = c + 1.
Proof. intros H. unfold w_hcnt, wrap. change (2 ^ ConstsPrbs.prbs_hist_count_bits) with 18446744073709551616. lia. Qed.
Lemma hpos_inc p : p < 128 -> w_hpos (p + 1) = p + 1.
Proof. intros H. unfold w_hpos, wrap. change (2 ^ ConstsPrbs.prbs_hist_pos_bits) with 18446744073709551616. lia. Qed.

Lemma count_errors_spec v W e :
  length (history v) = 16%nat -> hist_pos v < 128 -> window_of v = W -> hist_count v = N.of_nat (count_true W) ->
  let v' := prbs_count_errors v e in
  let W' := tl W ++ [e] in
  state v' = state v /\ sync_count v' = sync_count v /\
  length (history v') = 16%nat /\ hist_pos v' < 128 /\ window_of v' = W' /\ hist_count v' = N.of_nat (count_true W') /\
  bit_count v' = w_bits (bit_count v + 1) /\
  err_count v' = (if e then w_errs (err_count v + 1) else err_count v) /\
  synced v' = (if e && (25 <=? count_true W')%nat then false else synced v).
Proof. intros L P HW HC. destruct (pos_split _ P) as [Sp [K I]].
  assert (LW : length (win (history v)) = 128%nat) by (rewrite win_length, L; reflexivity).
  assert (Lw : length W = 128%nat) by (rewrite <- HW; unfold window_of; rewrite rot_length; exact LW).
  assert (OLD : negb (N.land (nth (N.to_nat (N.shiftr (hist_pos v) 3)) (history v) 0) (N.shiftl 1 (N.land (hist_pos v) 7)) =? 0) = hd false W).
  { rewrite byte_test, <- HW. unfold window_of. rewrite hd_rot by lia. rewrite Sp.
    rewrite nth_win by lia. rewrite nth_bits8 by exact K. reflexivity. }
  destruct W as [|x W0]; [discriminate|]. cbn [hd tl] in *.
  assert (C0 : count_true (x :: W0) = ((if x then 1 else 0) + count_true W0)%nat) by apply count_true_cons.
  assert (C1 : count_true (W0 ++ [e]) = (count_true W0 + (if e then 1 else 0))%nat).
  { rewrite count_true_app, count_true_cons. change (count_true []) with 0%nat. lia. }
  pose proof (count_true_le W0) as LE. cbn [length] in Lw.
  assert (POS2 : forall q, q = (if hist_pos v + 1 =? ConstsPrbs.prbs_hist_len then ConstsPrbs.prbs_hist_wrap_to else hist_pos v + 1) ->
                 q < 128 /\ N.to_nat q = (if Nat.eqb (S (N.to_nat (hist_pos v))) (length (win (history v))) then 0%nat else S (N.to_nat (hist_pos v)))).
  { intros q ->. rewrite LW. change ConstsPrbs.prbs_hist_len with 128. change ConstsPrbs.prbs_hist_wrap_to with 0.
    destruct (hist_pos v + 1 =? 128) eqn:Q; destruct (Nat.eqb (S (N.to_nat (hist_pos v))) 128) eqn:Q2; lia. }
  assert (WIN : forall b y, bits8 y = upd (bits8 (nth (N.to_nat (N.shiftr (hist_pos v) 3)) (history v) 0)) (N.to_nat (N.land (hist_pos v) 7)) b ->
                rot (if Nat.eqb (S (N.to_nat (hist_pos v))) (length (win (history v))) then 0%nat else S (N.to_nat (hist_pos v)))
                    (win (upd (history v) (N.to_nat (N.shiftr (hist_pos v) 3)) y)) = W0 ++ [b]).
  { intros b y E. rewrite (upd_win (history v) _ (N.to_nat (N.land (hist_pos v) 7)) y b) by (try exact E; lia).
    rewrite <- Sp. rewrite rot_step by lia. fold (window_of v). rewrite HW. reflexivity. }
  unfold prbs_count_errors.
  change ConstsPrbs.prbs_hist_byte_shift with 3. change ConstsPrbs.prbs_hist_bit_mask with 7.
  rewrite OLD, HC, (hpos_inc (hist_pos v) P).
  rewrite (hcnt_dec (N.of_nat (count_true (x :: W0))) x) by (destruct x; cbn [b2n]; lia).
  destruct (POS2 _ eq_refl) as [P2 TN].
  destruct e.
  - cbn [state sync_count history hist_pos hist_count bit_count err_count synced andb].
    rewrite (hcnt_inc (N.of_nat (count_true (x :: W0)) - b2n x)) by (destruct x; cbn [b2n]; lia).
    unfold window_of. cbn [history hist_pos]. rewrite TN, (WIN true) by (apply byte_set; exact K).
    rewrite upd_length.
    assert (HC2 : N.of_nat (count_true (x :: W0)) - b2n x + 1 = N.of_nat (count_true (W0 ++ [true]))) by (destruct x; cbn [b2n]; lia).
    rewrite HC2. repeat split; try assumption; try reflexivity.
    change ConstsPrbs.prbs_UNLOCK_COUNT with 25.
    destruct (25 <=? N.of_nat (count_true (W0 ++ [true]))) eqn:Q1; destruct (25 <=? count_true (W0 ++ [true]))%nat eqn:Q2; try reflexivity; lia.
  - cbn [state sync_count history hist_pos hist_count bit_count err_count synced andb].
    unfold window_of. cbn [history hist_pos]. rewrite TN, (WIN false) by (apply byte_clear; exact K).
    rewrite upd_length.
    assert (HC2 : N.of_nat (count_true (x :: W0)) - b2n x = N.of_nat (count_true (W0 ++ [false]))) by (destruct x; cbn [b2n]; lia).
    rewrite HC2. repeat split; try assumption; reflexivity. Qed.

(** * validate() on a locked, consistent validator whose register is the generator's *)
Definition consistent (v : prbs) (g : N) : Prop :=
  synced v = true /\ state v = g /\ length (history v) = 16%nat /\ hist_pos v < 128 /\
  hist_count v = N.of_nat (count_true (window_of v)).

(** the uint32 members hold uint32 values *)
Definition counters_wf (v : prbs) : Prop := bit_count v < 2 ^ 32 /\ err_count v < 2 ^ 32.

Lemma validate_synced v g e : consistent v g ->
  let r := prbs_validate v (xorb (taps g) e) in
  let W' := tl (window_of v) ++ [e] in
  snd r = e /\ state (fst r) = lfsr g /\ sync_count (fst r) = sync_count v /\
  length (history (fst r)) = 16%nat /\ hist_pos (fst r) < 128 /\ window_of (fst r) = W' /\
  hist_count (fst r) = N.of_nat (count_true W') /\
  bit_count (fst r) = w_bits (bit_count v + 1) /\
  err_count (fst r) = (if e then w_errs (err_count v + 1) else err_count v) /\
  synced (fst r) = (if e && (25 <=? count_true W')%nat then false else true).
Proof. intros [S [G [L [P C]]]]. unfold prbs_validate. rewrite S. cbn [negb]. unfold prbs_generate. rewrite G.
  assert (R : xorb (xorb (taps g) e) (taps g) = e) by (destruct (taps g), e; reflexivity). rewrite R. cbn [fst snd].
  set (v1 := mkPRBS _ _ _ _ _ _ _ _).
  pose proof (count_errors_spec v1 (window_of v) e L P eq_refl C) as K. cbv zeta in K.
  destruct K as [K1 [K2 [K3 [K4 [K5 [K6 [K7 [K8 K9]]]]]]]].
  split; [reflexivity|]. split; [rewrite K1; reflexivity|]. split; [rewrite K2; reflexivity|].
  split; [exact K3|]. split; [exact K4|]. split; [exact K5|]. split; [exact K6|]. split; [exact K7|]. split; [exact K8|].
  rewrite K9. unfold v1. cbn [synced]. rewrite S. reflexivity. Qed.

Lemma window_length v : length (history v) = 16%nat -> length (window_of v) = 128%nat.
Proof. intros L. unfold window_of. rewrite rot_length, win_length, L. reflexivity. Qed.

Lemma sparse_from_prefix W es e : sparse_from W (es ++ [e]) -> sparse_from W es.
Proof. intros H k Hk. specialize (H k ltac:(rewrite app_length; cbn [length]; lia)).
  rewrite firstn_app in H. replace (k - length es)%nat with 0%nat in H by lia. rewrite firstn_O, app_nil_r in H. exact H. Qed.

Lemma w_errs_add a c x : w_errs (w_errs (a + c) + x) = w_errs (a + (c + x)).
Proof. unfold w_errs, wrap. rewrite N.add_mod_idemp_l by (apply N.pow_nonzero; discriminate). f_equal. lia. Qed.
Lemma w_bits_add a c x : w_bits (w_bits (a + c) + x) = w_bits (a + (c + x)).
Proof. unfold w_bits, wrap. rewrite N.add_mod_idemp_l by (apply N.pow_nonzero; discriminate). f_equal. lia. Qed.

Definition after_run (v : prbs) (g : N) (es : list bool) : prbs := run v (xor_bits (gen_bits g (length es)) es).

Lemma after_run_snoc v g es e :
  after_run v g (es ++ [e]) = fst (prbs_validate (after_run v g es) (xorb (taps (gen_state g (length es))) e)).
Proof. unfold after_run. rewrite app_length. cbn [length]. rewrite Nat.add_1_r, gen_bits_snoc.
  rewrite xor_bits_app by apply gen_bits_length. rewrite run_app. reflexivity. Qed.

(** the invariant along any run whose error pattern stays below the unlock density *)
Lemma counts_run : forall es v g, consistent v g -> counters_wf v -> sparse_from (window_of v) es ->
  let v' := after_run v g es in
  consistent v' (gen_state g (length es)) /\
  window_of v' = lastn 128 (window_of v ++ es) /\
  err_count v' = w_errs (err_count v + N.of_nat (count_true es)) /\
  bit_count v' = w_bits (bit_count v + N.of_nat (length es)) /\
  sync_count v' = sync_count v.
Proof. induction es as [|e es IH] using rev_ind; intros v g Cv Wf Sp.
- cbn [length after_run gen_bits gen_state]. unfold after_run. cbn [length gen_bits xor_bits combine map run fold_left].
  destruct Cv as [S [G [L [P C]]]]. destruct Wf as [Wb We].
  rewrite app_nil_r, lastn_all by (rewrite window_length by exact L; lia).
  unfold consistent, w_errs, w_bits, wrap. change (count_true []) with 0%nat. cbn [N.of_nat]. rewrite !N.add_0_r.
  change ConstsPrbs.prbs_err_count_bits with 32. change ConstsPrbs.prbs_bit_count_bits with 32.
  rewrite !N.mod_small by assumption. repeat split; assumption.
- cbv zeta. rewrite after_run_snoc. specialize (IH v g Cv Wf (sparse_from_prefix _ _ _ Sp)). cbv zeta in IH.
  destruct IH as [Cn [Wn [En [Bn Sn]]]].
  set (vn := after_run v g es) in *. set (gn := gen_state g (length es)) in *.
  pose proof (validate_synced vn gn e Cn) as K. cbv zeta in K.
  destruct K as [_ [K1 [K2 [K3 [K4 [K5 [K6 [K7 [K8 K9]]]]]]]]].
  assert (L0 : length (window_of v) = 128%nat) by (apply window_length; apply Cv).
  assert (WN : tl (window_of vn) ++ [e] = lastn 128 (window_of v ++ es ++ [e])).
  { rewrite Wn, app_assoc, lastn_snoc by (rewrite app_length; lia). reflexivity. }
  rewrite WN in *.
  assert (SPn : (count_true (lastn 128 (window_of v ++ es ++ [e])) < 25)%nat).
  { specialize (Sp (length (es ++ [e])) ltac:(rewrite app_length; cbn [length]; lia)). rewrite firstn_all in Sp. exact Sp. }
  rewrite app_length. cbn [length]. rewrite Nat.add_1_r, gen_state_S. fold gn.
  split.
  + unfold consistent. rewrite K5. split; [|split; [exact K1|split; [exact K3|split; [exact K4|exact K6]]]].
    rewrite K9. destruct (25 <=? count_true _)%nat eqn:Q; [apply Nat.leb_le in Q; unfold unlock_threshold in *; lia|].
    rewrite andb_false_r. reflexivity.
  + split; [exact K5|]. split; [|split].
    * rewrite K8, En. rewrite count_true_app, count_true_cons. change (count_true []) with 0%nat.
      destruct e.
      -- rewrite w_errs_add. f_equal. lia.
      -- f_equal. f_equal. lia.
    * rewrite K7, Bn, w_bits_add. f_equal. lia.
    * rewrite K2. exact Sn. Qed.

(** the complementary case: the bit that brings the window to 25 errors clears [synced] (so the hypothesis is tight) *)
Lemma unlock_run v g es : consistent v g -> counters_wf v -> sparse_from (window_of v) es ->
  (25 <= count_true (lastn 128 (window_of v ++ es ++ [true])))%nat ->
  let v' := after_run v g (es ++ [true]) in
  synced v' = false /\
  err_count v' = w_errs (err_count v + N.of_nat (count_true es) + 1) /\
  bit_count v' = w_bits (bit_count v + N.of_nat (length es) + 1) /\
  sync_count v' = sync_count v /\ state v' = gen_state g (length es + 1).
Proof. intros Cv Wf Sp T. cbv zeta. rewrite after_run_snoc.
  destruct (counts_run es v g Cv Wf Sp) as [Cn [Wn [En [Bn Sn]]]].
  set (vn := after_run v g es) in *. set (gn := gen_state g (length es)) in *.
  pose proof (validate_synced vn gn true Cn) as K. cbv zeta in K.
  destruct K as [_ [K1 [K2 [K3 [K4 [K5 [K6 [K7 [K8 K9]]]]]]]]].
  assert (L0 : length (window_of v) = 128%nat) by (apply window_length; apply Cv).
  assert (WN : tl (window_of vn) ++ [true] = lastn 128 (window_of v ++ es ++ [true])).
  { rewrite Wn, app_assoc, lastn_snoc by (rewrite app_length; lia). reflexivity. }
  rewrite WN in *. split.
  - rewrite K9. apply Nat.leb_le in T. rewrite T. reflexivity.
  - split; [rewrite K8, En, w_errs_add; f_equal; lia|]. split; [rewrite K7, Bn, w_bits_add; f_equal; lia|].
    split; [rewrite K2; exact Sn|]. rewrite K1. unfold gn. rewrite Nat.add_1_r, gen_state_S. reflexivity. Qed.
