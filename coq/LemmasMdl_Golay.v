(** C14 lemmas, part 4: M17ByteRandomizer is the xor with the specification's sequence; Golay24::encode24 is
    the specification's extended Golay encoder (sweep over all 4096 data words); make_lich_segment packs the
    specification's LICH (96 bits) for every 5-byte chunk and chunk number below 8. *)
From Coq Require Import NArith ZArith List Bool Lia Arith.
From M17 Require Import Bits SpecM17 ConstsModulator ImplModulator LemmasMdl_Bits LemmasMdl_Conv.
Import ListNotations.
Local Open Scope N_scope.

(** ** byte randomizer *)
Lemma rand_sweep : below 8 (fun f => below 8 (fun d => rand_byte f d =? N.lxor f d)) = true.
Proof. vm_cast_no_check (eq_refl true). Qed.
Lemma rand_byte_xor f d : f < 256 -> d < 256 -> rand_byte f d = N.lxor f d.
Proof. intros Hf Hd. apply N.eqb_eq. exact (below_spec 8 _ (below_spec 8 _ rand_sweep f Hf) d Hd). Qed.
Global Opaque rand_byte.

Lemma randomize_xor_gen frame : forall dcl, length frame = length dcl -> all_bytes frame -> all_bytes dcl ->
  map (fun i => rand_byte (nth i frame 0) (nth i dcl 0)) (seq 0 (length frame)) = xor_bytes frame dcl.
Proof. induction frame as [|x fr IH]; intros [|d dcl] L Hf Hd; try discriminate; [reflexivity|].
  inversion Hf; subst. inversion Hd; subst. cbn [length seq map nth]. unfold xor_bytes. cbn [combine map fst snd].
  rewrite rand_byte_xor by assumption. f_equal. rewrite <- seq_shift, map_map. cbn [nth].
  apply IH; [cbn in L; lia | assumption | assumption]. Qed.

Lemma dc_is_spec : ConstsModulator.dc = dc_bytes.
Proof. reflexivity. Qed.
Lemma dc_bytes_ok : all_bytes dc_bytes.
Proof. apply Forall_forall. intros x Hx. apply N.ltb_lt.
  assert (F : forallb (fun x => x <? 256) dc_bytes = true) by reflexivity. rewrite forallb_forall in F. apply F. exact Hx. Qed.

Lemma xor_bytes_ok a : forall b, all_bytes a -> all_bytes b -> all_bytes (xor_bytes a b).
Proof. induction a as [|x a IH]; intros [|y b] Ha Hb; try constructor.
- inversion Ha; subst. inversion Hb; subst. unfold is_byte in *. apply (lxor_lt_pow2 x y 8); assumption.
- inversion Ha; subst. inversion Hb; subst. apply IH; assumption. Qed.
Lemma xor_bytes_length a : forall b, length a = length b -> length (xor_bytes a b) = length a.
Proof. intros b H. unfold xor_bytes. rewrite map_length, combine_length. lia. Qed.

Lemma byte_randomize_spec frame : all_bytes frame -> length frame = 46%nat ->
  bytes_bits (byte_randomize frame) = spec_randomize (bytes_bits frame)
  /\ all_bytes (byte_randomize frame) /\ length (byte_randomize frame) = 46%nat.
Proof. intros Hf Lf. unfold byte_randomize. rewrite dc_is_spec.
  rewrite randomize_xor_gen; [|rewrite Lf; reflexivity | exact Hf | exact dc_bytes_ok].
  split; [|split].
  - unfold spec_randomize. apply bytes_bits_xor. rewrite Lf. reflexivity.
  - apply xor_bytes_ok; [exact Hf | exact dc_bytes_ok].
  - rewrite xor_bytes_length; [exact Lf | rewrite Lf; reflexivity]. Qed.

(** ** Golay: the 24 bits the LICH loop assigns for data word x are the specification's code word *)
Fixpoint word_bits (test enc : N) (n : nat) : list bool :=
  match n with
  | O => []
  | S n' => negb (N.eqb (N.land enc (N.shiftl 1 test)) 0) :: word_bits test (u32 (N.shiftl enc 1)) n'
  end.

Definition golay_ok (x : N) : bool := (encode24 x =? golay24 x) && bits_eqb (word_bits 23 (encode24 x) 24) (golay24_bits x).
Lemma golay_sweep : below 12 golay_ok = true.
Proof. vm_cast_no_check (eq_refl true). Qed.
Lemma golay24_bits_length x : length (golay24_bits x) = 24%nat.
Proof. unfold golay24_bits, N_bits. rewrite map_length, seq_length. reflexivity. Qed.
Global Opaque word_bits encode24 golay24 golay24_bits.
Lemma golay_ok_elim x : golay_ok x = true -> encode24 x = golay24 x /\ word_bits 23 (encode24 x) 24 = golay24_bits x.
Proof. intros S. apply andb_prop in S. destruct S as [S1 S2]. split; [apply N.eqb_eq; exact S1 | apply bits_eqb_eq; exact S2]. Qed.
Lemma encode24_is_spec x : x < 4096 -> encode24 x = golay24 x.
Proof. intros H. exact (proj1 (golay_ok_elim x (below_spec 12 golay_ok golay_sweep x H))). Qed.
Lemma word_bits_is_spec x : x < 4096 -> word_bits 23 (encode24 x) 24 = golay24_bits x.
Proof. intros H. exact (proj2 (golay_ok_elim x (below_spec 12 golay_ok golay_sweep x H))). Qed.


(** consecutive assignments *)
Fixpoint assign_list (res : list N) (lo : nat) (bits : list bool) : list N :=
  match bits with
  | [] => res
  | b :: r => assign_list (assign_bit_index res lo b) (S lo) r
  end.

Lemma lich_word_fold test n : forall lo res enc,
  fst (fold_left (lich_word_step test) (seq lo n) (res, enc)) = assign_list res lo (word_bits test enc n).
Proof. induction n as [|n IH]; intros lo res enc; [reflexivity|].
  cbn [seq fold_left word_bits assign_list]. unfold lich_word_step at 2. apply IH. Qed.

Lemma assign_list_spec bits : forall res lo, all_bytes res -> (lo + length bits <= 8 * length res)%nat ->
  bytes_bits (assign_list res lo bits) = copy_at (bytes_bits res) lo bits
  /\ all_bytes (assign_list res lo bits) /\ length (assign_list res lo bits) = length res.
Proof. induction bits as [|b r IH]; intros res lo Hr Hl; [repeat split; assumption|].
  cbn [assign_list copy_at length] in *.
  destruct (assign_bit_index_spec res lo b Hr) as [E [A L]]; [lia|].
  destruct (IH (assign_bit_index res lo b) (S lo) A) as [E2 [A2 L2]]; [lia|].
  rewrite E2, E, L2, L. repeat split; assumption. Qed.

(** ** the four 12-bit words of a 6-byte chunk *)
Definition wordA (s0 s1 : N) : N := u16 (N.lor (N.shiftl s0 4) (N.land (N.shiftr s1 4) 0x0F)).
Definition wordB (s1 s2 : N) : N := u16 (N.lor (N.shiftl (N.land s1 0x0F) 8) s2).
Definition pair_ok (a b : N) : bool :=
  (wordA a b =? bits_N (byte_bits a ++ firstn 4 (byte_bits b))) && (wordB a b =? bits_N (skipn 4 (byte_bits a) ++ byte_bits b))
  && (wordA a b <? 4096) && (wordB a b <? 4096).
Lemma pair_sweep : below 8 (fun a => below 8 (pair_ok a)) = true.
Proof. vm_cast_no_check (eq_refl true). Qed.
Lemma pair_facts a b : a < 256 -> b < 256 ->
  wordA a b = bits_N (byte_bits a ++ firstn 4 (byte_bits b)) /\ wordB a b = bits_N (skipn 4 (byte_bits a) ++ byte_bits b)
  /\ wordA a b < 4096 /\ wordB a b < 4096.
Proof. intros Ha Hb. pose proof (below_spec 8 _ (below_spec 8 _ pair_sweep a Ha) b Hb) as S. unfold pair_ok in S.
  repeat (apply andb_prop in S; destruct S as [S ?]).
  repeat split; try (apply N.eqb_eq; assumption); apply N.ltb_lt; assumption. Qed.
Global Opaque wordA wordB.

Lemma groups12_chunk s0 s1 s2 s3 s4 s5 :
  groups 12 (bytes_bits [s0; s1; s2; s3; s4; s5]) =
  [byte_bits s0 ++ firstn 4 (byte_bits s1); skipn 4 (byte_bits s1) ++ byte_bits s2;
   byte_bits s3 ++ firstn 4 (byte_bits s4); skipn 4 (byte_bits s4) ++ byte_bits s5].
Proof. reflexivity. Qed.



Lemma split4 {A} (l : list A) : length l = 96%nat ->
  exists o0 o1 o2 o3, l = o0 ++ o1 ++ o2 ++ o3 /\ length o0 = 24%nat /\ length o1 = 24%nat /\ length o2 = 24%nat /\ length o3 = 24%nat.
Proof. intros H. exists (firstn 24 l), (firstn 24 (skipn 24 l)), (firstn 24 (skipn 48 l)), (skipn 72 l).
  repeat split; try (rewrite ?firstn_length, ?skipn_length; lia).
  rewrite <- (firstn_skipn 24 l) at 1. f_equal.
  rewrite <- (firstn_skipn 24 (skipn 24 l)) at 1. f_equal.
  assert (S2 : forall n m, skipn n (skipn m l) = skipn (m + n) l).
  { clear. intros n m. revert l. induction m as [|m IH]; intros l; [reflexivity|]. destruct l; [rewrite !skipn_nil; reflexivity|]. cbn [skipn Nat.add]. apply IH. }
  rewrite S2. change (24 + 24)%nat with 48%nat.
  rewrite <- (firstn_skipn 24 (skipn 48 l)) at 1. f_equal. rewrite S2. reflexivity. Qed.

Lemma copy4 {A} (B w0 w1 w2 w3 : list A) : length B = 96%nat ->
  length w0 = 24%nat -> length w1 = 24%nat -> length w2 = 24%nat -> length w3 = 24%nat ->
  copy_at (copy_at (copy_at (copy_at B 0 w0) 24 w1) 48 w2) 72 w3 = w0 ++ w1 ++ w2 ++ w3.
Proof. intros HB H0 H1 H2 H3. destruct (split4 B HB) as [o0 [o1 [o2 [o3 [-> [L0 [L1 [L2 L3]]]]]]]].
  pose proof (copy_at_spec w0 [] o0 (o1 ++ o2 ++ o3)) as E0. cbn [app length] in E0. rewrite E0 by lia.
  pose proof (copy_at_spec w1 w0 o1 (o2 ++ o3)) as E1. rewrite H0 in E1. rewrite E1 by lia.
  pose proof (copy_at_spec w2 (w0 ++ w1) o2 o3) as E2. rewrite app_length, H0, H1 in E2. cbn [Nat.add] in E2.
  rewrite <- app_assoc in E2. rewrite E2 by lia.
  pose proof (copy_at_spec w3 (w0 ++ w1 ++ w2) o3 []) as E3. rewrite !app_length, H0, H1, H2 in E3. cbn [Nat.add] in E3.
  rewrite !app_nil_r in E3. rewrite <- !app_assoc in E3. rewrite <- !app_assoc. rewrite E3 by lia. reflexivity. Qed.

Section Lich.
Variable junk : nat -> N.

Lemma uninit_ok n : all_bytes (uninit junk n) /\ length (uninit junk n) = n.
Proof. unfold uninit. split; [|rewrite map_length, seq_length; reflexivity].
  apply Forall_forall. intros x Hx. apply in_map_iff in Hx. destruct Hx as [i [<- _]].
  unfold is_byte, u8. change 255 with (N.ones 8). rewrite N.land_ones. apply N.mod_upper_bound. discriminate. Qed.

Lemma lich_word_spec k res tmp : (k < 4)%nat -> all_bytes res -> length res = 12%nat -> tmp < 4096 ->
  bytes_bits (lich_word k res tmp) = copy_at (bytes_bits res) (24 * k) (golay24_bits tmp)
  /\ all_bytes (lich_word k res tmp) /\ length (lich_word k res tmp) = 12%nat.
Proof. intros Hk Hr Lr Ht. unfold lich_word.
  assert (E : nth k ConstsModulator.lich_ranges (0%nat, 0%nat) = ((24 * k)%nat, (24 * k + 24)%nat) /\ nth k ConstsModulator.lich_test_bits 0 = 23).
  { destruct k as [|[|[|[|k]]]]; try lia; split; reflexivity. }
  destruct E as [-> ->]. replace (24 * k + 24 - 24 * k)%nat with 24%nat by lia.
  rewrite lich_word_fold, word_bits_is_spec by exact Ht.
  destruct (assign_list_spec (golay24_bits tmp) res (24 * k) Hr) as [E [A L]]; [rewrite golay24_bits_length; lia|].
  rewrite E, L. repeat split; assumption. Qed.

Theorem make_lich_segment_spec s0 s1 s2 s3 s4 n : all_bytes [s0; s1; s2; s3; s4] -> n < 8 ->
  bytes_bits (make_lich_segment junk [s0; s1; s2; s3; s4] n) =
  flat_map (fun w => golay24_bits (bits_N w)) (groups 12 (bytes_bits [s0; s1; s2; s3; s4; 32 * n]))
  /\ all_bytes (make_lich_segment junk [s0; s1; s2; s3; s4] n) /\ length (make_lich_segment junk [s0; s1; s2; s3; s4] n) = 12%nat.
Proof. intros Hs Hn.
  unfold all_bytes in Hs. rewrite Forall_forall in Hs.
  assert (B0 : s0 < 256) by (apply Hs; left; reflexivity).
  assert (B1 : s1 < 256) by (apply Hs; right; left; reflexivity).
  assert (B2 : s2 < 256) by (apply Hs; do 2 right; left; reflexivity).
  assert (B3 : s3 < 256) by (apply Hs; do 3 right; left; reflexivity).
  assert (B4 : s4 < 256) by (apply Hs; do 4 right; left; reflexivity).
 assert (B5 : 32 * n < 256) by lia.
  rewrite groups12_chunk. cbn [flat_map]. rewrite app_nil_r.
  destruct (pair_facts s0 s1 B0 B1) as [<- [_ [LA1 _]]]. destruct (pair_facts s1 s2 B1 B2) as [_ [<- [_ LB1]]].
  destruct (pair_facts s3 s4 B3 B4) as [<- [_ [LA2 _]]]. destruct (pair_facts s4 (32 * n) B4 B5) as [_ [<- [_ LB2]]].
  unfold make_lich_segment. cbn [nth].
  change (u16 (N.lor (N.shiftl s0 4) (N.land (N.shiftr s1 4) 15))) with (wordA s0 s1).
  change (u16 (N.lor (N.shiftl (N.land s1 15) 8) s2)) with (wordB s1 s2).
  change (u16 (N.lor (N.shiftl s3 4) (N.land (N.shiftr s4 4) 15))) with (wordA s3 s4).
  assert (Esh : N.shiftl n ConstsModulator.lich_segnum_shift = 32 * n)
    by (change ConstsModulator.lich_segnum_shift with 5; rewrite N.shiftl_mul_pow2; apply N.mul_comm).
  rewrite Esh. change (u16 (N.lor (N.shiftl (N.land s4 15) 8) (32 * n))) with (wordB s4 (32 * n)).
  destruct (uninit_ok ConstsModulator.lich_segment_len) as [U0 UL]. change ConstsModulator.lich_segment_len with 12%nat in *.
  destruct (lich_word_spec 0 _ (wordA s0 s1) ltac:(lia) U0 UL LA1) as [E0 [A0 L0]].
  destruct (lich_word_spec 1 _ (wordB s1 s2) ltac:(lia) A0 L0 LB1) as [E1 [A1 L1]].
  destruct (lich_word_spec 2 _ (wordA s3 s4) ltac:(lia) A1 L1 LA2) as [E2 [A2 L2]].
  destruct (lich_word_spec 3 _ (wordB s4 (32 * n)) ltac:(lia) A2 L2 LB2) as [E3 [A3 L3]].
  split; [|split; assumption].
  rewrite E3, E2, E1, E0. change (24 * 0)%nat with 0%nat. change (24 * 1)%nat with 24%nat.
  change (24 * 2)%nat with 48%nat. change (24 * 3)%nat with 72%nat.
  apply copy4; try apply golay24_bits_length. rewrite bytes_bits_length, UL. reflexivity. Qed.
End Lich.
