(** C14 lemmas, part 7: the modulate() state machine.  One loop iteration in each state, expressed with the
    specification's encoders; then whole key-ups and whole sessions (LemmasMdl_Run.v). *)
From Coq Require Import NArith ZArith List Bool Lia Arith.
From M17 Require Import Bits SpecCRC SpecM17 ConstsModulator ImplModulator SpecModulator
  LemmasMdl_Bits LemmasMdl_Conv LemmasMdl_Golay LemmasMdl_Frame LemmasMdl_LSF.
Import ListNotations.
Local Open Scope N_scope.

Arguments st_mode {cstate}. Arguments st_index {cstate}. Arguments st_fn {cstate}. Arguments st_seg {cstate}.
Arguments st_audio {cstate}. Arguments st_lich {cstate}. Arguments st_codec {cstate}. Arguments set_mode {cstate}.
Arguments enabled {cstate}.

Lemma mod_succ k m : 0 < m -> (k + 1) mod m = (if k mod m + 1 =? m then 0 else k mod m + 1).
Proof. intros Hm. pose proof (N.div_mod k m ltac:(lia)) as D. pose proof (N.mod_upper_bound k m ltac:(lia)) as B.
  destruct (N.eqb_spec (k mod m + 1) m) as [E|E]; symmetry.
  - apply (N.mod_unique _ _ (k / m + 1)); lia.
  - apply (N.mod_unique _ _ (k / m)); lia. Qed.

Lemma pad_frame_length l : (length l <= 320)%nat -> length (pad_frame l) = 320%nat.
Proof. intros H. unfold pad_frame, frame_samples. rewrite app_length, repeat_length. lia. Qed.

Lemma pad_frame_full l : length l = 320%nat -> pad_frame l = l.
Proof. intros H. unfold pad_frame, frame_samples. rewrite H, Nat.sub_diag. apply app_nil_r. Qed.

Lemma pad_frame_store l v : (length l < 320)%nat -> set_nth (pad_frame l) (length l) v = pad_frame (l ++ [v]).
Proof. intros H. unfold pad_frame, frame_samples. rewrite app_length. cbn [length].
  replace (320 - length l)%nat with (S (320 - (length l + 1))) by lia. cbn [repeat].
  pose proof (set_nth_app_r l (0%Z :: repeat 0%Z (320 - (length l + 1))) 0 v) as E. rewrite Nat.add_0_r in E.
  rewrite E. cbn [set_nth]. rewrite <- app_assoc. reflexivity. Qed.

Lemma sample_of_spec e : sample_of e = spec_sample e.
Proof. destruct e; reflexivity. Qed.

Lemma sync_words : ConstsModulator.sync_lsf = sync_lsf /\ ConstsModulator.sync_stream = sync_stream /\ send_preamble = preamble.
Proof. repeat split; reflexivity. Qed.

Section SM.
Variable junk : nat -> N.
Variable cstate : Type.
Variable codec2_encode : cstate -> list Z -> cstate * list N.
Hypothesis codec_ok : forall c a, length (snd (codec2_encode c a)) = 8%nat /\ all_bytes (snd (codec2_encode c a)).
Variables dst src : list N.
Hypothesis dst_ok : all_bytes dst /\ (length dst <= 9)%nat.
Hypothesis src_ok : all_bytes src /\ (1 <= length src <= 9)%nat.

Notation dest := (encode_callsign dst).
Notation source := (encode_callsign src).
Notation lsf := (spec_lsf dst src 0).
Notation lich := (build_lich junk lsf).
Notation step := (mstep junk cstate codec2_encode dest source).
Notation enc_frame := (encode_frame cstate codec2_encode).

Lemma lsf_eq : build_lsf dest source = lsf.
Proof. apply build_lsf_spec; tauto. Qed.

Lemma lsf_ok : all_bytes lsf /\ length lsf = 30%nat.
Proof. rewrite <- lsf_eq. apply build_lsf_ok; apply encode_callsign_ok. Qed.

Lemma encode_audio_spec c audio : encode_audio junk cstate codec2_encode c audio = enc_frame c audio.
Proof. unfold encode_audio, encode_frame. change ConstsModulator.codec_calls with [(0%nat, 0%nat); (8%nat, 160%nat)].
  cbn [fold_left fst snd]. change (skipn 0 audio) with audio. change codec_samples with 160%nat.
  pose proof (codec_ok c (firstn 160 audio)) as [L1 _]. destruct (codec2_encode c (firstn 160 audio)) as [c1 b1]. cbn [snd] in L1.
  pose proof (codec_ok c1 (firstn 160 (skipn 160 audio))) as [L2 _].
  destruct (codec2_encode c1 (firstn 160 (skipn 160 audio))) as [c2 b2]. cbn [snd] in L2.
  f_equal. rewrite <- L1 at 1. apply copy_at_two.
  destruct (uninit_ok junk ConstsModulator.codec_frame_len) as [_ UL]. rewrite UL, L1, L2. reflexivity. Qed.

Lemma enc_frame_ok c audio : length (snd (enc_frame c audio)) = 16%nat /\ all_bytes (snd (enc_frame c audio)).
Proof. unfold encode_frame.
  pose proof (codec_ok c (firstn codec_samples audio)) as [L1 A1]. destruct (codec2_encode c (firstn codec_samples audio)) as [c1 b1]. cbn [snd] in *.
  pose proof (codec_ok c1 (firstn codec_samples (skipn codec_samples audio))) as [L2 A2].
  destruct (codec2_encode c1 (firstn codec_samples (skipn codec_samples audio))) as [c2 b2]. cbn [snd] in *.
  split; [rewrite app_length, L1, L2; reflexivity | apply Forall_app; split; assumption]. Qed.

(** one stream frame as the specification writes it *)
Definition frame_bytes (k : N) (p : list N) (eos : bool) : list N :=
  sync_stream ++ bits_bytes (spec_stream_frame lsf (lich_index k) (fn_index k) p eos).

Lemma send_audio_plain c k audio :
  send_audio junk cstate codec2_encode c (nth (N.to_nat (k mod 6)) lich []) (k mod 32768) audio =
  (fst (enc_frame c audio), frame_bytes k (snd (enc_frame c audio)) false).
Proof. unfold send_audio. rewrite encode_audio_spec. destruct (enc_frame_ok c audio) as [L A].
  destruct (enc_frame c audio) as [c' p]. cbn [fst snd] in *. f_equal.
  destruct lsf_ok as [Hl Ll]. pose proof (N.mod_upper_bound k 6 ltac:(discriminate)) as B6.
  pose proof (N.mod_upper_bound k 32768 ltac:(discriminate)) as Bf.
  rewrite stream_frame_bytes by (try assumption; lia). rewrite N2Nat.id.
  unfold frame_bytes, spec_stream_frame, spec_stream_payload, lich_index, fn_index.
  rewrite <- fn_field_plain by exact Bf. reflexivity. Qed.

Lemma send_audio_eos c k audio :
  send_audio junk cstate codec2_encode c (nth (N.to_nat (k mod 6)) lich []) (u16 (N.lor (k mod 32768) ConstsModulator.eos_mask)) audio =
  (fst (enc_frame c audio), frame_bytes k (snd (enc_frame c audio)) true).
Proof. unfold send_audio. rewrite encode_audio_spec. destruct (enc_frame_ok c audio) as [L A].
  destruct (enc_frame c audio) as [c' p]. cbn [fst snd] in *. f_equal.
  destruct lsf_ok as [Hl Ll]. pose proof (N.mod_upper_bound k 6 ltac:(discriminate)) as B6.
  pose proof (N.mod_upper_bound k 32768 ltac:(discriminate)) as Bf.
  rewrite stream_frame_bytes by (try assumption; lia). rewrite N2Nat.id.
  unfold frame_bytes, spec_stream_frame, spec_stream_payload, lich_index, fn_index.
  rewrite <- fn_field_eos by exact Bf. reflexivity. Qed.

Lemma send_link_setup_eq :
  send_link_setup junk dest source = (lich, sync_lsf ++ bits_bytes (spec_lsf_frame lsf)).
Proof. unfold send_link_setup, output_frame. rewrite lsf_eq. destruct lsf_ok as [Hl Ll].
  rewrite lsf_frame_spec by assumption. reflexivity. Qed.

Opaque send_audio send_link_setup send_preamble.

(** the state while PTT is held: k frames sent, [partial] buffered *)
Definition act_state (m : mode) (k : N) (partial : list Z) (c : cstate) : mstate cstate :=
  MkState cstate m (length partial) (k mod 32768) (k mod 6) (pad_frame partial) lich c.

Lemma step_active_more k partial c e : (length partial + 1 < 320)%nat ->
  step (act_state ACTIVE k partial c) e = (act_state ACTIVE k (partial ++ [spec_sample e]) c, []).
Proof. intros H. unfold mstep, act_state. cbn [st_mode st_index st_fn st_seg st_audio st_lich st_codec].
  rewrite set_nth_length, pad_frame_length by lia.
  destruct (Nat.eqb_spec (S (length partial)) 320) as [E|_]; [lia|].
  rewrite sample_of_spec, pad_frame_store by lia. rewrite app_length. cbn [length]. rewrite Nat.add_1_r. reflexivity. Qed.

Lemma step_active_full k partial c e : (length partial + 1 = 320)%nat ->
  step (act_state ACTIVE k partial c) e =
  (act_state ACTIVE (k + 1) [] (fst (enc_frame c (partial ++ [spec_sample e]))),
   frame_bytes k (snd (enc_frame c (partial ++ [spec_sample e]))) false).
Proof. intros H. unfold mstep, act_state. cbn [st_mode st_index st_fn st_seg st_audio st_lich st_codec].
  rewrite set_nth_length, pad_frame_length by lia.
  destruct (Nat.eqb_spec (S (length partial)) 320) as [_|E]; [|lia].
  rewrite sample_of_spec, pad_frame_store by lia. rewrite pad_frame_full by (rewrite app_length; cbn [length]; lia).
  rewrite send_audio_plain. f_equal.
  pose proof (N.mod_upper_bound k 6 ltac:(discriminate)) as B6. pose proof (N.mod_upper_bound k 32768 ltac:(discriminate)) as Bf.
  rewrite (mod_succ k 32768), (mod_succ k 6) by reflexivity.
  rewrite build_lich_length. change (N.of_nat 6) with 6. change ConstsModulator.fn_wrap_at with 32768. change ConstsModulator.fn_wrap_to with 0.
  change ConstsModulator.lich_wrap_to with 0. change (N.to_nat ConstsModulator.active_index_reset) with 0%nat.
  unfold u16, u8. change 0xFFFF with (N.ones 16). change 0xFF with (N.ones 8). rewrite !N.land_ones.
  rewrite (N.mod_small (k mod 32768 + 1)) by (change (2 ^ 16) with 65536; lia).
  rewrite (N.mod_small (k mod 6 + 1)) by (change (2 ^ 8) with 256; lia). reflexivity. Qed.

(** the state after the final frame: idle, audio buffer cleared *)
Definition idle_inv (s : mstate cstate) (c : cstate) : Prop :=
  st_mode s = IDLE /\ st_audio s = audio_zero /\ st_codec s = c.

Lemma step_eos k partial c e : (length partial < 320)%nat ->
  exists s', step (act_state END_OF_STREAM k partial c) e =
             (s', frame_bytes k (snd (enc_frame c (pad_frame (partial ++ [spec_sample e])))) true)
             /\ idle_inv s' (fst (enc_frame c (pad_frame (partial ++ [spec_sample e])))).
Proof. intros H. unfold mstep, act_state. cbn [st_mode st_index st_fn st_seg st_audio st_lich st_codec].
  rewrite sample_of_spec, pad_frame_store by lia. rewrite send_audio_eos.
  eexists. split; [reflexivity|]. repeat split. Qed.

Lemma step_idle s c e : idle_inv s c -> step s e = (s, []).
Proof. intros [M _]. unfold mstep. rewrite M. reflexivity. Qed.

Lemma step_preamble s e : st_mode s = PREAMBLE -> step s e = (set_mode s LINK_SETUP, preamble).
Proof. intros M. unfold mstep. rewrite M. reflexivity. Qed.

Lemma step_link_setup s e : st_mode s = LINK_SETUP -> st_audio s = audio_zero ->
  step s e = (act_state ACTIVE 0 [] (st_codec s), sync_lsf ++ bits_bytes (spec_lsf_frame lsf)).
Proof. intros M A. unfold mstep. rewrite M, send_link_setup_eq. unfold act_state. rewrite A. reflexivity. Qed.
End SM.
Arguments idle_inv {cstate}.
