(** C14: a concrete Codec2 stand-in, callsigns and schedules on which the hypotheses of the property theorems
    hold; evaluated by [vm_compute] in Properties_C14.v. *)
From Coq Require Import NArith ZArith List Bool Lia.
From M17 Require Import Bits SpecM17 ConstsModulator ImplModulator SpecModulator LemmasMdl_SM LemmasMdl_Main.
Import ListNotations.
Local Open Scope N_scope.

(** an oracle with hidden state: the bytes depend on the call count and on the audio *)
Definition ex_codec (c : N) (a : list Z) : N * list N :=
  (c + 1, map (fun i => (c * 8 + N.of_nat i + Z.to_N (Z.abs (nth i a 0%Z))) mod 256) (seq 0 8)).

Lemma ex_codec_ok : codec2_ok ex_codec.
Proof. intros c a. unfold ex_codec. cbn [snd]. split; [rewrite map_length; reflexivity|].
  apply Forall_forall. intros x Hx. apply in_map_iff in Hx. destruct Hx as [i [<- _]]. apply N.mod_upper_bound. discriminate. Qed.

Definition ex_dst : list N := [87; 49; 65; 87].            (* "W1AW" *)
Definition ex_src : list N := [65; 66; 49; 67; 68].        (* "AB1CD" *)
Lemma ex_calls_ok : callsigns_ok ex_dst ex_src /\ callsigns_ok [] ex_src.
Proof. unfold callsigns_ok, ex_dst, ex_src, all_bytes, is_byte. cbn [length]. repeat split; repeat constructor. Qed.

Definition ex_junk (i : nat) : N := 0xA5 + N.of_nat i.

(** two key-ups: the first with 322 iterations while PTT is held (one full frame, then 2 samples + the release
    sample in the final frame), interleaved with a redundant ptt_on(); the second released at once *)
Definition ex_keyups : list keyup :=
  [MkKeyup [Sample 5; Timeout] (Sample 1) Timeout
           (map (fun i => Ev (Sample (Z.of_nat i * 37 - 4000))) (seq 0 200) ++ [PttOn; Ev Timeout] ++
            map (fun i => Ev (Sample (3000 - Z.of_nat i * 11))) (seq 0 121)) (Sample (-77));
   MkKeyup [] Timeout (Sample 9) [] Timeout].
Definition ex_sched : list item := session_items ex_keyups [Sample 1; Timeout].

Fixpoint bytes_eqb (a b : list N) : bool :=
  match a, b with
  | [], [] => true
  | x :: a', y :: b' => (x =? y) && bytes_eqb a' b'
  | _, _ => false
  end.

(** the model run on the schedule ends IDLE and equals the specification's session stream *)
Definition ex_check : bool :=
  match run ex_junk N ex_codec (encode_callsign ex_dst) (encode_callsign ex_src) (minit ex_junk N 7) ex_sched with
  | Some (s, out) =>
      (match st_mode s with IDLE => true | _ => false end)
      && bytes_eqb out (snd (session_stream N ex_codec ex_dst ex_src 7 ex_keyups))
      && Nat.eqb (length out) (48 * 7)
  | None => false
  end.
