(** Gallina mirror of the MSB-first bit helpers of include/m17cxx/Util.h
    (get_bit_index, set_bit_index, reset_bit_index, assign_bit_index) and of the
    array write [a[n] = x] on a fixed-size std::array.  No proofs here. *)
From Coq Require Import NArith List Arith.
Import ListNotations.

(** a[n] = x on a std::array modelled as a list of the array's length.  A write past the end
    is not modelled here (it leaves the list unchanged); index safety is the subject of C07. *)
Fixpoint set_nth {A : Type} (n : nat) (x : A) (l : list A) {struct l} : list A :=
  match l with
  | [] => []
  | h :: t => match n with
              | O => x :: t
              | S n' => h :: set_nth n' x t
              end
  end.

(** uint8_t assignment of an int expression *)
Definition to_u8 (x : N) : N := N.land x 255.

(** byte_index = index >> 3;  bit_index = 7 - (index & 7)   (size_t arithmetic) *)
Definition byte_index_of (index : nat) : nat := index / 8.
Definition bit_index_of (index : nat) : N := N.of_nat (7 - index mod 8).

(** return (input[byte_index] & (1 << bit_index)) >> bit_index;   converted to bool *)
Definition get_bit_index (input : list N) (index : nat) : bool :=
  let byte_index := byte_index_of index in
  let bit_index := bit_index_of index in
  negb (N.eqb (N.shiftr (N.land (nth byte_index input 0%N) (N.shiftl 1 bit_index)) bit_index) 0).

(** input[byte_index] |= (1 << bit_index); *)
Definition set_bit_index (input : list N) (index : nat) : list N :=
  let byte_index := byte_index_of index in
  let bit_index := bit_index_of index in
  set_nth byte_index (to_u8 (N.lor (nth byte_index input 0%N) (N.shiftl 1 bit_index))) input.

(** input[byte_index] &= ~(1 << bit_index);   (int complement: every bit but bit_index) *)
Definition reset_bit_index (input : list N) (index : nat) : list N :=
  let byte_index := byte_index_of index in
  let bit_index := bit_index_of index in
  set_nth byte_index (to_u8 (N.ldiff (nth byte_index input 0%N) (N.shiftl 1 bit_index))) input.

(** if (value) set_bit_index(input, index); else reset_bit_index(input, index); *)
Definition assign_bit_index (input : list N) (index : nat) (value : bool) : list N :=
  if value then set_bit_index input index else reset_bit_index input index.
