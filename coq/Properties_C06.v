(** C06 — acquisition from any history (PARTIAL).
    PROVED here: (A) the carrier detector cannot latch: its level stays finite for every history, it asserts after an explicit
    number of strong blocks and releases after an explicit number of weak ones (model: DataCarrierDetect over extended
    rationals with the IEEE rules for 0/0, x/0, NaN, comparisons; rounding NOT modelled); the pre-fix update() is shown to latch.
    (B) the control state machine has no dead state: from every well-formed discrete state, under carrier, it is listening for a
    frame sync word or has called the frame decoder within an explicit number of samples; a listening receiver turns a
    detection into a decode; every give-up path (dcd.unlock()) re-arms the search.
    NOT proved (tested end to end by tools/props/c06.py): that a clean M17 signal produces a block ratio above htrigger and
    sync-word detections, and the 400-frame bound of the property. *)
From Coq Require Import ZArith QArith Bool List.
From M17 Require Import ConstsDemod ImplDemodCtl SpecDemodCtl LemmasDCD
                        LemmasDemodCtl_Base LemmasDemodCtl_WF LemmasDemodCtl_Reach LemmasDemodCtl_Live LemmasDemodCtl_Detect.
Import ListNotations.

(* ---------------------------------------------------------------- (A) carrier detector *)

(** A1. THE no-latch invariant.  For every history — any interleaving of operator()(sample) with ARBITRARY energy
    contributions (zero, finite, +-inf, NaN), update() and unlock() — a finite level_ stays finite.  In particular from the
    constructed state (level_ = 0), whatever was fed, including blocks of exact zeros (0/0) and energy in band with none out of band (x/0). *)
Theorem c06_dcd_level_finite : forall (ops : list dcd_op) (d0 : dcd_t),
  xisfinite (level_ d0) = true -> xisfinite (level_ (fold_left dcd_apply ops d0)) = true.
Proof. exact dcd_history_level_finite. Qed.
Print Assumptions c06_dcd_level_finite.

(** the same in block form: [bs] are the accumulator pairs (level_1, level_2) seen by successive update() calls *)
Theorem c06_dcd_level_finite_blocks : forall (bs : list (xval * xval)),
  xisfinite (level_ (dcd_blocks dcd_update dcd_init bs)) = true.
Proof. intro bs. apply dcd_level_finite_lemma. reflexivity. Qed.
Print Assumptions c06_dcd_level_finite_blocks.

(** A2. It asserts: from any finite level q0, any non-empty run of [n] blocks whose (guarded) ratio is at least R > htrigger
    makes triggered_ true as soon as  DCD_KEEP^n * (R - q0) < R - htrigger  (DCD_KEEP = 0.8), whatever triggered_ was. *)
Theorem c06_dcd_asserts : forall (R q0 : Q) (d0 : dcd_t) (bs : list (xval * xval)),
  level_ d0 = Fin q0 -> DCD_HTRIGGER < R -> bs <> [] -> ratios_ge R bs ->
  qpow DCD_KEEP (length bs) * (R - q0) < R - DCD_HTRIGGER ->
  triggered_ (dcd_blocks dcd_update d0 bs) = true /\
  exists q, level_ (dcd_blocks dcd_update d0 bs) = Fin q /\ DCD_HTRIGGER < q.
Proof. exact dcd_asserts_lemma. Qed.
Print Assumptions c06_dcd_asserts.

(** A3. It releases (it cannot latch on): symmetric bound with ltrigger *)
Theorem c06_dcd_releases : forall (R q0 : Q) (d0 : dcd_t) (bs : list (xval * xval)),
  level_ d0 = Fin q0 -> R < DCD_LTRIGGER -> bs <> [] -> ratios_le R bs ->
  qpow DCD_KEEP (length bs) * (q0 - R) < DCD_LTRIGGER - R ->
  triggered_ (dcd_blocks dcd_update d0 bs) = false /\
  exists q, level_ (dcd_blocks dcd_update d0 bs) = Fin q /\ q < DCD_LTRIGGER.
Proof. exact dcd_releases_lemma. Qed.
Print Assumptions c06_dcd_releases.

(** A4. What the isfinite guard buys: WITHOUT it one block of exact zeros makes level_ NaN and triggered_ false for every
    continuation (the defect repaired by commit 6204559), and one block with energy in band and exactly none out of band
    makes level_ non-finite for ever. *)
Theorem c06_dcd_unguarded_latches : forall (d0 : dcd_t) (bs : list (xval * xval)),
  let d := dcd_blocks dcd_update_unguarded d0 ((Fin 0, Fin 0) :: bs) in
  level_ d = NaN /\ triggered_ d = false.
Proof. exact dcd_unguarded_latches_lemma. Qed.
Print Assumptions c06_dcd_unguarded_latches.

Theorem c06_dcd_unguarded_latches_on : forall (d0 : dcd_t) (q0 a : Q) (bs : list (xval * xval)),
  level_ d0 = Fin q0 -> 0 < a ->
  xisfinite (level_ (dcd_blocks dcd_update_unguarded d0 ((Fin a, Fin 0) :: bs))) = false.
Proof. exact dcd_unguarded_latches_on_lemma. Qed.
Print Assumptions c06_dcd_unguarded_latches_on.

(** A5. the control model's abstraction of dcd.update() (two comparisons of the new level) is exactly the hysteresis of the detector model *)
Theorem c06_dcd_poll_abstracts_update : forall (d : dcd_t) (s : st) (o : obs),
  dcd_trig s = triggered_ d ->
  o_lvl_lo o = xgt (level_ (dcd_update d)) (Fin DCD_LTRIGGER) ->
  o_lvl_hi o = xgt (level_ (dcd_update d)) (Fin DCD_HTRIGGER) ->
  dcd_trig (dcd_poll s o) = triggered_ (dcd_update d).
Proof. exact dcd_poll_abstracts_update_lemma. Qed.
Print Assumptions c06_dcd_poll_abstracts_update.

(* ---------------------------------------------------------------- (B) control logic *)
Local Open Scope Z_scope.

(** B1. No dead state.  From EVERY well-formed discrete state (all values of demodState, the counters, the flags, the statics),
    along any observation sequence of at least 1920 + 4504 samples in which ([live_good_run]) the carrier detector's level is
    above both thresholds at every poll, the float-derived indices are in 0..9 and the free-running clock moves the sampling
    index by at most one position and not on two consecutive samples: within 6424 samples (134 ms) the frame decoder has been
    called or the receiver is LISTENING (carrier flags on and either the unlocked search over LSF/STREAM/BERT sync words is
    running on every sample, or LSF_SYNC tests them at every symbol). *)
Theorem c06_ctl_no_dead_state : forall (s : st) (pf : bool) (os : list obs),
  wf_st s = true -> init_left s <= INITIALIZING -> live_good_run pf s os -> (1920 + 4504 <= length os)%nat ->
  exists k, (k <= 1920 + 4504)%nat /\ (k <= length os)%nat /\
            (listening (final s (firstn k os)) = true \/ any_decode (events s (firstn k os)) = true).
Proof. exact ctl_no_dead_state_lemma. Qed.
Print Assumptions c06_ctl_no_dead_state.

(** B2. A listening receiver turns a frame-sync detection into a frame decode within 1 + 2035 samples (184 symbols of at most 11 samples,
    plus the clock reset). *)
Theorem c06_detection_decodes : forall (s : st) (pf : bool) (o : obs) (os : list obs),
  wf_st s = true -> listening s = true -> detection s o = true ->
  live_good_run pf s (o :: os) -> (2035 <= length os)%nat ->
  exists k, (k <= 1 + 2035)%nat /\ any_decode (events s (firstn k (o :: os))) = true.
Proof. exact detection_decodes_lemma. Qed.
Print Assumptions c06_detection_decodes.

(** B3. Every give-up/recycle path re-arms the search: all of them end in demodState = UNLOCKED with dcd.unlock() (detector flag
    cleared, carrier flag still set); from any such state the receiver is listening again (or decoding) within 960 + 768 + 1920 samples. *)
Theorem c06_recycle_rearms : forall (s : st) (pf : bool) (os : list obs),
  wf_st s = true -> init_left s = 0 -> dcd_ s = true -> dcd_trig s = false ->
  live_good_run pf s os -> (3648 <= length os)%nat ->
  exists k, (k <= 3648)%nat /\ (k <= length os)%nat /\
            (listening (final s (firstn k os)) = true \/ any_decode (events s (firstn k os)) = true).
Proof. exact recycle_rearms_lemma. Qed.
Print Assumptions c06_recycle_rearms.

(* ---------------------------------------------------------------- non-vacuity *)
Local Open Scope Q_scope.

(** 0.5 s of exact digital silence (25 polls at 20 ms: 0/0 each), then blocks of ratio 8: four blocks assert the detector *)
Example c06_silence_then_signal :
  let silence := repeat (Fin 0, Fin 0) 25 in
  let signal := repeat (Fin 8, Fin 1) 4 in
  let d := dcd_blocks dcd_update dcd_init (silence ++ signal) in
  triggered_ d = true /\ xisfinite (level_ d) = true /\
  triggered_ (dcd_blocks dcd_update_unguarded dcd_init (silence ++ signal)) = false.
Proof. vm_compute. repeat split; reflexivity. Qed.

(** the explicit bound of A2 instantiated: level 0, R = 8 (twice htrigger): n = 4 suffices, n = 3 does not yet satisfy the bound *)
Example c06_asserts_bound_instance :
  qpow DCD_KEEP 4 * (8 - 0) < 8 - DCD_HTRIGGER /\ ~ (qpow DCD_KEEP 3 * (8 - 0) < 8 - DCD_HTRIGGER) /\
  ratios_ge 8 (repeat (Fin 8, Fin 1) 4).
Proof.
  split; [reflexivity|]. split; [intro H; vm_compute in H; discriminate H|].
  repeat constructor; exists 8; split; try reflexivity; discriminate.
Qed.

(** release: from level 30 with silence (guarded ratio 0): 26 polls (0.52 s) *)
Example c06_releases_bound_instance :
  qpow DCD_KEEP 26 * (30 - 0) < DCD_LTRIGGER - 0 /\ ratios_le 0 (repeat (Fin 0, Fin 0) 26).
Proof.
  split; [reflexivity|]. repeat constructor; exists 0; split; try reflexivity; discriminate.
Qed.

Local Open Scope Z_scope.
(** the freshly constructed demodulator under carrier with nothing ever detected: listening after start-up + two polls + the preamble phase *)
Definition ex_carrier : obs := mkobs 0 0 0 0 0 0 false 0 false false 0 0 D_LSF 0 true true.
Example c06_hypotheses_satisfiable :
  wf_st st_init = true /\ live_good_run false st_init (repeat ex_carrier (1920 + 4504)) /\
  listening (final st_init (repeat ex_carrier (1920 + 768 + 1920))) = true /\
  listening (final st_init (repeat ex_carrier (1920 + 768 + 1919))) = false.
Proof.
  split; [reflexivity|]. split; [apply live_good_runb_ok; vm_compute; reflexivity|]. split; vm_compute; reflexivity.
Qed.
(** ... and a stream sync word then reported leads to a decode: 184 symbols later *)
Definition ex_sync : obs := mkobs 0 0 7 (-1) 0 0 false 0 false false 7 7 D_LSF 0 true true.
Definition ex_carrier7 : obs := mkobs 0 0 0 0 0 0 false 0 false false 7 7 D_LSF 0 true true.
Example c06_detection_instance :
  let s := final st_init (repeat ex_carrier (1920 + 768 + 1920)) in
  detection s ex_sync = true /\
  any_decode (events s (ex_sync :: repeat ex_carrier7 1850)) = true /\
  any_decode (events s (ex_sync :: repeat ex_carrier7 1800)) = false.
Proof. vm_compute. repeat split; reflexivity. Qed.
