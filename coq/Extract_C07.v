(** Extraction of the C07 / C20 models for the correspondence checks: ExtrOcamlBasic only. *)
Require Extraction.
Require Import ExtrOcamlBasic.
From Coq Require Import NArith ZArith QArith List.
From M17 Require Import Checked ConstsApp ImplAx25 ImplApp ImplRxIndex ConstsCorrelator ImplCorrelator.

(* codec2 stand-in for the executable model: the correspondence compares the blocks handed to
   codec2_decode and the number of bytes written, never the decoded audio itself *)
Definition c07_codec2 (c : unit) (bits : list N) : unit * list Z := (tt, repeat 0%Z da_buf_samples).
Definition c07_init : app unit := app_init unit tt.
Definition c07_opts (display_lsf noise_blanker : bool) : opts := {| o_display_lsf := display_lsf; o_noise_blanker := noise_blanker |}.
Definition c07_handle_frame := handle_frame unit c07_codec2.
Definition c07_decode_full_packet := decode_full_packet unit.
Definition c07_parse := parse.
Definition c07_write_text := write_text.
Definition c07_decode_callsign := decode_callsign.
Definition c07_framer_init := framer_init.
Definition c07_framer_step := framer_step.
Definition c07_lich_copy := lich_copy.
Definition c07_unpack_lich := unpack_lich (fun cw => Some cw).
Definition c07_sample_index_of := sample_index_of.
Definition c07_sample_index_update0 := sample_index_update0.
(* Correlator / SyncWord index models at V = Z (integral sample values; |f| > |p| and p > 0 as in the C++) *)
Definition c07_corr_sizes : nat * nat * nat := (corr_buffer_size, corr_tmp_size, sw_samples_size).
Definition c07_corr_init := @corr_init Z.
Definition c07_corr_sample := @corr_sample Z.
Definition c07_corr_correlate := @corr_correlate Z.
Definition c07_corr_index := @corr_index Z.
Definition c07_corr_osl := @corr_outer_symbol_levels Z.
Definition c07_corr_apply := @corr_apply Z.
Definition c07_sw_init := @sw_init Z.
Definition c07_sw_step := @sw_step Z 0%Z (fun a b => (Z.abs b <? Z.abs a)%Z) (fun a => (0 <? a)%Z).
Definition c07_sw_take_updated := @sw_take_updated Z.
Extraction "c07_model.ml" c07_init c07_opts c07_handle_frame c07_decode_full_packet c07_parse c07_write_text
  c07_decode_callsign c07_framer_init c07_framer_step c07_lich_copy c07_unpack_lich c07_sample_index_of c07_sample_index_update0
  c07_corr_sizes c07_corr_init c07_corr_sample c07_corr_correlate c07_corr_index c07_corr_osl c07_corr_apply c07_sw_init c07_sw_step c07_sw_take_updated.
