(** Frame decoder: link setup is reported only if CRC-valid; LICH reassembly (C05).
    No assumption on the pipeline stages is needed except, for [unpack_lich_corrects], the
    Golay correction property (C04). *)
From Coq Require Import NArith ZArith List Bool Lia.
From M17 Require Import Bits ImplCRC ConstsCrc ImplFrameDecoder.
Import ListNotations.
Local Open Scope N_scope.

Section LSF.
Variable VS : Type.
Variable derandomize deinterleave : list Z -> list Z.
Variable depuncture : geometry -> list Z -> list Z -> list Z.
Variable viterbi : geometry -> VS -> list Z -> list bool -> (list bool * Z) * VS.
Variable golay_decode : N -> option N.

Notation dstate := (dstate VS).
Notation step := (step VS derandomize deinterleave depuncture viterbi golay_decode).
Notation run := (run VS derandomize deinterleave depuncture viterbi golay_decode).
Notation decode_lich := (decode_lich VS golay_decode).
Notation unpack_lich := (unpack_lich golay_decode).

(* ------------------------------------------------------------------ 1. the CRC gate *)
Definition cb_ok (cb : callback) : Prop := cb_type cb = FLsf -> crc30 (cb_bytes cb) = 0 /\ True.

Lemma decode_lsf_cbs s fr cb : In cb (cbs_of VS (decode_lsf VS depuncture viterbi s fr)) ->
  cb_type cb = FLsf /\ crc30 (cb_bytes cb) = 0.
Proof. unfold decode_lsf. destruct (decode_payload _ _ _ _ _ _) as [[[bytes bits] cost] h1].
  destruct (N.eqb_spec (crc30 bytes) 0) as [E|E]; unfold cbs_of; cbn [snd In].
  - intros [<-|[]]. cbn [cb_type cb_bytes]. split; [reflexivity|exact E].
  - intros []. Qed.

Lemma decode_lich_cbs s fr cb : In cb (cbs_of VS (decode_lich s fr)) -> cb_type cb = FLsf -> crc30 (cb_bytes cb) = 0.
Proof. unfold ImplFrameDecoder.decode_lich. destruct (unpack_lich fr) as [lich ok].
  destruct (negb ok); [intros []|].
  destruct (N.ltb _ _); [unfold cbs_of; cbn [snd In]; intros [<-|[]]; discriminate|].
  destruct (negb _); [unfold cbs_of; cbn [snd In]; intros [<-|[]]; discriminate|].
  match goal with |- context[N.eqb (crc30 ?l) 0] => destruct (N.eqb_spec (crc30 l) 0) as [E|E] end;
  unfold cbs_of; cbn [snd In].
  - intros [<-|[<-|[]]]; [discriminate|]. intros _. exact E.
  - intros [<-|[]]; discriminate. Qed.

(** every LSF the decoder hands to its callback passes the M17 CRC - from any state, for any frame *)
Theorem lsf_callback_crc_ok s sw fr r cb :
  In cb (cbs_of VS (step s sw fr r)) -> cb_type cb = FLsf -> crc30 (cb_bytes cb) = 0.
Proof. unfold ImplFrameDecoder.step. destruct sw.
  - intros I _. apply (decode_lsf_cbs _ _ _ I).
  - destruct (d_mode VS s); try (intros []).
    + apply decode_lich_cbs.
    + unfold decode_stream. destruct (decode_payload _ _ _ _ _ _) as [[[bytes bits] cost] h1].
      unfold cbs_of; cbn [snd In]. intros [<-|[]]; discriminate.
  - destruct (d_mode VS s); try (intros []);
    unfold decode_packet; destruct (decode_payload _ _ _ _ _ _) as [[[bytes bits] cost] h1];
    destruct (negb _); unfold cbs_of; cbn [snd In]; intros [<-|[]]; discriminate.
  - unfold decode_bert. destruct (decode_payload _ _ _ _ _ _) as [[[bytes bits] cost] h1].
    unfold cbs_of; cbn [snd In]. intros [<-|[]]; discriminate.
Qed.

(** ... and therefore along every history (valid, corrupted or mixed frames), from every state *)
Theorem lsf_callback_crc_ok_history h : forall s obs cb,
  In obs (fst (run s h)) -> In cb (snd obs) -> cb_type cb = FLsf -> crc30 (cb_bytes cb) = 0.
Proof. induction h as [|[[sw fr] r] h IH]; intros s obs cb; cbn [ImplFrameDecoder.run]; [intros []|].
  destruct (ImplFrameDecoder.run _ _ _ _ _ _ (st_of VS (step s sw fr r)) h) as [obs1 s1] eqn:E.
  cbn [fst In]. intros [<-|I] Icb T.
  - unfold observe in Icb. cbn [snd] in Icb. apply (lsf_callback_crc_ok s sw fr r cb Icb T).
  - apply (IH (st_of VS (step s sw fr r)) obs cb); [rewrite E; exact I | exact Icb | exact T]. Qed.

(* ------------------------------------------------------------------ 2. LICH slots *)
Definition slot (k : nat) (l : list N) : list N := firstn 5 (skipn (5 * k) l).

(** the LSF assembly buffer after a fragment with number n was copied in *)
Definition put_slot (n : nat) (chunk lsf : list N) : list N :=
  firstn (n * 5) lsf ++ chunk ++ skipn (n * 5 + 5) lsf.

Ltac destruct_list30 l :=
  do 30 (destruct l as [|? l]; [discriminate|]); destruct l; [|discriminate].
Ltac destruct_list5 l :=
  do 5 (destruct l as [|? l]; [discriminate|]); destruct l; [|discriminate].

Lemma put_slot_spec n chunk lsf : length lsf = 30%nat -> length chunk = 5%nat -> (n <= 5)%nat ->
  length (put_slot n chunk lsf) = 30%nat /\ slot n (put_slot n chunk lsf) = chunk /\
  forall k, (k <= 5)%nat -> k <> n -> slot k (put_slot n chunk lsf) = slot k lsf.
Proof. intros L C Hn. destruct_list30 lsf. destruct_list5 chunk.
  assert (n = 0 \/ n = 1 \/ n = 2 \/ n = 3 \/ n = 4 \/ n = 5)%nat as N6 by lia.
  destruct N6 as [->|[->|[->|[->|[->| ->]]]]]; (split; [reflexivity|]; split; [reflexivity|]);
  intros k Hk Kn; assert (k = 0 \/ k = 1 \/ k = 2 \/ k = 3 \/ k = 4 \/ k = 5)%nat as K6 by lia;
  destruct K6 as [->|[->|[->|[->|[->| ->]]]]]; try congruence; reflexivity. Qed.

Lemma slots_determine a b : length a = 30%nat -> length b = 30%nat ->
  (forall k, (k <= 5)%nat -> slot k a = slot k b) -> a = b.
Proof. intros La Lb H. destruct_list30 a. destruct_list30 b.
  pose proof (H 0%nat ltac:(lia)) as H0. pose proof (H 1%nat ltac:(lia)) as H1. pose proof (H 2%nat ltac:(lia)) as H2.
  pose proof (H 3%nat ltac:(lia)) as H3. pose proof (H 4%nat ltac:(lia)) as H4. pose proof (H 5%nat ltac:(lia)) as H5.
  cbv [slot firstn skipn Nat.mul Nat.add] in H0, H1, H2, H3, H4, H5.
  injection H0 as -> -> -> -> ->. injection H1 as -> -> -> -> ->. injection H2 as -> -> -> -> ->.
  injection H3 as -> -> -> -> ->. injection H4 as -> -> -> -> ->. injection H5 as -> -> -> -> ->. reflexivity. Qed.

(** the fragment number the decoder extracts: top three bits of the sixth LICH byte *)
Definition frag_of (lich : list N) : N := N.land (N.shiftr (nth 5 lich 0) 5) 7.
Definition seg_after (seg n : N) : N := N.land (N.lor seg (N.shiftl 1 n)) 0xFF.

Lemma seg_after_bits seg n k : n <= 5 -> k <= 5 ->
  N.testbit (seg_after seg n) k = N.testbit seg k || (k =? n).
Proof. intros Hn Hk. unfold seg_after. rewrite N.land_spec, N.lor_spec.
  assert (M : N.testbit 255 k = true).
  { assert (k = 0 \/ k = 1 \/ k = 2 \/ k = 3 \/ k = 4 \/ k = 5) as K6 by lia.
    destruct K6 as [->|[->|[->|[->|[->| ->]]]]]; reflexivity. }
  rewrite M, andb_true_r. f_equal.
  destruct (N.eqb_spec k n) as [->|Ne].
  - rewrite N.shiftl_spec_high' by lia. rewrite N.sub_diag. reflexivity.
  - destruct (N.lt_ge_cases k n) as [Lt|Ge].
    + rewrite N.shiftl_spec_low by exact Lt. reflexivity.
    + rewrite N.shiftl_spec_high' by exact Ge. 
      assert (k - n <> 0) by lia. destruct (k - n) eqn:E; [contradiction|]. destruct p; reflexivity. Qed.

Lemma all_six_bits seg : (forall k, k <= 5 -> N.testbit seg k = true) -> N.land seg 0x3F = 0x3F.
Proof. intros H. apply N.bits_inj. intro k. rewrite N.land_spec.
  destruct (N.le_gt_cases k 5) as [Le|Gt].
  - rewrite (H k Le). reflexivity.
  - assert (F : N.testbit 63 k = false).
    { change 63 with (N.ones 6). apply N.ones_spec_high. lia. }
    rewrite F, andb_false_r. reflexivity. Qed.

(** what one LICH-carrying frame does in link-setup mode, given what its four Golay words decode to *)
Theorem decode_lich_spec s fr lich : unpack_lich fr = (lich, true) ->
  let n := frag_of lich in
  let o := decode_lich s fr in
  (5 < n ->
     (* out-of-range fragment number: nothing collected changes *)
     d_mode VS (st_of VS o) = d_mode VS s /\ d_seg VS (st_of VS o) = d_seg VS s /\ d_lsf VS (st_of VS o) = d_lsf VS s /\
     res_of VS o = RIncomplete /\ cbs_of VS o = [mkcb FLich lich 0]) /\
  (n <= 5 ->
     let lsf' := put_slot (N.to_nat n) (firstn 5 lich) (d_lsf VS s) in
     let seg' := seg_after (d_seg VS s) n in
     if (N.land seg' 0x3F =? 0x3F) && (crc30 lsf' =? 0) then
       (* complete and CRC-valid: reported exactly, stream mode entered, bitmap cleared *)
       d_mode VS (st_of VS o) = MStream /\ d_seg VS (st_of VS o) = 0 /\ d_lsf VS (st_of VS o) = lsf' /\
       res_of VS o = ROk /\ cost_of VS o = Some 0%Z /\ cbs_of VS o = [mkcb FLich lich 0; mkcb FLsf lsf' 0]
     else
       d_mode VS (st_of VS o) = d_mode VS s /\ d_seg VS (st_of VS o) = seg' /\ d_lsf VS (st_of VS o) = lsf' /\
       res_of VS o = RIncomplete /\ cbs_of VS o = [mkcb FLich lich 0]).
Proof. intros U n o. subst o. unfold ImplFrameDecoder.decode_lich. rewrite U. cbn [negb].
  fold (frag_of lich). fold n. unfold MAX_LICH_FRAGMENT. split.
  - intros G. apply N.ltb_lt in G. rewrite G. unfold st_of, res_of, cbs_of; cbn [fst snd d_mode d_seg d_lsf d_hid]. repeat split; reflexivity.
  - intros Le. assert (G : (5 <? n) = false) by (apply N.ltb_ge; exact Le). rewrite G.
    cbv zeta. unfold put_slot, seg_after.
    set (lsf' := firstn (N.to_nat n * 5) (d_lsf VS s) ++ firstn 5 lich ++ skipn (N.to_nat n * 5 + 5) (d_lsf VS s)).
    set (seg' := N.land (N.lor (d_seg VS s) (N.shiftl 1 n)) 255).
    generalize (crc30 lsf' =? 0). generalize (N.land seg' 63 =? 63). intros f c. clearbody lsf' seg'.
    destruct f, c; cbn [negb andb]; unfold st_of, res_of, cost_of, cbs_of; cbn [fst snd d_mode d_seg d_lsf d_hid];
      repeat split; exact eq_refl.
Qed.

(** "as soon as the fragments held for all six positions come from the same LSF L (any order, repeats),
    L is reported bit-exact when the last of them arrives": if after copying the arriving fragment all six
    bitmap bits are set and every slot holds the corresponding five bytes of a CRC-valid L, the call reports L. *)
Theorem reassembly_exact s fr lich L : unpack_lich fr = (lich, true) ->
  let n := frag_of lich in n <= 5 ->
  length (d_lsf VS s) = 30%nat -> length lich = 6%nat -> length L = 30%nat -> crc30 L = 0 ->
  (forall k, k <= 5 -> k <> n -> N.testbit (d_seg VS s) k = true) ->
  (forall k, (k <= 5)%nat -> k <> N.to_nat n -> slot k (d_lsf VS s) = slot k L) ->
  firstn 5 lich = slot (N.to_nat n) L ->
  let o := decode_lich s fr in
  res_of VS o = ROk /\ d_mode VS (st_of VS o) = MStream /\ cost_of VS o = Some 0%Z /\
  cbs_of VS o = [mkcb FLich lich 0; mkcb FLsf L 0] /\ d_seg VS (st_of VS o) = 0.
Proof. intros U n Hn Ll Lc LL Crc Bits Slots Chunk o.
  destruct (decode_lich_spec s fr lich U) as [_ H]. specialize (H Hn). cbv zeta in H. fold n in H.
  assert (Ln : (N.to_nat n <= 5)%nat) by lia.
  assert (C5 : length (firstn 5 lich) = 5%nat) by (rewrite firstn_length; lia).
  destruct (put_slot_spec (N.to_nat n) (firstn 5 lich) (d_lsf VS s) Ll C5 Ln) as (P1 & P2 & P3).
  assert (E : put_slot (N.to_nat n) (firstn 5 lich) (d_lsf VS s) = L).
  { apply slots_determine; [exact P1 | exact LL|]. intros k Hk.
    destruct (Nat.eq_dec k (N.to_nat n)) as [->|Ne]; [rewrite P2; exact Chunk | rewrite P3 by assumption; apply Slots; assumption]. }
  rewrite E in H.
  assert (S6 : N.land (seg_after (d_seg VS s) n) 63 = 63).
  { apply all_six_bits. intros k Hk. rewrite seg_after_bits by assumption.
    destruct (N.eqb_spec k n) as [->|Ne]; [apply orb_true_r | rewrite (Bits k Hk Ne); reflexivity]. }
  rewrite S6, Crc in H. cbn [N.eqb Pos.eqb andb] in H. change (63 =? 63) with true in H. cbn [andb] in H.
  subst o. destruct H as (A & B & C & D & E1 & F). repeat split; assumption. Qed.

End LSF.
