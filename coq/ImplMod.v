(** * ImplMod — Gallina mirror of the transmit path of apps/m17-mod.cpp (USE_OLD_MODULATOR main)

    Mirrored, statement by statement: LinkSetupFrame::encode_callsign, send_lsf, make_lich_segment
    (Golay24::encode23/encode24), make_data_frame, send_audio_frame, make_bert_frame, transmit, encode,
    send_preamble, output_frame / output_bitstream / output_baseband, output_eot, bits_to_symbol(s),
    bytes_to_symbols, symbols_to_baseband<N> (BaseFirFilter::operator()), puncture (Util.h),
    PolynomialInterleaver::interleave(buffer_t&), M17Randomizer (constructor, randomize), convolve_bit,
    update_memory, make_p1.  No proofs here.  Every literal comes from [ConstsMod] (regenerated from the
    source on every run).

    Modelling decisions (see docs/notes/C13.md):
    - bytes / registers are [N] with the C++ masks written out; 0/1-valued int8/uint8 array cells are [bool];
      audio samples, symbols and filter values are [Z];
    - a loop that writes an array sequentially through [index++] returns the list of written cells in order
      ([iter_out]); the array is the concatenation;
    - arrays the C++ leaves uninitialised are explicit inputs: [uninit] (the int8 output array handed to
      puncture) and [audio0] (transmit()'s audio buffer) -- the theorems show when they do not matter;
    - std::cout is write-only: every function returns the list of output calls it makes ([out_call]) and
      the calls are rendered afterwards, threading the state of the function-local static filters;
    - codec2 and the PRBS generator are oracles (Section variables);
    - the RRC taps are the exact values of the double literals, numerators over 2^rrc_den_log2; the FIR sum,
      the scale and the sign are computed exactly and truncated toward zero as the conversion to int16_t does
      (the rounding of the double arithmetic is NOT modelled: compared within +-1 LSB by the check);
    - the queue is a lossless FIFO delivered completely (C15/C16), so transmit() is a fold over the samples. *)
From Coq Require Import NArith ZArith List Bool.
From M17 Require Import Bits ImplCRC ConstsMod.
Import ListNotations.
Local Open Scope N_scope.

(** ** array helpers *)

Fixpoint set_nth {A} (i : nat) (x : A) (l : list A) : list A :=
  match l, i with
  | [], _ => []
  | _ :: r, O => x :: r
  | y :: r, S i' => y :: set_nth i' x r
  end.

(** n iterations of a loop body that appends what it writes through [index++] *)
Fixpoint iter_out {S O} (n : nat) (f : S -> S * list O) (s : S) : S * list O :=
  match n with
  | O => (s, [])
  | Datatypes.S n' => let (s1, o1) := f s in let (s2, o2) := iter_out n' f s1 in (s2, o1 ++ o2)
  end.

Definition u8 (x : N) : N := N.land x 0xFF.
Definition u16 (x : N) : N := N.land x 0xFFFF.
Definition u32 (x : N) : N := N.land x 0xFFFFFFFF.
Definition nz (x : N) : bool := negb (N.eqb x 0).

(** ** Convolution.h *)

Fixpoint pos_popcount (p : positive) : N :=
  match p with xH => 1 | xO q => pos_popcount q | xI q => 1 + pos_popcount q end.
Definition popcount (x : N) : N := match x with N0 => 0 | Npos p => pos_popcount p end.

(* std::popcount(poly & memory) & 1 *)
Definition convolve_bit (poly memory : N) : N := N.land (popcount (N.land poly memory)) 1.

(* (memory << 1 | input) & ((1 << (K + 1)) - 1) *)
Definition update_memory (K : nat) (memory input : N) : N :=
  N.land (N.lor (N.shiftl memory 1) input) (N.shiftl 1 (N.of_nat (K + 1)) - 1).

(** the body of `for (i != 8) { x = (b & 0x80) >> 7; b <<= 1; memory = update_memory<K>(memory, x);
    encoded[index++] = convolve_bit(p1, memory); encoded[index++] = convolve_bit(p2, memory); }`, b a uint8_t *)
Definition conv_bit (polys : N * N) (K : nat) (st : N * N) : (N * N) * list bool :=
  let '(b, memory) := st in
  let x := N.shiftr (N.land b 0x80) 7 in
  let b := u8 (N.shiftl b 1) in
  let memory := update_memory K memory x in
  ((b, memory), [nz (convolve_bit (fst polys) memory); nz (convolve_bit (snd polys) memory)]).

Definition conv_byte (polys : N * N) (K nbits : nat) (memory b : N) : N * list bool :=
  let '((_, m), out) := iter_out nbits (conv_bit polys K) (b, memory) in (m, out).

(* for (auto b : data) { for (i != nbits) ... } *)
Fixpoint conv_bytes (polys : N * N) (K nbits : nat) (memory : N) (bytes : list N) : N * list bool :=
  match bytes with
  | [] => (memory, [])
  | b :: r => let (m1, o1) := conv_byte polys K nbits memory b in
              let (m2, o2) := conv_bytes polys K nbits m1 r in (m2, o1 ++ o2)
  end.

(* for (i != flush) { memory = update_memory<K>(memory, 0); encoded[index++] = ...; encoded[index++] = ...; } *)
Definition conv_flush (polys : N * N) (K n : nat) (memory : N) : N * list bool :=
  iter_out n (fun m => let m := update_memory K m 0 in
                       (m, [nz (convolve_bit (fst polys) m); nz (convolve_bit (snd polys) m)])) memory.

(** ** Trellis.h: make_p1, P2, P3 *)

Definition make_p1 : list bool :=
  fst (fold_left (fun (st : list bool * nat) i =>
                    let (res, j) := st in
                    if Nat.eqb i j then (res ++ [false], (j + p1_stride)%nat) else (res ++ [true], j))
                 (seq 0 p1_len) ([], p1_first_zero)).

Definition puncture_matrix (which : nat) : list bool :=
  match which with 1%nat => make_p1 | 2%nat => p2_matrix | _ => p3_matrix end.

(** ** Util.h: puncture(in, out, p)
    for (i = 0; i != IN && index != OUT; ++i) { if (p[pindex++]) out[index++] = in[i]; if (pindex == P) pindex = 0; }
    [out0] is the content of `out` before the call; cells that are not written keep it. *)
Section Puncture.
Context {A : Type}.
Definition puncture_step (OUT : nat) (p : list bool) (st : nat * list A) (x : A) : nat * list A :=
  let (pindex, out) := st in
  if Nat.eqb (length out) OUT then st                      (* index == OUT: the loop has ended *)
  else
    let out' := if nth pindex p false then out ++ [x] else out in
    let pindex' := if Nat.eqb (S pindex) (length p) then 0%nat else S pindex in
    (pindex', out').
Definition puncture (IN OUT : nat) (inp out0 : list A) (p : list bool) : list A :=
  let written := snd (fold_left (puncture_step OUT p) (firstn IN inp) (0%nat, [])) in
  written ++ skipn (length written) (firstn OUT out0).
End Puncture.

(** ** PolynomialInterleaver<F1,F2,K>::interleave(buffer_t& data) *)
Definition il_index (i : nat) : nat := N.to_nat ((il_f1 * N.of_nat i + il_f2 * N.of_nat i * N.of_nat i) mod N.of_nat il_k).

Definition interleave {A} (zero : A) (data : list A) : list A :=
  (* buffer_.fill(0); for (i != K) buffer_[index(i)] = data[i]; std::copy(buffer_ -> data) *)
  fold_left (fun buffer_ i => set_nth (il_index i) (nth i data zero) buffer_) (seq 0 il_k) (repeat zero il_k).

(** ** M17Randomizer<N> *)
(* constructor: for (b : DC) for (j != 8) dc_[i++] = (b >> (7 - j)) & 1 ? -1 : 1 *)
Definition randomizer_dc : list Z :=
  flat_map (fun b => map (fun j => if N.eqb (N.land (N.shiftr b (N.of_nat (7 - j))) 1) 0 then 1%Z else (-1)%Z) (seq 0 8)) rnd_dc.
(* randomize: for (i != N) frame[i] ^= (dc_[i] == -1) *)
Definition randomize (frame : list bool) : list bool :=
  map (fun i => xorb (nth i frame false) (Z.eqb (nth i randomizer_dc 0%Z) (-1))) (seq 0 rnd_n).

(** ** LinkSetupFrame::encode_callsign (non-strict) *)
(* call_t callsign; callsign.fill(0); std::copy(s.begin(), s.end(), callsign.begin());   (|s| <= 9 enforced by Config::parse) *)
Definition call_array (s : list N) : list N := firstn 10 (s ++ repeat 0 10).

Definition char_code (c : N) : N :=
  if (65 <=? c) && (c <=? 90) then c - 65 + 1            (* 'A'..'Z' *)
  else if (48 <=? c) && (c <=? 57) then c - 48 + 27      (* '0'..'9' *)
  else if c =? 45 then 37                                 (* '-' *)
  else if c =? 47 then 38                                 (* '/' *)
  else if c =? 46 then 39                                 (* '.' *)
  else 0.

Definition encode_callsign (callsign : list N) : list N :=
  (* std::reverse; for (c : callsign) { encoded *= 40; encoded += ...; }   on a uint64_t *)
  let encoded := fold_left (fun e c => ((e * 40) mod 2 ^ 64 + char_code c) mod 2 ^ 64) (rev callsign) 0 in
  (* p = bytes of `encoded` (little endian); std::copy(p, p + 6, result.rbegin()) *)
  rev (map (fun i => u8 (N.shiftr encoded (8 * N.of_nat i))) (seq 0 6)).

(** ** output calls (std::cout is write-only) *)
Inductive out_call : Type :=
| OutPreamble                                        (* send_preamble() *)
| OutFrame (sync_word : list N) (frame : list bool)  (* output_frame(sync_word, frame) *)
| OutEot.                                            (* output_eot() *)

Inductive frame_type : Type := AUDIO | DATA | MIXED | BERT.

Section WithUninit.
(** content of an uninitialised `std::array<int8_t, OUT> punctured` *)
Variable uninit : list bool.

(** ** send_lsf(src, dest, type): returns the 30-byte LSF and the frame it outputs; [can] is the global *)
Definition lsf_bytes (can : N) (src dest : list N) (type : frame_type) : list N :=
  let result := repeat 0 lsf_len in
  let encoded_src := encode_callsign (call_array src) in
  let encoded_dest := match dest with [] => lsf_broadcast | _ => encode_callsign (call_array dest) end in
  (* rit = std::copy(encoded_dest -> result.begin()); std::copy(encoded_src -> rit) *)
  let result := encoded_dest ++ encoded_src ++ skipn (length encoded_dest + length encoded_src) result in
  let result := match type with
                | AUDIO => set_nth lsf_type_lo_index (u8 (N.lor type_lo_audio (N.shiftl (N.land can can_lo_mask) can_lo_shift)))
                             (set_nth lsf_type_hi_index (u8 (N.shiftr can can_hi_shift)) result)
                | BERT => set_nth lsf_type_lo_index type_lo_bert (set_nth lsf_type_hi_index type_hi_bert result)
                | _ => result
                end in
  (* crc.reset(); for (i != 28) crc(result[i]); checksum = crc.get_bytes(); *)
  let checksum := crc_bytes_of lsf_crc_poly lsf_crc_init (firstn lsf_crc_span result) in
  set_nth lsf_crc_lo_index (nth 1 checksum 0) (set_nth lsf_crc_hi_index (nth 0 checksum 0) result).

Definition lsf_encode (result : list N) : list bool :=
  let (memory, e1) := conv_bytes (nth 0 lsf_polys (0, 0)) lsf_mem_k (nth 0 bit_loop_bounds 0%nat) 0 result in
  let (_, e2) := conv_flush (nth 1 lsf_polys (0, 0)) lsf_mem_k flush_bits memory in
  e1 ++ e2.

Definition lsf_frame (result : list N) : list bool :=
  let encoded := lsf_encode result in
  let punctured := puncture lsf_encoded_len lsf_punctured_len encoded uninit (puncture_matrix lsf_puncture_matrix) in
  randomize (interleave false punctured).

Definition send_lsf (can : N) (src dest : list N) (type : frame_type) : list N * list out_call :=
  let result := lsf_bytes can src dest type in
  (result, [OutFrame sync_lsf (lsf_frame result)]).

(** ** Golay24::encode23 / encode24 *)
Definition encode23 (data : N) : N :=
  let codeword := Nat.iter golay_steps
                    (fun c => N.shiftr (if N.eqb (N.land c 1) 0 then c else N.lxor c golay_poly) 1) data in
  N.lor codeword (N.shiftl data golay_data_shift).
Definition encode24 (data : N) : N :=
  let codeword := encode23 data in u32 (N.lor (N.shiftl codeword 1) (N.land (popcount codeword) 1)).

(** ** make_lich_segment(segment, segment_number) *)
(* for (i = a; i != b; ++i) { result[i] = (encoded & (1 << 23)) != 0; encoded <<= 1; } *)
Definition lich_unpack (loop : nat * nat * N) (encoded : N) : list bool :=
  let '(a, b, bit) := loop in
  snd (iter_out (b - a) (fun e => (u32 (N.shiftl e 1), [nz (N.land e (N.shiftl 1 bit))])) encoded).

Definition make_lich_segment (segment : list N) (segment_number : N) : list bool :=
  let s i := nth i segment 0 in
  let loop k := nth k lich_bit_loops (0%nat, 0%nat, 0) in
  let tmp0 := u16 (N.lor (N.shiftl (s 0%nat) lich_hi_shift) (N.land (N.shiftr (s 1%nat) lich_nib_shift) lich_nib_mask)) in
  let r0 := lich_unpack (loop 0%nat) (encode24 tmp0) in
  let tmp1 := u16 (N.lor (N.shiftl (N.land (s 1%nat) lich_lo_mask) lich_lo_shift) (s 2%nat)) in
  let r1 := lich_unpack (loop 1%nat) (encode24 tmp1) in
  let tmp2 := u16 (N.lor (N.shiftl (s 3%nat) lich_hi_shift) (N.land (N.shiftr (s 4%nat) lich_nib_shift) lich_nib_mask)) in
  let r2 := lich_unpack (loop 2%nat) (encode24 tmp2) in
  let tmp3 := u16 (N.lor (N.shiftl (N.land (s 4%nat) lich_lo_mask) lich_lo_shift) (N.shiftl segment_number lich_number_shift)) in
  let r3 := lich_unpack (loop 3%nat) (encode24 tmp3) in
  r0 ++ r1 ++ r2 ++ r3.

(** ** make_data_frame(frame_number, payload) *)
Definition make_data_frame (frame_number : N) (payload : list N) : list bool :=
  let data := [u8 (N.land (N.shiftr frame_number 8) 0xFF); u8 (N.land frame_number 0xFF)] ++ payload in
  let (memory, e1) := conv_bytes (nth 0 stream_polys (0, 0)) stream_mem_k (nth 1 bit_loop_bounds 0%nat) 0 data in
  let (_, e2) := conv_flush (nth 1 stream_polys (0, 0)) stream_mem_k flush_bits memory in
  puncture stream_encoded_len data_frame_len (e1 ++ e2) uninit (puncture_matrix stream_puncture_matrix).

(** ** send_audio_frame(lich, data) *)
Definition send_audio_frame (lich data : list bool) : list out_call :=
  let temp := lich ++ data in
  [OutFrame sync_stream (randomize (interleave false temp))].

(** ** make_bert_frame(prbs) *)
Section Bert.
Variable prbs_state : Type.
Variable prbs_generate : prbs_state -> prbs_state * bool.       (* prbs.generate() *)

(* uint8_t byte = 0; for (i != n) { byte <<= 1; byte |= prbs.generate(); } *)
Definition bert_gen_byte (n : nat) (p : prbs_state) : prbs_state * N :=
  fold_left (fun (st : prbs_state * N) _ => let (p, byte) := st in
                                           let (p', g) := prbs_generate p in (p', N.lor (u8 (N.shiftl byte 1)) (b2n g)))
            (seq 0 n) (p, 0).

Definition make_bert_frame (p : prbs_state) : prbs_state * list bool :=
  let '(p1, full) := fold_left (fun (st : prbs_state * list N) _ =>
                                  let (p, acc) := st in let (p', byte) := bert_gen_byte bert_byte_bits p in (p', acc ++ [byte]))
                               (seq 0 (bert_data_len - 1)) (p, []) in
  let (p2, byte) := bert_gen_byte bert_tail_bits p1 in
  let data := full ++ [u8 (N.shiftl byte bert_tail_shift)] in
  let (m1, e1) := conv_bytes (nth 0 bert_polys (0, 0)) bert_mem_k (nth 2 bit_loop_bounds 0%nat) 0 (firstn (bert_data_len - 1) data) in
  let (m2, e2) := conv_byte (nth 1 bert_polys (0, 0)) bert_mem_k (nth 3 bit_loop_bounds 0%nat) m1 (nth bert_tail_index data 0) in
  let (_, e3) := conv_flush (nth 2 bert_polys (0, 0)) bert_mem_k flush_bits m2 in
  (p2, puncture bert_encoded_len frame_bits (e1 ++ e2 ++ e3) uninit (puncture_matrix bert_puncture_matrix)).

(* the loop body of main()'s BERT branch *)
Definition bert_iteration (p : prbs_state) : prbs_state * list out_call :=
  let (p', frame) := make_bert_frame p in
  (p', [OutFrame sync_bert (randomize (interleave false frame))]).
End Bert.

(** ** encode(codec2, audio), transmit(queue, lsf) *)
Section Transmit.
Variable cstate : Type.
Variable codec2_encode : cstate -> list Z -> cstate * list N.    (* 160 samples -> 8 bytes *)

Definition encode (cs : cstate) (audio : list Z) : cstate * list N :=
  let (cs1, r0) := codec2_encode cs (firstn codec_half_samples audio) in
  let (cs2, r1) := codec2_encode cs1 (firstn codec_half_samples (skipn codec_half_samples audio)) in
  (cs2, r0 ++ r1).

Record tstate : Type := mk_tstate {
  t_codec : cstate; t_audio : list Z; t_index : nat; t_fn : N (* uint16_t *); t_lich : N (* uint8_t *);
  t_out : list out_call }.

(* auto data = make_data_frame(frame_number++, encode(codec2, audio)); if (frame_number == 0x8000) frame_number = 0;
   send_audio_frame(lich[lich_segment++], data); if (lich_segment == lich.size()) lich_segment = 0; *)
Definition emit_frame (lich : list (list bool)) (st : tstate) : tstate :=
  let (cs', payload) := encode (t_codec st) (t_audio st) in
  let data := make_data_frame (t_fn st) payload in
  let fn1 := u16 (t_fn st + 1) in
  let fn2 := if N.eqb fn1 fn_wrap_at then fn_wrap_to else fn1 in
  let out := send_audio_frame (nth (N.to_nat (t_lich st)) lich []) data in
  let l1 := u8 (t_lich st + 1) in
  let l2 := if N.eqb l1 (N.of_nat lich_segments) then 0 else l1 in
  mk_tstate cs' (t_audio st) (t_index st) fn2 l2 (t_out st ++ out).

(* audio[index++] = sample; if (index == audio.size()) { index = 0; <emit>; audio.fill(0); } *)
Definition sample_step (lich : list (list bool)) (st : tstate) (sample : Z) : tstate :=
  let st1 := mk_tstate (t_codec st) (set_nth (t_index st) sample (t_audio st)) (S (t_index st)) (t_fn st) (t_lich st) (t_out st) in
  if Nat.eqb (t_index st1) audio_frame_len then
    let st2 := emit_frame lich (mk_tstate (t_codec st1) (t_audio st1) 0 (t_fn st1) (t_lich st1) (t_out st1)) in
    mk_tstate (t_codec st2) (repeat 0%Z audio_frame_len) (t_index st2) (t_fn st2) (t_lich st2) (t_out st2)
  else st1.

(** [audio0]: content of `audio_frame_t audio;` when transmit() starts (only used if the source does not
    initialise it: [zero_init] is ConstsMod.mod_audio_zero_init); [samples]: everything the queue delivers *)
Definition transmit (zero_init : bool) (audio0 : list Z) (cs0 : cstate) (lsf : list N) (samples : list Z) : list out_call :=
  let lich := map (fun i => make_lich_segment (firstn lich_stride (skipn (i * lich_stride) lsf)) (N.of_nat i))
                  (seq 0 lich_segments) in
  let audio := if zero_init then repeat 0%Z audio_frame_len else firstn audio_frame_len audio0 in
  let st := fold_left (sample_step lich) samples (mk_tstate cs0 audio 0 fn_initial (N.of_nat lich_initial) []) in
  let st := if Nat.ltb 0 (t_index st) then emit_frame lich st else st in
  (* last frame: audio.fill(0); make_data_frame(frame_number | 0x8000, encode(codec2, audio)); send_audio_frame(lich[lich_segment], data); output_eot() *)
  let (_, payload) := encode (t_codec st) (repeat 0%Z audio_frame_len) in
  let data := make_data_frame (N.lor (t_fn st) fn_eos_bit) payload in
  t_out st ++ send_audio_frame (nth (N.to_nat (t_lich st)) lich []) data ++ [OutEot].

(** main() without --bert: send_preamble(); lsf = send_lsf(src, dest); transmit(queue, lsf) *)
Definition mod_calls (zero_init : bool) (audio0 : list Z) (cs0 : cstate) (can : N) (src dest : list N) (samples : list Z) : list out_call :=
  let (lsf, out_lsf) := send_lsf can src dest AUDIO in
  [OutPreamble] ++ out_lsf ++ transmit zero_init audio0 cs0 lsf samples.
End Transmit.
End WithUninit.

(** ** Output: bitstream *)

(* for (i = 0; i != frame.size(); i += 8) { uint8_t c = 0; for (j != 8) { c <<= 1; c |= frame[i + j]; } std::cout << c; } *)
Definition output_bitstream (sync_word : list N) (frame : list bool) : list N :=
  sync_word ++
  map (fun k => fold_left (fun c j => N.lor (u8 (N.shiftl c 1)) (b2n (nth (8 * k + j) frame false))) (seq 0 8) 0)
      (seq 0 (frame_bits / 8)).

Definition render_bitstream_call (c : out_call) : list N :=
  match c with
  | OutPreamble => repeat preamble_byte preamble_len
  | OutFrame sw frame => output_bitstream sw frame
  | OutEot => eot_sync ++ repeat 0 eot_zero_bytes
  end.
Definition render_bitstream (calls : list out_call) : list N := flat_map render_bitstream_call calls.

(** ** Output: baseband *)
Local Open Scope Z_scope.

Definition bits_to_symbol (bits : N) : Z := nth (N.to_nat bits) symbol_table 0.   (* abort() for bits > 3: never called so *)

(* for (i = 0; i != N; i += 2) result[index++] = bits_to_symbol((bits[i] << 1) | bits[i + 1]) *)
Definition bits_to_symbols (bits : list bool) : list Z :=
  map (fun k => bits_to_symbol (N.lor (N.shiftl (b2n (nth (2 * k) bits false)) 1) (b2n (nth (2 * k + 1) bits false))))
      (seq 0 (length bits / 2)).

(* for (auto b : bytes) for (i != 4) { result[index++] = bits_to_symbol(b >> 6); b <<= 2; }     (b a uint8_t) *)
Definition bytes_to_symbols (bytes : list N) : list Z :=
  flat_map (fun b => snd (iter_out 4 (fun b => (u8 (N.shiftl b 2), [bits_to_symbol (N.shiftr b 6)])) b)) bytes.

(** BaseFirFilter<double, 150>: history_ (ring buffer), pos_ *)
Record fir : Type := mk_fir { history : list Z; pos : nat }.
Definition fir_new : fir := mk_fir (repeat 0 rrc_ntaps) 0.

(* operator()(input): returns the numerator of the result over 2^rrc_den_log2 *)
Definition fir_apply (f : fir) (input : Z) : fir * Z :=
  let n := rrc_ntaps in
  let history_ := set_nth (pos f) input (history f) in
  let pos_ := if Nat.eqb (S (pos f)) n then 0%nat else S (pos f) in
  let '(_, result) :=
    fold_left (fun (st : nat * Z) i =>
                 let (index, result) := st in
                 let index := if Nat.eqb index 0 then (n - 1)%nat else (index - 1)%nat in
                 (index, result + nth index history_ 0 * nth i rrc_taps_num 0))
              (seq 0 n) (pos_, 0) in
  (mk_fir history_ pos_, result).

(** the function-local `static ... rrc` objects: one per instantiation key *)
Definition filters : Type := list (nat * fir).
Fixpoint filter_get (key : nat) (fs : filters) : fir :=
  match fs with
  | [] => fir_new                                            (* first use: freshly constructed *)
  | (k, f) :: r => if Nat.eqb k key then f else filter_get key r
  end.
Fixpoint filter_set (key : nat) (f : fir) (fs : filters) : filters :=
  match fs with
  | [] => [(key, f)]
  | (k, g) :: r => if Nat.eqb k key then (k, f) :: r else (k, g) :: filter_set key f r
  end.

(** [per_instantiation] = ConstsMod.mod_filter_per_instantiation: the static lives inside the template, so
    symbols_to_baseband<N> and symbols_to_baseband<M> have different filter objects *)
Definition filter_key (per_instantiation : bool) (N : nat) : nat := if per_instantiation then N else 0%nat.

(* (int16_t)(double): truncation toward zero *)
Definition to_int16 (num : Z) : Z := Z.quot num (2 ^ Z.of_N rrc_den_log2).

(** symbols_to_baseband<N>(symbols) *)
Definition symbols_to_baseband (per_instantiation invert : bool) (N : nat) (fs : filters) (symbols : list Z) : filters * list Z :=
  let key := filter_key per_instantiation N in
  (* baseband.fill(0); for (i != symbols.size()) baseband[i * 10] = symbols[i]; *)
  let baseband := flat_map (fun s => s :: repeat 0 (samples_per_symbol - 1)) (firstn N symbols) in
  (* for (auto& b : baseband) b = rrc(b) * 7168.0 * (invert ? -1.0 : 1.0); *)
  let '(rrc, out) :=
    fold_left (fun (st : fir * list Z) b =>
                 let (rrc, out) := st in
                 let (rrc', y) := fir_apply rrc b in
                 (rrc', out ++ [to_int16 (y * baseband_scale * (if invert then invert_factor else noninvert_factor))]))
              baseband (filter_get key fs, []) in
  (filter_set key rrc fs, out).

(* std::cout << uint8_t(b & 0xFF) << uint8_t(b >> 8) *)
Definition int16_bytes (b : Z) : list N := [Z.to_N (b mod 256); Z.to_N ((b / 256) mod 256)].

Definition render_baseband_call (per_instantiation invert : bool) (fs : filters) (c : out_call) : filters * list Z :=
  match c with
  | OutPreamble =>
      let preamble_bytes := repeat preamble_byte preamble_len in
      symbols_to_baseband per_instantiation invert (preamble_len * 4) fs (bytes_to_symbols preamble_bytes)
  | OutFrame sw frame =>
      (* output_baseband: temp = bytes_to_symbols(sync_word) ++ bits_to_symbols(frame) *)
      let temp := bytes_to_symbols sw ++ bits_to_symbols frame in
      symbols_to_baseband per_instantiation invert frame_symbols fs temp
  | OutEot =>
      (* out_symbols.fill(0); out_symbols[i] = symbols[i] for the EOT_SYNC symbols *)
      let symbols := bytes_to_symbols eot_sync in
      let out_symbols := symbols ++ repeat eot_fill_symbol (eot_symbols - length symbols) in
      symbols_to_baseband per_instantiation invert eot_symbols fs out_symbols
  end.

(** samples in output order, starting with no filter constructed yet *)
Definition render_baseband (per_instantiation invert : bool) (calls : list out_call) : list Z :=
  snd (fold_left (fun (st : filters * list Z) c =>
                    let (fs, out) := st in
                    let (fs', y) := render_baseband_call per_instantiation invert fs c in (fs', out ++ y))
                 calls ([], [])).

Definition render_baseband_bytes (per_instantiation invert : bool) (calls : list out_call) : list N :=
  flat_map int16_bytes (render_baseband per_instantiation invert calls).

(** ** The program: stdout of `m17-mod -S src [-D dest] -C can [-b] [-i]` fed [samples] *)
Section Program.
Variable uninit : list bool.
Variable cstate : Type.
Variable codec2_encode : cstate -> list Z -> cstate * list N.

(** the model with the two structural facts as explicit parameters *)
Definition run_mod_calls_gen (zero_init : bool) (audio0 : list Z) (cs0 : cstate) (can : N) (src dest : list N) (samples : list Z) :=
  mod_calls uninit cstate codec2_encode zero_init audio0 cs0 can src dest samples.

Definition run_mod_bitstream_gen (zero_init : bool) (audio0 : list Z) (cs0 : cstate) (can : N) (src dest : list N) (samples : list Z) : list N :=
  render_bitstream (run_mod_calls_gen zero_init audio0 cs0 can src dest samples).

(** the program as built from the current source *)
Definition run_mod_calls := run_mod_calls_gen mod_audio_zero_init.

Definition run_mod_bitstream := run_mod_bitstream_gen mod_audio_zero_init.

Definition run_mod_baseband_gen (per_instantiation : bool) (invert : bool) (audio0 : list Z) (cs0 : cstate) (can : N) (src dest : list N) (samples : list Z) : list Z :=
  render_baseband per_instantiation invert (run_mod_calls audio0 cs0 can src dest samples).

Definition run_mod_baseband := run_mod_baseband_gen mod_filter_per_instantiation.
End Program.
