(** C16 — queue blocking and shutdown: forever means forever, close ends waits promptly.
    Same model as C15 (ImplQueue.v).  Safety forms; no fairness assumption is needed for any of them.
    The deadline arithmetic is int64 with wrap-around written out ([wrap64]); the default timeout
    (count = int64 max) takes the no-deadline branch exactly when the audited source has it
    (ConstsQueue.put_no_deadline / get_no_deadline). *)
From Coq Require Import ZArith List Bool Arith.
From M17 Require Import ImplQueue SpecQueue ConstsQueue LemmasQueue_A LemmasQueue_B LemmasQueue_C LemmasQueue_D.
Import ListNotations.

(** 1. a put/get reaches [return false] only for one of these reasons (evaluated in the configuration of the step
       that decides it): its deadline — the one it is waiting with, [dl_of p] — has been reached on the clock and
       the caller did not ask to wait for ever; (put) the queue is not OPEN; (get) the queue is CLOSED and empty;
       (put, zero timeout) the queue is full *)
Theorem c16_false_only_if : forall cap c t l c' o p o' w,
  reachable cap c -> step cap c t l c' ->
  pcs c t = Some (o, p) -> p <> XRet (RFail w) -> pcs c' t = Some (o', XRet (RFail w)) ->
  o' = o /\ cause cap c o p w.
Proof. exact false_only_if_lemma. Qed.
Print Assumptions c16_false_only_if.

(** 2. with the default timeout no put and no get ever times out, in any schedule, for any clock
       (hence false is returned only because of close: by 1. the reason is WNotOpen resp. WClosedEmpty) *)
Theorem c16_forever_never_times_out : forall cap c, reachable cap c ->
  forall t o, forever o -> ~ In (HLin t o (RFail WTimeout)) (hist c).
Proof. intros cap c R t o F H. exact (forever_never_times_out_lemma cap c R t o H F). Qed.
Print Assumptions c16_forever_never_times_out.
Theorem c16_forever_has_no_deadline : forall cap c t o p,
  reachable cap c -> pcs c t = Some (o, p) -> forever o -> dl_of p = None.
Proof. intros cap c t o p R H. exact (proj2 (pt_inv_reach cap c R t o p H)). Qed.
Print Assumptions c16_forever_has_no_deadline.
(** finite timeouts: the deadline is now + timeout exactly, whenever that is representable in int64 nanoseconds *)
Theorem c16_finite_deadline_exact : forall count per now,
  count <> int64_max -> (- 2^63 <= count * per < 2^63)%Z -> (- 2^63 <= now + count * per < 2^63)%Z ->
  put_deadline count per now = Some (now + count * per)%Z /\
  get_deadline (OpGet count per) now = Some (now + count * per)%Z.
Proof. intros. split; [now apply put_deadline_exact | now apply get_deadline_exact]. Qed.
Print Assumptions c16_finite_deadline_exact.

(** 3. when close() has made its second notification no thread is left in either wait set *)
Theorem c16_close_wakes_all : forall cap c t c',
  reachable cap c -> step cap c t (LNotifyAll CvEmpty) c' -> wfull c' = [] /\ wempty c' = [].
Proof. exact close_wakes_all_lemma. Qed.
Print Assumptions c16_close_wakes_all.

(** 4. once the queue is not OPEN it never becomes OPEN again and no put commits *)
Theorem c16_put_fails_after_close : forall cap c ls c',
  reachable cap c -> st c <> OPEN -> steps cap c ls c' ->
  st c' <> OPEN /\ enq c' = enq c /\ (forall t v h c'', step cap c' t (LPush v h) c'' -> False).
Proof.
  intros cap c ls c' R H S. destruct (after_close_steps cap c ls c' R S H) as (A & B & _).
  repeat split; auto. intros t v h c'' S'. exact (no_push_after_close cap c' t v h c'' (steps_reach cap c ls c' R S) A S').
Qed.
Print Assumptions c16_put_fails_after_close.

(** 5. what was accepted before close() is handed out afterwards, in order, nothing else *)
Theorem c16_drain_preserved : forall cap c ls c',
  reachable cap c -> st c <> OPEN -> steps cap c ls c' ->
  exists got, deq c' = deq c ++ got /\ items c = got ++ items c'.
Proof. intros cap c ls c' R H S. destruct (after_close_steps cap c ls c' R S H) as (_ & _ & G). exact G. Qed.
Print Assumptions c16_drain_preserved.

(** 6. a closed queue that has been drained is CLOSED (unless a get is still between its pop and its drain statement,
       which it executes without releasing the mutex) *)
Theorem c16_drained_is_closed : forall cap c, reachable cap c ->
  st c <> OPEN -> items c = [] -> (forall t, draining (pcs c t) = false) -> st c = CLOSED.
Proof. exact drained_is_closed_lemma. Qed.
Print Assumptions c16_drained_is_closed.

(** 7. on a drained closed queue no get ever enters a wait, the queue stays drained and closed, and a get holding the
       mutex reaches [return false] in two steps *)
Theorem c16_get_fails_at_once_when_drained : forall cap c, reachable cap c -> st c = CLOSED ->
  (forall t cv dl c', step cap c t (LWaitEnter cv dl) c' -> False) /\
  (forall t l c', step cap c t l c' -> st c' = CLOSED /\ items c' = []) /\
  (forall t o, pcs c t = Some (o, GTestEmpty) ->
     exists c1 c2, step cap c t (LRead RdItems true) c1 /\ step cap c1 t (LRead RdState true) c2 /\
                   pcs c2 t = Some (o, XRet (RFail WClosedEmpty))).
Proof.
  intros cap c R H. repeat split.
  - intros t cv dl c' S. eapply no_wait_when_closed; eauto.
  - eapply closed_stable_step; eauto.
  - eapply closed_stable_step; eauto.
  - intros t o Hpc. eapply get_fails_at_once_lemma; eauto.
Qed.
Print Assumptions c16_get_fails_at_once_when_drained.

(** non-vacuity *)
(** put 5; close; get — the history of the former defect F4: afterwards the queue is CLOSED *)
Definition ex16_sched : list (tid * choice) :=
  [(0, ChInvoke (OpPut 5 int64_max 1000000000));
   (0, ChStep); (0, ChStep); (0, ChStep); (0, ChStep); (0, ChStep); (0, ChNotify None); (0, ChStep);
   (0, ChInvoke OpClose); (0, ChStep); (0, ChStep); (0, ChNotify None); (0, ChNotify None); (0, ChStep);
   (0, ChInvoke (OpGet 300 1000000));
   (0, ChStep); (0, ChStep); (0, ChStep); (0, ChStep); (0, ChStep); (0, ChStep); (0, ChNotify None); (0, ChStep)]%nat.
Example c16_put_close_get_is_closed :
  exists ls c, run_sched 1 (init 0) ex16_sched = Some (ls, c) /\ st c = CLOSED /\ deq c = [5%nat] /\ items c = [].
Proof. vm_compute. eexists. eexists. repeat split. Qed.
(** a default put on a full queue has no deadline; a 200 ms put has the deadline now + 200 ms *)
Example c16_deadlines :
  put_deadline int64_max 1000000000 1700000000000000000 = None /\
  put_deadline 200 1000000 1700000000000000000 = Some 1700000000200000000%Z /\
  get_deadline (OpGet int64_max 1000000000) 5 = None.
Proof. vm_compute. repeat split. Qed.
(** observation (not part of the property, see docs/notes/C16.md): a *finite* timeout close to the maximum still
    wraps — put(v, seconds(2^63-2)) computes a deadline in the past *)
Example c16_near_max_finite_timeout_wraps :
  exists d, put_deadline (int64_max - 1) 1000000000 1700000000000000000 = Some d /\ (d < 1700000000000000000)%Z.
Proof. eexists. split; [vm_compute; reflexivity | reflexivity]. Qed.
