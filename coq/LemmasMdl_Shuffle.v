(** C14 lemmas, part 2: the two bit-moving loops over packed bytes — interleave(bytes_t&) and puncture_bytes —
    equal the specification's bit-level interleaver / puncturer.

    Method: each loop only moves bits, under a control flow that does not depend on the data.  Through
    [get_bit_index_spec] / [assign_bit_index_spec] the loop is a fold of [set_nth] on the bit list; that fold
    commutes with [map f] ([set_nth_map]), so it can be run on a list of *positions* instead of bits; the
    resulting position table is a closed term which [vm_compute] compares with the specification's table. *)
From Coq Require Import NArith ZArith List Bool Lia Arith.
From M17 Require Import Bits SpecM17 ConstsModulator ImplModulator LemmasMdl_Bits.
Import ListNotations.
Local Open Scope N_scope.

Section RelFold.
Variables (A B C : Type) (f : A -> C -> A) (g : B -> C -> B) (R : A -> B -> Prop).
Hypothesis Hstep : forall a b c, R a b -> R (f a c) (g b c).
Lemma rel_fold : forall cs a b, R a b -> R (fold_left f cs a) (fold_left g cs b).
Proof. induction cs as [|c cs IH]; intros a b H; [exact H|]. cbn [fold_left]. apply IH. apply Hstep. exact H. Qed.
End RelFold.
Arguments rel_fold {A B C}.

Lemma map_nth_seq {A} (l : list A) d : map (fun i => nth i l d) (seq 0 (length l)) = l.
Proof. induction l as [|x l IH]; [reflexivity|]. cbn [length seq map nth]. f_equal.
  rewrite <- seq_shift, map_map. exact IH. Qed.

Lemma map_nth_seq_app {A} (a b : list A) d : map (fun i => nth i (a ++ b) d) (seq (length a) (length b)) = b.
Proof. rewrite <- (map_nth_seq b d) at 2. replace (length a) with (0 + length a)%nat at 1 by lia.
  generalize 0%nat. generalize (length b) as n. induction n as [|n IH]; intros s; [reflexivity|].
  cbn [seq map]. f_equal; [|exact (IH (S s))]. rewrite app_nth2 by lia. f_equal. lia. Qed.

Lemma map_nth_app_l {A} (a b : list A) d idxs : Forall (fun i => (i < length a)%nat) idxs ->
  map (fun i => nth i (a ++ b) d) idxs = map (fun i => nth i a d) idxs.
Proof. intros H. apply map_ext_in. intros i Hi. rewrite Forall_forall in H. apply app_nth1. apply H. exact Hi. Qed.

Lemma bytes_bits_zeros n : bytes_bits (repeat 0 n) = repeat false (8 * n).
Proof. induction n as [|n IH]; [reflexivity|]. unfold bytes_bits in *. cbn [repeat flat_map]. rewrite IH.
  replace (8 * S n)%nat with (8 + 8 * n)%nat by lia. reflexivity. Qed.

Lemma map_repeat' {A B} (f : A -> B) x n : map f (repeat x n) = repeat (f x) n.
Proof. induction n as [|n IH]; [reflexivity|]. cbn [repeat map]. rewrite IH. reflexivity. Qed.

Lemma all_bytes_zeros n : all_bytes (repeat 0 n).
Proof. apply Forall_forall. intros x Hx. apply repeat_spec in Hx. subst. reflexivity. Qed.

(** ** interleave(bytes_t&) *)
Definition il_table : list nat :=
  fold_left (fun idxs i => set_nth idxs (il_index i) i) (seq 0 ConstsModulator.interleaver_k) (repeat ConstsModulator.interleaver_k ConstsModulator.interleaver_k).

Lemma il_table_is_spec : il_table = pi_inverse_table.
Proof. vm_compute. reflexivity. Qed.

Lemma il_index_lt i : (il_index i < 368)%nat.
Proof. unfold il_index. change (N.of_nat ConstsModulator.interleaver_k) with 368.
  pose proof (N.mod_upper_bound (ConstsModulator.interleaver_f1 * N.of_nat i + ConstsModulator.interleaver_f2 * N.of_nat i * N.of_nat i) 368). lia. Qed.

Lemma interleave_bytes_spec data : all_bytes data -> length data = 46%nat ->
  bytes_bits (interleave_bytes data) = spec_interleave (bytes_bits data)
  /\ all_bytes (interleave_bytes data) /\ length (interleave_bytes data) = 46%nat.
Proof. intros Hd Ld.
  set (f := fun i : nat => nth i (bytes_bits data) false).
  set (R := fun (buffer : list N) (idxs : list nat) => bytes_bits buffer = map f idxs /\ all_bytes buffer /\ length buffer = 46%nat).
  assert (Hstep : forall a b c, R a b ->
            R (assign_bit_index a (il_index c) (get_bit_index data c)) (set_nth b (il_index c) c)).
  { intros a b c [E [Ha La]]. pose proof (il_index_lt c) as Lt.
    destruct (assign_bit_index_spec a (il_index c) (get_bit_index data c) Ha) as [E1 [A1 L1]]; [lia|].
    split; [|split; [exact A1 | lia]].
    rewrite E1, E, set_nth_map. f_equal. apply get_bit_index_spec. exact Hd. }
  assert (H0 : R (repeat 0 (ConstsModulator.interleaver_k / 8)) (repeat ConstsModulator.interleaver_k ConstsModulator.interleaver_k)).
  { change (ConstsModulator.interleaver_k / 8)%nat with 46%nat. change ConstsModulator.interleaver_k with 368%nat.
    split; [|split; [apply all_bytes_zeros | apply repeat_length]].
    rewrite bytes_bits_zeros, map_repeat'. unfold f. rewrite nth_overflow by (rewrite bytes_bits_length; lia). reflexivity. }
  pose proof (rel_fold _ _ R Hstep (seq 0 ConstsModulator.interleaver_k) _ _ H0) as [E [Ha La]].
  split; [|split; assumption].
  unfold interleave_bytes. rewrite E. fold il_table. rewrite il_table_is_spec. reflexivity. Qed.

(** ** puncture_bytes *)
Definition idx_state : Type := (nat * nat * nat * list nat)%type.
Definition puncture_step_idx (p : list bool) (out_bits : nat) (st : idx_state) (i : nat) : idx_state :=
  let '(index, pindex, bit_count, out) := st in
  if Nat.eqb index out_bits then st
  else
    let keep := nth pindex p false in
    let pindex1 := S pindex in
    let '(index1, bit_count1, out1) :=
      if keep then (S index, S bit_count, set_nth out index i) else (index, bit_count, out) in
    let pindex2 := if Nat.eqb pindex1 (length p) then O else pindex1 in
    (index1, pindex2, bit_count1, out1).
Definition puncture_idx (in_bits out_bits : nat) (p : list bool) : idx_state :=
  fold_left (puncture_step_idx p out_bits) (seq 0 in_bits) (O, O, O, seq in_bits out_bits).

(** the specification's puncturer, polymorphic in the element type *)
Fixpoint punct_gen {A} (mask : list bool) (i : nat) (l : list A) : list A :=
  match l with
  | [] => []
  | b :: r => (if nth (i mod length mask) mask true then [b] else []) ++ punct_gen mask (S i) r
  end.
Lemma punct_gen_bool mask l : forall i, punct_gen mask i l = puncture_from mask i l.
Proof. induction l as [|b r IH]; intros i; [reflexivity|]. cbn [punct_gen puncture_from]. rewrite IH. reflexivity. Qed.
Lemma punct_gen_map {A B} (f : A -> B) mask l : forall i, punct_gen mask i (map f l) = map f (punct_gen mask i l).
Proof. induction l as [|b r IH]; intros i; [reflexivity|]. cbn [punct_gen map]. rewrite IH, map_app.
  destruct (nth (i mod length mask) mask true); reflexivity. Qed.

Lemma puncture_bytes_sim inp out0 p : all_bytes inp -> all_bytes out0 ->
  let '(index, pindex, bc, out) := puncture_bytes_full inp out0 p in
  let '(index', pindex', bc', idxs) := puncture_idx (8 * length inp) (8 * length out0) p in
  index = index' /\ bc = bc' /\
  bytes_bits out = map (fun i => nth i (bytes_bits inp ++ bytes_bits out0) false) idxs /\ all_bytes out /\ length out = length out0.
Proof. intros Hi Ho.
  set (f := fun i : nat => nth i (bytes_bits inp ++ bytes_bits out0) false).
  set (R := fun (a : puncture_state) (b : idx_state) =>
     let '(index, pindex, bc, out) := a in let '(index', pindex', bc', idxs) := b in
     index = index' /\ pindex = pindex' /\ bc = bc' /\ bytes_bits out = map f idxs /\ all_bytes out /\ length out = length out0
     /\ (index <= 8 * length out0)%nat).
  assert (Hstep : forall a b c, (c < 8 * length inp)%nat -> R a b ->
     R (puncture_step inp p (length out0 * 8) a c) (puncture_step_idx p (8 * length out0) b c)).
  { intros [[[index pindex] bc] out] [[[index' pindex'] bc'] idxs] c Hc [<- [<- [<- [E [Ha [La Le]]]]]].
    unfold puncture_step, puncture_step_idx. rewrite (Nat.mul_comm (length out0) 8).
    destruct (Nat.eqb index (8 * length out0)) eqn:Q; [repeat split; assumption|].
    apply Nat.eqb_neq in Q.
    destruct (nth pindex p false).
    - destruct (assign_bit_index_spec out index (get_bit_index inp c) Ha) as [E1 [A1 L1]]; [lia|].
      repeat split; try lia; try assumption.
      rewrite E1, E, set_nth_map. f_equal. rewrite get_bit_index_spec by exact Hi. unfold f.
      rewrite app_nth1 by (rewrite bytes_bits_length; lia). reflexivity.
    - repeat split; try lia; assumption. }
  assert (H0 : R (O, O, O, out0) (O, O, O, seq (8 * length inp) (8 * length out0))).
  { repeat split; try lia; try assumption. unfold f.
    rewrite <- (bytes_bits_length inp), <- (bytes_bits_length out0). symmetry. apply map_nth_seq_app. }
  assert (G : forall cs a b, Forall (fun c => (c < 8 * length inp)%nat) cs -> R a b ->
     R (fold_left (puncture_step inp p (length out0 * 8)) cs a) (fold_left (puncture_step_idx p (8 * length out0)) cs b)).
  { induction cs as [|c cs IH]; intros a b Hc H; [exact H|]. inversion Hc; subst. cbn [fold_left]. apply IH; [assumption|].
    apply Hstep; assumption. }
  unfold puncture_bytes_full, puncture_idx. rewrite (Nat.mul_comm (length inp) 8).
  assert (FS : Forall (fun c => (c < 8 * length inp)%nat) (seq 0 (8 * length inp))).
  { apply Forall_forall. intros c Hc. apply in_seq in Hc. lia. }
  specialize (G (seq 0 (8 * length inp)) _ _ FS H0).
  destruct (fold_left (puncture_step inp p (length out0 * 8)) (seq 0 (8 * length inp)) (0%nat, 0%nat, 0%nat, out0)) as [[[index pindex] bc] out].
  destruct (fold_left (puncture_step_idx p (8 * length out0)) (seq 0 (8 * length inp))
             (0%nat, 0%nat, 0%nat, seq (8 * length inp) (8 * length out0))) as [[[index' pindex'] bc'] idxs].
  destruct G as [A [_ [B [E [Ha [La _]]]]]]. repeat split; assumption. Qed.

(** the two geometries the modulator uses, as closed position tables *)
Lemma p1_is_spec : make_p1 = SpecM17.P1.
Proof. vm_compute. reflexivity. Qed.
Lemma p2_is_spec : ImplModulator.P2 = SpecM17.P2.
Proof. vm_compute. reflexivity. Qed.

Lemma puncture_idx_lsf : puncture_idx 488 368 make_p1 = (368%nat, snd (fst (fst (puncture_idx 488 368 make_p1))), 368%nat, punct_gen SpecM17.P1 0 (seq 0 488)).
Proof. vm_compute. reflexivity. Qed.
Lemma puncture_idx_stream : puncture_idx 296 272 ImplModulator.P2 = (272%nat, snd (fst (fst (puncture_idx 296 272 ImplModulator.P2))), 272%nat, punct_gen SpecM17.P2 0 (seq 0 296)).
Proof. vm_compute. reflexivity. Qed.

Lemma punct_seq_lt mask n : Forall (fun i => (i < n)%nat) (punct_gen mask 0 (seq 0 n)).
Proof. assert (G : forall l i, Forall (fun x => (x < n)%nat) l -> Forall (fun x => (x < n)%nat) (punct_gen mask i l)).
  { induction l as [|b r IH]; intros i H; [constructor|]. inversion H; subst. cbn [punct_gen]. apply Forall_app. split.
    - destruct (nth (i mod length mask) mask true); [constructor; [assumption|constructor] | constructor].
    - apply IH. assumption. }
  apply G. apply Forall_forall. intros x Hx. apply in_seq in Hx. lia. Qed.

Lemma puncture_generic inp out0 p (P : list bool) n_in n_out :
  all_bytes inp -> all_bytes out0 -> (8 * length inp = n_in)%nat -> (8 * length out0 = n_out)%nat ->
  puncture_idx n_in n_out p = (n_out, snd (fst (fst (puncture_idx n_in n_out p))), n_out, punct_gen P 0 (seq 0 n_in)) ->
  bytes_bits (puncture_bytes inp out0 p) = spec_puncture P (bytes_bits inp)
  /\ all_bytes (puncture_bytes inp out0 p) /\ length (puncture_bytes inp out0 p) = length out0
  /\ puncture_bytes_count inp out0 p = n_out.
Proof. intros Hi Ho Li Lo T. pose proof (puncture_bytes_sim inp out0 p Hi Ho) as S.
  unfold puncture_bytes, puncture_bytes_count. rewrite Li, Lo, T in S.
  destruct (puncture_bytes_full inp out0 p) as [[[index pindex] bc] out]. cbn [fst snd].
  destruct S as [_ [B [E [Ha La]]]]. repeat split; try assumption.
  rewrite E. rewrite map_nth_app_l by (rewrite bytes_bits_length, Li; apply punct_seq_lt).
  rewrite <- punct_gen_map. rewrite <- Li, <- (bytes_bits_length inp), map_nth_seq.
  unfold spec_puncture. apply punct_gen_bool. Qed.
