(** Extraction of the CRC models for the correspondence check: ExtrOcamlBasic only. *)
Require Extraction.
Require Import ExtrOcamlBasic.
From Coq Require Import NArith List.
From M17 Require Import Bits ImplCRC SpecCRC ConstsCrc.
Definition c09_impl_crc := crc_of ConstsCrc.crc_poly ConstsCrc.crc_init.
Definition c09_impl_crc_bytes := crc_bytes_of ConstsCrc.crc_poly ConstsCrc.crc_init.
Definition c09_spec_crc := m17_crc.
Definition c09_spec_crc0 (bytes : list N) := crc0_bits m17_poly (bytes_bits bytes).
(* the engine as a state machine over reg_ (for operation sequences on one reused object) *)
Definition c09_reg_init : N := ConstsCrc.crc_init.                       (* member initialiser: reg_ = Init *)
Definition c09_reg_reset : N := reset_reg ConstsCrc.crc_poly ConstsCrc.crc_init.
Definition c09_reg_byte (reg byte : N) : N := crc_byte ConstsCrc.crc_poly reg byte.
Definition c09_reg_get (reg : N) : N := get ConstsCrc.crc_poly reg.
Definition c09_reg_get_bytes (reg : N) : list N := get_bytes ConstsCrc.crc_poly reg.
Extraction "c09_model.ml" c09_impl_crc c09_impl_crc_bytes c09_spec_crc c09_spec_crc0 xor_bytes
  c09_reg_init c09_reg_reset c09_reg_byte c09_reg_get c09_reg_get_bytes.
