(** Extraction of the CRC models for the correspondence check: ExtrOcamlBasic only. *)
Require Extraction.
Require Import ExtrOcamlBasic.
From Coq Require Import NArith List.
From M17 Require Import Bits ImplCRC SpecCRC ConstsCrc.
Definition c09_impl_crc := crc_of ConstsCrc.crc_poly ConstsCrc.crc_init.
Definition c09_impl_crc_bytes := crc_bytes_of ConstsCrc.crc_poly ConstsCrc.crc_init.
Definition c09_spec_crc := m17_crc.
Definition c09_spec_crc0 (bytes : list N) := crc0_bits m17_poly (bytes_bits bytes).
Extraction "c09_model.ml" c09_impl_crc c09_impl_crc_bytes c09_spec_crc c09_spec_crc0 xor_bytes.
