(** C13, part D: send_lsf, the stream frame and the BERT frame against the specification. *)
From Coq Require Import NArith ZArith List Bool Lia Arith.
From M17 Require Import Bits SpecCRC SpecM17 ImplCRC ImplMod ConstsMod LemmasMod_A LemmasMod_B LemmasMod_C.
Import ListNotations.
Local Open Scope N_scope.

Lemma sync_consts_ok : ConstsMod.sync_lsf = SpecM17.sync_lsf /\ ConstsMod.sync_stream = SpecM17.sync_stream /\
  ConstsMod.sync_bert = SpecM17.sync_bert /\ eot_sync = eot_marker /\ repeat preamble_byte preamble_len = preamble.
Proof. repeat split; reflexivity. Qed.

(** ** send_lsf *)
Lemma send_lsf_ok uninit can src dest : valid_callsign src -> valid_callsign dest -> can < 16 ->
  send_lsf uninit can src dest AUDIO =
  (spec_lsf dest src can, [OutFrame SpecM17.sync_lsf (spec_lsf_frame (spec_lsf dest src can))]).
Proof. intros Hs Hd Hc. unfold send_lsf. rewrite lsf_bytes_ok by assumption.
  rewrite lsf_frame_ok by (apply spec_lsf_length || apply spec_lsf_bytes). reflexivity. Qed.

(** ** stream frame *)
Lemma stream_frame_ok uninit lsf n fnarg payload :
  length lsf = 30%nat -> all_bytes lsf -> (n < 6)%nat -> fnarg < 65536 -> length payload = 16%nat -> all_bytes payload ->
  send_audio_frame (make_lich_segment (firstn lich_stride (skipn (n * lich_stride) lsf)) (N.of_nat n))
                   (make_data_frame uninit fnarg payload)
  = [OutFrame SpecM17.sync_stream (spec_stream_frame lsf (N.of_nat n) (fnarg mod 32768) payload (N.testbit fnarg 15))].
Proof. intros Hl Hb Hn Hf Hpl Hpb. unfold send_audio_frame, spec_stream_frame.
  destruct (lich_segment_ok uninit lsf n Hl Hb Hn) as [-> L].
  rewrite make_data_frame_ok by assumption.
  rewrite finish_ok by (rewrite app_length, L, spec_stream_payload_length by exact Hpl; reflexivity).
  reflexivity. Qed.

(** ** BERT frame *)
Section Bert.
Variable uninit : list bool.
Variable S : Type.
Variable gen : S -> S * bool.

(** the next n outputs of prbs.generate() *)
Fixpoint gen_bits (n : nat) (p : S) : S * list bool :=
  match n with
  | O => (p, [])
  | Datatypes.S n' => let (p1, g) := gen p in let (p2, r) := gen_bits n' p1 in (p2, g :: r)
  end.

Lemma gen_bits_add a : forall b p,
  gen_bits (a + b) p = (fst (gen_bits b (fst (gen_bits a p))), snd (gen_bits a p) ++ snd (gen_bits b (fst (gen_bits a p)))).
Proof. induction a as [|a IH]; intros b p.
- cbn. destruct (gen_bits b p); reflexivity.
- cbn [Nat.add gen_bits]. destruct (gen p) as [p1 g]. rewrite IH.
  destruct (gen_bits a p1) as [p2 r]. cbn [fst snd]. reflexivity. Qed.

Lemma gen_bits_length n : forall p, length (snd (gen_bits n p)) = n.
Proof. induction n as [|n IH]; intros p; [reflexivity|]. cbn [gen_bits]. destruct (gen p) as [p1 g].
  specialize (IH p1). destruct (gen_bits n p1). cbn [snd length] in *. rewrite IH. reflexivity. Qed.

Definition acc_byte (byte : N) (g : bool) : N := N.lor (u8 (N.shiftl byte 1)) (b2n g).

Lemma bert_gen_byte_fold n : forall a p b0,
  fold_left (fun (st : S * N) (_ : nat) => let (p, byte) := st in let (p', g) := gen p in (p', acc_byte byte g)) (seq a n) (p, b0)
  = (fst (gen_bits n p), fold_left acc_byte (snd (gen_bits n p)) b0).
Proof. induction n as [|n IH]; intros a p b0; [reflexivity|].
  cbn [seq fold_left gen_bits]. destruct (gen p) as [p1 g]. rewrite IH.
  destruct (gen_bits n p1) as [p2 r]. reflexivity. Qed.

Lemma bert_gen_byte_bits n p :
  bert_gen_byte S gen n p = (fst (gen_bits n p), fold_left acc_byte (snd (gen_bits n p)) 0).
Proof. unfold bert_gen_byte. apply bert_gen_byte_fold. Qed.
End Bert.

Definition ok_pack8 (l : list bool) : bool :=
  let byte := fold_left acc_byte l 0 in beq_bits (byte_bits byte) l && (byte <? 256).
Lemma sweep_pack8 : all_lists 8 ok_pack8 = true.
Proof. vm_compute. reflexivity. Qed.
Definition ok_pack5 (l : list bool) : bool :=
  let last := u8 (N.shiftl (fold_left acc_byte l 0) bert_tail_shift) in
  beq_bits (firstn 5 (byte_bits last)) l && (last <? 256).
Lemma sweep_pack5 : all_lists 5 ok_pack5 = true.
Proof. vm_compute. reflexivity. Qed.

Lemma pack8_ok l : length l = 8%nat -> byte_bits (fold_left acc_byte l 0) = l /\ fold_left acc_byte l 0 < 256.
Proof. intros H. pose proof (all_lists_spec 8 ok_pack8 sweep_pack8 l H) as K. unfold ok_pack8 in K.
  apply andb_prop in K. destruct K as [K1 K2]. split; [apply beq_bits_eq; exact K1 | apply N.ltb_lt; exact K2]. Qed.
Lemma pack5_ok l : length l = 5%nat ->
  let last := u8 (N.shiftl (fold_left acc_byte l 0) bert_tail_shift) in firstn 5 (byte_bits last) = l /\ last < 256.
Proof. intros H. pose proof (all_lists_spec 5 ok_pack5 sweep_pack5 l H) as K. unfold ok_pack5 in K.
  apply andb_prop in K. destruct K as [K1 K2]. split; [apply beq_bits_eq; exact K1 | apply N.ltb_lt; exact K2]. Qed.

Lemma bert_consts_ok : bert_data_len = 25%nat /\ bert_byte_bits = 8%nat /\ bert_tail_bits = 5%nat /\ bert_tail_index = 24%nat /\
  bert_encoded_len = 402%nat /\ frame_bits = 368%nat.
Proof. repeat split; reflexivity. Qed.

Section Bert2.
Variable uninit : list bool.
Variable S : Type.
Variable gen : S -> S * bool.
Notation gen_bits := (gen_bits S gen).

Opaque acc_byte.

(** the loop that fills data[0..23] *)
Lemma bert_bytes_fold k : forall a p acc,
  exists bytes,
    fold_left (fun (st : S * list N) (_ : nat) => let (p, acc) := st in
                 let (p', byte) := bert_gen_byte S gen bert_byte_bits p in (p', acc ++ [byte])) (seq a k) (p, acc)
    = (fst (gen_bits (8 * k) p), acc ++ bytes) /\
    bytes_bits bytes = snd (gen_bits (8 * k) p) /\ all_bytes bytes /\ length bytes = k.
Proof. induction k as [|k IH]; intros a p acc.
- exists []. cbn. rewrite app_nil_r. repeat split. constructor.
- change bert_byte_bits with 8%nat in *. cbn [seq fold_left]. rewrite bert_gen_byte_bits.
  destruct (IH (Datatypes.S a) (fst (gen_bits 8 p)) (acc ++ [fold_left acc_byte (snd (gen_bits 8 p)) 0])) as [bytes [E [B [Al Le]]]].
  exists (fold_left acc_byte (snd (gen_bits 8 p)) 0 :: bytes).
  destruct (pack8_ok (snd (gen_bits 8 p)) (gen_bits_length S gen 8 p)) as [P1 P2].
  replace (8 * Datatypes.S k)%nat with (8 + 8 * k)%nat by lia. rewrite gen_bits_add. cbn [fst snd].
  rewrite E, <- app_assoc. repeat split.
  + change (bytes_bits (?x :: bytes)) with (byte_bits x ++ bytes_bits bytes). rewrite P1, B. reflexivity.
  + constructor; assumption.
  + cbn [length]. rewrite Le. reflexivity. Qed.

Lemma make_bert_frame_ok p :
  make_bert_frame uninit S gen p =
  (fst (gen_bits 197 p), firstn 368 (spec_puncture P2 (spec_conv (snd (gen_bits 197 p))))).
Proof. unfold make_bert_frame. destruct bert_consts_ok as [-> [_ [-> [-> [-> ->]]]]].
  destruct (bert_bytes_fold 24 0 p []) as [bytes [E [B [Al Le]]]]. change (25 - 1)%nat with 24%nat. rewrite E.
  cbn [app]. change (8 * 24)%nat with 192%nat in *.
  rewrite bert_gen_byte_bits.
  set (p1 := fst (gen_bits 192 p)) in *. set (tail := snd (gen_bits 5 p1)).
  destruct (pack5_ok tail (gen_bits_length S gen 5 p1)) as [T1 T2]. cbv zeta in T1, T2.
  set (last := u8 (N.shiftl (fold_left acc_byte tail 0) bert_tail_shift)) in *.
  rewrite firstn_app, firstn_all2 by lia. replace (24 - length bytes)%nat with 0%nat by lia. cbn [firstn]. rewrite app_nil_r.
  rewrite app_nth2 by lia. replace (24 - length bytes)%nat with 0%nat by lia. cbn [nth].
  destruct tx_sites_ok as [_ [_ [-> [_ [_ [-> [-> ->]]]]]]]. cbn [nth].
  pose proof (conv_bert bytes last Al T2) as C.
  destruct (conv_bytes POLYS 4 8 0 bytes) as [m1 e1]. destruct (conv_byte POLYS 4 5 m1 last) as [m2 e2].
  destruct (conv_flush POLYS 4 4 m2) as [m3 e3]. rewrite C, T1, B.
  replace 197%nat with (192 + 5)%nat by reflexivity. rewrite gen_bits_add. cbn [fst snd]. fold p1. fold tail.
  f_equal. destruct matrices_ok as [_ [_ [_ [_ [_ ->]]]]].
  apply (puncture_truncating 402 368); [exact (proj1 (proj2 P_lengths)) | | rewrite (proj1 (proj2 (proj2 kept_values))); lia].
  rewrite spec_conv_length, app_length. subst tail. rewrite !gen_bits_length. reflexivity. Qed.

Lemma bert_iteration_ok p :
  bert_iteration uninit S gen p =
  (fst (gen_bits 197 p), [OutFrame SpecM17.sync_bert (spec_bert_frame (snd (gen_bits 197 p)))]).
Proof. unfold bert_iteration. rewrite make_bert_frame_ok. unfold spec_bert_frame.
  rewrite finish_ok; [reflexivity|].
  rewrite firstn_length. unfold spec_puncture. rewrite puncture_from_length, spec_conv_length, gen_bits_length.
  change (2 * (197 + 4))%nat with 402%nat. rewrite (proj1 (proj2 (proj2 kept_values))). reflexivity. Qed.
End Bert2.
