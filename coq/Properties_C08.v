(** C08 — the frame decoder follows its documented state machine and has no hidden state.
    Model: ImplFrameDecoder.v instantiated in FrameDecoderInst.v; specification: SpecFrames.v (the state machine
    of the header's documentation and of the property text, without buffers).  Only property theorems here. *)
From Coq Require Import NArith ZArith List Bool.
From M17 Require Import Bits ImplCRC ConstsCrc ImplFrameDecoder SpecFrames FrameDecoderInst ImplViterbi SpecConv
  LemmasFD_Hidden LemmasFD_Refine LemmasFD_Inst LemmasFD_Consts LemmasFD_Examples LemmasFD_C08 Properties_C02.
Import ListNotations.

(** 1. No hidden state, one call: two decoders in the same visible state (mode, LICH bitmap, LSF assembly buffer)
       produce the same observation - mode, return code, viterbi_cost, callbacks (type, selected bytes, cost) - for the
       same frame, whatever their de-puncture buffer, decode buffer, output union and Viterbi scratch contain;
       and they are again in the same visible state afterwards. *)
Theorem c08_no_hidden_state : forall (s s' : fd_state) (sw : sync) (fr : list Z) (r : bool),
  fd_same_visible s s' -> fd_hid_ok s -> fd_hid_ok s' ->
  fd_observe (fd_step s sw fr r) = fd_observe (fd_step s' sw fr r) /\
  fd_same_visible (fd_st_of (fd_step s sw fr r)) (fd_st_of (fd_step s' sw fr r)) /\
  fd_hid_ok (fd_st_of (fd_step s sw fr r)) /\ fd_hid_ok (fd_st_of (fd_step s' sw fr r)).
Proof. exact fd_step_hidden_indep. Qed.
Print Assumptions c08_no_hidden_state.

(** ... and every history: the whole observation sequence is the same *)
Theorem c08_no_hidden_state_history : forall (h : list (sync * list Z * bool)) (s s' : fd_state),
  fd_same_visible s s' -> fd_hid_ok s -> fd_hid_ok s' -> fst (fd_run s h) = fst (fd_run s' h).
Proof. exact fd_run_hidden_indep. Qed.
Print Assumptions c08_no_hidden_state_history.

(** 2. Refinement: for every history, from every state with any buffer contents, the observations are exactly those of the
       documented state machine run on (mode, LICH bitmap, LSF buffer), whose payload decoder is the pipeline on clean buffers *)
Theorem c08_decoder_refines_sm : forall (h : list (sync * list Z * bool)) (s : fd_state),
  fd_hid_ok s -> fst (fd_run s h) = sm_run_fd (fd_abs s) h.
Proof. exact fd_run_refines_sm. Qed.
Print Assumptions c08_decoder_refines_sm.

Theorem c08_step_refines_sm : forall (s : fd_state) (sw : sync) (fr : list Z) (r : bool), fd_hid_ok s ->
  fd_observe (fd_step s sw fr r) = sm_observe (sm_step_fd (fd_abs s) sw fr r) /\
  fd_abs (fd_st_of (fd_step s sw fr r)) = fst (fst (fst (sm_step_fd (fd_abs s) sw fr r))) /\
  fd_hid_ok (fd_st_of (fd_step s sw fr r)).
Proof. exact fd_step_refines_sm. Qed.
Print Assumptions c08_step_refines_sm.

(** 3. The state machine's payload decoder IS the specification decoder: de-puncture with erasures (C11), then a
       maximum-likelihood decode (C02): its bits are the first OUT bits of a distance-minimising input word and its cost the
       rounded minimum distance - for every soft frame in int8 range. *)
Theorem c08_sm_decoder_is_ml : forall (g : geometry) (inp : list Z),
  length inp = g_rx g -> Forall (fun x => (-128 <= x <= 127)%Z) inp ->
  let r := fd_depuncture g inp (repeat 0%Z (g_in g)) in
  let L := soft_limit W_dec in
  exists w : list bool, length w = (g_in g / 2)%nat /\ fst (sm_dec g inp) = firstn (g_out g) w /\
    (forall w', length w' = (g_in g / 2)%nat -> (dist L r (conv w) <= dist L r (conv w'))%Z) /\
    snd (sm_dec g inp) = ((2 * dist L r (conv w) + L) / (2 * L))%Z.
Proof. exact sm_decoder_is_ml. Qed.
Print Assumptions c08_sm_decoder_is_ml.

(** 4. The transitions of the documented state machine, read off SpecFrames.sm_step (each by computation on the definition):
       LSF sync always restarts link setup; BERT sync always decodes BERT; a sync type not valid in the current mode
       drops back to link setup and fails without a callback. *)
Theorem c08_sm_transitions : forall (s : sm_state) (fr : list Z) (r : bool),
  (* stream sync outside link-setup/stream mode, packet sync outside packet mode *)
  (In (sm_mode s) [MBasic; MFull; MBert] -> sm_observe (sm_step_fd s SStream fr r) = (MLsf, RFail, None, [])) /\
  (In (sm_mode s) [MLsf; MStream; MBert] -> sm_observe (sm_step_fd s SPacket fr r) = (MLsf, RFail, None, [])) /\
  (* BERT sync: mode BERT, OK, exactly one BERT callback *)
  (exists cb, sm_observe (sm_step_fd s SBert fr r) = (MBert, ROk, Some (cb_cost cb), [cb]) /\ cb_type cb = FBert) /\
  (* LSF sync: the outcome does not depend on the mode the decoder was in *)
  (forall m, sm_observe (sm_step_fd s SLsf fr r) = sm_observe (sm_step_fd (mksm m (sm_seg s) (sm_lsf s)) SLsf fr r)) /\
  (* stream frames in stream mode are payload-decoded: OK, stay in stream mode, one STREAM callback *)
  (sm_mode s = MStream -> exists cb, sm_observe (sm_step_fd s SStream fr r) = (MStream, ROk, Some (cb_cost cb), [cb]) /\ cb_type cb = FStream) /\
  (* packet frames in packet mode: one callback of the mode's type; the EOF bit ends the packet with the callback's verdict *)
  (In (sm_mode s) [MBasic; MFull] -> exists cb, snd (sm_observe (sm_step_fd s SPacket fr r)) = [cb] /\
       cb_type cb = (match sm_mode s with MBasic => FBasic | _ => FFull end) /\
       (if negb (N.eqb (N.land (nth 25 (cb_bytes cb) 0%N) 128) 0)
        then fst (fst (sm_observe (sm_step_fd s SPacket fr r))) = (MLsf, if r then ROk else RFail)
        else fst (fst (sm_observe (sm_step_fd s SPacket fr r))) = (sm_mode s, RPacketIncomplete))).
Proof. exact sm_transitions. Qed.
Print Assumptions c08_sm_transitions.

(** LSF TYPE dispatch: voice stream -> STREAM; packet RAW -> BASIC; packet other -> FULL; stream without the voice bit -> stays *)
Theorem c08_type_dispatch : forall (m : mode) (bits : list bool),
  update_state m bits =
    if nth 111 bits false then (if nth 109 bits false then MStream else m)
    else if andb (negb (nth 109 bits false)) (nth 110 bits false) then MBasic else MFull.
Proof. exact type_dispatch. Qed.
Print Assumptions c08_type_dispatch.

Theorem c08_decoder_constants : fd_consts_statement.
Proof. exact fd_consts_ok. Qed.
Print Assumptions c08_decoder_constants.

(** non-vacuity: fd_init satisfies the well-formedness hypothesis; a dirtied decoder differs from it only in hidden parts *)
Example c08_init_ok : fd_hid_ok fd_init.
Proof. exact fd_init_ok. Qed.
Example c08_example_reassembly : fd_example_reassembly_ok = true.
Proof. vm_compute. reflexivity. Qed.
