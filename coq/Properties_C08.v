(** C08 — the frame decoder follows its documented state machine and has no hidden state.
    Model: ImplFrameDecoder.v instantiated in FrameDecoderInst.v; specification: SpecFrames.v (the state machine
    of the header's documentation and of the property text, without buffers).  Only property theorems here. *)
From Coq Require Import NArith ZArith List Bool.
From M17 Require Import Bits ImplCRC ConstsCrc ImplFrameDecoder SpecFrames FrameDecoderInst ImplViterbi SpecConv
  LemmasFD_Hidden LemmasFD_Refine LemmasFD_Inst LemmasFD_Consts LemmasFD_Examples LemmasFD_C08 LemmasFD_Since
  LemmasFD_SinceInst Properties_C02.
Import ListNotations.

(** 1. No hidden state, one call: two decoders in the same visible state (mode, LICH bitmap, LSF assembly buffer)
       produce the same observation - mode, return code, viterbi_cost, callbacks (type, selected bytes, cost) - for the
       same frame, whatever their de-puncture buffer, decode buffer, output union and Viterbi scratch contain;
       and they are again in the same visible state afterwards. *)
Theorem c08_no_hidden_state : forall (s s' : fd_state) (sw : sync) (fr : list Z) (r : bool),
  fd_same_visible s s' -> fd_hid_ok s -> fd_hid_ok s' ->
  fd_observe (fd_step s sw fr r) = fd_observe (fd_step s' sw fr r) /\
  fd_same_visible (fd_st_of (fd_step s sw fr r)) (fd_st_of (fd_step s' sw fr r)) /\
  fd_hid_ok (fd_st_of (fd_step s sw fr r)) /\ fd_hid_ok (fd_st_of (fd_step s' sw fr r)).
Proof. exact fd_step_hidden_indep. Qed.
Print Assumptions c08_no_hidden_state.

(** ... and every history: the whole observation sequence is the same *)
Theorem c08_no_hidden_state_history : forall (h : list (sync * list Z * bool)) (s s' : fd_state),
  fd_same_visible s s' -> fd_hid_ok s -> fd_hid_ok s' -> fst (fd_run s h) = fst (fd_run s' h).
Proof. exact fd_run_hidden_indep. Qed.
Print Assumptions c08_no_hidden_state_history.

(** 2. Refinement: for every history, from every state with any buffer contents, the observations are exactly those of the
       documented state machine run on (mode, LICH bitmap, LSF buffer), whose payload decoder is the pipeline on clean buffers *)
Theorem c08_decoder_refines_sm : forall (h : list (sync * list Z * bool)) (s : fd_state),
  fd_hid_ok s -> fst (fd_run s h) = sm_run_fd (fd_abs s) h.
Proof. exact fd_run_refines_sm. Qed.
Print Assumptions c08_decoder_refines_sm.

Theorem c08_step_refines_sm : forall (s : fd_state) (sw : sync) (fr : list Z) (r : bool), fd_hid_ok s ->
  fd_observe (fd_step s sw fr r) = sm_observe (sm_step_fd (fd_abs s) sw fr r) /\
  fd_abs (fd_st_of (fd_step s sw fr r)) = fst (fst (fst (sm_step_fd (fd_abs s) sw fr r))) /\
  fd_hid_ok (fd_st_of (fd_step s sw fr r)).
Proof. exact fd_step_refines_sm. Qed.
Print Assumptions c08_step_refines_sm.

(** 3. The state machine's payload decoder IS the specification decoder: de-puncture with erasures (C11), then a
       maximum-likelihood decode (C02): its bits are the first OUT bits of a distance-minimising input word and its cost the
       rounded minimum distance - for every soft frame in int8 range. *)
Theorem c08_sm_decoder_is_ml : forall (g : geometry) (inp : list Z),
  length inp = g_rx g -> Forall (fun x => (-128 <= x <= 127)%Z) inp ->
  let r := fd_depuncture g inp (repeat 0%Z (g_in g)) in
  let L := soft_limit W_dec in
  exists w : list bool, length w = (g_in g / 2)%nat /\ fst (sm_dec g inp) = firstn (g_out g) w /\
    (forall w', length w' = (g_in g / 2)%nat -> (dist L r (conv w) <= dist L r (conv w'))%Z) /\
    snd (sm_dec g inp) = ((2 * dist L r (conv w) + L) / (2 * L))%Z.
Proof. exact sm_decoder_is_ml. Qed.
Print Assumptions c08_sm_decoder_is_ml.

(** 4. The transitions of the documented state machine, read off SpecFrames.sm_step (each by computation on the definition):
       LSF sync always restarts link setup; BERT sync always decodes BERT; a sync type not valid in the current mode
       drops back to link setup and fails without a callback. *)
Theorem c08_sm_transitions : forall (s : sm_state) (fr : list Z) (r : bool),
  (* stream sync outside link-setup/stream mode, packet sync outside packet mode *)
  (In (sm_mode s) [MBasic; MFull; MBert] -> sm_observe (sm_step_fd s SStream fr r) = (MLsf, RFail, None, [])) /\
  (In (sm_mode s) [MLsf; MStream; MBert] -> sm_observe (sm_step_fd s SPacket fr r) = (MLsf, RFail, None, [])) /\
  (* BERT sync: mode BERT, OK, exactly one BERT callback *)
  (exists cb, sm_observe (sm_step_fd s SBert fr r) = (MBert, ROk, Some (cb_cost cb), [cb]) /\ cb_type cb = FBert) /\
  (* LSF sync: the outcome does not depend on the mode the decoder was in *)
  (forall m, sm_observe (sm_step_fd s SLsf fr r) = sm_observe (sm_step_fd (mksm m (sm_seg s) (sm_lsf s)) SLsf fr r)) /\
  (* stream frames in stream mode are payload-decoded: OK, stay in stream mode, one STREAM callback *)
  (sm_mode s = MStream -> exists cb, sm_observe (sm_step_fd s SStream fr r) = (MStream, ROk, Some (cb_cost cb), [cb]) /\ cb_type cb = FStream) /\
  (* packet frames in packet mode: one callback of the mode's type; the EOF bit ends the packet with the callback's verdict *)
  (In (sm_mode s) [MBasic; MFull] -> exists cb, snd (sm_observe (sm_step_fd s SPacket fr r)) = [cb] /\
       cb_type cb = (match sm_mode s with MBasic => FBasic | _ => FFull end) /\
       (if negb (N.eqb (N.land (nth 25 (cb_bytes cb) 0%N) 128) 0)
        then fst (fst (sm_observe (sm_step_fd s SPacket fr r))) = (MLsf, if r then ROk else RFail)
        else fst (fst (sm_observe (sm_step_fd s SPacket fr r))) = (sm_mode s, RPacketIncomplete))).
Proof. exact sm_transitions. Qed.
Print Assumptions c08_sm_transitions.

(** LSF TYPE dispatch: voice stream -> STREAM; packet RAW -> BASIC; packet other -> FULL; stream without the voice bit -> stays *)
Theorem c08_type_dispatch : forall (m : mode) (bits : list bool),
  update_state m bits =
    if nth 111 bits false then (if nth 109 bits false then MStream else m)
    else if andb (negb (nth 109 bits false)) (nth 110 bits false) then MBasic else MFull.
Proof. exact type_dispatch. Qed.
Print Assumptions c08_type_dispatch.

Theorem c08_decoder_constants : fd_consts_statement.
Proof. exact fd_consts_ok. Qed.
Print Assumptions c08_decoder_constants.

(** 5. History-level statements, for every history from every decoder state with any buffer contents
       ([fd_at P h s i]: the i-th input of h and the i-th observation of the decoder started in s satisfy P).

       "Packet frames are accepted only after a packet-type LSF": if call k delivers a BASIC/FULL packet callback (on a
       packet-sync frame), then either the decoder was in a packet mode at the start and every earlier call was a packet
       frame without the EOF bit, or some earlier call j was an LSF-sync frame that decoded CRC-valid with a packet TYPE
       (TYPE bit 0 clear, exactly one LSF callback, mode BASIC/FULL afterwards) and every call between j and k was a packet
       frame without the EOF bit (PACKET_INCOMPLETE, one packet callback). *)
Theorem c08_packet_only_after_packet_lsf : forall (h : list input) (s : fd_state) (k : nat), fd_hid_ok s ->
  fd_at packet_emit h s k ->
  (is_packet_mode (sm_mode (fd_abs s)) = true /\ forall i, i < k -> fd_at packet_cont h s i) \/
  (exists j, j < k /\ fd_at (packet_arm spec_crc_ok) h s j /\ forall i, j < i < k -> fd_at packet_cont h s i).
Proof. exact fd_packet_only_after_packet_lsf. Qed.
Print Assumptions c08_packet_only_after_packet_lsf.

(** "Stream frames are payload-decoded once the decoder is in stream mode (entered by a voice-stream LSF or a completed LICH
       reassembly)": a STREAM callback at call k implies stream mode at the start with only decoded stream frames before, or an
       earlier call j that entered stream mode - an LSF-sync frame, CRC-valid, TYPE bits stream+voice, or a stream-sync frame
       completing a CRC-valid reassembly (LICH and LSF callbacks, cost 0) - with only decoded stream frames in between. *)
Theorem c08_stream_only_after_link_setup : forall (h : list input) (s : fd_state) (k : nat), fd_hid_ok s ->
  fd_at stream_emit h s k ->
  (sm_mode (fd_abs s) = MStream /\ forall i, i < k -> fd_at stream_cont h s i) \/
  (exists j, j < k /\ fd_at (stream_arm spec_crc_ok) h s j /\ forall i, j < i < k -> fd_at stream_cont h s i).
Proof. exact fd_stream_only_after_link_setup. Qed.
Print Assumptions c08_stream_only_after_link_setup.

(** Position-wise rules in every history: BERT sync always decodes BERT (mode BERT, OK, one BERT callback whose cost is the
       reported cost); LSF sync gives OK with exactly one LSF callback, or FAIL in link-setup mode with none; the cost
       out-parameter is left unassigned only when a stream/packet sync is not valid in the current mode, and then the call
       fails, makes no callback and leaves the decoder in link-setup mode. *)
Theorem c08_history_sync_rules : forall (h : list input) (s : fd_state) (k : nat) (x : input) (o : obs), fd_hid_ok s ->
  nth_error h k = Some x -> nth_error (fst (fd_run s h)) k = Some o ->
  (i_sync x = SBert -> o_mode o = MBert /\ o_res o = ROk /\
                       exists cb, o_cbs o = [cb] /\ cb_type cb = FBert /\ o_cost o = Some (cb_cost cb)) /\
  (i_sync x = SLsf -> (o_res o = ROk /\ exists cb, o_cbs o = [cb] /\ cb_type cb = FLsf) \/
                      (o_res o = RFail /\ o_mode o = MLsf /\ o_cbs o = [])) /\
  (o_cost o = None -> o_mode o = MLsf /\ o_res o = RFail /\ o_cbs o = [] /\ (i_sync x = SStream \/ i_sync x = SPacket)).
Proof. exact fd_history_sync_rules. Qed.
Print Assumptions c08_history_sync_rules.

(** every LSF callback in every history carries bytes whose M17 CRC is zero *)
Theorem c08_lsf_callbacks_crc_valid : forall (h : list input) (s : fd_state) (k : nat) (o : obs) (cb : callback), fd_hid_ok s ->
  nth_error (fst (fd_run s h)) k = Some o -> In cb (o_cbs o) -> cb_type cb = FLsf -> N.eqb (crc30 (cb_bytes cb)) 0 = true.
Proof. exact fd_lsf_callbacks_crc_valid'. Qed.
Print Assumptions c08_lsf_callbacks_crc_valid.

(** non-vacuity: fd_init satisfies the well-formedness hypothesis; a dirtied decoder differs from it only in hidden parts *)
Example c08_init_ok : fd_hid_ok fd_init.
Proof. exact fd_init_ok. Qed.
Example c08_example_reassembly : fd_example_reassembly_ok = true.
Proof. vm_compute. reflexivity. Qed.

(* a packet transmission decoded by the model: packet-type LSF, a packet frame, the last packet frame (EOF) *)
Example c08_example_packet_history : fd_example_packet_ok = true.
Proof. vm_compute. reflexivity. Qed.
(* ... in which the hypothesis of c08_packet_only_after_packet_lsf holds at k = 2 *)
Example c08_packet_emit_instance : fd_at packet_emit ex_packet_history fd_init 2.
Proof. apply (at_of_bool packet_emit packet_emit_b packet_emit_b_ok). vm_compute. reflexivity. Qed.
