(** Exact integer computations on the regenerated RRC tables (ConstsTaps) and DSP constants (ConstsDsp):
    boolean checkers, their soundness with respect to the Prop statements of SpecDSP, and the sweeps. *)
From Coq Require Import Arith ZArith NArith List Lia Bool.
From M17 Require Import SpecDSP ConstsTaps ConstsDsp.
Import ListNotations.
Local Open Scope Z_scope.

(** ** checkers *)
Definition symmetric_about_b (p : nat) (t : list Z) : bool :=
  (2 * p <? length t)%nat && (0 <? nth p t 0) &&
  forallb (fun i => (if (i <=? 2 * p)%nat then nth i t 0 =? nth (2 * p - i) t 0 else nth i t 0 =? 0) &&
                    (if (i =? p)%nat then true else nth i t 0 <? nth p t 0)) (seq 0 (length t)).

Lemma symmetric_about_b_spec p t : symmetric_about_b p t = true -> symmetric_about p t.
Proof.
  unfold symmetric_about_b. rewrite !andb_true_iff. intros [[L P] F].
  apply Nat.ltb_lt in L. apply Z.ltb_lt in P. rewrite forallb_forall in F.
  assert (G : forall i, (i < length t)%nat ->
     (if (i <=? 2 * p)%nat then nth i t 0 =? nth (2 * p - i) t 0 else nth i t 0 =? 0) = true /\
     (if (i =? p)%nat then true else nth i t 0 <? nth p t 0) = true).
  { intros i Hi. apply andb_true_iff, F, in_seq. lia. }
  split; [lia|]. split; [|split].
  - intros i Hi. destruct (G i) as [A _]; [lia|].
    destruct (Nat.leb_spec i (2 * p)); [|lia]. apply Z.eqb_eq. exact A.
  - intros i Hi. destruct (Nat.lt_ge_cases i (length t)).
    + destruct (G i) as [A _]; [lia|]. destruct (Nat.leb_spec i (2 * p)); [lia|]. apply Z.eqb_eq. exact A.
    + apply nth_overflow. lia.
  - intros i Hi. destruct (Nat.lt_ge_cases i (length t)).
    + destruct (G i) as [_ B]; [lia|]. destruct (Nat.eqb_spec i p); [lia|]. apply Z.ltb_lt. exact B.
    + rewrite (nth_overflow t) by lia. exact P.
Qed.

Definition nyquist_b (sps p : nat) (c : list Z) : bool :=
  (p <? length c)%nat && (0 <? nth p c 0) &&
  forallb (fun i => (nth i c 0 <=? nth p c 0) &&
                    (if ((i mod sps =? p mod sps)%nat && negb (i =? p)%nat)%bool
                     then 1000 * Z.abs (nth i c 0) <? 5 * nth p c 0 else true)) (seq 0 (length c)) &&
  (100 * side_sum sps p c <? 2 * nth p c 0).

Lemma nyquist_b_spec sps p c : nyquist_b sps p c = true -> nyquist_holds sps p c.
Proof.
  unfold nyquist_b. rewrite !andb_true_iff. intros [[[L P] F] S].
  apply Nat.ltb_lt in L. apply Z.ltb_lt in P. apply Z.ltb_lt in S. rewrite forallb_forall in F.
  split; [exact L|]. split; [exact P|]. split; [|split; [|exact S]].
  - intros i Hi. assert (I : In i (seq 0 (length c))) by (apply in_seq; lia).
    apply F, andb_true_iff in I. apply Z.leb_le, I.
  - intros i Hi Np Hm. assert (I : In i (seq 0 (length c))) by (apply in_seq; lia).
    apply F, andb_true_iff in I. destruct I as [_ I].
    rewrite Hm, Nat.eqb_refl in I. destruct (Nat.eqb_spec i p); [contradiction|]. apply Z.ltb_lt, I.
Qed.

(** two tables denote the same rationals *)
Definition same_table (e1 : N) (t1 : list Z) (e2 : N) (t2 : list Z) : Prop :=
  length t1 = length t2 /\ forall i, (i < length t1)%nat -> same_dyadic e1 (nth i t1 0) e2 (nth i t2 0).
(** every entry of t1 is within relative error 2^-k of the entry of t2 *)
Definition close_table (k : Z) (e1 : N) (t1 : list Z) (e2 : N) (t2 : list Z) : Prop :=
  length t1 = length t2 /\ forall i, (i < length t1)%nat -> within_rel k e1 (nth i t1 0) e2 (nth i t2 0).

Definition same_table_b (e1 : N) (t1 : list Z) (e2 : N) (t2 : list Z) : bool :=
  (length t1 =? length t2)%nat &&
  forallb (fun i => nth i t1 0 * 2 ^ Z.of_N e2 =? nth i t2 0 * 2 ^ Z.of_N e1) (seq 0 (length t1)).
Definition close_table_b (k : Z) (e1 : N) (t1 : list Z) (e2 : N) (t2 : list Z) : bool :=
  (length t1 =? length t2)%nat &&
  forallb (fun i => Z.abs (nth i t1 0 * 2 ^ Z.of_N e2 - nth i t2 0 * 2 ^ Z.of_N e1) * 2 ^ k <=?
                    Z.abs (nth i t2 0 * 2 ^ Z.of_N e1)) (seq 0 (length t1)).

Lemma same_table_b_spec e1 t1 e2 t2 : same_table_b e1 t1 e2 t2 = true -> same_table e1 t1 e2 t2.
Proof.
  unfold same_table_b. rewrite andb_true_iff, forallb_forall. intros [L F]. apply Nat.eqb_eq in L.
  split; [exact L|]. intros i Hi. apply Z.eqb_eq, F, in_seq. lia.
Qed.

Lemma close_table_b_spec k e1 t1 e2 t2 : close_table_b k e1 t1 e2 t2 = true -> close_table k e1 t1 e2 t2.
Proof.
  unfold close_table_b. rewrite andb_true_iff, forallb_forall. intros [L F]. apply Nat.eqb_eq in L.
  split; [exact L|]. intros i Hi. apply Z.leb_le, F, in_seq. lia.
Qed.

(** ** the tables of the repository (regenerated on every run) *)
(* peak positions: (149-1)/2 for the 150-entry tables (149 symmetric taps and a trailing 0), (79-1)/2 *)
Definition peak150 : nat := 74.
Definition peak79 : nat := 39.

Lemma sizes : length rx_double_mant = rx_double_size /\ length rx_float_mant = rx_float_size /\
              length tx_mod_mant = tx_mod_size /\ length tx_modulator_mant = tx_modulator_size /\
              rx_double_size = 150%nat /\ rx_float_size = 150%nat /\ tx_mod_size = 150%nat /\ tx_modulator_size = 79%nat.
Proof. vm_compute. repeat split. Qed.

Lemma sym_rx_double : symmetric_about peak150 rx_double_mant.
Proof. apply symmetric_about_b_spec. vm_compute. reflexivity. Qed.
Lemma sym_rx_float : symmetric_about peak150 rx_float_mant.
Proof. apply symmetric_about_b_spec. vm_compute. reflexivity. Qed.
Lemma sym_tx_mod : symmetric_about peak150 tx_mod_mant.
Proof. apply symmetric_about_b_spec. vm_compute. reflexivity. Qed.
Lemma sym_tx_modulator : symmetric_about peak79 tx_modulator_mant.
Proof. apply symmetric_about_b_spec. vm_compute. reflexivity. Qed.

Lemma sps_is_10 : samples_per_symbol = 10%nat.
Proof. vm_compute. reflexivity. Qed.

Lemma nyq_mod_double : nyquist_holds samples_per_symbol (peak150 + peak150) (zconvolve tx_mod_mant rx_double_mant).
Proof. apply nyquist_b_spec. vm_compute. reflexivity. Qed.
Lemma nyq_mod_float : nyquist_holds samples_per_symbol (peak150 + peak150) (zconvolve tx_mod_mant rx_float_mant).
Proof. apply nyquist_b_spec. vm_compute. reflexivity. Qed.
Lemma nyq_modulator_double : nyquist_holds samples_per_symbol (peak79 + peak150) (zconvolve tx_modulator_mant rx_double_mant).
Proof. apply nyquist_b_spec. vm_compute. reflexivity. Qed.
Lemma nyq_modulator_float : nyquist_holds samples_per_symbol (peak79 + peak150) (zconvolve tx_modulator_mant rx_float_mant).
Proof. apply nyquist_b_spec. vm_compute. reflexivity. Qed.

Lemma tx_mod_is_rx_double : same_table tx_mod_exp tx_mod_mant rx_double_exp rx_double_mant.
Proof. apply same_table_b_spec. vm_compute. reflexivity. Qed.
Lemma rx_float_close_to_double : close_table 24 rx_float_exp rx_float_mant rx_double_exp rx_double_mant.
Proof. apply close_table_b_spec. vm_compute. reflexivity. Qed.
Lemma tx_modulator_is_centre :
  same_table tx_modulator_exp tx_modulator_mant rx_double_exp (firstn 79 (skipn (peak150 - peak79) rx_double_mant)).
Proof. apply same_table_b_spec. vm_compute. reflexivity. Qed.

(** ** data-carrier-detect DFT configuration: every configured frequency is an exact bin of the N-point DFT *)
Local Open Scope N_scope.
Definition dcd_config_ok : Prop :=
  dcd_N * dcd_accuracy = dcd_sample_rate /\ 0 < dcd_N /\ length dcd_freqs = dcd_bins /\
  Forall (fun f => (dcd_N * f) mod dcd_sample_rate = 0 /\ 2 * f < dcd_sample_rate) dcd_freqs.
Lemma dcd_config : dcd_config_ok.
Proof. unfold dcd_config_ok. vm_compute. repeat split; repeat constructor. Qed.
Lemma dcd_numbers : dcd_N = 120 /\ dcd_sample_rate = 48000 /\ dcd_freqs = [2400; 3600].
Proof. vm_compute. repeat split. Qed.

(** ** IIR coefficient arrays: three taps each, a_0 = 1 exactly *)
Local Open Scope Z_scope.
Definition iir_normalised (eb : N) (b : list Z) (ea : N) (a : list Z) : Prop :=
  length b = 3%nat /\ length a = 3%nat /\ same_dyadic ea (nth 0 a 0) 0 1.
Lemma iir_consts :
  iir_normalised corr_b_double_exp corr_b_double_mant corr_a_double_exp corr_a_double_mant /\
  iir_normalised corr_b_float_exp corr_b_float_mant corr_a_float_exp corr_a_float_mant /\
  iir_normalised evm_b_exp evm_b_mant evm_a_exp evm_a_mant.
Proof. vm_compute. repeat split. Qed.
