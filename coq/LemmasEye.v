(** C03 "eye_open": with the repository's transmit and receive RRC tables, the matched-filter output at the ideal
    sampling instant, normalised by the cascade's main tap, is within 0.06 of the transmitted 4-FSK level for EVERY
    symbol sequence - so it lies on the transmitted level's side of every decision boundary (0, +-2) with margin 0.94.
    Exact integer arithmetic on the tables' mantissas (common scale), uses the Nyquist theorem of C19. *)
From Coq Require Import ZArith List Bool Lia Arith.
From M17 Require Import SpecDSP ConstsTaps LemmasDSP_Taps.
Import ListNotations.
Local Open Scope Z_scope.

(** symbol-spaced taps of the cascade c around its peak p: index i contributes the symbol [a i] (an arbitrary
    function: any past/future symbol sequence); the current symbol s sits on the main tap *)
Definition is_side (sps p i : nat) : bool := ((i mod sps =? p mod sps)%nat && negb (i =? p)%nat)%bool.

Definition isi (sps p : nat) (c : list Z) (a : nat -> Z) : Z :=
  fold_right Z.add 0 (map (fun i => if is_side sps p i then nth i c 0 * a i else 0) (seq 0 (length c))).

(** sample at the ideal instant: main tap times the current symbol plus inter-symbol interference *)
Definition eye_sample (sps p : nat) (c : list Z) (s : Z) (a : nat -> Z) : Z := nth p c 0 * s + isi sps p c a.

Lemma isi_bound_gen (sps p : nat) (c : list Z) (a : nat -> Z) : (forall i, Z.abs (a i) <= 3) ->
  forall l, Z.abs (fold_right Z.add 0 (map (fun i => if is_side sps p i then nth i c 0 * a i else 0) l))
            <= 3 * fold_right Z.add 0 (map (fun i => if is_side sps p i then Z.abs (nth i c 0) else 0) l).
Proof. intros Ha. induction l as [|i l IH]; [cbn; lia|]. cbn [map fold_right].
  set (X := fold_right Z.add 0 (map (fun i => if is_side sps p i then nth i c 0 * a i else 0) l)) in *.
  set (Y := fold_right Z.add 0 (map (fun i => if is_side sps p i then Z.abs (nth i c 0) else 0) l)) in *.
  destruct (is_side sps p i).
  - pose proof (Ha i) as Hi. pose proof (Z.abs_triangle (nth i c 0 * a i) X) as T.
    rewrite Z.abs_mul in T. pose proof (Z.abs_nonneg (nth i c 0)) as N0. nia.
  - lia. Qed.

Lemma isi_bound sps p c a : (forall i, Z.abs (a i) <= 3) -> Z.abs (isi sps p c a) <= 3 * side_sum sps p c.
Proof. intros Ha. unfold isi, side_sum. apply (isi_bound_gen sps p c a Ha). Qed.

(** the eye: |sample - main*s| * 100 < 6 * main, i.e. normalised error < 0.06, for every symbol sequence *)
Theorem eye_open_gen sps p c : nyquist_holds sps p c ->
  forall (s : Z) (a : nat -> Z), (forall i, Z.abs (a i) <= 3) ->
  100 * Z.abs (eye_sample sps p c s a - nth p c 0 * s) < 6 * nth p c 0.
Proof. unfold nyquist_holds. intros (_ & Hpos & _ & _ & Hsum) s a Ha. unfold eye_sample.
  replace (nth p c 0 * s + isi sps p c a - nth p c 0 * s) with (isi sps p c a) by ring.
  pose proof (isi_bound sps p c a Ha). lia. Qed.

(** decision regions: the normalised sample is on the transmitted level's side of 0 and +-2 with margin 0.94 *)
Theorem eye_decision_gen sps p c : nyquist_holds sps p c ->
  forall (s : Z) (a : nat -> Z), In s [3; 1; -1; -3] -> (forall i, Z.abs (a i) <= 3) ->
  let y := eye_sample sps p c s a in let m := nth p c 0 in
  (s = 3 -> 100 * y > 294 * m) /\ (s = 1 -> 6 * m < 100 * y < 106 * m) /\
  (s = -1 -> - 106 * m < 100 * y < - 6 * m) /\ (s = -3 -> 100 * y < - 294 * m).
Proof. intros H s a Hs Ha y m. pose proof (eye_open_gen sps p c H s a Ha) as E. fold y m in E.
  unfold nyquist_holds in H. destruct H as (_ & Hpos & _). fold m in Hpos.
  (split; [|split; [|split]]); intros ->; lia. Qed.

(** the four TX x RX pairs of the repository *)
Definition casc_mod_double := zconvolve tx_mod_mant rx_double_mant.
Definition casc_mod_float := zconvolve tx_mod_mant rx_float_mant.
Definition casc_modulator_double := zconvolve tx_modulator_mant rx_double_mant.
Definition casc_modulator_float := zconvolve tx_modulator_mant rx_float_mant.

Theorem eye_open_repo :
  forall (s : Z) (a : nat -> Z), (forall i, Z.abs (a i) <= 3) ->
  100 * Z.abs (eye_sample samples_per_symbol (74 + 74) casc_mod_double s a - nth (74 + 74) casc_mod_double 0 * s) < 6 * nth (74 + 74) casc_mod_double 0 /\
  100 * Z.abs (eye_sample samples_per_symbol (74 + 74) casc_mod_float s a - nth (74 + 74) casc_mod_float 0 * s) < 6 * nth (74 + 74) casc_mod_float 0 /\
  100 * Z.abs (eye_sample samples_per_symbol (39 + 74) casc_modulator_double s a - nth (39 + 74) casc_modulator_double 0 * s) < 6 * nth (39 + 74) casc_modulator_double 0 /\
  100 * Z.abs (eye_sample samples_per_symbol (39 + 74) casc_modulator_float s a - nth (39 + 74) casc_modulator_float 0 * s) < 6 * nth (39 + 74) casc_modulator_float 0.
Proof. intros s a Ha. repeat split.
  - exact (eye_open_gen _ _ _ nyq_mod_double s a Ha).
  - exact (eye_open_gen _ _ _ nyq_mod_float s a Ha).
  - exact (eye_open_gen _ _ _ nyq_modulator_double s a Ha).
  - exact (eye_open_gen _ _ _ nyq_modulator_float s a Ha).
Qed.
