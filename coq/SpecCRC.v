(** The M17 CRC-16 written from the specification: Rocksoft-model direct algorithm,
    width 16, MSB first, no reflection, no final xor.  Independent of the C++. *)
From Coq Require Import NArith List Bool.
From M17 Require Import Bits.
Import ListNotations.
Local Open Scope N_scope.

Definition m17_poly : N := 0x5935.
Definition m17_init : N := 0xFFFF.

Definition direct_bit (poly reg : N) (b : bool) : N :=
  let top := xorb (N.testbit reg 15) b in
  let r := N.land (N.shiftl reg 1) 0xFFFF in
  if top then N.lxor r poly else r.

Definition direct_bits (poly : N) (reg : N) (bits : list bool) : N := fold_left (direct_bit poly) bits reg.

Definition crc_direct (poly init : N) (bytes : list N) : N := direct_bits poly init (bytes_bits bytes).

(** the CRC of a bit string with zero initial value (the linear part) *)
Definition crc0_bits (poly : N) (bits : list bool) : N := direct_bits poly 0 bits.

Definition m17_crc (bytes : list N) : N := crc_direct m17_poly m17_init bytes.

(** the two CRC bytes as transmitted: high byte first *)
Definition crc_hi_lo (c : N) : list N := [N.shiftr c 8; N.land c 0xFF].
