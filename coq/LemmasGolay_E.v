(** Golay, assembly: from linearity, the data-word sweeps (B), the table sweep (C) and the pattern sweep (D)
    to statements about ALL 2^24 received words, with no further enumeration. *)
From Coq Require Import NArith List Bool Lia Sorted PeanoNat.
From M17 Require Import Bits ConstsGolay ImplGolay SpecGolay LemmasGolay_A LemmasGolay_B LemmasGolay_C LemmasGolay_D.
Import ListNotations.
Local Open Scope N_scope.

Local Opaque LUT encode23 encode24 syndrome parity popcount lower_bound correction_of decode_with weight.

Definition map_dres (f : N -> N) (x : dres) : dres :=
  match x with DOk o => DOk (f o) | DFail => DFail | DEnd => DEnd end.

Lemma lxor_lt24 a b : a < 2 ^ 24 -> b < 2 ^ 24 -> N.lxor a b < 2 ^ 24.
Proof. apply lxor_lt_pow2. Qed.

(** ** decode commutes with adding a codeword *)
Lemma decode_translate d e : d < 4096 -> e < 2 ^ 24 ->
  decode (N.lxor (encode24 d) e) = map_dres (N.lxor (encode24 d)) (decode e).
Proof. intros Hd He.
  pose proof (enc24_lt d Hd) as Hc. pose proof (enc24_shr d Hd) as S1. pose proof (enc23_syn d Hd) as S2.
  pose proof (enc24_par d Hd) as P.
  set (c := encode24 d) in *. clearbody c.
  assert (Es : syndrome (N.shiftr (N.lxor c e) 1) = syndrome (N.shiftr e 1)).
  { rewrite N.shiftr_lxor, syndrome_lxor, S1, S2. apply N.lxor_0_l. }
  rewrite (decode_char _ (lxor_lt24 _ _ Hc He)), (decode_char e He), Es.
  set (k := corr_with LUT (syndrome (N.shiftr e 1))). clearbody k.
  unfold decode_body. rewrite N.lxor_assoc, parity_lxor, P, xorb_false_l.
  destruct ((popcount k <? 3) || negb (parity (N.lxor e k))); reflexivity. Qed.

(** ** weight <= 3 is corrected, weight 4 is rejected *)
Lemma decode_corrects_lemma d e : d < 4096 -> e < 2 ^ 24 -> weight e <= 3 ->
  exists o, decode (N.lxor (encode24 d) e) = DOk o /\ N.shiftr o 12 = d.
Proof. intros Hd He W. rewrite weight_popcount in W by exact He.
  rewrite decode_translate by assumption.
  assert (W4 : popcount e <= 4) by lia. pose proof (pattern_facts e He W4) as F.
  destruct (decode e) as [| |o'].
  - contradiction.
  - lia.
  - destruct F as [_ F]. exists (N.lxor (encode24 d) o'). split; [reflexivity|].
    rewrite N.shiftr_lxor, enc24_data, F by exact Hd. apply N.lxor_0_r. Qed.

Lemma decode_rejects4_lemma d e : d < 4096 -> e < 2 ^ 24 -> weight e = 4 ->
  decode (N.lxor (encode24 d) e) = DFail.
Proof. intros Hd He W. rewrite weight_popcount in W by exact He.
  rewrite decode_translate by assumption.
  assert (W4 : popcount e <= 4) by lia. pose proof (pattern_facts e He W4) as F.
  destruct (decode e) as [| |o'].
  - contradiction.
  - reflexivity.
  - lia. Qed.

(** ** two words that agree above bit 0 differ by their bits 0 *)
Lemma testbit_b2n_high (q : bool) n : n <> 0 -> N.testbit (b2n q) n = false.
Proof. intros H. destruct n as [|p]; [contradiction|]. destruct q; [destruct p|]; reflexivity. Qed.

Lemma agree_above_bit0 a b : N.shiftr a 1 = N.shiftr b 1 ->
  N.lxor a b = b2n (xorb (N.testbit a 0) (N.testbit b 0)).
Proof. intros H. apply N.bits_inj. intro n. rewrite N.lxor_spec.
  destruct (N.eq_dec n 0) as [->|Nz].
  - destruct (xorb (N.testbit a 0) (N.testbit b 0)); reflexivity.
  - rewrite testbit_b2n_high by exact Nz.
    replace n with (N.pred n + 1) by lia.
    rewrite <- !N.shiftr_spec', H. apply xorb_nilpotent. Qed.

(** ** soundness for every received word *)
Lemma decode_sound_lemma r o : r < 2 ^ 24 -> decode r = DOk o ->
  o < 2 ^ 24 /\ N.shiftr o 12 < 4096 /\ hamming r (encode24 (N.shiftr o 12)) <= 3 /\
  N.shiftr o 1 = encode23 (N.shiftr o 12).
Proof. intros Hr D.
  assert (W : N.shiftr r 1 < 2 ^ 23) by (apply (shiftr_lt r 23 1); exact Hr).
  destruct (row_facts_word _ W) as [_ _ _ Kl K0 Ks Kw].
  rewrite (decode_char r Hr) in D. set (k := corr_with LUT (syndrome (N.shiftr r 1))) in *. clearbody k.
  unfold decode_body in D.
  destruct ((popcount k <? 3) || negb (parity (N.lxor r k))) eqn:C; [|discriminate D].
  injection D as D. rewrite D in C.
  assert (Ho : o < 2 ^ 24) by (rewrite <- D; apply lxor_lt24; assumption).
  assert (Hd : N.shiftr o 12 < 4096) by (apply (shiftr_lt o 12 12); exact Ho).
  assert (X : N.shiftr o 1 = encode23 (N.shiftr o 12)).
  { change 12 with (1 + 11) at 1. rewrite <- N.shiftr_shiftr. apply zero_syndrome_is_codeword.
    - apply (shiftr_lt o 23 1). exact Ho.
    - rewrite <- D, N.shiftr_lxor, syndrome_lxor, Ks. apply N.lxor_nilpotent. }
  split; [exact Ho|]. split; [exact Hd|]. split; [|exact X].
  set (d := N.shiftr o 12) in *.
  unfold hamming. rewrite weight_popcount by (apply lxor_lt24; [exact Hr | apply enc24_lt; exact Hd]).
  assert (R : r = N.lxor k o).
  { rewrite <- D. rewrite (N.lxor_comm r k), <- N.lxor_assoc, N.lxor_nilpotent. symmetry. apply N.lxor_0_l. }
  assert (A : N.lxor o (encode24 d) = b2n (xorb (N.testbit o 0) (parity (encode23 d)))).
  { rewrite <- (enc24_bit0 d Hd). apply agree_above_bit0. rewrite enc24_shr by exact Hd. exact X. }
  rewrite R, N.lxor_assoc, A, popcount_flip0 by exact K0.
  apply orb_true_iff in C. destruct C as [C|C].
  - apply N.ltb_lt in C. destruct (xorb (N.testbit o 0) (parity (encode23 d))); cbn [b2n]; lia.
  - apply negb_true_iff in C. rewrite parity_shiftr1, X in C. rewrite xorb_comm, C. cbn [b2n]. lia.
Qed.

(** ** at most one codeword within distance 3 *)
Lemma close_codeword_unique r d1 d2 : r < 2 ^ 24 -> d1 < 4096 -> d2 < 4096 ->
  hamming r (encode24 d1) <= 3 -> hamming r (encode24 d2) <= 3 -> d1 = d2.
Proof. intros Hr H1 H2 A B. destruct (N.eq_dec d1 d2) as [E|NE]; [exact E|exfalso].
  pose proof (min_distance_8 d1 d2 H1 H2 NE) as M.
  unfold hamming in A, B.
  rewrite weight_popcount in A by (apply lxor_lt24; [exact Hr | apply enc24_lt; exact H1]).
  rewrite weight_popcount in B by (apply lxor_lt24; [exact Hr | apply enc24_lt; exact H2]).
  assert (X : N.lxor (encode24 d1) (encode24 d2) = N.lxor (N.lxor r (encode24 d1)) (N.lxor r (encode24 d2))).
  { generalize (encode24 d1) (encode24 d2). intros p q. xor_bits. }
  rewrite X in M. pose proof (popcount_lxor_le (N.lxor r (encode24 d1)) (N.lxor r (encode24 d2))). lia. Qed.

(** ** the lookup never ends at LUT.end() on 24-bit inputs, and finds the matching row *)
Lemma lookup_never_end_lemma r : r < 2 ^ 24 ->
  (lower_bound LUT (syndrome (N.shiftr r 1)) < length LUT)%nat /\ decode r <> DEnd.
Proof. intros Hr.
  assert (W : N.shiftr r 1 < 2 ^ 23) by (apply (shiftr_lt r 23 1); exact Hr).
  destruct (row_facts_word _ W) as [I _ _ _ _ _ _]. split; [rewrite lut_length; exact I|].
  rewrite (decode_char r Hr). unfold decode_body.
  destruct ((popcount _ <? 3) || _); discriminate. Qed.

Lemma lut_complete_lemma w : w < 2 ^ 23 ->
  exists i e, i = lower_bound LUT (syndrome w) /\ i = partition_point LUT (syndrome w) /\ (i < 2048)%nat /\
    nth_error LUT i = Some e /\ N.shiftr (fst e) 8 = syndrome w /\
    (let f := N.shiftr (correction_of e) 1 in f < 2 ^ 23 /\ popcount f <= 3 /\ syndrome f = syndrome w) /\
    (forall j e', nth_error LUT j = Some e' -> N.shiftr (fst e') 8 = syndrome w -> j = i).
Proof. intros H. destruct (row_facts_word _ H) as [I P (e & E1 & E2 & E3) Kl K0 Ks Kw].
  exists (lower_bound LUT (syndrome w)), e. split; [reflexivity|]. split; [exact P|]. split; [exact I|].
  split; [exact E1|]. split; [exact E2|]. rewrite E3. split.
  - cbv zeta. split; [apply (shiftr_lt _ 23 1); exact Kl|]. split; [|exact Ks].
    rewrite (popcount_shiftr1 (corr_with LUT (syndrome w))), K0 in Kw. cbn [b2n] in Kw. lia.
  - intros j e' J1 J2.
    pose proof (sorted_lt_nodup _ lut_syndromes_sorted) as ND. rewrite NoDup_nth_error in ND.
    symmetry. apply ND.
    + rewrite map_length, lut_length. exact I.
    + rewrite !nth_error_map, E1, J1. cbn [option_map]. unfold entry_key. rewrite E2, J2. reflexivity.
Qed.

(** ** decode against the bounded-distance decoder of the specification *)
Lemma search_S k f : search (S k) f =
  match search k (fun x => f (2 * x)) with
  | Some x => Some (2 * x)
  | None => match search k (fun x => f (2 * x + 1)) with Some x => Some (2 * x + 1) | None => None end
  end.
Proof. reflexivity. Qed.

Lemma search_some k : forall f x, search k f = Some x -> x < 2 ^ N.of_nat k /\ f x = true.
Proof. induction k as [|k IH]; intros f x H.
- cbn [search] in H. destruct (f 0) eqn:F; [|discriminate H]. injection H as <-. split; [reflexivity | exact F].
- rewrite search_S in H. rewrite Nat2N.inj_succ, N.pow_succ_r'.
  destruct (search k (fun x => f (2 * x))) as [y|] eqn:S0.
  + assert (X : x = 2 * y) by congruence. subst x. destruct (IH _ _ S0) as [L F]. split; [lia | exact F].
  + destruct (search k (fun x => f (2 * x + 1))) as [y|] eqn:S1; [|discriminate H].
    assert (X : x = 2 * y + 1) by congruence. subst x. destruct (IH _ _ S1) as [L F]. split; [lia | exact F].
Qed.

Lemma search_none k : forall f, search k f = None -> forall x, x < 2 ^ N.of_nat k -> f x = false.
Proof. induction k as [|k IH]; intros f H x Hx.
- cbn [search] in H. simpl in Hx. assert (x = 0) by lia. subst. destruct (f 0); [discriminate H | reflexivity].
- rewrite search_S in H. rewrite Nat2N.inj_succ, N.pow_succ_r' in Hx.
  destruct (search k (fun x => f (2 * x))) as [y|] eqn:S0; [discriminate H|].
  destruct (search k (fun x => f (2 * x + 1))) as [y|] eqn:S1; [discriminate H|].
  destruct (N.even x) eqn:E.
  + apply N.even_spec in E. destruct E as [y ->]. apply (IH _ S0 y). lia.
  + assert (O : N.odd x = true) by (rewrite <- N.negb_even, E; reflexivity).
    apply N.odd_spec in O. destruct O as [y ->]. apply (IH _ S1 y). lia.
Qed.

Lemma within3_iff r d : d < 4096 -> within3 r d = true <-> hamming r (encode24 d) <= 3.
Proof. intros H. unfold within3. rewrite <- (enc24_spec d H). apply N.leb_le. Qed.

Lemma golay_decode_some r o : golay_decode r = Some o <-> decode r = DOk o.
Proof. unfold golay_decode. destruct (decode r); cbn [dres_output]; split; intros H; try discriminate H; congruence. Qed.

Lemma decode_is_spec_lemma r : r < 2 ^ 24 ->
  option_map (fun o => N.shiftr o 12) (golay_decode r) = spec_decode r.
Proof. intros Hr. unfold spec_decode. destruct (golay_decode r) as [o|] eqn:G; cbn [option_map].
- apply golay_decode_some in G. destruct (decode_sound_lemma r o Hr G) as (_ & Hd & Hh & _).
  destruct (search 12 (within3 r)) as [d'|] eqn:S.
  + destruct (search_some 12 _ _ S) as [L F]. apply (within3_iff r d' L) in F.
    f_equal. apply (close_codeword_unique r); assumption.
  + pose proof (search_none 12 _ S _ Hd) as F. apply (within3_iff r _ Hd) in Hh. congruence.
- destruct (search 12 (within3 r)) as [d'|] eqn:S; [exfalso|reflexivity].
  destruct (search_some 12 _ _ S) as [L F]. apply (within3_iff r d' L) in F.
  pose proof (enc24_lt d' L) as Hc.
  assert (E : r = N.lxor (encode24 d') (N.lxor r (encode24 d'))).
  { generalize (encode24 d'). intros c. xor_bits. }
  destruct (decode_corrects_lemma d' (N.lxor r (encode24 d')) L (lxor_lt24 _ _ Hr Hc) F) as (o & D & _).
  rewrite <- E in D. apply golay_decode_some in D. congruence.
Qed.

(** ** the statements of Properties_C04.v, over the exported names *)
Lemma x_encode_systematic d : d < 4096 -> N.shiftr (golay_encode24 d) 12 = d.
Proof. exact (enc24_data d). Qed.

Lemma x_encode_is_spec d : d < 4096 ->
  golay_encode24 d = spec_encode24 d /\ spec_is_codeword24 (golay_encode24 d) = true.
Proof. intros H. split; [exact (enc24_spec d H) | exact (enc24_member d H)]. Qed.

Lemma x_codeword_syndrome_zero d : d < 4096 ->
  syndrome (encode23 d) = 0 /\ syndrome (N.shiftr (golay_encode24 d) 1) = 0.
Proof. intros H. split; [exact (enc23_syn d H)|]. unfold golay_encode24. rewrite enc24_shr by exact H. exact (enc23_syn d H). Qed.

Lemma x_codeword_even_parity d : d < 4096 ->
  parity (golay_encode24 d) = false /\ (weight (golay_encode24 d)) mod 2 = 0.
Proof. intros H. split; [exact (enc24_par d H) | exact (enc24_even d H)]. Qed.

Lemma x_encode_linear a b : a < 4096 -> b < 4096 ->
  golay_encode24 (N.lxor a b) = N.lxor (golay_encode24 a) (golay_encode24 b).
Proof. exact (encode24_lxor a b). Qed.

Lemma x_min_weight_8 d : d < 4096 -> d <> 0 -> 8 <= weight (golay_encode24 d).
Proof. intros H NZ. unfold golay_encode24. rewrite weight_popcount by (apply enc24_lt; exact H). exact (enc24_w8 d H NZ). Qed.

Lemma x_min_distance_8 a b : a < 4096 -> b < 4096 -> a <> b ->
  8 <= hamming (golay_encode24 a) (golay_encode24 b).
Proof. intros Ha Hb NE. unfold golay_encode24, hamming.
  rewrite weight_popcount by (apply lxor_lt24; apply enc24_lt; assumption). exact (min_distance_8 a b Ha Hb NE). Qed.

Lemma x_lut_sorted_distinct :
  length lut_stores = 2048%nat /\ NoDup lut_stores /\ lut_unsorted = lut_stores /\
  StronglySorted N.lt (sort lut_unsorted) /\ LUT = map makeSyndromeMapEntry (sort lut_unsorted) /\
  length LUT = 2048%nat /\ StronglySorted N.lt (map (fun e => N.shiftr (fst e) 8) LUT).
Proof. split; [destruct lut_stores_fill as [A B]; rewrite A; exact B|]. split; [exact lut_keys_distinct|].
  split; [exact lut_unsorted_is_stores|]. split; [exact sorted_keys_sorted|]. split; [exact LUT_is_sorted_keys|].
  split; [exact lut_length | exact lut_syndromes_sorted]. Qed.

Lemma x_decode_corrects d e : d < 4096 -> e < 2 ^ 24 -> weight e <= 3 ->
  exists o, golay_decode (N.lxor (golay_encode24 d) e) = Some o /\ N.shiftr o 12 = d.
Proof. intros Hd He W. destruct (decode_corrects_lemma d e Hd He W) as (o & D & S).
  exists o. split; [apply golay_decode_some; exact D | exact S]. Qed.

Lemma x_decode_rejects4 d e : d < 4096 -> e < 2 ^ 24 -> weight e = 4 ->
  golay_decode (N.lxor (golay_encode24 d) e) = None.
Proof. intros Hd He W. unfold golay_decode, golay_encode24. rewrite (decode_rejects4_lemma d e Hd He W). reflexivity. Qed.

Lemma x_decode_sound r o : r < 2 ^ 24 -> golay_decode r = Some o ->
  exists d, d < 4096 /\ N.shiftr o 12 = d /\ hamming r (golay_encode24 d) <= 3 /\
    (forall d', d' < 4096 -> hamming r (golay_encode24 d') <= 3 -> d' = d).
Proof. intros Hr G. apply golay_decode_some in G. destruct (decode_sound_lemma r o Hr G) as (_ & Hd & Hh & _).
  exists (N.shiftr o 12). split; [exact Hd|]. split; [reflexivity|]. split; [exact Hh|].
  intros d' Hd' Hh'. exact (close_codeword_unique r d' _ Hr Hd' Hd Hh' Hh). Qed.

Lemma x_decode_output_shape r o : r < 2 ^ 24 -> golay_decode r = Some o ->
  o < 2 ^ 24 /\ (o = golay_encode24 (N.shiftr o 12) \/ o = N.lxor (golay_encode24 (N.shiftr o 12)) 1).
Proof. intros Hr G. apply golay_decode_some in G. destruct (decode_sound_lemma r o Hr G) as (Ho & Hd & _ & X).
  split; [exact Ho|]. unfold golay_encode24. set (d := N.shiftr o 12) in *.
  assert (A : N.lxor o (encode24 d) = b2n (xorb (N.testbit o 0) (N.testbit (encode24 d) 0))).
  { apply agree_above_bit0. rewrite enc24_shr by exact Hd. exact X. }
  assert (E : o = N.lxor (encode24 d) (N.lxor o (encode24 d))) by (generalize (encode24 d); intros c; xor_bits).
  rewrite A in E. destruct (xorb (N.testbit o 0) (N.testbit (encode24 d) 0)); cbn [b2n] in E.
  - right. exact E.
  - left. rewrite N.lxor_0_r in E. exact E. Qed.

Lemma x_decode_translate d e : d < 4096 -> e < 2 ^ 24 ->
  golay_decode (N.lxor (golay_encode24 d) e) = option_map (N.lxor (golay_encode24 d)) (golay_decode e).
Proof. intros Hd He. unfold golay_decode, golay_encode24. rewrite (decode_translate d e Hd He).
  destruct (decode e); reflexivity. Qed.

Lemma x_decode_accepts_iff r : r < 2 ^ 24 ->
  (exists o, golay_decode r = Some o) <-> (exists d, d < 4096 /\ hamming r (golay_encode24 d) <= 3).
Proof. intros Hr. split.
- intros [o G]. destruct (x_decode_sound r o Hr G) as (d & Hd & _ & Hh & _). exists d. split; assumption.
- intros (d & Hd & Hh). pose proof (enc24_lt d Hd) as Hc.
  assert (E : r = N.lxor (golay_encode24 d) (N.lxor r (golay_encode24 d))) by (generalize (golay_encode24 d); intros c; xor_bits).
  destruct (x_decode_corrects d (N.lxor r (golay_encode24 d)) Hd (lxor_lt24 _ _ Hr Hc) Hh) as (o & D & _).
  rewrite <- E in D. exists o. exact D. Qed.
