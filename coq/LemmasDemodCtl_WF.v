(** The range invariant [wf_st] of the control model is inductive (under in-range float-derived indices),
    and holds in the freshly constructed demodulator. *)
From Coq Require Import ZArith Bool List Lia ZifyBool.
From M17 Require Import ConstsDemod ImplDemodCtl SpecDemodCtl LemmasDemodCtl_Base.
Import ListNotations.
Local Open Scope Z_scope.
Ltac Zify.zify_post_hook ::= Z.div_mod_to_equations.

Record wf (s : st) : Prop := {
  wf_init : 0 <= init_left s;
  wf_count : 0 <= count s;
  wf_si : 0 <= sample_index s < 10;
  wf_ssi : 0 <= ssi s < 10;
  wf_cpos : 0 <= cpos s < 80;
  wf_sc : 0 <= sync_count s;
  wf_miss : 0 <= missing s;
  wf_fidx : 0 <= fidx s < 368 /\ fidx s mod 2 = 0
}.

Lemma wf_st_iff s : wf_st s = true <-> wf s.
Proof.
  unfold wf_st. unfold_consts. split.
  - intro H. repeat (apply andb_prop in H; destruct H as [H ?]). constructor; lia.
  - intros [? ? ? ? ? ? ? ?]. repeat (apply andb_true_intro; split); lia.
Qed.

Record in_range (o : obs) : Prop := {
  ir_pre : 0 <= o_pre_idx o < 10;
  ir_lsf : 0 <= o_lsf_idx o < 10;
  ir_pkt : 0 <= o_pkt_idx o < 10;
  ir_cr : 0 <= o_cr_free o < 10
}.
Lemma obs_in_range_iff o : obs_in_range o = true <-> in_range o.
Proof.
  unfold obs_in_range. unfold_consts. split.
  - intro H. repeat (apply andb_prop in H; destruct H as [H ?]). constructor; lia.
  - intros [? ? ? ?]. repeat (apply andb_true_intro; split); lia.
Qed.

Lemma u8_small x : 0 <= x < 10 -> u8 x = x.
Proof. unfold u8. lia. Qed.

Ltac wf_solve := constructor; st_cbn; rewrite ?u8_small by lia; try lia.

Lemma dispatch_wf s o : wf s -> in_range o -> wf (fst (dispatch s o)).
Proof.
  intros [W1 W2 W3 W4 W5 W6 W7 [W8 W9]] [R1 R2 R3 R4].
  unfold dispatch, do_unlocked, unlocked_found, do_lsf_sync, lsf_found, do_stream_sync, do_packet_sync, do_bert_sync, sync_missed,
         do_sync_wait, do_frame, is_far_point, corr_index.
  destruct_st s. st_cbn. unfold_consts.
  destruct s_ds; st_cbn;
  repeat match goal with
         | |- context [if ?c then _ else _] => destruct c eqn:?; st_cbn
         | |- context [let (_, _) := ?c in _] => destruct c eqn:?; st_cbn
         end; wf_solve.
Qed.

Lemma update_dcd_wf s : wf s -> wf (fst (update_dcd s)).
Proof.
  intros [W1 W2 W3 W4 W5 W6 W7 [W8 W9]]. unfold update_dcd, dcd_on, dcd_off. destruct_st s. st_cbn.
  destruct s_dcd, s_trig; cbn [negb andb]; st_cbn; try (constructor; st_cbn; lia).
  destruct s_ds; st_cbn; constructor; st_cbn; try lia.
Qed.

Lemma step_wf s o : wf s -> in_range o -> wf (fst (step s o)).
Proof.
  intros W R. unfold step.
  destruct (0 <? init_left (set_count (count s + 1) s)) eqn:E0.
  - destruct W as [W1 W2 W3 W4 W5 W6 W7 [W8 W9]]. unfold corr_sample. destruct_st s. st_cbn. unfold_consts.
    destruct (s_cpos + 1 =? 80) eqn:E; constructor; st_cbn; lia.
  - destruct (negb (dcd_ (set_count (count s + 1) s))) eqn:E1.
    + destruct (count (set_count (count s + 1) s) mod POLL_NODCD =? 0) eqn:E2.
      * assert (W' : wf (set_count (count s + 1) s)) by (destruct W as [W1 W2 W3 W4 W5 W6 W7 [W8 W9]]; destruct_st s; constructor; st_cbn; lia).
        pose proof (update_dcd_wf _ W') as U. destruct (update_dcd (set_count (count s + 1) s)) as [s5 e]. cbn [fst] in U |- *.
        destruct U as [W1 W2 W3 W4 W5 W6 W7 [W8 W9]]. unfold dcd_poll. destruct_st s5. constructor; st_cbn; lia.
      * cbn [fst]. destruct W as [W1 W2 W3 W4 W5 W6 W7 [W8 W9]]; destruct_st s; constructor; st_cbn; lia.
    + assert (W1 : wf (fst (clock_at_zero (corr_sample (set_count (count s + 1) s)) o))).
      { destruct W as [W1 W2 W3 W4 W5 W6 W7 [W8 W9]]. unfold clock_at_zero, corr_sample, corr_index. destruct_st s. st_cbn. unfold_consts.
        destruct (s_cpos mod 10 =? 0); [destruct s_ncr; [|destruct s_ncu]|]; st_cbn;
          destruct (s_cpos + 1 =? 80) eqn:E; constructor; st_cbn; lia. }
      destruct (clock_at_zero (corr_sample (set_count (count s + 1) s)) o) as [s3 e1]. cbn [fst] in W1.
      pose proof (dispatch_wf s3 o W1 R) as W2.
      destruct (dispatch s3 o) as [s4 e2]. cbn [fst] in W2.
      destruct (count s4 mod POLL_DCD =? 0).
      * pose proof (update_dcd_wf _ W2) as U. destruct (update_dcd s4) as [s5 e3]. cbn [fst] in U |- *.
        destruct U as [U1 U2 U3 U4 U5 U6 U7 [U8 U9]]. unfold dcd_poll. destruct_st s5. constructor; st_cbn; lia.
      * exact W2.
Qed.

Lemma st_init_wf : wf st_init.
Proof. constructor; unfold st_init; st_cbn; unfold_consts; lia. Qed.

Definition all_in_range (os : list obs) : Prop := Forall (fun o => obs_in_range o = true) os.

Theorem wf_invariant_lemma : forall (os : list obs) (s : st),
  wf_st s = true -> all_in_range os -> wf_st (final s os) = true /\ Forall (fun s' => wf_st s' = true) (states s os).
Proof.
  induction os as [|o os IH]; intros s W R.
  - rewrite final_nil. split; [exact W|constructor].
  - inversion R as [|o' os' Ro Ros]; subst.
    assert (W1 : wf_st (fst (step s o)) = true).
    { apply wf_st_iff. apply step_wf; [apply wf_st_iff; exact W|apply obs_in_range_iff; exact Ro]. }
    destruct (IH _ W1 Ros) as [F S].
    rewrite final_cons. cbn [states]. split; [exact F|constructor; assumption].
Qed.
