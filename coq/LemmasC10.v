(** The composite statements of Properties_C10.v, assembled from LemmasInterleave.v and LemmasRandom.v. *)
From Coq Require Import NArith ZArith List Bool Permutation.
From M17 Require Import Bits ImplUtilBits ConstsInterleave ConstsRandomizer ImplInterleave ImplRandom
  SpecInterleave SpecRandom LemmasUtilBits LemmasInterleave LemmasRandom.
Import ListNotations.

Lemma interleave_spec_thm : forall (A : Type) (d : A) (l : list A),
  length (interleave d l) = 368 /\ forall i, i < 368 -> nth (pi i) (interleave d l) d = nth i l d.
Proof. intros A d l. split; [apply interleave_length_lemma|]. intros i Hi. rewrite <- il_index_is_pi. apply interleave_nth_lemma. exact Hi. Qed.

Lemma deinterleave_spec_thm : forall (A : Type) (d : A) (l : list A),
  length (deinterleave d l) = 368 /\ forall i, i < 368 -> nth i (deinterleave d l) d = nth (pi i) l d.
Proof. intros A d l. split; [apply deinterleave_length_lemma|]. intros i Hi. rewrite <- il_index_is_pi. apply deinterleave_nth_lemma. exact Hi. Qed.

Lemma bytes_variant_agrees_thm : forall b : list N,
  bytes_bits (interleave_bytes b) = interleave false (bytes_bits b) /\
  bytes_bits (deinterleave_bytes b) = deinterleave false (bytes_bits b).
Proof. intro b. split; [apply interleave_bytes_bits_lemma | apply deinterleave_bytes_bits_lemma]. Qed.

Lemma bytes_roundtrip_thm : forall b : list N, length b = 46 -> all_bytes b ->
  deinterleave_bytes (interleave_bytes b) = b /\ interleave_bytes (deinterleave_bytes b) = b.
Proof. intros b Hl Hb. split; [apply deinterleave_interleave_bytes_lemma | apply interleave_deinterleave_bytes_lemma]; assumption. Qed.

Lemma variants_agree_thm :
  (forall s : list Z, Forall (fun x => (-127 <= x <= 127)%Z /\ x <> 0%Z) s ->
     map hardN (derandomize_soft s) = randomize_bits (map hardN s)) /\
  (forall b : list N, length b = 46 -> all_bytes b ->
     map b2n (bytes_bits (randomize_bytes b)) = randomize_bits (map b2n (bytes_bits b))).
Proof. split; [exact variants_agree_soft_bits_lemma | exact variants_agree_bytes_bits_lemma]. Qed.

Lemma closed_form_thm : forall (A : Type) (d : A) (l : list A),
  interleave d l = map (fun j => nth (pi j) l d) (seq 0 368) /\
  deinterleave d l = map (fun j => nth (pi j) l d) (seq 0 368).
Proof. intros A d l. rewrite interleave_eq_deinterleave_lemma, deinterleave_map_lemma.
  assert (E : map (fun i => nth (il_index i) l d) (seq 0 368) = map (fun j => nth (pi j) l d) (seq 0 368)).
  { apply map_ext. intro j. rewrite il_index_is_pi. reflexivity. }
  rewrite E. split; reflexivity. Qed.
