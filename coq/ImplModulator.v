(** * ImplModulator — Gallina mirror of include/m17cxx/M17Modulator.h and of the byte-level helpers it calls

    Statement by statement; arrays are lists, indices are [nat], byte/register values are [N] with the C++
    integer widths written out ([u8], [u16], [u32]); audio samples are [Z].  Every constant comes from
    [ConstsModulator] (regenerated from the repository's text on every run).  NO PROOFS in this file.

    Uninitialised local arrays of the C++ ([result] in conv_encode / make_lich_segment, [punctured],
    [data], [temp], the [lich] table before the first LINK_SETUP) start from [uninit n], whose content is
    the arbitrary Section variable [junk]; the lemmas show that no output depends on it.

    Mirrored: Util.h get_bit_index / set_bit_index / reset_bit_index / assign_bit_index / puncture_bytes,
    Trellis.h make_p1 / P2, PolynomialInterleaver::index / interleave(bytes_t&), M17ByteRandomizer,
    Convolution.h convolve_bit / update_memory, Golay24::encode23 / parity / encode24,
    LinkSetupFrame::encode_callsign, M17Modulator::{encode_callsign, output_frame, send_preamble,
    conv_encode, make_lich_segment, send_link_setup, send_audio_frame, make_payload, encode_audio,
    send_audio, modulate (one loop iteration = [mstep]), ptt_on, ptt_off}. *)
From Coq Require Import NArith ZArith List Bool.
From M17 Require Import Bits ImplCRC ConstsModulator.
Import ListNotations.
Local Open Scope N_scope.


(** ** integer widths *)
Definition u8 (x : N) : N := N.land x 0xFF.
Definition u16 (x : N) : N := N.land x 0xFFFF.
Definition u32 (x : N) : N := N.land x 0xFFFFFFFF.

(** ** arrays *)
Fixpoint set_nth {A} (l : list A) (i : nat) (v : A) : list A :=
  match l, i with
  | [], _ => []
  | _ :: t, O => v :: t
  | x :: t, S j => x :: set_nth t j v
  end.

(** std::copy(src.begin(), src.end(), dst.begin() + pos) *)
Fixpoint copy_at {A} (dst : list A) (pos : nat) (src : list A) : list A :=
  match src with
  | [] => dst
  | x :: r => copy_at (set_nth dst pos x) (S pos) r
  end.

(** ** Util.h: bit access into packed byte arrays (bit 0 of the array = MSB of byte 0) *)
Definition bit_mask (index : nat) : N := N.shiftl 1 (N.of_nat (7 - index mod 8)).

Definition get_bit_index (input : list N) (index : nat) : bool :=
  let byte_index := (index / 8)%nat in                       (* index >> 3 *)
  let bit_index := N.of_nat (7 - index mod 8) in               (* 7 - (index & 7) *)
  negb (N.eqb (N.shiftr (N.land (nth byte_index input 0) (N.shiftl 1 bit_index)) bit_index) 0).

Definition set_bit_index (input : list N) (index : nat) : list N :=
  let byte_index := (index / 8)%nat in
  set_nth input byte_index (u8 (N.lor (nth byte_index input 0) (bit_mask index))).

Definition reset_bit_index (input : list N) (index : nat) : list N :=
  let byte_index := (index / 8)%nat in
  set_nth input byte_index (u8 (N.land (nth byte_index input 0) (N.lxor 0xFF (bit_mask index)))).   (* &= ~(1 << bit), stored in a uint8_t *)

Definition assign_bit_index (input : list N) (index : nat) (value : bool) : list N :=
  if value then set_bit_index input index else reset_bit_index input index.

(** ** Util.h: puncture_bytes(in, out, p); [out0] is the previous content of [out] *)
Definition puncture_state : Type := (nat * nat * nat * list N)%type.   (* index, pindex, bit_count, out *)

Definition puncture_step (inp : list N) (p : list bool) (out_bits : nat) (st : puncture_state) (i : nat) : puncture_state :=
  let '(index, pindex, bit_count, out) := st in
  if Nat.eqb index out_bits then st                            (* loop condition index != OUT * 8 failed: the loop has ended *)
  else
    let keep := nth pindex p false in
    let pindex1 := S pindex in
    let '(index1, bit_count1, out1) :=
      if keep then (S index, S bit_count, assign_bit_index out index (get_bit_index inp i)) else (index, bit_count, out) in
    let pindex2 := if Nat.eqb pindex1 (length p) then O else pindex1 in
    (index1, pindex2, bit_count1, out1).

Definition puncture_bytes_full (inp out0 : list N) (p : list bool) : puncture_state :=
  fold_left (puncture_step inp p (length out0 * 8)) (seq 0 (length inp * 8)) (O, O, O, out0).
Definition puncture_bytes (inp out0 : list N) (p : list bool) : list N := snd (puncture_bytes_full inp out0 p).
Definition puncture_bytes_count (inp out0 : list N) (p : list bool) : nat := snd (fst (puncture_bytes_full inp out0 p)).

(** ** Trellis.h: make_p1() and P2 *)
Definition make_p1 : list bool :=
  fst (fold_left (fun (st : list bool * nat) i =>
                    let '(result, j) := st in
                    if Nat.eqb i j then (set_nth result i false, (j + ConstsModulator.p1_zero_stride)%nat) else (set_nth result i true, j))
                 (seq 0 ConstsModulator.p1_len) (repeat false ConstsModulator.p1_len, ConstsModulator.p1_first_zero)).
Definition P2 : list bool := ConstsModulator.p2.
Definition matrix (k : nat) : list bool := match k with 1%nat => make_p1 | _ => P2 end.

(** ** PolynomialInterleaver<F1, F2, K>: index(i) and interleave(bytes_t&) *)
Definition il_index (i : nat) : nat :=
  N.to_nat ((ConstsModulator.interleaver_f1 * N.of_nat i + ConstsModulator.interleaver_f2 * N.of_nat i * N.of_nat i) mod N.of_nat ConstsModulator.interleaver_k).

Definition interleave_bytes (data : list N) : list N :=
  fold_left (fun buffer i => assign_bit_index buffer (il_index i) (get_bit_index data i))
            (seq 0 ConstsModulator.interleaver_k) (repeat 0 (ConstsModulator.interleaver_k / 8)).          (* buffer.fill(0); ...; copy buffer -> data *)

(** ** M17ByteRandomizer<N>::operator() *)
Definition rand_bit (d f : N) (j : nat) : N :=
  let mask := u8 (N.shiftl 1 (N.of_nat (j - 1))) in
  u8 (N.lor (N.land f (N.lxor 0xFF mask)) (N.lxor (N.land f mask) (N.land d mask))).
Definition rand_byte (f d : N) : N := fold_left (rand_bit d) (rev (seq 1 ConstsModulator.randomizer_bits)) f.   (* j = 8, 7, ..., 1 *)
Definition byte_randomize (frame : list N) : list N :=
  map (fun i => rand_byte (nth i frame 0) (nth i ConstsModulator.dc 0)) (seq 0 (length frame)).

(** ** Convolution.h *)
Definition popcount32 (x : N) : N := fold_left (fun acc i => acc + b2n (N.testbit x (N.of_nat i))) (seq 0 32) 0.
Definition convolve_bit (poly memory : N) : N := N.land (popcount32 (N.land poly memory)) 1.
Definition update_memory (K : nat) (memory input : N) : N :=
  N.land (N.lor (N.shiftl memory 1) input) (N.shiftl 1 (N.of_nat (K + 1)) - 1).

(** ** Golay24::encode23 / parity / encode24 *)
Definition golay_step (codeword : N) : N :=
  N.shiftr (if N.eqb (N.land codeword 1) 0 then codeword else N.lxor codeword ConstsModulator.golay_poly) 1.
Definition encode23 (data : N) : N :=
  u32 (N.lor (Nat.iter ConstsModulator.golay_steps golay_step data) (N.shiftl data ConstsModulator.golay_data_shift)).
Definition golay_parity (codeword : N) : N := N.land (popcount32 codeword) 1.
Definition encode24 (data : N) : N := let codeword := encode23 data in u32 (N.lor (N.shiftl codeword 1) (golay_parity codeword)).

(** ** M17Modulator::conv_encode
    core state: (bit_index, tmp, memory); the full state adds (byte_index, result) *)
Definition conv_core : Type := (N * N * N)%type.
Definition conv_full : Type := (conv_core * N * list N)%type.

(** memory = update_memory<K>(memory, x); tmp = (tmp << 1) | convolve_bit(p1, memory); tmp = (tmp << 1) | convolve_bit(p2, memory);
    bit_index += inc; if (bit_index == lim) { bit_index = 0; <emit tmp>; tmp = 0; } *)
Definition conv_emit (K : nat) (p1 p2 inc lim : N) (st : conv_core) (x : N) : conv_core * option N :=
  let '(bit_index, tmp, memory) := st in
  let memory := update_memory K memory x in
  let tmp := u8 (N.lor (N.shiftl tmp 1) (convolve_bit p1 memory)) in
  let tmp := u8 (N.lor (N.shiftl tmp 1) (convolve_bit p2 memory)) in
  let bit_index := u8 (bit_index + inc) in
  if N.eqb bit_index lim then ((0, 0, memory), Some tmp) else ((bit_index, tmp, memory), None).

(** result[byte_index++] = tmp *)
Definition conv_store (st : conv_full) (r : conv_core * option N) : conv_full :=
  let '(_, byte_index, result) := st in
  match snd r with
  | Some t => (fst r, u8 (byte_index + 1), set_nth result (N.to_nat byte_index) t)
  | None => (fst r, byte_index, result)
  end.

Definition conv_site (k : nat) : nat * N * N * N * N :=   (* K, poly 1, poly 2, increment, limit at the data loop (0) / flush loop (1) *)
  (nth k ConstsModulator.conv_mem_k O, nth (2 * k) ConstsModulator.conv_polys 0, nth (2 * k + 1) ConstsModulator.conv_polys 0,
   fst (nth k ConstsModulator.conv_bit_inc (0, 0)), snd (nth k ConstsModulator.conv_bit_inc (0, 0))).

Definition conv_bit (site : nat) (st : conv_full) (x : N) : conv_full :=
  let '(K, p1, p2, inc, lim) := conv_site site in
  conv_store st (conv_emit K p1 p2 inc lim (fst (fst st)) x).

(** for (i != 8) { x = (b & 0x80) >> 7; b <<= 1; ... } *)
Definition conv_data_bit (st : N * conv_full) (_ : nat) : N * conv_full :=
  let '(b, full) := st in
  let x := N.shiftr (N.land b ConstsModulator.conv_msb_mask) ConstsModulator.conv_msb_shift in
  (u8 (N.shiftl b ConstsModulator.conv_byte_shift), conv_bit 0 full x).
Definition conv_data_byte (full : conv_full) (b : N) : conv_full :=
  snd (fold_left conv_data_bit (seq 0 ConstsModulator.conv_bits_per_byte) (b, full)).

Definition conv_pad (full : conv_full) : list N :=
  let '((bit_index, tmp, _), byte_index, result) := full in
  if N.eqb bit_index 0 then result
  else set_nth result (N.to_nat byte_index) (Nat.iter (N.to_nat (8 - bit_index)) (fun t => u8 (N.shiftl t 1)) tmp).

(** [result0] is the previous content of the (uninitialised) result array, N * 2 + 1 bytes *)
Definition conv_encode (result0 data : list N) : list N :=
  let st0 : conv_full := ((0, 0, 0), 0, result0) in
  let st1 := fold_left conv_data_byte data st0 in
  let st2 := fold_left (fun st _ => conv_bit 1 st 0) (seq 0 ConstsModulator.conv_flush) st1 in
  conv_pad st2.
Definition conv_out_len (n : nat) : nat := (n * ConstsModulator.conv_out_mul + ConstsModulator.conv_out_add)%nat.

(** ** LinkSetupFrame::encode_callsign(call_t) and M17Modulator::encode_callsign(std::string)
    a callsign is the list of its character codes (0..255; [char] is signed, codes >= 128 match no range) *)
Definition call_digit (c : N) : N :=
  if (65 <=? c) && (c <=? 90) then c - 65 + nth 0 ConstsModulator.call_offsets 0          (* 'A'..'Z' *)
  else if (48 <=? c) && (c <=? 57) then c - 48 + nth 1 ConstsModulator.call_offsets 0     (* '0'..'9' *)
  else if c =? 45 then nth 2 ConstsModulator.call_offsets 0                                (* '-' *)
  else if c =? 47 then nth 3 ConstsModulator.call_offsets 0                                (* '/' *)
  else if c =? 46 then nth 4 ConstsModulator.call_offsets 0                                (* '.' *)
  else 0.
Definition u64 (x : N) : N := N.land x 0xFFFFFFFFFFFFFFFF.
(** std::reverse; for (c : callsign) { encoded *= 40; encoded += digit; }; the low 6 bytes, most significant first *)
Definition lsf_encode_callsign (call : list N) : list N :=
  let encoded := fold_left (fun enc c => u64 (u64 (enc * ConstsModulator.call_radix) + call_digit c)) (rev call) 0 in
  rev (map (fun i => u8 (N.shiftr encoded (8 * N.of_nat i))) (seq 0 ConstsModulator.call_bytes)).
Definition encode_callsign (callsign : list N) : list N :=
  if (Nat.eqb (length callsign) 0) || (Nat.ltb ConstsModulator.call_max_len (length callsign)) then ConstsModulator.call_default
  else lsf_encode_callsign (copy_at (repeat 0 ConstsModulator.call_array_len) 0 callsign).     (* call.fill(0); std::copy(callsign, call.begin()) *)

(** ** output_frame / send_preamble: the bytes handed to bitstream_queue_->put(c), in order *)
Definition output_frame (sync_word frame : list N) : list N := sync_word ++ frame.
Definition send_preamble : list N := repeat ConstsModulator.preamble_byte ConstsModulator.preamble_len.

Section Modulator.
(** arbitrary content of uninitialised memory *)
Variable junk : nat -> N.
Definition uninit (n : nat) : list N := map (fun i => u8 (junk i)) (seq 0 n).

(** external code: codec2_encode(codec2_, out, in), 160 samples -> 8 bytes, with its hidden state *)
Variable cstate : Type.
Variable codec2_encode : cstate -> list Z -> cstate * list N.

(** ** make_lich_segment(segment, segment_number) *)
Definition lich_word_step (test : N) (st : list N * N) (i : nat) : list N * N :=
  let '(result, encoded) := st in
  (assign_bit_index result i (negb (N.eqb (N.land encoded (N.shiftl 1 test)) 0)), u32 (N.shiftl encoded 1)).
Definition lich_word (k : nat) (result : list N) (tmp : N) : list N :=
  let '(lo, hi) := nth k ConstsModulator.lich_ranges (O, O) in
  fst (fold_left (lich_word_step (nth k ConstsModulator.lich_test_bits 0)) (seq lo (hi - lo)) (result, encode24 tmp)).

Definition make_lich_segment (segment : list N) (segment_number : N) : list N :=
  let s i := nth i segment 0 in
  let result := uninit ConstsModulator.lich_segment_len in
  let result := lich_word 0 result (u16 (N.lor (N.shiftl (s 0%nat) 4) (N.land (N.shiftr (s 1%nat) 4) 0x0F))) in
  let result := lich_word 1 result (u16 (N.lor (N.shiftl (N.land (s 1%nat) 0x0F) 8) (s 2%nat))) in
  let result := lich_word 2 result (u16 (N.lor (N.shiftl (s 3%nat) 4) (N.land (N.shiftr (s 4%nat) 4) 0x0F))) in
  let result := lich_word 3 result (u16 (N.lor (N.shiftl (N.land (s 4%nat) 0x0F) 8) (N.shiftl segment_number ConstsModulator.lich_segnum_shift))) in
  result.

(** ** send_link_setup: the LSF array, the LICH table, the bytes put on the queue *)
Definition lsf_field (k : nat) (dest source : list N) : list N := match k with O => dest | _ => source end.

Definition build_lsf (dest source : list N) : list N :=
  let lsf := repeat 0 ConstsModulator.lsf_len in                                               (* lsf.fill(0) *)
  let first := lsf_field ConstsModulator.lsf_first_field dest source in
  let lsf := copy_at lsf 0 first in                                              (* rit = std::copy(.., lsf.begin()) *)
  let lsf := copy_at lsf (length first) (lsf_field ConstsModulator.lsf_second_field dest source) in
  let lsf := fold_left (fun l w => set_nth l (fst w) (snd w)) ConstsModulator.lsf_type_writes lsf in   (* lsf[12] = 0; lsf[13] = 5 *)
  let checksum := crc_bytes_of ConstsModulator.crc_poly ConstsModulator.crc_init (firstn ConstsModulator.lsf_crc_span lsf) in      (* reset; crc_(lsf[i]) i < 28; get_bytes *)
  let lsf := set_nth lsf (fst ConstsModulator.lsf_crc_index) (nth 0 checksum 0) in
  set_nth lsf (snd ConstsModulator.lsf_crc_index) (nth 1 checksum 0).

Definition build_lich (lsf : list N) : list (list N) :=
  map (fun i => make_lich_segment (firstn ConstsModulator.lich_chunk_len (skipn (i * ConstsModulator.lich_chunk_len) lsf)) (u8 (N.of_nat i)))
      (seq 0 ConstsModulator.lich_count).

Definition lsf_frame (lsf : list N) : list N :=
  let encoded := conv_encode (uninit (conv_out_len (length lsf))) lsf in
  let punctured := puncture_bytes encoded (uninit ConstsModulator.lsf_punctured_len) (matrix ConstsModulator.lsf_puncture_matrix) in
  byte_randomize (interleave_bytes punctured).

Definition send_link_setup (dest source : list N) : list (list N) * list N :=
  let lsf := build_lsf dest source in
  (build_lich lsf, output_frame ConstsModulator.sync_lsf (lsf_frame lsf)).

(** ** make_payload / send_audio_frame / encode_audio / send_audio *)
Definition make_payload (frame_number : N) (payload : list N) : list N :=
  let data := uninit ConstsModulator.payload_message_len in
  let data := set_nth data 0 (u8 (N.land (N.shiftr frame_number 8) 0xFF)) in
  let data := set_nth data 1 (u8 (N.land frame_number 0xFF)) in
  let data := copy_at data ConstsModulator.payload_offset payload in
  let encoded := conv_encode (uninit (conv_out_len (length data))) data in
  puncture_bytes encoded (uninit ConstsModulator.payload_len) (matrix ConstsModulator.payload_puncture_matrix).

Definition send_audio_frame (lich data : list N) : list N :=
  let temp := uninit ConstsModulator.audio_frame_temp_len in
  let temp := copy_at temp 0 lich in
  let temp := copy_at temp (length lich) data in
  output_frame ConstsModulator.sync_stream (byte_randomize (interleave_bytes temp)).

Definition encode_audio (c : cstate) (audio : list Z) : cstate * list N :=
  fold_left (fun (st : cstate * list N) (call : nat * nat) =>
               let '(c, result) := st in
               let '(c', bytes) := codec2_encode c (firstn 160 (skipn (snd call) audio)) in
               (c', copy_at result (fst call) bytes))
            ConstsModulator.codec_calls (c, uninit ConstsModulator.codec_frame_len).

Definition send_audio (c : cstate) (lich : list N) (frame_number : N) (audio : list Z) : cstate * list N :=
  let '(c', encoded_audio) := encode_audio c audio in
  (c', send_audio_frame lich (make_payload frame_number encoded_audio)).

(** ** modulate(): one loop iteration; ptt_on / ptt_off *)
Inductive mode := INACTIVE | IDLE | PREAMBLE | LINK_SETUP | ACTIVE | END_OF_STREAM.

Record mstate := MkState {
  st_mode : mode;                  (* std::atomic<State> state_ *)
  st_index : nat;                  (* size_t index *)
  st_fn : N;                       (* uint16_t frame_number *)
  st_seg : N;                      (* uint8_t lich_segment *)
  st_audio : list Z;               (* audio_frame_t audio *)
  st_lich : list (list N);         (* lich_t lich *)
  st_codec : cstate                (* struct CODEC2* codec2_ *)
}.

(** the result of audio_queue_->get(sample, 5s) *)
Inductive event := Sample (z : Z) | Timeout.
Definition sample_of (e : event) : Z := match e with Sample z => z | Timeout => ConstsModulator.timeout_sample end.

Definition audio_zero : list Z := repeat 0%Z ConstsModulator.audio_frame_len.       (* audio.fill(0) *)

(** state at the loop head after `state_ = IDLE; codec2_create; index = 0; ...; audio.fill(0)` *)
Definition minit (c0 : cstate) : mstate :=
  MkState IDLE (N.to_nat (nth 0 ConstsModulator.init_locals 0)) (nth 1 ConstsModulator.init_locals 0) (nth 2 ConstsModulator.init_locals 0) audio_zero
          (map (fun _ => uninit ConstsModulator.lich_segment_len) (seq 0 ConstsModulator.lich_count)) c0.

Definition mstep (dest source : list N) (s : mstate) (e : event) : mstate * list N :=
  let sample := sample_of e in
  match st_mode s with
  | INACTIVE => (s, [])
  | IDLE => (s, [])
  | PREAMBLE =>
      (MkState LINK_SETUP (st_index s) (st_fn s) (st_seg s) (st_audio s) (st_lich s) (st_codec s), send_preamble)
  | LINK_SETUP =>
      let '(lich, out) := send_link_setup dest source in
      (MkState ACTIVE (N.to_nat (nth 0 ConstsModulator.keyup_locals 0)) (nth 1 ConstsModulator.keyup_locals 0) (nth 2 ConstsModulator.keyup_locals 0)
               (st_audio s) lich (st_codec s), out)
  | ACTIVE =>
      let audio := set_nth (st_audio s) (st_index s) sample in            (* audio[index++] = sample *)
      let index := S (st_index s) in
      if Nat.eqb index (length audio) then
        let '(c, out) := send_audio (st_codec s) (nth (N.to_nat (st_seg s)) (st_lich s) []) (st_fn s) audio in
        let seg := u8 (st_seg s + 1) in                                     (* lich_segment++ *)
        let fn := u16 (st_fn s + 1) in                                      (* frame_number++ *)
        let fn := if N.eqb fn ConstsModulator.fn_wrap_at then ConstsModulator.fn_wrap_to else fn in
        let seg := if N.eqb seg (N.of_nat (length (st_lich s))) then ConstsModulator.lich_wrap_to else seg in
        (MkState ACTIVE (N.to_nat ConstsModulator.active_index_reset) fn seg audio_zero (st_lich s) c, out)
      else (MkState ACTIVE index (st_fn s) (st_seg s) audio (st_lich s) (st_codec s), [])
  | END_OF_STREAM =>
      let audio := set_nth (st_audio s) (st_index s) sample in
      let index := S (st_index s) in
      let '(c, out) := send_audio (st_codec s) (nth (N.to_nat (st_seg s)) (st_lich s) []) (u16 (N.lor (st_fn s) ConstsModulator.eos_mask)) audio in
      (MkState IDLE index (u16 (st_fn s + 1)) (u8 (st_seg s + 1)) audio_zero (st_lich s) c, out)
  end.

(** API calls as atomic events on state_: they take effect only where the C++ lets them proceed *)
Inductive item := Ev (e : event) | PttOn | PttOff.

(** can the call complete (rather than sleep) in this state? *)
Definition enabled (s : mstate) (it : item) : bool :=
  match it, st_mode s with
  | Ev _, _ => true
  | PttOn, (IDLE | ACTIVE) => true           (* ACTIVE: returns at once *)
  | PttOff, ACTIVE => true
  | _, _ => false
  end.

Definition set_mode (s : mstate) (m : mode) : mstate :=
  MkState m (st_index s) (st_fn s) (st_seg s) (st_audio s) (st_lich s) (st_codec s).

Definition step_item (dest source : list N) (s : mstate) (it : item) : mstate * list N :=
  match it with
  | Ev e => mstep dest source s e
  | PttOn => (match st_mode s with IDLE => set_mode s PREAMBLE | _ => s end, [])
  | PttOff => (match st_mode s with ACTIVE => set_mode s END_OF_STREAM | _ => s end, [])
  end.

(** a schedule: every item must be enabled when it occurs; the bytes put on the output queue, in order *)
Fixpoint run (dest source : list N) (s : mstate) (sched : list item) : option (mstate * list N) :=
  match sched with
  | [] => Some (s, [])
  | it :: rest =>
      if enabled s it then
        let '(s', out) := step_item dest source s it in
        match run dest source s' rest with Some (s'', out') => Some (s'', out ++ out') | None => None end
      else None
  end.

(** source(callsign) / dest(callsign) assign source_ / dest_ (used by send_link_setup only).  Called between schedules while
    the modulator thread runs: a configured schedule is a list of segments, each run with the pair configured before it, from
    the state the previous one left - including the LICH segments, audio buffer and counters of earlier key-ups. *)
Fixpoint run_segments (s : mstate) (segs : list (list N * list N * list item)) : option (mstate * list N) :=
  match segs with
  | [] => Some (s, [])
  | (dest, source, sched) :: rest =>
      match run dest source s sched with
      | Some (s', out) =>
          match run_segments s' rest with Some (s'', out') => Some (s'', out ++ out') | None => None end
      | None => None
      end
  end.
End Modulator.
