(** Proofs for C17 (callsign codec).  Structural: the set of callsigns (39^9) cannot be swept. *)
From Coq Require Import NArith ZArith List Bool Arith Lia ZifyBool ZifyNat ZifyN.
From M17 Require Import Bits ConstsCallsign ImplCallsign SpecCallsign.
Import ListNotations.
Local Open Scope N_scope.
Ltac Zify.zify_post_hook ::= Z.div_mod_to_equations.

(** * constants the model depends on, as regenerated from the source *)
Lemma c_call_size : ConstsCallsign.call_size = 10%nat. Proof. reflexivity. Qed.
Lemma c_enc_mul : ConstsCallsign.enc_mul = 40. Proof. reflexivity. Qed.
Lemma c_dec_mod : ConstsCallsign.dec_mod = 40. Proof. reflexivity. Qed.
Lemma c_dec_div : ConstsCallsign.dec_div = 40. Proof. reflexivity. Qed.
Lemma c_reserve : ConstsCallsign.dec_index_reserve = Some 1%nat. Proof. reflexivity. Qed.
Lemma c_broadcast_address : ConstsCallsign.broadcast_address = [255;255;255;255;255;255]. Proof. reflexivity. Qed.
Lemma c_broadcast_call : ConstsCallsign.broadcast_call = pad10 broadcast_text. Proof. reflexivity. Qed.

(** * the character table *)
Definition cdig (c : N) : N := match char_digit c with Some d => d | None => 0 end.

Definition tbl (d : N) : N := nth (N.to_nat d) ConstsCallsign.callsign_map 0.

Lemma char_digit_range c d : char_digit c = Some d -> 1 <= d <= 39.
Proof. unfold char_digit, ConstsCallsign.enc_ranges. cbn [char_digit_in].
  repeat match goal with |- context [if ?b then _ else _] => destruct b eqn:? end;
    intros E; inversion E; subst; lia. Qed.

Lemma cdig_lt c : cdig c < 40.
Proof. unfold cdig. destruct (char_digit c) eqn:E; [apply char_digit_range in E|]; lia. Qed.

(** the code's if-chain agrees with the specification's alphabet on every byte
    (the space and every unmapped character contribute 0) *)
Lemma cdig_spec_sweep : below 8 (fun c => cdig c =? digit_or_0 c) = true.
Proof. vm_cast_no_check (eq_refl true). Qed.
Lemma cdig_spec c : c < 256 -> cdig c = digit_or_0 c.
Proof. intros H. apply N.eqb_eq. exact (below_spec 8 _ cdig_spec_sweep c H). Qed.

Definition char_ok (c : N) : bool :=
  match char_digit c with
  | Some d => (N.eqb (tbl d) c) && (match spec_digit c with Some d' => d' =? d | None => false end)
              && negb (c =? 0) && (c <? 256) && (match nth_error ConstsCallsign.callsign_map (N.to_nat d) with Some x => x =? c | None => false end)
  | None => false
  end.
Lemma chars_ok : forallb char_ok callsign_chars = true.
Proof. vm_compute. reflexivity. Qed.

Lemma valid_charb_valid c : valid_charb c = true -> valid_char c.
Proof. unfold valid_charb, valid_char. intros H. apply existsb_exists in H. destruct H as [x [I E]].
  apply N.eqb_eq in E. subst. exact I. Qed.

Lemma valid_char_facts c : valid_char c ->
  exists d, char_digit c = Some d /\ 1 <= d <= 39 /\ tbl d = c /\ spec_digit c = Some d /\ c <> 0 /\ c < 256
            /\ nth_error ConstsCallsign.callsign_map (N.to_nat d) = Some c.
Proof. intros H. pose proof (proj1 (forallb_forall _ _) chars_ok c H) as K. unfold char_ok in K.
  destruct (char_digit c) as [d|] eqn:E; [|discriminate]. exists d.
  destruct (spec_digit c) as [d'|]; [|rewrite andb_false_r in K; discriminate].
  destruct (nth_error _ _) as [x|]; [|rewrite andb_false_r in K; discriminate].
  pose proof (char_digit_range _ _ E). repeat split; try lia; try (f_equal; lia). Qed.

Lemma cdig_valid c : valid_char c -> 1 <= cdig c <= 39 /\ tbl (cdig c) = c /\ c <> 0.
Proof. intros H. destruct (valid_char_facts c H) as [d [E [R [T [_ [Z _]]]]]]. unfold cdig. rewrite E. auto. Qed.

Lemma every_table_char_nonzero : forall d, d < 40 -> tbl d <> 0.
Proof. intros d H. assert (S : below 6 (fun d => (40 <=? d) || negb (tbl d =? 0)) = true) by (vm_compute; reflexivity).
  pose proof (below_spec 6 _ S d ltac:(simpl; lia)) as K. cbv beta in K. lia. Qed.

Lemma table_lookup d : d < 40 -> nth_error ConstsCallsign.callsign_map (N.to_nat d) = Some (tbl d).
Proof. intros H. unfold tbl. apply nth_error_nth'. change (length ConstsCallsign.callsign_map) with 41%nat. lia. Qed.

(** * value40 *)
Lemma value40_app_zeros l k : value40 (l ++ repeat 0 k) = value40 l.
Proof. induction l as [|d l IH]; cbn [app value40 fold_right].
- induction k; [reflexivity|]. cbn [repeat value40 fold_right]. unfold value40 in IHk. rewrite IHk. reflexivity.
- unfold value40 in IH. rewrite IH. reflexivity. Qed.

Lemma value40_bound l : Forall (fun d => d < 40) l -> value40 l < 40 ^ N.of_nat (length l).
Proof. induction 1 as [|d l Hd _ IH]; [cbn; lia|].
  cbn [length value40 fold_right]. rewrite Nat2N.inj_succ, N.pow_succ_r'. unfold value40 in IH. lia. Qed.

Lemma pow40_mono a b : (a <= b)%nat -> 40 ^ N.of_nat a <= 40 ^ N.of_nat b.
Proof. intros H. apply N.pow_le_mono_r; lia. Qed.

Lemma horner (f : N -> N) s : fold_left (fun a c => a * 40 + f c) (rev s) 0 = value40 (map f s).
Proof. induction s as [|c s IH]; [reflexivity|].
  cbn [rev map value40 fold_right]. rewrite fold_left_app. cbn [fold_left]. rewrite IH. unfold value40. lia. Qed.

(** * encode: the uint64 accumulator never wraps on ten characters *)
Lemma pow40_10_lt_u64 : 40 ^ 10 < U64. Proof. reflexivity. Qed.

Lemma enc_step_nowrap acc c k : acc < 40 ^ N.of_nat k -> (k < 10)%nat ->
  enc_step acc c = acc * 40 + cdig c /\ enc_step acc c < 40 ^ N.of_nat (S k).
Proof. intros Ha Hk. pose proof (cdig_lt c) as Hd. pose proof (pow40_mono (S k) 10 ltac:(lia)) as Hm.
  pose proof pow40_10_lt_u64 as HU. change (N.of_nat 10) with 10 in Hm.
  rewrite Nat2N.inj_succ, N.pow_succ_r' in *.
  assert (B : acc * 40 + cdig c < 40 * 40 ^ N.of_nat k) by lia.
  unfold enc_step. rewrite c_enc_mul. unfold cdig in *.
  destruct (char_digit c) as [d|].
  - rewrite (N.mod_small (acc * 40)) by lia. rewrite N.mod_small by lia. lia.
  - rewrite N.mod_small by lia. lia. Qed.

Lemma enc_fold_nowrap l : forall acc k, acc < 40 ^ N.of_nat k -> (k + length l <= 10)%nat ->
  fold_left enc_step l acc = fold_left (fun a c => a * 40 + cdig c) l acc
  /\ fold_left enc_step l acc < 40 ^ N.of_nat (k + length l).
Proof. induction l as [|c l IH]; intros acc k Ha Hk.
- cbn [fold_left length]. rewrite Nat.add_0_r. auto.
- cbn [fold_left length] in *. destruct (enc_step_nowrap acc c k Ha ltac:(lia)) as [E B].
  rewrite E in *. replace (k + S (length l))%nat with (S k + length l)%nat by lia. apply IH; [exact B|lia]. Qed.

Lemma encode_acc_value cs : (length cs <= 10)%nat ->
  encode_acc cs = value40 (map cdig cs) /\ encode_acc cs < 40 ^ 10.
Proof. intros H. unfold encode_acc.
  destruct (enc_fold_nowrap (rev cs) 0 0 ltac:(cbn; lia) ltac:(rewrite rev_length; lia)) as [E B].
  rewrite E in *. rewrite horner in *. split; [reflexivity|].
  eapply N.lt_le_trans; [exact B|]. rewrite rev_length. apply (pow40_mono _ 10). lia. Qed.

Lemma map_cdig_spec cs : Forall (fun c => c < 256) cs -> map cdig cs = map digit_or_0 cs.
Proof. induction 1 as [|c cs Hc _ IH]; [reflexivity|]. cbn [map]. rewrite IH, (cdig_spec c Hc). reflexivity. Qed.

Lemma encode_no_wrap_lemma cs : length cs = 10%nat -> Forall (fun c => c < 256) cs ->
  encode_acc cs = spec_value cs /\ spec_value cs < 40 ^ 10 /\ 40 ^ 10 < 2 ^ 64.
Proof. intros L B. destruct (encode_acc_value cs ltac:(lia)) as [E Hb]. unfold spec_value.
  rewrite <- (map_cdig_spec cs B), <- E. split; [reflexivity|split; [exact Hb|reflexivity]]. Qed.

(** * bytes *)
Lemma u64_byte_div e i : u64_byte e i = (e / 2 ^ (8 * N.of_nat i)) mod 256.
Proof. unfold u64_byte. rewrite N.shiftr_div_pow2. change 255 with (N.ones 8). rewrite N.land_ones. reflexivity. Qed.

Lemma low_bytes_be_eq e : low_bytes_be e = be_bytes6 (e mod 2 ^ 48).
Proof. unfold low_bytes_be, be_bytes6. change ConstsCallsign.enc_copy with 6%nat. cbn [seq map rev app].
  rewrite !u64_byte_div.
  change (8 * N.of_nat 0) with 0. change (8 * N.of_nat 1) with 8. change (8 * N.of_nat 2) with 16.
  change (8 * N.of_nat 3) with 24. change (8 * N.of_nat 4) with 32. change (8 * N.of_nat 5) with 40.
  change (2 ^ 0) with 1. change (2 ^ 8) with 256. change (2 ^ 16) with 65536. change (2 ^ 24) with 16777216.
  change (2 ^ 32) with 4294967296. change (2 ^ 40) with 1099511627776. change (2 ^ 48) with 281474976710656.
  repeat match goal with |- _ :: _ = _ :: _ => apply (f_equal2 cons); [lia|] end. reflexivity. Qed.

Lemma be_value_bytes6 v : v < 2 ^ 48 -> be_value (be_bytes6 v) = v.
Proof. intros H. unfold be_value, be_bytes6. cbn [fold_left].
  change (2 ^ 8) with 256. change (2 ^ 16) with 65536. change (2 ^ 24) with 16777216.
  change (2 ^ 32) with 4294967296. change (2 ^ 40) with 1099511627776. change (2 ^ 48) with 281474976710656 in H.
  lia. Qed.

Lemma address_value_be a : address_value a = be_value a.
Proof. unfold address_value, le_u64, be_value. rewrite fold_left_rev_right.
  generalize 0. induction a as [|b a IH]; intros acc; [reflexivity|]. cbn [fold_left]. rewrite IH. f_equal. lia. Qed.

Lemma list_N_eqb_eq a b : list_N_eqb a b = true <-> a = b.
Proof. unfold list_N_eqb. revert b. induction a as [|x a IH]; intros [|y b]; cbn [length combine forallb fst snd Nat.eqb]; try (split; [discriminate|discriminate]); [tauto|].
  specialize (IH b). rewrite !andb_true_iff in *. rewrite N.eqb_eq. split.
  - intros [L [E F]]. subst. f_equal. apply IH. auto.
  - intros [= -> ->]. destruct IH as [_ IH]. specialize (IH eq_refl). tauto. Qed.

(** * decode: the digit loop *)
Lemma set_nth_app pre x k c : set_nth (pre ++ x :: repeat 0 k) (length pre) c = Some ((pre ++ [c]) ++ repeat 0 k).
Proof. induction pre as [|h pre IH]; [reflexivity|]. cbn [app length set_nth]. rewrite IH. reflexivity. Qed.

Lemma dec_continue_eq e i : dec_continue e i = negb (e =? 0) && negb (Nat.eqb i 9).
Proof. unfold dec_continue, dec_continue_with. rewrite c_reserve, c_call_size. reflexivity. Qed.

Lemma decode_loop_eq fuel e i res :
  decode_loop fuel e i res =
  if dec_continue e i then
    match fuel with
    | O => None
    | S f =>
        match nth_error ConstsCallsign.callsign_map (N.to_nat (e mod ConstsCallsign.dec_mod)) with
        | None => None
        | Some ch => match set_nth res i ch with
                     | None => None
                     | Some res' => decode_loop f (e / ConstsCallsign.dec_div) (S i) res'
                     end
        end
    end
  else Some res.
Proof. unfold decode_loop, dec_continue. destruct fuel; reflexivity. Qed.

Lemma decode_loop_char : forall n e pre fuel, (length pre + n = 9)%nat -> (n <= fuel)%nat ->
  decode_loop fuel e (length pre) (pre ++ repeat 0 (S n)) =
  Some (pre ++ map tbl (digits40 n e) ++ repeat 0 (S n - length (digits40 n e))).
Proof. induction n as [|n IH]; intros e pre fuel L F.
- assert (length pre = 9%nat) by lia. rewrite decode_loop_eq, dec_continue_eq, H, andb_false_r. reflexivity.
- destruct fuel as [|fuel]; [lia|]. rewrite decode_loop_eq. cbn [digits40]. rewrite dec_continue_eq.
  replace (Nat.eqb (length pre) 9) with false by (symmetry; apply Nat.eqb_neq; lia).
  destruct (e =? 0) eqn:E0; cbn [negb andb]; [reflexivity|].
  rewrite c_dec_mod, c_dec_div. rewrite (table_lookup (e mod 40)) by (apply N.mod_lt; lia).
  change (repeat 0 (S (S n))) with (0 :: repeat 0 (S n)). rewrite set_nth_app.
  replace (S (length pre)) with (length (pre ++ [tbl (e mod 40)])) by (rewrite app_length; cbn; lia).
  rewrite IH by (try rewrite app_length; cbn [length]; lia).
  cbn [map length app]. rewrite <- app_assoc. cbn [app]. reflexivity. Qed.

Lemma digits40_length n e : (length (digits40 n e) <= n)%nat.
Proof. revert e; induction n as [|n IH]; intros e; cbn [digits40]; [cbn; lia|].
  destruct (e =? 0); cbn [length]; [lia|]. specialize (IH (e / 40)). lia. Qed.

Lemma digits40_lt n e : Forall (fun d => d < 40) (digits40 n e).
Proof. revert e; induction n as [|n IH]; intros e; cbn [digits40]; [constructor|].
  destruct (e =? 0); constructor; [apply N.mod_lt; lia | apply IH]. Qed.

Lemma nth_repeat_in (a d : N) m : forall i, (i < m)%nat -> nth i (repeat a m) d = a.
Proof. induction m as [|m IH]; intros i H; [lia|]. destruct i; [reflexivity|]. cbn [repeat nth]. apply IH. lia. Qed.

Definition decoded_of (v : N) : list N := pad10 (map tbl (digits40 9 v)).

Lemma decode_not_broadcast a : a <> ConstsCallsign.broadcast_address ->
  decode_callsign a = Some (decoded_of (be_value a)).
Proof. intros H. unfold decode_callsign, decode_callsign_with. fold decode_loop. destruct (list_N_eqb a _) eqn:E; [apply list_N_eqb_eq in E; contradiction|].
  rewrite c_call_size, address_value_be.
  pose proof (decode_loop_char 9 (be_value a) [] 64 eq_refl ltac:(lia)) as K.
  etransitivity; [exact K|]. cbn [app].
  unfold decoded_of, pad10. rewrite map_length. reflexivity. Qed.

(** the loop as it was before fix 766f992 (no bound): the address 40^9 fills all ten characters - the defect F3 *)
Lemma unbounded_loop_unterminated :
  decode_callsign_with None [0xEE; 0x6B; 0x28; 0; 0; 0] = Some (repeat 120 9 ++ [65]).
Proof. vm_compute. reflexivity. Qed.

Lemma decode_broadcast : decode_callsign ConstsCallsign.broadcast_address = Some ConstsCallsign.broadcast_call.
Proof. reflexivity. Qed.

Lemma decode_total_lemma a : exists r, decode_callsign a = Some r /\ length r = 10%nat.
Proof. destruct (list_eq_dec N.eq_dec a ConstsCallsign.broadcast_address) as [->|H].
- exists ConstsCallsign.broadcast_call. split; reflexivity.
- exists (decoded_of (be_value a)). split; [apply decode_not_broadcast; exact H|].
  unfold decoded_of, pad10. rewrite app_length, repeat_length, map_length.
  pose proof (digits40_length 9 (be_value a)). lia. Qed.

(** a NUL-free string followed only by NULs *)
Lemma c_string_pad s k : Forall (fun c => c <> 0) s -> c_string (s ++ repeat 0 (S k)) = s.
Proof. induction 1 as [|c s Hc _ IH]; [reflexivity|]. cbn [app c_string].
  destruct (c =? 0) eqn:E; [apply N.eqb_eq in E; contradiction|]. rewrite IH. reflexivity. Qed.

Lemma decoded_of_terminated v :
  nth 9 (decoded_of v) 1 = 0 /\ (length (c_string (decoded_of v)) <= 9)%nat /\ decoded_of v = pad10 (c_string (decoded_of v))
  /\ c_string (decoded_of v) = map tbl (digits40 9 v).
Proof. unfold decoded_of. set (w := map tbl (digits40 9 v)).
  assert (Lw : (length w <= 9)%nat) by (unfold w; rewrite map_length; apply digits40_length).
  assert (Nz : Forall (fun c => c <> 0) w).
  { unfold w. apply Forall_forall. intros c Hc. apply in_map_iff in Hc. destruct Hc as [d [<- Hd]].
    apply every_table_char_nonzero. exact (proj1 (Forall_forall _ _) (digits40_lt 9 v) d Hd). }
  assert (C : c_string (pad10 w) = w).
  { unfold pad10. replace (10 - length w)%nat with (S (9 - length w)) by lia. apply c_string_pad. exact Nz. }
  rewrite C. repeat split; try assumption; try reflexivity.
  unfold pad10. rewrite app_nth2 by lia. apply nth_repeat_in. lia. Qed.

Lemma decode_terminated_lemma a r : decode_callsign a = Some r ->
  nth 9 r 1 = 0 /\ (length (c_string r) <= 9)%nat /\ r = pad10 (c_string r).
Proof. destruct (list_eq_dec N.eq_dec a ConstsCallsign.broadcast_address) as [->|H].
- rewrite decode_broadcast. intros [= <-]. rewrite c_broadcast_call. vm_compute. repeat split; lia || reflexivity.
- rewrite (decode_not_broadcast a H). intros [= <-]. destruct (decoded_of_terminated (be_value a)) as [A [B [C _]]]. auto. Qed.

(** * round trip *)
Lemma digits40_value40 ds : forall n, (length ds <= n)%nat -> Forall (fun d => 1 <= d <= 39) ds ->
  digits40 n (value40 ds) = ds.
Proof. induction ds as [|d ds IH]; intros n L F.
- destruct n; reflexivity.
- destruct n as [|n]; [cbn in L; lia|]. inversion F as [|? ? Hd F']; subst.
  cbn [value40 fold_right digits40]. fold (value40 ds).
  replace (d + 40 * value40 ds =? 0) with false by (symmetry; apply N.eqb_neq; lia).
  replace ((d + 40 * value40 ds) mod 40) with d by lia.
  replace ((d + 40 * value40 ds) / 40) with (value40 ds) by lia.
  rewrite IH; [reflexivity| cbn in L; lia | exact F']. Qed.

Lemma valid_bytes s : Forall valid_char s -> Forall (fun c => c < 256) s.
Proof. intros H. eapply Forall_impl; [|exact H]. intros c Hc. destruct (valid_char_facts c Hc) as [d K]. tauto. Qed.

Lemma spec_value_valid s : Forall valid_char s -> spec_value s = value40 (map cdig s).
Proof. intros H. unfold spec_value. rewrite (map_cdig_spec s (valid_bytes s H)). reflexivity. Qed.

Lemma cdig_0 : cdig 0 = 0. Proof. reflexivity. Qed.

Lemma encode_acc_pad10 s : (length s <= 10)%nat -> encode_acc (pad10 s) = value40 (map cdig s).
Proof. intros L. destruct (encode_acc_value (pad10 s)) as [E _].
  { unfold pad10. rewrite app_length, repeat_length. lia. }
  rewrite E. unfold pad10. rewrite map_app.
  replace (map cdig (repeat 0 (10 - length s))) with (repeat 0 (10 - length s)).
  - apply value40_app_zeros.
  - induction (10 - length s)%nat; [reflexivity|]. cbn [repeat map]. rewrite cdig_0. f_equal. assumption. Qed.

Lemma pow40_9_lt_2_48 : 40 ^ 9 < 2 ^ 48. Proof. reflexivity. Qed.

Lemma valid_value_bound s : valid_callsign s -> value40 (map cdig s) < 40 ^ 9.
Proof. intros [L F]. eapply N.lt_le_trans.
  - apply value40_bound. apply Forall_forall. intros d Hd. apply in_map_iff in Hd. destruct Hd as [c [<- _]]. apply cdig_lt.
  - rewrite map_length. apply (pow40_mono _ 9). lia. Qed.

Lemma encode_value_lemma s : valid_callsign s ->
  encode_callsign (pad10 s) = spec_encode s /\ be_value (encode_callsign (pad10 s)) = spec_value s
  /\ spec_value s < 40 ^ 9 /\ 40 ^ 9 < 2 ^ 48.
Proof. intros V. pose proof (valid_value_bound s V) as B. destruct V as [L F].
  unfold encode_callsign, spec_encode. rewrite encode_acc_pad10 by lia. rewrite low_bytes_be_eq.
  rewrite spec_value_valid by exact F. pose proof pow40_9_lt_2_48 as P.
  rewrite N.mod_small by lia. rewrite be_value_bytes6 by lia.
  split; [reflexivity|]. split; [reflexivity|]. split; [exact B|exact P]. Qed.

Lemma be_value_broadcast : be_value ConstsCallsign.broadcast_address = 2 ^ 48 - 1. Proof. reflexivity. Qed.

Lemma no_valid_is_broadcast_lemma s : valid_callsign s -> encode_callsign (pad10 s) <> ConstsCallsign.broadcast_address.
Proof. intros V E. destruct (encode_value_lemma s V) as [_ [E2 [B P]]]. rewrite E in E2. rewrite be_value_broadcast in E2.
  change (2 ^ 48 - 1) with 281474976710655 in E2. change (2 ^ 48) with 281474976710656 in P. lia. Qed.

Lemma roundtrip_lemma s : valid_callsign s -> decode_callsign (encode_callsign (pad10 s)) = Some (pad10 s).
Proof. intros V. rewrite (decode_not_broadcast _ (no_valid_is_broadcast_lemma s V)).
  destruct (encode_value_lemma s V) as [_ [E2 _]]. rewrite E2. destruct V as [L F].
  rewrite spec_value_valid by exact F. unfold decoded_of. f_equal. f_equal.
  rewrite digits40_value40.
  - rewrite map_map. rewrite <- (map_id s) at 2. apply map_ext_in. intros c Hc.
    apply (cdig_valid c). exact (proj1 (Forall_forall _ _) F c Hc).
  - rewrite map_length. lia.
  - apply Forall_forall. intros d Hd. apply in_map_iff in Hd. destruct Hd as [c [<- Hc]].
    apply (cdig_valid c). exact (proj1 (Forall_forall _ _) F c Hc). Qed.

Lemma pad10_inj s1 s2 : valid_callsign s1 -> valid_callsign s2 -> pad10 s1 = pad10 s2 -> s1 = s2.
Proof. intros [L1 F1] [L2 F2] E.
  assert (N1 : Forall (fun c => c <> 0) s1) by (eapply Forall_impl; [|exact F1]; intros c Hc; apply (cdig_valid c Hc)).
  assert (N2 : Forall (fun c => c <> 0) s2) by (eapply Forall_impl; [|exact F2]; intros c Hc; apply (cdig_valid c Hc)).
  unfold pad10 in E.
  replace (10 - length s1)%nat with (S (9 - length s1)) in E by lia.
  replace (10 - length s2)%nat with (S (9 - length s2)) in E by lia.
  rewrite <- (c_string_pad s1 (9 - length s1) N1), <- (c_string_pad s2 (9 - length s2) N2), E. reflexivity. Qed.

Lemma encode_injective_lemma s1 s2 : valid_callsign s1 -> valid_callsign s2 ->
  encode_callsign (pad10 s1) = encode_callsign (pad10 s2) -> s1 = s2.
Proof. intros V1 V2 E. apply (pad10_inj s1 s2 V1 V2).
  pose proof (roundtrip_lemma s1 V1) as R1. pose proof (roundtrip_lemma s2 V2) as R2. rewrite E in R1. rewrite R1 in R2.
  injection R2. auto. Qed.

(** * decode followed by (non-strict) encode gives back the address modulo 40^9: the 'x' that the table prints for
      a zero digit is unmapped in encode_callsign and therefore contributes the same 0 *)
Lemma cdig_tbl_sweep : below 6 (fun d => (40 <=? d) || (cdig (tbl d) =? d)) = true.
Proof. vm_compute. reflexivity. Qed.
Lemma cdig_tbl d : d < 40 -> cdig (tbl d) = d.
Proof. intros H. pose proof (below_spec 6 _ cdig_tbl_sweep d ltac:(simpl; lia)) as K. cbv beta in K. lia. Qed.

Lemma value40_digits40 n : forall v, value40 (digits40 n v) = v mod 40 ^ N.of_nat n.
Proof. induction n as [|n IH]; intros v.
- cbn. rewrite N.mod_1_r. reflexivity.
- cbn [digits40]. destruct (v =? 0) eqn:E.
  + apply N.eqb_eq in E. subst. rewrite N.mod_0_l; [reflexivity|]. apply N.pow_nonzero. lia.
  + cbn [value40 fold_right]. fold (value40 (digits40 n (v / 40))). rewrite IH.
    rewrite Nat2N.inj_succ, N.pow_succ_r'.
    rewrite (N.mod_mul_r v 40 (40 ^ N.of_nat n)) by (try apply N.pow_nonzero; lia). reflexivity. Qed.

Lemma decode_encode_lemma a r : a <> ConstsCallsign.broadcast_address -> decode_callsign a = Some r ->
  be_value (encode_callsign r) = be_value a mod 40 ^ 9.
Proof. intros H. rewrite (decode_not_broadcast a H). intros [= <-]. unfold decoded_of, encode_callsign.
  pose proof (digits40_length 9 (be_value a)) as L.
  rewrite encode_acc_pad10 by (rewrite map_length; lia).
  rewrite map_map. rewrite (map_ext_in (fun x => cdig (tbl x)) (fun x => x)).
  2:{ intros d Hd. apply cdig_tbl. exact (proj1 (Forall_forall _ _) (digits40_lt 9 (be_value a)) d Hd). }
  rewrite map_id. rewrite (value40_digits40 9). change (N.of_nat 9) with 9.
  rewrite low_bytes_be_eq. pose proof pow40_9_lt_2_48 as P.
  assert (be_value a mod 40 ^ 9 < 40 ^ 9) by (apply N.mod_lt; apply N.pow_nonzero; lia).
  rewrite N.mod_small by lia. apply be_value_bytes6. lia. Qed.

(** * the strict flag *)
Lemma enc_gen_nonstrict l : forall acc, fold_left (enc_step_gen false) l (Some acc) = Some (fold_left enc_step l acc).
Proof. induction l as [|c l IH]; intros acc; [reflexivity|]. cbn [fold_left]. rewrite <- IH. f_equal.
  unfold enc_step_gen, enc_step. destruct (char_digit c); reflexivity. Qed.

Lemma encode_gen_nonstrict cs : encode_callsign_gen false cs = Some (encode_callsign cs).
Proof. unfold encode_callsign_gen, encode_callsign, encode_acc. rewrite enc_gen_nonstrict. reflexivity. Qed.

Lemma enc_gen_none strict l : fold_left (enc_step_gen strict) l None = None.
Proof. induction l; [reflexivity|]. cbn [fold_left enc_step_gen]. assumption. Qed.

Lemma enc_gen_strict l : forall acc,
  fold_left (enc_step_gen true) l (Some acc) =
  if forallb (fun c => match char_digit c with Some _ => true | None => false end) l then Some (fold_left enc_step l acc) else None.
Proof. induction l as [|c l IH]; intros acc; [reflexivity|]. cbn [fold_left forallb].
  unfold enc_step_gen at 2, enc_step at 2. destruct (char_digit c); cbn [andb].
  - apply IH.
  - apply enc_gen_none. Qed.

Definition all_mapped (cs : list N) : bool := forallb (fun c => match char_digit c with Some _ => true | None => false end) cs.

Lemma encode_gen_strict cs :
  encode_callsign_gen true cs = if all_mapped cs then Some (encode_callsign cs) else None.
Proof. unfold encode_callsign_gen, encode_callsign, encode_acc, all_mapped. rewrite enc_gen_strict.
  replace (forallb _ (rev cs)) with (forallb (fun c => match char_digit c with Some _ => true | None => false end) cs).
  - destruct (forallb _ cs); reflexivity.
  - induction cs as [|c cs IH]; [reflexivity|]. cbn [rev forallb]. rewrite forallb_app. cbn [forallb]. rewrite IH.
    rewrite andb_true_r. apply andb_comm. Qed.

Lemma strict_rejects_short_lemma s : (length s < 10)%nat -> encode_callsign_gen true (pad10 s) = None.
Proof. intros L. rewrite encode_gen_strict. unfold all_mapped, pad10. rewrite forallb_app.
  replace (10 - length s)%nat with (S (9 - length s)) by lia. cbn [repeat forallb].
  change (char_digit 0) with (@None N). cbn [andb]. rewrite andb_false_r. reflexivity. Qed.

(** * relation with the specification's decoder *)
Definition x_for_space (c : N) : N := if c =? 32 then 120 else c.
Lemma tbl_alphabet_sweep : below 6 (fun d => (40 <=? d) || (tbl d =? x_for_space (nth (N.to_nat d) alphabet 0))) = true.
Proof. vm_compute. reflexivity. Qed.
Lemma tbl_alphabet d : d < 40 -> tbl d = x_for_space (nth (N.to_nat d) alphabet 0).
Proof. intros H. pose proof (below_spec 6 _ tbl_alphabet_sweep d ltac:(simpl; lia)) as K. cbv beta in K. lia. Qed.
Lemma tbl_alphabet_nonzero d : 1 <= d < 40 -> tbl d = nth (N.to_nat d) alphabet 0.
Proof. intros H. assert (S : below 6 (fun d => (40 <=? d) || (d =? 0) || (tbl d =? nth (N.to_nat d) alphabet 0)) = true) by (vm_compute; reflexivity).
  pose proof (below_spec 6 _ S d ltac:(simpl; lia)) as K. cbv beta in K. lia. Qed.

Lemma decode_vs_spec_lemma a s : spec_decode a = Callsign s ->
  decode_callsign a = Some (pad10 (map x_for_space s)).
Proof. unfold spec_decode. destruct (be_value a =? broadcast_value) eqn:B; [discriminate|].
  destruct (reserved_from <=? be_value a) eqn:R; [discriminate|]. intros [= <-].
  assert (H : a <> ConstsCallsign.broadcast_address).
  { intros ->. rewrite be_value_broadcast in B. vm_compute in B. discriminate. }
  rewrite (decode_not_broadcast a H). unfold decoded_of. f_equal. f_equal. rewrite map_map.
  apply map_ext_in. intros d Hd. apply tbl_alphabet. exact (proj1 (Forall_forall _ _) (digits40_lt 9 (be_value a)) d Hd). Qed.
