(** C15 — mobilinkd::queue is a race-free bounded FIFO under every thread interleaving.
    Model: ImplQueue.v (small-step interleaving semantics of queue.h, parameterised by the facts audited from the
    source into gen/ConstsQueue.v); specification: SpecQueue.v.  All theorems quantify over every capacity, every
    reachable configuration (= every schedule, any number of threads, any operation sequences, any clock). *)
From Coq Require Import ZArith List Bool Arith.
From M17 Require Import ImplQueue SpecQueue ConstsQueue LemmasQueue_A LemmasQueue_B LemmasQueue_C LemmasQueue_D
                        LemmasQueue_E LemmasQueue_Exec.
Import ListNotations.

(** 1. size_ is the number of queued items whenever no thread is between the two statements of a commit
       (in particular whenever the mutex is free, and whenever size()/empty() read it), and never exceeds SIZE *)
Theorem c15_inv_size : forall cap c, reachable cap c ->
  length (items c) <= cap /\
  ((forall t, mid (pcs c t) = false) -> size_ c = length (items c)) /\
  (mutex c = None -> size_ c = length (items c)).
Proof.
  intros cap c R. destruct (inv_B_reach cap c R) as (_ & A & B & _). repeat split; auto. exact (size_when_free cap c R).
Qed.
Print Assumptions c15_inv_size.

(** 2. everything ever accepted = everything delivered so far, in the same order, followed by what is still queued:
       no loss, no duplication, FIFO — across close() as well *)
Theorem c15_inv_fifo : forall cap c, reachable cap c -> map snd (enq c) = deq c ++ items c.
Proof. exact fifo_reach. Qed.
Print Assumptions c15_inv_fifo.

(** 3. per thread the history is (invocation, one linearization point, response reporting that point's result)*,
       and the committed enqueues/dequeues are exactly the successful linearization points of puts/gets:
       put returns true iff it committed an enqueue; get returns true with v iff it committed the dequeue of v *)
Theorem c15_responses_match_commits : forall cap c, reachable cap c ->
  (forall t, hwf t (hist c) (phase_of (pcs c t))) /\
  enq c = rev (puts_in (hist c)) /\ deq c = rev (gets_in (hist c)).
Proof. intros cap c R. split; [exact (hwf_reach cap c R) | exact (ghost_reach cap c R)]. Qed.
Print Assumptions c15_responses_match_commits.

(** 4. linearizability: the linearization points, in the order they occur, are a legal run of the sequential
       bounded FIFO SpecQueue ending in the abstraction of the current state, and each lies between the invocation
       and the response of its operation (3.) — so the order of the points is a sequential witness that respects
       real-time order *)
Theorem c15_linearizable : forall cap c, reachable cap c ->
  legal cap (hist c) (abs c) /\ (forall t, hwf t (hist c) (phase_of (pcs c t))).
Proof. intros cap c R. split; [exact (legal_reach cap c R) | exact (hwf_reach cap c R)]. Qed.
Print Assumptions c15_linearizable.

(** 5. each producer's accepted items are queued in the order that producer committed them *)
Theorem c15_per_producer_order : forall cap c, reachable cap c -> forall t,
  by_producer t (enq c) = rev (by_producer t (puts_in (hist c))) /\ map snd (enq c) = deq c ++ items c.
Proof. intros cap c R t. split; [exact (per_producer_lemma cap c R t) | exact (fifo_reach cap c R)]. Qed.
Print Assumptions c15_per_producer_order.

(** 6. race freedom: every step that reads or writes queue_/size_/state_ is made by the owner of the mutex *)
Theorem c15_race_free : forall cap c t l c',
  reachable cap c -> step cap c t l c' -> accesses_shared l -> mutex c = Some t.
Proof. exact race_free_lemma. Qed.
Print Assumptions c15_race_free.
Theorem c15_race_free_flag : forall cap c t l c' h,
  reachable cap c -> step cap c t l c' -> held_flag l = Some h -> h = true.
Proof. exact held_flag_true. Qed.
Print Assumptions c15_race_free_flag.
Theorem c15_mutual_exclusion : forall cap c t u,
  reachable cap c -> cs (pcs c t) = true -> cs (pcs c u) = true -> t = u.
Proof. exact cs_unique. Qed.
Print Assumptions c15_mutual_exclusion.

(** 7. the executable transition function (extracted; used to validate recorded traces) is exactly the relation,
       and an accepted trace is the visible part of a run of the model *)
Theorem c15_step_fn_sound : forall cap c t ch l c', step_fn cap c t ch = Some (l, c') -> step cap c t l c'.
Proof. exact step_fn_sound. Qed.
Print Assumptions c15_step_fn_sound.
Theorem c15_step_fn_complete : forall cap c t l c', step cap c t l c' -> exists ch, step_fn cap c t ch = Some (l, c').
Proof. exact step_fn_complete. Qed.
Print Assumptions c15_step_fn_complete.
Theorem c15_accepts_sound : forall cap tr, accepts cap tr = true ->
  exists ls c, steps cap (init 0) ls c /\ visible ls = tr.
Proof. exact accepts_sound. Qed.
Print Assumptions c15_accepts_sound.

(** non-vacuity: a concrete two-thread run (T0 puts 7, T1 gets it) is reachable, commits and responds *)
Definition ex_sched : list (tid * choice) :=
  [(0, ChInvoke (OpPut 7 int64_max 1000000000)); (1, ChInvoke (OpGet int64_max 1000000000));
   (0, ChStep); (0, ChStep); (0, ChStep); (0, ChStep); (0, ChStep); (0, ChNotify None); (0, ChStep);
   (1, ChStep); (1, ChStep); (1, ChStep); (1, ChStep); (1, ChStep); (1, ChNotify None); (1, ChStep)]%nat.
Example c15_run_exists :
  exists ls c, run_sched 1 (init 0) ex_sched = Some (ls, c) /\ reachable 1 c /\
               enq c = [(0%nat, 7%nat)] /\ deq c = [7%nat] /\ items c = [] /\ length (hist c) = 6%nat.
Proof.
  destruct (run_sched 1 (init 0) ex_sched) as [[ls c]|] eqn:E; [|vm_compute in E; discriminate].
  exists ls, c. split; [reflexivity|]. split; [exists 0%Z, ls; eapply run_sched_sound; eauto|].
  vm_compute in E. injection E as <- <-. repeat split; reflexivity.
Qed.
(** the model schedule of the former defect: T1 is in close() holding the mutex at the write of state_ while T2 is at
    the read of is_open(); in the audited (current) source T2 cannot be there without the mutex — it is blocked at XLock *)
Example c15_is_open_blocks_while_close_writes :
  exists c, run_sched 1 (init 0) [(1, ChInvoke OpClose); (1, ChStep); (2, ChInvoke (OpQuery QIsOpen))]%nat = Some c /\
            step_fn 1 (snd c) 2%nat ChStep = None.
Proof. eexists. split; [vm_compute; reflexivity | vm_compute; reflexivity]. Qed.
