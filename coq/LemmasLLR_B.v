(** C12 — generic lookup theory for an arbitrary table [tbl] in an arbitrary format:
    [llr_with tbl t x] is an integer-keyed lookup [zval (zclamp (zin x))]  (theorem [llr_with_zval]);
    properties of the lookup for EVERY argument follow from finite checks over the 0..n bins
    ([bins_lift], [pairs_lift]); the sign clause is reduced to a per-bin interval check in exact
    integer arithmetic on value/2^emin ([sign_chk], [sign_chk_sound]). *)
From Coq Require Import ZArith Lia List Bool Floats.SpecFloat.
From M17 Require Import ConstsLlr ImplLLR LemmasLLR_A.
Import ListNotations.
Open Scope Z_scope.

Lemma last_map_snd : forall (l : list row), last (map snd l) (0, 0) = snd (last l row_dflt).
Proof.
  induction l as [|a l IH]; [reflexivity|]. destruct l as [|b l]; [reflexivity|].
  change (last (map snd (b :: l)) (0, 0) = snd (last (b :: l) row_dflt)). exact IH.
Qed.

Section Lookup.
  Variables prec emax : Z.
  Hypothesis Hprec : 0 < prec.
  Hypothesis Hemax : prec < emax.
  Let t := Fmt prec emax.
  Variable tbl : list row.
  Let ordf := ord prec emax.
  Let keys := map (fun r : row => ordf (fst r)) tbl.
  Let vals := map (@snd spec_float (Z * Z)) tbl.
  Let n := length tbl.
  Definition okv (x : spec_float) : bool := valid_binary prec emax x && negb (is_nan_sf x).
  Hypothesis tbl_valid : forallb (fun r : row => okv (fst r)) tbl = true.
  Hypothesis tbl_sorted : sortedb keys = true.
  Let maxv := sf_conv t llr_max_value.
  Let minv := sf_conv t llr_min_value.
  Hypothesis maxv_ok : okv maxv = true.
  Hypothesis minv_ok : okv minv = true.

  Definition zin (x : spec_float) : Z := if is_nan_sf x then ordf minv else ordf x.
  Definition zclamp (z : Z) : Z := Z.min (ordf maxv) (Z.max (ordf minv) z).
  Definition zrow (i : nat) : Z * Z := if Nat.eqb i n then last vals (0, 0) else nth i vals (0, 0).
  Definition zval (z : Z) : Z * Z := zrow (zidx keys z).

  Lemma okv_split : forall x, okv x = true -> valid_binary prec emax x = true /\ is_nan_sf x = false.
  Proof. intros x H. apply andb_prop in H. destruct H as [H1 H2]. split; [assumption|]. now apply negb_true_iff. Qed.

  Lemma keys_length : length keys = n.
  Proof. unfold keys. apply map_length. Qed.

  Lemma keys_nth : forall i, (i < n)%nat -> nth i keys 0 = ordf (fst (nth i tbl row_dflt)).
  Proof.
    intros i Hi. unfold keys.
    rewrite (nth_indep _ 0 (ordf (fst row_dflt))) by (rewrite map_length; exact Hi).
    apply (map_nth (fun r : row => ordf (fst r))).
  Qed.

  (** the clamped sample: valid, not NaN, and its [ord] is the integer clamp *)
  Lemma clamp_ok : forall x, valid_binary prec emax x = true ->
    let s := std_min maxv (std_max minv x) in
    okv s = true /\ ordf s = zclamp (zin x).
  Proof.
    intros x Vx.
    destruct (okv_split _ maxv_ok) as [Vmax Nmax]. destruct (okv_split _ minv_ok) as [Vmin Nmin].
    assert (M : okv (std_max minv x) = true /\ ordf (std_max minv x) = Z.max (ordf minv) (zin x)).
    { unfold std_max, zin. destruct (is_nan_sf x) eqn:Nx.
      - destruct x; try discriminate. rewrite SFltb_nan_r. split; [exact minv_ok | lia].
      - unfold ordf. rewrite (SFltb_ord prec emax Hprec Hemax) by assumption.
        destruct (Z.ltb_spec (ord prec emax minv) (ord prec emax x)).
        + split; [unfold okv; rewrite Vx, Nx; reflexivity | lia].
        + split; [exact minv_ok | lia]. }
    destruct M as [M1 M2]. destruct (okv_split _ M1) as [Vm Nm].
    cbv zeta. unfold std_min, zclamp. unfold ordf in *.
    rewrite (SFltb_ord prec emax Hprec Hemax) by assumption.
    destruct (Z.ltb_spec (ord prec emax (std_max minv x)) (ord prec emax maxv)).
    - split; [exact M1 | lia].
    - split; [exact maxv_ok | lia].
  Qed.

  Lemma lookup_idx : forall s, okv s = true ->
    lower_bound row (fun e => SFltb (fst e) s) row_dflt tbl = zidx keys (ordf s).
  Proof.
    intros s Hs. destruct (okv_split _ Hs) as [Vs Ns].
    apply lower_bound_spec.
    - pose proof (zidx_le_length keys (ordf s)) as Hl. rewrite keys_length in Hl. exact Hl.
    - intros i Hi. change (i < n)%nat in Hi.
      assert (Hin : In (nth i tbl row_dflt) tbl) by (apply nth_In; exact Hi).
      pose proof (proj1 (forallb_forall _ _) tbl_valid _ Hin) as Hv. destruct (okv_split _ Hv) as [Vr Nr].
      rewrite (SFltb_ord prec emax Hprec Hemax) by assumption.
      fold ordf. rewrite <- keys_nth by exact Hi.
      apply zidx_partition; [exact tbl_sorted | rewrite keys_length; exact Hi].
  Qed.

  Theorem llr_with_zval : forall x, valid_binary prec emax x = true ->
    llr_with tbl t x = zval (zclamp (zin x)).
  Proof.
    intros x Vx. destruct (clamp_ok x Vx) as [Hs Ho]. cbv zeta in Hs, Ho.
    unfold llr_with. fold maxv minv. rewrite (lookup_idx _ Hs). rewrite Ho.
    unfold zval, zrow. fold n.
    destruct (Nat.eqb (zidx keys (zclamp (zin x))) n).
    - symmetry. apply last_map_snd.
    - symmetry. unfold vals. change (0, 0) with (snd row_dflt). apply map_nth.
  Qed.

  (** * bins: index i in 0..n covers keys[i-1] < z <= keys[i] *)
  Definition bin_lo (i : nat) : option Z := match i with O => None | S j => Some (nth j keys 0) end.
  Definition bin_hi (i : nat) : option Z := if Nat.ltb i n then Some (nth i keys 0) else None.
  Definition in_bin (lo hi : option Z) (z : Z) : Prop :=
    match lo with Some l => l < z | None => True end /\ match hi with Some h => z <= h | None => True end.

  Lemma zidx_in_bin : forall z, in_bin (bin_lo (zidx keys z)) (bin_hi (zidx keys z)) z.
  Proof.
    intro z. split.
    - unfold bin_lo. destruct (zidx keys z) as [|j] eqn:E; [exact I|]. apply zidx_below. lia.
    - unfold bin_hi. destruct (Nat.ltb_spec (zidx keys z) n); [|exact I]. apply zidx_at. rewrite keys_length. assumption.
  Qed.

  Lemma zidx_le_n : forall z, (zidx keys z <= n)%nat.
  Proof. intro z. rewrite <- keys_length. apply zidx_le_length. Qed.

  (** a property of (argument, result) holds for every argument if each bin passes a sound check *)
  Theorem bins_lift : forall (Q : Z -> Z * Z -> Prop) (chk : option Z -> option Z -> Z * Z -> bool),
    (forall lo hi v z, chk lo hi v = true -> in_bin lo hi z -> Q z v) ->
    forallb (fun i => chk (bin_lo i) (bin_hi i) (zrow i)) (seq 0 (S n)) = true ->
    forall z, Q z (zval z).
  Proof.
    intros Q chk Hsound Hall z. unfold zval.
    apply (Hsound (bin_lo (zidx keys z)) (bin_hi (zidx keys z))); [|apply zidx_in_bin].
    apply (proj1 (forallb_forall _ _) Hall). apply in_seq. pose proof (zidx_le_n z). lia.
  Qed.

  (** a relation between the results at z1 <= z2 holds if it holds for every pair of bins i <= j inside [ilo, ihi] *)
  Theorem pairs_lift : forall (R : Z * Z -> Z * Z -> bool) (ilo ihi : nat),
    forallb (fun i => forallb (fun j => implb (Nat.leb ilo i && Nat.leb i j && Nat.leb j ihi) (R (zrow i) (zrow j)))
                              (seq 0 (S n))) (seq 0 (S n)) = true ->
    forall z1 z2, z1 <= z2 -> (ilo <= zidx keys z1)%nat -> (zidx keys z2 <= ihi)%nat ->
    R (zval z1) (zval z2) = true.
  Proof.
    intros R ilo ihi Hall z1 z2 Hz H1 H2. unfold zval.
    pose proof (zidx_mono keys z1 z2 Hz) as Hm. pose proof (zidx_le_n z1). pose proof (zidx_le_n z2).
    pose proof (proj1 (forallb_forall _ _) Hall (zidx keys z1) ltac:(apply in_seq; lia)) as Hi.
    pose proof (proj1 (forallb_forall _ _) Hi (zidx keys z2) ltac:(apply in_seq; lia)) as Hj.
    cbv beta in Hj.
    replace (Nat.leb ilo (zidx keys z1)) with true in Hj by (symmetry; apply Nat.leb_le; lia).
    replace (Nat.leb (zidx keys z1) (zidx keys z2)) with true in Hj by (symmetry; apply Nat.leb_le; lia).
    replace (Nat.leb (zidx keys z2) ihi) with true in Hj by (symmetry; apply Nat.leb_le; lia).
    exact Hj.
  Qed.

  Lemma zclamp_mono : forall z1 z2, z1 <= z2 -> zclamp z1 <= zclamp z2.
  Proof. intros. unfold zclamp. lia. Qed.
  Lemma zclamp_above : forall z, ordf maxv <= z -> zclamp z = zclamp (ordf maxv).
  Proof. intros. unfold zclamp. lia. Qed.
  Lemma zclamp_below : forall z, z <= ordf minv -> zclamp z = zclamp (ordf minv).
  Proof. intros. unfold zclamp. lia. Qed.
  Lemma zclamp_inside : forall z, ordf minv <= z <= ordf maxv -> zclamp z = z.
  Proof. intros. unfold zclamp. lia. Qed.
End Lookup.

(** * the sign clause on scaled integers (z = value * S, S = 2^-emin > 0) *)
Section SignZ.
  Variable S : Z.
  Hypothesis HS : 0 < S.
  Definition EPSDEN : Z := 1000000.

  (** farther than 1e-6 from b (b an integer boundary):  |z - b S| * 10^6 > S *)
  Definition zfar (b z : Z) : Prop := Z.abs (z - b * S) * EPSDEN > S.
  Definition zguard (z : Z) : Prop := zfar 0 z /\ zfar 2 z /\ zfar (-2) z.
  (** decision regions of 4-FSK as (first bit, second bit) *)
  Definition zregion (z : Z) : bool * bool :=
    if z <? -2 * S then (true, true) else if z <? 0 then (true, false) else if z <? 2 * S then (false, false) else (false, true).
  Definition signs (v : Z * Z) : bool * bool := (0 <? fst v, 0 <? snd v).

  (** region of a sign pattern as (lower boundary, upper boundary) in units of S; None = unbounded *)
  Definition region_bounds (r : bool * bool) : option Z * option Z :=
    match r with
    | (true, true) => (None, Some (-2))
    | (true, false) => (Some (-2), Some 0)
    | (false, false) => (Some 0, Some 2)
    | (false, true) => (Some 2, None)
    end.

  (** the bin (lo, hi] may stick out of the region of its sign pattern by at most 1e-6 *)
  Definition sign_chk (lo hi : option Z) (v : Z * Z) : bool :=
    let '(rl, rh) := region_bounds (signs v) in
    match rl, lo with
    | None, _ => true
    | Some b, Some l => (b * S - l) * EPSDEN <=? S
    | Some _, None => false
    end &&
    match rh, hi with
    | None, _ => true
    | Some b, Some h => (h - b * S) * EPSDEN <=? S
    | Some _, None => false
    end.

  Lemma sign_chk_sound : forall lo hi v z, sign_chk lo hi v = true -> in_bin lo hi z -> zguard z -> signs v = zregion z.
  Proof.
    intros lo hi v z Hc [Hl Hh] (G0 & G2 & Gm2). unfold sign_chk in Hc. unfold zfar, EPSDEN in *.
    unfold zregion.
    destruct (signs v) as [[|] [|]]; cbn [region_bounds] in Hc; apply andb_prop in Hc; destruct Hc as [C1 C2];
      destruct lo as [l|]; destruct hi as [h|]; try discriminate;
      repeat match goal with H : (_ <=? _) = true |- _ => apply Z.leb_le in H end;
      repeat match goal with |- context [?a <? ?b] => destruct (Z.ltb_spec a b) end; try reflexivity; exfalso; lia.
  Qed.
End SignZ.
