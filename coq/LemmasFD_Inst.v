(** The Section theorems about the frame decoder, instantiated for the mirrors of the real stages. *)
From Coq Require Import NArith ZArith List Bool Lia.
From M17 Require Import Bits ImplCRC ConstsCrc ImplFrameDecoder SpecFrames ImplViterbi FrameDecoderInst
  LemmasFD_Hidden LemmasFD_LSF LemmasFD_Lich LemmasFD_Refine.
Import ListNotations.

Notation VS := scratch.
Definition fd_hid_ok (s : fd_state) : Prop := hid_ok scratch wf_scratch (d_hid scratch s).
Definition fd_same_visible (s s' : fd_state) : Prop := same_visible scratch s s'.
Definition fd_observe := ImplFrameDecoder.observe scratch.
Definition fd_st_of := ImplFrameDecoder.st_of scratch.

Lemma fd_init_ok : fd_hid_ok fd_init.
Proof. unfold fd_hid_ok, hid_ok, fd_init, fd_hidden0. cbn [d_hid h_dbuf h_obuf h_ubuf h_vs]. rewrite !repeat_length.
  repeat split. Qed.

Lemma fd_step_hidden_indep s s' sw fr r : fd_same_visible s s' -> fd_hid_ok s -> fd_hid_ok s' ->
  fd_observe (fd_step s sw fr r) = fd_observe (fd_step s' sw fr r) /\
  fd_same_visible (fd_st_of (fd_step s sw fr r)) (fd_st_of (fd_step s' sw fr r)) /\
  fd_hid_ok (fd_st_of (fd_step s sw fr r)) /\ fd_hid_ok (fd_st_of (fd_step s' sw fr r)).
Proof. exact (step_hidden_indep scratch fd_derandomize fd_deinterleave fd_depuncture fd_viterbi fd_golay wf_scratch
                fd_depuncture_indep fd_depuncture_len fd_viterbi_indep fd_viterbi_len s s' sw fr r). Qed.

Lemma fd_run_hidden_indep h s s' : fd_same_visible s s' -> fd_hid_ok s -> fd_hid_ok s' ->
  fst (fd_run s h) = fst (fd_run s' h).
Proof. exact (run_hidden_indep scratch fd_derandomize fd_deinterleave fd_depuncture fd_viterbi fd_golay wf_scratch
                fd_depuncture_indep fd_depuncture_len fd_viterbi_indep fd_viterbi_len h s s'). Qed.

(* the documented state machine with the pipeline run on clean buffers as "specification decoder" *)
Definition sm_dec := spec_dec scratch scratch0 fd_depuncture fd_viterbi.
Definition sm_lich := spec_lich fd_golay.
Definition sm_prep := spec_prep fd_derandomize fd_deinterleave.
Definition sm_step_fd := sm_step sm_prep sm_dec sm_lich spec_crc_ok.
Definition sm_run_fd := sm_run sm_prep sm_dec sm_lich spec_crc_ok.
Definition fd_abs (s : fd_state) : sm_state := abs scratch s.

Lemma fd_step_refines_sm s sw fr r : fd_hid_ok s ->
  fd_observe (fd_step s sw fr r) = sm_observe (sm_step_fd (fd_abs s) sw fr r) /\
  fd_abs (fd_st_of (fd_step s sw fr r)) = fst (fst (fst (sm_step_fd (fd_abs s) sw fr r))) /\
  fd_hid_ok (fd_st_of (fd_step s sw fr r)).
Proof. exact (step_refines_sm scratch scratch0 fd_derandomize fd_deinterleave fd_depuncture fd_viterbi fd_golay wf_scratch
                scratch0_ok fd_depuncture_indep fd_depuncture_len fd_viterbi_indep fd_viterbi_len s sw fr r). Qed.

Lemma fd_run_refines_sm h s : fd_hid_ok s -> fst (fd_run s h) = sm_run_fd (fd_abs s) h.
Proof. exact (run_refines_sm scratch scratch0 fd_derandomize fd_deinterleave fd_depuncture fd_viterbi fd_golay wf_scratch
                scratch0_ok fd_depuncture_indep fd_depuncture_len fd_viterbi_indep fd_viterbi_len h s). Qed.

(* C05 *)
Lemma fd_lsf_callback_crc_ok s sw fr r cb :
  In cb (cbs_of scratch (fd_step s sw fr r)) -> cb_type cb = FLsf -> crc30 (cb_bytes cb) = 0%N.
Proof. exact (lsf_callback_crc_ok scratch fd_derandomize fd_deinterleave fd_depuncture fd_viterbi fd_golay s sw fr r cb). Qed.

Lemma fd_lsf_callback_crc_ok_history h s obs cb :
  In obs (fst (fd_run s h)) -> In cb (snd obs) -> cb_type cb = FLsf -> crc30 (cb_bytes cb) = 0%N.
Proof. exact (lsf_callback_crc_ok_history scratch fd_derandomize fd_deinterleave fd_depuncture fd_viterbi fd_golay h s obs cb). Qed.

(* ---- C05: LICH unpacking with the real Golay decoder (uses C04) *)
From M17 Require Import ImplGolay SpecGolay LemmasGolay_E LemmasGolay_F.

Lemma fd_unpack_lich_corrects fr (w0 w1 w2 w3 e0 e1 e2 e3 : N) :
  (w0 < 4096 -> w1 < 4096 -> w2 < 4096 -> w3 < 4096 ->
   e0 < 2 ^ 24 -> e1 < 2 ^ 24 -> e2 < 2 ^ 24 -> e3 < 2 ^ 24 ->
   (weight e0 <= 3 -> weight e1 <= 3 -> weight e2 <= 3 -> weight e3 <= 3 ->
   codeword fr 0 = N.lxor (golay_encode24 w0) e0 -> codeword fr 1 = N.lxor (golay_encode24 w1) e1 ->
   codeword fr 2 = N.lxor (golay_encode24 w2) e2 -> codeword fr 3 = N.lxor (golay_encode24 w3) e3 ->
   unpack_lich fd_golay fr = (lich_of_words w0 w1 w2 w3, true)))%N.
Proof. intros W0 W1 W2 W3 E0 E1 E2 E3 K0 K1 K2 K3 C0 C1 C2 C3.
  destruct (x_decode_corrects w0 e0 W0 E0 K0) as (o0 & G0 & D0).
  destruct (x_decode_corrects w1 e1 W1 E1 K1) as (o1 & G1 & D1).
  destruct (x_decode_corrects w2 e2 W2 E2 K2) as (o2 & G2 & D2).
  destruct (x_decode_corrects w3 e3 W3 E3 K3) as (o3 & G3 & D3).
  rewrite <- C0 in G0. rewrite <- C1 in G1. rewrite <- C2 in G2. rewrite <- C3 in G3.
  rewrite (unpack_lich_words fd_golay fr o0 o1 o2 o3 G0 G1 G2 G3). rewrite D0, D1, D2, D3. reflexivity. Qed.

Lemma fd_unpack_lich_bits (fr : list Z) (q0 q1 q2 q3 : list bool) (e0 e1 e2 e3 : N) :
  (length q0 = 12%nat -> length q1 = 12%nat -> length q2 = 12%nat -> length q3 = 12%nat ->
  e0 < 2 ^ 24 -> e1 < 2 ^ 24 -> e2 < 2 ^ 24 -> e3 < 2 ^ 24 ->
  weight e0 <= 3 -> weight e1 <= 3 -> weight e2 <= 3 -> weight e3 <= 3 ->
  codeword fr 0 = N.lxor (golay_encode24 (bits_N q0)) e0 -> codeword fr 1 = N.lxor (golay_encode24 (bits_N q1)) e1 ->
  codeword fr 2 = N.lxor (golay_encode24 (bits_N q2)) e2 -> codeword fr 3 = N.lxor (golay_encode24 (bits_N q3)) e3 ->
  unpack_lich fd_golay fr = (pack_bits (q0 ++ q1 ++ q2 ++ q3), true))%N.
Proof. intros L0 L1 L2 L3 E0 E1 E2 E3 K0 K1 K2 K3 C0 C1 C2 C3.
  assert (B : forall q, length q = 12%nat -> (bits_N q < 4096)%N).
  { intros q Lq. pose proof (all_lists_spec 12 (fun q => N.ltb (bits_N q) 4096) ltac:(vm_cast_no_check (eq_refl true)) q Lq) as H.
    apply N.ltb_lt in H. exact H. }
  rewrite (fd_unpack_lich_corrects fr _ _ _ _ e0 e1 e2 e3 (B _ L0) (B _ L1) (B _ L2) (B _ L3) E0 E1 E2 E3 K0 K1 K2 K3 C0 C1 C2 C3).
  rewrite lich_of_words_bits by assumption. reflexivity. Qed.

Lemma fd_consts_c05 : (ConstsFramedecoder.max_lich_fragment = 5 /\ ConstsFramedecoder.seg_mask = 63 /\
  ConstsFramedecoder.seg_full = 63 /\ ConstsFramedecoder.frag_shift = 5 /\ ConstsFramedecoder.frag_mask = 7)%N /\
  ConstsFramedecoder.frag_copy_len = 5%nat /\ ConstsFramedecoder.frag_stride = 5%nat.
Proof. repeat split; reflexivity. Qed.
