(** The Section theorems about the frame decoder, instantiated for the mirrors of the real stages. *)
From Coq Require Import NArith ZArith List Bool Lia.
From M17 Require Import Bits ImplCRC ConstsCrc ImplFrameDecoder SpecFrames ImplViterbi FrameDecoderInst
  LemmasFD_Hidden LemmasFD_LSF LemmasFD_Lich LemmasFD_Refine.
Import ListNotations.

Notation VS := scratch.
Definition fd_hid_ok (s : fd_state) : Prop := hid_ok scratch wf_scratch (d_hid scratch s).
Definition fd_same_visible (s s' : fd_state) : Prop := same_visible scratch s s'.
Definition fd_observe := ImplFrameDecoder.observe scratch.
Definition fd_st_of := ImplFrameDecoder.st_of scratch.

Lemma fd_init_ok : fd_hid_ok fd_init.
Proof. unfold fd_hid_ok, hid_ok, fd_init, fd_hidden0. cbn [d_hid h_dbuf h_obuf h_ubuf h_vs]. rewrite !repeat_length.
  repeat split. Qed.

Lemma fd_step_hidden_indep s s' sw fr r : fd_same_visible s s' -> fd_hid_ok s -> fd_hid_ok s' ->
  fd_observe (fd_step s sw fr r) = fd_observe (fd_step s' sw fr r) /\
  fd_same_visible (fd_st_of (fd_step s sw fr r)) (fd_st_of (fd_step s' sw fr r)) /\
  fd_hid_ok (fd_st_of (fd_step s sw fr r)) /\ fd_hid_ok (fd_st_of (fd_step s' sw fr r)).
Proof. exact (step_hidden_indep scratch fd_derandomize fd_deinterleave fd_depuncture fd_viterbi fd_golay wf_scratch
                fd_depuncture_indep fd_depuncture_len fd_viterbi_indep fd_viterbi_len s s' sw fr r). Qed.

Lemma fd_run_hidden_indep h s s' : fd_same_visible s s' -> fd_hid_ok s -> fd_hid_ok s' ->
  fst (fd_run s h) = fst (fd_run s' h).
Proof. exact (run_hidden_indep scratch fd_derandomize fd_deinterleave fd_depuncture fd_viterbi fd_golay wf_scratch
                fd_depuncture_indep fd_depuncture_len fd_viterbi_indep fd_viterbi_len h s s'). Qed.

(* the documented state machine with the pipeline run on clean buffers as "specification decoder" *)
Definition sm_dec := spec_dec scratch scratch0 fd_depuncture fd_viterbi.
Definition sm_lich := spec_lich fd_golay.
Definition sm_prep := spec_prep fd_derandomize fd_deinterleave.
Definition sm_step_fd := sm_step sm_prep sm_dec sm_lich spec_crc_ok.
Definition sm_run_fd := sm_run sm_prep sm_dec sm_lich spec_crc_ok.
Definition fd_abs (s : fd_state) : sm_state := abs scratch s.

Lemma fd_step_refines_sm s sw fr r : fd_hid_ok s ->
  fd_observe (fd_step s sw fr r) = sm_observe (sm_step_fd (fd_abs s) sw fr r) /\
  fd_abs (fd_st_of (fd_step s sw fr r)) = fst (fst (fst (sm_step_fd (fd_abs s) sw fr r))) /\
  fd_hid_ok (fd_st_of (fd_step s sw fr r)).
Proof. exact (step_refines_sm scratch scratch0 fd_derandomize fd_deinterleave fd_depuncture fd_viterbi fd_golay wf_scratch
                scratch0_ok fd_depuncture_indep fd_depuncture_len fd_viterbi_indep fd_viterbi_len s sw fr r). Qed.

Lemma fd_run_refines_sm h s : fd_hid_ok s -> fst (fd_run s h) = sm_run_fd (fd_abs s) h.
Proof. exact (run_refines_sm scratch scratch0 fd_derandomize fd_deinterleave fd_depuncture fd_viterbi fd_golay wf_scratch
                scratch0_ok fd_depuncture_indep fd_depuncture_len fd_viterbi_indep fd_viterbi_len h s). Qed.

(* C05 *)
Lemma fd_lsf_callback_crc_ok s sw fr r cb :
  In cb (cbs_of scratch (fd_step s sw fr r)) -> cb_type cb = FLsf -> crc30 (cb_bytes cb) = 0%N.
Proof. exact (lsf_callback_crc_ok scratch fd_derandomize fd_deinterleave fd_depuncture fd_viterbi fd_golay s sw fr r cb). Qed.

Lemma fd_lsf_callback_crc_ok_history h s obs cb :
  In obs (fst (fd_run s h)) -> In cb (snd obs) -> cb_type cb = FLsf -> crc30 (cb_bytes cb) = 0%N.
Proof. exact (lsf_callback_crc_ok_history scratch fd_derandomize fd_deinterleave fd_depuncture fd_viterbi fd_golay h s obs cb). Qed.
